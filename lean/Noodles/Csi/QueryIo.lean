import Noodles.Bgzf.AsyncReader
import Noodles.Bgzf.ChunkRead
/-!
# The chunk readers `csi::io::Query` (sync) and `csi::async::io::Query` (async) (model for C16)

Transcribed from
* noodles-csi `src/io/query.rs` — `Query::fill_buf` / `consume`: `State::{Seek, Read(end), Done}` over
  `chunks: vec::IntoIter<Chunk>`; generic in the BGZF reader (`R: bgzf::io::BufRead + bgzf::io::Seek`),
  so the transcription `fillBufG` is generic in the reader's `seek` / `fill_buf` too;
* noodles-csi `src/async/io/query.rs` — `Query::poll_fill_buf` / `consume`:
  `State::{Seek, Seeking(chunk), Read(end), Done}`;
* noodles-bgzf `src/async/io/reader.rs` — `Reader::poll_seek` with `SeekState::{Init, Seek, Finish}`
  (as it is after 59e158a: a completed seek goes back to `Init`), `set_block`;
  `src/async/io/reader/inflater.rs` — `Inflater::poll_seek` (`is_seeking`, two `poll_complete`s
  around `start_seek`, `read_buffer_mut().clear()`).

The BGZF readers underneath are the existing models: `Noodles.Bgzf.RM` (sync, C02) and
`Noodles.Bgzf.Async` (async poll machine over a scripted source).  Neither chunk reader clips what
it hands out at the chunk end: `fill_buf` returns the reader's whole buffer whenever
`virtual_position() < chunk.end()`, i.e. the chunk end is tested once per refill.

Quirks kept: an empty chunk list goes straight to `Done`; an empty chunk (`start = end`) still
seeks; chunks are served in list order whatever their order in the file (overlapping / reversed
chunks deliver data twice / backwards); at the end of the stream inside a chunk `fill_buf` returns
the empty slice WITHOUT moving to the next chunk (the next call tests the position again); a failed
seek leaves the sync reader in `Seek` with the chunk consumed, the async one in `Seeking(chunk)`;
`poll_seek` keeps its progress in the *reader*, so a `Query` dropped while its seek is pending
leaves a half-done seek behind that the next `poll_seek` resumes — whatever its target.
-/
namespace Noodles.Csi.QueryIo
open Noodles.Bgzf.RM Noodles.Bgzf.Async Noodles.Bgzf.ChunkRead

variable {α : Type}

/-- `bin::Chunk`: `[start, end)` as virtual positions (compressed, uncompressed) -/
structure Chunk where
  s : VPos
  e : VPos
  deriving Repr, DecidableEq

/-- what one `fill_buf().await` (+ `consume`) of a query reader yields -/
inductive QOut (α : Type)
  | bytes (b : List α) | err (e : Err) | starved | panic
  deriving Repr, DecidableEq

/-! ## sync: `csi::io::Query` -/

/-- `io::query::State` -/
inductive SSt | seek | read (ce : VPos) | done
  deriving Repr, DecidableEq

structure SQ (α : Type) where
  r : R α
  chunks : List Chunk
  st : SSt
  deriving Repr

/-- `Query::new` -/
def SQ.new (r : R α) (chunks : List Chunk) : SQ α := ⟨r, chunks, .seek⟩

/-- `BufRead::fill_buf` for `Query` — the `loop { match self.state … }`.  `seekF` / `fillF` are the
reader's `seek_to_virtual_position` / `fill_buf`.  A failing seek returns through `?` inside the
right-hand side of `self.state = …`: the chunk is consumed, the state is still `Seek`.  Each round
either takes a chunk or leaves `Read`, so `2 * chunks + 3` rounds suffice. -/
def fillBufG (seekF : R α → Nat → Nat → R α × Option Err) (fillF : R α → R α × List α) :
    Nat → SQ α → SQ α × Except Err (List α)
  | 0, q => (q, .ok [])
  | fuel+1, q =>
    match q.st with
    | .seek =>
      match q.chunks with
      | [] => fillBufG seekF fillF fuel { q with st := .done }
      | c :: cs =>
        match seekF q.r c.s.1 c.s.2 with
        | (r', some e) => (⟨r', cs, .seek⟩, .error e)
        | (r', none) => fillBufG seekF fillF fuel ⟨r', cs, .read c.e⟩
    | .read ce =>
      if vlt (tell q.r) ce then
        (⟨(fillF q.r).1, q.chunks, .read ce⟩, .ok (fillF q.r).2)
      else fillBufG seekF fillF fuel { q with st := .seek }
    | .done => (q, .ok [])

def qFuel (chunks : List Chunk) : Nat := 2 * chunks.length + 3

/-- a consumer: `fill_buf`, then `consume(min n len)`, for every `n`; it stops at the first error
(what a failed query reader does afterwards is not compared).  Returns the results and the BGZF
reader's final state. -/
def runG (seekF : R α → Nat → Nat → R α × Option Err) (fillF : R α → R α × List α) :
    SQ α → List Nat → List (QOut α) × R α
  | q, [] => ([], q.r)
  | q, n :: ns =>
    match fillBufG seekF fillF (qFuel q.chunks) q with
    | (q', .error e) => ([.err e], q'.r)
    | (q', .ok bs) =>
      let rest := runG seekF fillF { q' with r := consume (min n bs.length) q'.r } ns
      (.bytes bs :: rest.1, rest.2)

/-- the sync query reader over the sync BGZF reader -/
def runS (L : Layout α) (r : R α) (chunks : List Chunk) (ns : List Nat) : List (QOut α) × R α :=
  runG (Noodles.Bgzf.RM.seek L) (fillBuf L) (SQ.new r chunks) ns

/-- the same state machine over the *sequential reading* of the async BGZF reader (`seekA`,
`fillBufA`): what the async query reader computes when nothing is ever `Pending` -/
def runSeq (L : Layout α) (r : R α) (chunks : List Chunk) (ns : List Nat) : List (QOut α) × R α :=
  runG (seekA L) (fillBufA L) (SQ.new r chunks) ns

/-! ## async: `bgzf::async::io::Reader::poll_seek` -/

/-- `SeekState` of the async BGZF reader, with what each state holds: `seek0` = `Seek(blocks)`,
`is_seeking = false`; `seek1 c` = `Seek(blocks)`, `is_seeking = true` after `start_seek(c)`;
`finish k` = `Finish(stream)`, a fresh `TryBuffered` whose next block is member `k` (`none`: the
source stands inside a member — the stream frames garbage); `poisoned` = `None`, left by the early
`return Poll::Ready(Err(_))`s after `seek_state.take()` (the next `poll_seek` panics on `unwrap`). -/
inductive SeekSt | init | seek0 | seek1 (c : Nat) | finish (k : Option Nat) | poisoned
  deriving Repr, DecidableEq

/-- the async BGZF reader with its seek progress -/
structure ARS (α : Type) where
  a : AR α
  ss : SeekSt
  deriving Repr

/-- the script: `sd` as for the reader; `sk` = one entry per `poll_complete` of the source's
`AsyncSeek` (`false` = `Pending`); exhausted = ready -/
structure QSched where
  sd : Sched
  sk : List Bool
  deriving Repr

def QSched.measure (qs : QSched) : Nat := qs.sd.measure + qs.sk.length

inductive PSeek | pending | ok | err (e : Err) | panic
  deriving Repr, DecidableEq

/-- `Reader::set_block(block, pos)` — `none` = `Block::default()` at the end of the stream -/
def setBlock (k : Nat) (ob : Option (Blk α)) (c u : Nat) : R α × Option Err :=
  let r' : R α := match ob with
    | some b => ⟨k + 1, c + b.csize, c, b.csize, b.data, 0⟩
    | none => ⟨k, c, c, 0, [], 0⟩
  if u > r'.data.length then (r', some .invalidInput) else ({ r' with cur := u }, none)

/-- one `poll_seek(cx, pos)` with `pos = (c, u)`: the `loop` over `SeekState` (at most 4 rounds).
While the state is `seek0`/`seek1`/`finish` the reader has no stream (`a.p` is meaningless in
`seek0`/`seek1`, and is the NEW stream's pipe in `finish`). -/
def pollSeek (L : Layout α) (w : Nat) : Nat → ARS α → QSched → Nat → Nat → ARS α × QSched × PSeek
  | 0, x, qs, _, _ => (x, qs, .pending)
  | fuel+1, x, qs, c, u =>
    match x.ss with
    | .init => pollSeek L w fuel { x with ss := .seek0 } qs c u   -- stream.take().into_inner(): in-flight inflates dropped
    | .seek0 =>
      -- Inflater::poll_seek, !is_seeking: poll_complete, then start_seek(c)
      match qs.sk with
      | false :: sk' => (x, { qs with sk := sk' }, .pending)
      | _ :: sk' => pollSeek L w fuel { x with ss := .seek1 c } { qs with sk := sk' } c u
      | [] => pollSeek L w fuel { x with ss := .seek1 c } qs c u
    | .seek1 c0 =>
      -- the second poll_complete; then the framing buffer is cleared and a new TryBuffered built
      -- at the position of the seek that was STARTED (`c0`), whatever `pos` is now
      match qs.sk with
      | false :: sk' => (x, { qs with sk := sk' }, .pending)
      | _ :: sk' =>
        pollSeek L w fuel ⟨⟨x.a.r, ⟨c0, (memberAt L c0).getD 0, false⟩⟩, .finish (memberAt L c0)⟩
          { qs with sk := sk' } c u
      | [] =>
        pollSeek L w fuel ⟨⟨x.a.r, ⟨c0, (memberAt L c0).getD 0, false⟩⟩, .finish (memberAt L c0)⟩ qs c u
    | .finish none => ({ x with ss := .init }, qs, .err .badSeek)   -- after fix (bgzf async poll_seek put the stream and `Init` back): see known_findings F-C16
    | .finish (some k) =>
      match pollNext L w k x.a.p qs.sd with
      | (p', sd', .pending) => (⟨⟨x.a.r, p'⟩, .finish (some k)⟩, { qs with sd := sd' }, .pending)
      | (p', sd', .item b) =>
        match setBlock k (some b) c u with
        | (r', none) => (⟨⟨r', p'⟩, .init⟩, { qs with sd := sd' }, .ok)
        | (r', some e) => (⟨⟨r', p'⟩, .init⟩, { qs with sd := sd' }, .err e)
      | (p', sd', .done) =>
        match setBlock k none c u with
        | (r', none) => (⟨⟨r', p'⟩, .init⟩, { qs with sd := sd' }, .ok)
        | (r', some e) => (⟨⟨r', p'⟩, .init⟩, { qs with sd := sd' }, .err e)
    | .poisoned => (x, qs, .panic)

/-! ## async: `csi::async::io::Query` -/

/-- `async::io::query::State` -/
inductive ASt | seek | seeking (c : Chunk) | read (ce : VPos) | done
  deriving Repr, DecidableEq

structure AQ (α : Type) where
  x : ARS α
  chunks : List Chunk
  st : ASt
  deriving Repr

/-- `Query::new` -/
def AQ.new (x : ARS α) (chunks : List Chunk) : AQ α := ⟨x, chunks, .seek⟩

inductive QPoll (α : Type) | pending | ready (b : List α) | err (e : Err) | panic
  deriving Repr

/-- `AsyncBufRead::poll_fill_buf` for `Query` — `loop { *this.state = match this.state … }`.
`ready!(poll_seek)?` returns out of the right-hand side: on `Pending` and on an error the state
stays `Seeking(chunk)`.  In `Read` with the position before the chunk end the reader's own
`poll_fill_buf` is returned as is (`Pending` included).  (`Read` is only entered after a completed
`poll_seek`, so the reader has its stream there.) -/
def pollFillQ (L : Layout α) (w : Nat) : Nat → AQ α → QSched → AQ α × QSched × QPoll α
  | 0, q, qs => (q, qs, .pending)
  | fuel+1, q, qs =>
    match q.st with
    | .seek =>
      match q.chunks with
      | [] => pollFillQ L w fuel { q with st := .done } qs
      | c :: cs => pollFillQ L w fuel ⟨q.x, cs, .seeking c⟩ qs
    | .seeking c =>
      match pollSeek L w 5 q.x qs c.s.1 c.s.2 with
      | (x', qs', .pending) => ({ q with x := x' }, qs', .pending)
      | (x', qs', .err e) => ({ q with x := x' }, qs', .err e)
      | (x', qs', .panic) => ({ q with x := x' }, qs', .panic)
      | (x', qs', .ok) => pollFillQ L w fuel ⟨x', q.chunks, .read c.e⟩ qs'
    | .read ce =>
      if vlt (tell q.x.a.r) ce then
        match pollFillBuf L w (fbFuel L q.x.a) q.x.a qs.sd with
        | (a', sd', .pending) => ({ q with x := ⟨a', q.x.ss⟩ }, { qs with sd := sd' }, .pending)
        | (a', sd', .ready bs) => ({ q with x := ⟨a', q.x.ss⟩ }, { qs with sd := sd' }, .ready bs)
      else pollFillQ L w fuel { q with st := .seek } qs
    | .done => (q, qs, .ready [])

def qFuelA (chunks : List Chunk) : Nat := 3 * chunks.length + 4

/-- `fill_buf().await`: poll until `Ready` (the adversary wakes immediately) -/
def driveFillQ (L : Layout α) (w : Nat) : Nat → AQ α → QSched → AQ α × QSched × QOut α
  | 0, q, qs => (q, qs, .starved)
  | fuel+1, q, qs =>
    match pollFillQ L w (qFuelA q.chunks) q qs with
    | (q', qs', .pending) => driveFillQ L w fuel q' qs'
    | (q', qs', .ready bs) => (q', qs', .bytes bs)
    | (q', qs', .err e) => (q', qs', .err e)
    | (q', qs', .panic) => (q', qs', .panic)

/-- `consume(amt)`: forwarded to the reader -/
def AQ.consume (n : Nat) (q : AQ α) : AQ α :=
  { q with x := ⟨⟨Noodles.Bgzf.RM.consume n q.x.a.r, q.x.a.p⟩, q.x.ss⟩ }

/-- the same consumer as `runG` on the async query reader, under a script -/
def runAQ (L : Layout α) (w : Nat) : AQ α → QSched → List Nat → List (QOut α) × ARS α
  | q, _, [] => ([], q.x)
  | q, qs, n :: ns =>
    match driveFillQ L w (qs.measure + 1) q qs with
    | (q', qs', .bytes bs) =>
      let rest := runAQ L w (q'.consume (min n bs.length)) qs' ns
      (.bytes bs :: rest.1, rest.2)
    | (q', _, o) => ([o], q'.x)

/-- the async query reader on a reader that is not in the middle of a seek -/
def runA (L : Layout α) (w : Nat) (a : AR α) (qs : QSched) (chunks : List Chunk) (ns : List Nat) :
    List (QOut α) × ARS α :=
  runAQ L w (AQ.new ⟨a, .init⟩ chunks) qs ns

/-- **cancellation**: the future `fill_buf()` of a first query over `chunks0` is polled `polls`
times and then dropped together with the query (e.g. by `tokio::select!` / a timeout); returns the
reader as it is left behind -/
def abandon (L : Layout α) (w : Nat) : Nat → AQ α → QSched → ARS α × QSched
  | 0, q, qs => (q.x, qs)
  | polls+1, q, qs =>
    match pollFillQ L w (qFuelA q.chunks) q qs with
    | (q', qs', .pending) => abandon L w polls q' qs'
    | (q', qs', _) => (q'.x, qs')

/-! ## specification vocabulary -/

/-- A chunk end the chunk readers can test reliably: it does not lie in `((Y,0), (Z,0)]` for an EMPTY
member occupying `[Y, Z)` of the file.  (When the async reader's `poll_fill_buf` returns `Pending`
after having installed an empty member, `virtual_position()` has moved from `(Y,0)` to `(Z,0)`; the
async query reader tests the chunk end again at the next poll, the sync one does not.)  Every
position that names a byte, and every position a reader reports, except the end of an empty member,
qualifies. -/
def EndOk (L : Layout α) (ce : VPos) : Prop :=
  ∀ k b, L[k]? = some b → b.data.length = 0 →
    vlt (coff L k, 0) ce = vlt (coff L (k + 1), 0) ce

/-- every chunk start is a seek on which the two BGZF readers agree (see `Async.SeekValid`) -/
def StartsValid (L : Layout α) (chunks : List Chunk) : Prop :=
  ∀ c ∈ chunks, SeekValid L (.seek c.s.1 c.s.2)

end Noodles.Csi.QueryIo
