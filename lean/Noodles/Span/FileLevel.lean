import Noodles.Span.Compose
/-!
# Region queries at whole-FILE level (C04)

`Noodles/Csi/QueryModel.lean` and `Noodles/Span/Compose.lean` look at the records of the queried
reference only. In the file these form a contiguous block (the indexer refuses a reference id that
decreases), surrounded by the records of other references and the unplaced tail; `csi::io::Query`
serves whatever record starts inside a chunk, and the format's filter drops the records whose
reference id / name is not the queried one. This file states that on the whole record list.
-/
namespace Noodles.Span
open Noodles.Csi

/-- a record of the file: reference id (`none` = unplaced) and closed span -/
structure GRec where
  rid : Option Nat
  span : Rec

/-- the filter of the query iterators on a record with a computed span: the queried reference and
the closed-interval test -/
def GRec.keep (file : List GRec) (q qs qe : Nat) (i : Nat) : Bool :=
  match file[i]? with
  | some r => (r.rid == some q) && intersects r.span qs qe
  | none => false

/-- the whole file: records before the block, the block of reference `q`, records after it -/
def fileOf (pre : List GRec) (mid : List Rec) (post : List GRec) (q : Nat) : List GRec :=
  pre ++ mid.map (fun r => ⟨some q, r⟩) ++ post

/-- `Reader::query` on the whole file: the index of reference `q` is built from its block with the
block's global offsets; the chunks are served against ALL records of the file -/
def queryFile (binned : Bool) (minShift depth : Nat) (offG : Nat → Nat) (pre : List GRec)
    (mid : List Rec) (post : List GRec) (q qs qe : Nat) : List Nat :=
  let file := fileOf pre mid post q
  let chunks := chunksFor binned minShift depth (fun j => offG (pre.length + j)) mid qs qe
  (served offG file.length chunks).filter (GRec.keep file q qs qe)

/-- the linear scan of the whole file -/
def scanFile (pre : List GRec) (mid : List Rec) (post : List GRec) (q qs qe : Nat) : List Nat :=
  let file := fileOf pre mid post q
  (List.range file.length).filter (GRec.keep file q qs qe)

end Noodles.Span
