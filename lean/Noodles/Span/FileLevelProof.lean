import Noodles.Span.FileLevel
import Noodles.Span.ComposeProof
/-! Helper lemmas for the whole-file composition (C04). -/
namespace Noodles.Span
open Noodles.Csi

theorem chunksFor_disjoint (binned : Bool) (minShift depth : Nat) (off : Nat → Nat) (recs : List Rec)
    (qs qe : Nat) :
    (chunksFor binned minShift depth off recs qs qe).Pairwise (fun a b => a.e < b.s) := by
  unfold chunksFor
  cases binned with
  | true => simp only [if_true]; unfold queryChunksBinned; exact optimize_disjoint _ _
  | false =>
    simp only [Bool.false_eq_true, if_false]; unfold queryChunksLinear; exact optimize_disjoint _ _

/-- a kept record lies in the block of the queried reference -/
theorem keep_in_block (pre : List GRec) (mid : List Rec) (post : List GRec) (q qs qe i : Nat)
    (hpre : ∀ r ∈ pre, r.rid ≠ some q) (hpost : ∀ r ∈ post, r.rid ≠ some q)
    (hk : GRec.keep (fileOf pre mid post q) q qs qe i = true) :
    ∃ j, ∃ hj : j < mid.length, i = pre.length + j ∧ intersects mid[j] qs qe = true := by
  unfold GRec.keep at hk
  cases hget : (fileOf pre mid post q)[i]? with
  | none => rw [hget] at hk; cases hk
  | some r =>
    rw [hget] at hk
    simp only [Bool.and_eq_true, beq_iff_eq] at hk
    obtain ⟨hrid, hint⟩ := hk
    unfold fileOf at hget
    by_cases h1 : i < pre.length
    · rw [List.append_assoc, List.getElem?_append_left h1] at hget
      have := List.mem_of_getElem? hget
      exact absurd hrid (hpre r this)
    · have h1' : pre.length ≤ i := by omega
      rw [List.append_assoc, List.getElem?_append_right h1'] at hget
      by_cases h2 : i - pre.length < mid.length
      · rw [List.getElem?_append_left (by simpa using h2)] at hget
        rw [List.getElem?_map, List.getElem?_eq_getElem h2] at hget
        simp only [Option.map_some, Option.some.injEq] at hget
        refine ⟨i - pre.length, h2, by omega, ?_⟩
        rw [← hget] at hint; exact hint
      · rw [List.getElem?_append_right (by simpa using h2)] at hget
        have := List.mem_of_getElem? hget
        exact absurd hrid (hpost r this)

theorem block_getElem (pre : List GRec) (mid : List Rec) (post : List GRec) (q j : Nat)
    (hj : j < mid.length) :
    (fileOf pre mid post q)[pre.length + j]? = some ⟨some q, mid[j]⟩ := by
  unfold fileOf
  rw [List.append_assoc, List.getElem?_append_right (by omega)]
  have : pre.length + j - pre.length = j := by omega
  rw [this, List.getElem?_append_left (by simpa using hj), List.getElem?_map,
    List.getElem?_eq_getElem hj]
  rfl

end Noodles.Span
