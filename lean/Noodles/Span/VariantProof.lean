import Noodles.Span.Variant
/-! Helper lemmas for `variant_end` / `variant_span` (C04). -/
namespace Noodles.Span
open Noodles.Vcf (Val variantEndCore endFrom maxNonNeg maxLenCol optMax)

theorem anyNeg_cons_none (l : List (Option Int)) : anyNeg (none :: l) = anyNeg l := by
  simp [anyNeg]

theorem anyNeg_cons_some (n : Int) (l : List (Option Int)) :
    anyNeg (some n :: l) = (decide (n < 0) || anyNeg l) := by
  simp [anyNeg]

theorem maxNonNeg_neg (l : List (Option Int)) : ∀ acc, anyNeg l = true → maxNonNeg l acc = none := by
  induction l with
  | nil => intro acc h; simp [anyNeg] at h
  | cons x rest ih =>
    intro acc h
    cases x with
    | none => rw [anyNeg_cons_none] at h; simp only [maxNonNeg]; exact ih _ h
    | some n =>
      rw [anyNeg_cons_some] at h
      simp only [maxNonNeg]
      by_cases hn : n < 0
      · rw [if_pos hn]
      · rw [if_neg hn]; simp only [hn, decide_false, Bool.false_or] at h; exact ih _ h

theorem maxNonNeg_ok (l : List (Option Int)) : ∀ acc, anyNeg l = false →
    ∃ m, maxNonNeg l acc = some m ∧ m.getD 0 = max (acc.getD 0) (maxPresent l) := by
  induction l with
  | nil => intro acc _; exact ⟨acc, rfl, by simp [maxPresent]⟩
  | cons x rest ih =>
    intro acc h
    cases x with
    | none =>
      rw [anyNeg_cons_none] at h
      simp only [maxNonNeg, maxPresent]; exact ih _ h
    | some n =>
      rw [anyNeg_cons_some] at h
      simp only [Bool.or_eq_false_iff, decide_eq_false_iff_not] at h
      simp only [maxNonNeg, if_neg h.1, maxPresent]
      obtain ⟨m, hm, hv⟩ := ih (optMax acc n.toNat) h.2
      refine ⟨m, hm, ?_⟩
      rw [hv]
      cases acc with
      | none => simp only [optMax, Option.getD]; omega
      | some a => simp only [optMax, Option.getD]; omega

theorem maxLenCol_bad (col : List (Option Val)) : ∀ acc,
    (colTyped col = false ∨ anyNeg (colInts col) = true) → maxLenCol col acc = none := by
  induction col with
  | nil => intro acc h; simp [colTyped, colInts, anyNeg] at h
  | cons x rest ih =>
    intro acc h
    cases x with
    | none =>
      simp only [colTyped, colInts, anyNeg_cons_none] at h
      simp only [maxLenCol]; exact ih _ h
    | some v =>
      cases v with
      | integer n =>
        simp only [colTyped, colInts, anyNeg_cons_some] at h
        simp only [maxLenCol]
        by_cases hn : n < 0
        · rw [if_pos hn]
        · rw [if_neg hn]; simp only [hn, decide_false, Bool.false_or] at h; exact ih _ h
      | _ => simp [maxLenCol]

theorem maxLenCol_ok (col : List (Option Val)) : ∀ acc,
    colTyped col = true → anyNeg (colInts col) = false →
    ∃ m, maxLenCol col acc = some m ∧ m.getD 0 = max (acc.getD 0) (maxPresent (colInts col)) := by
  induction col with
  | nil => intro acc _ _; exact ⟨acc, rfl, by simp [maxPresent, colInts]⟩
  | cons x rest ih =>
    intro acc ht h
    cases x with
    | none =>
      simp only [colTyped, colInts, anyNeg_cons_none] at ht h
      simp only [maxLenCol, maxPresent, colInts]; exact ih _ ht h
    | some v =>
      cases v with
      | integer n =>
        simp only [colTyped, colInts, anyNeg_cons_some] at ht h
        simp only [Bool.or_eq_false_iff, decide_eq_false_iff_not] at h
        simp only [maxLenCol, if_neg h.1, maxPresent, colInts]
        obtain ⟨m, hm, hv⟩ := ih (optMax acc n.toNat) ht h.2
        refine ⟨m, hm, ?_⟩
        rw [hv]
        cases acc with
        | none => simp only [optMax, Option.getD]; omega
        | some a => simp only [optMax, Option.getD]; omega
      | _ => simp [colTyped] at ht

/-- the length `variant_end` adds to the start from VCF 4.5 on; `none` = an error -/
def len45 (refLen : Nat) (svlen : Option (Option Val)) (lenCol : Option (List (Option Val))) : Option Nat :=
  match svList svlen, colList lenCol with
  | some l, some c =>
    if refLen = 0 ∨ anyNeg l = true ∨ anyNeg c = true then none
    else some (max refLen (max (maxPresent l) (maxPresent c)))
  | _, _ => none

theorem svStage (refLen : Nat) (l : List (Option Int)) :
    ((maxNonNeg l none).map fun m => max refLen (m.getD 0)) =
      if anyNeg l = true then none else some (max refLen (maxPresent l)) := by
  by_cases hneg : anyNeg l = true
  · rw [maxNonNeg_neg l none hneg, if_pos hneg]; rfl
  · have hneg' : anyNeg l = false := by simpa using hneg
    obtain ⟨m, hm, hval⟩ := maxNonNeg_ok l none hneg'
    rw [hm, if_neg hneg, Option.map_some, hval]; simp

theorem lenStage (m1 : Nat) (col : List (Option Val)) :
    ((maxLenCol col none).map fun m => max m1 (m.getD 0)) =
      if colTyped col = true then
        (if anyNeg (colInts col) = true then none else some (max m1 (maxPresent (colInts col))))
      else none := by
  by_cases ht : colTyped col = true
  · rw [if_pos ht]
    by_cases hn2 : anyNeg (colInts col) = true
    · rw [maxLenCol_bad col none (Or.inr hn2), if_pos hn2]; rfl
    · have hn2' : anyNeg (colInts col) = false := by simpa using hn2
      obtain ⟨m, hm, hval⟩ := maxLenCol_ok col none ht hn2'
      rw [hm, if_neg hn2, Option.map_some, hval]; simp
  · rw [if_neg ht]
    have ht' : colTyped col = false := by simpa using ht
    rw [maxLenCol_bad col none (Or.inl ht')]; rfl

theorem variantEndCore_4_5 (h : Noodles.Vcf.Hdr) (hv : h.before 4 5 = false)
    (start : Option (Option Nat)) (refLen : Nat) (infoEnd svlen : Option (Option Val))
    (lenCol : Option (List (Option Val))) :
    variantEndCore h start refLen infoEnd svlen lenCol =
      match len45 refLen svlen lenCol with
      | none => none
      | some n => endFrom start n := by
  unfold variantEndCore len45
  simp only [hv, Bool.false_eq_true, if_false]
  by_cases h0 : refLen = 0
  · simp only [h0, if_true, true_or]
    cases svList svlen <;> cases colList lenCol <;> rfl
  · simp only [h0, false_or, if_false]
    have e0 : anyNeg [] = false := rfl
    have m0 : maxPresent [] = 0 := rfl
    rcases svlen with _ | _ | v <;> rcases lenCol with _ | col
    · simp [svList, colList, e0, m0]
    · simp only [svList, colList, lenStage]
      by_cases ht : colTyped col = true <;> simp only [ht, if_true, if_false, Bool.false_eq_true]
      · by_cases hn : anyNeg (colInts col) = true <;> simp [hn, e0, m0]
    · simp [svList, colList, e0, m0]
    · simp only [svList, colList, lenStage]
      by_cases ht : colTyped col = true <;> simp only [ht, if_true, if_false, Bool.false_eq_true]
      · by_cases hn : anyNeg (colInts col) = true <;> simp [hn, e0, m0]
    · cases v <;> simp only [svList, colList, svStage, e0, m0]
      rename_i l
      by_cases hl : anyNeg l = true <;> simp [hl]
    · cases v with
      | ints l =>
        simp only [svList, colList, svStage]
        by_cases hl : anyNeg l = true <;> simp only [hl, if_true, if_false, Bool.false_eq_true, true_or, false_or]
        · by_cases ht : colTyped col = true <;> simp [ht, hl]
        · simp only [lenStage]
          by_cases ht : colTyped col = true <;> simp only [ht, if_true, if_false, Bool.false_eq_true]
          · by_cases hn : anyNeg (colInts col) = true <;> simp [hn, hl, Nat.max_assoc]
      | _ =>
        simp only [svList, colList]
        try (by_cases ht : colTyped col = true <;> simp [ht])

end Noodles.Span
