import Noodles.Span.Compose
import Noodles.Span.AlignProof
import Noodles.Span.VariantProof
import Noodles.Csi.QueryProof
/-! Helper lemmas for the region filter and the record-level composition (C04). -/
namespace Noodles.Span
open Noodles.Csi
open Noodles.Bam (Op)

theorem overlaps_iff (s e : Nat) (iv : Interval) (hs : s ≤ USIZE_MAX) (he : 1 ≤ e) :
    Overlaps s e iv ↔ (s ≤ iv.stop.getD USIZE_MAX ∧ iv.start.getD 1 ≤ e) := by
  unfold Overlaps
  cases iv.start <;> cases iv.stop <;> simp <;> omega

theorem intersects_closed (s e : Nat) (iv : Interval) (hs : s ≤ USIZE_MAX) (he : 1 ≤ e) :
    Interval.intersects ⟨some s, some e⟩ iv = decide (Overlaps s e iv) := by
  unfold Interval.intersects
  simp only [Option.getD_some]
  rw [decide_eq_decide, overlaps_iff s e iv hs he]

theorem intersects_closed' (s e : Nat) (iv : Interval) (hs : s ≤ USIZE_MAX) (he : 1 ≤ e) :
    iv.intersects ⟨some s, some e⟩ = decide (Overlaps s e iv) := by
  unfold Interval.intersects
  simp only [Option.getD_some]
  rw [decide_eq_decide, overlaps_iff s e iv hs he]
  exact And.comm

theorem overlaps_unbounded (s e : Nat) (iv : Interval) (h : iv.unbounded = true) : Overlaps s e iv := by
  unfold Interval.unbounded at h
  unfold Overlaps
  cases h1 : iv.start <;> cases h2 : iv.stop <;> simp [h1, h2] at h ⊢

/-- the BAM filter on a placed record whose end could be computed: same reference and the closed
span `[s, e]` meets the region -/
theorem bamIntersects_spec (id s e : Nat) (items : List (Option Op)) (qrid : Nat) (iv : Interval)
    (hs1 : 1 ≤ s) (hse : s ≤ e) (he : e ≤ USIZE_MAX)
    (hend : alignmentEnd (.val s) items = .val e) :
    bamIntersects (.val id) (.val s) items qrid iv = some (decide (id = qrid ∧ Overlaps s e iv)) := by
  unfold bamIntersects
  by_cases hid : id = qrid
  · simp only [hid, ne_eq, not_true_eq_false, if_false, true_and]
    by_cases hu : iv.unbounded = true
    · simp [hu, overlaps_unbounded s e iv hu]
    · simp only [hu, hend, Bool.false_eq_true, if_false]
      rw [intersects_closed' s e iv (by omega) (by omega)]
  · simp [hid]

theorem vcfIntersects_spec (nameEq : Bool) (s e : Nat) (iv : Interval)
    (hs1 : 1 ≤ s) (hse : s ≤ e) (he : e ≤ USIZE_MAX) :
    vcfIntersects nameEq (.val s) (some e) iv = some (nameEq && decide (Overlaps s e iv)) := by
  unfold vcfIntersects
  cases nameEq with
  | false => simp
  | true =>
    simp only [Bool.not_true, Bool.false_eq_true, if_false, Bool.true_and]
    by_cases hu : iv.unbounded = true
    · simp [hu, overlaps_unbounded s e iv hu]
    · simp only [hu, Bool.false_eq_true, if_false]
      rw [intersects_closed s e iv (by omega) (by omega)]

/-- on records inside the geometry, the property's overlap with the region's optional bounds is the
closed-interval test on the bounds `resolve_interval` hands to the chunk query -/
theorem overlaps_resolved (minShift depth : Nat) (iv : Interval) (qs qe s e : Nat)
    (hres : resolveInterval minShift depth iv = some (qs, qe))
    (hs1 : 1 ≤ s) (hse : s ≤ e) (he : e ≤ maxPos minShift depth) :
    Overlaps s e iv ↔ (s ≤ qe ∧ qs ≤ e) := by
  unfold resolveInterval at hres
  simp only at hres
  split at hres
  · cases hres
  · split at hres
    · cases hres
    · simp only [Option.some.injEq, Prod.mk.injEq] at hres
      obtain ⟨h1, h2⟩ := hres
      subst h1; subst h2
      rename_i hn1 hn2
      unfold Overlaps
      cases h1 : iv.start <;> cases h2 : iv.stop <;> simp [h1, h2] at hn1 hn2 ⊢ <;> omega

theorem resolved_start_pos (minShift depth : Nat) (iv : Interval) (qs qe : Nat)
    (hres : resolveInterval minShift depth iv = some (qs, qe))
    (hiv : ∀ s, iv.start = some s → 1 ≤ s) : 1 ≤ qs := by
  unfold resolveInterval at hres
  simp only at hres
  split at hres
  · cases hres
  · split at hres
    · cases hres
    · simp only [Option.some.injEq, Prod.mk.injEq] at hres
      rw [← hres.1]
      cases h : iv.start with
      | none => simp
      | some s => simpa using hiv s h

/-- serving the chunks of a complete-and-exact query and filtering with a predicate that agrees with
the closed-interval test gives the filtered scan -/
theorem serveAndFilter_eq (chunks : List Chunk) (off : Nat → Nat) (recs : List Rec)
    (keep : Nat → Bool) (qs qe : Nat)
    (hq : queryRecs chunks off recs qs qe = scan recs qs qe)
    (hkeep : ∀ i (hi : i < recs.length), keep i = intersects recs[i] qs qe) :
    serveAndFilter chunks off recs.length keep = (List.range recs.length).filter keep := by
  unfold queryRecs scan at hq
  unfold serveAndFilter
  have h1 : (served off recs.length chunks).filter keep =
      (served off recs.length chunks).filter fun i => match recs[i]? with
        | some r => intersects r qs qe
        | none => false := by
    apply List.filter_congr
    intro i hi
    have hlt : i < recs.length := ((mem_served off _ chunks i).mp hi).1
    rw [hkeep i hlt, List.getElem?_eq_getElem hlt]
  have h2 : (List.range recs.length).filter keep =
      (List.range recs.length).filter fun i => match recs[i]? with
        | some r => intersects r qs qe
        | none => false := by
    apply List.filter_congr
    intro i hi
    have hlt : i < recs.length := List.mem_range.mp hi
    rw [hkeep i hlt, List.getElem?_eq_getElem hlt]
  exact h1.trans (hq.trans h2.symm)

theorem chunksFor_eq_scan (binned : Bool) (minShift depth : Nat) (off : Nat → Nat)
    (hmono : ∀ a b, a < b → off a < off b) (recs : List Rec)
    (hvalid : ValidRecs minShift depth recs) (qs qe : Nat) (hq1 : 1 ≤ qs) :
    queryRecs (chunksFor binned minShift depth off recs qs qe) off recs qs qe = scan recs qs qe := by
  unfold chunksFor
  cases binned with
  | true =>
    simp only [if_true]
    unfold queryChunksBinned
    exact query_eq_scan_of_min minShift depth off hmono recs hvalid qs qe hq1 _
      (fun i hi hov => minOffsetBinned_sound' minShift depth off recs hvalid qs i hi hov)
  | false =>
    simp only [Bool.false_eq_true, if_false]
    unfold queryChunksLinear
    exact query_eq_scan_of_min minShift depth off hmono recs hvalid qs qe hq1 _
      (fun i hi hov => minOffset_sound off hmono recs qs i hi hov)

/-- steps 2–4 of the pipeline on ANY valid record list and any filter that decides the property's
overlap: the filtered scan -/
theorem serve_generic (binned : Bool) (minShift depth : Nat) (off : Nat → Nat)
    (hmono : ∀ a b, a < b → off a < off b) (recs : List Rec)
    (hvr : ValidRecs minShift depth recs) (keep : Nat → Bool) (iv : Interval) (qs qe : Nat)
    (hres : resolveInterval minShift depth iv = some (qs, qe))
    (hiv : ∀ s, iv.start = some s → 1 ≤ s)
    (hkeep : ∀ i (hi : i < recs.length), keep i = decide (Overlaps recs[i].s recs[i].e iv)) :
    serveAndFilter (chunksFor binned minShift depth off recs qs qe) off recs.length keep =
      (List.range recs.length).filter keep := by
  have hq1 := resolved_start_pos minShift depth iv qs qe hres hiv
  have hq := chunksFor_eq_scan binned minShift depth off hmono recs hvr qs qe hq1
  apply serveAndFilter_eq _ off recs keep qs qe hq
  intro i hi
  obtain ⟨h1, h2, h3⟩ := hvr recs[i] (List.getElem_mem hi)
  have hov := overlaps_resolved minShift depth iv qs qe recs[i].s recs[i].e hres h1 h2
    (by unfold maxPos; exact h3)
  rw [hkeep i hi]
  unfold intersects
  rw [decide_eq_decide]
  exact hov

theorem mapM?_spec {α β : Type} (f : α → Option β) (g : α → β) (l : List α)
    (h : ∀ a ∈ l, f a = some (g a)) : mapM? f l = some (l.map g) := by
  induction l with
  | nil => rfl
  | cons a as ih =>
    simp only [mapM?, h a (by simp), ih (fun b hb => h b (List.mem_cons_of_mem _ hb)), List.map_cons]

end Noodles.Span
