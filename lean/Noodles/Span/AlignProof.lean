import Noodles.Span.Align
/-! Helper lemmas for `alignment_span` / `alignment_end` (C04). -/
namespace Noodles.Span
open Noodles.Bam (Op consumesRef decOpNat)

theorem cigarSpanLoop_ok (ops : List Op) : ∀ acc, acc ≤ USIZE_MAX →
    cigarSpanLoop acc (ops.map some) =
      if acc + refLen ops ≤ USIZE_MAX then some (acc + refLen ops) else none := by
  induction ops with
  | nil => intro acc h; simp [cigarSpanLoop, refLen, h]
  | cons o rest ih =>
    intro acc hacc
    simp only [List.map_cons, cigarSpanLoop, refLen]
    by_cases hc : consumesRef o.kind = true
    · simp only [hc, if_true]
      by_cases h1 : acc + o.len ≤ USIZE_MAX
      · rw [if_pos h1, ih _ h1, Nat.add_assoc]
      · rw [if_neg h1, if_neg (by omega)]
    · simp only [hc]
      rw [ih _ hacc]; simp

/-- a successful span means: no item was an error, and the sum did not overflow -/
theorem cigarSpanLoop_some (items : List (Option Op)) : ∀ acc n,
    cigarSpanLoop acc items = some n →
      ∃ ops, items = ops.map some ∧ n = acc + refLen ops := by
  induction items with
  | nil =>
    intro acc n h
    simp [cigarSpanLoop] at h
    exact ⟨[], rfl, by simp [refLen, h]⟩
  | cons it rest ih =>
    intro acc n h
    cases it with
    | none => simp [cigarSpanLoop] at h
    | some o =>
      simp only [cigarSpanLoop] at h
      by_cases hc : consumesRef o.kind = true
      · simp only [hc, if_true] at h
        by_cases h1 : acc + o.len ≤ USIZE_MAX
        · rw [if_pos h1] at h
          obtain ⟨ops, he, hn⟩ := ih _ _ h
          exact ⟨o :: ops, by simp [he], by simp only [refLen, hc, if_true]; omega⟩
        · rw [if_neg h1] at h; cases h
      · simp only [hc] at h
        obtain ⟨ops, he, hn⟩ := ih _ _ h
        exact ⟨o :: ops, by simp [he], by simp only [refLen, hc]; simp; omega⟩

theorem cigarSpan_ok (ops : List Op) :
    cigarSpan (ops.map some) = if refLen ops ≤ USIZE_MAX then some (refLen ops) else none := by
  unfold cigarSpan
  rw [cigarSpanLoop_ok ops 0 (by decide)]; simp

/-- an erroneous item makes the span an error wherever it stands -/
theorem cigarSpanLoop_err (pre post : List (Option Op)) : ∀ acc,
    cigarSpanLoop acc (pre ++ none :: post) = none := by
  induction pre with
  | nil => intro acc; simp [cigarSpanLoop]
  | cons it rest ih =>
    intro acc
    cases it with
    | none => simp [cigarSpanLoop]
    | some o =>
      simp only [List.cons_append, cigarSpanLoop]
      split
      · split
        · exact ih _
        · rfl
      · exact ih _

theorem alignmentSpan_ok (ops : List Op) :
    alignmentSpan (ops.map some) =
      if refLen ops ≤ USIZE_MAX then (if refLen ops = 0 then .absent else .val (refLen ops)) else .err := by
  unfold alignmentSpan
  rw [cigarSpan_ok]
  by_cases h : refLen ops ≤ USIZE_MAX
  · rw [if_pos h, if_pos h]
    by_cases h0 : refLen ops = 0
    · rw [h0]; simp
    · rw [if_neg h0]
      generalize refLen ops = n at *
      cases n with
      | zero => exact absurd rfl h0
      | succ k => rfl
  · rw [if_neg h, if_neg h]

/-- `alignment_end` in closed form on a CIGAR without erroneous items -/
theorem alignmentEnd_ok (s : Nat) (ops : List Op) (hs1 : 1 ≤ s) (hs : s ≤ USIZE_MAX) :
    alignmentEnd (.val s) (ops.map some) =
      if s + (max 1 (refLen ops) - 1) ≤ USIZE_MAX then .val (s + (max 1 (refLen ops) - 1)) else .err := by
  unfold alignmentEnd
  simp only [alignmentSpan_ok]
  by_cases h : refLen ops ≤ USIZE_MAX
  · simp only [if_pos h]
    by_cases h0 : refLen ops = 0
    · simp only [h0, if_true]
      have : max 1 0 - 1 = 0 := by decide
      simp [hs]
    · simp only [if_neg h0]
      have : max 1 (refLen ops) = refLen ops := by omega
      rw [this]
  · simp only [if_neg h]
    rw [if_neg (by omega)]

theorem decOpNat_packOp (o : Op) (hk : o.kind ≤ 8) : decOpNat (packOp o) = .ok o := by
  unfold decOpNat packOp
  have h1 : (o.len * 16 + o.kind) % 16 = o.kind := by omega
  have h2 : (o.len * 16 + o.kind) / 16 = o.len := by omega
  rw [h1, h2, if_pos hk]

theorem lazyItems_pack (ops : List Op) (hk : ∀ o ∈ ops, o.kind ≤ 8) :
    lazyItems (ops.map packOp) = ops.map some := by
  induction ops with
  | nil => rfl
  | cons o rest ih =>
    have := decOpNat_packOp o (hk o (by simp))
    simp only [lazyItems, List.map_cons, this] at *
    rw [ih (fun o' h => hk o' (List.mem_cons_of_mem _ h))]

/-- the operations a list of valid `u32` words decodes to -/
def wordOps (ws : List Nat) : List Op := ws.map fun w => ⟨w % 16, w / 16⟩

theorem lazyItems_valid (ws : List Nat) (hk : ∀ w ∈ ws, w % 16 ≤ 8) :
    lazyItems ws = (wordOps ws).map some := by
  induction ws with
  | nil => rfl
  | cons w rest ih =>
    have h1 : w % 16 ≤ 8 := hk w (by simp)
    simp only [lazyItems, wordOps, List.map_cons, decOpNat, if_pos h1] at *
    rw [ih (fun w' h => hk w' (List.mem_cons_of_mem _ h))]

theorem refLen_wordOps_le (ws : List Nat) (hw : ∀ w ∈ ws, w < 4294967296) :
    refLen (wordOps ws) ≤ ws.length * 268435455 := by
  induction ws with
  | nil => simp [wordOps, refLen]
  | cons w rest ih =>
    have h1 : w < 4294967296 := hw w (by simp)
    have := ih (fun w' h => hw w' (List.mem_cons_of_mem _ h))
    simp only [wordOps, List.map_cons, refLen, List.length_cons] at *
    split <;> omega

theorem bufCigarSpanL_eq (ops : List Op) : ∀ acc, acc ≤ USIZE_MAX →
    bufCigarSpanL acc ops = if acc + refLen ops ≤ USIZE_MAX then .ret (acc + refLen ops) else .panic := by
  induction ops with
  | nil => intro acc h; simp [bufCigarSpanL, refLen, h]
  | cons o rest ih =>
    intro acc hacc
    simp only [bufCigarSpanL, refLen]
    by_cases hc : consumesRef o.kind = true
    · simp only [hc, if_true]
      by_cases h1 : acc + o.len ≤ USIZE_MAX
      · rw [if_pos h1, ih _ h1, Nat.add_assoc]
      · rw [if_neg h1, if_neg (by omega)]
    · simp only [hc]
      rw [ih _ hacc]; simp

theorem bufAlignmentSpan_eq (ops : List Op) :
    bufAlignmentSpan ops =
      if refLen ops ≤ USIZE_MAX then .ret (if refLen ops = 0 then none else some (refLen ops)) else .panic := by
  unfold bufAlignmentSpan
  rw [bufCigarSpanL_eq ops 0 (by decide)]
  simp only [Nat.zero_add]
  by_cases h : refLen ops ≤ USIZE_MAX
  · rw [if_pos h, if_pos h]
    generalize refLen ops = n at *
    cases n with
    | zero => rfl
    | succ k => simp
  · rw [if_neg h, if_neg h]

end Noodles.Span
