import Noodles.Span.Unmapped
/-! Helper lemmas for the unmapped query at file level (C04). -/
namespace Noodles.Span
open Noodles.Csi

/-- what the invariant needs of an index kind: it only ever stores chunk starts it was given, and
`last_first_start_position` returns one of the stored values -/
structure IxKind.Lawful (K : IxKind) : Prop where
  empty : K.offsets K.empty = []
  update : ∀ st r o, ∀ v ∈ K.offsets (K.update st r o), v ∈ K.offsets st ∨ v = o
  lastFirst : ∀ st p, K.lastFirst st = some p → p ∈ K.offsets st

theorem listMax_mem (l : List Nat) : ∀ p, listMax l = some p → p ∈ l := by
  induction l with
  | nil => intro p h; simp [listMax] at h
  | cons x xs ih =>
    intro p h
    simp only [listMax] at h
    cases hm : listMax xs with
    | none => rw [hm] at h; simp at h; simp [h]
    | some m =>
      rw [hm] at h
      simp only [Option.some.injEq] at h
      by_cases hle : m ≤ x
      · rw [if_pos hle] at h; simp [h]
      · rw [if_neg hle] at h; subst h; exact List.mem_cons_of_mem _ (ih m hm)

theorem listMax_ge (l : List Nat) : ∀ x ∈ l, ∃ m, listMax l = some m ∧ x ≤ m := by
  induction l with
  | nil => intro x h; cases h
  | cons y ys ih =>
    intro x hx
    simp only [listMax]
    rcases List.mem_cons.mp hx with rfl | hx'
    · cases hm : listMax ys with
      | none => exact ⟨x, rfl, Nat.le_refl _⟩
      | some m =>
        by_cases hle : m ≤ x
        · exact ⟨x, by simp [hle], Nat.le_refl _⟩
        · exact ⟨m, by simp [hle], by omega⟩
    · obtain ⟨m, hm, hle⟩ := ih x hx'
      rw [hm]
      by_cases hle' : m ≤ y
      · exact ⟨y, by simp [hle'], by omega⟩
      · exact ⟨m, by simp [hle'], hle⟩

theorem linUpdate_vals (lin : List Nat) (e o : Nat) : ∀ v ∈ linUpdate lin e o, v ∈ lin ∨ v = o := by
  intro v hv
  unfold linUpdate at hv
  by_cases hc : (e - 1) / W + 1 > lin.length
  · rw [if_pos hc] at hv
    rcases List.mem_append.mp hv with h | h
    · exact Or.inl h
    · exact Or.inr (List.eq_of_mem_replicate h)
  · rw [if_neg hc] at hv; exact Or.inl hv

theorem linearKind_lawful : linearKind.Lawful where
  empty := rfl
  update := by
    intro st r o v hv
    exact linUpdate_vals st r.e o v hv
  lastFirst := by
    intro st p h
    exact List.mem_of_getLast? h

theorem binnedUpdate_vals (ix : Binned) (id c : Nat) :
    ∀ v ∈ (binnedUpdate ix id c).map (·.2), v ∈ ix.map (·.2) ∨ v = c := by
  induction ix with
  | nil => intro v hv; simp [binnedUpdate] at hv; exact Or.inr hv
  | cons kv rest ih =>
    obtain ⟨k, w⟩ := kv
    intro v hv
    simp only [binnedUpdate] at hv
    by_cases hk : k = id
    · rw [if_pos hk] at hv
      simp only [List.map_cons, List.mem_cons] at hv ⊢
      rcases hv with h | h
      · by_cases hc : c < w
        · rw [if_pos hc] at h; exact Or.inr h
        · rw [if_neg hc] at h; exact Or.inl (Or.inl h)
      · exact Or.inl (Or.inr h)
    · rw [if_neg hk] at hv
      simp only [List.map_cons, List.mem_cons] at hv ⊢
      rcases hv with h | h
      · exact Or.inl (Or.inl h)
      · rcases ih v h with h' | h'
        · exact Or.inl (Or.inr h')
        · exact Or.inr h'

theorem binnedKind_lawful (minShift depth : Nat) : (binnedKind minShift depth).Lawful where
  empty := rfl
  update := by
    intro st r o v hv
    exact binnedUpdate_vals st _ o v hv
  lastFirst := by
    intro st p h
    exact listMax_mem _ p h

theorem lookupB_mem (ix : Binned) (id v : Nat) (h : lookupB ix id = some v) : v ∈ ix.map (·.2) := by
  induction ix with
  | nil => simp [lookupB] at h
  | cons kv rest ih =>
    obtain ⟨k, w⟩ := kv
    simp only [lookupB] at h
    by_cases hk : k = id
    · rw [if_pos hk] at h; simp at h; simp [h]
    · rw [if_neg hk] at h; simp only [List.map_cons, List.mem_cons]; exact Or.inr (ih h)

theorem lookupB_key (ix : Binned) (kv : Nat × Nat) (h : kv ∈ ix) : ∃ v, lookupB ix kv.1 = some v := by
  induction ix with
  | nil => cases h
  | cons kv' rest ih =>
    obtain ⟨k, w⟩ := kv'
    simp only [lookupB]
    by_cases hk : k = kv.1
    · exact ⟨w, by rw [if_pos hk]⟩
    · rw [if_neg hk]
      rcases List.mem_cons.mp h with rfl | h'
      · exact absurd rfl hk
      · exact ih h'

theorem firstStartLoop_mem (ix : Binned) : ∀ fuel id m, m ∈ ix.map (·.2) →
    firstStartLoop ix fuel id m ∈ ix.map (·.2) := by
  intro fuel
  induction fuel with
  | zero => intro id m hm; exact hm
  | succ f ih =>
    intro id m hm
    simp only [firstStartLoop]
    cases parentId id with
    | none => exact hm
    | some pid =>
      simp only
      cases hl : lookupB ix pid with
      | none => exact hm
      | some p =>
        simp only
        apply ih
        by_cases hp : p < m
        · rw [if_pos hp]; exact lookupB_mem ix pid p hl
        · rw [if_neg hp]; exact hm

theorem firstStartLoop_le (ix : Binned) : ∀ fuel id m, firstStartLoop ix fuel id m ≤ m := by
  intro fuel
  induction fuel with
  | zero => intro id m; exact Nat.le_refl _
  | succ f ih =>
    intro id m
    simp only [firstStartLoop]
    cases parentId id with
    | none => exact Nat.le_refl _
    | some pid =>
      simp only
      cases lookupB ix pid with
      | none => exact Nat.le_refl _
      | some p =>
        simp only
        by_cases hp : p < m
        · rw [if_pos hp]; have := ih pid p; omega
        · rw [if_neg hp]; exact ih pid m

theorem csiRewrite_vals (ix : Binned) : ∀ v ∈ (csiRewrite ix).map (·.2), v ∈ ix.map (·.2) := by
  intro v hv
  simp only [csiRewrite, List.map_map, List.mem_map, Function.comp] at hv
  obtain ⟨kv, hkv, rfl⟩ := hv
  obtain ⟨w, hw⟩ := lookupB_key ix kv hkv
  unfold firstRecordStart
  rw [hw]
  exact firstStartLoop_mem ix _ _ _ (lookupB_mem ix _ _ hw)

theorem binnedFileKind_lawful (minShift depth : Nat) : (binnedFileKind minShift depth).Lawful where
  empty := rfl
  update := by
    intro st r o v hv
    exact binnedUpdate_vals st _ o v hv
  lastFirst := by
    intro st p h
    exact csiRewrite_vals st p (listMax_mem _ p h)

theorem mem_modifyAt {α : Type} (f : α → α) (l : List α) : ∀ i x, x ∈ modifyAt f l i →
    x ∈ l ∨ ∃ a ∈ l, x = f a := by
  induction l with
  | nil => intro i x h; cases i <;> simp [modifyAt] at h
  | cons a as ih =>
    intro i x h
    cases i with
    | zero =>
      simp only [modifyAt, List.mem_cons] at h
      rcases h with h | h
      · exact Or.inr ⟨a, by simp, h⟩
      · exact Or.inl (List.mem_cons_of_mem _ h)
    | succ n =>
      simp only [modifyAt, List.mem_cons] at h
      rcases h with h | h
      · exact Or.inl (by simp [h])
      · rcases ih n x h with h' | ⟨b, hb, hx⟩
        · exact Or.inl (List.mem_cons_of_mem _ h')
        · exact Or.inr ⟨b, List.mem_cons_of_mem _ hb, hx⟩

theorem mem_growTo (K : IxKind) (refs : List K.σ) (n : Nat) (st : K.σ) (h : st ∈ growTo K refs n) :
    st ∈ refs ∨ st = K.empty := by
  unfold growTo at h
  rcases List.mem_append.mp h with h | h
  · exact Or.inl h
  · exact Or.inr (List.eq_of_mem_replicate h)

/-- all stored offsets satisfy `P` -/
def AllOffsets (K : IxKind) (P : Nat → Prop) (refs : List K.σ) : Prop :=
  ∀ st ∈ refs, ∀ v ∈ K.offsets st, P v

theorem allOffsets_growTo (K : IxKind) (hK : K.Lawful) (P : Nat → Prop) (refs : List K.σ) (n : Nat)
    (h : AllOffsets K P refs) : AllOffsets K P (growTo K refs n) := by
  intro st hst v hv
  rcases mem_growTo K refs n st hst with h' | h'
  · exact h st h' v hv
  · rw [h', hK.empty] at hv; cases hv

theorem addRecord_inv (K : IxKind) (hK : K.Lawful) (P : Nat → Prop) (refs refs' : List K.σ)
    (r : FRec) (o : Nat) (h : addRecord K refs r o = some refs')
    (hinv : AllOffsets K P refs) (ho : r.ctx ≠ none → P o) : AllOffsets K P refs' := by
  unfold addRecord at h
  cases hc : r.ctx with
  | none => rw [hc] at h; simp only [Option.some.injEq] at h; rw [← h]; exact hinv
  | some c =>
    obtain ⟨id, span⟩ := c
    rw [hc] at h
    simp only at h
    have hP : P o := ho (by rw [hc]; simp)
    have h1 : AllOffsets K P (if refs.isEmpty = true then growTo K refs 1 else refs) := by
      split
      · exact allOffsets_growTo K hK P refs 1 hinv
      · exact hinv
    generalize (if refs.isEmpty = true then growTo K refs 1 else refs) = refs1 at h h1
    by_cases hlt : id < refs1.length - 1
    · rw [if_pos hlt] at h; cases h
    · rw [if_neg hlt] at h
      simp only [Option.some.injEq] at h
      rw [← h]
      have h2 : AllOffsets K P (if id > refs1.length - 1 then growTo K refs1 (id + 1) else refs1) := by
        split
        · exact allOffsets_growTo K hK P refs1 _ h1
        · exact h1
      generalize (if id > refs1.length - 1 then growTo K refs1 (id + 1) else refs1) = refs2 at h2 ⊢
      intro st hst v hv
      rcases mem_modifyAt _ refs2 id st hst with h' | ⟨a, ha, hx⟩
      · exact h2 st h' v hv
      · rw [hx] at hv
        rcases hK.update a span o v hv with h'' | h''
        · exact h2 a ha v h''
        · rw [h'']; exact hP

/-- after indexing, every stored offset is the start offset of a PLACED record of the file -/
theorem indexFile_inv (K : IxKind) (hK : K.Lawful) (off : Nat → Nat) (rest : List FRec) :
    ∀ (pre : List FRec) (refs refs' : List K.σ),
      indexFile K off pre.length refs rest = some refs' →
      AllOffsets K (fun v => ∃ j, ∃ hj : j < pre.length, v = off j ∧ pre[j].ctx ≠ none) refs →
      AllOffsets K (fun v => ∃ j, ∃ hj : j < (pre ++ rest).length,
        v = off j ∧ (pre ++ rest)[j].ctx ≠ none) refs' := by
  induction rest with
  | nil =>
    intro pre refs refs' h hinv
    simp only [indexFile, Option.some.injEq] at h
    rw [← h]
    intro st hst v hv
    obtain ⟨j, hj, hv1, hv2⟩ := hinv st hst v hv
    exact ⟨j, by simp; omega, hv1, by simpa using hv2⟩
  | cons r rs ih =>
    intro pre refs refs' h hinv
    simp only [indexFile] at h
    cases ha : addRecord K refs r (off pre.length) with
    | none => rw [ha] at h; cases h
    | some refs1 =>
      rw [ha] at h
      simp only at h
      have hstep : AllOffsets K (fun v => ∃ j, ∃ hj : j < (pre ++ [r]).length,
          v = off j ∧ (pre ++ [r])[j].ctx ≠ none) refs1 := by
        refine addRecord_inv K hK (fun v => ∃ j, ∃ hj : j < (pre ++ [r]).length,
          v = off j ∧ (pre ++ [r])[j].ctx ≠ none) refs refs1 r (off pre.length) ha ?_ ?_
        · intro st hst v hv
          obtain ⟨j, hj, hv1, hv2⟩ := hinv st hst v hv
          exact ⟨j, by simp; omega, hv1, by rw [List.getElem_append_left hj]; exact hv2⟩
        · intro hr
          exact ⟨pre.length, by simp, rfl, by simpa using hr⟩
      have := ih (pre ++ [r]) refs1 refs' (by simpa using h) hstep
      simpa using this

theorem lastFirst_of_refs (K : IxKind) (hK : K.Lawful) (P : Nat → Prop) (refs : List K.σ) (n p : Nat)
    (hinv : AllOffsets K P refs) (h : lastFirstRecordStart K (build K refs n) = some p) : P p := by
  unfold lastFirstRecordStart at h
  obtain ⟨st, hst, hp⟩ := List.exists_of_findSome?_eq_some h
  have hst' : st ∈ build K refs n := List.mem_reverse.mp hst
  have hall : AllOffsets K P (build K refs n) := by
    unfold build
    split
    · exact allOffsets_growTo K hK P refs n hinv
    · exact hinv
  exact hall st hst' p (hK.lastFirst st p hp)

end Noodles.Span
