import Noodles.Bam.Record
/-!
# Alignment spans (C04): `alignment_span` / `alignment_end`

Hand transcription of

* `noodles-sam/src/alignment/record/cigar.rs` — `Cigar::alignment_span` (the default method every
  CIGAR view inherits: `bam::record::Cigar`, `sam::record::Cigar`, `record_buf::Cigar` as a trait
  object), with the checked additions of fix 868bf9e;
* `noodles-sam/src/alignment/record.rs` — `Record::alignment_span`, `Record::alignment_end`
  (default methods, used by `bam::fs::index`, the BAM encoder's `bin` field and the query filter);
* `noodles-bam/src/record/cigar.rs::iter` + `record/codec/decoder/cigar.rs::decode_op` — the lazy
  BAM CIGAR: one `u32` per operation, `kind = n & 0xf` (an error above 8), `len = n >> 4`;
* `noodles-bam/src/record.rs::try_to_position`, `record_ref.rs::{get_position, alignment_start}`;
* `noodles-sam/src/alignment/record_buf.rs` / `record_buf/cigar.rs` — the INHERENT
  `RecordBuf::alignment_span` (`Iterator::sum`, unchecked: with overflow checks — the harness
  profile, the test profile — an overflow of the SUM is a panic) and `alignment_end` (checked since
  fix "recordbuf-alignment-end-overflow").

`usize` is `Nat` with the explicit bound `USIZE_MAX`; `io::Result<T>` is `Option T` (`none` = an
`Err`, always of kind `InvalidData` here), `Option<io::Result<T>>` is `OR T`.
-/
namespace Noodles.Span
open Noodles.Bam (Op consumesRef decOpNat)

def USIZE_MAX : Nat := 18446744073709551615

/-- `Option<io::Result<T>>` -/
inductive OR (α : Type) where
  | absent
  | err
  | val (a : α)
deriving DecidableEq, Repr

/-- the loop of `Cigar::alignment_span`; an item `none` is an `Err` yielded by the iterator
(`let op = result?`), `checked_add` fails above `usize::MAX` -/
def cigarSpanLoop : Nat → List (Option Op) → Option Nat
  | acc, [] => some acc
  | _, none :: _ => none
  | acc, some o :: rest =>
    if consumesRef o.kind then
      if acc + o.len ≤ USIZE_MAX then cigarSpanLoop (acc + o.len) rest else none
    else cigarSpanLoop acc rest

/-- `Cigar::alignment_span` -/
def cigarSpan (items : List (Option Op)) : Option Nat := cigarSpanLoop 0 items

/-- `Record::alignment_span`: a zero span is `None` -/
def alignmentSpan (items : List (Option Op)) : OR Nat :=
  match cigarSpan items with
  | none => .err
  | some 0 => .absent
  | some n => .val n

/-- `Record::alignment_end`: the start is looked at first (`None` → `None` whatever the CIGAR is),
then `start.checked_add(span - 1)`; no span (an empty or clip-only CIGAR) → the start itself -/
def alignmentEnd (start : OR Nat) (items : List (Option Op)) : OR Nat :=
  match start with
  | .err => .err
  | .absent => .absent
  | .val s =>
    match alignmentSpan items with
    | .val n => if s + (n - 1) ≤ USIZE_MAX then .val (s + (n - 1)) else .err
    | .err => .err
    | .absent => .val s

/-! ## the lazy BAM record -/

/-- `bam::record::Cigar::iter`: `decode_op` on every little-endian `u32` of the CIGAR bytes -/
def lazyItems (words : List Nat) : List (Option Op) :=
  words.map fun w => match decOpNat w with
    | .ok o => some o
    | .error _ => none

/-- `RecordRef::alignment_start` / `reference_sequence_id` on the `i32` field: `-1` is `None`, any
other negative value an error; positions are stored 0-based (`plus = 1`), ids as they are -/
def lazyField (plus : Nat) (n : Int) : OR Nat :=
  if n = -1 then .absent else if n < 0 then .err else .val (n.toNat + plus)

/-- `cigar::op::encode_op` as a number (`len << 4 | kind`) -/
def packOp (o : Op) : Nat := o.len * 16 + o.kind

/-! ## `RecordBuf`'s inherent methods (unchecked additions) -/

/-- result of a call that may panic -/
inductive PR (α : Type) where
  | panic
  | ret (a : α)
deriving DecidableEq, Repr

/-- `record_buf::Cigar::alignment_span`: `filter_map(consumes_reference → len).sum()`; `Iterator::sum`
folds from the left and panics on overflow when overflow checks are on -/
def bufCigarSpanL : Nat → List Op → PR Nat
  | acc, [] => .ret acc
  | acc, o :: rest =>
    if consumesRef o.kind then
      if acc + o.len ≤ USIZE_MAX then bufCigarSpanL (acc + o.len) rest else .panic
    else bufCigarSpanL acc rest

/-- `RecordBuf::alignment_span` -/
def bufAlignmentSpan (ops : List Op) : PR (Option Nat) :=
  match bufCigarSpanL 0 ops with
  | .panic => .panic
  | .ret 0 => .ret none
  | .ret n => .ret (some n)

/-- `RecordBuf::alignment_end` AS FIXED (fix "recordbuf-alignment-end-overflow"):
`start.checked_add(span - 1)`, `None` when the end is not representable -/
def bufAlignmentEnd (start : Option Nat) (ops : List Op) : PR (Option Nat) :=
  match start with
  | none => .ret none
  | some s =>
    match bufAlignmentSpan ops with
    | .panic => .panic
    | .ret none => .ret (some s)
    | .ret (some n) => if s + (n - 1) ≤ USIZE_MAX then .ret (some (s + (n - 1))) else .ret none

/-! ## the specification -/

/-- the reference span of a CIGAR per the SAM specification: the sum of the lengths of the
operations that consume the reference (`M D N = X`) -/
def refLen : List Op → Nat
  | [] => 0
  | o :: rest => (if consumesRef o.kind then o.len else 0) + refLen rest

end Noodles.Span
