import Noodles.Span.Filter
import Noodles.Span.Variant
/-!
# Region queries at RECORD level (C04): index + chunks + filter

The pipeline of `bam::io::Reader::query` / `vcf::io::Reader::query` / `bcf::io::Reader::query` on the
records of the queried reference, with the spans COMPUTED by the modelled span functions:

1. indexing: `bam::fs::index` / `vcf::fs::index` / `bcf::fs::index` hand `(start, end)` with
   `end = alignment_end()` resp. `variant_end(header)` to `Indexer::add_record` (an `Err` from the
   span function aborts the indexing: `none` here);
2. `resolve_interval` turns the region's optional bounds into the closed range the CHUNK query
   uses (`Noodles.Csi.queryChunksLinear` / `queryChunksBinned`);
3. `csi::io::Query` + the record reader serve the records whose start offset lies in a chunk
   (`Noodles.Csi.served`);
4. the format's `intersects` filter is applied to every served record with the region's ORIGINAL
   optional bounds (a missing end is `Position::MAX` there, the geometry's maximum in step 2).
-/
namespace Noodles.Span
open Noodles.Csi
open Noodles.Bam (Op)
open Noodles.Vcf (Val)

/-- an alignment record on the queried reference: `POS` and the CIGAR -/
structure ARec where
  start : Nat
  ops : List Op

/-- `alignment_end()` of the record -/
def ARec.end? (r : ARec) : OR Nat := alignmentEnd (.val r.start) (r.ops.map some)

/-- the `(start, end)` the indexer receives; `none` = `alignment_end()` is an `Err` -/
def ARec.span? (r : ARec) : Option Rec :=
  match r.end? with
  | .val e => some ⟨r.start, e⟩
  | _ => none

/-- the span the specification assigns: `[POS, POS + max(1, reference length of the CIGAR) − 1]` -/
def ARec.specEnd (r : ARec) : Nat := r.start + (max 1 (refLen r.ops) - 1)

def mapM? {α β : Type} (f : α → Option β) : List α → Option (List β)
  | [] => some []
  | a :: as => match f a with
    | none => none
    | some b => match mapM? f as with
      | none => none
      | some bs => some (b :: bs)

/-- `query_chunks` of step 2 on the resolved bounds -/
def chunksFor (binned : Bool) (minShift depth : Nat) (off : Nat → Nat) (recs : List Rec) (qs qe : Nat) :
    List Chunk :=
  if binned then queryChunksBinned minShift depth off recs qs qe
  else queryChunksLinear minShift depth off recs qs qe

/-- steps 3 and 4 -/
def serveAndFilter (chunks : List Chunk) (off : Nat → Nat) (n : Nat) (keep : Nat → Bool) : List Nat :=
  (served off n chunks).filter keep

/-- step 4 for record `i` of `rs`: the BAM filter says `Ok(true)` -/
def ARec.keep (rs : List ARec) (qrid : Nat) (iv : Interval) (i : Nat) : Bool :=
  match rs[i]? with
  | some r => bamIntersects (.val qrid) (.val r.start) (r.ops.map some) qrid iv == some true
  | none => false

/-- the scan's criterion for record `i`: its specification span meets the region -/
def ARec.specKeep (rs : List ARec) (iv : Interval) (i : Nat) : Bool :=
  match rs[i]? with
  | some r => decide (Overlaps r.start r.specEnd iv)
  | none => false

/-- `bam::io::Reader::query(header, index, region).records()` restricted to the records `rs` of the
queried reference `qrid`: the indices delivered, in order. `none` = an `Err` (the region exceeds the
geometry, or a span could not be computed). A filter `Err` cannot occur once every `alignment_end`
succeeded, so the filter's `none` is mapped to "not kept". -/
def queryAlignments (binned : Bool) (minShift depth : Nat) (off : Nat → Nat) (rs : List ARec)
    (qrid : Nat) (iv : Interval) : Option (List Nat) :=
  match mapM? ARec.span? rs with
  | none => none
  | some recs =>
    match resolveInterval minShift depth iv with
    | none => none
    | some (qs, qe) =>
      some (serveAndFilter (chunksFor binned minShift depth off recs qs qe) off rs.length
        (ARec.keep rs qrid iv))

/-- a variant record on the queried contig: `POS` (present: the indexers reject a missing one) and
what `variant_end` looks at -/
structure VRec where
  start : Nat
  refLen : Nat
  infoEnd : Option (Option Val)
  svlen : Option (Option Val)
  lenCol : Option (List (Option Val))

/-- `variant_end(header)` of the record -/
def VRec.end? (major minor : Nat) (r : VRec) : Option Nat :=
  variantEnd major minor (.val r.start) r.refLen r.infoEnd r.svlen r.lenCol

def VRec.span? (major minor : Nat) (r : VRec) : Option Rec :=
  match r.end? major minor with
  | some e => some ⟨r.start, e⟩
  | none => none

/-- step 4 for record `i` of `rs`: the VCF / BCF filter says `Ok(true)` -/
def VRec.keep (major minor : Nat) (rs : List VRec) (iv : Interval) (i : Nat) : Bool :=
  match rs[i]? with
  | some r => vcfIntersects true (.val r.start) (r.end? major minor) iv == some true
  | none => false

/-- the scan's criterion for record `i`: `[POS, variant_end]` meets the region -/
def VRec.specKeep (major minor : Nat) (rs : List VRec) (iv : Interval) (i : Nat) : Bool :=
  match rs[i]? with
  | some r => (match r.end? major minor with
    | some e => decide (Overlaps r.start e iv)
    | none => false)
  | none => false

/-- `vcf::io::Reader::query` / `bcf::io::Reader::query` likewise (`major.minor` = the header's
file format) -/
def queryVariants (binned : Bool) (major minor minShift depth : Nat) (off : Nat → Nat)
    (rs : List VRec) (iv : Interval) : Option (List Nat) :=
  match mapM? (VRec.span? major minor) rs with
  | none => none
  | some recs =>
    match resolveInterval minShift depth iv with
    | none => none
    | some (qs, qe) =>
      some (serveAndFilter (chunksFor binned minShift depth off recs qs qe) off rs.length
        (VRec.keep major minor rs iv))

end Noodles.Span
