import Noodles.Csi.QueryModel
/-!
# The unmapped query at file level (C04)

* `noodles-csi/src/binning_index/indexer.rs` — `Indexer::add_record`, `add_reference_sequences_until`,
  `build`;
* `noodles-csi/src/binning_index/index.rs` — `last_first_record_start_position` (the last reference,
  from the back, whose index has a value);
* `.../reference_sequence/index/linear_index.rs` — `last_first_start_position = self.last()`;
* `.../reference_sequence/index/binned_index.rs` — `last_first_start_position = self.values().max()`;
* `noodles-csi/src/io/writer/index/reference_sequences/bins.rs::first_record_start_position` — the
  `loffset` a CSI FILE carries for a bin: the minimum over the bin and its chain of PRESENT
  ancestors (so an index read back from a file holds these values, not the in-memory ones);
* `noodles-bam/src/io/reader.rs::query_unmapped` — seek there (or to the first record), then keep
  every record whose flags have the unmapped bit.

A file is a list of `FRec` with strictly increasing boundary offsets `off` (record `i` occupies
`[off i, off (i+1))`), as in `Noodles/Csi/QueryModel.lean`; here the list is the WHOLE file (all
references, then the unplaced tail), not the records of one reference.
-/
namespace Noodles.Span
open Noodles.Csi

/-- one record as the indexer and the unmapped query see it: the `alignment_context`
(`(reference id, [start, end])`; `none` = no reference id / no start: counted as unplaced) and the
unmapped flag -/
structure FRec where
  ctx : Option (Nat × Rec)
  unmapped : Bool

/-- the per-reference `reference_sequence::Index` (`LinearIndex` or `BinnedIndex`) -/
structure IxKind where
  σ : Type
  empty : σ
  /-- `Index::update(min_shift, depth, start, end, chunk)`; only `chunk.start()` is used -/
  update : σ → Rec → Nat → σ
  /-- `Index::last_first_start_position` -/
  lastFirst : σ → Option Nat
  /-- every offset the state holds (for the invariant only) -/
  offsets : σ → List Nat

def listMax : List Nat → Option Nat
  | [] => none
  | x :: xs => match listMax xs with
    | none => some x
    | some m => some (if m ≤ x then x else m)

/-- BAI / tabix -/
def linearKind : IxKind where
  σ := List Nat
  empty := []
  update := fun lin r o => linUpdate lin r.e o
  lastFirst := fun lin => lin.getLast?
  offsets := fun lin => lin

/-- CSI, in memory -/
def binnedKind (minShift depth : Nat) : IxKind where
  σ := Binned
  empty := []
  update := fun ix r o => binnedUpdate ix (binOf minShift depth r) o
  lastFirst := fun ix => listMax (ix.map (·.2))
  offsets := fun ix => ix.map (·.2)

/-- `parent_id` -/
def parentId (id : Nat) : Option Nat := if id > 0 then some ((id - 1) / 8) else none

/-- `IndexMap::get` -/
def lookupB (ix : Binned) (id : Nat) : Option Nat :=
  match ix with
  | [] => none
  | (k, v) :: rest => if k = id then some v else lookupB rest id

/-- the `while let Some(pid) = parent_id(id) && let Some(position) = index.get(&pid)` loop of
`first_record_start_position`; ids strictly decrease, so `fuel = id + 1` never runs out -/
def firstStartLoop (ix : Binned) : (fuel id min : Nat) → Nat
  | 0, _, m => m
  | fuel+1, id, m =>
    match parentId id with
    | none => m
    | some pid =>
      match lookupB ix pid with
      | none => m
      | some p => firstStartLoop ix fuel pid (if p < m then p else m)

/-- `first_record_start_position(index, id)` -/
def firstRecordStart (ix : Binned) (id : Nat) : Nat :=
  firstStartLoop ix (id + 1) id ((lookupB ix id).getD 0)

/-- the binned index after `csi::io::Writer::write_index` + `Reader::read_index` -/
def csiRewrite (ix : Binned) : Binned := ix.map fun p => (p.1, firstRecordStart ix p.1)

/-- CSI, read back from an index file -/
def binnedFileKind (minShift depth : Nat) : IxKind where
  σ := Binned
  empty := []
  update := fun ix r o => binnedUpdate ix (binOf minShift depth r) o
  lastFirst := fun ix => listMax ((csiRewrite ix).map (·.2))
  offsets := fun ix => ix.map (·.2)

/-- `add_reference_sequences_until(n - 1)`: `resize_with(n, empty)` (never shrinks here) -/
def growTo (K : IxKind) (refs : List K.σ) (n : Nat) : List K.σ :=
  refs ++ List.replicate (n - refs.length) K.empty

/-- `&mut self.reference_sequences[id]` updated in place -/
def modifyAt {α : Type} (f : α → α) : List α → Nat → List α
  | [], _ => []
  | a :: as, 0 => f a :: as
  | a :: as, n + 1 => a :: modifyAt f as n

/-- `Indexer::add_record(alignment_context, chunk)` with `chunk.start() = o`;
`none` = `Err(InvalidInput)`: a reference id below the current one -/
def addRecord (K : IxKind) (refs : List K.σ) (r : FRec) (o : Nat) : Option (List K.σ) :=
  match r.ctx with
  | none => some refs
  | some (id, span) =>
    let refs := if refs.isEmpty then growTo K refs 1 else refs
    let cur := refs.length - 1
    if id < cur then none
    else
      let refs := if id > cur then growTo K refs (id + 1) else refs
      some (modifyAt (fun st => K.update st span o) refs id)

/-- the indexing loop of `bam::fs::index` / `bcf::fs::index` / the harness's CSI indexer: record `k`
is added with the chunk `[off k, off (k+1))` -/
def indexFile (K : IxKind) (off : Nat → Nat) : Nat → List K.σ → List FRec → Option (List K.σ)
  | _, refs, [] => some refs
  | k, refs, r :: rs =>
    match addRecord K refs r (off k) with
    | none => none
    | some refs' => indexFile K off (k + 1) refs' rs

/-- `Indexer::build(reference_sequence_count)` -/
def build (K : IxKind) (refs : List K.σ) (n : Nat) : List K.σ :=
  if n > refs.length then growTo K refs n else refs

/-- `BinningIndex::last_first_record_start_position` -/
def lastFirstRecordStart (K : IxKind) (refs : List K.σ) : Option Nat :=
  refs.reverse.findSome? K.lastFirst

/-- `Reader::query_unmapped`: the records at or after the seek target (all records when the index
has no value: `seek_to_first_record`) whose unmapped flag is set, in file order -/
def queryUnmapped (off : Nat → Nat) (file : List FRec) (seek : Option Nat) : List Nat :=
  (List.range file.length).filter fun i =>
    (match seek with
      | some p => decide (p ≤ off i)
      | none => true) &&
    (match file[i]? with
      | some r => r.unmapped
      | none => false)

/-- the whole path: index the file, build, take the seek target, scan -/
def unmappedQuery (K : IxKind) (off : Nat → Nat) (file : List FRec) (nref : Nat) : Option (List Nat) :=
  match indexFile K off 0 [] file with
  | none => none
  | some refs => some (queryUnmapped off file (lastFirstRecordStart K (build K refs nref)))

/-- the unplaced unmapped records of a file, in file order: what the property demands -/
def unplacedUnmapped (file : List FRec) : List Nat :=
  (List.range file.length).filter fun i =>
    match file[i]? with
    | some r => r.ctx.isNone && r.unmapped
    | none => false

/-- coordinate-sorted, as far as the unmapped query needs it: no placed record after an unplaced one -/
def PlacedFirst (file : List FRec) : Prop :=
  ∀ i j (hi : i < file.length) (hj : j < file.length),
    file[i].ctx = none → file[j].ctx ≠ none → j < i

end Noodles.Span
