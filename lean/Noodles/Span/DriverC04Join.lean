import Noodles.Basic.Wire
import Noodles.Csi.Driver
import Noodles.Span.DriverC04Span
import Noodles.Span.Join
import Noodles.Span.JoinBgzf
/-! Line-protocol handler for the end-to-end C04 suites (`c04 join …`):

    join chunks <kind> <ms> <d> <nref> <file> <end> <q> <qs> <qe>
        file = `rid:off:s:e,…` (`rid` = `u`: no context) — whole-file indexer + `BinningIndex::query`
    join q aln <kind> <ms> <d> <nref> <file> <end> <q> <qs> <qe>
        file = `rid:off:start:cigar,…` — indexer + query + chunk serving + BAM filter, global record ids
    join q feat <kind> <ms> <d> <nref> <file> <end> <q> <qs> <qe>
        file = `rid:off:s:e,…`
    join q var <kind> <major> <minor> <ms> <d> <nref> <file> <end> <q> <qs> <qe>
        file = `rid:off:start:reflen:end:svlen:len,…`
    join chunk <layout> <hdr> <lens> <preops> <j> <k>
        layout = `csize:dlen,…` — indexing pass + one chunk served by the BGZF reader model
    join bgzf <kind> <ms> <d> <nref> <layout> <hdr> <file> <q> <qs> <qe>
        file = `rid:len:start:cigar,…` — everything over the BGZF reader model
-/
namespace Noodles.Span.DriverJoin
open Noodles.Wire Noodles.Span Noodles.Csi Noodles.Span.Driver
open Noodles.Bgzf.RM (Layout Blk R)
open Noodles.Bgzf.ChunkRead (VPos scanTells serveChunk)

def parseRid (s : String) : Option (Option Nat) :=
  if s = "u" then some none else s.toNat?.map some

def parseFeatFile (s : String) : Option (List (JRec × Nat)) :=
  if s = "-" then some [] else
  (s.splitOn ",").mapM fun e =>
    match e.splitOn ":" with
    | [rid, o, a, b] => do pure (⟨← parseRid rid, .feat ⟨← a.toNat?, ← b.toNat?⟩⟩, ← o.toNat?)
    | _ => none

/-- second component: the offset (`join q`) or the encoded length (`join bgzf`) -/
def parseAlnFile (s : String) : Option (List (JRec × Nat)) :=
  if s = "-" then some [] else
  (s.splitOn ",").mapM fun e =>
    match e.splitOn ":" with
    | [rid, o, a, c] => do pure (⟨← parseRid rid, .aln ⟨← a.toNat?, ← parseCigar c⟩⟩, ← o.toNat?)
    | _ => none

def parseVarFile (s : String) : Option (List (JRec × Nat)) :=
  if s = "-" then some [] else
  (s.splitOn ",").mapM fun e =>
    match e.splitOn ":" with
    | [rid, o, a, rl, en, sv, ln] => do
      pure (⟨← parseRid rid, .var ⟨← a.toNat?, ← rl.toNat?, ← parseInfo en, ← parseInfo sv, ← parseCol ln⟩⟩,
        ← o.toNat?)
    | _ => none

/-- the class of the `Err` behind a `none` of `joinQuery` -/
def errOf (major minor : Nat) (file : List JRec) : String :=
  if file.any fun r => (r.ctx? major minor).isNone then "err:invalid-data" else "err:invalid-input"

def answerQ (kind : String) (ms d major minor nref : Nat) (fl : List (JRec × Nat)) (endOff q : Nat)
    (iv : Interval) : String :=
  let file := fl.map (·.1)
  let off := offOf (fl.map (·.2)) endOff
  match joinQuery (kind = "bin") ms d major minor off nref file q iv with
  | none => errOf major minor file
  | some ids => s!"recs={fmtIds ids}"

/-- `csize:dlen,…`; the data of the layout are the flat offsets themselves -/
def parseLayoutLens (s : String) : Option (Layout Nat) :=
  if s = "-" then some [] else do
    let ps ← (s.splitOn ",").mapM fun e =>
      match e.splitOn ":" with
      | [c, n] => do pure ((← c.toNat?), (← n.toNat?))
      | _ => none
    let r := ps.foldl (fun (acc : List (Blk Nat) × Nat) p =>
      (⟨p.1, (List.range p.2).map (acc.2 + ·)⟩ :: acc.1, acc.2 + p.2)) ([], 0)
    pure r.1.reverse

def fmtTells (t : List VPos) : String :=
  if t.isEmpty then "-" else ",".intercalate (t.map fun v => s!"{v.1}/{v.2}")

/-- pre-operations that put the querying reader in some state: `x<n>` read_exact, `s<c>/<u>` seek -/
def runPre (L : Layout Nat) (s : R Nat) : List String → Option (R Nat)
  | [] => some s
  | w :: ws =>
    match w.toList with
    | 'x' :: r => match (String.ofList r).toNat? with
      | some n => runPre L (Noodles.Bgzf.RM.readExact L s n).1 ws
      | none => none
    | 's' :: r => match (String.ofList r).splitOn "/" with
      | [c, u] => match c.toNat?, u.toNat? with
        | some c, some u => runPre L (Noodles.Bgzf.RM.seek L s c u).1 ws
        | _, _ => none
      | _ => none
    | _ => none

def handle : List String → String
  | ["chunks", kind, ms, d, nref, file, endOff, q, qs, qe] =>
    match ms.toNat?, d.toNat?, nref.toNat?, parseFeatFile file, endOff.toNat?, q.toNat?, parseIv qs qe with
    | some ms, some d, some nref, some fl, some endOff, some q, some iv =>
      let off := offOf (fl.map (·.2)) endOff
      match indexAll ms d 0 0 off 0 [] (fl.map (·.1)) with
      | none => "err:invalid-input"
      | some refs =>
        match (buildJ refs nref)[q]? with
        | none => "err:invalid-input"
        | some st =>
          match resolveInterval ms d iv with
          | none => "err:invalid-input"
          | some (a, b) => s!"chunks={fmtChunks (st.query (kind = "bin") ms d a b)}"
    | _, _, _, _, _, _, _ => "bad-op"
  | ["q", "aln", kind, ms, d, nref, file, endOff, q, qs, qe] =>
    match ms.toNat?, d.toNat?, nref.toNat?, parseAlnFile file, endOff.toNat?, q.toNat?, parseIv qs qe with
    | some ms, some d, some nref, some fl, some endOff, some q, some iv =>
      answerQ kind ms d 0 0 nref fl endOff q iv
    | _, _, _, _, _, _, _ => "bad-op"
  | ["q", "feat", kind, ms, d, nref, file, endOff, q, qs, qe] =>
    match ms.toNat?, d.toNat?, nref.toNat?, parseFeatFile file, endOff.toNat?, q.toNat?, parseIv qs qe with
    | some ms, some d, some nref, some fl, some endOff, some q, some iv =>
      answerQ kind ms d 0 0 nref fl endOff q iv
    | _, _, _, _, _, _, _ => "bad-op"
  | ["q", "var", kind, major, minor, ms, d, nref, file, endOff, q, qs, qe] =>
    match major.toNat?, minor.toNat?, ms.toNat?, d.toNat?, nref.toNat?, parseVarFile file, endOff.toNat?,
      q.toNat?, parseIv qs qe with
    | some ma, some mi, some ms, some d, some nref, some fl, some endOff, some q, some iv =>
      answerQ kind ms d ma mi nref fl endOff q iv
    | _, _, _, _, _, _, _, _, _ => "bad-op"
  | ["chunk", layout, hdr, lens, pre, j, k] =>
    match parseLayoutLens layout, hdr.toNat?, (if lens = "-" then some [] else nats lens), j.toNat?, k.toNat? with
    | some L, some hdr, some lens, some j, some k =>
      let s0 := (Noodles.Bgzf.RM.readExact L R.init hdr).1
      let T := scanTells L s0 lens
      match runPre L R.init (if pre = "-" then [] else pre.splitOn ",") with
      | none => "bad-op"
      | some s1 =>
        let r := serveChunk L s1 (T.getD j (0, 0)) (T.getD k (0, 0)) (lens.drop j)
        let t := Noodles.Bgzf.RM.tell r.1
        match r.2 with
        | none => s!"tells={fmtTells T} err:seek"
        | some recs =>
          -- a record is named by the flat offset of its first byte and its length
          s!"tells={fmtTells T} recs={fmtPairs "+" (recs.map fun b => (b.headD 0, b.length))} at={t.1}/{t.2}"
    | _, _, _, _, _ => "bad-op"
  | ["bgzf", kind, ms, d, nref, layout, hdr, file, q, qs, qe] =>
    match ms.toNat?, d.toNat?, nref.toNat?, parseLayoutLens layout, hdr.toNat?, parseAlnFile file, q.toNat?,
      parseIv qs qe with
    | some ms, some d, some nref, some L, some hdr, some fl, some q, some iv =>
      let file := fl.map (·.1)
      let lens := fl.map (·.2)
      let s0 := (Noodles.Bgzf.RM.readExact L R.init hdr).1
      let T := scanTells L s0 lens
      match joinQueryBgzf (kind = "bin") ms d 0 0 L s0 s0 lens nref file q iv with
      | none => s!"offs={fmtIds (T.map pack)} {errOf 0 0 file}"
      | some ids => s!"offs={fmtIds (T.map pack)} recs={fmtIds ids}"
    | _, _, _, _, _, _, _, _ => "bad-op"
  | _ => "bad-op"

end Noodles.Span.DriverJoin
