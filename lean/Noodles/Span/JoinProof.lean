import Noodles.Span.Join
import Noodles.Span.FileLevelProof
import Noodles.Props.C04Span
/-! Helper lemmas for the end-to-end composition (C04): the whole-file indexer restricted to one
reference is the per-reference build of `Noodles/Csi/QueryModel.lean` over that reference's block. -/
namespace Noodles.Span
open Noodles.Csi
open Noodles.Bam (Op)

/-! ## the per-reference state is the per-reference build -/

/-- fold of `RefIx.update` over the records `k, k+1, …` of one reference -/
def foldRef (ms d : Nat) (off : Nat → Nat) : Nat → RefIx → List Rec → RefIx
  | _, st, [] => st
  | k, st, r :: rs => foldRef ms d off (k + 1) (st.update ms d r (off k) (off (k + 1))) rs

theorem foldRef_eq (ms d : Nat) (off : Nat → Nat) (recs : List Rec) : ∀ (k : Nat) (st : RefIx),
    foldRef ms d off k st recs =
      ⟨buildBins ms d off k st.bins recs, st.ids ++ presentIds ms d recs,
        buildLin off k st.lin recs, buildBinned ms d off k st.binned recs⟩ := by
  induction recs with
  | nil => intro k st; simp [foldRef, buildBins, presentIds, buildLin, buildBinned]
  | cons r rs ih =>
    intro k st
    simp only [foldRef, buildBins, presentIds, buildLin, buildBinned]
    rw [ih]
    simp [RefIx.update]

theorem foldRef_shift (ms d : Nat) (off : Nat → Nat) (p : Nat) (recs : List Rec) :
    ∀ (k : Nat) (st : RefIx),
      foldRef ms d off (p + k) st recs = foldRef ms d (fun j => off (p + j)) k st recs := by
  induction recs with
  | nil => intro k st; rfl
  | cons r rs ih =>
    intro k st
    simp only [foldRef]
    exact ih (k + 1) _

/-- the query on the state built from one reference's block = `chunksFor` of the per-reference model -/
theorem foldRef_query (binned : Bool) (ms d : Nat) (off : Nat → Nat) (recs : List Rec) (qs qe : Nat) :
    (foldRef ms d off 0 RefIx.empty recs).query binned ms d qs qe =
      chunksFor binned ms d off recs qs qe := by
  rw [foldRef_eq]
  unfold RefIx.query RefIx.candidates chunksFor queryChunksBinned queryChunksLinear candidates
  cases binned <;> simp [RefIx.empty]

/-! ## lists of reference sequences -/

theorem growRefs_length (refs : List RefIx) (n : Nat) (h : refs.length ≤ n) :
    (growRefs refs n).length = n := by
  unfold growRefs; simp; omega

theorem growRefs_self (refs : List RefIx) (n : Nat) (h : n ≤ refs.length) : growRefs refs n = refs := by
  unfold growRefs
  have : n - refs.length = 0 := by omega
  rw [this]; simp

theorem getD_growRefs (refs : List RefIx) (n q : Nat) :
    ((growRefs refs n)[q]?).getD RefIx.empty = (refs[q]?).getD RefIx.empty := by
  unfold growRefs
  by_cases h : q < refs.length
  · rw [List.getElem?_append_left h]
  · rw [List.getElem?_append_right (by omega), List.getElem?_replicate]
    rw [List.getElem?_eq_none (by omega)]
    split <;> rfl

theorem length_modifyAt {α : Type} (f : α → α) : ∀ (l : List α) (i : Nat),
    (modifyAt f l i).length = l.length := by
  intro l
  induction l with
  | nil => intro i; rfl
  | cons a as ih =>
    intro i
    cases i with
    | zero => rfl
    | succ n => simp [modifyAt, ih]

theorem getElem?_modifyAt_ne {α : Type} (f : α → α) : ∀ (l : List α) (i j : Nat), i ≠ j →
    (modifyAt f l i)[j]? = l[j]? := by
  intro l
  induction l with
  | nil => intro i j _; rfl
  | cons a as ih =>
    intro i j hne
    cases i with
    | zero =>
      cases j with
      | zero => exact absurd rfl hne
      | succ m => simp [modifyAt]
    | succ n =>
      cases j with
      | zero => simp [modifyAt]
      | succ m => simp only [modifyAt, List.getElem?_cons_succ]; exact ih n m (by omega)

theorem getElem?_modifyAt_eq {α : Type} (f : α → α) : ∀ (l : List α) (i : Nat),
    (modifyAt f l i)[i]? = (l[i]?).map f := by
  intro l
  induction l with
  | nil => intro i; rfl
  | cons a as ih =>
    intro i
    cases i with
    | zero => simp [modifyAt]
    | succ n => simp only [modifyAt, List.getElem?_cons_succ]; exact ih n

/-- `add_record` of a placed record whose id is not below the current one -/
theorem addRecordJ_placed (ms d : Nat) (refs : List RefIx) (id : Nat) (sp : Rec) (cs ce : Nat)
    (h : refs.length ≤ id + 1) :
    addRecordJ ms d refs (some (id, sp)) cs ce =
      some (modifyAt (fun st => st.update ms d sp cs ce) (growRefs refs (id + 1)) id) := by
  unfold addRecordJ
  cases refs with
  | nil =>
    have h1 : growRefs ([] : List RefIx) 1 = [RefIx.empty] := rfl
    simp only [List.isEmpty_nil, if_true, h1, List.length_singleton, Nat.sub_self, Nat.not_lt_zero,
      if_false]
    by_cases h0 : id > 0
    · rw [if_pos h0]
      congr 2
    · rw [if_neg h0]
      have : id = 0 := by omega
      subst this; rfl
  | cons a as =>
    simp only [List.isEmpty_cons, Bool.false_eq_true, if_false, List.length_cons] at h ⊢
    have hcur : as.length + 1 - 1 = as.length := by omega
    rw [hcur, if_neg (by omega)]
    by_cases hgt : id > as.length
    · rw [if_pos hgt]
    · rw [if_neg hgt, growRefs_self _ _ (by simp; omega)]

/-! ## the indexer followed at one reference -/

/-- the updates the whole-file indexer applies to reference `q`: records of the file that are on `q`,
each with the chunk at its GLOBAL position -/
def foldSel (ms d major minor : Nat) (off : Nat → Nat) (q : Nat) : Nat → RefIx → List JRec → RefIx
  | _, st, [] => st
  | k, st, r :: rs =>
    if r.rid = some q then
      match r.body.span? major minor with
      | some sp => foldSel ms d major minor off q (k + 1) (st.update ms d sp (off k) (off (k + 1))) rs
      | none => foldSel ms d major minor off q (k + 1) st rs
    else foldSel ms d major minor off q (k + 1) st rs

theorem ridLe_some (a : Option Nat) (x : Nat) (h : ridLe a (some x) = true) : ∃ y, a = some y ∧ y ≤ x := by
  cases a with
  | none => simp [ridLe] at h
  | some y => exact ⟨y, rfl, by simpa [ridLe] using h⟩

/-- the indexer accepts every file in reference order whose spans can be computed, and its state at
reference `q` is `foldSel` -/
theorem indexAll_sorted (ms d major minor : Nat) (off : Nat → Nat) (q : Nat) (l : List JRec) :
    ∀ (k : Nat) (refs : List RefIx), RidSorted l →
      (∀ r ∈ l, ∀ id, r.rid = some id → (r.body.span? major minor).isSome) →
      (∀ r ∈ l, ∀ id, r.rid = some id → refs.length ≤ id + 1) →
      ∃ refs', indexAll ms d major minor off k refs l = some refs' ∧
        (refs'[q]?).getD RefIx.empty =
          foldSel ms d major minor off q k ((refs[q]?).getD RefIx.empty) l := by
  induction l with
  | nil => intro k refs _ _ _; exact ⟨refs, rfl, rfl⟩
  | cons r rs ih =>
    intro k refs hs hok hlen
    have hs' := List.pairwise_cons.mp hs
    cases hrid : r.rid with
    | none =>
      have hctx : r.ctx? major minor = some none := by simp [JRec.ctx?, hrid]
      obtain ⟨refs', h1, h2⟩ := ih (k + 1) refs hs'.2
        (fun r' hr' => hok r' (List.mem_cons_of_mem _ hr'))
        (fun r' hr' => hlen r' (List.mem_cons_of_mem _ hr'))
      refine ⟨refs', ?_, ?_⟩
      · simp only [indexAll, hctx, addRecordJ]; exact h1
      · rw [h2]; simp [foldSel, hrid]
    | some id =>
      have hsp := hok r (List.mem_cons_self) id hrid
      obtain ⟨sp, hsp⟩ := Option.isSome_iff_exists.mp hsp
      have hctx : r.ctx? major minor = some (some (id, sp)) := by simp [JRec.ctx?, hrid, hsp]
      have hl := hlen r (List.mem_cons_self) id hrid
      have hadd := addRecordJ_placed ms d refs id sp (off k) (off (k + 1)) hl
      have hglen := growRefs_length refs (id + 1) hl
      obtain ⟨refs', h1, h2⟩ := ih (k + 1)
        (modifyAt (fun st => st.update ms d sp (off k) (off (k + 1))) (growRefs refs (id + 1)) id)
        hs'.2 (fun r' hr' => hok r' (List.mem_cons_of_mem _ hr'))
        (by
          intro r' hr' id' hid'
          have := hs'.1 r' hr'
          rw [hrid, hid'] at this
          have : id ≤ id' := by simpa [ridLe] using this
          rw [length_modifyAt, hglen]; omega)
      refine ⟨refs', ?_, ?_⟩
      · simp only [indexAll, hctx, hadd]; exact h1
      · rw [h2]
        by_cases hq : id = q
        · subst hq
          have hget : (growRefs refs (id + 1))[id]? =
              some (((growRefs refs (id + 1))[id]?).getD RefIx.empty) := by
            rw [List.getElem?_eq_getElem (by omega)]; rfl
          rw [getElem?_modifyAt_eq, hget, getD_growRefs]
          simp [foldSel, hrid, hsp]
        · rw [getElem?_modifyAt_ne _ _ _ _ hq, getD_growRefs]
          have : ¬ (some id = some q) := by simpa using hq
          simp [foldSel, hrid, this]

theorem foldSel_append (ms d major minor : Nat) (off : Nat → Nat) (q : Nat) (a b : List JRec) :
    ∀ (k : Nat) (st : RefIx),
      foldSel ms d major minor off q k st (a ++ b) =
        foldSel ms d major minor off q (k + a.length) (foldSel ms d major minor off q k st a) b := by
  induction a with
  | nil => intro k st; rfl
  | cons r rs ih =>
    intro k st
    have e : k + (r :: rs).length = k + 1 + rs.length := by simp; omega
    rw [e]
    simp only [List.cons_append, foldSel]
    split
    · split
      · exact ih _ _
      · exact ih _ _
    · exact ih _ _

theorem foldSel_none (ms d major minor : Nat) (off : Nat → Nat) (q : Nat) (l : List JRec)
    (h : ∀ r ∈ l, r.rid ≠ some q) : ∀ (k : Nat) (st : RefIx),
      foldSel ms d major minor off q k st l = st := by
  induction l with
  | nil => intro k st; rfl
  | cons r rs ih =>
    intro k st
    simp only [foldSel, h r (List.mem_cons_self), if_false]
    exact ih (fun r' hr' => h r' (List.mem_cons_of_mem _ hr')) _ _

theorem foldSel_block (ms d major minor : Nat) (off : Nat → Nat) (q : Nat) (l : List JRec)
    (sp : JRec → Rec)
    (h : ∀ r ∈ l, r.rid = some q ∧ r.body.span? major minor = some (sp r)) :
    ∀ (k : Nat) (st : RefIx),
      foldSel ms d major minor off q k st l = foldRef ms d off k st (l.map sp) := by
  induction l with
  | nil => intro k st; rfl
  | cons r rs ih =>
    intro k st
    obtain ⟨h1, h2⟩ := h r (List.mem_cons_self)
    simp only [foldSel, h1, h2, if_true, List.map_cons, foldRef]
    exact ih (fun r' hr' => h r' (List.mem_cons_of_mem _ hr')) _ _

/-! ## a file in reference order splits at every reference -/

theorem ridSorted_split (q : Nat) : ∀ (file : List JRec), RidSorted file →
    ∃ pre mid post, file = pre ++ mid ++ post ∧
      (∀ r ∈ pre, ∃ x, r.rid = some x ∧ x < q) ∧ (∀ r ∈ mid, r.rid = some q) ∧
      (∀ r ∈ post, r.rid = none ∨ ∃ x, r.rid = some x ∧ q < x) := by
  intro file
  induction file with
  | nil => intro _; exact ⟨[], [], [], rfl, by simp, by simp, by simp⟩
  | cons r rs ih =>
    intro hs
    have hs' := List.pairwise_cons.mp hs
    obtain ⟨pre, mid, post, hfile, hpre, hmid, hpost⟩ := ih hs'.2
    have hmem_pre : ∀ r' ∈ pre, r' ∈ rs := by intro r' h; rw [hfile]; simp [h]
    have hmem_mid : ∀ r' ∈ mid, r' ∈ rs := by intro r' h; rw [hfile]; simp [h]
    by_cases hlt : ∃ x, r.rid = some x ∧ x < q
    · exact ⟨r :: pre, mid, post, by simp [hfile],
        by intro r' hr'; rcases List.mem_cons.mp hr' with rfl | h
           · exact hlt
           · exact hpre r' h, hmid, hpost⟩
    · -- nothing after `r` is below `q`
      have hpre0 : pre = [] := by
        apply List.eq_nil_iff_forall_not_mem.mpr
        intro r' hr'
        obtain ⟨x, hx, hxq⟩ := hpre r' hr'
        have h := hs'.1 r' (hmem_pre r' hr')
        rw [hx] at h
        obtain ⟨y, hy, hyx⟩ := ridLe_some _ _ h
        exact hlt ⟨y, hy, by omega⟩
      subst hpre0
      by_cases heq : r.rid = some q
      · exact ⟨[], r :: mid, post, by simp [hfile],
          by simp, by intro r' hr'; rcases List.mem_cons.mp hr' with rfl | h
                      · exact heq
                      · exact hmid r' h, hpost⟩
      · have hmid0 : mid = [] := by
          apply List.eq_nil_iff_forall_not_mem.mpr
          intro r' hr'
          have h := hs'.1 r' (hmem_mid r' hr')
          rw [hmid r' hr'] at h
          obtain ⟨y, hy, hyx⟩ := ridLe_some _ _ h
          by_cases hyq : y = q
          · subst hyq; exact heq hy
          · exact hlt ⟨y, hy, by omega⟩
        subst hmid0
        refine ⟨[], [], r :: post, by simp [hfile], by simp, by simp, ?_⟩
        intro r' hr'
        rcases List.mem_cons.mp hr' with rfl | h
        · cases hr : r'.rid with
          | none => exact Or.inl rfl
          | some x =>
            refine Or.inr ⟨x, rfl, ?_⟩
            have h1 : ¬ x < q := fun hx => hlt ⟨x, hr, hx⟩
            have h2 : x ≠ q := fun hx => heq (by rw [hr, hx])
            omega
        · exact hpost r' h

/-! ## the filters on a record inside the geometry -/

/-- a record that is not on the queried reference is dropped by the filter and by the scan -/
theorem accept_other (major minor : Nat) (r : JRec) (q : Nat) (iv : Interval) (h : r.rid ≠ some q) :
    r.accept major minor q iv = false ∧ r.specAccept major minor q iv = false := by
  have hb : (r.rid == some q) = false := by simpa using h
  refine ⟨?_, by simp [JRec.specAccept, hb]⟩
  unfold JRec.accept
  cases hbody : r.body with
  | aln a =>
    simp only
    cases hrid : r.rid with
    | none => simp [ridOR, bamIntersects]
    | some id =>
      have : id ≠ q := by intro e; apply h; rw [hrid, e]
      simp [ridOR, bamIntersects, this]
  | var v => simp [hb, vcfIntersects]
  | feat f => simp [hb, csiFilterIntersects]

/-- inside the geometry the span function succeeds and yields the specification span -/
theorem span_of_valid (major minor ms d : Nat) (hgeom : maxPos ms d ≤ USIZE_MAX) (b : Body)
    (hv : b.validB major minor ms d = true) :
    ∃ sp, b.specSpan major minor = some sp ∧ b.span? major minor = some sp ∧
      (1 ≤ sp.s ∧ sp.s ≤ sp.e ∧ sp.e ≤ maxPos ms d) := by
  unfold Body.validB at hv
  cases hsp : b.specSpan major minor with
  | none => rw [hsp] at hv; cases hv
  | some sp =>
    rw [hsp] at hv
    simp only [decide_eq_true_eq] at hv
    obtain ⟨h1, h2, h3⟩ := hv
    refine ⟨sp, rfl, ?_, ⟨h1, h2, h3⟩⟩
    cases b with
    | aln a =>
      simp only [Body.specSpan, Option.some.injEq] at hsp
      subst hsp
      simp only at h1 h2 h3
      have hend : a.end? = .val a.specEnd := by
        unfold ARec.end?
        rw [alignmentEnd_ok a.start a.ops h1 (by omega)]
        unfold ARec.specEnd at h3 ⊢
        rw [if_pos (by omega)]
      simp [Body.span?, ARec.span?, hend]
    | var v =>
      simp only [Body.specSpan] at hsp
      cases he : v.end? major minor with
      | none => rw [he] at hsp; cases hsp
      | some e =>
        rw [he] at hsp
        simp only [Option.map_some, Option.some.injEq] at hsp
        subst hsp
        simp [Body.span?, VRec.span?, he]
    | feat f =>
      simp only [Body.specSpan, Option.some.injEq] at hsp
      subst hsp; rfl

/-- a valid record on the queried reference: the indexer's span is the specification span, and both
the format filter and the scan's criterion are the closed-interval test on the resolved bounds -/
theorem accept_placed (major minor ms d : Nat) (hgeom : maxPos ms d ≤ USIZE_MAX) (r : JRec) (q : Nat)
    (iv : Interval) (qs qe : Nat) (hres : resolveInterval ms d iv = some (qs, qe))
    (hrid : r.rid = some q) (hv : r.body.validB major minor ms d = true) :
    ∃ sp, r.body.specSpan major minor = some sp ∧ r.body.span? major minor = some sp ∧
      (1 ≤ sp.s ∧ sp.s ≤ sp.e ∧ sp.e ≤ maxPos ms d) ∧
      r.accept major minor q iv = intersects sp qs qe ∧
      r.specAccept major minor q iv = intersects sp qs qe := by
  unfold Body.validB at hv
  cases hsp : r.body.specSpan major minor with
  | none => rw [hsp] at hv; cases hv
  | some sp =>
    rw [hsp] at hv
    simp only [decide_eq_true_eq] at hv
    obtain ⟨h1, h2, h3⟩ := hv
    have hov := overlaps_resolved ms d iv qs qe sp.s sp.e hres h1 h2 h3
    have hdec : decide (Overlaps sp.s sp.e iv) = intersects sp qs qe := by
      unfold intersects; rw [decide_eq_decide]; exact hov
    have hspec : r.specAccept major minor q iv = intersects sp qs qe := by
      simp [JRec.specAccept, hrid, hsp, hdec]
    refine ⟨sp, rfl, ?_, ⟨h1, h2, h3⟩, ?_, hspec⟩
    · cases hbody : r.body with
      | aln a =>
        rw [hbody] at hsp
        simp only [Body.specSpan, Option.some.injEq] at hsp
        subst hsp
        simp only at h1 h2 h3
        have hend : a.end? = .val a.specEnd := by
          unfold ARec.end?
          rw [alignmentEnd_ok a.start a.ops h1 (by omega)]
          unfold ARec.specEnd at h3 ⊢
          rw [if_pos (by omega)]
        simp [Body.span?, ARec.span?, hend]
      | var v =>
        rw [hbody] at hsp
        simp only [Body.specSpan] at hsp
        cases he : v.end? major minor with
        | none => rw [he] at hsp; cases hsp
        | some e =>
          rw [he] at hsp
          simp only [Option.map_some, Option.some.injEq] at hsp
          subst hsp
          simp [Body.span?, VRec.span?, he]
      | feat f =>
        rw [hbody] at hsp
        simp only [Body.specSpan, Option.some.injEq] at hsp
        subst hsp; rfl
    · rw [← hdec]
      unfold JRec.accept
      cases hbody : r.body with
      | aln a =>
        rw [hbody] at hsp
        simp only [Body.specSpan, Option.some.injEq] at hsp
        subst hsp
        simp only at h1 h2 h3 ⊢
        have hend : alignmentEnd (.val a.start) (a.ops.map some) = .val a.specEnd := by
          rw [alignmentEnd_ok a.start a.ops h1 (by omega)]
          unfold ARec.specEnd at h3 ⊢
          rw [if_pos (by omega)]
        rw [hrid]
        simp only [ridOR]
        rw [bamIntersects_spec q a.start a.specEnd _ q iv h1 h2 (by omega) hend]
        by_cases ho : Overlaps a.start a.specEnd iv <;> simp [ho]
      | var v =>
        rw [hbody] at hsp
        simp only [Body.specSpan] at hsp
        cases he : v.end? major minor with
        | none => rw [he] at hsp; cases hsp
        | some e =>
          rw [he] at hsp
          simp only [Option.map_some, Option.some.injEq] at hsp
          subst hsp
          simp only at h1 h2 h3 ⊢
          rw [hrid]
          simp only [beq_self_eq_true]
          rw [he, vcfIntersects_spec true v.start e iv h1 h2 (by omega)]
          by_cases ho : Overlaps v.start e iv <;> simp [ho]
      | feat f =>
        rw [hbody] at hsp
        simp only [Body.specSpan, Option.some.injEq] at hsp
        subst hsp
        simp only
        rw [hrid]
        simp only [beq_self_eq_true, csiFilterIntersects, Bool.true_and]
        rw [intersects_closed f.s f.e iv (by omega) (by omega)]

/-- the indexer accepts every file in reference order whose placed records lie within the geometry -/
theorem indexAll_accepts (ms d major minor : Nat) (off : Nat → Nat) (file : List JRec)
    (hgeom : maxPos ms d ≤ USIZE_MAX) (hsorted : RidSorted file)
    (hvalid : JoinValid major minor ms d file) :
    ∃ refs, indexAll ms d major minor off 0 [] file = some refs := by
  obtain ⟨refs, h, _⟩ := indexAll_sorted ms d major minor off 0 file 0 [] hsorted
    (by
      intro r hr id hid
      obtain ⟨sp, _, h2, _⟩ := span_of_valid major minor ms d hgeom r.body
        (hvalid r hr (by rw [hid]; simp))
      rw [h2]; rfl)
    (by intro r _ id _; simp)
  exact ⟨refs, h⟩

/-! ## the join -/

/-- the record as the given-span file model sees it -/
def toG (major minor : Nat) (r : JRec) : GRec :=
  ⟨r.rid, (r.body.specSpan major minor).getD ⟨0, 0⟩⟩

theorem accept_toG (major minor ms d : Nat) (hgeom : maxPos ms d ≤ USIZE_MAX) (r : JRec) (q : Nat)
    (iv : Interval) (qs qe : Nat) (hres : resolveInterval ms d iv = some (qs, qe))
    (hv : r.rid ≠ none → r.body.validB major minor ms d = true) :
    r.accept major minor q iv =
        (((toG major minor r).rid == some q) && intersects (toG major minor r).span qs qe) ∧
      r.specAccept major minor q iv =
        (((toG major minor r).rid == some q) && intersects (toG major minor r).span qs qe) := by
  by_cases hrid : r.rid = some q
  · obtain ⟨sp, h1, _, _, h4, h5⟩ := accept_placed major minor ms d hgeom r q iv qs qe hres hrid
      (hv (by rw [hrid]; simp))
    simp [toG, hrid, h1, h4, h5]
  · obtain ⟨h1, h2⟩ := accept_other major minor r q iv hrid
    have hb : (r.rid == some q) = false := by simpa using hrid
    simp [toG, hb, h1, h2]

theorem buildJ_get (refs : List RefIx) (nref q : Nat) (hq : q < nref) :
    (buildJ refs nref)[q]? = some ((refs[q]?).getD RefIx.empty) := by
  unfold buildJ
  by_cases h : nref > refs.length
  · rw [if_pos h]
    have hl := growRefs_length refs nref (by omega)
    have := getD_growRefs refs nref q
    rw [List.getElem?_eq_getElem (by omega)] at this ⊢
    simpa using this
  · rw [if_neg h, List.getElem?_eq_getElem (by omega)]
    simp

/-- **the whole-file indexer + query = the full scan** (the lemma behind
`Noodles.Props.C04.query_end_to_end`) -/
theorem joinQuery_eq_scan (binned : Bool) (ms d major minor : Nat) (off : Nat → Nat)
    (hmono : ∀ a b, a < b → off a < off b) (nref : Nat) (file : List JRec)
    (hgeom : maxPos ms d ≤ USIZE_MAX) (hsorted : RidSorted file)
    (hvalid : JoinValid major minor ms d file)
    (q : Nat) (iv : Interval) (hq : q < nref) (hiv : ∀ s, iv.start = some s → 1 ≤ s)
    (hin : (resolveInterval ms d iv).isSome) :
    joinQuery binned ms d major minor off nref file q iv = some (joinScan major minor file q iv) := by
  cases hres : resolveInterval ms d iv with
  | none => rw [hres] at hin; cases hin
  | some qq =>
    obtain ⟨qs, qe⟩ := qq
    have hq1 := resolved_start_pos ms d iv qs qe hres hiv
    -- the indexer accepts the file; its state at `q`
    have hok : ∀ r ∈ file, ∀ id, r.rid = some id → (r.body.span? major minor).isSome := by
      intro r hr id hid
      obtain ⟨sp, _, h2, _⟩ := accept_placed major minor ms d hgeom r id iv qs qe hres hid
        (hvalid r hr (by rw [hid]; simp))
      rw [h2]; rfl
    obtain ⟨refs, hix, hst⟩ := indexAll_sorted ms d major minor off q file 0 [] hsorted hok
      (by intro r _ id _; simp)
    -- the block of `q`
    obtain ⟨pre, mid, post, hfile, hpre, hmid, hpost⟩ := ridSorted_split q file hsorted
    have hpre' : ∀ r ∈ pre, r.rid ≠ some q := by
      intro r hr h; obtain ⟨x, hx, hlt⟩ := hpre r hr; rw [hx] at h; simp at h; omega
    have hpost' : ∀ r ∈ post, r.rid ≠ some q := by
      intro r hr h
      rcases hpost r hr with hn | ⟨x, hx, hlt⟩
      · rw [hn] at h; cases h
      · rw [hx] at h; simp at h; omega
    have hmemf : ∀ r, r ∈ mid → r ∈ file := by intro r h; rw [hfile]; simp [h]
    have hmidv : ∀ r ∈ mid, r.rid = some q ∧
        r.body.span? major minor = some ((toG major minor r).span) ∧
        (1 ≤ (toG major minor r).span.s ∧ (toG major minor r).span.s ≤ (toG major minor r).span.e ∧
          (toG major minor r).span.e ≤ maxPos ms d) := by
      intro r hr
      have hrid := hmid r hr
      obtain ⟨sp, h1, h2, h3, _⟩ := accept_placed major minor ms d hgeom r q iv qs qe hres hrid
        (hvalid r (hmemf r hr) (by rw [hrid]; simp))
      refine ⟨hrid, ?_, ?_⟩ <;> simp [toG, h1, h2, h3]
    have hstate : (refs[q]?).getD RefIx.empty =
        foldRef ms d (fun j => off (pre.length + j)) 0 RefIx.empty
          (mid.map fun r => (toG major minor r).span) := by
      rw [hst]
      simp only [List.getElem?_nil, Option.getD_none]
      rw [hfile, foldSel_append, foldSel_append, foldSel_none _ _ _ _ _ _ pre hpre',
        foldSel_block _ _ _ _ _ _ mid (fun r => (toG major minor r).span)
          (fun r hr => ⟨(hmidv r hr).1, (hmidv r hr).2.1⟩),
        foldSel_none _ _ _ _ _ _ post hpost']
      have := foldRef_shift ms d off pre.length (mid.map fun r => (toG major minor r).span) 0
        RefIx.empty
      simpa using this
    unfold joinQuery
    rw [hix]
    simp only
    rw [buildJ_get refs nref q hq, hstate]
    simp only [hres]
    rw [foldRef_query]
    -- the given-span whole-file theorem
    have hvr : ValidRecs ms d (mid.map fun r => (toG major minor r).span) := by
      intro sp hsp
      obtain ⟨r, hr, rfl⟩ := List.mem_map.mp hsp
      have := (hmidv r hr).2.2
      unfold maxPos at this
      exact this
    have hG := Noodles.Props.C04.query_file_eq_scan binned ms d off hmono (pre.map (toG major minor))
      (post.map (toG major minor)) (mid.map fun r => (toG major minor r).span) q
      (by intro g hg; obtain ⟨r, hr, rfl⟩ := List.mem_map.mp hg; exact hpre' r hr)
      (by intro g hg; obtain ⟨r, hr, rfl⟩ := List.mem_map.mp hg; exact hpost' r hr)
      hvr qs qe hq1
    have hfileG : fileOf (pre.map (toG major minor)) (mid.map fun r => (toG major minor r).span)
        (post.map (toG major minor)) q = file.map (toG major minor) := by
      unfold fileOf
      rw [hfile, List.map_append, List.map_append, List.map_map]
      congr 2
      apply List.map_congr_left
      intro r hr
      simp only [Function.comp]
      have := (hmidv r hr).1
      simp [toG, this]
    unfold queryFile scanFile at hG
    simp only [hfileG, List.length_map] at hG
    have hkeep : ∀ i, JRec.keep major minor file q iv i =
        GRec.keep (file.map (toG major minor)) q qs qe i ∧
        JRec.specKeep major minor file q iv i = GRec.keep (file.map (toG major minor)) q qs qe i := by
      intro i
      unfold JRec.keep JRec.specKeep GRec.keep
      rw [List.getElem?_map]
      cases hget : file[i]? with
      | none => exact ⟨rfl, rfl⟩
      | some r =>
        have hr : r ∈ file := List.mem_of_getElem? hget
        have := accept_toG major minor ms d hgeom r q iv qs qe hres (hvalid r hr)
        simpa using this
    unfold joinScan
    congr 1
    have e1 : (served off file.length
          (chunksFor binned ms d (fun j => off (pre.length + j))
            (mid.map fun r => (toG major minor r).span) qs qe)).filter
          (JRec.keep major minor file q iv) =
        (served off file.length
          (chunksFor binned ms d (fun j => off (pre.length + j))
            (mid.map fun r => (toG major minor r).span) qs qe)).filter
          (GRec.keep (file.map (toG major minor)) q qs qe) :=
      List.filter_congr (fun i _ => (hkeep i).1)
    have e2 : (List.range file.length).filter (JRec.specKeep major minor file q iv) =
        (List.range file.length).filter (GRec.keep (file.map (toG major minor)) q qs qe) :=
      List.filter_congr (fun i _ => (hkeep i).2)
    rw [e1, e2]
    exact hG

end Noodles.Span
