import Noodles.Basic.Wire
import Noodles.Span.Align
import Noodles.Span.Variant
import Noodles.Span.Filter
import Noodles.Span.Unmapped
import Noodles.Span.Compose
import Noodles.Span.FileLevel
/-! Line-protocol handler for the C04 span / filter / unmapped / record-level suites
(`c04 aspan|lazy|buf|vend|isect|lastfirst|unmapped|qrecs|qvars …`). -/
namespace Noodles.Span.Driver
open Noodles.Wire Noodles.Span Noodles.Csi
open Noodles.Bam (Op)
open Noodles.Vcf (Val)

def fmtOR : OR Nat → String
  | .absent => "none"
  | .err => "err:invalid-data"
  | .val n => toString n

def fmtRes : Option Nat → String
  | none => "err:invalid-data"
  | some n => toString n

def fmtPR : PR (Option Nat) → String
  | .panic => "panic"
  | .ret none => "none"
  | .ret (some n) => toString n

/-- `-` absent, `e` error, else a number -/
def parseOR (s : String) : Option (OR Nat) :=
  if s = "-" then some .absent else if s = "e" then some .err else s.toNat?.map .val

/-- `-` = empty; items `kind:len` or `e` (an `Err` yielded by the iterator) -/
def parseItems (s : String) : Option (List (Option Op)) :=
  if s = "-" then some [] else
  (s.splitOn ",").mapM fun it =>
    if it = "e" then some none else
    match it.splitOn ":" with
    | [k, l] => do pure (some ⟨← k.toNat?, ← l.toNat?⟩)
    | _ => none

def parseOps (s : String) : Option (List Op) := do
  let items ← parseItems s
  items.mapM id

/-- `*` = empty; `kind.len;kind.len` -/
def parseCigar (s : String) : Option (List Op) :=
  if s = "*" then some [] else
  (s.splitOn ";").mapM fun it =>
    match it.splitOn "." with
    | [k, l] => do pure ⟨← k.toNat?, ← l.toNat?⟩
    | _ => none

def parseOptNat (s : String) : Option (Option Nat) :=
  if s = "-" then some none else s.toNat?.map some

def parseIv (qs qe : String) : Option Interval := do
  pure ⟨← parseOptNat qs, ← parseOptNat qe⟩

/-- `.` = missing entry -/
def parseOptInt (s : String) : Option (Option Int) :=
  if s = "." then some none else s.toInt?.map some

/-- INFO END / SVLEN lookup: `a` absent, `m` missing value, `i<int>` Integer, `I<x;y;…>` integer
array (`I` alone = empty array), `s` a value of another type -/
def parseInfo (s : String) : Option (Option (Option Val)) :=
  if s = "a" then some none
  else if s = "m" then some (some none)
  else if s = "s" then some (some (some (.string [120])))
  else if s.startsWith "i" then (s.drop 1).toString.toInt?.map fun n => some (some (.integer n))
  else if s = "I" then some (some (some (.ints [])))
  else if s.startsWith "I" then
    (((s.drop 1).toString.splitOn ";").mapM parseOptInt).map fun l => some (some (.ints l))
  else none

/-- FORMAT LEN column: `a` no LEN key, `C` an empty column (no samples), `C<x;y;…>` entries:
`.` missing, an integer, `x` a value of another type -/
def parseCol (s : String) : Option (Option (List (Option Val))) :=
  if s = "a" then some none
  else if s = "C" then some (some [])
  else if s.startsWith "C" then
    (((s.drop 1).toString.splitOn ";").mapM fun e =>
      if e = "." then some none
      else if e = "x" then some (some (Val.string [120]))
      else e.toInt?.map fun n => some (Val.integer n)).map some
  else none

def fmtB : Option Bool → String
  | none => "err:invalid-data"
  | some true => "true"
  | some false => "false"

/-- `rid:s:e:off:flag`, `rid` = `u` for a record without alignment context -/
def parseFile (s : String) : Option (List (FRec × Nat)) :=
  if s = "-" then some [] else
  (s.splitOn ",").mapM fun e =>
    match e.splitOn ":" with
    | [rid, a, b, o, f] => do
      let a ← a.toNat?
      let b ← b.toNat?
      let o ← o.toNat?
      let ctx ← (if rid = "u" then some none else rid.toNat?.map fun id => some (id, (⟨a, b⟩ : Rec)))
      pure (⟨ctx, f = "1"⟩, o)
    | _ => none

def offOf (offs : List Nat) (endOff : Nat) : Nat → Nat :=
  let arr := offs.toArray
  fun i => if i < arr.size then arr[i]! else endOff + (i - arr.size)

def kindOf (k : String) (ms d : Nat) : Option IxKind :=
  if k = "lin" then some linearKind
  else if k = "bin" then some (binnedKind ms d)
  else if k = "binfile" then some (binnedFileKind ms d)
  else none

def fmtIds (l : List Nat) : String := if l.isEmpty then "-" else ",".intercalate (l.map toString)

def fmtSeek : Option Nat → String
  | none => "none"
  | some p => toString p

def handleUnmapped (full : Bool) (kind ms d nref file endOff : String) : String :=
  match ms.toNat?, d.toNat?, nref.toNat?, parseFile file, endOff.toNat? with
  | some ms, some d, some nref, some fl, some endOff =>
    match kindOf kind ms d with
    | none => "bad-op"
    | some K =>
      let recs := fl.map (·.1)
      let off := offOf (fl.map (·.2)) endOff
      match indexFile K off 0 [] recs with
      | none => "err:invalid-input"
      | some refs =>
        let seek := lastFirstRecordStart K (build K refs nref)
        if full then s!"seek={fmtSeek seek} recs={fmtIds (queryUnmapped off recs seek)}"
        else s!"seek={fmtSeek seek}"
  | _, _, _, _, _ => "bad-op"

/-- `start:off:next:cigar` -/
def parseARecs (s : String) : Option (List (ARec × Nat × Nat)) :=
  if s = "-" then some [] else
  (s.splitOn ",").mapM fun e =>
    match e.splitOn ":" with
    | [a, o, n, c] => do pure (⟨← a.toNat?, ← parseCigar c⟩, ← o.toNat?, ← n.toNat?)
    | _ => none

/-- `start:off:next:reflen:end:svlen:len` -/
def parseVRecs (s : String) : Option (List (VRec × Nat × Nat)) :=
  if s = "-" then some [] else
  (s.splitOn ",").mapM fun e =>
    match e.splitOn ":" with
    | [a, o, n, rl, en, sv, ln] => do
      pure (⟨← a.toNat?, ← rl.toNat?, ← parseInfo en, ← parseInfo sv, ← parseCol ln⟩, ← o.toNat?, ← n.toNat?)
    | _ => none

def endOffOf {α : Type} (l : List (α × Nat × Nat)) : Nat :=
  match l.getLast? with
  | some r => r.2.2
  | none => 0

/-- split the file into the records before the block of reference `q`, the block, the rest;
`none` when records of `q` occur outside one contiguous block -/
def splitBlock (file : List GRec) (q : Nat) : Option (List GRec × List Rec × List GRec) :=
  let pre := file.takeWhile fun r => r.rid != some q
  let rest := file.dropWhile fun r => r.rid != some q
  let mid := rest.takeWhile fun r => r.rid == some q
  let post := rest.dropWhile fun r => r.rid == some q
  if post.any fun r => r.rid == some q then none else some (pre, mid.map (·.span), post)

def handleQFile (kind ms d file endOff q qs qe : String) : String :=
  match ms.toNat?, d.toNat?, parseFile file, endOff.toNat?, q.toNat?, parseIv qs qe with
  | some ms, some d, some fl, some endOff, some q, some iv =>
    let recs : List GRec := fl.map fun p => match p.1.ctx with
      | some (id, span) => ⟨some id, span⟩
      | none => ⟨none, ⟨0, 0⟩⟩
    let offG := offOf (fl.map (·.2)) endOff
    match splitBlock recs q with
    | none => "bad-op"
    | some (pre, mid, post) =>
      match resolveInterval ms d iv with
      | none => "err:invalid-input"
      | some (a, b) => s!"recs={fmtIds (queryFile (kind = "bin") ms d offG pre mid post q a b)}"
  | _, _, _, _, _, _ => "bad-op"

def handle : List String → String
  | ["aspan", start, items] =>
    match parseOR start, parseItems items with
    | some st, some its => s!"span={fmtOR (alignmentSpan its)} end={fmtOR (alignmentEnd st its)}"
    | _, _ => "bad-op"
  | ["lazy", rid, pos, words] =>
    match rid.toInt?, pos.toInt?, nats words with
    | some rid, some pos, some ws =>
      let its := lazyItems ws
      s!"rid={fmtOR (lazyField 0 rid)} start={fmtOR (lazyField 1 pos)} span={fmtOR (alignmentSpan its)} end={fmtOR (alignmentEnd (lazyField 1 pos) its)}"
    | _, _, _ => "bad-op"
  | ["buf", start, ops] =>
    match parseOptNat start, parseOps ops with
    | some st, some ops => s!"span={fmtPR (bufAlignmentSpan ops)} end={fmtPR (bufAlignmentEnd st ops)}"
    | _, _ => "bad-op"
  | ["vend", major, minor, start, refLen, en, sv, ln] =>
    match major.toNat?, minor.toNat?, parseOR start, refLen.toNat?, parseInfo en, parseInfo sv, parseCol ln with
    | some ma, some mi, some st, some rl, some en, some sv, some ln =>
      s!"end={fmtRes (variantEnd ma mi st rl en sv ln)} span={fmtRes (variantSpan ma mi st rl en sv ln)}"
    | _, _, _, _, _, _, _ => "bad-op"
  | ["isect", "bam", rid, start, items, qrid, qs, qe] =>
    match parseOR rid, parseOR start, parseItems items, qrid.toNat?, parseIv qs qe with
    | some rid, some st, some its, some qrid, some iv => fmtB (bamIntersects rid st its qrid iv)
    | _, _, _, _, _ => "bad-op"
  | ["isect", "vcf", nameEq, start, en, qs, qe] =>
    match parseOR start, parseOR en, parseIv qs qe with
    | some st, some en, some iv =>
      let e : Option Nat := match en with
        | .val e => some e
        | _ => none
      fmtB (vcfIntersects (nameEq = "1") st e iv)
    | _, _, _ => "bad-op"
  | ["isect", "bcf", recId, start, en, qrid, qs, qe] =>
    match parseOR recId, parseOR start, parseOR en, qrid.toNat?, parseIv qs qe with
    | some rid, some st, some en, some qrid, some iv =>
      let e : Option Nat := match en with
        | .val e => some e
        | _ => none
      let id : Option Nat := match rid with
        | .val i => some i
        | _ => none
      fmtB (bcfIntersects id st e qrid iv)
    | _, _, _, _, _ => "bad-op"
  | ["isect", "csi", nameEq, s, e, qs, qe] =>
    match s.toNat?, e.toNat?, parseIv qs qe with
    | some s, some e, some iv => fmtB (some (csiFilterIntersects (nameEq = "1") s e iv))
    | _, _, _ => "bad-op"
  | ["lastfirst", kind, ms, d, nref, file, endOff] => handleUnmapped false kind ms d nref file endOff
  | ["unmapped", kind, ms, d, nref, file, endOff] => handleUnmapped true kind ms d nref file endOff
  | ["qfile", kind, ms, d, file, endOff, q, qs, qe] => handleQFile kind ms d file endOff q qs qe
  | ["qrecs", kind, ms, d, recs, qrid, qs, qe] =>
    match ms.toNat?, d.toNat?, parseARecs recs, qrid.toNat?, parseIv qs qe with
    | some ms, some d, some rs, some qrid, some iv =>
      let off := offOf (rs.map (·.2.1)) (endOffOf rs)
      match queryAlignments (kind = "bin") ms d off (rs.map (·.1)) qrid iv with
      | none => if (mapM? ARec.span? (rs.map (·.1))).isNone then "err:invalid-data" else "err:invalid-input"
      | some ids => s!"recs={fmtIds ids}"
    | _, _, _, _, _ => "bad-op"
  | ["qvars", kind, major, minor, ms, d, recs, qs, qe] =>
    match major.toNat?, minor.toNat?, ms.toNat?, d.toNat?, parseVRecs recs, parseIv qs qe with
    | some ma, some mi, some ms, some d, some rs, some iv =>
      let off := offOf (rs.map (·.2.1)) (endOffOf rs)
      match queryVariants (kind = "bin") ma mi ms d off (rs.map (·.1)) iv with
      | none => if (mapM? (VRec.span? ma mi) (rs.map (·.1))).isNone then "err:invalid-data" else "err:invalid-input"
      | some ids => s!"recs={fmtIds ids}"
    | _, _, _, _, _, _ => "bad-op"
  | _ => "bad-op"

end Noodles.Span.Driver
