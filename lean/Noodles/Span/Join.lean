import Noodles.Span.FileLevel
import Noodles.Span.Unmapped
/-!
# Region queries END TO END (C04): one file, all references, computed spans

`Noodles/Span/Compose.lean` follows the records of ONE reference with computed spans,
`Noodles/Span/FileLevel.lean` the whole file with GIVEN spans and a per-reference index. This file
transcribes the part that joins them — the indexer as it walks the WHOLE file:

* `noodles-csi/src/binning_index/indexer.rs` — `Indexer::add_record` (an unplaced record is only
  counted; a reference id below the current one is `Err(InvalidInput)`; a larger one appends empty
  reference sequences up to it), `Indexer::build(reference_sequence_count)`;
* `noodles-csi/src/binning_index/index/reference_sequence.rs` — `ReferenceSequence::update`: the bin
  of `reg2bin(start, end)` gets the chunk (`Bin::add_chunk`), then `Index::update` (linear or binned);
* `noodles-bam/src/fs/index.rs`, `noodles-bcf/src/fs/index.rs`, `noodles-vcf/src/fs/index.rs`,
  `noodles-tabix` users — the loop `start = virtual_position(); read_record; end = virtual_position();
  add_record(context, Chunk::new(start, end))` with the context `(id, start, end)` computed by
  `alignment_end()` / `variant_end(header)` / the indexed columns (an `Err` aborts the indexing);
* `noodles-csi/src/binning_index/index.rs::query` — `reference_sequences().get(id)` (`Err` when out
  of range), `ReferenceSequence::query` (bins marked by `reg2bins` that are present), `min_offset`,
  `optimize_chunks`;
* `noodles-{bam,vcf,bcf}/src/io/reader/query.rs`, `noodles-csi/src/io/filter_by_region.rs` — every
  record served by `csi::io::Query` goes through the format's `intersects`.

The per-reference state holds BOTH kinds of `reference_sequence::Index` (`LinearIndex` for BAI / tabix,
`BinnedIndex` for CSI); a query consults the one selected by `binned`.
-/
namespace Noodles.Span
open Noodles.Csi
open Noodles.Bam (Op)

/-- what the span is computed from, per format -/
inductive Body
  /-- BAM / SAM / CRAM: `POS` + CIGAR, span by `alignment_end()` -/
  | aln (r : ARec)
  /-- VCF / BCF: `POS`, `REF`, `END` / `SVLEN` / `LEN`, span by `variant_end(header)` -/
  | var (r : VRec)
  /-- tabix-indexed text (GFF, BED, …): the start and end columns as `csi::io::IndexedRecord` gives them -/
  | feat (r : Rec)

/-- one record of the file: `rid = none` = no alignment context (no reference id / no position:
the unplaced tail of a BAM); otherwise the reference sequence id (BAM, BCF) or the position of the
reference name among the header's / index's names (VCF, tabix) -/
structure JRec where
  rid : Option Nat
  body : Body

/-- the `(start, end)` handed to `Indexer::add_record`; `none` = the span function is an `Err` -/
def Body.span? (major minor : Nat) : Body → Option Rec
  | .aln r => r.span?
  | .var r => r.span? major minor
  | .feat r => some r

/-- the `alignment_context` of a record: outer `none` = `Err` (indexing aborts), inner `none` = unplaced
(`alignment_end()` of a record without a position is `None`, nothing is computed) -/
def JRec.ctx? (major minor : Nat) (r : JRec) : Option (Option (Nat × Rec)) :=
  match r.rid with
  | none => some none
  | some id =>
    match r.body.span? major minor with
    | none => none
    | some sp => some (some (id, sp))

/-- `ReferenceSequence<I>`: the bins (chunk lists newest-first, as in `Noodles.Csi.buildBins`), the
ids of the bins in insertion order (`IndexMap`; repeated ids are dropped on use), the linear index,
the binned index -/
structure RefIx where
  bins : Nat → List Chunk
  ids : List Nat
  lin : List Nat
  binned : Binned

/-- `ReferenceSequence::default()` -/
def RefIx.empty : RefIx := ⟨fun _ => [], [], [], []⟩

/-- `ReferenceSequence::update(min_shift, depth, start, end, is_mapped, chunk)` with
`chunk = [cs, ce)` -/
def RefIx.update (minShift depth : Nat) (st : RefIx) (r : Rec) (cs ce : Nat) : RefIx :=
  let b := binOf minShift depth r
  { bins := fun b' => if b' = b then addChunkRev ⟨cs, ce⟩ (st.bins b) else st.bins b'
    ids := st.ids ++ [b]
    lin := linUpdate st.lin r.e cs
    binned := binnedUpdate st.binned b cs }

/-- `add_reference_sequences_until(n - 1)`: `resize_with(n, Default::default)` (never shrinks here) -/
def growRefs (refs : List RefIx) (n : Nat) : List RefIx :=
  refs ++ List.replicate (n - refs.length) RefIx.empty

/-- `Indexer::add_record(alignment_context, chunk)`; `none` = `Err(InvalidInput)` -/
def addRecordJ (minShift depth : Nat) (refs : List RefIx) (ctx : Option (Nat × Rec)) (cs ce : Nat) :
    Option (List RefIx) :=
  match ctx with
  | none => some refs
  | some (id, span) =>
    let refs := if refs.isEmpty then growRefs refs 1 else refs
    let cur := refs.length - 1
    if id < cur then none
    else
      let refs := if id > cur then growRefs refs (id + 1) else refs
      some (modifyAt (fun st => st.update minShift depth span cs ce) refs id)

/-- the indexing loop over the whole file: record `k` is added with the chunk `[off k, off (k+1))` -/
def indexAll (minShift depth major minor : Nat) (off : Nat → Nat) :
    Nat → List RefIx → List JRec → Option (List RefIx)
  | _, refs, [] => some refs
  | k, refs, r :: rs =>
    match r.ctx? major minor with
    | none => none
    | some c =>
      match addRecordJ minShift depth refs c (off k) (off (k + 1)) with
      | none => none
      | some refs' => indexAll minShift depth major minor off (k + 1) refs' rs

/-- `Indexer::build(reference_sequence_count)` -/
def buildJ (refs : List RefIx) (n : Nat) : List RefIx :=
  if n > refs.length then growRefs refs n else refs

/-- `ReferenceSequence::query` + `flat_map(chunks)` on a built reference sequence -/
def RefIx.candidates (st : RefIx) (minShift depth qs qe : Nat) : List Chunk :=
  (st.ids.eraseDups.filter fun b => markedB (reg2bins (qs - 1) (qe - 1) minShift depth) b).flatMap
    fun b => (st.bins b).reverse

/-- `BinningIndex::query` on one reference sequence, resolved bounds -/
def RefIx.query (st : RefIx) (binned : Bool) (minShift depth qs qe : Nat) : List Chunk :=
  optimize (st.candidates minShift depth qs qe)
    (if binned then minOffsetBinned st.binned minShift depth qs else minOffset st.lin qs)

/-- `Option<usize>` reference id as the BAM filter sees it -/
def ridOR : Option Nat → OR Nat
  | none => .absent
  | some id => .val id

/-- the format's `intersects` on a record says `Ok(true)` (`q` = the queried reference) -/
def JRec.accept (major minor : Nat) (r : JRec) (q : Nat) (iv : Interval) : Bool :=
  match r.body with
  | .aln a => bamIntersects (ridOR r.rid) (.val a.start) (a.ops.map some) q iv == some true
  | .var v => vcfIntersects (r.rid == some q) (.val v.start) (v.end? major minor) iv == some true
  | .feat f => csiFilterIntersects (r.rid == some q) f.s f.e iv

/-- … on record `i` of the file -/
def JRec.keep (major minor : Nat) (file : List JRec) (q : Nat) (iv : Interval) (i : Nat) : Bool :=
  match file[i]? with
  | none => false
  | some r => r.accept major minor q iv

/-- `Reader::query(header, index, region).records()` on the whole file with the index BUILT from
that file: the indices delivered, in order. `none` = an `Err`: the indexer refused the file or a
span could not be computed, the reference id is not in the index, the region exceeds the geometry. -/
def joinQuery (binned : Bool) (minShift depth major minor : Nat) (off : Nat → Nat) (nref : Nat)
    (file : List JRec) (q : Nat) (iv : Interval) : Option (List Nat) :=
  match indexAll minShift depth major minor off 0 [] file with
  | none => none
  | some refs =>
    match (buildJ refs nref)[q]? with
    | none => none
    | some st =>
      match resolveInterval minShift depth iv with
      | none => none
      | some (qs, qe) =>
        some ((served off file.length (st.query binned minShift depth qs qe)).filter
          (JRec.keep major minor file q iv))

/-- the span the SPECIFICATION assigns to a record body (`none`: no span) -/
def Body.specSpan (major minor : Nat) : Body → Option Rec
  | .aln r => some ⟨r.start, r.specEnd⟩
  | .var r => (r.end? major minor).map fun e => ⟨r.start, e⟩
  | .feat r => some r

/-- the full scan's criterion: on the queried reference and the specification span meets the region -/
def JRec.specAccept (major minor : Nat) (r : JRec) (q : Nat) (iv : Interval) : Bool :=
  (r.rid == some q) &&
    (match r.body.specSpan major minor with
      | some sp => decide (Overlaps sp.s sp.e iv)
      | none => false)

/-- … on record `i` of the file -/
def JRec.specKeep (major minor : Nat) (file : List JRec) (q : Nat) (iv : Interval) (i : Nat) : Bool :=
  match file[i]? with
  | none => false
  | some r => r.specAccept major minor q iv

/-- the full scan of the file -/
def joinScan (major minor : Nat) (file : List JRec) (q : Nat) (iv : Interval) : List Nat :=
  (List.range file.length).filter (JRec.specKeep major minor file q iv)

/-- positions within the index geometry: a 1-based start, `start ≤ end`, `end ≤ max_position` -/
def Body.validB (major minor minShift depth : Nat) (b : Body) : Bool :=
  match b.specSpan major minor with
  | some sp => decide (1 ≤ sp.s ∧ sp.s ≤ sp.e ∧ sp.e ≤ maxPos minShift depth)
  | none => false

/-- every PLACED record lies within the geometry (nothing is asked of the unplaced ones) -/
def JoinValid (major minor minShift depth : Nat) (file : List JRec) : Prop :=
  ∀ r ∈ file, r.rid ≠ none → r.body.validB major minor minShift depth = true

/-- reference order of a coordinate-sorted file: ids do not decrease, the unplaced records are last -/
def ridLe : Option Nat → Option Nat → Bool
  | _, none => true
  | none, some _ => false
  | some a, some b => decide (a ≤ b)

/-- reference order: ids do not decrease (what `Indexer::add_record` requires) and the unplaced
records are last (where coordinate sorting puts them); the order of POSITIONS inside a reference is
not needed -/
def RidSorted (file : List JRec) : Prop := file.Pairwise fun a b => ridLe a.rid b.rid = true

instance (major minor minShift depth : Nat) (file : List JRec) :
    Decidable (JoinValid major minor minShift depth file) := by
  unfold JoinValid; infer_instance

instance (file : List JRec) : Decidable (RidSorted file) := by
  unfold RidSorted; infer_instance

end Noodles.Span
