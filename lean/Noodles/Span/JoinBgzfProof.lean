import Noodles.Span.JoinBgzf
import Noodles.Span.JoinProof
import Noodles.Bgzf.ChunkReadProof
/-!
# Region queries end to end over a BGZF file = the full scan (C04 on top of C02)

The record offsets handed to the indexer are the packed virtual positions observed by the indexing
pass (`offOfTells (scanTells …)`); they are strictly increasing (A, B), so `joinQuery_eq_scan`
applies (C); every chunk the query returns has endpoints among the observed positions (D); such
chunks are served by the BGZF chunk reader exactly as the abstraction `served` says (E); hence
`joinQueryBgzf = joinScan` (F).
-/
namespace Noodles.Span
open Noodles.Csi Noodles.Bgzf.RM Noodles.Bgzf.ChunkRead

variable {α : Type}

/-! ## (A) reported positions are packable -/

theorem tell_snd_lt (L : Layout α) (hL : WF L) (s : R α) (hi : Inv L s) : (tell s).2 < 65536 := by
  have := inv_data_le_max L hL s hi
  unfold MAX_ISIZE at this
  unfold tell hasRemaining
  by_cases hr : s.cur < s.data.length
  · simp only [hr, decide_true, if_true]; omega
  · simp only [hr, decide_false, Bool.false_eq_true, if_false]; omega

theorem unpack_pack (v : VPos) (h : v.2 < 65536) : unpack (pack v) = v := by
  unfold unpack pack
  apply Prod.ext <;> simp only <;> omega

theorem pack_lt_of_vlt (x y : VPos) (h : vlt x y = true) (hx : x.2 < 65536) : pack x < pack y := by
  unfold vlt at h
  rw [decide_eq_true_iff] at h
  unfold pack
  omega

theorem scanTells_length (L : Layout α) (s : R α) (lens : List Nat) :
    (scanTells L s lens).length = lens.length + 1 := by
  induction lens generalizing s with
  | nil => rfl
  | cons len rest ih => simp [scanTells, ih]

theorem take_sum_lt : ∀ (lens : List Nat) (a b : Nat), (∀ n ∈ lens, 0 < n) → a < b →
    b ≤ lens.length → (lens.take a).sum < (lens.take b).sum := by
  intro lens
  induction lens with
  | nil => intro a b _ hab hb; simp at hb; omega
  | cons x xs ih =>
    intro a b hpos hab hb
    cases b with
    | zero => omega
    | succ b =>
      have hx : 0 < x := hpos x (by simp)
      cases a with
      | zero => simp; omega
      | succ a =>
        have := ih a b (fun n hn => hpos n (by simp [hn])) (by omega) (by simpa using hb)
        simp; omega

/-- every observed position is the `tell` of a consistent reader state -/
theorem scan_getD_tell (L : Layout α) (hL : WF L) (lens : List Nat) (hpos : ∀ n ∈ lens, 0 < n)
    (s0 : R α) (hi0 : Inv L s0) (hfit : Noodles.Bgzf.RM.off L s0 + lens.sum ≤ (flat L).length)
    (m : Nat) (hm : m ≤ lens.length) :
    ∃ s, Inv L s ∧ (scanTells L s0 lens).getD m (0, 0) = tell s := by
  obtain ⟨i1, _, _⟩ := stateAfter_spec L hL s0 lens m hpos hi0 hfit hm
  exact ⟨_, i1, scanTells_getD L s0 lens m _ hm⟩

theorem scan_snd_lt (L : Layout α) (hL : WF L) (lens : List Nat) (hpos : ∀ n ∈ lens, 0 < n)
    (s0 : R α) (hi0 : Inv L s0) (hfit : Noodles.Bgzf.RM.off L s0 + lens.sum ≤ (flat L).length)
    (m : Nat) (hm : m ≤ lens.length) : ((scanTells L s0 lens).getD m (0, 0)).2 < 65536 := by
  obtain ⟨s, hi, e⟩ := scan_getD_tell L hL lens hpos s0 hi0 hfit m hm
  rw [e]; exact tell_snd_lt L hL s hi

theorem scan_unpack (L : Layout α) (hL : WF L) (lens : List Nat) (hpos : ∀ n ∈ lens, 0 < n)
    (s0 : R α) (hi0 : Inv L s0) (hfit : Noodles.Bgzf.RM.off L s0 + lens.sum ≤ (flat L).length)
    (m : Nat) (hm : m ≤ lens.length) :
    unpack (pack ((scanTells L s0 lens).getD m (0, 0))) = (scanTells L s0 lens).getD m (0, 0) :=
  unpack_pack _ (scan_snd_lt L hL lens hpos s0 hi0 hfit m hm)

/-! ## (B) the packed observed positions are strictly increasing -/

theorem scan_pack_lt (L : Layout α) (hL : WF L) (lens : List Nat) (hpos : ∀ n ∈ lens, 0 < n)
    (s0 : R α) (hi0 : Inv L s0) (hfit : Noodles.Bgzf.RM.off L s0 + lens.sum ≤ (flat L).length)
    (a b : Nat) (hab : a < b) (hb : b ≤ lens.length) :
    pack ((scanTells L s0 lens).getD a (0, 0)) < pack ((scanTells L s0 lens).getD b (0, 0)) := by
  have ra := scanTells_resolve_inv L hL lens hpos s0 hi0 hfit a (by omega)
  have rb := scanTells_resolve_inv L hL lens hpos s0 hi0 hfit b hb
  have hlt : bnd (Noodles.Bgzf.RM.off L s0) lens a < bnd (Noodles.Bgzf.RM.off L s0) lens b := by
    unfold bnd; have := take_sum_lt lens a b hpos hab hb; omega
  exact pack_lt_of_vlt _ _ (resolve_lt_vlt L hL _ _ _ _ ra rb hlt)
    (scan_snd_lt L hL lens hpos s0 hi0 hfit a (by omega))

theorem offOfTells_scan_le (L : Layout α) (s0 : R α) (lens : List Nat) (i : Nat)
    (h : i ≤ lens.length) :
    offOfTells (scanTells L s0 lens) i = pack ((scanTells L s0 lens).getD i (0, 0)) := by
  unfold offOfTells
  rw [if_pos (by rw [scanTells_length]; omega)]

theorem offOfTells_scan_gt (L : Layout α) (s0 : R α) (lens : List Nat) (i : Nat)
    (h : lens.length < i) :
    offOfTells (scanTells L s0 lens) i =
      pack ((scanTells L s0 lens).getD lens.length (0, 0)) + (i - lens.length) := by
  unfold offOfTells
  rw [if_neg (by rw [scanTells_length]; omega), List.getLast?_eq_getElem?,
    List.getD_eq_getElem?_getD, scanTells_length, Nat.add_sub_cancel]
  omega

theorem offOfTells_mono (L : Layout α) (hL : WF L) (lens : List Nat) (hpos : ∀ n ∈ lens, 0 < n)
    (s0 : R α) (hi0 : Inv L s0) (hfit : Noodles.Bgzf.RM.off L s0 + lens.sum ≤ (flat L).length) :
    ∀ a b, a < b → offOfTells (scanTells L s0 lens) a < offOfTells (scanTells L s0 lens) b := by
  intro a b hab
  by_cases hb : b ≤ lens.length
  · rw [offOfTells_scan_le L s0 lens a (by omega), offOfTells_scan_le L s0 lens b hb]
    exact scan_pack_lt L hL lens hpos s0 hi0 hfit a b hab hb
  · rw [offOfTells_scan_gt L s0 lens b (by omega)]
    by_cases ha : a ≤ lens.length
    · rw [offOfTells_scan_le L s0 lens a ha]
      rcases Nat.lt_or_ge a lens.length with h | h
      · have := scan_pack_lt L hL lens hpos s0 hi0 hfit a lens.length h (Nat.le_refl _)
        omega
      · have : a = lens.length := by omega
        subst this; omega
    · rw [offOfTells_scan_gt L s0 lens a (by omega)]; omega

/-! ## (C) the abstract join with the real BGZF offsets -/

theorem joinQuery_offOfTells_eq_scan (binned : Bool) (ms d major minor : Nat) (L : Layout α)
    (hL : WF L) (lens : List Nat) (hpos : ∀ n ∈ lens, 0 < n)
    (s0 : R α) (hi0 : Inv L s0) (hfit : Noodles.Bgzf.RM.off L s0 + lens.sum ≤ (flat L).length)
    (nref : Nat) (file : List JRec)
    (hgeom : maxPos ms d ≤ USIZE_MAX) (hsorted : RidSorted file)
    (hvalid : JoinValid major minor ms d file)
    (q : Nat) (iv : Interval) (hq : q < nref) (hiv : ∀ s, iv.start = some s → 1 ≤ s)
    (hin : (resolveInterval ms d iv).isSome) :
    joinQuery binned ms d major minor (offOfTells (scanTells L s0 lens)) nref file q iv =
      some (joinScan major minor file q iv) :=
  joinQuery_eq_scan binned ms d major minor _ (offOfTells_mono L hL lens hpos s0 hi0 hfit) nref file
    hgeom hsorted hvalid q iv hq hiv hin

/-! ## strictly increasing offsets reflect the order -/

theorem mono_lt_iff (o : Nat → Nat) (hmono : ∀ a b, a < b → o a < o b) (a b : Nat) :
    o a < o b ↔ a < b := by
  constructor
  · intro h
    rcases Nat.lt_or_ge a b with h' | h'
    · exact h'
    · rcases Nat.lt_or_ge b a with h'' | h''
      · have := hmono b a h''; omega
      · have : a = b := by omega
        subst this; omega
  · exact hmono a b

theorem mono_le_iff (o : Nat → Nat) (hmono : ∀ a b, a < b → o a < o b) (a b : Nat) :
    o a ≤ o b ↔ a ≤ b := by
  have := mono_lt_iff o hmono b a
  constructor
  · intro h; rcases Nat.lt_or_ge b a with h' | h'
    · have := this.mpr h'; omega
    · exact h'
  · intro h; rcases Nat.lt_or_ge b a with h' | h'
    · omega
    · rcases Nat.lt_or_ge a b with h'' | h''
      · have := hmono a b h''; omega
      · have : a = b := by omega
        subst this; omega

theorem mono_inj (o : Nat → Nat) (hmono : ∀ a b, a < b → o a < o b) (a b : Nat) (h : o a = o b) :
    a = b := by
  have h1 := (mono_le_iff o hmono a b).mp (by omega)
  have h2 := (mono_le_iff o hmono b a).mp (by omega)
  omega

/-! ## (D) every chunk of the query has observed endpoints -/

/-- the chunk is `[o j, o k)` for record boundaries `j < k ≤ K` -/
def BndK (o : Nat → Nat) (K : Nat) (c : Chunk) : Prop :=
  ∃ j k, j < k ∧ k ≤ K ∧ c.s = o j ∧ c.e = o k

theorem BndK.mono {o : Nat → Nat} {K K' : Nat} {c : Chunk} (h : BndK o K c) (hK : K ≤ K') :
    BndK o K' c := by
  obtain ⟨j, k, h1, h2, h3, h4⟩ := h
  exact ⟨j, k, h1, by omega, h3, h4⟩

def RefOK (o : Nat → Nat) (K : Nat) (st : RefIx) : Prop := ∀ b, ∀ c ∈ st.bins b, BndK o K c

def RefsOK (o : Nat → Nat) (K : Nat) (refs : List RefIx) : Prop := ∀ st ∈ refs, RefOK o K st

theorem addChunkRev_bnd (o : Nat → Nat) (K : Nat) (cs : List Chunk) (h : ∀ x ∈ cs, BndK o K x) :
    ∀ x ∈ addChunkRev ⟨o K, o (K + 1)⟩ cs, BndK o (K + 1) x := by
  have hnew : BndK o (K + 1) ⟨o K, o (K + 1)⟩ := ⟨K, K + 1, by omega, by omega, rfl, rfl⟩
  cases cs with
  | nil => intro x hx; simp [addChunkRev] at hx; subst hx; exact hnew
  | cons l rest =>
    intro x hx
    rw [addChunkRev_cons] at hx
    split at hx
    · rcases List.mem_cons.mp hx with rfl | hr
      · obtain ⟨j, k, h1, h2, h3, _⟩ := h l (by simp)
        exact ⟨j, K + 1, by omega, by omega, h3, rfl⟩
      · exact (h x (List.mem_cons_of_mem _ hr)).mono (by omega)
    · rcases List.mem_cons.mp hx with rfl | hr
      · exact hnew
      · exact (h x hr).mono (by omega)

theorem refOK_empty (o : Nat → Nat) (K : Nat) : RefOK o K RefIx.empty := by
  intro b c hc; simp [RefIx.empty] at hc

theorem RefOK.mono {o : Nat → Nat} {K K' : Nat} {st : RefIx} (h : RefOK o K st) (hK : K ≤ K') :
    RefOK o K' st := fun b c hc => (h b c hc).mono hK

theorem refOK_update (o : Nat → Nat) (K ms d : Nat) (st : RefIx) (r : Rec) (h : RefOK o K st) :
    RefOK o (K + 1) (st.update ms d r (o K) (o (K + 1))) := by
  intro b c hc
  simp only [RefIx.update] at hc
  split at hc
  · exact addChunkRev_bnd o K _ (h _) c hc
  · exact (h b c hc).mono (by omega)

theorem refsOK_grow (o : Nat → Nat) (K : Nat) (refs : List RefIx) (n : Nat) (h : RefsOK o K refs) :
    RefsOK o K (growRefs refs n) := by
  intro st hst
  unfold growRefs at hst
  rcases List.mem_append.mp hst with h' | h'
  · exact h st h'
  · rw [(List.mem_replicate.mp h').2]; exact refOK_empty o K

theorem refsOK_addRecordJ (o : Nat → Nat) (K ms d : Nat) (refs refs' : List RefIx)
    (ctx : Option (Nat × Rec)) (h : RefsOK o K refs)
    (hadd : addRecordJ ms d refs ctx (o K) (o (K + 1)) = some refs') : RefsOK o (K + 1) refs' := by
  unfold addRecordJ at hadd
  cases ctx with
  | none =>
    simp only [Option.some.injEq] at hadd
    subst hadd
    exact fun st hst => (h st hst).mono (by omega)
  | some p =>
    obtain ⟨id, span⟩ := p
    simp only at hadd
    have h1 : RefsOK o K (if refs.isEmpty then growRefs refs 1 else refs) := by
      split
      · exact refsOK_grow o K refs 1 h
      · exact h
    generalize (if refs.isEmpty then growRefs refs 1 else refs) = refs1 at hadd h1
    by_cases hlt : id < refs1.length - 1
    · rw [if_pos hlt] at hadd; cases hadd
    · rw [if_neg hlt] at hadd
      have h2 : RefsOK o K (if id > refs1.length - 1 then growRefs refs1 (id + 1) else refs1) := by
        split
        · exact refsOK_grow o K refs1 _ h1
        · exact h1
      generalize (if id > refs1.length - 1 then growRefs refs1 (id + 1) else refs1) = refs2
        at hadd h2
      simp only [Option.some.injEq] at hadd
      subst hadd
      intro st hst
      rcases mem_modifyAt _ _ _ _ hst with h' | ⟨a, ha, rfl⟩
      · exact (h2 st h').mono (Nat.le_succ K)
      · exact refOK_update o K ms d a span (h2 a ha)

theorem refsOK_indexAll (o : Nat → Nat) (ms d major minor : Nat) (l : List JRec) :
    ∀ (k : Nat) (refs refs' : List RefIx), RefsOK o k refs →
      indexAll ms d major minor o k refs l = some refs' → RefsOK o (k + l.length) refs' := by
  induction l with
  | nil =>
    intro k refs refs' h hix
    simp only [indexAll, Option.some.injEq] at hix
    subst hix; exact h
  | cons r rs ih =>
    intro k refs refs' h hix
    simp only [indexAll] at hix
    cases hc : r.ctx? major minor with
    | none => rw [hc] at hix; cases hix
    | some c =>
      rw [hc] at hix; simp only at hix
      cases ha : addRecordJ ms d refs c (o k) (o (k + 1)) with
      | none => rw [ha] at hix; cases hix
      | some refs1 =>
        rw [ha] at hix; simp only at hix
        have := ih (k + 1) refs1 refs' (refsOK_addRecordJ o k ms d refs refs1 c h ha) hix
        have e : k + (r :: rs).length = k + 1 + rs.length := by simp; omega
        rw [e]; exact this

theorem refsOK_buildJ (o : Nat → Nat) (K : Nat) (refs : List RefIx) (n : Nat) (h : RefsOK o K refs) :
    RefsOK o K (buildJ refs n) := by
  unfold buildJ
  split
  · exact refsOK_grow o K refs n h
  · exact h

theorem candidates_bnd (o : Nat → Nat) (K : Nat) (st : RefIx) (h : RefOK o K st)
    (ms d qs qe : Nat) : ∀ c ∈ st.candidates ms d qs qe, BndK o K c := by
  intro c hc
  unfold RefIx.candidates at hc
  obtain ⟨b, _, hb⟩ := List.mem_flatMap.mp hc
  exact h b c (List.mem_reverse.mp hb)

theorem mergeGo_bnd (o : Nat → Nat) (hmono : ∀ a b, a < b → o a < o b) (K : Nat)
    (rest : List Chunk) : ∀ cur, BndK o K cur → (∀ x ∈ rest, BndK o K x) →
    ∀ c ∈ mergeGo cur rest, BndK o K c := by
  induction rest with
  | nil => intro cur hcur _ c hc; simp [mergeGo] at hc; subst hc; exact hcur
  | cons n rest ih =>
    intro cur hcur hrest c hc
    have hn := hrest n (by simp)
    have hrest' : ∀ x ∈ rest, BndK o K x := fun x hx => hrest x (List.mem_cons_of_mem _ hx)
    unfold mergeGo at hc
    split at hc
    · rcases List.mem_cons.mp hc with rfl | hr
      · exact hcur
      · exact ih n hn hrest' c hr
    · split at hc
      · rename_i hlt
        refine ih ⟨cur.s, n.e⟩ ?_ hrest' c hc
        obtain ⟨j, k, h1, _, h3, h4⟩ := hcur
        obtain ⟨j', k', _, h2', _, h4'⟩ := hn
        rw [h4, h4'] at hlt
        have := (mono_lt_iff o hmono k k').mp hlt
        exact ⟨j, k', by omega, h2', h3, h4'⟩
      · exact ih cur hcur hrest' c hc

theorem optimize_bnd (o : Nat → Nat) (hmono : ∀ a b, a < b → o a < o b) (K : Nat)
    (chunks : List Chunk) (min : Nat) (h : ∀ c ∈ chunks, BndK o K c) :
    ∀ c ∈ optimize chunks min, BndK o K c := by
  intro c hc
  unfold optimize at hc
  have hperm := List.mergeSort_perm (chunks.filter (fun c => c.e > min))
    (fun a b => decide (a.s ≤ b.s))
  have hmem : ∀ x ∈ (chunks.filter (fun c => c.e > min)).mergeSort (fun a b => decide (a.s ≤ b.s)),
      BndK o K x := by
    intro x hx
    rw [hperm.mem_iff] at hx
    exact h x (List.mem_filter.mp hx).1
  generalize (chunks.filter (fun c => c.e > min)).mergeSort (fun a b => decide (a.s ≤ b.s)) = l
    at hc hmem
  cases l with
  | nil => simp at hc
  | cons d rest =>
    simp only at hc
    exact mergeGo_bnd o hmono K rest d (hmem d (by simp))
      (fun x hx => hmem x (List.mem_cons_of_mem _ hx)) c hc

/-- ENDPOINTS: the chunks `BinningIndex::query` returns on the index built from the file -/
theorem query_bnd (o : Nat → Nat) (hmono : ∀ a b, a < b → o a < o b) (ms d major minor : Nat)
    (file : List JRec) (refs : List RefIx) (hix : indexAll ms d major minor o 0 [] file = some refs)
    (nref q : Nat) (st : RefIx) (hst : (buildJ refs nref)[q]? = some st)
    (binned : Bool) (qs qe : Nat) :
    ∀ c ∈ st.query binned ms d qs qe, BndK o file.length c := by
  have h0 : RefsOK o 0 [] := by intro st hst; cases hst
  have h1 := refsOK_indexAll o ms d major minor file 0 [] refs h0 hix
  rw [Nat.zero_add] at h1
  have h2 := refsOK_buildJ o _ refs nref h1 st (List.mem_of_getElem? hst)
  unfold RefIx.query
  exact optimize_bnd o hmono _ _ _ (candidates_bnd o _ st h2 ms d qs qe)

/-! ## (E) chunks with observed endpoints are served as the abstraction says -/

theorem find?_range_unique (N : Nat) (p : Nat → Bool) (j : Nat) (hj : j < N) (hp : p j = true)
    (huniq : ∀ i, i < N → p i = true → i = j) : (List.range N).find? p = some j := by
  cases h : (List.range N).find? p with
  | none =>
    rw [List.find?_eq_none] at h
    have := h j (by simp [hj])
    simp [hp] at this
  | some i =>
    have h1 := List.find?_some h
    have h2 := List.mem_of_find?_eq_some h
    simp only [List.mem_range] at h2
    rw [huniq i h2 h1]

theorem bndIdx_scan (L : Layout α) (hL : WF L) (lens : List Nat) (hpos : ∀ n ∈ lens, 0 < n)
    (s0 : R α) (hi0 : Inv L s0) (hfit : Noodles.Bgzf.RM.off L s0 + lens.sum ≤ (flat L).length)
    (j : Nat) (hj : j ≤ lens.length) :
    bndIdx (scanTells L s0 lens) (offOfTells (scanTells L s0 lens) j) = some j := by
  unfold bndIdx
  rw [scanTells_length]
  apply find?_range_unique
  · omega
  · simp [offOfTells_scan_le L s0 lens j hj]
  · intro i hi hpi
    simp only [decide_eq_true_eq] at hpi
    rw [← offOfTells_scan_le L s0 lens i (by omega)] at hpi
    exact mono_inj _ (offOfTells_mono L hL lens hpos s0 hi0 hfit) i j hpi

theorem serveAll_cons_ok (L : Layout α) (T : List VPos) (lens : List Nat) (s : R α) (c : Chunk)
    (cs : List Chunk) (j : Nat) (recs : List (List α)) (rest : List Nat)
    (h1 : bndIdx T c.s = some j)
    (h2 : (serveChunk L s (unpack c.s) (unpack c.e) (lens.drop j)).2 = some recs)
    (h3 : (serveAll L T lens (serveChunk L s (unpack c.s) (unpack c.e) (lens.drop j)).1 cs).2
      = some rest) :
    (serveAll L T lens s (c :: cs)).2 = some ((List.range recs.length).map (j + ·) ++ rest) := by
  simp only [serveAll, h1]
  generalize serveChunk L s (unpack c.s) (unpack c.e) (lens.drop j) = r at h2 h3
  obtain ⟨s', x⟩ := r
  simp only at h2 h3
  subst h2
  simp only
  generalize serveAll L T lens s' cs = r2 at h3
  obtain ⟨s'', y⟩ := r2
  simp only at h3
  subst h3
  rfl

theorem filter_range_eq (o : Nat → Nat) (hmono : ∀ a b, a < b → o a < o b) (n j k : Nat)
    (hk : k ≤ n) :
    (List.range n).filter (fun i => decide (o j ≤ o i ∧ o i < o k)) =
      (List.range (k - j)).map (j + ·) := by
  apply sorted_ext
  · exact List.Pairwise.filter _ List.pairwise_lt_range
  · rw [List.pairwise_map]
    exact List.pairwise_lt_range.imp (by intro a b h; omega)
  · intro x
    simp only [List.mem_filter, List.mem_range, decide_eq_true_eq, List.mem_map]
    rw [mono_le_iff o hmono, mono_lt_iff o hmono]
    constructor
    · rintro ⟨_, h1, h2⟩; exact ⟨x - j, by omega, by omega⟩
    · rintro ⟨i, hi, rfl⟩; exact ⟨by omega, by omega, by omega⟩

/-- SERVING: from ANY reader state, the BGZF chunk reader delivers exactly the records whose
start offset lies in the chunks -/
theorem serveAll_spec (L : Layout α) (hL : WF L) (lens : List Nat) (hpos : ∀ n ∈ lens, 0 < n)
    (s0 : R α) (hi0 : Inv L s0) (hfit : Noodles.Bgzf.RM.off L s0 + lens.sum ≤ (flat L).length)
    (cs : List Chunk)
    (hcs : ∀ c ∈ cs, BndK (offOfTells (scanTells L s0 lens)) lens.length c) : ∀ s : R α,
    (serveAll L (scanTells L s0 lens) lens s cs).2 =
      some (served (offOfTells (scanTells L s0 lens)) lens.length cs) := by
  induction cs with
  | nil => intro s; simp [serveAll, served]
  | cons c cs ih =>
    intro s
    obtain ⟨j, k, hjk, hk, hs, he⟩ := hcs c (by simp)
    have hmono := offOfTells_mono L hL lens hpos s0 hi0 hfit
    have hsp := serveChunk_spec L hL lens hpos s0 hi0 hfit s j k hjk hk
    have e1 : unpack c.s = (scanTells L s0 lens).getD j (0, 0) := by
      rw [hs, offOfTells_scan_le L s0 lens j (by omega)]
      exact scan_unpack L hL lens hpos s0 hi0 hfit j (by omega)
    have e2 : unpack c.e = (scanTells L s0 lens).getD k (0, 0) := by
      rw [he, offOfTells_scan_le L s0 lens k hk]
      exact scan_unpack L hL lens hpos s0 hi0 hfit k hk
    have hb : bndIdx (scanTells L s0 lens) c.s = some j := by
      rw [hs]; exact bndIdx_scan L hL lens hpos s0 hi0 hfit j (by omega)
    have h2 : (serveChunk L s (unpack c.s) (unpack c.e) (lens.drop j)).2 =
        some ((List.range (k - j)).map fun i =>
          recBytes L (Noodles.Bgzf.RM.off L s0) lens (j + i)) := by
      rw [e1, e2]; exact hsp.2
    have h3 := ih (fun c hc => hcs c (List.mem_cons_of_mem _ hc))
      (serveChunk L s (unpack c.s) (unpack c.e) (lens.drop j)).1
    rw [serveAll_cons_ok L _ lens s c cs j _ _ hb h2 h3]
    congr 1
    simp only [served, List.flatMap_cons]
    rw [hs, he, filter_range_eq _ hmono lens.length j k hk]
    simp

/-! ## (F) the end-to-end theorem over the BGZF reader -/

/-- **index the BGZF file, query it with the BGZF chunk reader = the full scan** -/
theorem joinQueryBgzf_eq_scan (binned : Bool) (ms d major minor : Nat) (L : Layout α) (hL : WF L)
    (lens : List Nat) (hpos : ∀ n ∈ lens, 0 < n)
    (s0 : R α) (hi0 : Inv L s0) (hfit : Noodles.Bgzf.RM.off L s0 + lens.sum ≤ (flat L).length)
    (s1 : R α)
    (nref : Nat) (file : List JRec) (hlen : file.length = lens.length)
    (hgeom : maxPos ms d ≤ USIZE_MAX) (hsorted : RidSorted file)
    (hvalid : JoinValid major minor ms d file)
    (q : Nat) (iv : Interval) (hq : q < nref) (hiv : ∀ s, iv.start = some s → 1 ≤ s)
    (hin : (resolveInterval ms d iv).isSome) :
    joinQueryBgzf binned ms d major minor L s0 s1 lens nref file q iv =
      some (joinScan major minor file q iv) := by
  have hC := joinQuery_offOfTells_eq_scan binned ms d major minor L hL lens hpos s0 hi0 hfit nref
    file hgeom hsorted hvalid q iv hq hiv hin
  have hmono := offOfTells_mono L hL lens hpos s0 hi0 hfit
  unfold joinQuery at hC
  unfold joinQueryBgzf
  simp only
  cases hix : indexAll ms d major minor (offOfTells (scanTells L s0 lens)) 0 [] file with
  | none => rw [hix] at hC; cases hC
  | some refs =>
    rw [hix] at hC
    simp only at hC ⊢
    cases hst : (buildJ refs nref)[q]? with
    | none => rw [hst] at hC; cases hC
    | some st =>
      rw [hst] at hC
      simp only at hC ⊢
      cases hres : resolveInterval ms d iv with
      | none => rw [hres] at hC; cases hC
      | some qq =>
        obtain ⟨qs, qe⟩ := qq
        rw [hres] at hC
        simp only at hC ⊢
        have hb := query_bnd _ hmono ms d major minor file refs hix nref q st hst binned qs qe
        rw [hlen] at hb
        rw [serveAll_spec L hL lens hpos s0 hi0 hfit _ hb s1]
        simp only
        rw [← hlen]; exact hC

end Noodles.Span
