import Noodles.Span.Join
import Noodles.Bgzf.ChunkRead
/-!
# Region queries END TO END over a BGZF file (C04 on top of C02)

`Noodles/Span/Join.lean` serves the chunks through the abstraction "a chunk serves the records whose
start offset lies in it" (`Noodles.Csi.served`). Here the abstraction is replaced by the BGZF reader
state machine of C02 (`Noodles.Bgzf.RM`) and the chunk reader over it
(`Noodles.Bgzf.ChunkRead.serveChunk`): the record offsets ARE the virtual positions the indexing
pass observes (`scanTells`), packed as `u64::from(VirtualPosition)`, and a chunk is served by
`seek_to_virtual_position(chunk.start())` + reading records while
`virtual_position() < chunk.end()`.
-/
namespace Noodles.Span
open Noodles.Csi Noodles.Bgzf.RM Noodles.Bgzf.ChunkRead

variable {α : Type}

/-- `u64::from(VirtualPosition)`: `compressed << 16 | uncompressed` -/
def pack (v : VPos) : Nat := v.1 * 65536 + v.2

/-- `VirtualPosition::from(u64)` -/
def unpack (n : Nat) : VPos := (n / 65536, n % 65536)

/-- the record offsets the indexing pass hands to `Indexer::add_record`: the packed virtual
position before record `i` and after the last record (`i < T.length`, `T = scanTells …`); beyond
that — never consulted by the indexer — a strictly increasing continuation -/
def offOfTells (T : List VPos) (i : Nat) : Nat :=
  if i < T.length then pack (T.getD i (0, 0))
  else pack (T.getLast?.getD (0, 0)) + (i + 1 - T.length)

/-- which record starts at packed position `x` (the real record reader simply parses what is there;
the model needs the index to know the lengths of the records that follow) -/
def bndIdx (T : List VPos) (x : Nat) : Option Nat :=
  (List.range T.length).find? fun j => pack (T.getD j (0, 0)) = x

/-- `csi::io::Query` over the chunk list: every chunk is served from the state the previous one left;
the indices of the records delivered; `none` = a seek failed or a chunk does not start at a record -/
def serveAll (L : Layout α) (T : List VPos) (lens : List Nat) :
    R α → List Chunk → R α × Option (List Nat)
  | s, [] => (s, some [])
  | s, c :: cs =>
    match bndIdx T c.s with
    | none => (s, none)
    | some j =>
      match serveChunk L s (unpack c.s) (unpack c.e) (lens.drop j) with
      | (s', none) => (s', none)
      | (s', some recs) =>
        match serveAll L T lens s' cs with
        | (s'', none) => (s'', none)
        | (s'', some rest) => (s'', some ((List.range recs.length).map (j + ·) ++ rest))

/-- `Reader::query(header, index, region).records()` on a BGZF file: `s0` = the reader state at the
first record when the file was indexed, `s1` = the state of the reader the query is run on, `lens` =
the encoded lengths of the records of `file` -/
def joinQueryBgzf (binned : Bool) (minShift depth major minor : Nat) (L : Layout α) (s0 s1 : R α)
    (lens : List Nat) (nref : Nat) (file : List JRec) (q : Nat) (iv : Interval) : Option (List Nat) :=
  let T := scanTells L s0 lens
  match indexAll minShift depth major minor (offOfTells T) 0 [] file with
  | none => none
  | some refs =>
    match (buildJ refs nref)[q]? with
    | none => none
    | some st =>
      match resolveInterval minShift depth iv with
      | none => none
      | some (qs, qe) =>
        match (serveAll L T lens s1 (st.query binned minShift depth qs qe)).2 with
        | none => none
        | some ids => some (ids.filter (JRec.keep major minor file q iv))

end Noodles.Span
