import Noodles.Vcf.Lazy
import Noodles.Span.Align
/-!
# Variant spans (C04): `variant_end` / `variant_span`

`noodles-vcf/src/variant/record.rs`. `variant_end` is the function already transcribed for C09 as
`Noodles.Vcf.variantEndCore` (INFO `END` before VCF 4.5; from 4.5 the maximum of |REF|, INFO
`SVLEN` and the FORMAT `LEN` column; a missing start is `Position::MIN`; `none` = an error); it is
reused here unchanged. New: `variant_span` (fix d10df78: `end < start` is an error, not an
underflow).
-/
namespace Noodles.Span
open Noodles.Vcf (Val variantEndCore endFrom maxNonNeg maxLenCol optMax)

/-- a header of which only the file format is looked at -/
def hdrOf (major minor : Nat) : Noodles.Vcf.Hdr := ⟨major, minor, [], [], 0, [], []⟩

/-- the `start` argument of `variantEndCore`: outer `none` = `variant_start()` is an `Err` -/
def startArg : OR Nat → Option (Option Nat)
  | .err => none
  | .absent => some none
  | .val s => some (some s)

/-- `Record::variant_end` -/
def variantEnd (major minor : Nat) (start : OR Nat) (refLen : Nat)
    (infoEnd svlen : Option (Option Val)) (lenCol : Option (List (Option Val))) : Option Nat :=
  variantEndCore (hdrOf major minor) (startArg start) refLen infoEnd svlen lenCol

/-- `Record::variant_span`: the start is looked at first, then `variant_end`;
`end.checked_sub(start).map(|n| n + 1)` -/
def variantSpan (major minor : Nat) (start : OR Nat) (refLen : Nat)
    (infoEnd svlen : Option (Option Val)) (lenCol : Option (List (Option Val))) : Option Nat :=
  match start with
  | .err => none
  | _ =>
    let s := match start with
      | .val s => s
      | _ => 1
    match variantEnd major minor start refLen infoEnd svlen lenCol with
    | none => none
    | some e => if s ≤ e then some (e - s + 1) else none

/-! ## the specification -/

/-- maximum of the present entries of an optional integer list (`0` when there is none) -/
def maxPresent : List (Option Int) → Nat
  | [] => 0
  | none :: r => maxPresent r
  | some n :: r => max n.toNat (maxPresent r)

/-- the integer entries of a FORMAT column -/
def colInts : List (Option Val) → List (Option Int)
  | [] => []
  | some (.integer n) :: r => some n :: colInts r
  | _ :: r => none :: colInts r

/-- every present entry of a FORMAT column is an integer -/
def colTyped : List (Option Val) → Bool
  | [] => true
  | none :: r => colTyped r
  | some (.integer _) :: r => colTyped r
  | some _ :: _ => false

/-- a present entry is negative -/
def anyNeg (l : List (Option Int)) : Bool := l.any fun x => match x with
  | some n => decide (n < 0)
  | none => false

/-- the INFO `SVLEN` lookup as a list of optional integers: absent / missing value = no entry;
a value of another type = `none` (an error) -/
def svList : Option (Option Val) → Option (List (Option Int))
  | some (some (.ints l)) => some l
  | some (some _) => none
  | _ => some []

/-- the FORMAT `LEN` column likewise -/
def colList : Option (List (Option Val)) → Option (List (Option Int))
  | none => some []
  | some col => if colTyped col then some (colInts col) else none

end Noodles.Span
