import Noodles.Span.Align
import Noodles.Csi.QueryModel
/-!
# The region filter of the query iterators (C04)

* `noodles-core/src/region/interval.rs` — `Interval` (optional 1-based inclusive bounds),
  `Interval::intersects` (a missing bound is `Position::MIN` / `Position::MAX`);
* `noodles-bam/src/io/reader/query.rs::intersects` (identical: `noodles-sam/src/io/reader/query.rs`);
* `noodles-vcf/src/io/reader/query.rs::intersects`, `noodles-bcf/src/io/reader/query.rs::intersects`;
* `noodles-csi/src/io/filter_by_region.rs::intersects`;
* `noodles-csi/src/binning_index/index.rs::resolve_interval` (the bounds the CHUNK query uses:
  a missing end is the geometry's maximum position, not `Position::MAX`).

`io::Result<bool>` is `Option Bool` (`none` = an `Err`).
-/
namespace Noodles.Span

/-- `noodles_core::region::Interval` -/
structure Interval where
  start : Option Nat
  stop : Option Nat
deriving DecidableEq, Repr

/-- `Interval::intersects` -/
def Interval.intersects (a b : Interval) : Bool :=
  decide (a.start.getD 1 ≤ b.stop.getD USIZE_MAX ∧ b.start.getD 1 ≤ a.stop.getD USIZE_MAX)

/-- `interval_is_unbounded` -/
def Interval.unbounded (i : Interval) : Bool := i.start.isNone && i.stop.isNone

/-- `bam::io::reader::query::intersects`: `rid` = `reference_sequence_id()`, `start` =
`alignment_start()`, the end is computed by `alignment_end()` from the same start and the CIGAR
items. With an unbounded interval neither start nor end is looked at. -/
def bamIntersects (rid start : OR Nat) (items : List (Option Noodles.Bam.Op)) (qrid : Nat)
    (iv : Interval) : Option Bool :=
  match rid with
  | .err => none
  | .absent => some false
  | .val id =>
    if id ≠ qrid then some false
    else if iv.unbounded then some true
    else
      match start with
      | .err => none
      | .absent => some false
      | .val s =>
        match alignmentEnd (.val s) items with
        | .err => none
        | .absent => some false
        | .val e => some (iv.intersects ⟨some s, some e⟩)

/-- `vcf::io::reader::query::intersects`: `nameEq` = the record's CHROM equals the region's name;
`end_` = `variant_end(header)` (`none` = `Err`), only evaluated when the start is present -/
def vcfIntersects (nameEq : Bool) (start : OR Nat) (end_ : Option Nat) (iv : Interval) : Option Bool :=
  if !nameEq then some false
  else if iv.unbounded then some true
  else
    match start with
    | .err => none
    | .absent => some false
    | .val s =>
      match end_ with
      | none => none
      | some e => some (Interval.intersects ⟨some s, some e⟩ iv)

/-- `bcf::io::reader::query::intersects`: `recId` = the index of the record's contig among the
header's contigs (`none` = the name lookup failed: an `Err`) -/
def bcfIntersects (recId : Option Nat) (start : OR Nat) (end_ : Option Nat) (qrid : Nat)
    (iv : Interval) : Option Bool :=
  match recId with
  | none => none
  | some id => vcfIntersects (id == qrid) start end_ iv

/-- `csi::io::filter_by_region::intersects` on an `IndexedRecord` (start and end always present) -/
def csiFilterIntersects (nameEq : Bool) (s e : Nat) (iv : Interval) : Bool :=
  nameEq && Interval.intersects ⟨some s, some e⟩ iv

/-- `max_position(min_shift, depth)` for a valid geometry -/
def maxPos (minShift depth : Nat) : Nat := 2 ^ (minShift + depth * 3) - 1

/-- `resolve_interval`: the closed bounds `BinningIndex::query` / `ReferenceSequence::query` use;
`none` = `Err(InvalidInput)` (a bound beyond the geometry) -/
def resolveInterval (minShift depth : Nat) (iv : Interval) : Option (Nat × Nat) :=
  let s := iv.start.getD 1
  if s > maxPos minShift depth then none
  else
    let e := iv.stop.getD (maxPos minShift depth)
    if e > maxPos minShift depth then none else some (s, e)

/-- the property's own notion: the closed span `[s, e]` meets the region, a missing region bound
being no constraint -/
def Overlaps (s e : Nat) (iv : Interval) : Prop :=
  (∀ qe, iv.stop = some qe → s ≤ qe) ∧ (∀ qs, iv.start = some qs → qs ≤ e)

instance (s e : Nat) (iv : Interval) : Decidable (Overlaps s e iv) := by
  unfold Overlaps
  cases iv.stop <;> cases iv.start <;> simp <;> infer_instance

end Noodles.Span
