import Noodles.Bcf.RecordSpec
import Noodles.Bcf.ScalarsProof
import Noodles.Bcf.StringsProof
namespace Noodles.Bcf
open Noodles.Codec (Bytes Dec decN)
/-!
Round-trip lemmas for the pieces of the BCF site block: the INFO value dispatch, the string-map
index (INFO / FORMAT key), the FILTER index vector and the typed strings (ID, REF, ALT).
Helpers are prefixed `st_`.
-/

/-! ### (1) INFO value dispatch -/

theorem st_all_fitsIB (xs : List (Option Int)) (h : xs.all (optAll fitsIB) = true) :
    ∀ x ∈ xs, ∀ v, x = some v → I32_MIN + 8 ≤ v ∧ v ≤ I32_MAX := by
  intro x hx v hv
  subst hv
  have := List.all_eq_true.mp h _ hx
  simpa [optAll, fitsIB] using this

theorem st_all_fitsFB (xs : List (Option Nat)) (h : xs.all (optAll fitsFB) = true) :
    ∀ x ∈ xs, FitsF x := by
  intro x hx b hb
  subst hb
  have := List.all_eq_true.mp h _ hx
  simpa [optAll, fitsFB] using this

theorem st_all_chars (xs : List (Option UInt8))
    (h : xs.all (optAll fun c => c != COMMA && c != DOT) = true) :
    ∀ c, some c ∈ xs → c ≠ COMMA ∧ c ≠ DOT := by
  intro c hc
  have := List.all_eq_true.mp h _ hc
  simpa [optAll] using this

theorem st_all_strs (xs : List (Option Bytes))
    (h : xs.all (optAll fun s => !s.contains COMMA && s != [DOT]) = true) :
    ∀ s, some s ∈ xs → COMMA ∉ s ∧ s ≠ [DOT] := by
  intro s hs
  have := List.all_eq_true.mp h _ hs
  simpa [optAll] using this

theorem st_isEmpty_false {α : Type} (xs : List α) (h : (!xs.isEmpty) = true) : xs ≠ [] := by
  cases xs with
  | nil => simp at h
  | cons _ _ => simp


theorem writeInfoVal_roundtrip (d : Def) (v : Option InfoVal) (hv : infoValOk d v = true)
    (lazy : Bool) (rest : Bytes) :
    ∃ bs, writeInfoVal v = .ok bs ∧
      readInfoVal lazy d.num d.ty (bs ++ rest) = .ok (normInfoVal v, rest) := by
  obtain ⟨num, ty⟩ := d
  cases v with
  | none =>
    simp only [infoValOk, Bool.and_eq_true, decide_eq_true_eq] at hv
    exact ⟨_, info_none_roundtrip num ty hv.1 hv.2 lazy rest⟩
  | some v =>
    cases v with
    | int n =>
      cases num <;> cases ty <;> try (simp [infoValOk] at hv; done)
      simp only [infoValOk, fitsIB, decide_eq_true_eq] at hv
      exact info_int_roundtrip n hv.1 hv.2 lazy rest
    | float b =>
      cases num <;> cases ty <;> try (simp [infoValOk] at hv; done)
      simp only [infoValOk, fitsFB, decide_eq_true_eq] at hv
      exact info_float_roundtrip b hv.1 hv.2 lazy rest
    | flag =>
      cases num <;> cases ty <;> try (simp [infoValOk] at hv; done)
      exact ⟨_, info_flag_roundtrip lazy rest⟩
    | char c =>
      cases num <;> cases ty <;> try (simp [infoValOk] at hv; done)
      exact info_char_roundtrip c lazy rest
    | str s =>
      cases num <;> cases ty <;> try (simp [infoValOk] at hv; done)
      simp only [infoValOk, Bool.and_eq_true, decide_eq_true_eq] at hv
      exact info_str_roundtrip s (st_isEmpty_false s hv.1) hv.2 lazy rest
    | ints xs =>
      cases num <;> cases ty <;> try (simp [infoValOk] at hv; done)
      simp only [infoValOk, Bool.and_eq_true, decide_eq_true_eq] at hv
      exact info_ints_roundtrip xs (st_isEmpty_false xs hv.1.1) hv.1.2 (st_all_fitsIB xs hv.2) lazy rest
    | floats xs =>
      cases num <;> cases ty <;> try (simp [infoValOk] at hv; done)
      simp only [infoValOk, Bool.and_eq_true, decide_eq_true_eq] at hv
      exact info_floats_roundtrip xs (st_isEmpty_false xs hv.1.1) hv.1.2 (st_all_fitsFB xs hv.2) lazy rest
    | chars xs =>
      cases num <;> cases ty <;> try (simp [infoValOk] at hv; done)
      simp only [infoValOk, Bool.and_eq_true, decide_eq_true_eq] at hv
      exact info_chars_roundtrip xs (st_isEmpty_false xs hv.1.1) (st_all_chars xs hv.2) hv.1.2 lazy rest
    | strs xs =>
      cases num <;> cases ty <;> try (simp [infoValOk] at hv; done)
      simp only [infoValOk, Bool.and_eq_true, decide_eq_true_eq] at hv
      exact info_strs_roundtrip xs (st_isEmpty_false _ hv.1.1) (st_all_strs xs hv.2) hv.1.2 lazy rest

/-! ### (2) string-map index -/

/-- what `read_value` sees for a written index: an integer scalar holding the value `i` -/
theorem st_writeIndex_readValue (i : Nat) (hi : i ≤ 2147483647) (rest : Bytes) :
    ∃ bs w, writeIndex i = .ok bs ∧ bs ≠ [] ∧
      readValue (bs ++ rest) = .ok (.int w (some (.value (i : Int))), rest) := by
  obtain ⟨e1, e2, e3, e4, e5, e6, e7, e8, e9⟩ := w_consts
  have key : ∀ (w : W) (b : UInt8), b.toNat = 1 * 16 + (Ty.int w).code → (i : Int) ≤ w.max →
      W.minValue w ≤ 0 → w.min ≤ 0 →
      readValue (b :: encS w (i : Int) ++ rest) = .ok (.int w (some (.value (i : Int))), rest) := by
    intro w b hb hmax hmv hmin
    have hd : ∀ r, readType ([b] ++ r) = .ok (some (.int w, 1), r) := fun r =>
      fp_readType_byte b r 1 (.int w) (by omega) hb
    have := readValue_int1 w (i : Int) [b] rest hd ⟨by omega, hmax⟩
    rw [classify_value w (i : Int) (by omega)] at this
    simpa using this
  unfold writeIndex
  by_cases h1 : i ≤ 127
  · refine ⟨_, .w1, if_pos h1, by simp, ?_⟩
    exact key .w1 0x11 (by decide) (by omega) (by omega) (by omega)
  · rw [if_neg h1]
    by_cases h2 : i ≤ 32767
    · refine ⟨_, .w2, if_pos h2, by simp, ?_⟩
      exact key .w2 0x12 (by decide) (by omega) (by omega) (by omega)
    · rw [if_neg h2]
      refine ⟨_, .w4, if_pos hi, by simp, ?_⟩
      exact key .w4 0x13 (by decide) (by omega) (by omega) (by omega)

theorem writeIndex_roundtrip (i : Nat) (hi : i ≤ 2147483647) (rest : Bytes) :
    ∃ bs, writeIndex i = .ok bs ∧ bs ≠ [] ∧ readIndex (bs ++ rest) = .ok (i, rest) := by
  obtain ⟨bs, w, hw, hne, hr⟩ := st_writeIndex_readValue i hi rest
  refine ⟨bs, hw, hne, ?_⟩
  unfold readIndex
  rw [hr]
  simp [rbind]

/-! ### (3) FILTER index vector -/

theorem st_foldl_max_ge (is : List Nat) (m : Nat) :
    m ≤ is.foldl max m ∧ ∀ i ∈ is, i ≤ is.foldl max m := by
  induction is generalizing m with
  | nil => exact ⟨Nat.le_refl _, fun i hi => by cases hi⟩
  | cons a t ih =>
    obtain ⟨h1, h2⟩ := ih (max m a)
    simp only [List.foldl_cons]
    refine ⟨by omega, ?_⟩
    intro i hi
    rcases List.mem_cons.mp hi with rfl | hi
    · omega
    · exact h2 i hi

theorem st_foldl_max_le (is : List Nat) (m B : Nat) (hm : m ≤ B) (h : ∀ i ∈ is, i ≤ B) :
    is.foldl max m ≤ B := by
  induction is generalizing m with
  | nil => exact hm
  | cons a t ih =>
    simp only [List.foldl_cons]
    have ha := h a (by simp)
    exact ih (max m a) (by omega) (fun i hi => h i (List.mem_cons_of_mem _ hi))

theorem st_all_nonneg (is : List Nat) : (is.map fun (i : Nat) => (i : Int)).all (0 ≤ ·) = true := by
  induction is with
  | nil => rfl
  | cons a t ih => simp only [List.map_cons, List.all_cons, ih, Bool.and_true]; simp

theorem st_map_toNat (is : List Nat) :
    (is.map fun (i : Nat) => (i : Int)).map (·.toNat) = is := by
  induction is with
  | nil => rfl
  | cons a t ih => simp only [List.map_cons, ih]; simp

theorem writeIndices_roundtrip (is : List Nat) (hi : ∀ i ∈ is, i ≤ 2147483647)
    (hlen : is.length ≤ LEN_MAX) (rest : Bytes) :
    ∃ bs, writeIndices is = .ok bs ∧ readIndices (bs ++ rest) = .ok (is, rest) := by
  match is, hi, hlen with
  | [], _, _ =>
    refine ⟨[0x00], rfl, ?_⟩
    unfold readIndices
    simp only [List.cons_append, List.nil_append, fp_readValue_missing, rbind]
  | [i], hi, _ =>
    obtain ⟨bs, w, hw, _, hr⟩ := st_writeIndex_readValue i (hi i (by simp)) rest
    refine ⟨bs, hw, ?_⟩
    unfold readIndices
    rw [hr]
    simp [rbind]
  | a :: b :: t, hi, hlen =>
    obtain ⟨e1, e2, e3, e4, e5, e6, e7, e8, e9⟩ := w_consts
    have hge := (st_foldl_max_ge (a :: b :: t) 0).2
    have hmx := st_foldl_max_le (a :: b :: t) 0 2147483647 (by omega) hi
    generalize hM : (a :: b :: t).foldl max 0 = mx at hge hmx
    -- the width the writer selects, and the range it gives
    have hsel : ∃ w : W, (if mx ≤ 127 then W.w1 else if mx ≤ 32767 then W.w2 else W.w4) = w ∧
        (mx : Int) ≤ w.max ∧ w.min ≤ 0 := by
      by_cases h1 : mx ≤ 127
      · exact ⟨.w1, if_pos h1, by omega, by omega⟩
      · rw [if_neg h1]
        by_cases h2 : mx ≤ 32767
        · exact ⟨.w2, if_pos h2, by omega, by omega⟩
        · rw [if_neg h2]; exact ⟨.w4, rfl, by omega, by omega⟩
    obtain ⟨w, hw, hwmax, hwmin⟩ := hsel
    obtain ⟨d, hd1, _⟩ := readType_writeType (.int w) (a :: b :: t).length hlen []
    have hd2 : ∀ r, readType (d ++ r) = .ok (some (.int w, (a :: b :: t).length), r) := by
      intro r
      obtain ⟨d', hd', hr'⟩ := readType_writeType (.int w) (a :: b :: t).length hlen r
      rw [hd1] at hd'; injection hd' with hd'; subst hd'; exact hr'
    let raws : List Int := (a :: b :: t).map fun (i : Nat) => (i : Int)
    have hraws : ∀ x ∈ raws, w.min ≤ x ∧ x ≤ w.max := by
      intro x hx
      obtain ⟨y, hy, rfl⟩ := List.mem_map.mp hx
      have := hge y hy
      omega
    have hrl : raws.length = (a :: b :: t).length := by simp [raws]
    refine ⟨d ++ (raws.map (encS w)).flatten, ?_, ?_⟩
    · unfold writeIndices
      simp only [hM, if_neg (show ¬ 2147483647 < mx by omega), hw, hd1, bind', raws, List.map_map]
      rfl
    · have := readValue_ints w raws d rest (by rw [hrl]; simp) (by rw [hrl]; exact hd2) hraws
      unfold readIndices
      rw [this]
      simp only [rbind, raws, st_all_nonneg, st_map_toNat, if_true]

/-! ### (4) typed strings of the site block -/

theorem writeStr_roundtrip (s : Bytes) (hlen : s.length ≤ LEN_MAX) (rest : Bytes) :
    ∃ bs, writeStr s = .ok bs ∧
      readStr (bs ++ rest) = .ok (if s = [] then none else some s, rest) := by
  by_cases hs : s = []
  · subst hs
    refine ⟨[0x07], rfl, ?_⟩
    have hd : readType ((0x07 : UInt8) :: rest) = .ok (some (.string, 0), rest) :=
      fp_readType_byte 0x07 rest 0 .string (by omega) (by decide)
    unfold readStr readValue
    simp only [List.cons_append, List.nil_append, hd, rbind, if_true]
  · obtain ⟨bs, hw, hr⟩ := sp_writeString_read s hs hlen rest
    refine ⟨bs, hw, ?_⟩
    unfold readStr
    rw [hr, if_neg hs]
    rfl

theorem writeStrs_roundtrip (ss : List Bytes) (hne : ∀ s ∈ ss, s ≠ []) (hlen : ∀ s ∈ ss, s.length ≤ LEN_MAX)
    (rest : Bytes) :
    ∃ bss, mapMW writeStr ss = .ok bss ∧
      decN readStr ss.length (bss.flatten ++ rest) = .ok (ss.map some, rest) := by
  induction ss with
  | nil => exact ⟨[], rfl, rfl⟩
  | cons s t ih =>
    obtain ⟨bss, hw, hr⟩ := ih (fun x hx => hne x (List.mem_cons_of_mem _ hx))
      (fun x hx => hlen x (List.mem_cons_of_mem _ hx))
    obtain ⟨b, hb, hrb⟩ := writeStr_roundtrip s (hlen s (by simp)) (bss.flatten ++ rest)
    rw [if_neg (hne s (by simp))] at hrb
    unfold mapMW at hw ⊢
    refine ⟨b :: bss, by simp only [mapM', hb, hw], ?_⟩
    simp only [List.flatten_cons, List.append_assoc, List.length_cons, decN, hrb, hr, List.map_cons]

#print axioms writeInfoVal_roundtrip
#print axioms writeIndex_roundtrip
#print axioms writeIndices_roundtrip
#print axioms writeStr_roundtrip
#print axioms writeStrs_roundtrip

end Noodles.Bcf
