import Noodles.Bcf.SamplesProof
/-! Round-trip lemmas for the genotype column (helpers for C10). -/
namespace Noodles.Bcf
open Noodles.Codec (Bytes le unle Dec decN unle_le decN_map RoundTrip le_length)

/-- alleles BCF can hold in one signed byte: index ≤ 62 (`(62 + 1) << 1 | 1 = 127`) -/
def AlleleOk (a : Allele) : Prop := ∀ p, a.1 = some p → p ≤ 62

/-- the byte of an allele -/
def encA : Allele → UInt8
  | (none, ph) => if ph then 1 else 0
  | (some p, ph) => UInt8.ofNat ((p + 1) * 2 + (if ph then 1 else 0))

/-- the same as a signed integer -/
def valA : Allele → Int
  | (none, ph) => if ph then 1 else 0
  | (some p, ph) => ((p : Int) + 1) * 2 + (if ph then 1 else 0)

theorem encAllele_ok (a : Allele) (h : AlleleOk a) : encAllele a = .ok (some (encA a)) := by
  rcases a with ⟨_ | p, ph⟩
  · rfl
  · have := h p rfl
    simp only [encAllele, encA]
    rw [if_neg (by omega), if_neg (by omega)]

theorem toS_encA (a : Allele) (h : AlleleOk a) : toS .w1 (encA a).toNat = valA a := by
  rcases a with ⟨_ | p, ph⟩
  · cases ph <;> simp [encA, valA, toS, W.modulus]
  · have := h p rfl
    cases ph <;> simp [encA, valA, toS, W.modulus] <;> omega

theorem valA_range (a : Allele) (h : AlleleOk a) : 0 ≤ valA a ∧ valA a ≤ 127 := by
  rcases a with ⟨_ | p, ph⟩
  · cases ph <;> simp [valA]
  · have := h p rfl
    cases ph <;> simp [valA] <;> omega

theorem decS_byte (b : UInt8) (r : Bytes) : decS .w1 (b :: r) = .ok (toS .w1 b.toNat, r) := by
  simp [decS, W.bytes, unle]

theorem decN_bytes (bs : Bytes) (r : Bytes) :
    decN (decS .w1) bs.length (bs ++ r) = .ok (bs.map (fun b => toS .w1 b.toNat), r) := by
  induction bs with
  | nil => simp [decN]
  | cons b bs ih => simp only [List.length_cons, List.cons_append, decN, decS_byte, ih, List.map_cons]

theorem toS_eov : toS .w1 EOV8.toNat = -127 := by
  simp [toS, W.modulus, EOV8]

/-- the bytes of one sample: its alleles, then end-of-vector up to the common ploidy -/
def gtBytes (n : Nat) (g : List Allele) : Bytes := g.map encA ++ List.replicate (n - g.length) EOV8

theorem gtBytes_length (n : Nat) (g : List Allele) (h : g.length ≤ n) : (gtBytes n g).length = n := by
  simp only [gtBytes, List.length_append, List.length_map, List.length_replicate]; omega

theorem gtBytes_ints (n : Nat) (g : List Allele) (h : ∀ a ∈ g, AlleleOk a) :
    (gtBytes n g).map (fun b => toS .w1 b.toNat) = g.map valA ++ List.replicate (n - g.length) (-127) := by
  simp only [gtBytes, List.map_append, List.map_map, List.map_replicate, toS_eov]
  congr 1
  apply List.map_congr_left
  intro a ha
  exact toS_encA a (h a ha)

theorem parseGenotype_eov (k : Nat) : parseGenotype (List.replicate k (-127)) = .ok [] := by
  cases k with
  | zero => rfl
  | succ k => simp [List.replicate_succ, parseGenotype]

theorem parseGenotype_step (a : Allele) (h : AlleleOk a) (vs : List Int) :
    parseGenotype (valA a :: vs) =
      (match parseGenotype vs with
       | .error e => .error e
       | .ok r => .ok (a :: r)) := by
  have hr := valA_range a h
  rcases a with ⟨_ | p, ph⟩
  · cases ph <;> simp [parseGenotype, valA] <;> cases parseGenotype vs <;> rfl
  · have hp := h p rfl
    cases ph
    · have e1 : (((p : Int) + 1) * 2 + 0) / 2 - 1 = p := by omega
      have e2 : (((p : Int) + 1) * 2 + 0) % 2 = 0 := by omega
      simp only [valA, parseGenotype, Bool.false_eq_true, if_false, e1, e2]
      rw [if_neg (by omega), if_neg (by omega), if_neg (by omega)]
      cases parseGenotype vs <;> simp
    · have e1 : (((p : Int) + 1) * 2 + 1) / 2 - 1 = p := by omega
      have e2 : (((p : Int) + 1) * 2 + 1) % 2 = 1 := by omega
      simp only [valA, parseGenotype, if_true, e1, e2]
      rw [if_neg (by omega), if_neg (by omega), if_neg (by omega)]
      cases parseGenotype vs <;> simp

theorem parseGenotype_vals (g : List Allele) (k : Nat) (h : ∀ a ∈ g, AlleleOk a) :
    parseGenotype (g.map valA ++ List.replicate k (-127)) = .ok g := by
  induction g with
  | nil => simpa using parseGenotype_eov k
  | cons a g ih =>
    simp only [List.map_cons, List.cons_append]
    rw [parseGenotype_step a (h a (by simp)), ih (fun b hb => h b (List.mem_cons_of_mem _ hb))]

theorem classify_valA (a : Allele) (h : AlleleOk a) : classify .w1 (valA a) = .value (valA a) := by
  have := valA_range a h
  exact classify_value .w1 _ (by simp [W.minValue, W.min, W.modulus]; omega)

theorem lazy_allele (a : Allele) (h : AlleleOk a) : alleleOfByte (valA a) = a := by
  unfold alleleOfByte
  rcases a with ⟨_ | p, ph⟩
  · cases ph <;> simp [valA]
  · have hp := h p rfl
    cases ph
    · have e : ((((p : Int) + 1) * 2 + 0) % 256).toNat = (p + 1) * 2 := by omega
      simp only [valA, Bool.false_eq_true, if_false, e]
      have e1 : (p + 1) * 2 / 2 = p + 1 := by omega
      have e2 : (p + 1) * 2 % 2 = 0 := by omega
      simp [e1, e2]
    · have e : ((((p : Int) + 1) * 2 + 1) % 256).toNat = (p + 1) * 2 + 1 := by omega
      simp only [valA, if_true, e]
      have e1 : ((p + 1) * 2 + 1) / 2 = p + 1 := by omega
      have e2 : ((p + 1) * 2 + 1) % 2 = 1 := by omega
      simp [e1, e2]

theorem lazyGenotype_vals (v44 : Bool) (g : List Allele) (k : Nat) (h : ∀ a ∈ g, AlleleOk a) :
    lazyGenotype v44 (g.map valA ++ List.replicate k (-127)) = fixFirst v44 g := by
  have htw : (g.map valA ++ List.replicate k (-127)).takeWhile isValue8 = g.map valA := by
    rw [List.takeWhile_append_of_pos]
    · have : (List.replicate k (-127 : Int)).takeWhile isValue8 = [] := by
        cases k with
        | zero => rfl
        | succ k => simp [List.replicate_succ, isValue8, classify, W.min, W.modulus]
      rw [this, List.append_nil]
    · intro v hv
      obtain ⟨a, ha, rfl⟩ := List.mem_map.mp hv
      simp only [isValue8, classify_valA a (h a ha)]
  unfold lazyGenotype
  rw [htw, List.map_map]
  have hmap : g.map (alleleOfByte ∘ valA) = g := by
    conv => rhs; rw [← List.map_id g]
    apply List.map_congr_left
    intro a ha
    exact lazy_allele a (h a ha)
  rw [hmap]

/-- the fold behind the common ploidy -/
theorem foldl_max_ge {α : Type} (m : Nat) (rs : List (List α)) :
    m ≤ rs.foldl (fun m r => max m r.length) m ∧ ∀ r ∈ rs, r.length ≤ rs.foldl (fun m r => max m r.length) m := by
  induction rs generalizing m with
  | nil => exact ⟨Nat.le_refl _, fun r hr => by cases hr⟩
  | cons c cs ih =>
    have := ih (max m c.length)
    simp only [List.foldl_cons]
    refine ⟨by omega, ?_⟩
    intro r hr
    rcases List.mem_cons.mp hr with rfl | hr
    · omega
    · exact this.2 r hr

/-- common ploidy of a column -/
def ploidy (col : List (List Allele)) : Nat := (col.map (·.map encA)).foldl (fun m r => max m r.length) 0

theorem length_le_ploidy (col : List (List Allele)) : ∀ g ∈ col, g.length ≤ ploidy col := by
  intro g hg
  have := (foldl_max_ge 0 (col.map (·.map encA))).2 (g.map encA) (List.mem_map.mpr ⟨g, hg, rfl⟩)
  simpa [ploidy] using this

theorem outGenotype_some (r : List UInt8) : outGenotype (r.map some) = .ok r := by
  unfold outGenotype
  induction r with
  | nil => rfl
  | cons b r ih => simp only [List.map_cons, mapM', ih]

theorem writeGenotype_ok (col : List (List Allele)) (h : ∀ g ∈ col, ∀ a ∈ g, AlleleOk a)
    (d : Bytes) (hd : writeType (some (.int .w1, ploidy col)) = .ok d) :
    writeGenotypeValues (col.map some) = .ok (d ++ (col.map (gtBytes (ploidy col))).flatten) := by
  have hm : mapM' encGenotype (col.map some)
      = .ok ((col.map some).map fun s => (s.getD []).map (fun a => some (encA a))) := by
    apply mapM'_ok
    intro s hs
    obtain ⟨g, hg, rfl⟩ := List.mem_map.mp hs
    exact mapM'_ok _ _ g (fun a ha => encAllele_ok a (h g hg a ha))
  have hmm : ((col.map some).map fun s => (s.getD []).map (fun a => some (encA a)))
      = col.map (fun g => (g.map encA).map some) := by
    rw [List.map_map]
    apply List.map_congr_left
    intro g _
    simp [List.map_map]
  unfold writeGenotypeValues
  rw [hm, hmm]
  simp only
  have hp : List.foldl (fun m (r : List (Option UInt8)) => max m r.length) 0
      (col.map (fun g => (g.map encA).map some)) = ploidy col := by
    unfold ploidy
    have : col.map (fun g => (g.map encA).map some)
        = (col.map (·.map encA)).map (·.map some) := by rw [List.map_map]; rfl
    rw [this]
    generalize col.map (·.map encA) = L
    suffices ∀ m, List.foldl (fun m (r : List (Option UInt8)) => max m r.length) m (L.map (·.map some))
        = List.foldl (fun m (r : List UInt8) => max m r.length) m L from this 0
    induction L with
    | nil => intro m; rfl
    | cons r L ih => intro m; simp only [List.map_cons, List.foldl_cons, List.length_map, ih]
  rw [hp, hd]
  simp only
  have hout : mapM' outGenotype (col.map (fun g => (g.map encA).map some))
      = .ok (col.map (·.map encA)) := by
    have := mapM'_ok outGenotype (fun (r : List (Option UInt8)) => r.filterMap id)
      (col.map (fun g => (g.map encA).map some)) (by
        intro r hr
        obtain ⟨g, _, rfl⟩ := List.mem_map.mp hr
        rw [outGenotype_some]
        simp [List.filterMap_map])
    rw [this]
    congr 1
    rw [List.map_map]
    apply List.map_congr_left
    intro g _
    simp [List.filterMap_map]
  rw [hout]
  simp only [List.map_map]
  have : col.map ((fun r => r ++ List.replicate (ploidy col - r.length) EOV8) ∘ fun x => List.map encA x)
      = col.map (gtBytes (ploidy col)) := by
    apply List.map_congr_left
    intro g _
    simp [gtBytes]
  rw [this]

theorem genotype_roundtrip (col : List (List Allele)) (h : ∀ g ∈ col, ∀ a ∈ g, AlleleOk a)
    (h1 : 1 ≤ ploidy col) (hlen : ploidy col ≤ 2147483647) (rest : Bytes) :
    ∃ bs, writeGenotypeValues (col.map some) = .ok bs ∧
      readColumnEager .gt col.length (bs ++ rest) = .ok (col.map (fun g => some (SVal.gt g)), rest) ∧
      ∀ v44, readColumnLazy v44 .gt col.length (bs ++ rest)
        = .ok (col.map (fun g => some (SVal.gt (fixFirst v44 g))), rest) := by
  obtain ⟨d, hd1, _⟩ := readType_writeType (.int .w1) (ploidy col) hlen []
  have hd2 : ∀ r, readType (d ++ r) = .ok (some (.int .w1, ploidy col), r) := by
    intro r
    obtain ⟨d', hd', hr'⟩ := readType_writeType (.int .w1) (ploidy col) hlen r
    rw [hd1] at hd'; injection hd' with hd'; subst hd'; exact hr'
  have hraw : ∀ g ∈ col, ∀ r, decN (decS .w1) (ploidy col) (gtBytes (ploidy col) g ++ r)
      = .ok (g.map valA ++ List.replicate (ploidy col - g.length) (-127), r) := by
    intro g hg r
    have := decN_bytes (gtBytes (ploidy col) g) r
    rw [gtBytes_length _ _ (length_le_ploidy col g hg), gtBytes_ints _ _ (h g hg)] at this
    exact this
  refine ⟨_, writeGenotype_ok col h d hd1, ?_, ?_⟩
  · unfold readColumnEager
    rw [List.append_assoc, hd2]
    simp only
    rw [if_neg (by omega)]
    exact decN_map' (gtBytes (ploidy col)) _ (fun g => some (SVal.gt g)) (fun g => g ∈ col)
      (fun g hg r => by
        simp only [readGtEager, hraw g hg r, parseGenotype_vals g _ (h g hg)]) col (fun g hg => hg) rest
  · intro v44
    unfold readColumnLazy
    rw [List.append_assoc, hd2]
    simp only
    exact decN_map' (gtBytes (ploidy col)) _ (fun g => some (SVal.gt (fixFirst v44 g))) (fun g => g ∈ col)
      (fun g hg r => by
        simp only [readGtLazy, hraw g hg r, lazyGenotype_vals v44 g _ (h g hg)]
        rw [if_neg (by omega)]) col (fun g hg => hg) rest

end Noodles.Bcf
