import Noodles.Bcf.Record
import Noodles.Bcf.VectorProof
import Noodles.Bcf.SamplesProof
import Noodles.Bcf.GenotypeProof
/-!
# Normal forms and the well-formedness relation of a whole BCF record (spec for C10 / Record)

`normRec lazy h r` is what `readRecord lazy h` returns for the bytes `writeRecord h r` produced,
for every record that satisfies the decidable relation `recWF h r` (theorem
`Noodles.Props.C10.bcf_record_roundtrip`). The normal form is the one the code itself imposes and
that the VCF text cannot distinguish:

* an INFO integer / float vector that is exactly `[missing]` is a missing value (`normInts`,
  `normFloats`, already used by `bcf_int_roundtrip` / `bcf_float_bits`);
* a per-sample value of a vector column: eager reader — `[missing]` is a missing sample; lazy
  accessor — a missing sample is `[missing]`; character vectors: a missing sample is `[missing]`
  for both readers;
* the first allele's phasing before VCF 4.4 is inferred by the lazy accessor (`fixFirst`);
* a row is as wide as the FORMAT key list (short rows are padded with missing values, what the
  writer's `sample.get_index(…).unwrap_or_default()` does).

`recWF` lists **exactly** what the writer + readers need; every conjunct that excludes a value is
there because BCF as written by noodles cannot represent that value (see the `…_unrepresentable`
examples in `Noodles/Props/C10Record.lean`).
-/
namespace Noodles.Bcf
open Noodles.Codec (Bytes)

def LEN_MAX : Nat := 2147483647

/-! ## per-sample normal forms (one function per column kind × reader) -/

/-- float vector column, eager: `[missing]` ≡ missing sample -/
def normSF : Option (List (Option Nat)) → Option SVal
  | none => none
  | some vs => normVec .floats vs

/-- float vector column, lazy: a missing sample is `[missing]` -/
def lazySF : Option (List (Option Nat)) → Option SVal
  | none => some (.floats [none])
  | some vs => some (.floats vs)

/-- character vector column, both readers: a missing sample is `[missing]` -/
def normSC : Option (List (Option UInt8)) → Option SVal
  | none => some (.chars [none])
  | some cs => some (.chars cs)

/-- string vector column, eager: the serialised value `.` (missing sample, or `[missing]`) is a
missing sample -/
def normSS : Option (List (Option Bytes)) → Option SVal
  | none => none
  | some [none] => none
  | some xs => some (.strs xs)

/-- string vector column, lazy: a missing sample is `[missing]` -/
def lazySS : Option (List (Option Bytes)) → Option SVal
  | none => some (.strs [none])
  | some xs => some (.strs xs)

/-- serialisation of a character vector (`write_character_array_value(s)`) -/
def joinChars (xs : List (Option UInt8)) : Bytes := joinStrs (xs.map (·.map fun c => [c]))

/-! ## typed views of a column of `SVal`s -/

def svInt : Option SVal → Option Int | some (.int n) => some n | _ => none
def svInts : Option SVal → Option (List (Option Int)) | some (.ints xs) => some xs | _ => none
def svFloat : Option SVal → Option Nat | some (.float b) => some b | _ => none
def svFloats : Option SVal → Option (List (Option Nat)) | some (.floats xs) => some xs | _ => none
def svChar : Option SVal → Option UInt8 | some (.char c) => some c | _ => none
def svChars : Option SVal → Option (List (Option UInt8)) | some (.chars xs) => some xs | _ => none
def svStr : Option SVal → Option Bytes | some (.str s) => some s | _ => none
def svStrs : Option SVal → Option (List (Option Bytes)) | some (.strs xs) => some xs | _ => none
def svGt : Option SVal → List Allele | some (.gt g) => g | _ => []

/-! ## normal form of a record -/

/-- INFO value: a vector that is exactly `[missing]` is a missing value (both readers) -/
def normInfoVal : Option InfoVal → Option InfoVal
  | some (.ints xs) => normInts xs
  | some (.floats xs) => normFloats xs
  | v => v

/-- how the column of a FORMAT key is read (`colKind` with the error arm removed) -/
def kindOf (h : Header) (key : String) : ColKind :=
  if key = "GT" then .gt
  else match h.formats.lookup key with
    | some d => .field d.num d.ty
    | none => .gt

/-- eager reader (`read_record_buf`) -/
def normSValE : ColKind → Option SVal → Option SVal
  | .field .other .integer, v => normS (svInts v)
  | .field .other .float, v => normSF (svFloats v)
  | .field .other .character, v => normSC (svChars v)
  | .field .other .string, v => normSS (svStrs v)
  | _, v => v

/-- lazy accessors (`bcf::Record`) -/
def normSValL (v44 : Bool) : ColKind → Option SVal → Option SVal
  | .gt, v => some (.gt (fixFirst v44 (svGt v)))
  | .field .other .integer, v => lazyS (svInts v)
  | .field .other .float, v => lazySF (svFloats v)
  | .field .other .character, v => normSC (svChars v)
  | .field .other .string, v => lazySS (svStrs v)
  | _, v => v

def normSVal (lazy v44 : Bool) (k : ColKind) (v : Option SVal) : Option SVal :=
  if lazy then normSValL v44 k v else normSValE k v

/-- column `k` of the sample matrix as the writer collects it
(`sample.get_index(header, i).transpose()?.unwrap_or_default()`) -/
def colOf (r : Rec) (k : Nat) : List (Option SVal) := r.rows.map fun row => (row[k]?).join

/-- the columns both readers return -/
def normCols (lazy : Bool) (h : Header) (r : Rec) : List (String × List (Option SVal)) :=
  (r.keys.zip (List.range r.keys.length)).map fun ki =>
    (ki.1, (colOf r ki.2).map (normSVal lazy h.v44 (kindOf h ki.1)))

/-- what `readRecord lazy h` returns for `writeRecord h r` -/
def normRec (lazy : Bool) (h : Header) (r : Rec) : Rec :=
  { r with
    info := r.info.map fun kv => (kv.1, normInfoVal kv.2)
    rows := toRows h.nSample (normCols lazy h r) }

/-! ## `bcf::Record::end` (lazy): the end position computed from the `pos` and `rlen` words -/

/-- `noodles-bcf/src/record.rs` `end`: `variant_start` (missing = error) `+ (rlen - 1)`;
`none` stands for the error arms -/
def lazyEnd (site : Bytes) : Option Nat :=
  match decS .w4 (site.drop 4), decS .w4 (site.drop 8) with
  | .ok (pos, _), .ok (rlen, _) =>
    if pos < 0 then none
    else if rlen < 1 then none
    else some (pos.toNat + 1 + (rlen.toNat - 1))
  | _, _ => none

/-! ## well-formedness (decidable: a `Bool`) -/

def optAll {α : Type} (p : α → Bool) : Option α → Bool
  | none => true
  | some a => p a

/-- an `i32` BCF can hold as a value: `-2^31 + 8 ..= 2^31 - 1` -/
def fitsIB (n : Int) : Bool := decide (I32_MIN + 8 ≤ n ∧ n ≤ I32_MAX)
/-- a 32-bit float pattern other than the eight reserved NaNs `0x7f800001 ..= 0x7f800007` -/
def fitsFB (b : Nat) : Bool := decide (b < 4294967296 ∧ (b < 0x7f800001 ∨ 0x7f800007 < b))
def alleleOkB (a : Allele) : Bool := optAll (fun p => decide (p ≤ 62)) a.1

/-- the name has an index the format can carry and the index resolves back to the name -/
def resolves (m : StringMap) (name : String) : Bool :=
  match m.getIndexOf name with
  | some i => decide (i ≤ 2147483647) && decide (m.getIndex i = some name)
  | none => false

/-- INFO value against the header definition of its key: the shape the `Number` / `Type` ask for,
and a value the typed encoding can represent.
Not representable: an integer below `-2^31 + 8`; a reserved NaN; an empty vector; an empty string
(read back as a missing value); a `,` or a `.` as a character-vector element; a string-vector
element containing `,` (read back as two elements) or equal to `.` (read back as missing); a
string vector whose serialisation is empty (`[]`, `[""]`: read back as a missing value). -/
def infoValOk (d : Def) : Option InfoVal → Bool
  | none => decide (d.num ≠ .zero) && decide (d.ty ≠ .flag)
  | some v =>
    match d.num, d.ty, v with
    | .zero, .flag, .flag => true
    | .one, .integer, .int n => fitsIB n
    | .other, .integer, .ints xs =>
      !xs.isEmpty && decide (xs.length ≤ LEN_MAX) && xs.all (optAll fitsIB)
    | .one, .float, .float b => fitsFB b
    | .other, .float, .floats xs =>
      !xs.isEmpty && decide (xs.length ≤ LEN_MAX) && xs.all (optAll fitsFB)
    | .one, .character, .char _ => true
    | .other, .character, .chars xs =>
      !xs.isEmpty && decide ((joinChars xs).length ≤ LEN_MAX)
        && xs.all (optAll fun c => c != COMMA && c != DOT)
    | .one, .string, .str s => !s.isEmpty && decide (s.length ≤ LEN_MAX)
    | .other, .string, .strs xs =>
      !(joinStrs xs).isEmpty && decide ((joinStrs xs).length ≤ LEN_MAX)
        && xs.all (optAll fun s => !s.contains COMMA && s != [DOT])
    | _, _, _ => false

/-- one FORMAT column against the way it is read.
Not representable, beyond the INFO cases: a NUL inside a character / string value (NUL is the
padding; the value is cut there); the per-sample string `.` (read back as missing); a column of a
float-vector / character / string type in which every sample is missing (refused by the writer);
an integer / float vector column whose longest vector is empty (descriptor length 0, refused by
the readers); a string column holding only empty strings next to a missing sample (see
`bcf_format_string_none_empty_defect`); an allele index above 62; a sample without a genotype in
the GT column; a GT column of ploidy 0. -/
def colOk (kind : ColKind) (col : List (Option SVal)) : Bool :=
  match kind with
  | .gt =>
    col.all (fun v => match v with | some (.gt g) => g.all alleleOkB | _ => false)
      && decide (1 ≤ ploidy (col.map svGt)) && decide (ploidy (col.map svGt) ≤ LEN_MAX)
  | .field .one .integer =>
    col.all (fun v => match v with | none => true | some (.int n) => fitsIB n | _ => false)
  | .field .other .integer =>
    col.all (fun v => match v with
        | none => true | some (.ints xs) => xs.all (optAll fitsIB) | _ => false)
      && decide (1 ≤ maxLen (col.map svInts)) && decide (maxLen (col.map svInts) ≤ LEN_MAX)
  | .field .one .float =>
    col.all (fun v => match v with | none => true | some (.float b) => fitsFB b | _ => false)
  | .field .other .float =>
    col.all (fun v => match v with
        | none => true | some (.floats xs) => xs.all (optAll fitsFB) | _ => false)
      && (match maxLenSome (col.map svFloats) with
          | some n => decide (1 ≤ n) && decide (n ≤ LEN_MAX) | none => false)
  | .field .one .character =>
    col.all (fun v => match v with
        | none => true | some (.char c) => c != NUL && c != DOT | _ => false)
      && col.any (·.isSome)
  | .field .other .character =>
    col.all (fun v => match v with
        | none => true
        | some (.chars cs) => !cs.isEmpty && decide ((joinChars cs).length ≤ LEN_MAX)
            && cs.all (optAll fun c => c != NUL && c != COMMA && c != DOT)
        | _ => false)
      && col.any (·.isSome)
  | .field .one .string =>
    col.all (fun v => match v with
        | none => true | some (.str s) => !s.contains NUL && s != [DOT] | _ => false)
      && (match maxLenSome (col.map svStr) with
          | some n => decide (n ≤ LEN_MAX) && (!col.any (·.isNone) || decide (1 ≤ n))
          | none => false)
  | .field .other .string =>
    col.all (fun v => match v with
        | none => true
        | some (.strs xs) => !(joinStrs xs).isEmpty && decide ((joinStrs xs).length ≤ LEN_MAX)
            && xs.all (optAll fun s => !s.contains NUL && !s.contains COMMA && s != [DOT])
        | _ => false)
      && !col.isEmpty
  | _ => false

/-- no name occurs twice (the INFO map of `RecordBuf` is keyed by name) -/
def nodupB : List String → Bool
  | [] => true
  | k :: ks => !ks.contains k && nodupB ks

/-- the site block -/
def siteWF (h : Header) (r : Rec) : Bool :=
  resolves h.contigs r.chrom
    && optAll (fun p => decide (1 ≤ p) && decide (p ≤ 2147483647)) r.pos
    && optAll fitsFB r.qual
    && decide (r.ids.length ≤ LEN_MAX) && dedupIds r.ids == r.ids
    && !r.ref.isEmpty && decide (r.ref.length ≤ LEN_MAX)
    && r.alts.all (fun a => !a.isEmpty && decide (a.length ≤ LEN_MAX))
    && decide (r.alts.length + 1 ≤ 65535)
    && r.filters.all (resolves h.strings) && r.filters.eraseDups == r.filters
    && decide (r.filters.length ≤ LEN_MAX)
    && (match rlenOf r.pos r.info r.ref with | .ok _ => true | .error _ => false)
    && decide (r.info.length ≤ 65535)
    && nodupB (r.info.map (·.1))
    && r.info.all (fun kv => resolves h.strings kv.1
        && match h.infos.lookup kv.1 with | some d => infoValOk d kv.2 | none => false)
    && decide (r.keys.length ≤ 255) && decide (h.nSample ≤ 16777215)

/-- the samples block -/
def samplesWF (h : Header) (r : Rec) : Bool :=
  (if r.keys.isEmpty then r.rows.all (·.isEmpty)
   else decide (r.rows.length = h.nSample) && decide (1 ≤ h.nSample)
     && r.rows.all (fun row => decide (row.length ≤ r.keys.length)))
    && (r.keys.zip (List.range r.keys.length)).all fun ki =>
        resolves h.strings ki.1 && (h.formats.lookup ki.1).isSome
          && colOk (kindOf h ki.1) (colOf r ki.2)

/-- a record the BCF writer accepts and both readers return as `normRec` -/
def recWF (h : Header) (r : Rec) : Bool := siteWF h r && samplesWF h r

end Noodles.Bcf
