import Noodles.Bcf.VectorProof
/-! Round-trip lemmas for per-sample integer columns and genotypes; rejection lemmas (helpers for C10). -/
namespace Noodles.Bcf
open Noodles.Codec (Bytes le unle Dec decN unle_le decN_map RoundTrip le_length)

/-! ### rejection: an integer below `-2^31 + 8` is an error of every writer -/

theorem isEmpty_false_of_mem {α : Type} (xs : List α) (x : α) (h : x ∈ xs) : xs.isEmpty = false := by
  cases xs with
  | nil => cases h
  | cons _ _ => rfl

theorem writeInfoInt_rejects (n : Int) (h : n < I32_MIN + 8) : writeInfoInt n = .error .invalidInput := by
  simp only [writeInfoInt, selectWidth_none n n h]

theorem writeInfoInts_rejects (xs : List (Option Int)) (v : Int) (hv : some v ∈ xs) (h : v < I32_MIN + 8) :
    writeInfoInts xs = .error .invalidInput := by
  have hs := scan_low xs v hv
  unfold writeInfoInts
  rw [isEmpty_false_of_mem xs _ hv]
  simp only [selectWidth_none (scan xs).1 (scan xs).2 (by omega)]
  rfl

theorem writeIntValues_rejects (col : List (Option Int)) (v : Int) (hv : some v ∈ col) (h : v < I32_MIN + 8) :
    writeIntValues col = .error .invalidInput := by
  have hs := scan_low col v hv
  simp only [writeIntValues, selectWidth_none (scan col).1 (scan col).2 (by omega)]

theorem writeIntArrayValues_rejects (col : List (Option (List (Option Int)))) (v : Int)
    (hv : some v ∈ flatVals col) (h : v < I32_MIN + 8) :
    writeIntArrayValues col = .error .invalidInput := by
  have hs := scan_low (flatVals col) v hv
  simp only [writeIntArrayValues, selectWidth_none (scan (flatVals col)).1 (scan (flatVals col)).2 (by omega)]

/-! ### `Number=1` integer column -/

theorem readSampleEager_one_int (w : W) (bs : Bytes) :
    readSampleEager .one .integer (.int w, 1) bs =
      (match decS w bs with
       | .error e => .error e
       | .ok (v, r) =>
         match classify w v with
         | .value n => .ok (some (.int n), r)
         | .missing => .ok (none, r)
         | _ => .error .invalid) := by
  rfl

theorem sample_scalar_read (w : W) (x : Option Int) (h : Fits w x) (r : Bytes) :
    readSampleEager .one .integer (.int w, 1) (encS w (raw w x) ++ r) = .ok (x.map SVal.int, r) := by
  rw [readSampleEager_one_int]
  have hr := raw_range w x h
  rw [decS_encS w _ hr.1 hr.2]
  cases x with
  | none => simp only [raw, Option.getD_none, classify_missing, Option.map_none]
  | some v => simp only [raw, Option.getD_some, classify_value w v (h v rfl).1, Option.map_some]

theorem readType_head1 (w : W) (r : Bytes) :
    readType (UInt8.ofNat (16 + w.code) :: r) = .ok (some (.int w, 1), r) := by
  obtain ⟨d', hd', hr'⟩ := readType_writeType (.int w) 1 (by omega) r
  simp only [writeType, Ty.code] at hd'
  rw [if_neg (by omega)] at hd'
  injection hd' with hd'
  subst hd'
  simpa [Nat.add_comm] using hr'

theorem samples_int_roundtrip (col : List (Option Int))
    (hr : ∀ x ∈ col, ∀ v, x = some v → I32_MIN + 8 ≤ v ∧ v ≤ I32_MAX) (rest : Bytes) :
    ∃ bs, writeIntValues col = .ok bs ∧
      readColumnEager (.field .one .integer) col.length (bs ++ rest) = .ok (col.map (·.map SVal.int), rest) := by
  obtain ⟨w, hw⟩ := selectWidth_some (scan col).1 (scan col).2 (scan_range col hr).1
  have hfit := scan_fits col w hr hw
  have hm : mapM' (encScalar w) col = .ok (col.map fun x => encS w (raw w x)) :=
    mapM'_ok _ _ col (fun x hx => encScalar_ok w x (hfit x hx))
  refine ⟨UInt8.ofNat (16 + w.code) :: (col.map fun x => encS w (raw w x)).flatten, ?_, ?_⟩
  · simp only [writeIntValues, hw, hm]
  · unfold readColumnEager
    simp only [List.cons_append, readType_head1]
    exact decN_map' (fun x => encS w (raw w x)) _ (·.map SVal.int) (Fits w)
      (fun x hx r => sample_scalar_read w x hx r) col hfit rest

/-! ### integer vector column -/

/-- the raw integers of one sample: its values (one `missing` for a missing sample), then
end-of-vector up to the common length -/
def rawsOf (w : W) (n : Nat) : Option (List (Option Int)) → List Int
  | none => w.min :: List.replicate (n - 1) (w.min + 1)
  | some vs => vs.map (raw w) ++ List.replicate (n - vs.length) (w.min + 1)

def lenOf {α : Type} : Option (List α) → Nat
  | none => 1
  | some vs => vs.length

/-- what the eager reader returns for a written sample -/
def normS : Option (List (Option Int)) → Option SVal
  | none => none
  | some vs => normVec SVal.ints vs

/-- what the lazy accessor returns for a written sample -/
def lazyS : Option (List (Option Int)) → Option SVal
  | none => some (.ints [none])
  | some vs => some (.ints vs)

def FitsS (w : W) (s : Option (List (Option Int))) : Prop := ∀ vs, s = some vs → ∀ x ∈ vs, Fits w x

theorem flatten_replicate_enc (w : W) (k : Nat) (e : Int) :
    (List.replicate k (encS w e)).flatten = ((List.replicate k e).map (encS w)).flatten := by
  rw [List.map_replicate]

theorem encVec_ok (w : W) (n : Nat) (s : Option (List (Option Int))) (h : FitsS w s) :
    encVec w n s = .ok (((rawsOf w n s).map (encS w)).flatten) := by
  cases s with
  | none =>
    simp only [encVec, rawsOf, List.map_cons, List.flatten_cons, flatten_replicate_enc]
  | some vs =>
    have hm : mapM' (encScalar w) vs = .ok (vs.map fun x => encS w (raw w x)) :=
      mapM'_ok _ _ vs (fun x hx => encScalar_ok w x (h vs rfl x hx))
    simp only [encVec, hm, rawsOf, List.map_append, List.flatten_append, flatten_replicate_enc,
      List.map_map]
    rfl

theorem rawsOf_length (w : W) (n : Nat) (s : Option (List (Option Int))) (h : lenOf s ≤ n) :
    (rawsOf w n s).length = n := by
  cases s with
  | none => simp only [lenOf] at h; simp only [rawsOf, List.length_cons, List.length_replicate]; omega
  | some vs =>
    simp only [lenOf] at h
    simp only [rawsOf, List.length_append, List.length_map, List.length_replicate]; omega

theorem rawsOf_range (w : W) (n : Nat) (s : Option (List (Option Int))) (h : FitsS w s) :
    ∀ x ∈ rawsOf w n s, w.min ≤ x ∧ x ≤ w.max := by
  have hmm := min_lt_max w
  intro x hx
  cases s with
  | none =>
    simp only [rawsOf, List.mem_cons, List.mem_replicate] at hx
    rcases hx with rfl | ⟨_, rfl⟩ <;> omega
  | some vs =>
    simp only [rawsOf, List.mem_append, List.mem_map, List.mem_replicate] at hx
    rcases hx with ⟨y, hy, rfl⟩ | ⟨_, rfl⟩
    · exact raw_range w y (h vs rfl y hy)
    · omega

theorem vecElems_eov (w : W) (k : Nat) : vecElems w (List.replicate k (w.min + 1)) = .ok [] := by
  induction k with
  | zero => rfl
  | succ k ih => simp only [List.replicate_succ, vecElems, classify_eov, ih]

theorem vecElems_raws (w : W) (vs : List (Option Int)) (k : Nat) (h : ∀ x ∈ vs, Fits w x) :
    vecElems w (vs.map (raw w) ++ List.replicate k (w.min + 1)) = .ok vs := by
  induction vs with
  | nil => simpa using vecElems_eov w k
  | cons x xs ih =>
    have ih' := ih (fun y hy => h y (List.mem_cons_of_mem _ hy))
    have hx := h x (by simp)
    cases x with
    | none =>
      simp only [List.map_cons, List.cons_append, vecElems, raw, Option.getD_none, classify_missing]
      rw [ih']
    | some v =>
      simp only [List.map_cons, List.cons_append, vecElems, raw, Option.getD_some,
        classify_value w v (hx v rfl).1]
      rw [ih']

theorem vecElems_rawsOf (w : W) (n : Nat) (s : Option (List (Option Int))) (h : FitsS w s) :
    vecElems w (rawsOf w n s) = .ok (match s with | none => [none] | some vs => vs) := by
  cases s with
  | none =>
    simp only [rawsOf, vecElems, classify_missing, vecElems_eov]
  | some vs => exact vecElems_raws w vs _ (h vs rfl)

theorem readSampleEager_other_int (w : W) (n : Nat) (hn : n ≠ 0) (bs : Bytes) :
    readSampleEager .other .integer (.int w, n) bs =
      (match decN (decS w) n bs with
       | .error e => .error e
       | .ok (raw, r) =>
         match vecElems w raw with
         | .error e => .error e
         | .ok vs => .ok (normVec SVal.ints vs, r)) := by
  cases n with
  | zero => exact absurd rfl hn
  | succ k => first | rfl | (cases k <;> rfl)

theorem readSampleLazy_other_int (w : W) (n : Nat) (hn : n ≠ 0) (bs : Bytes) :
    readSampleLazy .other .integer (.int w, n) bs =
      (match decN (decS w) n bs with
       | .error e => .error e
       | .ok (raw, r) =>
         match vecElems w raw with
         | .error e => .error e
         | .ok vs => .ok (some (SVal.ints vs), r)) := by
  cases n with
  | zero => exact absurd rfl hn
  | succ k => first | rfl | (cases k <;> rfl)

theorem sample_vec_read (w : W) (n : Nat) (hn : n ≠ 0) (s : Option (List (Option Int)))
    (h : FitsS w s ∧ lenOf s ≤ n) (r : Bytes) :
    readSampleEager .other .integer (.int w, n) (((rawsOf w n s).map (encS w)).flatten ++ r)
      = .ok (normS s, r) := by
  rw [readSampleEager_other_int w n hn]
  have hl := rawsOf_length w n s h.2
  have := decN_decS w (rawsOf w n s) (rawsOf_range w n s h.1) r
  rw [hl] at this
  rw [this]
  simp only [vecElems_rawsOf w n s h.1]
  cases s <;> rfl

theorem sample_vec_read_lazy (w : W) (n : Nat) (hn : n ≠ 0) (s : Option (List (Option Int)))
    (h : FitsS w s ∧ lenOf s ≤ n) (r : Bytes) :
    readSampleLazy .other .integer (.int w, n) (((rawsOf w n s).map (encS w)).flatten ++ r)
      = .ok (lazyS s, r) := by
  rw [readSampleLazy_other_int w n hn]
  have hl := rawsOf_length w n s h.2
  have := decN_decS w (rawsOf w n s) (rawsOf_range w n s h.1) r
  rw [hl] at this
  rw [this]
  simp only [vecElems_rawsOf w n s h.1]
  cases s <;> rfl

/-- the fold behind `maxLen` -/
def maxLenFrom {α : Type} (m : Nat) (col : List (Option (List α))) : Nat :=
  col.foldl (fun m s => max m (lenOf s)) m

theorem maxLen_eq {α : Type} (col : List (Option (List α))) : maxLen col = maxLenFrom 0 col := by
  unfold maxLen maxLenFrom
  congr
  funext m s
  cases s <;> rfl

theorem maxLenFrom_ge {α : Type} (m : Nat) (col : List (Option (List α))) :
    m ≤ maxLenFrom m col ∧ ∀ s ∈ col, lenOf s ≤ maxLenFrom m col := by
  induction col generalizing m with
  | nil => exact ⟨Nat.le_refl _, fun s hs => by cases hs⟩
  | cons c cs ih =>
    have := ih (max m (lenOf c))
    simp only [maxLenFrom, List.foldl_cons] at *
    refine ⟨by omega, ?_⟩
    intro s hs
    rcases List.mem_cons.mp hs with rfl | hs
    · omega
    · exact this.2 s hs

theorem lenOf_le_maxLen {α : Type} (col : List (Option (List α))) : ∀ s ∈ col, lenOf s ≤ maxLen col := by
  rw [maxLen_eq]
  exact (maxLenFrom_ge 0 col).2

theorem mem_flatVals (col : List (Option (List (Option Int)))) (vs : List (Option Int))
    (hs : some vs ∈ col) (x : Option Int) (hx : x ∈ vs) : x ∈ flatVals col := by
  unfold flatVals
  rw [List.mem_flatten]
  exact ⟨vs, List.mem_map.mpr ⟨some vs, hs, rfl⟩, hx⟩

theorem samples_ints_setup (col : List (Option (List (Option Int))))
    (hlen : maxLen col ≤ 2147483647)
    (hr : ∀ x ∈ flatVals col, ∀ v, x = some v → I32_MIN + 8 ≤ v ∧ v ≤ I32_MAX) :
    ∃ w d, writeIntArrayValues col = .ok (d ++ (col.map fun s => ((rawsOf w (maxLen col) s).map (encS w)).flatten).flatten)
      ∧ (∀ r, readType (d ++ r) = .ok (some (.int w, maxLen col), r))
      ∧ ∀ s ∈ col, FitsS w s ∧ lenOf s ≤ maxLen col := by
  obtain ⟨w, hw⟩ := selectWidth_some (scan (flatVals col)).1 (scan (flatVals col)).2 (scan_range _ hr).1
  have hfit := scan_fits (flatVals col) w hr hw
  have hfs : ∀ s ∈ col, FitsS w s := by
    intro s hs vs hvs x hx
    subst hvs
    exact hfit x (mem_flatVals col vs hs x hx)
  obtain ⟨d, hd1, _⟩ := readType_writeType (.int w) (maxLen col) hlen []
  have hd2 : ∀ r, readType (d ++ r) = .ok (some (.int w, maxLen col), r) := by
    intro r
    obtain ⟨d', hd', hr'⟩ := readType_writeType (.int w) (maxLen col) hlen r
    rw [hd1] at hd'; injection hd' with hd'; subst hd'; exact hr'
  have hm : mapM' (encVec w (maxLen col)) col
      = .ok (col.map fun s => ((rawsOf w (maxLen col) s).map (encS w)).flatten) :=
    mapM'_ok _ _ col (fun s hs => encVec_ok w _ s (hfs s hs))
  refine ⟨w, d, ?_, hd2, fun s hs => ⟨hfs s hs, lenOf_le_maxLen col s hs⟩⟩
  simp only [writeIntArrayValues, hw, hd1, hm]

theorem samples_ints_roundtrip (col : List (Option (List (Option Int))))
    (h1 : 1 ≤ maxLen col) (hlen : maxLen col ≤ 2147483647)
    (hr : ∀ x ∈ flatVals col, ∀ v, x = some v → I32_MIN + 8 ≤ v ∧ v ≤ I32_MAX) (rest : Bytes) :
    ∃ bs, writeIntArrayValues col = .ok bs ∧
      readColumnEager (.field .other .integer) col.length (bs ++ rest) = .ok (col.map normS, rest) ∧
      ∀ v44, readColumnLazy v44 (.field .other .integer) col.length (bs ++ rest) = .ok (col.map lazyS, rest) := by
  obtain ⟨w, d, hwr, hd2, hP⟩ := samples_ints_setup col hlen hr
  have hn : maxLen col ≠ 0 := by omega
  refine ⟨_, hwr, ?_, ?_⟩
  · unfold readColumnEager
    rw [List.append_assoc, hd2]
    exact decN_map' (fun s => ((rawsOf w (maxLen col) s).map (encS w)).flatten) _ normS
      (fun s => FitsS w s ∧ lenOf s ≤ maxLen col)
      (fun s hs r => sample_vec_read w _ hn s hs r) col hP rest
  · intro v44
    unfold readColumnLazy
    rw [List.append_assoc, hd2]
    exact decN_map' (fun s => ((rawsOf w (maxLen col) s).map (encS w)).flatten) _ lazyS
      (fun s => FitsS w s ∧ lenOf s ≤ maxLen col)
      (fun s hs r => sample_vec_read_lazy w _ hn s hs r) col hP rest

end Noodles.Bcf
