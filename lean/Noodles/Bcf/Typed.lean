import Noodles.Basic.Codec
/-!
# BCF typed values (model for C10)

Transcribed by hand from noodles-bcf:

* `record/codec/value/{int8,int16,int32,float}.rs` — the reserved codes of every width
  (`classify`, `classifyF`);
* `record/codec/encoder/value/ty.rs` `write_type`, `record/codec/decoder/value/ty.rs` `read_type`
  (and the lazy twin `record/value/ty.rs`) — the descriptor byte `len << 4 | type` with the
  overflow length stored as a typed integer (`writeType`, `readType`);
* `record/codec/decoder/value.rs` `read_value` / `record/value.rs` `read_value` (`readValue`);
* `record/codec/encoder/site/info/field/value.rs` — INFO integer / float scalars and arrays with the
  min/max scan that selects Int8/Int16/Int32 (`selectWidth`, `writeInfoInt`, `writeInfoInts`, …);
* `record/codec/decoder/info/field/value.rs` (eager) and `record/info/field/value.rs` +
  `record/value/array/values.rs` (lazy) — `resolveInts`, `resolveFloats`, …;
* `record/codec/encoder/samples/values.rs` — per-sample columns: scalars, ragged vectors padded with
  end-of-vector, genotypes `(allele + 1) << 1 | phased`;
* `record/codec/decoder/samples/values.rs` (eager), `record/samples/series.rs` +
  `record/samples/series/value/genotype.rs` (lazy).

Rust `i32` values are `Int`s (the theorems carry the range hypotheses), `f32` values are their
32-bit patterns (`Nat`), strings are byte lists (UTF-8 validation is not modelled; the
correspondence uses ASCII only).

The model describes the code **after** the `fix:` commits proposed with this property:
* F14 — `write_integer_array_values`: a missing sample counts as a vector of length 1 when the
  common vector length is computed (it is written as one `missing` value);
* `write_genotype_values`: end-of-vector padding is written once per sample, after its alleles
  (the code wrote it after *every* allele);
* INFO field with a missing value (`KEY=.`): written as the typed MISSING value `0x00`
  (the code ran into `todo!()`);
* `encode_genotype`: a missing allele keeps its phase bit (the code wrote `0` for `|.`);
* F13 — reserved codes met by the sample / INFO vector decoders are `invalid data`
  (the code ran into `todo!()`).
Panics that remain reachable in the code are modelled by `WErr.panic`.
-/
namespace Noodles.Bcf
open Noodles.Codec (Bytes le unle Dec decN)

abbrev RErr := Noodles.Codec.Err

/-- writer-side outcome classes (`io::ErrorKind`), plus `panic` for `todo!()` / overflow -/
inductive WErr | invalidInput | invalidData | panic
  deriving DecidableEq, Repr

/-! ## integer widths and their reserved codes -/

inductive W | w1 | w2 | w4
  deriving DecidableEq, Repr

def W.bytes : W → Nat | .w1 => 1 | .w2 => 2 | .w4 => 4
def W.modulus : W → Nat | .w1 => 256 | .w2 => 65536 | .w4 => 4294967296
/-- `iN::MIN` = the `missing` code -/
def W.min (w : W) : Int := -((w.modulus / 2 : Nat) : Int)
/-- `IntN::MIN_VALUE = iN::MIN + 8` -/
def W.minValue (w : W) : Int := w.min + 8
/-- `IntN::MAX_VALUE = iN::MAX` -/
def W.max (w : W) : Int := ((w.modulus / 2 : Nat) : Int) - 1
def W.code : W → Nat | .w1 => 1 | .w2 => 2 | .w4 => 3

/-- `iN::to_le_bytes` (two's complement) -/
def encS (w : W) (x : Int) : Bytes := le w.bytes (x % (w.modulus : Int)).toNat
def toS (w : W) (n : Nat) : Int := if n < w.modulus / 2 then (n : Int) else (n : Int) - (w.modulus : Int)
/-- `iN::from_le_bytes` -/
def decS (w : W) : Dec Int := fun bs =>
  match unle w.bytes bs with
  | .ok (n, r) => .ok (toS w n, r)
  | .error e => .error e

/-- `Int8` / `Int16` / `Int32` (`record/codec/value/int*.rs`) -/
inductive IntV | value (n : Int) | missing | eov | reserved (n : Int)
  deriving DecidableEq, Repr

/-- `impl From<iN> for IntN` -/
def classify (w : W) (v : Int) : IntV :=
  if v = w.min then .missing
  else if v = w.min + 1 then .eov
  else if v ≤ w.min + 7 then .reserved v
  else .value v

/-! ## floats (bit patterns) -/

def F_MISSING : Nat := 0x7f800001
def F_EOV : Nat := 0x7f800002

inductive FloatV | value (bits : Nat) | missing | eov | reserved (bits : Nat)
  deriving DecidableEq, Repr

/-- `impl From<f32> for Float` (`0x7fc00000` is mapped to `Value(f32::NAN)`, the same pattern) -/
def classifyF (bits : Nat) : FloatV :=
  if bits = F_MISSING then .missing
  else if bits = F_EOV then .eov
  else if 0x7f800003 ≤ bits ∧ bits ≤ 0x7f800007 then .reserved bits
  else .value bits

def encF (bits : Nat) : Bytes := le 4 bits
def decF : Dec Nat := unle 4

/-! ## the type descriptor -/

inductive Ty | int (w : W) | float | string
  deriving DecidableEq, Repr

def Ty.code : Ty → Nat | .int w => w.code | .float => 5 | .string => 7
def Ty.size : Ty → Nat | .int w => w.bytes | .float => 4 | .string => 1

/-- the typed integer that carries a length ≥ 15 (`write_type`, second half) -/
def lenValue (len : Nat) : Except WErr Bytes :=
  if len ≤ 127 then .ok (0x11 :: encS .w1 len)
  else if len ≤ 32767 then .ok (0x12 :: encS .w2 len)
  else if len ≤ 2147483647 then .ok (0x13 :: encS .w4 len)
  else .error .invalidInput

/-- `write_type`; `none` is the typed MISSING descriptor -/
def writeType : Option (Ty × Nat) → Except WErr Bytes
  | none => .ok [0x00]
  | some (ty, len) =>
    let head := UInt8.ofNat (min len 15 * 16 + ty.code)
    if 15 ≤ len then
      match lenValue len with
      | .ok bs => .ok (head :: bs)
      | .error e => .error e
    else .ok [head]

/-- the scalar read by `read_value` for an overflow length, through `as_int` and
`usize::try_from`: only an Int8/Int16/Int32 *scalar* holding a non-negative, non-reserved value is
a length. Every other typed value ends in an error in the code as well (its own parse fails, or
`as_int` is `None`), so the single `invalid` arm is faithful up to the error class. -/
def readLen : Dec Nat
  | [] => .error .eof
  | b :: r =>
    let scalar (w : W) : Except RErr (Nat × Bytes) :=
      match decS w r with
      | .error e => .error e
      | .ok (v, r') =>
        match classify w v with
        | .value n => if 0 ≤ n then .ok (n.toNat, r') else .error .invalid
        | _ => .error .invalid
    if b = 0x11 then scalar .w1
    else if b = 0x12 then scalar .w2
    else if b = 0x13 then scalar .w4
    else .error .invalid

/-- `read_type` -/
def readType : Dec (Option (Ty × Nat))
  | [] => .error .eof
  | b :: r =>
    let l := b.toNat / 16
    let c := b.toNat % 16
    match (if l = 15 then readLen r else .ok (l, r)) with
    | .error e => .error e
    | .ok (len, r') =>
      if c = 0 then .ok (none, r')
      else if c = 1 then .ok (some (.int .w1, len), r')
      else if c = 2 then .ok (some (.int .w2, len), r')
      else if c = 3 then .ok (some (.int .w4, len), r')
      else if c = 5 then .ok (some (.float, len), r')
      else if c = 7 then .ok (some (.string, len), r')
      else .error .invalid

/-- `split_to` / `read_string` -/
def takeN (n : Nat) : Dec Bytes := fun bs =>
  if n ≤ bs.length then .ok (bs.take n, bs.drop n) else .error .eof

/-- `codec::Value` / lazy `record::Value` -/
inductive TV
  | none
  | int (w : W) (v : Option IntV)
  | ints (w : W) (raw : List Int)
  | float (v : Option FloatV)
  | floats (raw : List Nat)
  | str (s : Option Bytes)
  deriving Repr

/-- `read_value` -/
def readValue : Dec TV := fun bs =>
  match readType bs with
  | .error e => .error e
  | .ok (none, r) => .ok (.none, r)
  | .ok (some (.int w, n), r) =>
    if n = 0 then .ok (.int w none, r)
    else if n = 1 then
      match decS w r with
      | .ok (v, r') => .ok (.int w (some (classify w v)), r')
      | .error e => .error e
    else
      match decN (decS w) n r with
      | .ok (vs, r') => .ok (.ints w vs, r')
      | .error e => .error e
  | .ok (some (.float, n), r) =>
    if n = 0 then .ok (.float none, r)
    else if n = 1 then
      match decF r with
      | .ok (v, r') => .ok (.float (some (classifyF v)), r')
      | .error e => .error e
    else
      match decN decF n r with
      | .ok (vs, r') => .ok (.floats vs, r')
      | .error e => .error e
  | .ok (some (.string, n), r) =>
    if n = 0 then .ok (.str none, r)
    else
      match takeN n r with
      | .ok (s, r') => .ok (.str (some s), r')
      | .error e => .error e

/-! ## width selection (`write_integer_value`, `write_integer_array_value`, `write_integer_values`,
`write_integer_array_values` all use the same cascade) -/

def I32_MAX : Int := 2147483647
def I32_MIN : Int := -2147483648

/-- the `if min >= … { if max <= … }` cascade; `none` = `InvalidInput` -/
def selectWidth (mn mx : Int) : Option W :=
  if W.minValue .w1 ≤ mn then
    if mx ≤ W.max .w1 then some .w1
    else if mx ≤ W.max .w2 then some .w2
    else some .w4
  else if W.minValue .w2 ≤ mn then
    if mx ≤ W.max .w2 then some .w2 else some .w4
  else if W.minValue .w4 ≤ mn then some .w4
  else none

/-- `(min, max)` over the values, a missing entry counting as `0` (`unwrap_or_default`) -/
def scan (xs : List (Option Int)) : Int × Int :=
  xs.foldl (fun (p : Int × Int) x => (min p.1 (x.getD 0), max p.2 (x.getD 0))) (I32_MAX, I32_MIN)

/-- one array element at width `w`: `iN::try_from` (error), then the reserved-code check
(`todo!()` in the INFO writer), a missing entry is the `missing` code -/
def encElem (w : W) : Option Int → Except WErr Bytes
  | none => .ok (encS w w.min)
  | some n =>
    if w.min ≤ n ∧ n ≤ w.max then
      match classify w n with
      | .value _ => .ok (encS w n)
      | .missing => .ok (encS w n)
      | _ => .error .panic
    else .error .invalidInput

def mapM' {α β ε : Type} (f : α → Except ε β) : List α → Except ε (List β)
  | [] => .ok []
  | a :: as =>
    match f a with
    | .error e => .error e
    | .ok b =>
      match mapM' f as with
      | .error e => .error e
      | .ok bs => .ok (b :: bs)

/-! ## INFO values (`encoder/site/info/field/value.rs`) -/

/-- `write_integer_value` -/
def writeInfoInt (n : Int) : Except WErr Bytes :=
  match selectWidth n n with
  | some w => .ok (UInt8.ofNat (16 + w.code) :: encS w n)
  | none => .error .invalidInput

/-- `write_integer_array_value` -/
def writeInfoInts (xs : List (Option Int)) : Except WErr Bytes :=
  if xs.isEmpty then .error .invalidInput
  else
    match selectWidth (scan xs).1 (scan xs).2 with
    | none => .error .invalidInput
    | some w =>
      match mapM' (encElem w) xs, writeType (some (.int w, xs.length)) with
      | .ok bss, .ok d => .ok (d ++ bss.flatten)
      | .error e, _ => .error e
      | _, .error e => .error e

/-- `write_float_value`: the raw bits are written (`Float::Value(n)`) -/
def writeInfoFloat (bits : Nat) : Except WErr Bytes := .ok (0x15 :: encF bits)

/-- one float array element: `Float::from(n)`; reserved patterns hit `todo!()` -/
def encElemF : Option Nat → Except WErr Bytes
  | none => .ok (encF F_MISSING)
  | some b =>
    match classifyF b with
    | .value _ => .ok (encF b)
    | .missing => .ok (encF b)
    | _ => .error .panic

/-- `write_float_array_value` -/
def writeInfoFloats (xs : List (Option Nat)) : Except WErr Bytes :=
  match mapM' encElemF xs, writeType (some (.float, xs.length)) with
  | .ok bss, .ok d => .ok (d ++ bss.flatten)
  | .error e, _ => .error e
  | _, .error e => .error e

/-- `write_value(Some(Value::String(Some(s))))` -/
def writeString (s : Bytes) : Except WErr Bytes :=
  match writeType (some (.string, s.length)) with
  | .ok d => .ok (d ++ s)
  | .error e => .error e

def COMMA : UInt8 := 0x2c
def DOT : UInt8 := 0x2e
def NUL : UInt8 := 0x00

/-- join with `,`, a missing entry is `.` (`write_string_array_value` and the FORMAT twins) -/
def joinStrs : List (Option Bytes) → Bytes
  | [] => []
  | [x] => x.getD [DOT]
  | x :: xs => x.getD [DOT] ++ COMMA :: joinStrs xs

/-- `s.split(',')` -/
def splitComma (s : Bytes) : List Bytes :=
  let r := s.foldr (fun b (acc : Bytes × List Bytes) =>
    if b = COMMA then ([], acc.1 :: acc.2) else (b :: acc.1, acc.2)) ([], [])
  r.1 :: r.2

/-- the value of an INFO field as held by `RecordBuf` / produced by the readers -/
inductive InfoVal
  | int (n : Int)
  | float (bits : Nat)
  | flag
  | char (c : UInt8)
  | str (s : Bytes)
  | ints (xs : List (Option Int))
  | floats (xs : List (Option Nat))
  | chars (xs : List (Option UInt8))
  | strs (xs : List (Option Bytes))
  deriving Repr

/-- `write_value` of an INFO field; a missing value (`KEY=.`) is the typed MISSING value
(proposed fix; the code hits `todo!()`). -/
def writeInfoVal : Option InfoVal → Except WErr Bytes
  | none => .ok [0x00]
  | some (.int n) => writeInfoInt n
  | some (.float b) => writeInfoFloat b
  | some .flag => .ok [0x00]
  | some (.char c) => writeString [c]
  | some (.str s) => writeString s
  | some (.ints xs) => writeInfoInts xs
  | some (.floats xs) => writeInfoFloats xs
  | some (.chars xs) => writeString (joinStrs (xs.map (·.map fun c => [c])))
  | some (.strs xs) => writeString (joinStrs xs)

/-- header `Number`, as far as the codec looks at it -/
inductive Num | zero | one | other
  deriving DecidableEq, Repr
/-- header `Type` (INFO: all five; FORMAT: no flag) -/
inductive HTy | integer | float | flag | character | string
  deriving DecidableEq, Repr

/-- array element of the integer vector readers: `Value → Some`, `Missing → None`, anything else
is invalid (eager code: `todo!()`, F13; lazy code: `InvalidData`) -/
def elemOfInt (w : W) (v : Int) : Except RErr (Option Int) :=
  match classify w v with
  | .value n => .ok (some n)
  | .missing => .ok none
  | _ => .error .invalid

def elemOfFloat (b : Nat) : Except RErr (Option Nat) :=
  match classifyF b with
  | .value n => .ok (some n)
  | .missing => .ok none
  | _ => .error .invalid

/-- `resolve_integer_value` / lazy `read_integer_value` -/
def resolveInt : TV → Except RErr (Option InfoVal)
  | .none => .ok none
  | .int _ none => .ok none
  | .int _ (some .missing) => .ok none
  | .int _ (some (.value n)) => .ok (some (.int n))
  | _ => .error .invalid

/-- `resolve_integer_array_value` / lazy `read_integer_array_value` -/
def resolveInts : TV → Except RErr (Option InfoVal)
  | .none => .ok none
  | .int _ none => .ok none
  | .int _ (some .missing) => .ok none
  | .int _ (some (.value n)) => .ok (some (.ints [some n]))
  | .ints w raw =>
    match mapM' (elemOfInt w) raw with
    | .ok xs => .ok (some (.ints xs))
    | .error e => .error e
  | _ => .error .invalid

def resolveFlag : TV → Except RErr (Option InfoVal)
  | .none => .ok (some .flag)
  | .int .w1 (some (.value 1)) => .ok (some .flag)
  | _ => .error .invalid

def resolveFloat : TV → Except RErr (Option InfoVal)
  | .none => .ok none
  | .float none => .ok none
  | .float (some .missing) => .ok none
  | .float (some (.value b)) => .ok (some (.float b))
  | _ => .error .invalid

def resolveFloats : TV → Except RErr (Option InfoVal)
  | .none => .ok none
  | .float none => .ok none
  | .float (some .missing) => .ok none
  | .float (some (.value b)) => .ok (some (.floats [some b]))
  | .floats raw =>
    match mapM' elemOfFloat raw with
    | .ok xs => .ok (some (.floats xs))
    | .error e => .error e
  | _ => .error .invalid

/-- `resolve_character_value` (ASCII: one byte = one char) -/
def resolveChar : TV → Except RErr (Option InfoVal)
  | .none => .ok none
  | .str none => .ok none
  | .str (some [c]) => .ok (some (.char c))
  | _ => .error .invalid

/-- eager `resolve_character_array_value`: `s.split(',').flat_map(chars)`, `.` is missing -/
def resolveCharsEager : TV → Except RErr (Option InfoVal)
  | .none => .ok none
  | .str none => .ok none
  | .str (some s) =>
    .ok (some (.chars ((splitComma s).flatten.map fun c => if c = DOT then none else some c)))
  | _ => .error .invalid

/-- lazy `read_character_array_value` + `impl Values<char> for &str`: every `,`-separated item
must be `.` or exactly one character -/
def resolveCharsLazy : TV → Except RErr (Option InfoVal)
  | .none => .ok none
  | .str none => .ok none
  | .str (some s) =>
    match mapM' (fun (t : Bytes) => match t with
        | [c] => if c = DOT then .ok none else .ok (some c)
        | _ => .error Noodles.Codec.Err.invalid) (splitComma s) with
    | .ok xs => .ok (some (.chars xs))
    | .error e => .error e
  | _ => .error .invalid

def resolveStr : TV → Except RErr (Option InfoVal)
  | .none => .ok none
  | .str none => .ok none
  | .str (some s) => .ok (some (.str s))
  | _ => .error .invalid

/-- `resolve_string_array_value` (percent-decoding of the lazy path is not modelled: the
correspondence uses `%`-free strings) -/
def resolveStrs : TV → Except RErr (Option InfoVal)
  | .none => .ok none
  | .str none => .ok none
  | .str (some s) =>
    .ok (some (.strs ((splitComma s).map fun t => if t = [DOT] then none else some t)))
  | _ => .error .invalid

/-- `read_value(src, number, ty)` of an INFO field; `lazy` selects the `bcf::Record` accessors -/
def resolveInfo (lazy : Bool) (num : Num) (ty : HTy) (v : TV) : Except RErr (Option InfoVal) :=
  match num, ty with
  | .zero, .integer => .error .invalid
  | .one, .integer => resolveInt v
  | _, .integer => resolveInts v
  | .zero, .flag => resolveFlag v
  | _, .flag => .error .invalid
  | .zero, .float => .error .invalid
  | .one, .float => resolveFloat v
  | _, .float => resolveFloats v
  | .zero, .character => .error .invalid
  | .one, .character => resolveChar v
  | _, .character => if lazy then resolveCharsLazy v else resolveCharsEager v
  | .zero, .string => .error .invalid
  | .one, .string => resolveStr v
  | _, .string => resolveStrs v

/-- the INFO field reader: typed value, then resolution against the header definition -/
def readInfoVal (lazy : Bool) (num : Num) (ty : HTy) : Dec (Option InfoVal) := fun bs =>
  match readValue bs with
  | .error e => .error e
  | .ok (v, r) =>
    match resolveInfo lazy num ty v with
    | .ok x => .ok (x, r)
    | .error e => .error e

/-! ## per-sample columns (`encoder/samples/values.rs`) -/

/-- `write_int8_values` … for a `Number=1` integer column: one value per sample -/
def encScalar (w : W) : Option Int → Except WErr Bytes
  | none => .ok (encS w w.min)
  | some n => if w.min ≤ n ∧ n ≤ w.max then .ok (encS w n) else .error .invalidInput

/-- `write_integer_values` -/
def writeIntValues (col : List (Option Int)) : Except WErr Bytes :=
  match selectWidth (scan col).1 (scan col).2 with
  | none => .error .invalidInput
  | some w =>
    match mapM' (encScalar w) col with
    | .ok bss => .ok (UInt8.ofNat (16 + w.code) :: bss.flatten)
    | .error e => .error e

/-- all the values of a vector column, for the min/max scan -/
def flatVals (col : List (Option (List (Option Int)))) : List (Option Int) :=
  (col.map fun s => s.getD []).flatten

/-- common vector length. A missing sample is written as the one-element vector `[missing]`
and counts as length 1 (proposed fix for F14; the code skipped missing samples here, so a column
in which every sample is missing got the descriptor length 0 followed by one byte per sample). -/
def maxLen {α : Type} (col : List (Option (List α))) : Nat :=
  col.foldl (fun m s => max m (match s with | some vs => vs.length | none => 1)) 0

/-- one sample of a vector column: its values, then end-of-vector up to the common length -/
def encVec (w : W) (n : Nat) : Option (List (Option Int)) → Except WErr Bytes
  | none => .ok (encS w w.min ++ (List.replicate (n - 1) (encS w (w.min + 1))).flatten)
  | some vs =>
    match mapM' (encScalar w) vs with
    | .ok bss => .ok (bss.flatten ++ (List.replicate (n - vs.length) (encS w (w.min + 1))).flatten)
    | .error e => .error e

/-- `write_integer_array_values` -/
def writeIntArrayValues (col : List (Option (List (Option Int)))) : Except WErr Bytes :=
  match selectWidth (scan (flatVals col)).1 (scan (flatVals col)).2 with
  | none => .error .invalidInput
  | some w =>
    match writeType (some (.int w, maxLen col)), mapM' (encVec w (maxLen col)) col with
    | .ok d, .ok bss => .ok (d ++ bss.flatten)
    | .error e, _ => .error e
    | _, .error e => .error e

/-- `write_float_values`: raw bits, a missing sample is the `missing` pattern -/
def writeFloatValues (col : List (Option Nat)) : Except WErr Bytes :=
  .ok (0x15 :: (col.map fun x => encF (x.getD F_MISSING)).flatten)

/-- `max()` over the samples that hold a vector (`write_float_array_values`: a missing sample
does not count, and a column without any vector is refused) -/
def maxLenSome {α : Type} (col : List (Option (List α))) : Option Nat :=
  col.foldl (fun m s => match s with
    | some vs => some (match m with | some k => max k vs.length | none => vs.length)
    | none => m) none

def encVecF (n : Nat) : Option (List (Option Nat)) → Bytes
  | none => encF F_MISSING ++ (List.replicate (n - 1) (encF F_EOV)).flatten
  | some vs => (vs.map fun x => encF (x.getD F_MISSING)).flatten
      ++ (List.replicate (n - vs.length) (encF F_EOV)).flatten

/-- `write_float_array_values` -/
def writeFloatArrayValues (col : List (Option (List (Option Nat)))) : Except WErr Bytes :=
  match maxLenSome col with
  | none => .error .invalidInput
  | some n =>
    match writeType (some (.float, n)) with
    | .ok d => .ok (d ++ (col.map (encVecF n)).flatten)
    | .error e => .error e

/-- `write_string_values` (also reached by the character and the array columns after they have
been serialised): NUL padding to the longest value, a missing sample is `.` -/
def writeStringValues (col : List (Option Bytes)) : Except WErr Bytes :=
  match maxLenSome (col.map fun s => s.map fun b => b) with
  | none => .error .invalidInput
  | some n =>
    match writeType (some (.string, n)) with
    | .ok d => .ok (d ++ (col.map fun s =>
        let t := s.getD [DOT]
        t ++ List.replicate (n - t.length) NUL).flatten)
    | .error e => .error e

/-- `write_string_array_values`: a missing sample is serialised as `.` *before* the maximum is
taken (so an all-missing column is accepted, unlike `write_string_values`) -/
def writeStringArrayValues (col : List (Option (List (Option Bytes)))) : Except WErr Bytes :=
  if col.isEmpty then .error .invalidInput
  else writeStringValues (col.map fun s => some (match s with | some vs => joinStrs vs | none => [DOT]))

/-! ### genotypes -/

/-- an allele: position (`None` = `.`) and phasing -/
abbrev Allele := Option Nat × Bool

/-- `encode_genotype::encode`: a missing allele is `0 | phased`; `i8::try_from(position)` and
`i.checked_add(1)` (`InvalidData` for a position ≥ 127; fix: `127 + 1` used to overflow), then
`(i + 1) << 1 | phased` computed in `i8`: for positions 63..126 the shift goes negative, which is
only noticed later, when `write_genotype_values` converts each value with `u8::try_from`
(`InvalidInput`) — `none` stands for such a negative value -/
def encAllele : Allele → Except WErr (Option UInt8)
  | (none, ph) => .ok (some (if ph then 1 else 0))
  | (some p, ph) =>
    if 127 ≤ p then .error .invalidData
    else if 63 ≤ p then .ok none
    else .ok (some (UInt8.ofNat ((p + 1) * 2 + (if ph then 1 else 0))))

def EOV8 : UInt8 := 0x81

/-- `write_genotype_values`, first loop: every sample's genotype is encoded (a sample without a
genotype value is refused) -/
def encGenotype : Option (List Allele) → Except WErr (List (Option UInt8))
  | none => .error .invalidInput
  | some g => mapM' encAllele g

/-- second loop: the values are written; a negative one is `InvalidInput` -/
def outGenotype (r : List (Option UInt8)) : Except WErr (List UInt8) :=
  mapM' (fun x => match x with | some b => .ok b | none => .error WErr.invalidInput) r

def writeGenotypeValues (col : List (Option (List Allele))) : Except WErr Bytes :=
  match mapM' encGenotype col with
  | .error e => .error e
  | .ok raws =>
    let n := raws.foldl (fun m r => max m r.length) 0
    match writeType (some (.int .w1, n)) with
    | .error e => .error e
    | .ok d =>
      match mapM' outGenotype raws with
      | .error e => .error e
      | .ok outs => .ok (d ++ (outs.map fun r => r ++ List.replicate (n - r.length) EOV8).flatten)

/-! ## per-sample columns, readers -/

/-- the value of one sample for one FORMAT key -/
inductive SVal
  | int (n : Int)
  | float (bits : Nat)
  | char (c : UInt8)
  | str (s : Bytes)
  | ints (xs : List (Option Int))
  | floats (xs : List (Option Nat))
  | chars (xs : List (Option UInt8))
  | strs (xs : List (Option Bytes))
  | gt (g : List Allele)
  deriving Repr

/-- eager vector element: `Value → Some(Some)`, `Missing → Some(None)`, `EndOfVector` dropped,
reserved invalid (F13) -/
def vecElems (w : W) : List Int → Except RErr (List (Option Int))
  | [] => .ok []
  | v :: vs =>
    match classify w v, vecElems w vs with
    | _, .error e => .error e
    | .value n, .ok r => .ok (some n :: r)
    | .missing, .ok r => .ok (none :: r)
    | .eov, .ok r => .ok r
    | .reserved _, .ok _ => .error .invalid

def vecElemsF : List Nat → Except RErr (List (Option Nat))
  | [] => .ok []
  | v :: vs =>
    match classifyF v, vecElemsF vs with
    | _, .error e => .error e
    | .value n, .ok r => .ok (some n :: r)
    | .missing, .ok r => .ok (none :: r)
    | .eov, .ok r => .ok r
    | .reserved _, .ok _ => .error .invalid

/-- eager normal form: a vector that is exactly `[missing]` is a missing sample value -/
def normVec {α : Type} (mk : List (Option α) → SVal) (vs : List (Option α)) : Option SVal :=
  match vs with
  | [none] => none
  | _ => some (mk vs)

/-- `read_string_until_nul` -/
def untilNul (s : Bytes) : Bytes := s.takeWhile (· ≠ NUL)

/-- `parse_genotype_values` (eager): stop at end-of-vector; `j = (v >> 1) - 1` in `i8` -/
def parseGenotype : List Int → Except RErr (List Allele)
  | [] => .ok []
  | v :: vs =>
    if v = -127 then .ok []
    else
      let j := v / 2 - 1
      if j < -1 then .error .invalid
      else
        match parseGenotype vs with
        | .error e => .error e
        | .ok r => .ok ((if j = -1 then none else some j.toNat, decide (v % 2 = 1)) :: r)

/-- how a column is read: the header definition, or the GT column -/
inductive ColKind
  | gt
  | field (num : Num) (ty : HTy)
  deriving Repr

/-- one sample of a non-GT column, eager (`read_values` after the descriptor) -/
def readSampleEager (num : Num) (ty : HTy) (d : Ty × Nat) : Dec (Option SVal) := fun bs =>
  match num, ty, d with
  | .zero, _, _ => .error .invalid
  | _, .flag, _ => .error .invalid
  | _, _, (.int _, 0) => .error .invalid
  | _, _, (.float, 0) => .error .invalid
  | .one, .integer, (.int w, 1) =>
    match decS w bs with
    | .error e => .error e
    | .ok (v, r) =>
      match classify w v with
      | .value n => .ok (some (.int n), r)
      | .missing => .ok (none, r)
      | _ => .error .invalid
  | .one, .float, (.float, 1) =>
    match decF bs with
    | .error e => .error e
    | .ok (v, r) =>
      match classifyF v with
      | .value n => .ok (some (.float n), r)
      | .missing => .ok (none, r)
      | _ => .error .invalid
  | .one, .character, (.string, n) =>
    match takeN n bs with
    | .error e => .error e
    | .ok (s, r) =>
      match untilNul s with
      | [] => .error .invalid
      | c :: _ => .ok (if c = DOT then none else some (.char c), r)
  | .one, .string, (.string, n) =>
    match takeN n bs with
    | .error e => .error e
    | .ok (s, r) => .ok (if untilNul s = [DOT] then none else some (.str (untilNul s)), r)
  | _, .integer, (.int w, n) =>
    match decN (decS w) n bs with
    | .error e => .error e
    | .ok (raw, r) =>
      match vecElems w raw with
      | .error e => .error e
      | .ok vs => .ok (normVec .ints vs, r)
  | _, .float, (.float, n) =>
    match decN decF n bs with
    | .error e => .error e
    | .ok (raw, r) =>
      match vecElemsF raw with
      | .error e => .error e
      | .ok vs => .ok (normVec .floats vs, r)
  | _, .character, (.string, n) =>
    match takeN n bs with
    | .error e => .error e
    | .ok (s, r) =>
      match mapM' (fun (t : Bytes) => match t with
          | [] => .error Noodles.Codec.Err.invalid
          | c :: _ => .ok (if c = DOT then none else some c)) (splitComma (untilNul s)) with
      | .error e => .error e
      | .ok cs => .ok (some (.chars cs), r)
  | _, .string, (.string, n) =>
    match takeN n bs with
    | .error e => .error e
    | .ok (s, r) =>
      let t := untilNul s
      .ok (if t = [DOT] then none
           else some (.strs ((splitComma t).map fun u => if u = [DOT] then none else some u)), r)
  | _, _, _ => .error .invalid

/-- lazy vector element iterator (`impl samples::…::Values for Values<iN>`): end-of-vector is
skipped, reserved is `InvalidData` -/
def vecElemsLazy := vecElems

/-- one sample of a non-GT column, lazy (`Series::get`); the sample's slice is `n` items -/
def readSampleLazy (num : Num) (ty : HTy) (d : Ty × Nat) : Dec (Option SVal) := fun bs =>
  match num, ty, d with
  | .zero, _, _ => .error .invalid
  | _, .flag, _ => .error .invalid
  | _, _, (.int _, 0) => .error .invalid
  | _, _, (.float, 0) => .error .invalid
  | .one, .integer, (.int w, n) =>
    -- `get_i8_value`: the first item of the sample's slice
    match decN (decS w) n bs with
    | .error e => .error e
    | .ok (raw, r) =>
      match raw with
      | [] => .error .invalid
      | v :: _ =>
        match classify w v with
        | .value k => .ok (some (.int k), r)
        | .missing => .ok (none, r)
        | _ => .error .invalid
  | .one, .float, (.float, n) =>
    match decN decF n bs with
    | .error e => .error e
    | .ok (raw, r) =>
      match raw with
      | [v] =>
        match classifyF v with
        | .value k => .ok (some (.float k), r)
        | .missing => .ok (none, r)
        | _ => .error .invalid
      | _ => .error .invalid
  | .one, .character, (.string, n) =>
    match takeN n bs with
    | .error e => .error e
    | .ok (s, r) =>
      match untilNul s with
      | [] => .error .invalid
      | c :: _ => .ok (if c = DOT then none else some (.char c), r)
  | .one, .string, (.string, n) =>
    match takeN n bs with
    | .error e => .error e
    | .ok (s, r) => .ok (if untilNul s = [DOT] then none else some (.str (untilNul s)), r)
  | _, .integer, (.int w, n) =>
    match decN (decS w) n bs with
    | .error e => .error e
    | .ok (raw, r) =>
      match vecElemsLazy w raw with
      | .error e => .error e
      | .ok vs => .ok (some (.ints vs), r)
  | _, .float, (.float, n) =>
    match decN decF n bs with
    | .error e => .error e
    | .ok (raw, r) =>
      match vecElemsF raw with
      | .error e => .error e
      | .ok vs => .ok (some (.floats vs), r)
  | _, .character, (.string, n) =>
    match takeN n bs with
    | .error e => .error e
    | .ok (s, r) =>
      if untilNul s = [] then .ok (some (.chars []), r)
      else
        match mapM' (fun (t : Bytes) => match t with
            | [c] => if c = DOT then .ok none else .ok (some c)
            | _ => .error Noodles.Codec.Err.invalid) (splitComma (untilNul s)) with
        | .error e => .error e
        | .ok cs => .ok (some (.chars cs), r)
  | _, .string, (.string, n) =>
    match takeN n bs with
    | .error e => .error e
    | .ok (s, r) =>
      let t := untilNul s
      .ok (some (.strs (if t = [] then []
            else (splitComma t).map fun u => if u = [DOT] then none else some u)), r)
  | _, _, _ => .error .invalid

/-- the byte is a `Value` (not missing / end-of-vector / reserved) -/
def isValue8 (v : Int) : Bool :=
  match classify .w1 v with
  | .value _ => true
  | _ => false

/-- `allele_position` / `allele_phasing` on the unsigned byte -/
def alleleOfByte (v : Int) : Allele :=
  ((if (v % 256).toNat / 2 = 0 then none else some ((v % 256).toNat / 2 - 1)),
    decide ((v % 256).toNat % 2 = 1))

/-- `first_allele_phasing`: explicit from VCF 4.4 on, inferred before (phased iff every following
allele is phased) -/
def fixFirst (v44 : Bool) : List Allele → List Allele
  | [] => []
  | (p, ph) :: rest => (p, if v44 then ph else rest.all (·.2)) :: rest

/-- lazy `Genotype::iter`: alleles while the byte is a `Value`; position from the unsigned byte;
the first allele's phasing by `fixFirst` -/
def lazyGenotype (v44 : Bool) (raw : List Int) : List Allele :=
  fixFirst v44 ((raw.takeWhile isValue8).map alleleOfByte)

/-- one sample of the GT column, eager -/
def readGtEager (n : Nat) : Dec (Option SVal) := fun bs =>
  match decN (decS .w1) n bs with
  | .error e => .error e
  | .ok (raw, r') =>
    match parseGenotype raw with
    | .error e => .error e
    | .ok g => .ok (some (SVal.gt g), r')

/-- one sample of the GT column, lazy -/
def readGtLazy (v44 : Bool) (n : Nat) : Dec (Option SVal) := fun bs =>
  match decN (decS .w1) n bs with
  | .error e => .error e
  | .ok (raw, r') =>
    if n = 0 then .error .invalid else .ok (some (SVal.gt (lazyGenotype v44 raw)), r')

/-- a whole column after its key: descriptor, then one item per sample.
`read_genotype_values` (eager) accepts Int8 only and, for length 0, yields a single missing
value; `read_values` needs a descriptor; the lazy `Series` slices `size_of(ty) * n_sample`. -/
def readColumnEager (kind : ColKind) (nSample : Nat) : Dec (List (Option SVal)) := fun bs =>
  match readType bs with
  | .error e => .error e
  | .ok (none, _) => .error .invalid
  | .ok (some d, r) =>
    match kind with
    | .gt =>
      match d with
      | (.int .w1, n) => if n = 0 then .ok ([none], r) else decN (readGtEager n) nSample r
      | _ => .error .invalid
    | .field num ty => decN (readSampleEager num ty d) nSample r

def readColumnLazy (v44 : Bool) (kind : ColKind) (nSample : Nat) : Dec (List (Option SVal)) := fun bs =>
  match readType bs with
  | .error e => .error e
  | .ok (none, _) => .error .invalid
  | .ok (some d, r) =>
    match kind with
    | .gt =>
      match d with
      | (.int .w1, n) => decN (readGtLazy v44 n) nSample r
      | _ => .error .invalid
    | .field num ty => decN (readSampleLazy num ty d) nSample r

end Noodles.Bcf
