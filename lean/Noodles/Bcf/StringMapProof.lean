import Noodles.Bcf.StringMap

/-!
# C10: a dictionary built from non-clashing header entries is a bijection

`Consistent m`: names (`getIndexOf`) and occupied slots (`getIndex`) are in bijection.
`NoClash m es`: feeding `es` one by one, an explicit `IDX=i` for a new name always finds slot `i` free.

Main results: `insert_consistent`, `build_consistent`, and two input-level sufficient conditions
for `NoClash` (`noClash_of_implicit`, `noClash_of_injective`).
-/
namespace Noodles.Bcf.StringMap

/-- names and occupied slots are in bijection -/
def Consistent (m : StringMap) : Prop :=
  (∀ s i, m.getIndexOf s = some i → m.getIndex i = some s) ∧
  (∀ i s, m.getIndex i = some s → m.getIndexOf s = some i)

/-- "no clash": processing the entries one by one, an entry with an explicit index `i` for a name
that is not yet in the map finds slot `i` unoccupied -/
def NoClash : StringMap → List (String × Option Nat) → Prop
  | _, [] => True
  | m, (id, idx) :: rest =>
    (∀ i, idx = some i → m.getIndexOf id = none → m.getIndex i = none) ∧
    (∀ m', m.insert id idx = some m' → NoClash m' rest)

/-! ## slots of a `Vec<Option<String>>` -/

/-- the occupied-slot view of the vector (`getIndex` is `slot` of the entries) -/
def slot (l : List (Option String)) (i : Nat) : Option String :=
  match l[i]? with
  | some (some s) => some s
  | _ => none

theorem getIndex_eq_slot (m : StringMap) (i : Nat) : m.getIndex i = slot m.entries i := rfl

theorem slot_eq_some_iff (l : List (Option String)) (i : Nat) (s : String) :
    slot l i = some s ↔ l[i]? = some (some s) := by
  unfold slot
  split <;> simp_all

theorem getIndex_eq_some_iff (m : StringMap) (i : Nat) (s : String) :
    m.getIndex i = some s ↔ m.entries[i]? = some (some s) :=
  slot_eq_some_iff m.entries i s

theorem slot_congr {l l' : List (Option String)} {i j : Nat} (h : l[i]? = l'[j]?) :
    slot l i = slot l' j := by
  unfold slot; rw [h]

theorem slot_of_none {l : List (Option String)} {i : Nat} (h : l[i]? = none) : slot l i = none := by
  unfold slot; rw [h]

theorem slot_of_some_none {l : List (Option String)} {i : Nat} (h : l[i]? = some none) :
    slot l i = none := by
  unfold slot; rw [h]

theorem slot_of_some_some {l : List (Option String)} {i : Nat} {s : String}
    (h : l[i]? = some (some s)) : slot l i = some s := by
  unfold slot; rw [h]

theorem slot_of_length_le {l : List (Option String)} {i : Nat} (h : l.length ≤ i) :
    slot l i = none :=
  slot_of_none (List.getElem?_eq_none h)

/-- the vector after `insert_at` has grown it -/
def grow (l : List (Option String)) (i : Nat) : List (Option String) :=
  if l.length ≤ i then l ++ List.replicate (i + 1 - l.length) none else l

theorem lt_length_grow (l : List (Option String)) (i : Nat) : i < (grow l i).length := by
  unfold grow
  by_cases h : l.length ≤ i
  · rw [if_pos h, List.length_append, List.length_replicate]; omega
  · rw [if_neg h]; omega

theorem slot_grow (l : List (Option String)) (i k : Nat) : slot (grow l i) k = slot l k := by
  unfold grow
  by_cases h : l.length ≤ i
  · rw [if_pos h]
    by_cases hk : k < l.length
    · exact slot_congr (List.getElem?_append_left hk)
    · have hk' : l.length ≤ k := Nat.le_of_not_lt hk
      rw [slot_of_length_le hk']
      have e : (l ++ List.replicate (i + 1 - l.length) none)[k]? =
          if k - l.length < i + 1 - l.length then some none else none := by
        rw [List.getElem?_append_right hk', List.getElem?_replicate]
      by_cases hr : k - l.length < i + 1 - l.length
      · rw [if_pos hr] at e; exact slot_of_some_none e
      · rw [if_neg hr] at e; exact slot_of_none e
  · rw [if_neg h]

theorem slot_set_grow (l : List (Option String)) (i k : Nat) (a : String) :
    slot ((grow l i).set i (some a)) k = if k = i then some a else slot l k := by
  by_cases hk : k = i
  · subst hk
    rw [if_pos rfl]
    exact slot_of_some_some (List.getElem?_set_self (lt_length_grow l k))
  · rw [if_neg hk, ← slot_grow l i k]
    exact slot_congr (List.getElem?_set_ne (fun h => hk h.symm))

theorem slot_append_single (l : List (Option String)) (k : Nat) (a : String) :
    slot (l ++ [some a]) k = if k = l.length then some a else slot l k := by
  by_cases hk : k = l.length
  · subst hk
    rw [if_pos rfl]
    apply slot_of_some_some
    rw [List.getElem?_append_right (Nat.le_refl _), Nat.sub_self]
    rfl
  · rw [if_neg hk]
    by_cases hlt : k < l.length
    · exact slot_congr (List.getElem?_append_left hlt)
    · have hle : l.length ≤ k := Nat.le_of_not_lt hlt
      rw [slot_of_length_le hle]
      apply slot_of_length_le
      rw [List.length_append]
      simp only [List.length_cons, List.length_nil]
      omega

theorem set_eq_self_of_getElem? {α : Type} (l : List α) (i : Nat) (x : α) (h : l[i]? = some x) :
    l.set i x = l := by
  apply List.ext_getElem?
  intro k
  rw [List.getElem?_set]
  by_cases hk : i = k
  · subst hk
    rw [if_pos rfl, h]
    have : i < l.length := by
      rcases List.getElem?_eq_some_iff.mp h with ⟨hlt, _⟩
      exact hlt
    rw [if_pos this]
  · rw [if_neg hk]

/-! ## characterisation of the operations -/

theorem lookup_cons_ite (s id : String) (j : Nat) (ind : List (String × Nat)) :
    List.lookup s ((id, j) :: ind) = if s = id then some j else List.lookup s ind := by
  rw [List.lookup_cons]
  by_cases h : s = id
  · simp [h]
  · rw [if_neg h, beq_eq_false_iff_ne.mpr h]

theorem getIndexOf_push (m : StringMap) (a s : String) :
    (m.push a).getIndexOf s = if s = a then some m.entries.length else m.getIndexOf s :=
  lookup_cons_ite s a m.entries.length m.indices

theorem getIndex_push (m : StringMap) (a : String) (k : Nat) :
    (m.push a).getIndex k = if k = m.entries.length then some a else m.getIndex k :=
  slot_append_single m.entries k a

theorem getIndexOf_insertAt (m : StringMap) (i : Nat) (a s : String) :
    (m.insertAt i a).getIndexOf s = if s = a then some i else m.getIndexOf s :=
  lookup_cons_ite s a i m.indices

theorem getIndex_insertAt (m : StringMap) (i : Nat) (a : String) (k : Nat) :
    (m.insertAt i a).getIndex k = if k = i then some a else m.getIndex k :=
  slot_set_grow m.entries i k a

theorem getIndex_length (m : StringMap) : m.getIndex m.entries.length = none :=
  slot_of_length_le (Nat.le_refl _)

/-- binding a fresh name to a free slot keeps the bijection -/
theorem consistent_bind (m m' : StringMap) (a : String) (i : Nat)
    (hc : Consistent m) (ha : m.getIndexOf a = none) (hi : m.getIndex i = none)
    (h1 : ∀ s, m'.getIndexOf s = if s = a then some i else m.getIndexOf s)
    (h2 : ∀ k, m'.getIndex k = if k = i then some a else m.getIndex k) : Consistent m' := by
  constructor
  · intro s k h
    rw [h1] at h
    rw [h2]
    by_cases hs : s = a
    · rw [if_pos hs] at h
      injection h with h
      rw [if_pos h.symm, hs]
    · rw [if_neg hs] at h
      have := hc.1 s k h
      by_cases hk : k = i
      · rw [hk, hi] at this; cases this
      · rw [if_neg hk]; exact this
  · intro k s h
    rw [h2] at h
    rw [h1]
    by_cases hk : k = i
    · rw [if_pos hk] at h
      injection h with h
      rw [if_pos h.symm, hk]
    · rw [if_neg hk] at h
      have := hc.2 k s h
      by_cases hs : s = a
      · rw [hs, ha] at this; cases this
      · rw [if_neg hs]; exact this

theorem getFull_eq_none (m : StringMap) (id : String) (hc : Consistent m)
    (h : m.getFull id = none) : m.getIndexOf id = none := by
  cases hg : m.getIndexOf id with
  | none => rfl
  | some j =>
    have hj := hc.1 id j hg
    simp only [getFull, hg, hj] at h
    cases h

theorem getFull_eq_some (m : StringMap) (id : String) (j : Nat) (e : String)
    (h : m.getFull id = some (j, e)) : m.getIndexOf id = some j := by
  cases hg : m.getIndexOf id with
  | none => simp only [getFull, hg] at h; cases h
  | some j' =>
    cases hj : m.getIndex j' with
    | none => simp only [getFull, hg, hj] at h; cases h
    | some e' =>
      simp only [getFull, hg, hj] at h
      injection h with h
      injection h with h _
      rw [h]

/-- what a successful `insert` into a consistent map can do -/
theorem insert_cases (m m' : StringMap) (id : String) (idx : Option Nat) (hc : Consistent m)
    (h : m.insert id idx = some m') :
    (m' = m ∧ ∃ j, m.getIndexOf id = some j) ∨
    (m.getIndexOf id = none ∧
      ((idx = none ∧ m' = m.push id) ∨ (∃ i, idx = some i ∧ m' = m.insertAt i id))) := by
  cases idx with
  | none =>
    simp only [insert] at h
    injection h with h
    subst h
    cases hg : m.getIndexOf id with
    | none =>
      right
      refine ⟨rfl, Or.inl ⟨rfl, ?_⟩⟩
      simp only [insertName, hg]
    | some j =>
      left
      refine ⟨?_, j, rfl⟩
      simp only [insertName, hg]
      have hj := (getIndex_eq_some_iff m j id).mp (hc.1 id j hg)
      rw [set_eq_self_of_getElem? m.entries j (some id) hj]
  | some i =>
    simp only [insert] at h
    cases hf : m.getFull id with
    | none =>
      rw [hf] at h
      injection h with h
      right
      exact ⟨getFull_eq_none m id hc hf, Or.inr ⟨i, rfl, h.symm⟩⟩
    | some p =>
      obtain ⟨j, e⟩ := p
      rw [hf] at h
      left
      by_cases hcond : i = j ∧ id = e
      · simp only [if_pos hcond] at h
        injection h with h
        exact ⟨h.symm, j, getFull_eq_some m id j e hf⟩
      · simp only [if_neg hcond] at h
        cases h

/-! ## 1. the starting maps -/

theorem consistent_empty : Consistent empty := by
  constructor
  · intro s i h; cases h
  · intro i s h
    rw [getIndex_eq_slot, slot_of_length_le (Nat.zero_le _)] at h
    cases h

theorem consistent_default : Consistent defaultStrings :=
  consistent_bind empty (empty.push "PASS") "PASS" empty.entries.length consistent_empty rfl
    (getIndex_length empty) (getIndexOf_push empty "PASS") (getIndex_push empty "PASS")

/-! ## 2. one `insert` -/

theorem insert_consistent (m m' : StringMap) (id : String) (idx : Option Nat)
    (hc : Consistent m)
    (hn : ∀ i, idx = some i → m.getIndexOf id = none → m.getIndex i = none)
    (h : m.insert id idx = some m') :
    Consistent m' ∧ (∃ i, m'.getIndexOf id = some i) ∧
      (∀ s i, m.getIndexOf s = some i → m'.getIndexOf s = some i) := by
  rcases insert_cases m m' id idx hc h with ⟨rfl, hj⟩ | ⟨hnone, ⟨_, rfl⟩ | ⟨i, hidx, rfl⟩⟩
  · exact ⟨hc, hj, fun _ _ h => h⟩
  · refine ⟨?_, ⟨m.entries.length, ?_⟩, ?_⟩
    · exact consistent_bind m (m.push id) id m.entries.length hc hnone (getIndex_length m)
        (getIndexOf_push m id) (getIndex_push m id)
    · rw [getIndexOf_push, if_pos rfl]
    · intro s k hs
      rw [getIndexOf_push]
      by_cases hsa : s = id
      · rw [hsa, hnone] at hs; cases hs
      · rw [if_neg hsa]; exact hs
  · refine ⟨?_, ⟨i, ?_⟩, ?_⟩
    · exact consistent_bind m (m.insertAt i id) id i hc hnone (hn i hidx hnone)
        (getIndexOf_insertAt m i id) (getIndex_insertAt m i id)
    · rw [getIndexOf_insertAt, if_pos rfl]
    · intro s k hs
      rw [getIndexOf_insertAt]
      by_cases hsa : s = id
      · rw [hsa, hnone] at hs; cases hs
      · rw [if_neg hsa]; exact hs

/-! ## 3. the whole header -/

theorem build_consistent (init m : StringMap) (es : List (String × Option Nat))
    (hc : Consistent init) (hn : NoClash init es) (h : build init es = some m) :
    Consistent m ∧ (∀ e ∈ es, ∃ i, m.getIndexOf e.1 = some i ∧ m.getIndex i = some e.1) ∧
      (∀ s i, init.getIndexOf s = some i → m.getIndexOf s = some i) := by
  induction es generalizing init with
  | nil =>
    simp only [build] at h
    injection h with h
    subst h
    exact ⟨hc, fun e he => absurd he List.not_mem_nil, fun _ _ h => h⟩
  | cons e rest ih =>
    obtain ⟨id, idx⟩ := e
    simp only [build] at h
    cases hi : init.insert id idx with
    | none => rw [hi] at h; cases h
    | some m1 =>
      rw [hi] at h
      obtain ⟨hfree, hrest⟩ := hn
      obtain ⟨hc1, ⟨j, hj⟩, hkeep1⟩ := insert_consistent init m1 id idx hc hfree hi
      obtain ⟨hcm, hall, hkeep⟩ := ih m1 hc1 (hrest m1 hi) h
      refine ⟨hcm, ?_, fun s i hs => hkeep s i (hkeep1 s i hs)⟩
      intro e he
      rcases List.mem_cons.mp he with rfl | he
      · exact ⟨j, hkeep id j hj, hcm.1 id j (hkeep id j hj)⟩
      · exact hall e he

/-! ## 4a. no explicit `IDX` at all -/

theorem noClash_of_implicit (m : StringMap) (es : List (String × Option Nat))
    (h : ∀ e ∈ es, e.2 = none) : NoClash m es := by
  induction es generalizing m with
  | nil => trivial
  | cons e rest ih =>
    obtain ⟨id, idx⟩ := e
    refine ⟨?_, fun m' _ => ih m' (fun e he => h e (List.mem_cons_of_mem _ he))⟩
    intro i hi
    have := h (id, idx) List.mem_cons_self
    rw [hi] at this
    cases this

/-! ## 4b. every entry has an explicit `IDX`, injective, 0 reserved for `PASS` -/

/-- every occupied slot holds `PASS` at 0 or a name that the header assigns to that slot -/
def SlotsFrom (all : List (String × Option Nat)) (m : StringMap) : Prop :=
  ∀ k n, m.getIndex k = some n → (k = 0 ∧ n = "PASS") ∨ (n, some k) ∈ all

theorem slotsFrom_default (all : List (String × Option Nat)) : SlotsFrom all defaultStrings := by
  intro k n h
  left
  have e : defaultStrings.getIndex k = if k = empty.entries.length then some "PASS"
      else empty.getIndex k := getIndex_push empty "PASS" k
  rw [e] at h
  by_cases hk : k = empty.entries.length
  · rw [if_pos hk] at h
    injection h with h
    exact ⟨hk, h.symm⟩
  · rw [if_neg hk] at h
    have := consistent_empty.2 k n h
    cases this

theorem noClash_of_injective_aux (all : List (String × Option Nat))
    (hinj : ∀ e1 ∈ all, ∀ e2 ∈ all, e1.2 = e2.2 → e1.1 = e2.1)
    (h0 : ∀ e ∈ all, e.2 = some 0 → e.1 = "PASS")
    (es : List (String × Option Nat)) (m : StringMap)
    (hsub : ∀ e ∈ es, e ∈ all) (hall : ∀ e ∈ es, ∃ i, e.2 = some i)
    (hc : Consistent m) (hs : SlotsFrom all m) : NoClash m es := by
  induction es generalizing m with
  | nil => trivial
  | cons e rest ih =>
    obtain ⟨id, idx⟩ := e
    have hmem : (id, idx) ∈ all := hsub _ List.mem_cons_self
    have hfree : ∀ i, idx = some i → m.getIndexOf id = none → m.getIndex i = none := by
      intro i hi hnone
      cases hg : m.getIndex i with
      | none => rfl
      | some n =>
        exfalso
        have hbound : m.getIndexOf n = some i := hc.2 i n hg
        have hid : n = id := by
          rcases hs i n hg with ⟨hi0, hn⟩ | hin
          · rw [hn]
            refine (h0 (id, idx) hmem ?_).symm
            show idx = some 0
            rw [hi, hi0]
          · exact hinj (n, some i) hin (id, idx) hmem hi.symm
        rw [hid, hnone] at hbound
        cases hbound
    refine ⟨hfree, ?_⟩
    intro m' hins
    have hc' := (insert_consistent m m' id idx hc hfree hins).1
    apply ih m' (fun e he => hsub e (List.mem_cons_of_mem _ he))
      (fun e he => hall e (List.mem_cons_of_mem _ he)) hc'
    rcases insert_cases m m' id idx hc hins with ⟨rfl, _⟩ | ⟨_, ⟨hidx, _⟩ | ⟨i, hidx, rfl⟩⟩
    · exact hs
    · obtain ⟨i, hi⟩ := hall (id, idx) List.mem_cons_self
      rw [hidx] at hi
      cases hi
    · intro k n hk
      rw [getIndex_insertAt] at hk
      by_cases hki : k = i
      · rw [if_pos hki] at hk
        injection hk with hk
        right
        rw [← hk, hki, ← hidx]
        exact hmem
      · rw [if_neg hki] at hk
        exact hs k n hk

theorem noClash_of_injective (es : List (String × Option Nat))
    (hall : ∀ e ∈ es, ∃ i, e.2 = some i)
    (hinj : ∀ e1 ∈ es, ∀ e2 ∈ es, e1.2 = e2.2 → e1.1 = e2.1)
    (h0 : ∀ e ∈ es, e.2 = some 0 → e.1 = "PASS") : NoClash defaultStrings es :=
  noClash_of_injective_aux es hinj h0 es defaultStrings (fun _ h => h) hall consistent_default
    (slotsFrom_default es)

/-! ## 5. non-vacuity -/

/-- a real clash (`A` and `B` both claim slot 1) is accepted by `build` and breaks the bijection:
`A` is still bound to 1 but slot 1 now holds `B` -/
example : ∃ m, build defaultStrings [("A", some 1), ("B", some 1)] = some m ∧
    m.getIndexOf "A" = some 1 ∧ m.getIndex 1 = some "B" ∧ ¬ Consistent m := by
  refine ⟨_, rfl, by decide, by decide, ?_⟩
  intro hc
  have h := hc.1 "A" 1 (by decide)
  revert h
  decide

/-- ... and that input indeed violates `NoClash` -/
example : ¬ NoClash defaultStrings [("A", some 1), ("B", some 1)] := by
  intro h
  have h2 := (h.2 _ rfl).1 1 rfl (by decide)
  revert h2
  decide

/-- a shuffled explicit assignment with gaps satisfies the hypotheses of `noClash_of_injective` -/
example : NoClash defaultStrings [("DP", some 3), ("q10", some 1), ("GT", some 7)] := by
  apply noClash_of_injective
  · simp
  · simp
  · simp

/-- ... and the bijection theorem then applies to the map `build` returns -/
example : ∃ m, build defaultStrings [("DP", some 3), ("q10", some 1), ("GT", some 7)] = some m ∧
    Consistent m ∧ m.getIndexOf "GT" = some 7 ∧ m.getIndex 3 = some "DP" ∧
    m.getIndex 2 = none := by
  refine ⟨_, rfl, ?_, by decide, by decide, by decide⟩
  exact (build_consistent defaultStrings _ [("DP", some 3), ("q10", some 1), ("GT", some 7)]
    consistent_default (noClash_of_injective _ (by simp) (by simp) (by simp)) rfl).1

#print axioms insert_consistent
#print axioms build_consistent
#print axioms noClash_of_implicit
#print axioms noClash_of_injective

end Noodles.Bcf.StringMap
