import Noodles.Bcf.Typed
/-! Helper lemmas for the C10 theorems (`Noodles/Props/C10.lean`). -/
namespace Noodles.Bcf
open Noodles.Codec (Bytes le unle Dec decN unle_le decN_map RoundTrip le_length)

/-! ### signed little-endian integers -/

theorem pow_bytes (w : W) : 256 ^ w.bytes = w.modulus := by
  cases w <;> rfl

theorem decS_encS (w : W) (x : Int) (h1 : w.min ≤ x) (h2 : x ≤ w.max) (r : Bytes) :
    decS w (encS w x ++ r) = .ok (x, r) := by
  unfold decS encS
  have hm : (0 : Int) < (w.modulus : Int) := by cases w <;> simp [W.modulus]
  have hlt : (x % (w.modulus : Int)).toNat < 256 ^ w.bytes := by
    rw [pow_bytes]
    have := Int.emod_lt_of_pos x hm
    have := Int.emod_nonneg x (Int.ne_of_gt hm)
    omega
  rw [unle_le _ _ hlt]
  simp only
  congr 2
  unfold toS
  cases w <;> simp only [W.modulus, W.min, W.max] at * <;> omega

theorem roundTrip_decS (w : W) : RoundTrip (encS w) (decS w) (fun x => w.min ≤ x ∧ x ≤ w.max) :=
  fun x ⟨h1, h2⟩ r => decS_encS w x h1 h2 r

theorem decN_decS (w : W) (xs : List Int) (h : ∀ x ∈ xs, w.min ≤ x ∧ x ≤ w.max) (r : Bytes) :
    decN (decS w) xs.length ((xs.map (encS w)).flatten ++ r) = .ok (xs, r) :=
  decN_map (encS w) (decS w) _ (roundTrip_decS w) xs h r

theorem encS_length (w : W) (x : Int) : (encS w x).length = w.bytes := by
  unfold encS; exact le_length _ _

theorem decF_encF (b : Nat) (h : b < 4294967296) (r : Bytes) : decF (encF b ++ r) = .ok (b, r) := by
  unfold decF encF
  exact unle_le 4 b (by simpa using h) r

theorem decN_decF (xs : List Nat) (h : ∀ x ∈ xs, x < 4294967296) (r : Bytes) :
    decN decF xs.length ((xs.map encF).flatten ++ r) = .ok (xs, r) :=
  decN_map encF decF _ (fun x hx r => decF_encF x hx r) xs h r

/-! ### reserved codes -/

theorem min_lt_max (w : W) : w.min + 8 ≤ w.max := by
  cases w <;> simp [W.min, W.max, W.modulus]

theorem classify_value (w : W) (x : Int) (h : w.minValue ≤ x) : classify w x = .value x := by
  unfold classify W.minValue at *
  rw [if_neg (by omega), if_neg (by omega), if_neg (by omega)]

theorem classify_missing (w : W) : classify w w.min = .missing := by
  unfold classify; rw [if_pos rfl]

theorem classify_eov (w : W) : classify w (w.min + 1) = .eov := by
  unfold classify; rw [if_neg (by omega), if_pos rfl]

/-- the only inputs classified as a value are the values ≥ `MIN_VALUE` -/
theorem classify_eq_value (w : W) (x n : Int) (h : classify w x = .value n) (hx : w.min ≤ x) :
    n = x ∧ w.minValue ≤ x := by
  unfold classify at h
  unfold W.minValue
  split at h
  · cases h
  · split at h
    · cases h
    · split at h
      · cases h
      · injection h with h; omega

/-! ### width selection -/

theorem w_consts :
    W.minValue .w1 = -120 ∧ W.max .w1 = 127 ∧ W.minValue .w2 = -32760 ∧ W.max .w2 = 32767 ∧
    W.minValue .w4 = -2147483640 ∧ W.max .w4 = 2147483647 ∧
    W.min .w1 = -128 ∧ W.min .w2 = -32768 ∧ W.min .w4 = -2147483648 := by
  simp [W.minValue, W.max, W.min, W.modulus]

theorem selectWidth_sound (mn mx : Int) (w : W) (h : selectWidth mn mx = some w) (hmx : mx ≤ I32_MAX) :
    w.minValue ≤ mn ∧ mx ≤ w.max := by
  obtain ⟨e1, e2, e3, e4, e5, e6, _, _, _⟩ := w_consts
  unfold selectWidth at h
  unfold I32_MAX at hmx
  split at h
  · split at h
    · injection h with h; subst h; omega
    · split at h
      · injection h with h; subst h; omega
      · injection h with h; subst h; omega
  · split at h
    · split at h
      · injection h with h; subst h; omega
      · injection h with h; subst h; omega
    · split at h
      · injection h with h; subst h; omega
      · cases h

theorem selectWidth_none (mn mx : Int) (h : mn < I32_MIN + 8) : selectWidth mn mx = none := by
  obtain ⟨e1, e2, e3, e4, e5, e6, _, _, _⟩ := w_consts
  unfold I32_MIN at h
  unfold selectWidth
  rw [if_neg (by omega), if_neg (by omega), if_neg (by omega)]

theorem selectWidth_some (mn mx : Int) (h : I32_MIN + 8 ≤ mn) : ∃ w, selectWidth mn mx = some w := by
  obtain ⟨e1, e2, e3, e4, e5, e6, _, _, _⟩ := w_consts
  unfold I32_MIN at h
  unfold selectWidth
  split
  · split
    · exact ⟨_, rfl⟩
    · split <;> exact ⟨_, rfl⟩
  · split
    · split <;> exact ⟨_, rfl⟩
    · rw [if_pos (by omega)]; exact ⟨_, rfl⟩

/-- the fold behind `scan`, from any starting pair -/
def scanFrom (p : Int × Int) (xs : List (Option Int)) : Int × Int :=
  xs.foldl (fun (p : Int × Int) x => (min p.1 (x.getD 0), max p.2 (x.getD 0))) p

theorem scanFrom_mono (p : Int × Int) (xs : List (Option Int)) :
    (scanFrom p xs).1 ≤ p.1 ∧ p.2 ≤ (scanFrom p xs).2 := by
  induction xs generalizing p with
  | nil => simp [scanFrom]
  | cons x xs ih =>
    have := ih (min p.1 (x.getD 0), max p.2 (x.getD 0))
    simp only [scanFrom, List.foldl_cons] at *
    omega

theorem scanFrom_bounds (p : Int × Int) (xs : List (Option Int)) :
    ∀ x ∈ xs, (scanFrom p xs).1 ≤ x.getD 0 ∧ x.getD 0 ≤ (scanFrom p xs).2 := by
  induction xs generalizing p with
  | nil => intro x hx; cases hx
  | cons y ys ih =>
    intro x hx
    have hm := scanFrom_mono (min p.1 (y.getD 0), max p.2 (y.getD 0)) ys
    have hi := ih (min p.1 (y.getD 0), max p.2 (y.getD 0))
    simp only [scanFrom, List.foldl_cons] at *
    rcases List.mem_cons.mp hx with rfl | hx
    · omega
    · exact hi x hx

theorem scan_bounds (xs : List (Option Int)) :
    ∀ x ∈ xs, (scan xs).1 ≤ x.getD 0 ∧ x.getD 0 ≤ (scan xs).2 := scanFrom_bounds _ xs

/-- the scan stays within `i32` when the values do -/
theorem scanFrom_range (p : Int × Int) (xs : List (Option Int)) (lo hi : Int)
    (hp : lo ≤ p.1 ∧ p.2 ≤ hi) (h0 : lo ≤ 0 ∧ 0 ≤ hi)
    (h : ∀ x ∈ xs, ∀ v, x = some v → lo ≤ v ∧ v ≤ hi) :
    lo ≤ (scanFrom p xs).1 ∧ (scanFrom p xs).2 ≤ hi := by
  induction xs generalizing p with
  | nil => simpa [scanFrom] using hp
  | cons y ys ih =>
    have hy : lo ≤ y.getD 0 ∧ y.getD 0 ≤ hi := by
      cases y with
      | none => simpa using h0
      | some v => simpa using h (some v) (by simp) v rfl
    have := ih (min p.1 (y.getD 0), max p.2 (y.getD 0)) (by simp only; omega)
      (fun x hx => h x (List.mem_cons_of_mem _ hx))
    simpa [scanFrom] using this

theorem scan_range (xs : List (Option Int))
    (h : ∀ x ∈ xs, ∀ v, x = some v → I32_MIN + 8 ≤ v ∧ v ≤ I32_MAX) :
    I32_MIN + 8 ≤ (scan xs).1 ∧ (scan xs).2 ≤ I32_MAX :=
  scanFrom_range _ xs _ _ (by simp [I32_MAX, I32_MIN]) (by simp [I32_MAX, I32_MIN]) h

/-- a value below `MIN_VALUE` of Int32 drags the scanned minimum below it -/
theorem scan_low (xs : List (Option Int)) (v : Int) (hv : some v ∈ xs) : (scan xs).1 ≤ v := by
  simpa using (scan_bounds xs (some v) hv).1

/-! ### `mapM'` -/

theorem mapM'_ok {α β ε : Type} (f : α → Except ε β) (g : α → β) (xs : List α)
    (h : ∀ x ∈ xs, f x = .ok (g x)) : mapM' f xs = .ok (xs.map g) := by
  induction xs with
  | nil => rfl
  | cons x xs ih =>
    simp only [mapM', h x (by simp), ih (fun y hy => h y (List.mem_cons_of_mem _ hy)), List.map_cons]

/-! ### the descriptor -/

theorem head_toNat (l c : Nat) (hl : l ≤ 15) (hc : c ≤ 7) :
    (UInt8.ofNat (l * 16 + c)).toNat = l * 16 + c := by
  simp only [UInt8.toNat_ofNat']
  omega

theorem tyOfCode (ty : Ty) (len : Nat) (r : Bytes) :
    (if ty.code = 0 then (.ok (none, r) : Except RErr (Option (Ty × Nat) × Bytes))
      else if ty.code = 1 then .ok (some (.int .w1, len), r)
      else if ty.code = 2 then .ok (some (.int .w2, len), r)
      else if ty.code = 3 then .ok (some (.int .w4, len), r)
      else if ty.code = 5 then .ok (some (.float, len), r)
      else if ty.code = 7 then .ok (some (.string, len), r)
      else .error .invalid) = .ok (some (ty, len), r) := by
  cases ty with
  | int w => cases w <;> simp [Ty.code, W.code]
  | float => simp [Ty.code]
  | string => simp [Ty.code]

theorem code_le (ty : Ty) : ty.code ≤ 7 := by
  cases ty with
  | int w => cases w <;> simp [Ty.code, W.code]
  | float => simp [Ty.code]
  | string => simp [Ty.code]

theorem readLen_scalar (w : W) (c : UInt8) (len : Nat) (hmax : (len : Int) ≤ w.max) (r : Bytes)
    (hc : (c = 0x11 ∧ w = .w1) ∨ (c = 0x12 ∧ w = .w2) ∨ (c = 0x13 ∧ w = .w4)) :
    readLen (c :: encS w len ++ r) = .ok (len, r) := by
  have hmin : w.min ≤ (len : Int) := by cases w <;> simp [W.min, W.modulus] <;> omega
  have hd := decS_encS w len hmin hmax r
  have hv := classify_value w len (by cases w <;> simp [W.minValue, W.min, W.modulus] <;> omega)
  rcases hc with ⟨rfl, rfl⟩ | ⟨rfl, rfl⟩ | ⟨rfl, rfl⟩ <;> simp [readLen, hd, hv]

theorem readLen_lenValue (len : Nat) (h : len ≤ 2147483647) (r : Bytes) :
    ∃ bs, lenValue len = .ok bs ∧ readLen (bs ++ r) = .ok (len, r) := by
  unfold lenValue
  by_cases h1 : len ≤ 127
  · exact ⟨_, if_pos h1, readLen_scalar .w1 _ len (by simp [W.max, W.modulus]; omega) r (by simp)⟩
  · rw [if_neg h1]
    by_cases h2 : len ≤ 32767
    · exact ⟨_, if_pos h2, readLen_scalar .w2 _ len (by simp [W.max, W.modulus]; omega) r (by simp)⟩
    · rw [if_neg h2]
      exact ⟨_, if_pos h, readLen_scalar .w4 _ len (by simp [W.max, W.modulus]; omega) r (by simp)⟩

theorem readType_writeType (ty : Ty) (len : Nat) (h : len ≤ 2147483647) (r : Bytes) :
    ∃ bs, writeType (some (ty, len)) = .ok bs ∧ readType (bs ++ r) = .ok (some (ty, len), r) := by
  unfold writeType
  have hc := code_le ty
  by_cases h15 : 15 ≤ len
  · obtain ⟨lb, hl1, hl2⟩ := readLen_lenValue len h r
    refine ⟨UInt8.ofNat (min len 15 * 16 + ty.code) :: lb, ?_, ?_⟩
    · simp only [if_pos h15, hl1]
    · have hmin : min len 15 = 15 := by omega
      simp only [List.cons_append, readType]
      rw [head_toNat _ _ (by omega) hc, hmin]
      have e1 : (15 * 16 + ty.code) / 16 = 15 := by omega
      have e2 : (15 * 16 + ty.code) % 16 = ty.code := by omega
      rw [e1, e2, if_pos rfl, hl2]
      exact tyOfCode ty len r
  · refine ⟨[UInt8.ofNat (min len 15 * 16 + ty.code)], ?_, ?_⟩
    · simp only [if_neg h15]
    · have hmin : min len 15 = len := by omega
      simp only [List.cons_append, List.nil_append, readType]
      rw [head_toNat _ _ (by omega) hc, hmin]
      have e1 : (len * 16 + ty.code) / 16 = len := by omega
      have e2 : (len * 16 + ty.code) % 16 = ty.code := by omega
      rw [e1, e2, if_neg (by omega)]
      exact tyOfCode ty len r

theorem writeType_too_long (ty : Ty) (len : Nat) (h : 2147483647 < len) :
    writeType (some (ty, len)) = .error .invalidInput := by
  unfold writeType lenValue
  simp only [if_pos (show 15 ≤ len by omega), if_neg (show ¬ len ≤ 127 by omega),
    if_neg (show ¬ len ≤ 32767 by omega), if_neg (show ¬ len ≤ 2147483647 by omega)]

end Noodles.Bcf
