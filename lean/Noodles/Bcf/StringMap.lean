/-!
# The dictionary of strings / contigs (model for C10)

Transcribed from noodles-vcf `header/string_maps/string_map.rs` (`StringMap`) and
`header/string_maps.rs` (`insert`, `StringMaps::default`, `TryFrom<&Header>`; the BCF header reader
feeds the same `insert` line by line, and the VCF header writer emits INFO, FILTER, FORMAT in the
order in which `TryFrom<&Header>` walks them, so writer and reader build the same maps).

`indices` is the `HashMap<String, usize>` as an association list (newest binding first, the lookup
takes the first match, which is what overwriting a hash-map entry does); `entries` is the
`Vec<Option<String>>`.
-/
namespace Noodles.Bcf

structure StringMap where
  indices : List (String × Nat)
  entries : List (Option String)
  deriving Repr

namespace StringMap

def empty : StringMap := ⟨[], []⟩

/-- `get_index_of` -/
def getIndexOf (m : StringMap) (s : String) : Option Nat := m.indices.lookup s

/-- `get_index` -/
def getIndex (m : StringMap) (i : Nat) : Option String :=
  match m.entries[i]? with
  | some (some s) => some s
  | _ => none

/-- `get_full` -/
def getFull (m : StringMap) (s : String) : Option (Nat × String) :=
  match m.getIndexOf s with
  | some i => match m.getIndex i with
    | some e => some (i, e)
    | none => none
  | none => none

/-- `push` -/
def push (m : StringMap) (s : String) : StringMap :=
  ⟨(s, m.entries.length) :: m.indices, m.entries ++ [some s]⟩

/-- `insert` (`insert_full`): an existing name keeps its slot -/
def insertName (m : StringMap) (s : String) : StringMap :=
  match m.getIndexOf s with
  | some i => ⟨m.indices, m.entries.set i (some s)⟩
  | none => m.push s

/-- `insert_at`: grows the vector, binds the name, **replaces** whatever the slot held -/
def insertAt (m : StringMap) (i : Nat) (s : String) : StringMap :=
  let es := if m.entries.length ≤ i then m.entries ++ List.replicate (i + 1 - m.entries.length) none
            else m.entries
  ⟨(s, i) :: m.indices, es.set i (some s)⟩

/-- the free function `insert(string_map, id, idx)` of `string_maps.rs`;
`none` = `StringMapPositionMismatch` -/
def insert (m : StringMap) (id : String) (idx : Option Nat) : Option StringMap :=
  match idx with
  | some i =>
    match m.getFull id with
    | some (j, e) => if i = j ∧ id = e then some m else none
    | none => some (m.insertAt i id)
  | none => some (m.insertName id)

/-- all header entries of one dictionary, in header order -/
def build (init : StringMap) : List (String × Option Nat) → Option StringMap
  | [] => some init
  | (id, idx) :: rest =>
    match init.insert id idx with
    | some m => build m rest
    | none => none

/-- `StringMaps::default().strings()`: `PASS` is always entry 0 -/
def defaultStrings : StringMap := empty.push "PASS"

end StringMap
end Noodles.Bcf
