import Noodles.Bcf.RecordSpec
import Noodles.Bcf.TypedProof
/-!
Layout of the fixed part of the site block and the range limits of its fields (helpers for
C10 / Record): whenever `writeSite` succeeds the 24 fixed bytes are exactly the seven fields, and
every count is inside the width of its field — the writer refuses instead of wrapping around.
-/
namespace Noodles.Bcf
open Noodles.Codec (Bytes le unle)

/-- the `pos` word: 0-based, `-1` for a missing position (telomere) -/
def posField : Option Nat → Int
  | none => -1
  | some p => (p : Int) - 1

theorem sl_rlenOf_le (pos : Option Nat) (info : List (String × Option InfoVal)) (ref : Bytes) (n : Nat)
    (h : rlenOf pos info ref = .ok n) : n ≤ 2147483647 := by
  unfold rlenOf at h
  simp only at h
  split at h
  · cases h
  · split at h
    · cases h
    · injection h with h; omega

theorem sl_bind_ok {α β : Type} (x : Except WErr α) (f : α → Except WErr β) (b : β)
    (h : bind' x f = .ok b) : ∃ a, x = .ok a ∧ f a = .ok b := by
  cases x with
  | error e => simp [bind'] at h
  | ok a => exact ⟨a, rfl, h⟩

theorem writeSite_layout (h : Header) (r : Rec) (site : Bytes) (hs : writeSite h r = .ok site) :
    ∃ ci rlen tail,
      h.contigs.getIndexOf r.chrom = some ci ∧ ci ≤ 2147483647 ∧
      (∀ p, r.pos = some p → p ≤ 2147483647) ∧
      rlenOf r.pos r.info r.ref = .ok rlen ∧ rlen ≤ 2147483647 ∧
      r.info.length ≤ 65535 ∧ r.alts.length + 1 ≤ 65535 ∧ h.nSample ≤ 16777215 ∧
      r.keys.length ≤ 255 ∧
      site = encS .w4 ci ++ encS .w4 (posField r.pos) ++ encS .w4 rlen
        ++ encF (r.qual.getD F_MISSING) ++ le 2 r.info.length ++ le 2 (r.alts.length + 1)
        ++ le 4 (r.keys.length * 16777216 + h.nSample) ++ tail := by
  unfold writeSite at hs
  cases hci : h.contigs.getIndexOf r.chrom with
  | none => rw [hci] at hs; cases hs
  | some ci =>
    rw [hci] at hs
    simp only at hs
    split at hs
    · cases hs
    · rename_i hcile
      obtain ⟨pos, hpos, hs⟩ := sl_bind_ok _ _ _ hs
      obtain ⟨rlen, hrlen, hs⟩ := sl_bind_ok _ _ _ hs
      split at hs
      · cases hs
      · rename_i hcnt
        obtain ⟨ids, _, hs⟩ := sl_bind_ok _ _ _ hs
        obtain ⟨bases, _, hs⟩ := sl_bind_ok _ _ _ hs
        obtain ⟨fis, _, hs⟩ := sl_bind_ok _ _ _ hs
        obtain ⟨filt, _, hs⟩ := sl_bind_ok _ _ _ hs
        obtain ⟨infos, _, hs⟩ := sl_bind_ok _ _ _ hs
        injection hs with hs
        have hposF : pos = posField r.pos ∧ ∀ p, r.pos = some p → p ≤ 2147483647 := by
          cases hp : r.pos with
          | none => rw [hp] at hpos; injection hpos with hpos; exact ⟨hpos.symm, fun p hp' => by cases hp'⟩
          | some p =>
            rw [hp] at hpos
            simp only at hpos
            split at hpos
            · cases hpos
            · injection hpos with hpos
              refine ⟨hpos.symm, fun p' hp' => ?_⟩
              injection hp' with hp'; omega
        refine ⟨ci, rlen, ids ++ bases.flatten ++ filt ++ infos.flatten, rfl, by omega, hposF.2,
          hrlen, sl_rlenOf_le _ _ _ _ hrlen, by omega, by omega, by omega, by omega, ?_⟩
        rw [← hs, hposF.1]
        simp only [List.append_assoc]

/-- a count beyond the width of its field is refused: `InvalidInput`, never a wrapped value -/
theorem writeSite_count_limits (h : Header) (r : Rec)
    (hc : 65535 < r.info.length ∨ 65535 < r.alts.length + 1 ∨ 16777215 < h.nSample
      ∨ 255 < r.keys.length) :
    ∀ site, writeSite h r ≠ .ok site := by
  intro site hs
  obtain ⟨_, _, _, _, _, _, _, _, h1, h2, h3, h4, _⟩ := writeSite_layout h r site hs
  omega

/-- `bcf::Record::end()` on the block the writer produced: `start + rlen - 1` -/
theorem lazyEnd_writeSite (h : Header) (r : Rec) (site : Bytes) (hs : writeSite h r = .ok site)
    (p : Nat) (hp : r.pos = some p) (hp1 : 1 ≤ p) :
    ∃ rlen, rlenOf r.pos r.info r.ref = .ok rlen ∧
      lazyEnd site = if rlen = 0 then none else some (p + rlen - 1) := by
  obtain ⟨ci, rlen, tail, _, hci, hpm, hrlen, hrl, _, _, _, _, hsite⟩ := writeSite_layout h r site hs
  refine ⟨rlen, hrlen, ?_⟩
  have hpm := hpm p hp
  subst hsite
  have e1 : (encS .w4 (ci : Int)).length = 4 := encS_length _ _
  unfold lazyEnd
  have d4 : ∀ (a b : Bytes), a.length = 4 → (a ++ b).drop 4 = b := by
    intro a b ha; rw [← ha]; exact List.drop_left
  have d8 : ∀ (a b c : Bytes), a.length = 4 → b.length = 4 → (a ++ (b ++ c)).drop 8 = c := by
    intro a b c ha hb
    have : (8 : Nat) = a.length + b.length := by omega
    rw [this, ← List.drop_drop, List.drop_left, List.drop_left]
  simp only [List.append_assoc]
  rw [d8 _ _ _ e1 (encS_length _ _), d4 _ _ e1]
  have hpr : W.min .w4 ≤ posField r.pos ∧ posField r.pos ≤ W.max .w4 := by
    rw [hp]; simp only [posField, W.min, W.max, W.modulus]; omega
  have hrr : W.min .w4 ≤ (rlen : Int) ∧ (rlen : Int) ≤ W.max .w4 := by
    simp only [W.min, W.max, W.modulus]; omega
  rw [decS_encS .w4 _ hpr.1 hpr.2, decS_encS .w4 _ hrr.1 hrr.2]
  simp only
  rw [hp]
  simp only [posField]
  by_cases h0 : rlen = 0
  · subst h0; simp
  · have : ¬ ((p : Int) - 1 < 0) := by omega
    have h1 : ¬ ((rlen : Int) < 1) := by omega
    simp only [this, h1, if_false, h0]
    congr 1
    omega

end Noodles.Bcf
