import Noodles.Bcf.RecordSpec
namespace Noodles.Bcf
open Noodles.Codec (Bytes Dec decN)
/-!
Round-trip lemmas for the INFO scalars that are not numbers (string, character, flag, missing) and
for the per-sample float columns (`Number=1` and vector). Helpers are prefixed `fp_`.
-/

/-! ### `maxLenSome` -/

/-- the fold behind `maxLenSome`, from any starting accumulator -/
def fp_mlsF {α : Type} (m : Option Nat) (col : List (Option (List α))) : Option Nat :=
  col.foldl (fun m s => match s with
    | some vs => some (match m with | some k => max k vs.length | none => vs.length)
    | none => m) m

theorem fp_maxLenSome_eq {α : Type} (col : List (Option (List α))) :
    maxLenSome col = fp_mlsF none col := rfl

theorem fp_mlsF_cons_none {α : Type} (m : Option Nat) (cs : List (Option (List α))) :
    fp_mlsF m (none :: cs) = fp_mlsF m cs := rfl

theorem fp_mlsF_cons_some_some {α : Type} (k : Nat) (ws : List α) (cs : List (Option (List α))) :
    fp_mlsF (some k) (some ws :: cs) = fp_mlsF (some (max k ws.length)) cs := rfl

theorem fp_mlsF_cons_some_none {α : Type} (ws : List α) (cs : List (Option (List α))) :
    fp_mlsF none (some ws :: cs) = fp_mlsF (some ws.length) cs := rfl

theorem fp_mlsF_some {α : Type} (k : Nat) (col : List (Option (List α))) :
    ∃ n, fp_mlsF (some k) col = some n ∧ k ≤ n ∧ ∀ vs, some vs ∈ col → vs.length ≤ n := by
  induction col generalizing k with
  | nil => exact ⟨k, rfl, Nat.le_refl _, fun vs h => (by cases h)⟩
  | cons c cs ih =>
    cases c with
    | none =>
      obtain ⟨n, h1, h2, h3⟩ := ih k
      refine ⟨n, by rw [fp_mlsF_cons_none]; exact h1, h2, ?_⟩
      intro vs hvs
      rcases List.mem_cons.mp hvs with h | h
      · cases h
      · exact h3 vs h
    | some ws =>
      obtain ⟨n, h1, h2, h3⟩ := ih (max k ws.length)
      refine ⟨n, by rw [fp_mlsF_cons_some_some]; exact h1, by omega, ?_⟩
      intro vs hvs
      rcases List.mem_cons.mp hvs with h | h
      · injection h with h; subst h; omega
      · exact h3 vs h

theorem fp_mlsF_none {α : Type} (col : List (Option (List α))) :
    (∀ n, fp_mlsF none col = some n → ∀ vs, some vs ∈ col → vs.length ≤ n) ∧
    (∀ vs, some vs ∈ col → ∃ n, fp_mlsF none col = some n) := by
  induction col with
  | nil => exact ⟨fun n _ vs h => (by cases h), fun vs h => (by cases h)⟩
  | cons c cs ih =>
    cases c with
    | none =>
      rw [fp_mlsF_cons_none]
      refine ⟨fun n hn vs hvs => ?_, fun vs hvs => ?_⟩
      · rcases List.mem_cons.mp hvs with h | h
        · cases h
        · exact ih.1 n hn vs h
      · rcases List.mem_cons.mp hvs with h | h
        · cases h
        · exact ih.2 vs h
    | some ws =>
      rw [fp_mlsF_cons_some_none]
      obtain ⟨n, h1, h2, h3⟩ := fp_mlsF_some ws.length cs
      refine ⟨fun m hm vs hvs => ?_, fun _ _ => ⟨n, h1⟩⟩
      rw [h1] at hm
      injection hm with hm
      subst hm
      rcases List.mem_cons.mp hvs with h | h
      · injection h with h; subst h; exact h2
      · exact h3 vs h

theorem maxLenSome_ge {α : Type} (col : List (Option (List α))) (n : Nat) (h : maxLenSome col = some n) :
    ∀ vs, some vs ∈ col → vs.length ≤ n :=
  (fp_mlsF_none col).1 n (by rw [← fp_maxLenSome_eq]; exact h)

theorem maxLenSome_isSome {α : Type} (col : List (Option (List α))) (vs : List α) (h : some vs ∈ col) :
    ∃ n, maxLenSome col = some n := by
  obtain ⟨n, hn⟩ := (fp_mlsF_none col).2 vs h
  exact ⟨n, by rw [fp_maxLenSome_eq]; exact hn⟩

/-! ### INFO strings, characters, flags, missing values -/

theorem fp_takeN_append (s rest : Bytes) : takeN s.length (s ++ rest) = .ok (s, rest) := by
  unfold takeN
  rw [if_pos (by simp)]
  simp

theorem fp_readValue_str (s d rest : Bytes) (hne : s ≠ [])
    (hd : ∀ r, readType (d ++ r) = .ok (some (.string, s.length), r)) :
    readValue (d ++ s ++ rest) = .ok (.str (some s), rest) := by
  have hl : s.length ≠ 0 := by
    cases s with
    | nil => exact absurd rfl hne
    | cons _ _ => simp
  unfold readValue
  rw [List.append_assoc, hd]
  simp only
  rw [if_neg hl, fp_takeN_append]

theorem fp_writeString_ok (s : Bytes) (hlen : s.length ≤ LEN_MAX) :
    ∃ d, writeString s = .ok (d ++ s) ∧
      ∀ r, readType (d ++ r) = .ok (some (.string, s.length), r) := by
  obtain ⟨d, hd1, _⟩ := readType_writeType .string s.length hlen []
  refine ⟨d, by simp only [writeString, hd1], ?_⟩
  intro r
  obtain ⟨d', hd', hr'⟩ := readType_writeType .string s.length hlen r
  rw [hd1] at hd'; injection hd' with hd'; subst hd'; exact hr'

theorem info_str_roundtrip (s : Bytes) (hne : s ≠ []) (hlen : s.length ≤ LEN_MAX) (lazy : Bool) (rest : Bytes) :
    ∃ bs, writeInfoVal (some (.str s)) = .ok bs ∧
      readInfoVal lazy .one .string (bs ++ rest) = .ok (some (.str s), rest) := by
  obtain ⟨d, hw, hd⟩ := fp_writeString_ok s hlen
  refine ⟨d ++ s, hw, ?_⟩
  unfold readInfoVal
  rw [fp_readValue_str s d rest hne hd]
  rfl

theorem fp_readType_byte (b : UInt8) (r : Bytes) (l : Nat) (ty : Ty) (hl : l < 15)
    (hb : b.toNat = l * 16 + ty.code) :
    readType (b :: r) = .ok (some (ty, l), r) := by
  have hc := code_le ty
  unfold readType
  simp only
  rw [hb]
  have e1 : (l * 16 + ty.code) / 16 = l := by omega
  have e2 : (l * 16 + ty.code) % 16 = ty.code := by omega
  rw [e1, e2, if_neg (by omega)]
  exact tyOfCode ty l r

theorem info_str_empty (lazy : Bool) (rest : Bytes) :
    writeInfoVal (some (.str [])) = .ok [0x07] ∧
      readInfoVal lazy .one .string ([0x07] ++ rest) = .ok (none, rest) := by
  refine ⟨rfl, ?_⟩
  have hd : readType ((0x07 : UInt8) :: rest) = .ok (some (.string, 0), rest) :=
    fp_readType_byte 0x07 rest 0 .string (by omega) (by decide)
  unfold readInfoVal readValue
  simp only [List.cons_append, List.nil_append, hd]
  rfl

theorem info_char_roundtrip (c : UInt8) (lazy : Bool) (rest : Bytes) :
    ∃ bs, writeInfoVal (some (.char c)) = .ok bs ∧
      readInfoVal lazy .one .character (bs ++ rest) = .ok (some (.char c), rest) := by
  obtain ⟨d, hw, hd⟩ := fp_writeString_ok [c] (by simp [LEN_MAX])
  refine ⟨d ++ [c], hw, ?_⟩
  unfold readInfoVal
  rw [fp_readValue_str [c] d rest (by simp) hd]
  rfl

theorem fp_readValue_missing (rest : Bytes) : readValue ((0x00 : UInt8) :: rest) = .ok (.none, rest) := by
  have hd : readType ((0x00 : UInt8) :: rest) = .ok (none, rest) := by
    simp [readType]
  unfold readValue
  simp only [hd]

theorem info_flag_roundtrip (lazy : Bool) (rest : Bytes) :
    writeInfoVal (some .flag) = .ok [0x00] ∧
      readInfoVal lazy .zero .flag ([0x00] ++ rest) = .ok (some .flag, rest) := by
  refine ⟨rfl, ?_⟩
  unfold readInfoVal
  simp only [List.cons_append, List.nil_append, fp_readValue_missing]
  rfl

theorem fp_resolveInfo_none (lazy : Bool) (num : Num) (ty : HTy) (hnum : num ≠ .zero) (hty : ty ≠ .flag) :
    resolveInfo lazy num ty .none = .ok none := by
  cases num with
  | zero => exact absurd rfl hnum
  | one => cases ty <;> first | exact absurd rfl hty | rfl
  | other => cases ty <;> first | exact absurd rfl hty | (cases lazy <;> rfl)

theorem info_none_roundtrip (num : Num) (ty : HTy) (hnum : num ≠ .zero) (hty : ty ≠ .flag) (lazy : Bool) (rest : Bytes) :
    writeInfoVal none = .ok [0x00] ∧
      readInfoVal lazy num ty ([0x00] ++ rest) = .ok (none, rest) := by
  refine ⟨rfl, ?_⟩
  unfold readInfoVal
  simp only [List.cons_append, List.nil_append, fp_readValue_missing,
    fp_resolveInfo_none lazy num ty hnum hty]

/-! ### `Number=1` float column -/

theorem fp_classifyF_missing : classifyF F_MISSING = .missing := by
  simp [classifyF]

theorem fp_classifyF_eov : classifyF F_EOV = .eov := by
  simp [classifyF, F_MISSING, F_EOV]

theorem fp_readSampleEager_one_float (bs : Bytes) :
    readSampleEager .one .float (.float, 1) bs =
      (match decF bs with
       | .error e => .error e
       | .ok (v, r) =>
         match classifyF v with
         | .value n => .ok (some (.float n), r)
         | .missing => .ok (none, r)
         | _ => .error .invalid) := by
  rfl

theorem fp_readSampleLazy_one_float (bs : Bytes) :
    readSampleLazy .one .float (.float, 1) bs =
      (match decN decF 1 bs with
       | .error e => .error e
       | .ok (raw, r) =>
         match raw with
         | [v] =>
           match classifyF v with
           | .value k => .ok (some (.float k), r)
           | .missing => .ok (none, r)
           | _ => .error .invalid
         | _ => .error .invalid) := by
  rfl

theorem fp_sample_float_read (x : Option Nat) (h : FitsF x) (r : Bytes) :
    readSampleEager .one .float (.float, 1) (encF (rawF x) ++ r) = .ok (x.map SVal.float, r) := by
  rw [fp_readSampleEager_one_float, decF_encF _ (rawF_lt x h)]
  cases x with
  | none => simp only [rawF, Option.getD_none, fp_classifyF_missing, Option.map_none]
  | some v => simp only [rawF, Option.getD_some, classifyF_value v (h v rfl).2, Option.map_some]

theorem fp_sample_float_read_lazy (x : Option Nat) (h : FitsF x) (r : Bytes) :
    readSampleLazy .one .float (.float, 1) (encF (rawF x) ++ r) = .ok (x.map SVal.float, r) := by
  rw [fp_readSampleLazy_one_float]
  simp only [decN, decF_encF _ (rawF_lt x h)]
  cases x with
  | none => simp only [rawF, Option.getD_none, fp_classifyF_missing, Option.map_none]
  | some v => simp only [rawF, Option.getD_some, classifyF_value v (h v rfl).2, Option.map_some]

theorem fp_readType_float1 (r : Bytes) : readType ((0x15 : UInt8) :: r) = .ok (some (.float, 1), r) :=
  fp_readType_byte 0x15 r 1 .float (by omega) (by decide)

theorem samples_float_roundtrip (col : List (Option Nat)) (hf : ∀ x ∈ col, FitsF x) (rest : Bytes) :
    ∃ bs, writeFloatValues col = .ok bs ∧
      readColumnEager (.field .one .float) col.length (bs ++ rest)
        = .ok (col.map (·.map SVal.float), rest) ∧
      ∀ v44, readColumnLazy v44 (.field .one .float) col.length (bs ++ rest)
        = .ok (col.map (·.map SVal.float), rest) := by
  refine ⟨0x15 :: (col.map fun x => encF (rawF x)).flatten, rfl, ?_, ?_⟩
  · unfold readColumnEager
    simp only [List.cons_append, fp_readType_float1]
    exact decN_map' (fun x => encF (rawF x)) _ (·.map SVal.float) FitsF
      (fun x hx r => fp_sample_float_read x hx r) col hf rest
  · intro v44
    unfold readColumnLazy
    simp only [List.cons_append, fp_readType_float1]
    exact decN_map' (fun x => encF (rawF x)) _ (·.map SVal.float) FitsF
      (fun x hx r => fp_sample_float_read_lazy x hx r) col hf rest

/-! ### float vector column -/

/-- the raw bit patterns of one sample: its values (one `missing` for a missing sample), then
end-of-vector up to the common length -/
def fp_rawsOfF (n : Nat) : Option (List (Option Nat)) → List Nat
  | none => F_MISSING :: List.replicate (n - 1) F_EOV
  | some vs => vs.map rawF ++ List.replicate (n - vs.length) F_EOV

def fp_FitsSF (s : Option (List (Option Nat))) : Prop := ∀ vs, s = some vs → ∀ x ∈ vs, FitsF x

theorem fp_encVecF_eq (n : Nat) (s : Option (List (Option Nat))) :
    encVecF n s = ((fp_rawsOfF n s).map encF).flatten := by
  cases s with
  | none =>
    simp only [encVecF, fp_rawsOfF, List.map_cons, List.flatten_cons, List.map_replicate]
  | some vs =>
    simp only [encVecF, fp_rawsOfF, List.map_append, List.flatten_append, List.map_replicate,
      List.map_map]
    rfl

theorem fp_rawsOfF_length (n : Nat) (s : Option (List (Option Nat))) (h : lenOf s ≤ n) :
    (fp_rawsOfF n s).length = n := by
  cases s with
  | none =>
    simp only [lenOf] at h
    simp only [fp_rawsOfF, List.length_cons, List.length_replicate]; omega
  | some vs =>
    simp only [lenOf] at h
    simp only [fp_rawsOfF, List.length_append, List.length_map, List.length_replicate]; omega

theorem fp_rawsOfF_lt (n : Nat) (s : Option (List (Option Nat))) (h : fp_FitsSF s) :
    ∀ x ∈ fp_rawsOfF n s, x < 4294967296 := by
  intro x hx
  cases s with
  | none =>
    simp only [fp_rawsOfF, List.mem_cons, List.mem_replicate] at hx
    rcases hx with rfl | ⟨_, rfl⟩ <;> decide
  | some vs =>
    simp only [fp_rawsOfF, List.mem_append, List.mem_map, List.mem_replicate] at hx
    rcases hx with ⟨y, hy, rfl⟩ | ⟨_, rfl⟩
    · exact rawF_lt y (h vs rfl y hy)
    · decide

theorem fp_vecElemsF_eov (k : Nat) : vecElemsF (List.replicate k F_EOV) = .ok [] := by
  induction k with
  | zero => rfl
  | succ k ih => simp only [List.replicate_succ, vecElemsF, fp_classifyF_eov, ih]

theorem fp_vecElemsF_raws (vs : List (Option Nat)) (k : Nat) (h : ∀ x ∈ vs, FitsF x) :
    vecElemsF (vs.map rawF ++ List.replicate k F_EOV) = .ok vs := by
  induction vs with
  | nil => simpa using fp_vecElemsF_eov k
  | cons x xs ih =>
    have ih' := ih (fun y hy => h y (List.mem_cons_of_mem _ hy))
    have hx := h x (by simp)
    cases x with
    | none =>
      simp only [List.map_cons, List.cons_append, vecElemsF, rawF, Option.getD_none,
        fp_classifyF_missing]
      rw [ih']
    | some v =>
      simp only [List.map_cons, List.cons_append, vecElemsF, rawF, Option.getD_some,
        classifyF_value v (hx v rfl).2]
      rw [ih']

theorem fp_vecElemsF_rawsOfF (n : Nat) (s : Option (List (Option Nat))) (h : fp_FitsSF s) :
    vecElemsF (fp_rawsOfF n s) = .ok (match s with | none => [none] | some vs => vs) := by
  cases s with
  | none => simp only [fp_rawsOfF, vecElemsF, fp_classifyF_missing, fp_vecElemsF_eov]
  | some vs => exact fp_vecElemsF_raws vs _ (h vs rfl)

theorem fp_readSampleEager_other_float (n : Nat) (hn : n ≠ 0) (bs : Bytes) :
    readSampleEager .other .float (.float, n) bs =
      (match decN decF n bs with
       | .error e => .error e
       | .ok (raw, r) =>
         match vecElemsF raw with
         | .error e => .error e
         | .ok vs => .ok (normVec SVal.floats vs, r)) := by
  cases n with
  | zero => exact absurd rfl hn
  | succ k => first | rfl | (cases k <;> rfl)

theorem fp_readSampleLazy_other_float (n : Nat) (hn : n ≠ 0) (bs : Bytes) :
    readSampleLazy .other .float (.float, n) bs =
      (match decN decF n bs with
       | .error e => .error e
       | .ok (raw, r) =>
         match vecElemsF raw with
         | .error e => .error e
         | .ok vs => .ok (some (SVal.floats vs), r)) := by
  cases n with
  | zero => exact absurd rfl hn
  | succ k => first | rfl | (cases k <;> rfl)

theorem fp_sample_vecF_read (n : Nat) (hn : n ≠ 0) (s : Option (List (Option Nat)))
    (h : fp_FitsSF s ∧ lenOf s ≤ n) (r : Bytes) :
    readSampleEager .other .float (.float, n) (((fp_rawsOfF n s).map encF).flatten ++ r)
      = .ok (normSF s, r) := by
  rw [fp_readSampleEager_other_float n hn]
  have hl := fp_rawsOfF_length n s h.2
  have := decN_decF (fp_rawsOfF n s) (fp_rawsOfF_lt n s h.1) r
  rw [hl] at this
  rw [this]
  simp only [fp_vecElemsF_rawsOfF n s h.1]
  cases s <;> rfl

theorem fp_sample_vecF_read_lazy (n : Nat) (hn : n ≠ 0) (s : Option (List (Option Nat)))
    (h : fp_FitsSF s ∧ lenOf s ≤ n) (r : Bytes) :
    readSampleLazy .other .float (.float, n) (((fp_rawsOfF n s).map encF).flatten ++ r)
      = .ok (lazySF s, r) := by
  rw [fp_readSampleLazy_other_float n hn]
  have hl := fp_rawsOfF_length n s h.2
  have := decN_decF (fp_rawsOfF n s) (fp_rawsOfF_lt n s h.1) r
  rw [hl] at this
  rw [this]
  simp only [fp_vecElemsF_rawsOfF n s h.1]
  cases s <;> rfl

theorem samples_floats_roundtrip (col : List (Option (List (Option Nat)))) (n : Nat)
    (hmax : maxLenSome col = some n) (h1 : 1 ≤ n) (hlen : n ≤ LEN_MAX)
    (hf : ∀ vs, some vs ∈ col → ∀ x ∈ vs, FitsF x) (rest : Bytes) :
    ∃ bs, writeFloatArrayValues col = .ok bs ∧
      readColumnEager (.field .other .float) col.length (bs ++ rest) = .ok (col.map normSF, rest) ∧
      ∀ v44, readColumnLazy v44 (.field .other .float) col.length (bs ++ rest)
        = .ok (col.map lazySF, rest) := by
  obtain ⟨d, hd1, _⟩ := readType_writeType .float n hlen []
  have hd2 : ∀ r, readType (d ++ r) = .ok (some (.float, n), r) := by
    intro r
    obtain ⟨d', hd', hr'⟩ := readType_writeType .float n hlen r
    rw [hd1] at hd'; injection hd' with hd'; subst hd'; exact hr'
  have hn : n ≠ 0 := by omega
  have hP : ∀ s ∈ col, fp_FitsSF s ∧ lenOf s ≤ n := by
    intro s hs
    cases s with
    | none => exact ⟨fun vs h => (by cases h), h1⟩
    | some vs =>
      refine ⟨fun ws h x hx => ?_, maxLenSome_ge col n hmax vs hs⟩
      injection h with h
      subst h
      exact hf vs hs x hx
  have hw : writeFloatArrayValues col
      = .ok (d ++ (col.map fun s => ((fp_rawsOfF n s).map encF).flatten).flatten) := by
    have he : encVecF n = fun s => ((fp_rawsOfF n s).map encF).flatten :=
      funext (fp_encVecF_eq n)
    simp only [writeFloatArrayValues, hmax, hd1, he]
  refine ⟨_, hw, ?_, ?_⟩
  · unfold readColumnEager
    rw [List.append_assoc, hd2]
    exact decN_map' (fun s => ((fp_rawsOfF n s).map encF).flatten) _ normSF
      (fun s => fp_FitsSF s ∧ lenOf s ≤ n)
      (fun s hs r => fp_sample_vecF_read n hn s hs r) col hP rest
  · intro v44
    unfold readColumnLazy
    rw [List.append_assoc, hd2]
    exact decN_map' (fun s => ((fp_rawsOfF n s).map encF).flatten) _ lazySF
      (fun s => fp_FitsSF s ∧ lenOf s ≤ n)
      (fun s hs r => fp_sample_vecF_read_lazy n hn s hs r) col hP rest

#print axioms info_str_roundtrip
#print axioms info_str_empty
#print axioms info_char_roundtrip
#print axioms info_flag_roundtrip
#print axioms info_none_roundtrip
#print axioms samples_float_roundtrip
#print axioms samples_floats_roundtrip
#print axioms maxLenSome_ge
#print axioms maxLenSome_isSome
end Noodles.Bcf
