import Noodles.Bcf.RecordSpec
namespace Noodles.Bcf
open Noodles.Codec (Bytes Dec decN)

/-!
# Round-trip lemmas for the string-typed BCF values (helpers for C10 / Record)

INFO `Type=String` / `Type=Character` vectors and the four per-sample string columns
(`Number=1` string, `Number=1` character, character vector, string vector).
Helper lemmas carry the prefix `sp_`.
-/

/-! ### byte constants -/

theorem sp_COMMA_ne_DOT : COMMA ≠ DOT := by decide
theorem sp_NUL_ne_DOT : NUL ≠ DOT := by decide
theorem sp_NUL_ne_COMMA : NUL ≠ COMMA := by decide
theorem sp_DOT_ne_COMMA : DOT ≠ COMMA := by decide
theorem sp_DOT_ne_NUL : DOT ≠ NUL := by decide

/-! ### `untilNul` -/

theorem sp_takeWhile_replicate_nul (k : Nat) :
    (List.replicate k NUL).takeWhile (· ≠ NUL) = [] := by
  cases k with
  | zero => rfl
  | succ k => simp [List.replicate_succ]

theorem sp_takeWhile_cons_pos {α : Type} (p : α → Bool) (a : α) (l : List α) (h : p a = true) :
    (a :: l).takeWhile p = a :: l.takeWhile p := by
  simp [h]

theorem untilNul_pad (s : Bytes) (k : Nat) (h : NUL ∉ s) :
    untilNul (s ++ List.replicate k NUL) = s := by
  unfold untilNul
  induction s with
  | nil => exact sp_takeWhile_replicate_nul k
  | cons b s ih =>
    have hb : b ≠ NUL := fun e => h (by simp [e])
    have hs : NUL ∉ s := fun e => h (List.mem_cons_of_mem _ e)
    rw [List.cons_append, sp_takeWhile_cons_pos _ _ _ (by simpa using hb), ih hs]

/-! ### `splitComma` -/

/-- the fold behind `splitComma` -/
def sp_scFold (s : Bytes) : Bytes × List Bytes :=
  s.foldr (fun b (acc : Bytes × List Bytes) =>
    if b = COMMA then ([], acc.1 :: acc.2) else (b :: acc.1, acc.2)) ([], [])

theorem sp_splitComma_eq (s : Bytes) : splitComma s = (sp_scFold s).1 :: (sp_scFold s).2 := rfl

theorem sp_splitComma_cons_comma (s : Bytes) : splitComma (COMMA :: s) = [] :: splitComma s := by
  simp [sp_splitComma_eq, sp_scFold]

theorem sp_splitComma_cons_ne (b : UInt8) (s : Bytes) (h : b ≠ COMMA) :
    splitComma (b :: s) = (b :: (sp_scFold s).1) :: (sp_scFold s).2 := by
  simp [sp_splitComma_eq, sp_scFold, h]

theorem sp_splitComma_append_comma (a b : Bytes) (h : COMMA ∉ a) :
    splitComma (a ++ COMMA :: b) = a :: splitComma b := by
  induction a with
  | nil => exact sp_splitComma_cons_comma b
  | cons x a ih =>
    have hx : x ≠ COMMA := fun e => h (by simp [e])
    have ha : COMMA ∉ a := fun e => h (List.mem_cons_of_mem _ e)
    have ih' := ih ha
    rw [sp_splitComma_eq] at ih'
    injection ih' with h1 h2
    rw [List.cons_append, sp_splitComma_cons_ne _ _ hx, h1, h2]

theorem sp_splitComma_noComma (a : Bytes) (h : COMMA ∉ a) : splitComma a = [a] := by
  induction a with
  | nil => rfl
  | cons x a ih =>
    have hx : x ≠ COMMA := fun e => h (by simp [e])
    have ha : COMMA ∉ a := fun e => h (List.mem_cons_of_mem _ e)
    have ih' := ih ha
    rw [sp_splitComma_eq] at ih'
    injection ih' with h1 h2
    rw [sp_splitComma_cons_ne _ _ hx, h1, h2]

/-! ### `joinStrs` -/

theorem sp_joinStrs_single (x : Option Bytes) : joinStrs [x] = x.getD [DOT] := rfl

theorem sp_joinStrs_cons2 (x y : Option Bytes) (ys : List (Option Bytes)) :
    joinStrs (x :: y :: ys) = x.getD [DOT] ++ COMMA :: joinStrs (y :: ys) := rfl

theorem splitComma_joinStrs_raw (xs : List (Option Bytes)) (hne : xs ≠ [])
    (h : ∀ s, some s ∈ xs → COMMA ∉ s) :
    splitComma (joinStrs xs) = xs.map (fun x => x.getD [DOT]) := by
  induction xs with
  | nil => exact absurd rfl hne
  | cons x t ih =>
    have hx : COMMA ∉ x.getD [DOT] := by
      cases x with
      | none => simp [sp_COMMA_ne_DOT]
      | some s => exact h s (by simp)
    cases t with
    | nil => rw [sp_joinStrs_single, sp_splitComma_noComma _ hx]; rfl
    | cons y ys =>
      rw [sp_joinStrs_cons2, sp_splitComma_append_comma _ _ hx,
        ih (by simp) (fun s hs => h s (List.mem_cons_of_mem _ hs))]
      rfl

theorem sp_map_tok_inv (xs : List (Option Bytes)) (h : ∀ s, some s ∈ xs → s ≠ [DOT]) :
    (xs.map (fun x => x.getD [DOT])).map (fun t => if t = [DOT] then none else some t) = xs := by
  induction xs with
  | nil => rfl
  | cons x t ih =>
    have ht := ih (fun s hs => h s (List.mem_cons_of_mem _ hs))
    cases x with
    | none => simp [ht]
    | some s =>
      have := h s (by simp)
      simp [this, ht]

theorem splitComma_joinStrs (xs : List (Option Bytes)) (hne : xs ≠ [])
    (h : ∀ s, some s ∈ xs → COMMA ∉ s ∧ s ≠ [DOT]) :
    (splitComma (joinStrs xs)).map (fun t => if t = [DOT] then none else some t) = xs := by
  rw [splitComma_joinStrs_raw xs hne (fun s hs => (h s hs).1)]
  exact sp_map_tok_inv xs (fun s hs => (h s hs).2)

theorem sp_mem_getD (b : UInt8) (x : Option Bytes) (h : b ∈ x.getD [DOT]) :
    b = DOT ∨ ∃ s, x = some s ∧ b ∈ s := by
  cases x with
  | none => left; simpa using h
  | some s => right; exact ⟨s, rfl, by simpa using h⟩

/-- every byte of the serialisation is a separator, a `.`, or a byte of an element -/
theorem sp_mem_joinStrs (b : UInt8) (xs : List (Option Bytes)) (h : b ∈ joinStrs xs) :
    b = COMMA ∨ b = DOT ∨ ∃ s, some s ∈ xs ∧ b ∈ s := by
  induction xs with
  | nil => simp [joinStrs] at h
  | cons x t ih =>
    have hx : b ∈ x.getD [DOT] → b = COMMA ∨ b = DOT ∨ ∃ s, some s ∈ x :: t ∧ b ∈ s := by
      intro hb
      rcases sp_mem_getD b x hb with e | ⟨s, rfl, hs⟩
      · exact Or.inr (Or.inl e)
      · exact Or.inr (Or.inr ⟨s, by simp, hs⟩)
    cases t with
    | nil => rw [sp_joinStrs_single] at h; exact hx h
    | cons y ys =>
      rw [sp_joinStrs_cons2] at h
      rcases List.mem_append.mp h with h | h
      · exact hx h
      · rcases List.mem_cons.mp h with h | h
        · exact Or.inl h
        · rcases ih h with e | e | ⟨s, hs, hb⟩
          · exact Or.inl e
          · exact Or.inr (Or.inl e)
          · exact Or.inr (Or.inr ⟨s, List.mem_cons_of_mem _ hs, hb⟩)

theorem sp_nul_not_mem_joinStrs (xs : List (Option Bytes)) (h : ∀ s, some s ∈ xs → NUL ∉ s) :
    NUL ∉ joinStrs xs := by
  intro hm
  rcases sp_mem_joinStrs NUL xs hm with e | e | ⟨s, hs, hb⟩
  · exact sp_NUL_ne_COMMA e
  · exact sp_NUL_ne_DOT e
  · exact h s hs hb

/-! ### character vectors: `joinChars` -/

/-- the token of one character-vector element -/
def sp_charTok (x : Option UInt8) : Bytes := [x.getD DOT]

theorem sp_charTok_eq (x : Option UInt8) : (x.map fun c => [c]).getD [DOT] = sp_charTok x := by
  cases x <;> rfl

theorem sp_mem_map_single (cs : List (Option UInt8)) (s : Bytes)
    (h : some s ∈ cs.map (·.map fun c => [c])) : ∃ c, some c ∈ cs ∧ s = [c] := by
  obtain ⟨a, ha, e⟩ := List.mem_map.mp h
  cases a with
  | none => simp at e
  | some c =>
    simp only [Option.map_some, Option.some.injEq] at e
    exact ⟨c, ha, e.symm⟩

theorem sp_splitComma_joinChars (cs : List (Option UInt8)) (hne : cs ≠ [])
    (hc : ∀ c, some c ∈ cs → c ≠ COMMA) : splitComma (joinChars cs) = cs.map sp_charTok := by
  unfold joinChars
  rw [splitComma_joinStrs_raw _ (by simpa using hne), List.map_map]
  · apply List.map_congr_left
    intro x _
    exact sp_charTok_eq x
  · intro s hs
    obtain ⟨c, hcm, rfl⟩ := sp_mem_map_single cs s hs
    have := hc c hcm
    simpa using fun e => this e.symm

theorem sp_nul_not_mem_joinChars (cs : List (Option UInt8)) (hc : ∀ c, some c ∈ cs → c ≠ NUL) :
    NUL ∉ joinChars cs := by
  unfold joinChars
  apply sp_nul_not_mem_joinStrs
  intro s hs
  obtain ⟨c, hcm, rfl⟩ := sp_mem_map_single cs s hs
  have := hc c hcm
  simpa using fun e => this e.symm

theorem sp_joinChars_ne_nil (cs : List (Option UInt8)) (hne : cs ≠ []) : joinChars cs ≠ [] := by
  unfold joinChars
  match cs, hne with
  | [x], _ => cases x <;> simp [sp_joinStrs_single]
  | x :: y :: t, _ =>
    simp only [List.map_cons, sp_joinStrs_cons2]
    cases x <;> simp

theorem sp_joinChars_missing : joinChars [none] = [DOT] := rfl

/-- element reader of the eager character-vector decoders -/
def sp_charElemE : Bytes → Except RErr (Option UInt8)
  | [] => .error Noodles.Codec.Err.invalid
  | c :: _ => .ok (if c = DOT then none else some c)

/-- element reader of the lazy character-vector accessors -/
def sp_charElemL : Bytes → Except RErr (Option UInt8)
  | [c] => if c = DOT then .ok none else .ok (some c)
  | _ => .error Noodles.Codec.Err.invalid

theorem sp_mapM'_map_ok {α β ε : Type} (f : β → Except ε α) (k : α → β) (xs : List α)
    (h : ∀ x ∈ xs, f (k x) = .ok x) : mapM' f (xs.map k) = .ok xs := by
  induction xs with
  | nil => rfl
  | cons x xs ih =>
    simp only [List.map_cons, mapM', h x (by simp), ih (fun y hy => h y (List.mem_cons_of_mem _ hy))]

theorem sp_charElemE_tok (x : Option UInt8) (h : ∀ c, x = some c → c ≠ DOT) :
    sp_charElemE (sp_charTok x) = .ok x := by
  cases x with
  | none => simp [sp_charElemE, sp_charTok]
  | some c => simp [sp_charElemE, sp_charTok, h c rfl]

theorem sp_charElemL_tok (x : Option UInt8) (h : ∀ c, x = some c → c ≠ DOT) :
    sp_charElemL (sp_charTok x) = .ok x := by
  cases x with
  | none => simp [sp_charElemL, sp_charTok]
  | some c => simp [sp_charElemL, sp_charTok, h c rfl]

theorem sp_mapM'_charElemE (cs : List (Option UInt8)) (h : ∀ c, some c ∈ cs → c ≠ DOT) :
    mapM' sp_charElemE (cs.map sp_charTok) = .ok cs :=
  sp_mapM'_map_ok _ _ cs (fun x hx => sp_charElemE_tok x (fun c e => h c (e ▸ hx)))

theorem sp_mapM'_charElemL (cs : List (Option UInt8)) (h : ∀ c, some c ∈ cs → c ≠ DOT) :
    mapM' sp_charElemL (cs.map sp_charTok) = .ok cs :=
  sp_mapM'_map_ok _ _ cs (fun x hx => sp_charElemL_tok x (fun c e => h c (e ▸ hx)))

theorem sp_flatten_charTok (cs : List (Option UInt8)) (h : ∀ c, some c ∈ cs → c ≠ DOT) :
    ((cs.map sp_charTok).flatten.map fun c => if c = DOT then none else some c) = cs := by
  induction cs with
  | nil => rfl
  | cons x t ih =>
    have ht := ih (fun c hc => h c (List.mem_cons_of_mem _ hc))
    cases x with
    | none => simp [sp_charTok, ht]
    | some c =>
      have := h c (by simp)
      simp [sp_charTok, this, ht]

/-! ### `takeN`, padding, the descriptor -/

theorem sp_takeN_append (a r : Bytes) : takeN a.length (a ++ r) = .ok (a, r) := by
  simp [takeN]

/-- a value NUL-padded to the column width -/
def sp_padTo (n : Nat) (t : Bytes) : Bytes := t ++ List.replicate (n - t.length) NUL

theorem sp_padTo_length (n : Nat) (t : Bytes) (h : t.length ≤ n) : (sp_padTo n t).length = n := by
  simp only [sp_padTo, List.length_append, List.length_replicate]
  omega

theorem sp_takeN_padTo (n : Nat) (t r : Bytes) (h : t.length ≤ n) :
    takeN n (sp_padTo n t ++ r) = .ok (sp_padTo n t, r) := by
  have := sp_takeN_append (sp_padTo n t) r
  rwa [sp_padTo_length n t h] at this

theorem sp_untilNul_padTo (n : Nat) (t : Bytes) (h : NUL ∉ t) : untilNul (sp_padTo n t) = t :=
  untilNul_pad t _ h

theorem sp_string_descriptor (n : Nat) (hlen : n ≤ LEN_MAX) :
    ∃ d, writeType (some (.string, n)) = .ok d ∧
      ∀ r, readType (d ++ r) = .ok (some (.string, n), r) := by
  obtain ⟨d, hd1, _⟩ := readType_writeType .string n hlen []
  refine ⟨d, hd1, ?_⟩
  intro r
  obtain ⟨d', hd', hr'⟩ := readType_writeType .string n hlen r
  rw [hd1] at hd'; injection hd' with hd'; subst hd'; exact hr'

/-! ### INFO values -/

theorem sp_readValue_string (s d rest : Bytes) (hs : s ≠ [])
    (hd : ∀ r, readType (d ++ r) = .ok (some (.string, s.length), r)) :
    readValue (d ++ s ++ rest) = .ok (.str (some s), rest) := by
  unfold readValue
  rw [List.append_assoc, hd]
  simp only
  rw [if_neg (by simpa using hs), sp_takeN_append]

theorem sp_writeString_read (s : Bytes) (hs : s ≠ []) (hlen : s.length ≤ LEN_MAX) (rest : Bytes) :
    ∃ bs, writeString s = .ok bs ∧ readValue (bs ++ rest) = .ok (.str (some s), rest) := by
  obtain ⟨d, hd1, hd2⟩ := sp_string_descriptor s.length hlen
  refine ⟨d ++ s, ?_, sp_readValue_string s d rest hs hd2⟩
  simp only [writeString, hd1]

theorem info_strs_roundtrip (xs : List (Option Bytes)) (hj : joinStrs xs ≠ [])
    (hel : ∀ s, some s ∈ xs → COMMA ∉ s ∧ s ≠ [DOT]) (hlen : (joinStrs xs).length ≤ LEN_MAX)
    (lazy : Bool) (rest : Bytes) :
    ∃ bs, writeInfoVal (some (.strs xs)) = .ok bs ∧
      readInfoVal lazy .other .string (bs ++ rest) = .ok (some (.strs xs), rest) := by
  have hne : xs ≠ [] := fun e => hj (by rw [e]; rfl)
  obtain ⟨bs, hw, hr⟩ := sp_writeString_read (joinStrs xs) hj hlen rest
  refine ⟨bs, hw, ?_⟩
  unfold readInfoVal
  rw [hr]
  simp only [resolveInfo, resolveStrs, splitComma_joinStrs xs hne hel]

theorem info_chars_roundtrip (xs : List (Option UInt8)) (hne : xs ≠ [])
    (hel : ∀ c, some c ∈ xs → c ≠ COMMA ∧ c ≠ DOT) (hlen : (joinChars xs).length ≤ LEN_MAX)
    (lazy : Bool) (rest : Bytes) :
    ∃ bs, writeInfoVal (some (.chars xs)) = .ok bs ∧
      readInfoVal lazy .other .character (bs ++ rest) = .ok (some (.chars xs), rest) := by
  obtain ⟨bs, hw, hr⟩ := sp_writeString_read (joinChars xs) (sp_joinChars_ne_nil xs hne) hlen rest
  refine ⟨bs, hw, ?_⟩
  have hsplit := sp_splitComma_joinChars xs hne (fun c hc => (hel c hc).1)
  have hdot : ∀ c, some c ∈ xs → c ≠ DOT := fun c hc => (hel c hc).2
  unfold readInfoVal
  rw [hr]
  cases lazy with
  | false =>
    simp only [resolveInfo, resolveCharsEager, hsplit, sp_flatten_charTok xs hdot]
    rfl
  | true =>
    have hl : resolveCharsLazy (.str (some (joinChars xs))) = .ok (some (.chars xs)) := by
      have : resolveCharsLazy (.str (some (joinChars xs))) =
          (match mapM' sp_charElemL (splitComma (joinChars xs)) with
           | .ok ys => .ok (some (.chars ys))
           | .error e => .error e) := rfl
      rw [this, hsplit, sp_mapM'_charElemL xs hdot]
    simp only [resolveInfo, hl]
    rfl

/-! ### `maxLenSome` -/

/-- the fold behind `maxLenSome`, from any starting value -/
def sp_mlFrom {α : Type} (m : Option Nat) (col : List (Option (List α))) : Option Nat :=
  col.foldl (fun m s => match s with
    | some vs => some (match m with | some k => max k vs.length | none => vs.length)
    | none => m) m

theorem sp_maxLenSome_eq {α : Type} (col : List (Option (List α))) :
    maxLenSome col = sp_mlFrom none col := rfl

theorem sp_mlFrom_cons_none {α : Type} (m : Option Nat) (col : List (Option (List α))) :
    sp_mlFrom m (none :: col) = sp_mlFrom m col := rfl

theorem sp_mlFrom_cons_some {α : Type} (m : Option Nat) (vs : List α) (col : List (Option (List α))) :
    sp_mlFrom m (some vs :: col)
      = sp_mlFrom (some (match m with | some k => max k vs.length | none => vs.length)) col := rfl

/-- the maximum bounds the start value and every present value -/
theorem sp_mlFrom_ge {α : Type} (m : Option Nat) (col : List (Option (List α))) (n : Nat)
    (h : sp_mlFrom m col = some n) :
    (∀ k, m = some k → k ≤ n) ∧ ∀ s, some s ∈ col → s.length ≤ n := by
  induction col generalizing m with
  | nil =>
    refine ⟨?_, fun s hs => by cases hs⟩
    intro k hk
    have : m = some n := h
    rw [this] at hk
    injection hk with hk
    omega
  | cons c cs ih =>
    cases c with
    | none =>
      rw [sp_mlFrom_cons_none] at h
      obtain ⟨h1, h2⟩ := ih m h
      refine ⟨h1, ?_⟩
      intro s hs
      rcases List.mem_cons.mp hs with e | hs
      · cases e
      · exact h2 s hs
    | some vs =>
      rw [sp_mlFrom_cons_some] at h
      obtain ⟨h1, h2⟩ := ih _ h
      have hm := h1 _ rfl
      cases m with
      | none =>
        simp only at hm
        refine ⟨fun k hk => (by cases hk), ?_⟩
        intro s hs
        rcases List.mem_cons.mp hs with e | hs
        · injection e with e; subst e; exact hm
        · exact h2 s hs
      | some k0 =>
        simp only at hm
        refine ⟨fun k hk => (by injection hk with hk; omega), ?_⟩
        intro s hs
        rcases List.mem_cons.mp hs with e | hs
        · injection e with e; subst e; omega
        · exact h2 s hs

/-- the maximum is the start value or the length of a present value -/
theorem sp_mlFrom_attained {α : Type} (m : Option Nat) (col : List (Option (List α))) (n : Nat)
    (h : sp_mlFrom m col = some n) : m = some n ∨ ∃ s, some s ∈ col ∧ s.length = n := by
  induction col generalizing m with
  | nil => exact Or.inl h
  | cons c cs ih =>
    cases c with
    | none =>
      rw [sp_mlFrom_cons_none] at h
      rcases ih m h with e | ⟨s, hs, hl⟩
      · exact Or.inl e
      · exact Or.inr ⟨s, List.mem_cons_of_mem _ hs, hl⟩
    | some vs =>
      rw [sp_mlFrom_cons_some] at h
      rcases ih _ h with e | ⟨s, hs, hl⟩
      · injection e with e
        cases m with
        | none =>
          simp only at e
          exact Or.inr ⟨vs, by simp, e⟩
        | some k0 =>
          simp only at e
          by_cases hk : vs.length ≤ k0
          · left; congr 1; omega
          · exact Or.inr ⟨vs, by simp, by omega⟩
      · exact Or.inr ⟨s, List.mem_cons_of_mem _ hs, hl⟩

theorem sp_mlFrom_isSome {α : Type} (m : Option Nat) (col : List (Option (List α)))
    (h : m ≠ none ∨ ∃ s, some s ∈ col) : ∃ n, sp_mlFrom m col = some n := by
  induction col generalizing m with
  | nil =>
    rcases h with h | ⟨s, hs⟩
    · cases m with
      | none => exact absurd rfl h
      | some k => exact ⟨k, rfl⟩
    · cases hs
  | cons c cs ih =>
    cases c with
    | none =>
      rw [sp_mlFrom_cons_none]
      apply ih
      rcases h with h | ⟨s, hs⟩
      · exact Or.inl h
      · rcases List.mem_cons.mp hs with e | hs
        · cases e
        · exact Or.inr ⟨s, hs⟩
    | some vs =>
      rw [sp_mlFrom_cons_some]
      exact ih _ (Or.inl (by simp))

theorem sp_map_id_opt (col : List (Option Bytes)) : (col.map fun s => s.map fun b => b) = col := by
  simp

theorem sp_maxLenSome_ge (col : List (Option Bytes)) (n : Nat)
    (h : maxLenSome (col.map fun s => s.map fun b => b) = some n) :
    ∀ s, some s ∈ col → s.length ≤ n := by
  rw [sp_map_id_opt, sp_maxLenSome_eq] at h
  exact (sp_mlFrom_ge none col n h).2

theorem sp_maxLenSome_attained (col : List (Option Bytes)) (n : Nat)
    (h : maxLenSome (col.map fun s => s.map fun b => b) = some n) :
    ∃ s, some s ∈ col ∧ s.length = n := by
  rw [sp_map_id_opt, sp_maxLenSome_eq] at h
  rcases sp_mlFrom_attained none col n h with e | e
  · cases e
  · exact e

theorem sp_maxLenSome_isSome (col : List (Option Bytes)) (h : ∃ s, some s ∈ col) :
    ∃ n, maxLenSome (col.map fun s => s.map fun b => b) = some n := by
  rw [sp_map_id_opt, sp_maxLenSome_eq]
  exact sp_mlFrom_isSome none col (Or.inr h)

/-! ### the writer of a string column -/

theorem sp_strcol_setup (col : List (Option Bytes)) (n : Nat)
    (hmax : maxLenSome (col.map fun s => s.map fun b => b) = some n) (hlen : n ≤ LEN_MAX) :
    ∃ d, writeStringValues col = .ok (d ++ (col.map fun s => sp_padTo n (s.getD [DOT])).flatten)
      ∧ (∀ r, readType (d ++ r) = .ok (some (.string, n), r)) := by
  obtain ⟨d, hd1, hd2⟩ := sp_string_descriptor n hlen
  refine ⟨d, ?_, hd2⟩
  simp only [writeStringValues, hmax, hd1]
  rfl

/-! ### one sample: the readers after `takeN` -/

theorem sp_rse_one_string (n : Nat) (bs : Bytes) :
    readSampleEager .one .string (.string, n) bs =
      (match takeN n bs with
       | .error e => .error e
       | .ok (s, r) => .ok (if untilNul s = [DOT] then none else some (.str (untilNul s)), r)) := by
  rfl

theorem sp_rsl_one_string (n : Nat) (bs : Bytes) :
    readSampleLazy .one .string (.string, n) bs =
      (match takeN n bs with
       | .error e => .error e
       | .ok (s, r) => .ok (if untilNul s = [DOT] then none else some (.str (untilNul s)), r)) := by
  rfl

theorem sp_rse_one_char (n : Nat) (bs : Bytes) :
    readSampleEager .one .character (.string, n) bs =
      (match takeN n bs with
       | .error e => .error e
       | .ok (s, r) =>
         match untilNul s with
         | [] => .error .invalid
         | c :: _ => .ok (if c = DOT then none else some (.char c), r)) := by
  rfl

theorem sp_rsl_one_char (n : Nat) (bs : Bytes) :
    readSampleLazy .one .character (.string, n) bs =
      (match takeN n bs with
       | .error e => .error e
       | .ok (s, r) =>
         match untilNul s with
         | [] => .error .invalid
         | c :: _ => .ok (if c = DOT then none else some (.char c), r)) := by
  rfl

theorem sp_rse_other_char (n : Nat) (bs : Bytes) :
    readSampleEager .other .character (.string, n) bs =
      (match takeN n bs with
       | .error e => .error e
       | .ok (s, r) =>
         match mapM' sp_charElemE (splitComma (untilNul s)) with
         | .error e => .error e
         | .ok cs => .ok (some (.chars cs), r)) := by
  rfl

theorem sp_rsl_other_char (n : Nat) (bs : Bytes) :
    readSampleLazy .other .character (.string, n) bs =
      (match takeN n bs with
       | .error e => .error e
       | .ok (s, r) =>
         if untilNul s = [] then .ok (some (.chars []), r)
         else
           match mapM' sp_charElemL (splitComma (untilNul s)) with
           | .error e => .error e
           | .ok cs => .ok (some (.chars cs), r)) := by
  rfl

theorem sp_rse_other_string (n : Nat) (bs : Bytes) :
    readSampleEager .other .string (.string, n) bs =
      (match takeN n bs with
       | .error e => .error e
       | .ok (s, r) =>
         .ok (if untilNul s = [DOT] then none
              else some (.strs ((splitComma (untilNul s)).map
                fun u => if u = [DOT] then none else some u)), r)) := by
  rfl

theorem sp_rsl_other_string (n : Nat) (bs : Bytes) :
    readSampleLazy .other .string (.string, n) bs =
      (match takeN n bs with
       | .error e => .error e
       | .ok (s, r) =>
         .ok (some (.strs (if untilNul s = [] then []
               else (splitComma (untilNul s)).map fun u => if u = [DOT] then none else some u)), r)) := by
  rfl

/-! ### one sample: what the readers return for a padded value -/

theorem sp_sample_one_string (t r : Bytes) (n : Nat) (hl : t.length ≤ n) (hn : NUL ∉ t) :
    readSampleEager .one .string (.string, n) (sp_padTo n t ++ r)
        = .ok (if t = [DOT] then none else some (.str t), r) ∧
    readSampleLazy .one .string (.string, n) (sp_padTo n t ++ r)
        = .ok (if t = [DOT] then none else some (.str t), r) := by
  rw [sp_rse_one_string, sp_rsl_one_string, sp_takeN_padTo n t r hl]
  simp only [sp_untilNul_padTo n t hn, and_self]

theorem sp_sample_one_char (c : UInt8) (t' r : Bytes) (n : Nat) (hl : (c :: t').length ≤ n)
    (hn : NUL ∉ c :: t') :
    readSampleEager .one .character (.string, n) (sp_padTo n (c :: t') ++ r)
        = .ok (if c = DOT then none else some (.char c), r) ∧
    readSampleLazy .one .character (.string, n) (sp_padTo n (c :: t') ++ r)
        = .ok (if c = DOT then none else some (.char c), r) := by
  rw [sp_rse_one_char, sp_rsl_one_char, sp_takeN_padTo n _ r hl]
  simp only [sp_untilNul_padTo n _ hn, and_self]

theorem sp_sample_other_char (cs : List (Option UInt8)) (n : Nat) (r : Bytes) (hne : cs ≠ [])
    (hc : ∀ c, some c ∈ cs → c ≠ NUL ∧ c ≠ COMMA ∧ c ≠ DOT) (hl : (joinChars cs).length ≤ n) :
    readSampleEager .other .character (.string, n) (sp_padTo n (joinChars cs) ++ r)
        = .ok (some (.chars cs), r) ∧
    readSampleLazy .other .character (.string, n) (sp_padTo n (joinChars cs) ++ r)
        = .ok (some (.chars cs), r) := by
  have hnul := sp_nul_not_mem_joinChars cs (fun c h => (hc c h).1)
  have hsplit := sp_splitComma_joinChars cs hne (fun c h => (hc c h).2.1)
  have hdot : ∀ c, some c ∈ cs → c ≠ DOT := fun c h => (hc c h).2.2
  rw [sp_rse_other_char, sp_rsl_other_char, sp_takeN_padTo n _ r hl]
  simp only [sp_untilNul_padTo n _ hnul, hsplit, sp_mapM'_charElemE cs hdot,
    sp_mapM'_charElemL cs hdot, if_neg (sp_joinChars_ne_nil cs hne), and_self]

theorem sp_joinStrs_eq_dot (xs : List (Option Bytes)) (hne : xs ≠ [])
    (h : ∀ s, some s ∈ xs → COMMA ∉ s ∧ s ≠ [DOT]) (e : joinStrs xs = [DOT]) : xs = [none] := by
  have := splitComma_joinStrs xs hne h
  rw [e] at this
  exact this.symm.trans (by decide)

theorem sp_normSS_some (xs : List (Option Bytes)) (h : xs ≠ [none]) :
    normSS (some xs) = some (.strs xs) := by
  match xs, h with
  | [], _ => rfl
  | [none], h => exact absurd rfl h
  | [some _], _ => rfl
  | none :: _ :: _, _ => rfl
  | some _ :: _ :: _, _ => rfl

theorem sp_sample_other_string (xs : List (Option Bytes)) (n : Nat) (r : Bytes)
    (hj : joinStrs xs ≠ [])
    (hs : ∀ s, some s ∈ xs → NUL ∉ s ∧ COMMA ∉ s ∧ s ≠ [DOT]) (hl : (joinStrs xs).length ≤ n) :
    readSampleEager .other .string (.string, n) (sp_padTo n (joinStrs xs) ++ r)
        = .ok (normSS (some xs), r) ∧
    readSampleLazy .other .string (.string, n) (sp_padTo n (joinStrs xs) ++ r)
        = .ok (some (.strs xs), r) := by
  have hne : xs ≠ [] := fun e => hj (by rw [e]; rfl)
  have hnul := sp_nul_not_mem_joinStrs xs (fun s h => (hs s h).1)
  have hel : ∀ s, some s ∈ xs → COMMA ∉ s ∧ s ≠ [DOT] := fun s h => (hs s h).2
  have hsplit := splitComma_joinStrs xs hne hel
  rw [sp_rse_other_string, sp_rsl_other_string, sp_takeN_padTo n _ r hl]
  simp only [sp_untilNul_padTo n _ hnul, hsplit, if_neg hj, and_true]
  by_cases e : joinStrs xs = [DOT]
  · have := sp_joinStrs_eq_dot xs hne hel e
    subst this
    rfl
  · have hx : xs ≠ [none] := fun h => e (by rw [h]; rfl)
    rw [if_neg e, sp_normSS_some xs hx]

/-! ### `Number=1` string column -/

theorem samples_str_roundtrip (col : List (Option Bytes)) (n : Nat)
    (hmax : maxLenSome (col.map fun s => s.map fun b => b) = some n)
    (hnone : none ∈ col → 1 ≤ n) (hlen : n ≤ LEN_MAX)
    (hs : ∀ s, some s ∈ col → NUL ∉ s ∧ s ≠ [DOT]) (rest : Bytes) :
    ∃ bs, writeStringValues col = .ok bs ∧
      readColumnEager (.field .one .string) col.length (bs ++ rest)
        = .ok (col.map (·.map SVal.str), rest) ∧
      ∀ v44, readColumnLazy v44 (.field .one .string) col.length (bs ++ rest)
        = .ok (col.map (·.map SVal.str), rest) := by
  obtain ⟨d, hwr, hd2⟩ := sp_strcol_setup col n hmax hlen
  have hge := sp_maxLenSome_ge col n hmax
  have hP : ∀ a ∈ col, (a.getD [DOT]).length ≤ n ∧ NUL ∉ a.getD [DOT] ∧
      ((if a.getD [DOT] = [DOT] then none else some (SVal.str (a.getD [DOT])) : Option SVal)
        = a.map SVal.str) := by
    intro a ha
    cases a with
    | none =>
      refine ⟨by simpa using hnone ha, by simp [sp_NUL_ne_DOT], by simp⟩
    | some s =>
      have := hs s ha
      refine ⟨by simpa using hge s ha, by simpa using this.1, by simp [this.2]⟩
  refine ⟨_, hwr, ?_, ?_⟩
  · unfold readColumnEager
    rw [List.append_assoc, hd2]
    exact decN_map' (fun s => sp_padTo n (s.getD [DOT]))
      (readSampleEager .one .string (.string, n)) (·.map SVal.str) (· ∈ col)
      (fun a ha r => by
        rw [(sp_sample_one_string _ r n (hP a ha).1 (hP a ha).2.1).1, (hP a ha).2.2])
      col (fun _ hx => hx) rest
  · intro v44
    unfold readColumnLazy
    rw [List.append_assoc, hd2]
    exact decN_map' (fun s => sp_padTo n (s.getD [DOT]))
      (readSampleLazy .one .string (.string, n)) (·.map SVal.str) (· ∈ col)
      (fun a ha r => by
        rw [(sp_sample_one_string _ r n (hP a ha).1 (hP a ha).2.1).2, (hP a ha).2.2])
      col (fun _ hx => hx) rest

/-! ### `Number=1` character column -/

theorem samples_char_roundtrip (col : List (Option UInt8)) (hex : ∃ c, some c ∈ col)
    (hc : ∀ c, some c ∈ col → c ≠ NUL ∧ c ≠ DOT) (rest : Bytes) :
    ∃ bs, writeStringValues (col.map (·.map fun c => [c])) = .ok bs ∧
      readColumnEager (.field .one .character) col.length (bs ++ rest)
        = .ok (col.map (·.map SVal.char), rest) ∧
      ∀ v44, readColumnLazy v44 (.field .one .character) col.length (bs ++ rest)
        = .ok (col.map (·.map SVal.char), rest) := by
  obtain ⟨c0, hc0⟩ := hex
  obtain ⟨n, hmax⟩ := sp_maxLenSome_isSome (col.map (·.map fun c => [c]))
    ⟨[c0], List.mem_map.mpr ⟨some c0, hc0, rfl⟩⟩
  have hn1 : n = 1 := by
    obtain ⟨s, hs, hl⟩ := sp_maxLenSome_attained _ n hmax
    obtain ⟨c, _, rfl⟩ := sp_mem_map_single col s hs
    exact hl.symm
  subst hn1
  obtain ⟨d, hwr, hd2⟩ := sp_strcol_setup _ 1 hmax (by decide)
  have hP : ∀ a ∈ col, NUL ∉ [a.getD DOT] ∧
      ((if a.getD DOT = DOT then none else some (SVal.char (a.getD DOT)) : Option SVal)
        = a.map SVal.char) := by
    intro a ha
    cases a with
    | none => exact ⟨by simp [sp_NUL_ne_DOT], by simp⟩
    | some c =>
      have := hc c ha
      exact ⟨by simpa using fun e => this.1 e.symm, by simp [this.2]⟩
  refine ⟨_, hwr, ?_, ?_⟩
  · unfold readColumnEager
    rw [List.append_assoc, hd2, List.map_map]
    exact decN_map' (fun a => sp_padTo 1 ((a.map fun c => [c]).getD [DOT]))
      (readSampleEager .one .character (.string, 1)) (·.map SVal.char) (· ∈ col)
      (fun a ha r => by
        rw [sp_charTok_eq, sp_charTok,
          (sp_sample_one_char _ [] r 1 (Nat.le_refl _) (hP a ha).1).1, (hP a ha).2])
      col (fun _ hx => hx) rest
  · intro v44
    unfold readColumnLazy
    rw [List.append_assoc, hd2, List.map_map]
    exact decN_map' (fun a => sp_padTo 1 ((a.map fun c => [c]).getD [DOT]))
      (readSampleLazy .one .character (.string, 1)) (·.map SVal.char) (· ∈ col)
      (fun a ha r => by
        rw [sp_charTok_eq, sp_charTok,
          (sp_sample_one_char _ [] r 1 (Nat.le_refl _) (hP a ha).1).2, (hP a ha).2])
      col (fun _ hx => hx) rest

/-! ### character vector column -/

theorem sp_chars_ser (a : Option (List (Option UInt8))) :
    (a.map joinChars).getD [DOT] = joinChars (a.getD [none]) := by
  cases a <;> rfl

theorem sp_normSC_eq (a : Option (List (Option UInt8))) :
    normSC a = some (.chars (a.getD [none])) := by
  cases a <;> rfl

theorem samples_chars_roundtrip (col : List (Option (List (Option UInt8))))
    (hex : ∃ cs, some cs ∈ col) (hne : ∀ cs, some cs ∈ col → cs ≠ [])
    (hc : ∀ cs, some cs ∈ col → ∀ c, some c ∈ cs → c ≠ NUL ∧ c ≠ COMMA ∧ c ≠ DOT)
    (hlen : ∀ cs, some cs ∈ col → (joinChars cs).length ≤ LEN_MAX) (rest : Bytes) :
    ∃ bs, writeStringValues (col.map (·.map joinChars)) = .ok bs ∧
      readColumnEager (.field .other .character) col.length (bs ++ rest)
        = .ok (col.map normSC, rest) ∧
      ∀ v44, readColumnLazy v44 (.field .other .character) col.length (bs ++ rest)
        = .ok (col.map normSC, rest) := by
  obtain ⟨cs0, hcs0⟩ := hex
  have hmem : ∀ cs, some cs ∈ col → some (joinChars cs) ∈ col.map (·.map joinChars) :=
    fun cs h => List.mem_map.mpr ⟨some cs, h, rfl⟩
  obtain ⟨n, hmax⟩ := sp_maxLenSome_isSome (col.map (·.map joinChars)) ⟨_, hmem cs0 hcs0⟩
  have hge := sp_maxLenSome_ge _ n hmax
  have hnl : n ≤ LEN_MAX := by
    obtain ⟨s, hs, hl⟩ := sp_maxLenSome_attained _ n hmax
    obtain ⟨a, ha, e⟩ := List.mem_map.mp hs
    cases a with
    | none => simp at e
    | some cs =>
      simp only [Option.map_some, Option.some.injEq] at e
      subst e
      rw [← hl]
      exact hlen cs ha
  have hn1 : 1 ≤ n := by
    have h1 := hge _ (hmem cs0 hcs0)
    have h2 := sp_joinChars_ne_nil cs0 (hne cs0 hcs0)
    cases hj : joinChars cs0 with
    | nil => exact absurd hj h2
    | cons b t => rw [hj] at h1; simp only [List.length_cons] at h1; omega
  obtain ⟨d, hwr, hd2⟩ := sp_strcol_setup _ n hmax hnl
  have hP : ∀ a ∈ col, a.getD [none] ≠ [] ∧
      (∀ c, some c ∈ a.getD [none] → c ≠ NUL ∧ c ≠ COMMA ∧ c ≠ DOT) ∧
      (joinChars (a.getD [none])).length ≤ n := by
    intro a ha
    cases a with
    | none =>
      refine ⟨by simp, ?_, ?_⟩
      · intro c hcm
        simp at hcm
      · exact hn1
    | some cs => exact ⟨hne cs ha, hc cs ha, hge _ (hmem cs ha)⟩
  refine ⟨_, hwr, ?_, ?_⟩
  · unfold readColumnEager
    rw [List.append_assoc, hd2, List.map_map]
    exact decN_map' (fun a => sp_padTo n ((a.map joinChars).getD [DOT]))
      (readSampleEager .other .character (.string, n)) normSC (· ∈ col)
      (fun a ha r => by
        rw [sp_chars_ser, sp_normSC_eq,
          (sp_sample_other_char _ n r (hP a ha).1 (hP a ha).2.1 (hP a ha).2.2).1])
      col (fun _ hx => hx) rest
  · intro v44
    unfold readColumnLazy
    rw [List.append_assoc, hd2, List.map_map]
    exact decN_map' (fun a => sp_padTo n ((a.map joinChars).getD [DOT]))
      (readSampleLazy .other .character (.string, n)) normSC (· ∈ col)
      (fun a ha r => by
        rw [sp_chars_ser, sp_normSC_eq,
          (sp_sample_other_char _ n r (hP a ha).1 (hP a ha).2.1 (hP a ha).2.2).2])
      col (fun _ hx => hx) rest

/-! ### string vector column -/

/-- the serialisation `write_string_array_values` hands to `write_string_values` -/
def sp_strsSer (a : Option (List (Option Bytes))) : Option Bytes :=
  some (match a with | some vs => joinStrs vs | none => [DOT])

theorem sp_strsSer_eq (a : Option (List (Option Bytes))) :
    sp_strsSer a = some (joinStrs (a.getD [none])) := by
  cases a <;> rfl

theorem sp_normSS_eq (a : Option (List (Option Bytes))) : normSS a = normSS (some (a.getD [none])) := by
  cases a <;> rfl

theorem sp_lazySS_eq (a : Option (List (Option Bytes))) :
    lazySS a = some (.strs (a.getD [none])) := by
  cases a <;> rfl

theorem sp_writeStringArrayValues_eq (col : List (Option (List (Option Bytes)))) (hne : col ≠ []) :
    writeStringArrayValues col = writeStringValues (col.map sp_strsSer) := by
  have hemp : col.isEmpty = false := by
    cases col with
    | nil => exact absurd rfl hne
    | cons _ _ => rfl
  unfold writeStringArrayValues
  rw [hemp]
  rfl

theorem samples_strs_roundtrip (col : List (Option (List (Option Bytes)))) (hne : col ≠ [])
    (hj : ∀ xs, some xs ∈ col → joinStrs xs ≠ [])
    (hs : ∀ xs, some xs ∈ col → ∀ s, some s ∈ xs → NUL ∉ s ∧ COMMA ∉ s ∧ s ≠ [DOT])
    (hlen : ∀ xs, some xs ∈ col → (joinStrs xs).length ≤ LEN_MAX) (rest : Bytes) :
    ∃ bs, writeStringArrayValues col = .ok bs ∧
      readColumnEager (.field .other .string) col.length (bs ++ rest)
        = .ok (col.map normSS, rest) ∧
      ∀ v44, readColumnLazy v44 (.field .other .string) col.length (bs ++ rest)
        = .ok (col.map lazySS, rest) := by
  have hmem : ∀ a, a ∈ col → some (joinStrs (a.getD [none])) ∈ col.map sp_strsSer :=
    fun a h => List.mem_map.mpr ⟨a, h, sp_strsSer_eq a⟩
  obtain ⟨a0, ha0⟩ : ∃ a, a ∈ col := by
    cases col with
    | nil => exact absurd rfl hne
    | cons a _ => exact ⟨a, by simp⟩
  obtain ⟨n, hmax⟩ := sp_maxLenSome_isSome (col.map sp_strsSer) ⟨_, hmem a0 ha0⟩
  have hge := sp_maxLenSome_ge _ n hmax
  have hP : ∀ a ∈ col, joinStrs (a.getD [none]) ≠ [] ∧
      (∀ s, some s ∈ a.getD [none] → NUL ∉ s ∧ COMMA ∉ s ∧ s ≠ [DOT]) ∧
      (joinStrs (a.getD [none])).length ≤ n ∧ (joinStrs (a.getD [none])).length ≤ LEN_MAX := by
    intro a ha
    have hl := hge _ (hmem a ha)
    cases a with
    | none =>
      refine ⟨by decide, ?_, hl, by decide⟩
      intro s hsm
      simp at hsm
    | some xs => exact ⟨hj xs ha, hs xs ha, hl, hlen xs ha⟩
  have hnl : n ≤ LEN_MAX := by
    obtain ⟨s, hsm, hl⟩ := sp_maxLenSome_attained _ n hmax
    obtain ⟨a, ha, e⟩ := List.mem_map.mp hsm
    rw [sp_strsSer_eq] at e
    injection e with e
    subst e
    rw [← hl]
    exact (hP a ha).2.2.2
  obtain ⟨d, hwr, hd2⟩ := sp_strcol_setup _ n hmax hnl
  refine ⟨_, (sp_writeStringArrayValues_eq col hne).trans hwr, ?_, ?_⟩
  · unfold readColumnEager
    rw [List.append_assoc, hd2, List.map_map]
    exact decN_map' (fun a => sp_padTo n ((sp_strsSer a).getD [DOT]))
      (readSampleEager .other .string (.string, n)) normSS (· ∈ col)
      (fun a ha r => by
        rw [sp_strsSer_eq, Option.getD_some, sp_normSS_eq,
          (sp_sample_other_string _ n r (hP a ha).1 (hP a ha).2.1 (hP a ha).2.2.1).1])
      col (fun _ hx => hx) rest
  · intro v44
    unfold readColumnLazy
    rw [List.append_assoc, hd2, List.map_map]
    exact decN_map' (fun a => sp_padTo n ((sp_strsSer a).getD [DOT]))
      (readSampleLazy .other .string (.string, n)) lazySS (· ∈ col)
      (fun a ha r => by
        rw [sp_strsSer_eq, Option.getD_some, sp_lazySS_eq,
          (sp_sample_other_string _ n r (hP a ha).1 (hP a ha).2.1 (hP a ha).2.2.1).2])
      col (fun _ hx => hx) rest

#print axioms untilNul_pad
#print axioms splitComma_joinStrs
#print axioms splitComma_joinStrs_raw
#print axioms info_strs_roundtrip
#print axioms info_chars_roundtrip
#print axioms samples_str_roundtrip
#print axioms samples_char_roundtrip
#print axioms samples_chars_roundtrip
#print axioms samples_strs_roundtrip

end Noodles.Bcf
