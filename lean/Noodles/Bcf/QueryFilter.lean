import Noodles.Bgzf.ReaderModel
/-!
# The BCF query filters, sync and async (model for C16)

Transcribed from
* noodles-bcf `src/io/reader/query.rs` — `intersects(header, record, reference_sequence_id, interval)`:
  CHROM index → name through the header's contig string map (`Record::reference_sequence_name`,
  `InvalidData` when the map has no entry), name → index (`get_index_of`, `InvalidInput` when
  absent), compare with the queried id, unbounded interval ⇒ `true`, missing POS ⇒ `false`,
  `variant_end(header)`, `Interval::intersects`;
* noodles-bcf `src/async/io/reader/query.rs` — `intersects` (at HEAD, after 655489f): compares the
  raw CHROM index, then the same interval test;
* noodles-vcf `src/header/string_maps/string_map.rs` — `StringMap::{get_index, get_index_of}`
  (`entries: Vec<Option<String>>`, `indices: HashMap<String, usize>`);
* noodles-core `src/region/interval.rs` — `Interval::intersects` (missing bounds resolve to
  `Position::MIN` / `Position::MAX`).

A record is what the filters read of it: the CHROM index, `variant_start()` (an error, missing, or
a position) and `variant_end(header)` (an error or a position).  Names are numbers.
-/
namespace Noodles.Bcf.QueryFilter

inductive FErr | invalidData | invalidInput | other
  deriving Repr, DecidableEq

/-- `Interval`: optional 1-based inclusive bounds -/
structure Interval where
  lo : Option Nat
  hi : Option Nat
  deriving Repr, DecidableEq

/-- `Interval::intersects` for a record interval `start..=end` — `Position::MAX` is modelled as "no
upper bound" -/
def ivIntersects (s e : Nat) (iv : Interval) : Bool :=
  let bs := iv.lo.getD 1
  (match iv.hi with | some h => decide (s ≤ h) | none => true) && decide (bs ≤ e)

structure ContigMap where
  /-- `entries` -/
  entries : List (Option Nat)
  /-- `indices` (a `HashMap`): name ↦ index -/
  indices : List (Nat × Nat)
  deriving Repr

/-- `StringMap::get_index` -/
def ContigMap.nameAt (m : ContigMap) (i : Nat) : Option Nat := (m.entries[i]?).join

/-- `StringMap::get_index_of` -/
def ContigMap.indexOf (m : ContigMap) (n : Nat) : Option Nat := m.indices.lookup n

/-- ASSUMED LAW (the `StringMap` invariant kept by `push` / `insert_at` for distinct names; the
header parser rejects duplicate contig ids): the entry at `i` maps back to `i` -/
def ContigMap.Lawful (m : ContigMap) : Prop := ∀ i n, m.nameAt i = some n → m.indexOf n = some i

structure Rec where
  /-- `reference_sequence_id()` (a negative CHROM fails before either filter looks further: not modelled) -/
  chrom : Nat
  /-- `variant_start().transpose()` -/
  start : Except FErr (Option Nat)
  /-- `variant_end(header)` -/
  fin : Except FErr Nat
  deriving Repr

def unbounded (iv : Interval) : Bool := iv.lo.isNone && iv.hi.isNone

/-- the tail both functions share -/
def overlapTail (r : Rec) (iv : Interval) : Except FErr Bool :=
  match r.start with
  | .error e => .error e
  | .ok none => .ok false
  | .ok (some s) =>
    match r.fin with
    | .error e => .error e
    | .ok e => .ok (ivIntersects s e iv)

/-- sync `intersects` -/
def intersectsSync (m : ContigMap) (r : Rec) (rid : Nat) (iv : Interval) : Except FErr Bool :=
  match m.nameAt r.chrom with
  | none => .error .invalidData
  | some name =>
    match m.indexOf name with
    | none => .error .invalidInput
    | some id =>
      if rid ≠ id then .ok false
      else if unbounded iv then .ok true
      else overlapTail r iv

/-- async `intersects` -/
def intersectsAsync (r : Rec) (rid : Nat) (iv : Interval) : Except FErr Bool :=
  if r.chrom ≠ rid then .ok false
  else if unbounded iv then .ok true
  else overlapTail r iv

theorem intersects_refines (m : ContigMap) (hm : m.Lawful) (r : Rec) (rid : Nat) (iv : Interval)
    (b : Bool) (h : intersectsSync m r rid iv = .ok b) : intersectsAsync r rid iv = .ok b := by
  unfold intersectsSync at h
  cases hn : m.nameAt r.chrom with
  | none => rw [hn] at h; cases h
  | some name =>
    have hi := hm _ _ hn
    simp only [hn, hi] at h
    unfold intersectsAsync
    by_cases hc : rid = r.chrom
    · subst hc; simpa using h
    · have hc' : r.chrom ≠ rid := fun e => hc e.symm
      simp only [hc, hc', ne_eq, not_false_eq_true, if_true] at h ⊢
      exact h

end Noodles.Bcf.QueryFilter
