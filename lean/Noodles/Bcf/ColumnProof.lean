import Noodles.Bcf.RecordSpec
import Noodles.Bcf.ScalarsProof
import Noodles.Bcf.StringsProof
namespace Noodles.Bcf
open Noodles.Codec (Bytes Dec decN)
/-!
One FORMAT column of the samples block: `writeColumn` followed by `readColumnEager` /
`readColumnLazy` returns the normal form of the column (`writeColumn_body`), for every column kind
`colOk` accepts. Combines the per-kind round-trip theorems. Helpers are prefixed `cp_`.
-/

/-! ### plumbing -/

theorem cp_bind_ok {α β : Type} (a : α) (f : α → Except WErr β) : bind' (.ok a) f = f a := rfl

theorem cp_bind_mapMW {α β γ : Type} (f : α → Except WErr β) (g : α → β) (xs : List α)
    (w : List β → Except WErr γ) (h : ∀ x ∈ xs, f x = .ok (g x)) :
    bind' (mapMW f xs) w = w (xs.map g) := by
  unfold mapMW
  rw [mapM'_ok f g xs h]
  rfl

theorem cp_finish (h : Header) (key : String) (col : List (Option SVal)) (kb : Bytes) (kind : ColKind)
    (tc : Except WErr Bytes) (outE : List (Option SVal)) (outL : Bool → List (Option SVal))
    (rest : Bytes)
    (hw : writeColumn h key col = bind' tc fun b => .ok (kb ++ b))
    (hrt : ∃ bs, tc = .ok bs ∧ readColumnEager kind col.length (bs ++ rest) = .ok (outE, rest) ∧
      ∀ v44, readColumnLazy v44 kind col.length (bs ++ rest) = .ok (outL v44, rest))
    (hE : outE = col.map (normSValE kind)) (hL : ∀ v44, outL v44 = col.map (normSValL v44 kind)) :
    ∃ body, writeColumn h key col = .ok (kb ++ body) ∧
      readColumnEager kind col.length (body ++ rest) = .ok (col.map (normSValE kind), rest) ∧
      ∀ v44, readColumnLazy v44 kind col.length (body ++ rest)
        = .ok (col.map (normSValL v44 kind), rest) := by
  obtain ⟨bs, h1, h2, h3⟩ := hrt
  refine ⟨bs, ?_, ?_, ?_⟩
  · rw [hw, h1]; rfl
  · rw [h2, hE]
  · intro v44; rw [h3, hL]

/-! ### `Number=1` integer column: the lazy accessor -/

theorem cp_readSampleLazy_one_int (w : W) (bs : Bytes) :
    readSampleLazy .one .integer (.int w, 1) bs =
      (match decN (decS w) 1 bs with
       | .error e => .error e
       | .ok (raw, r) =>
         match raw with
         | [] => .error .invalid
         | v :: _ =>
           match classify w v with
           | .value k => .ok (some (.int k), r)
           | .missing => .ok (none, r)
           | _ => .error .invalid) := by
  rfl

theorem cp_sample_scalar_read_lazy (w : W) (x : Option Int) (h : Fits w x) (r : Bytes) :
    readSampleLazy .one .integer (.int w, 1) (encS w (raw w x) ++ r) = .ok (x.map SVal.int, r) := by
  rw [cp_readSampleLazy_one_int]
  have hr := raw_range w x h
  simp only [decN, decS_encS w _ hr.1 hr.2]
  cases x with
  | none => simp only [raw, Option.getD_none, classify_missing, Option.map_none]
  | some v => simp only [raw, Option.getD_some, classify_value w v (h v rfl).1, Option.map_some]

/-- `samples_int_roundtrip` with the lazy accessor added -/
theorem cp_samples_int_lazy (col : List (Option Int))
    (hr : ∀ x ∈ col, ∀ v, x = some v → I32_MIN + 8 ≤ v ∧ v ≤ I32_MAX) (rest : Bytes) :
    ∃ bs, writeIntValues col = .ok bs ∧
      readColumnEager (.field .one .integer) col.length (bs ++ rest)
        = .ok (col.map (·.map SVal.int), rest) ∧
      ∀ v44, readColumnLazy v44 (.field .one .integer) col.length (bs ++ rest)
        = .ok (col.map (·.map SVal.int), rest) := by
  obtain ⟨w, hw⟩ := selectWidth_some (scan col).1 (scan col).2 (scan_range col hr).1
  have hfit := scan_fits col w hr hw
  have hm : mapM' (encScalar w) col = .ok (col.map fun x => encS w (raw w x)) :=
    mapM'_ok _ _ col (fun x hx => encScalar_ok w x (hfit x hx))
  refine ⟨UInt8.ofNat (16 + w.code) :: (col.map fun x => encS w (raw w x)).flatten, ?_, ?_, ?_⟩
  · simp only [writeIntValues, hw, hm]
  · unfold readColumnEager
    simp only [List.cons_append, readType_head1]
    exact decN_map' (fun x => encS w (raw w x)) _ (·.map SVal.int) (Fits w)
      (fun x hx r => sample_scalar_read w x hx r) col hfit rest
  · intro v44
    unfold readColumnLazy
    simp only [List.cons_append, readType_head1]
    exact decN_map' (fun x => encS w (raw w x)) _ (·.map SVal.int) (Fits w)
      (fun x hx r => cp_sample_scalar_read_lazy w x hx r) col hfit rest

/-! ### GT -/

theorem cp_alleleOk (a : Allele) (h : alleleOkB a = true) : AlleleOk a := by
  intro p hp
  unfold alleleOkB at h
  rw [hp] at h
  exact of_decide_eq_true h

theorem cp_column_gt (h : Header) (key : String) (col : List (Option SVal))
    (ki : Nat) (hki : h.strings.getIndexOf key = some ki) (kb : Bytes) (hkb : writeIndex ki = .ok kb)
    (hgt : key = "GT") (d : Def) (hl : h.formats.lookup key = some d)
    (hc : colOk .gt col = true) (rest : Bytes) :
    ∃ body, writeColumn h key col = .ok (kb ++ body) ∧
      readColumnEager .gt col.length (body ++ rest) = .ok (col.map (normSValE .gt), rest) ∧
      ∀ v44, readColumnLazy v44 .gt col.length (body ++ rest)
        = .ok (col.map (normSValL v44 .gt), rest) := by
  simp only [colOk, Bool.and_eq_true, List.all_eq_true, decide_eq_true_eq] at hc
  obtain ⟨⟨hall, hp1⟩, hp2⟩ := hc
  have hent : ∀ x ∈ col, ∃ g, x = some (.gt g) ∧ ∀ a ∈ g, alleleOkB a = true := by
    intro x hx
    have hx' := hall x hx
    rcases x with _ | v
    · exact absurd hx' Bool.false_ne_true
    · cases v <;> first
        | exact ⟨_, rfl, List.all_eq_true.mp hx'⟩
        | exact absurd hx' Bool.false_ne_true
  have hw : writeColumn h key col
      = bind' (writeGenotypeValues ((col.map svGt).map some)) fun b => .ok (kb ++ b) := by
    unfold writeColumn
    simp only [hki, hkb, cp_bind_ok, hl, if_pos hgt]
    rw [cp_bind_mapMW _ (fun v => some (svGt v)) col _ (by
      intro x hx
      obtain ⟨g, rfl, _⟩ := hent x hx
      rfl), List.map_map]
    rfl
  have hrt := genotype_roundtrip (col.map svGt) (by
      intro g hg a ha
      obtain ⟨x, hx, rfl⟩ := List.mem_map.mp hg
      obtain ⟨g', rfl, hg'⟩ := hent x hx
      exact cp_alleleOk a (hg' a ha)) hp1 hp2 rest
  rw [List.length_map] at hrt
  refine cp_finish h key col kb .gt _ _ _ rest hw hrt ?_ ?_
  · rw [List.map_map]
    apply List.map_congr_left
    intro x hx
    obtain ⟨g, rfl, _⟩ := hent x hx
    rfl
  · intro v44
    rw [List.map_map]
    rfl

/-! ### integer columns -/

theorem cp_column_int (h : Header) (key : String) (col : List (Option SVal))
    (ki : Nat) (hki : h.strings.getIndexOf key = some ki) (kb : Bytes) (hkb : writeIndex ki = .ok kb)
    (hgt : ¬ key = "GT") (hl : h.formats.lookup key = some ⟨.one, .integer⟩)
    (hc : colOk (.field .one .integer) col = true) (rest : Bytes) :
    ∃ body, writeColumn h key col = .ok (kb ++ body) ∧
      readColumnEager (.field .one .integer) col.length (body ++ rest)
        = .ok (col.map (normSValE (.field .one .integer)), rest) ∧
      ∀ v44, readColumnLazy v44 (.field .one .integer) col.length (body ++ rest)
        = .ok (col.map (normSValL v44 (.field .one .integer)), rest) := by
  simp only [colOk, List.all_eq_true] at hc
  have hent : ∀ x ∈ col, x = none ∨ ∃ n, x = some (.int n) ∧ I32_MIN + 8 ≤ n ∧ n ≤ I32_MAX := by
    intro x hx
    have hx' := hc x hx
    rcases x with _ | v
    · exact .inl rfl
    · cases v <;> first
        | exact .inr ⟨_, rfl, of_decide_eq_true hx'⟩
        | exact absurd hx' Bool.false_ne_true
  have hw : writeColumn h key col
      = bind' (writeIntValues (col.map svInt)) fun b => .ok (kb ++ b) := by
    unfold writeColumn
    simp only [hki, hkb, cp_bind_ok, hl, if_neg hgt]
    rw [cp_bind_mapMW _ svInt col _ (by
      intro x hx
      rcases hent x hx with rfl | ⟨n, rfl, _⟩ <;> rfl)]
  have hrt := cp_samples_int_lazy (col.map svInt) (by
      intro x hx v hv
      obtain ⟨y, hy, rfl⟩ := List.mem_map.mp hx
      rcases hent y hy with rfl | ⟨n, rfl, hn⟩
      · cases hv
      · injection hv with hv; subst hv; exact hn) rest
  rw [List.length_map] at hrt
  have hmap : (col.map svInt).map (·.map SVal.int) = col := by
    rw [List.map_map]
    conv => rhs; rw [← List.map_id col]
    apply List.map_congr_left
    intro x hx
    rcases hent x hx with rfl | ⟨n, rfl, _⟩ <;> rfl
  refine cp_finish h key col kb _ _ _ (fun _ => _) rest hw hrt ?_ ?_
  · rw [hmap]
    conv => lhs; rw [← List.map_id col]
    rfl
  · intro v44
    rw [hmap]
    conv => lhs; rw [← List.map_id col]
    rfl

theorem cp_mem_flatVals (col : List (Option (List (Option Int)))) (x : Option Int)
    (hx : x ∈ flatVals col) : ∃ vs, some vs ∈ col ∧ x ∈ vs := by
  unfold flatVals at hx
  obtain ⟨l, hl, hxl⟩ := List.mem_flatten.mp hx
  obtain ⟨s, hs, rfl⟩ := List.mem_map.mp hl
  cases s with
  | none => cases hxl
  | some vs => exact ⟨vs, hs, hxl⟩

theorem cp_column_ints (h : Header) (key : String) (col : List (Option SVal))
    (ki : Nat) (hki : h.strings.getIndexOf key = some ki) (kb : Bytes) (hkb : writeIndex ki = .ok kb)
    (hgt : ¬ key = "GT") (hl : h.formats.lookup key = some ⟨.other, .integer⟩)
    (hc : colOk (.field .other .integer) col = true) (rest : Bytes) :
    ∃ body, writeColumn h key col = .ok (kb ++ body) ∧
      readColumnEager (.field .other .integer) col.length (body ++ rest)
        = .ok (col.map (normSValE (.field .other .integer)), rest) ∧
      ∀ v44, readColumnLazy v44 (.field .other .integer) col.length (body ++ rest)
        = .ok (col.map (normSValL v44 (.field .other .integer)), rest) := by
  simp only [colOk, Bool.and_eq_true, List.all_eq_true, decide_eq_true_eq] at hc
  obtain ⟨⟨hall, hp1⟩, hp2⟩ := hc
  have hent : ∀ x ∈ col, x = none ∨ ∃ xs, x = some (.ints xs) ∧
      ∀ y ∈ xs, optAll fitsIB y = true := by
    intro x hx
    have hx' := hall x hx
    rcases x with _ | v
    · exact .inl rfl
    · cases v <;> first
        | exact .inr ⟨_, rfl, List.all_eq_true.mp hx'⟩
        | exact absurd hx' Bool.false_ne_true
  have hw : writeColumn h key col
      = bind' (writeIntArrayValues (col.map svInts)) fun b => .ok (kb ++ b) := by
    unfold writeColumn
    simp only [hki, hkb, cp_bind_ok, hl, if_neg hgt]
    rw [cp_bind_mapMW _ svInts col _ (by
      intro x hx
      rcases hent x hx with rfl | ⟨n, rfl, _⟩ <;> rfl)]
  have hrt := samples_ints_roundtrip (col.map svInts) hp1 hp2 (by
      intro x hx v hv
      obtain ⟨vs, hvs, hxv⟩ := cp_mem_flatVals _ x hx
      obtain ⟨y, hy, hyv⟩ := List.mem_map.mp hvs
      rcases hent y hy with rfl | ⟨xs, rfl, hxs⟩
      · cases hyv
      · injection hyv with hyv
        subst hyv
        have := hxs x hxv
        subst hv
        exact of_decide_eq_true this) rest
  rw [List.length_map] at hrt
  refine cp_finish h key col kb _ _ _ (fun _ => _) rest hw hrt ?_ ?_
  · rw [List.map_map]; rfl
  · intro v44
    rw [List.map_map]; rfl

/-! ### float columns -/

theorem cp_column_float (h : Header) (key : String) (col : List (Option SVal))
    (ki : Nat) (hki : h.strings.getIndexOf key = some ki) (kb : Bytes) (hkb : writeIndex ki = .ok kb)
    (hgt : ¬ key = "GT") (hl : h.formats.lookup key = some ⟨.one, .float⟩)
    (hc : colOk (.field .one .float) col = true) (rest : Bytes) :
    ∃ body, writeColumn h key col = .ok (kb ++ body) ∧
      readColumnEager (.field .one .float) col.length (body ++ rest)
        = .ok (col.map (normSValE (.field .one .float)), rest) ∧
      ∀ v44, readColumnLazy v44 (.field .one .float) col.length (body ++ rest)
        = .ok (col.map (normSValL v44 (.field .one .float)), rest) := by
  simp only [colOk, List.all_eq_true] at hc
  have hent : ∀ x ∈ col, x = none ∨ ∃ b, x = some (.float b) ∧ FitsF (some b) := by
    intro x hx
    have hx' := hc x hx
    rcases x with _ | v
    · exact .inl rfl
    · cases v <;> first
        | exact .inr ⟨_, rfl, fun b hb => by
            injection hb with hb; subst hb; exact of_decide_eq_true hx'⟩
        | exact absurd hx' Bool.false_ne_true
  have hw : writeColumn h key col
      = bind' (writeFloatValues (col.map svFloat)) fun b => .ok (kb ++ b) := by
    unfold writeColumn
    simp only [hki, hkb, cp_bind_ok, hl, if_neg hgt]
    rw [cp_bind_mapMW _ svFloat col _ (by
      intro x hx
      rcases hent x hx with rfl | ⟨n, rfl, _⟩ <;> rfl)]
  have hrt := samples_float_roundtrip (col.map svFloat) (by
      intro x hx
      obtain ⟨y, hy, rfl⟩ := List.mem_map.mp hx
      rcases hent y hy with rfl | ⟨n, rfl, hn⟩
      · intro b hb; cases hb
      · exact hn) rest
  rw [List.length_map] at hrt
  have hmap : (col.map svFloat).map (·.map SVal.float) = col := by
    rw [List.map_map]
    conv => rhs; rw [← List.map_id col]
    apply List.map_congr_left
    intro x hx
    rcases hent x hx with rfl | ⟨n, rfl, _⟩ <;> rfl
  refine cp_finish h key col kb _ _ _ (fun _ => _) rest hw hrt ?_ ?_
  · rw [hmap]
    conv => lhs; rw [← List.map_id col]
    rfl
  · intro v44
    rw [hmap]
    conv => lhs; rw [← List.map_id col]
    rfl

theorem cp_column_floats (h : Header) (key : String) (col : List (Option SVal))
    (ki : Nat) (hki : h.strings.getIndexOf key = some ki) (kb : Bytes) (hkb : writeIndex ki = .ok kb)
    (hgt : ¬ key = "GT") (hl : h.formats.lookup key = some ⟨.other, .float⟩)
    (hc : colOk (.field .other .float) col = true) (rest : Bytes) :
    ∃ body, writeColumn h key col = .ok (kb ++ body) ∧
      readColumnEager (.field .other .float) col.length (body ++ rest)
        = .ok (col.map (normSValE (.field .other .float)), rest) ∧
      ∀ v44, readColumnLazy v44 (.field .other .float) col.length (body ++ rest)
        = .ok (col.map (normSValL v44 (.field .other .float)), rest) := by
  simp only [colOk, Bool.and_eq_true, List.all_eq_true] at hc
  obtain ⟨hall, hmx⟩ := hc
  have hent : ∀ x ∈ col, x = none ∨ ∃ xs, x = some (.floats xs) ∧
      ∀ y ∈ xs, optAll fitsFB y = true := by
    intro x hx
    have hx' := hall x hx
    rcases x with _ | v
    · exact .inl rfl
    · cases v <;> first
        | exact .inr ⟨_, rfl, List.all_eq_true.mp hx'⟩
        | exact absurd hx' Bool.false_ne_true
  have hw : writeColumn h key col
      = bind' (writeFloatArrayValues (col.map svFloats)) fun b => .ok (kb ++ b) := by
    unfold writeColumn
    simp only [hki, hkb, cp_bind_ok, hl, if_neg hgt]
    rw [cp_bind_mapMW _ svFloats col _ (by
      intro x hx
      rcases hent x hx with rfl | ⟨n, rfl, _⟩ <;> rfl)]
  cases hm : maxLenSome (col.map svFloats) with
  | none => rw [hm] at hmx; exact absurd hmx Bool.false_ne_true
  | some n =>
    rw [hm] at hmx
    simp only [Bool.and_eq_true, decide_eq_true_eq] at hmx
    have hrt := samples_floats_roundtrip (col.map svFloats) n hm hmx.1 hmx.2 (by
        intro vs hvs x hxv
        obtain ⟨y, hy, hyv⟩ := List.mem_map.mp hvs
        rcases hent y hy with rfl | ⟨xs, rfl, hxs⟩
        · cases hyv
        · injection hyv with hyv
          subst hyv
          have := hxs x hxv
          intro b hb
          subst hb
          exact of_decide_eq_true this) rest
    rw [List.length_map] at hrt
    refine cp_finish h key col kb _ _ _ (fun _ => _) rest hw hrt ?_ ?_
    · rw [List.map_map]; rfl
    · intro v44
      rw [List.map_map]; rfl

/-! ### string and character columns -/

theorem cp_ne_nil {α : Type} (l : List α) (h : l.isEmpty = false) : l ≠ [] := by
  cases l with
  | nil => exact absurd h (fun e => Bool.noConfusion e)
  | cons a t => exact List.cons_ne_nil a t

theorem cp_column_str (h : Header) (key : String) (col : List (Option SVal))
    (ki : Nat) (hki : h.strings.getIndexOf key = some ki) (kb : Bytes) (hkb : writeIndex ki = .ok kb)
    (hgt : ¬ key = "GT") (hl : h.formats.lookup key = some ⟨.one, .string⟩)
    (hc : colOk (.field .one .string) col = true) (rest : Bytes) :
    ∃ body, writeColumn h key col = .ok (kb ++ body) ∧
      readColumnEager (.field .one .string) col.length (body ++ rest)
        = .ok (col.map (normSValE (.field .one .string)), rest) ∧
      ∀ v44, readColumnLazy v44 (.field .one .string) col.length (body ++ rest)
        = .ok (col.map (normSValL v44 (.field .one .string)), rest) := by
  simp only [colOk, Bool.and_eq_true, List.all_eq_true] at hc
  obtain ⟨hall, hmx⟩ := hc
  have hent : ∀ x ∈ col, x = none ∨ ∃ s, x = some (.str s) ∧ NUL ∉ s ∧ s ≠ [DOT] := by
    intro x hx
    have hx' := hall x hx
    rcases x with _ | v
    · exact .inl rfl
    · cases v with
      | str s => exact .inr ⟨s, rfl, by simpa using hx'⟩
      | _ => exact absurd hx' Bool.false_ne_true
  have hw : writeColumn h key col
      = bind' (writeStringValues (col.map svStr)) fun b => .ok (kb ++ b) := by
    unfold writeColumn
    simp only [hki, hkb, cp_bind_ok, hl, if_neg hgt]
    rw [cp_bind_mapMW _ svStr col _ (by
      intro x hx
      rcases hent x hx with rfl | ⟨n, rfl, _⟩ <;> rfl)]
  cases hm : maxLenSome (col.map svStr) with
  | none => rw [hm] at hmx; exact absurd hmx Bool.false_ne_true
  | some n =>
    rw [hm] at hmx
    simp only [Bool.and_eq_true, Bool.or_eq_true, Bool.not_eq_true', decide_eq_true_eq] at hmx
    have hrt := samples_str_roundtrip (col.map svStr) n (by rw [sp_map_id_opt]; exact hm) (by
        intro hn
        obtain ⟨y, hy, hyv⟩ := List.mem_map.mp hn
        have hany : col.any (·.isNone) = true := by
          rcases hent y hy with rfl | ⟨s, rfl, _⟩
          · exact List.any_eq_true.mpr ⟨none, hy, rfl⟩
          · cases hyv
        rcases hmx.2 with hf | h1
        · rw [hany] at hf; cases hf
        · exact h1) hmx.1 (by
        intro s hs
        obtain ⟨y, hy, hyv⟩ := List.mem_map.mp hs
        rcases hent y hy with rfl | ⟨t, rfl, ht⟩
        · cases hyv
        · injection hyv with hyv
          subst hyv
          exact ht) rest
    rw [List.length_map] at hrt
    have hmap : (col.map svStr).map (·.map SVal.str) = col := by
      rw [List.map_map]
      conv => rhs; rw [← List.map_id col]
      apply List.map_congr_left
      intro x hx
      rcases hent x hx with rfl | ⟨n, rfl, _⟩ <;> rfl
    refine cp_finish h key col kb _ _ _ (fun _ => _) rest hw hrt ?_ ?_
    · rw [hmap]
      conv => lhs; rw [← List.map_id col]
      rfl
    · intro v44
      rw [hmap]
      conv => lhs; rw [← List.map_id col]
      rfl

theorem cp_column_char (h : Header) (key : String) (col : List (Option SVal))
    (ki : Nat) (hki : h.strings.getIndexOf key = some ki) (kb : Bytes) (hkb : writeIndex ki = .ok kb)
    (hgt : ¬ key = "GT") (hl : h.formats.lookup key = some ⟨.one, .character⟩)
    (hc : colOk (.field .one .character) col = true) (rest : Bytes) :
    ∃ body, writeColumn h key col = .ok (kb ++ body) ∧
      readColumnEager (.field .one .character) col.length (body ++ rest)
        = .ok (col.map (normSValE (.field .one .character)), rest) ∧
      ∀ v44, readColumnLazy v44 (.field .one .character) col.length (body ++ rest)
        = .ok (col.map (normSValL v44 (.field .one .character)), rest) := by
  simp only [colOk, Bool.and_eq_true, List.all_eq_true, List.any_eq_true] at hc
  obtain ⟨hall, x0, hx0, hsome⟩ := hc
  have hent : ∀ x ∈ col, x = none ∨ ∃ c, x = some (.char c) ∧ c ≠ NUL ∧ c ≠ DOT := by
    intro x hx
    have hx' := hall x hx
    rcases x with _ | v
    · exact .inl rfl
    · cases v with
      | char c => exact .inr ⟨c, rfl, by simpa using hx'⟩
      | _ => exact absurd hx' Bool.false_ne_true
  have hw : writeColumn h key col
      = bind' (writeStringValues ((col.map svChar).map (·.map fun c => [c])))
          fun b => .ok (kb ++ b) := by
    unfold writeColumn
    simp only [hki, hkb, cp_bind_ok, hl, if_neg hgt]
    rw [cp_bind_mapMW _ (fun v => (svChar v).map fun c => [c]) col _ (by
      intro x hx
      rcases hent x hx with rfl | ⟨n, rfl, _⟩ <;> rfl), List.map_map]
    rfl
  have hrt := samples_char_roundtrip (col.map svChar) (by
      rcases hent x0 hx0 with rfl | ⟨c, rfl, _⟩
      · cases hsome
      · exact ⟨c, List.mem_map.mpr ⟨_, hx0, rfl⟩⟩) (by
      intro c hcm
      obtain ⟨y, hy, hyv⟩ := List.mem_map.mp hcm
      rcases hent y hy with rfl | ⟨t, rfl, ht⟩
      · cases hyv
      · injection hyv with hyv
        subst hyv
        exact ht) rest
  rw [List.length_map] at hrt
  have hmap : (col.map svChar).map (·.map SVal.char) = col := by
    rw [List.map_map]
    conv => rhs; rw [← List.map_id col]
    apply List.map_congr_left
    intro x hx
    rcases hent x hx with rfl | ⟨n, rfl, _⟩ <;> rfl
  refine cp_finish h key col kb _ _ _ (fun _ => _) rest hw hrt ?_ ?_
  · rw [hmap]
    conv => lhs; rw [← List.map_id col]
    rfl
  · intro v44
    rw [hmap]
    conv => lhs; rw [← List.map_id col]
    rfl

theorem cp_column_chars (h : Header) (key : String) (col : List (Option SVal))
    (ki : Nat) (hki : h.strings.getIndexOf key = some ki) (kb : Bytes) (hkb : writeIndex ki = .ok kb)
    (hgt : ¬ key = "GT") (hl : h.formats.lookup key = some ⟨.other, .character⟩)
    (hc : colOk (.field .other .character) col = true) (rest : Bytes) :
    ∃ body, writeColumn h key col = .ok (kb ++ body) ∧
      readColumnEager (.field .other .character) col.length (body ++ rest)
        = .ok (col.map (normSValE (.field .other .character)), rest) ∧
      ∀ v44, readColumnLazy v44 (.field .other .character) col.length (body ++ rest)
        = .ok (col.map (normSValL v44 (.field .other .character)), rest) := by
  simp only [colOk, Bool.and_eq_true, List.all_eq_true, List.any_eq_true] at hc
  obtain ⟨hall, x0, hx0, hsome⟩ := hc
  have hent : ∀ x ∈ col, x = none ∨ ∃ cs, x = some (.chars cs) ∧ cs ≠ [] ∧
      (joinChars cs).length ≤ LEN_MAX ∧
      ∀ c, some c ∈ cs → c ≠ NUL ∧ c ≠ COMMA ∧ c ≠ DOT := by
    intro x hx
    have hx' := hall x hx
    rcases x with _ | v
    · exact .inl rfl
    · cases v with
      | chars cs =>
        simp only [Bool.and_eq_true, Bool.not_eq_true', decide_eq_true_eq, List.all_eq_true] at hx'
        refine .inr ⟨cs, rfl, cp_ne_nil cs hx'.1.1, hx'.1.2, ?_⟩
        intro c hcm
        have := hx'.2 (some c) hcm
        simpa [optAll, and_assoc] using this
      | _ => exact absurd hx' Bool.false_ne_true
  have hw : writeColumn h key col
      = bind' (writeStringValues ((col.map svChars).map (·.map joinChars)))
          fun b => .ok (kb ++ b) := by
    unfold writeColumn
    simp only [hki, hkb, cp_bind_ok, hl, if_neg hgt]
    rw [cp_bind_mapMW _ (fun v => (svChars v).map joinChars) col _ (by
      intro x hx
      rcases hent x hx with rfl | ⟨n, rfl, _⟩ <;> rfl), List.map_map]
    rfl
  have hback : ∀ cs, some cs ∈ col.map svChars → some (SVal.chars cs) ∈ col := by
    intro cs hcm
    obtain ⟨y, hy, hyv⟩ := List.mem_map.mp hcm
    rcases hent y hy with rfl | ⟨t, rfl, _⟩
    · cases hyv
    · injection hyv with hyv
      subst hyv
      exact hy
  have hprop : ∀ cs, some cs ∈ col.map svChars → cs ≠ [] ∧
      (joinChars cs).length ≤ LEN_MAX ∧
      ∀ c, some c ∈ cs → c ≠ NUL ∧ c ≠ COMMA ∧ c ≠ DOT := by
    intro cs hcm
    rcases hent _ (hback cs hcm) with e | ⟨t, e, ht⟩
    · cases e
    · injection e with e
      injection e with e
      subst e
      exact ht
  have hrt := samples_chars_roundtrip (col.map svChars) (by
      rcases hent x0 hx0 with rfl | ⟨c, rfl, _⟩
      · cases hsome
      · exact ⟨c, List.mem_map.mpr ⟨_, hx0, rfl⟩⟩)
    (fun cs hcm => (hprop cs hcm).1) (fun cs hcm => (hprop cs hcm).2.2)
    (fun cs hcm => (hprop cs hcm).2.1) rest
  rw [List.length_map] at hrt
  refine cp_finish h key col kb _ _ _ (fun _ => _) rest hw hrt ?_ ?_
  · rw [List.map_map]; rfl
  · intro v44
    rw [List.map_map]; rfl

theorem cp_column_strs (h : Header) (key : String) (col : List (Option SVal))
    (ki : Nat) (hki : h.strings.getIndexOf key = some ki) (kb : Bytes) (hkb : writeIndex ki = .ok kb)
    (hgt : ¬ key = "GT") (hl : h.formats.lookup key = some ⟨.other, .string⟩)
    (hc : colOk (.field .other .string) col = true) (rest : Bytes) :
    ∃ body, writeColumn h key col = .ok (kb ++ body) ∧
      readColumnEager (.field .other .string) col.length (body ++ rest)
        = .ok (col.map (normSValE (.field .other .string)), rest) ∧
      ∀ v44, readColumnLazy v44 (.field .other .string) col.length (body ++ rest)
        = .ok (col.map (normSValL v44 (.field .other .string)), rest) := by
  simp only [colOk, Bool.and_eq_true, List.all_eq_true, Bool.not_eq_true'] at hc
  obtain ⟨hall, hcne⟩ := hc
  have hent : ∀ x ∈ col, x = none ∨ ∃ xs, x = some (.strs xs) ∧ joinStrs xs ≠ [] ∧
      (joinStrs xs).length ≤ LEN_MAX ∧
      ∀ s, some s ∈ xs → NUL ∉ s ∧ COMMA ∉ s ∧ s ≠ [DOT] := by
    intro x hx
    have hx' := hall x hx
    rcases x with _ | v
    · exact .inl rfl
    · cases v with
      | strs xs =>
        simp only [Bool.and_eq_true, Bool.not_eq_true', decide_eq_true_eq, List.all_eq_true] at hx'
        refine .inr ⟨xs, rfl, cp_ne_nil _ hx'.1.1, hx'.1.2, ?_⟩
        intro s hsm
        have := hx'.2 (some s) hsm
        simpa [optAll, and_assoc] using this
      | _ => exact absurd hx' Bool.false_ne_true
  have hw : writeColumn h key col
      = bind' (writeStringArrayValues (col.map svStrs)) fun b => .ok (kb ++ b) := by
    unfold writeColumn
    simp only [hki, hkb, cp_bind_ok, hl, if_neg hgt]
    rw [cp_bind_mapMW _ svStrs col _ (by
      intro x hx
      rcases hent x hx with rfl | ⟨n, rfl, _⟩ <;> rfl)]
  have hprop : ∀ xs, some xs ∈ col.map svStrs → joinStrs xs ≠ [] ∧
      (joinStrs xs).length ≤ LEN_MAX ∧
      ∀ s, some s ∈ xs → NUL ∉ s ∧ COMMA ∉ s ∧ s ≠ [DOT] := by
    intro xs hcm
    obtain ⟨y, hy, hyv⟩ := List.mem_map.mp hcm
    rcases hent y hy with rfl | ⟨t, rfl, ht⟩
    · cases hyv
    · injection hyv with hyv
      subst hyv
      exact ht
  have hrt := samples_strs_roundtrip (col.map svStrs) (by
      intro e
      exact cp_ne_nil col hcne (List.map_eq_nil_iff.mp e))
    (fun xs hcm => (hprop xs hcm).1) (fun xs hcm => (hprop xs hcm).2.2)
    (fun xs hcm => (hprop xs hcm).2.1) rest
  rw [List.length_map] at hrt
  refine cp_finish h key col kb _ _ _ (fun _ => _) rest hw hrt ?_ ?_
  · rw [List.map_map]; rfl
  · intro v44
    rw [List.map_map]; rfl

/-! ### every column kind -/

theorem writeColumn_body (h : Header) (key : String) (col : List (Option SVal))
    (ki : Nat) (hki : h.strings.getIndexOf key = some ki) (kb : Bytes) (hkb : writeIndex ki = .ok kb)
    (hd : (h.formats.lookup key).isSome = true) (hc : colOk (kindOf h key) col = true) (rest : Bytes) :
    ∃ body, writeColumn h key col = .ok (kb ++ body) ∧
      readColumnEager (kindOf h key) col.length (body ++ rest)
        = .ok (col.map (normSValE (kindOf h key)), rest) ∧
      ∀ v44, readColumnLazy v44 (kindOf h key) col.length (body ++ rest)
        = .ok (col.map (normSValL v44 (kindOf h key)), rest) := by
  cases hl : h.formats.lookup key with
  | none => rw [hl] at hd; exact absurd hd (by decide)
  | some d =>
    by_cases hgt : key = "GT"
    · have hk : kindOf h key = .gt := by unfold kindOf; rw [if_pos hgt]
      rw [hk] at hc ⊢
      exact cp_column_gt h key col ki hki kb hkb hgt d hl hc rest
    · obtain ⟨num, ty⟩ := d
      have hk : kindOf h key = .field num ty := by unfold kindOf; rw [if_neg hgt, hl]
      rw [hk] at hc ⊢
      cases ty with
      | integer =>
        cases num with
        | zero => exact absurd hc Bool.false_ne_true
        | one => exact cp_column_int h key col ki hki kb hkb hgt hl hc rest
        | other => exact cp_column_ints h key col ki hki kb hkb hgt hl hc rest
      | float =>
        cases num with
        | zero => exact absurd hc Bool.false_ne_true
        | one => exact cp_column_float h key col ki hki kb hkb hgt hl hc rest
        | other => exact cp_column_floats h key col ki hki kb hkb hgt hl hc rest
      | flag => cases num <;> exact absurd hc Bool.false_ne_true
      | character =>
        cases num with
        | zero => exact absurd hc Bool.false_ne_true
        | one => exact cp_column_char h key col ki hki kb hkb hgt hl hc rest
        | other => exact cp_column_chars h key col ki hki kb hkb hgt hl hc rest
      | string =>
        cases num with
        | zero => exact absurd hc Bool.false_ne_true
        | one => exact cp_column_str h key col ki hki kb hkb hgt hl hc rest
        | other => exact cp_column_strs h key col ki hki kb hkb hgt hl hc rest

#print axioms writeColumn_body

end Noodles.Bcf
