import Noodles.Bcf.DriverC10
import Noodles.Bcf.RecordSpec
/-!
Line-protocol handler for the whole-record extension of C10 (`c10 recx …`); every other `c10`
request falls through to `handleC10`.

```
c10 recx <ver> <nsample> <dict> <chrom> <pos> <qual> <ids> <ref> <alts> <filters> <info> <fmt>
   → wf=<0|1> ls=<l_shared> li=<l_indiv> <record hex> end=<n|err> E <canon|err> L <canon|err>
   → wf=<0|1> err:invalid-input | err:invalid-data | panic            (writer refused)
c10 end <record hex>   → <n> | err          (`bcf::Record::end()` of a hand-framed record)
```
`wf` is the decidable hypothesis `recWF` of `Noodles.Props.C10.bcf_record_roundtrip`, evaluated on
the request; `end` is `bcf::Record::end()` (`lazyEnd` of the site block), printed as `err` when the
lazy reader fails.
-/
namespace Noodles.Bcf
open Noodles.Wire

def handleC10X : List String → String
  | ["recx", ver, ns, dict, chrom, pos, qual, ids, ref, alts, filters, info, fmt] =>
    match parseHeader ver ns dict, parseRec chrom pos qual ids ref alts filters info fmt with
    | some h, some r =>
      let wf := if recWF h r then "wf=1" else "wf=0"
      match writeRecord h r, writeSite h r, writeSamples h r with
      | .ok bs, .ok site, .ok smp =>
        let l := readRecord true h bs
        let e := match l with
          | .ok _ => (match lazyEnd site with | some n => s!"{n}" | none => "err")
          | .error _ => "err"
        s!"{wf} ls={site.length} li={smp.length} {hex bs} end={e} E {fmtRead (readRecord false h bs)} L {fmtRead l}"
      | .error e, _, _ => s!"{wf} {fmtWErr e}"
      | _, _, _ => s!"{wf} bad-model"
    | none, _ => "bad-header"
    | _, none => "bad-record"
  | ["end", bytes] =>
    -- `bcf::Record::end()` of a hand-framed record: `lazyEnd` of its site block
    match unhex bytes with
    | some bs =>
      match Noodles.Codec.unle 4 bs with
      | .ok (ls, r) =>
        match takeN ls (r.drop 4) with
        | .ok (site, _) => (match lazyEnd site with | some n => s!"{n}" | none => "err")
        | .error _ => "err"
      | .error _ => "err"
    | none => "bad-op"
  | rest => handleC10 rest

end Noodles.Bcf
