import Noodles.Basic.Wire
import Noodles.Bcf.Record
/-!
Line-protocol handler for the BCF record model (`c10 …`).

```
c10 rec <ver> <nsample> <dict> <chrom> <pos> <qual> <ids> <ref> <alts> <filters> <info> <fmt>
      → <record hex> E <canon|err> L <canon|err>       (or err:invalid-input / err:invalid-data / panic)
c10 dec <ver> <nsample> <dict> <record hex>
      → E <canon|err> L <canon|err>
```
`canon` is `<chrom> <pos> <qual> <ids> <ref> <alts> <filters> <info> <fmt>` in the request syntax.
-/
namespace Noodles.Bcf
open Noodles.Wire

def parseInt (s : String) : Option Int :=
  match s.toList with
  | '-' :: r => (String.ofList r).toNat?.map fun n => -(n : Int)
  | _ => s.toNat?.map fun n => (n : Int)

def hexNat (s : String) : Option Nat :=
  s.toList.foldlM (fun acc c => (hexDigit c).map fun d => acc * 16 + d) 0

def parseNum : String → Option Num
  | "0" => some .zero | "1" => some .one | "n" => some .other | _ => none
def parseHTy : String → Option HTy
  | "i" => some .integer | "f" => some .float | "b" => some .flag
  | "c" => some .character | "s" => some .string | _ => none
def parseIdx (s : String) : Option (Option Nat) := if s = "-" then some none else s.toNat?.map some

/-- header dictionary; entries are applied in the order given (the harness emits them in the
order of `StringMaps::try_from(&Header)`: contigs, INFO, FILTER, FORMAT) -/
def parseHeader (ver nsample dict : String) : Option Header := do
  let n ← nsample.toNat?
  let ents := if dict = "-" then [] else dict.splitOn ","
  let init : Header := ⟨ver = "44", n, StringMap.defaultStrings, StringMap.empty, [], []⟩
  ents.foldlM (fun (h : Header) e =>
    match e.splitOn "/" with
    | ["C", name, idx] => do
      let m ← h.contigs.insert name (← parseIdx idx)
      pure { h with contigs := m }
    | ["F", name, idx] => do
      let m ← h.strings.insert name (← parseIdx idx)
      pure { h with strings := m }
    | ["I", name, idx, num, ty] => do
      let m ← h.strings.insert name (← parseIdx idx)
      pure { h with strings := m, infos := h.infos ++ [(name, ⟨← parseNum num, ← parseHTy ty⟩)] }
    | ["G", name, idx, num, ty] => do
      let m ← h.strings.insert name (← parseIdx idx)
      pure { h with strings := m, formats := h.formats ++ [(name, ⟨← parseNum num, ← parseHTy ty⟩)] }
    | _ => none) init

def parseElems {α : Type} (f : String → Option α) (s : String) : Option (List (Option α)) :=
  -- s = "[e,e,…]"
  let inner := (s.drop 1).dropEnd 1 |>.toString
  if !(s.startsWith "[" && s.endsWith "]") then none
  else if inner = "" then some []
  else (inner.splitOn ",").mapM fun e => if e = "." then some none else (f e).map some

def parseByte (s : String) : Option UInt8 := do
  let b ← unhex s
  match b with
  | [c] => some c
  | _ => none

def parseStrHex (s : String) : Option Bytes := if s = "" then some [] else unhex s

def parseAllelesF : Nat → List Char → Option (List Allele)
  | _, [] => some []
  | 0, _ => none
  | fuel + 1, c :: rest =>
    if c = 'u' ∨ c = 'p' then
      let digs := rest.takeWhile fun d => d.isDigit ∨ d = 'x'
      let tail := rest.dropWhile fun d => d.isDigit ∨ d = 'x'
      let pos : Option (Option Nat) :=
        if digs = ['x'] then some none else (String.ofList digs).toNat?.map some
      match pos, parseAllelesF fuel tail with
      | some p, some r => some ((p, c = 'p') :: r)
      | _, _ => none
    else none

def parseAlleles (l : List Char) : Option (List Allele) := parseAllelesF l.length l

inductive AnyVal
  | none | flag
  | int (n : Int) | float (b : Nat) | char (c : UInt8) | str (s : Bytes)
  | ints (xs : List (Option Int)) | floats (xs : List (Option Nat))
  | chars (xs : List (Option UInt8)) | strs (xs : List (Option Bytes))
  | gt (g : List Allele)

def parseVal (s : String) : Option AnyVal :=
  match s.toList with
  | ['~'] => some .none
  | ['!'] => some .flag
  | 'i' :: r => (parseInt (String.ofList r)).map .int
  | 'f' :: r => (hexNat (String.ofList r)).map .float
  | 'c' :: r => (parseByte (String.ofList r)).map .char
  | 's' :: r => (parseStrHex (String.ofList r)).map .str
  | 'I' :: r => (parseElems parseInt (String.ofList r)).map .ints
  | 'F' :: r => (parseElems hexNat (String.ofList r)).map .floats
  | 'C' :: r => (parseElems parseByte (String.ofList r)).map .chars
  | 'S' :: r => (parseElems parseStrHex (String.ofList r)).map .strs
  | 'G' :: r => (parseAlleles r).map .gt
  | _ => Option.none

def toInfoVal : AnyVal → Option (Option InfoVal)
  | .none => some none
  | .flag => some (some .flag)
  | .int n => some (some (.int n))
  | .float b => some (some (.float b))
  | .char c => some (some (.char c))
  | .str s => some (some (.str s))
  | .ints xs => some (some (.ints xs))
  | .floats xs => some (some (.floats xs))
  | .chars xs => some (some (.chars xs))
  | .strs xs => some (some (.strs xs))
  | .gt _ => Option.none

def toSVal : AnyVal → Option (Option SVal)
  | .none => some none
  | .flag => Option.none
  | .int n => some (some (.int n))
  | .float b => some (some (.float b))
  | .char c => some (some (.char c))
  | .str s => some (some (.str s))
  | .ints xs => some (some (.ints xs))
  | .floats xs => some (some (.floats xs))
  | .chars xs => some (some (.chars xs))
  | .strs xs => some (some (.strs xs))
  | .gt g => some (some (.gt g))

def dashList (sep : String) (s : String) : List String := if s = "-" then [] else s.splitOn sep

def parseRec (chrom pos qual ids ref alts filters info fmt : String) : Option Rec := do
  let p ← pos.toNat?
  let q ← if qual = "-" then some none else (hexNat qual).map some
  let ids ← unhex ids
  let ref ← unhex ref
  let alts ← (dashList "," alts).mapM unhex
  let info ← (dashList ";" info).mapM fun kv =>
    match kv.splitOn "=" with
    | [k, v] => do pure (k, ← toInfoVal (← parseVal v))
    | _ => none
  let (keys, rows) ←
    if fmt = "-" then some ([], [])
    else match fmt.splitOn "/" with
      | [] => none
      | ks :: rows => do
        let rows ← rows.mapM fun row =>
          if row = "" then some [] else (row.splitOn ":").mapM fun v => do toSVal (← parseVal v)
        pure (if ks = "" then [] else ks.splitOn ":", rows)
  pure { chrom := chrom, pos := if p = 0 then none else some p, qual := q, ids := ids, ref := ref,
         alts := alts, filters := dashList ";" filters, info := info, keys := keys, rows := rows }

/-! formatting -/

def hex8 (n : Nat) : String :=
  String.ofList ((List.range 8).reverse.map fun i => hexNibble (n / 16 ^ i % 16))

def fmtByte (c : UInt8) : String := hex [c]
def fmtStr (s : Bytes) : String := if s.isEmpty then "" else hex s

def fmtElems {α : Type} (f : α → String) (xs : List (Option α)) : String :=
  "[" ++ ",".intercalate (xs.map fun x => match x with | some a => f a | none => ".") ++ "]"

def fmtInt (n : Int) : String := if n < 0 then s!"-{(-n).toNat}" else s!"{n.toNat}"

def fmtAllele (a : Allele) : String :=
  (if a.2 then "p" else "u") ++ (match a.1 with | some p => s!"{p}" | none => "x")

def fmtInfoVal : Option InfoVal → String
  | none => "~"
  | some .flag => "!"
  | some (.int n) => "i" ++ fmtInt n
  | some (.float b) => "f" ++ hex8 b
  | some (.char c) => "c" ++ fmtByte c
  | some (.str s) => "s" ++ fmtStr s
  | some (.ints xs) => "I" ++ fmtElems fmtInt xs
  | some (.floats xs) => "F" ++ fmtElems hex8 xs
  | some (.chars xs) => "C" ++ fmtElems fmtByte xs
  | some (.strs xs) => "S" ++ fmtElems fmtStr xs

def fmtSVal : Option SVal → String
  | none => "~"
  | some (.int n) => "i" ++ fmtInt n
  | some (.float b) => "f" ++ hex8 b
  | some (.char c) => "c" ++ fmtByte c
  | some (.str s) => "s" ++ fmtStr s
  | some (.ints xs) => "I" ++ fmtElems fmtInt xs
  | some (.floats xs) => "F" ++ fmtElems hex8 xs
  | some (.chars xs) => "C" ++ fmtElems fmtByte xs
  | some (.strs xs) => "S" ++ fmtElems fmtStr xs
  | some (.gt g) => "G" ++ String.join (g.map fmtAllele)

def dashJoin (sep : String) (xs : List String) : String := if xs.isEmpty then "-" else sep.intercalate xs

def fmtRec (r : Rec) : String :=
  let pos := match r.pos with | some p => s!"{p}" | none => "0"
  let qual := match r.qual with | some q => hex8 q | none => "-"
  let info := dashJoin ";" (r.info.map fun kv => kv.1 ++ "=" ++ fmtInfoVal kv.2)
  let fmt := if r.keys.isEmpty ∧ r.rows.all (·.isEmpty) then "-"
    else "/".intercalate (":".intercalate r.keys :: r.rows.map fun row => ":".intercalate (row.map fmtSVal))
  s!"{r.chrom} {pos} {qual} {hex r.ids} {hex r.ref} {dashJoin "," (r.alts.map hex)} {dashJoin ";" r.filters} {info} {fmt}"

def fmtRead (x : Except RErr Rec) : String :=
  match x with
  | .ok r => fmtRec r
  | .error _ => "err"

def fmtWErr : WErr → String
  | .invalidInput => "err:invalid-input"
  | .invalidData => "err:invalid-data"
  | .panic => "panic"

def handleC10 : List String → String
  | ["rec", ver, ns, dict, chrom, pos, qual, ids, ref, alts, filters, info, fmt] =>
    match parseHeader ver ns dict, parseRec chrom pos qual ids ref alts filters info fmt with
    | some h, some r =>
      match writeRecord h r with
      | .error e => fmtWErr e
      | .ok bs => s!"{hex bs} E {fmtRead (readRecord false h bs)} L {fmtRead (readRecord true h bs)}"
    | none, _ => "bad-header"
    | _, none => "bad-record"
  | ["dec", ver, ns, dict, bytes] =>
    match parseHeader ver ns dict, unhex bytes with
    | some h, some bs => s!"E {fmtRead (readRecord false h bs)} L {fmtRead (readRecord true h bs)}"
    | _, _ => "bad-op"
  | _ => "bad-op"

end Noodles.Bcf
