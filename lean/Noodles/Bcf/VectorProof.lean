import Noodles.Bcf.TypedProof
/-! Round-trip lemmas for INFO vectors, per-sample columns and genotypes (helpers for C10). -/
namespace Noodles.Bcf
open Noodles.Codec (Bytes le unle Dec decN unle_le decN_map RoundTrip le_length)

/-- `decN` over encoded items whose decoder returns a function `g` of the item -/
theorem decN_map' {α β : Type} (enc : α → Bytes) (dec : Dec β) (g : α → β) (P : α → Prop)
    (h : ∀ a, P a → ∀ r, dec (enc a ++ r) = .ok (g a, r)) (xs : List α) (hx : ∀ x ∈ xs, P x)
    (r : Bytes) : decN dec xs.length ((xs.map enc).flatten ++ r) = .ok (xs.map g, r) := by
  induction xs with
  | nil => simp [decN]
  | cons x xs ih =>
    simp only [List.map_cons, List.flatten_cons, List.append_assoc, List.length_cons, decN]
    rw [h x (hx x (by simp))]
    simp only
    rw [ih (fun y hy => hx y (List.mem_cons_of_mem _ hy))]

/-- the integer written for an optional value: the value, or the `missing` code -/
def raw (w : W) (x : Option Int) : Int := x.getD w.min

/-- every present value fits the width without touching a reserved code -/
def Fits (w : W) (x : Option Int) : Prop := ∀ v, x = some v → w.minValue ≤ v ∧ v ≤ w.max

theorem raw_range (w : W) (x : Option Int) (h : Fits w x) : w.min ≤ raw w x ∧ raw w x ≤ w.max := by
  cases x with
  | none => simp only [raw, Option.getD_none]; have := min_lt_max w; omega
  | some v =>
    have := h v rfl
    simp only [raw, Option.getD_some, W.minValue] at *
    omega

theorem encElem_ok (w : W) (x : Option Int) (h : Fits w x) : encElem w x = .ok (encS w (raw w x)) := by
  cases x with
  | none => rfl
  | some v =>
    have hv := h v rfl
    have hr := raw_range w (some v) h
    simp only [raw, Option.getD_some] at hr
    simp only [encElem, raw, Option.getD_some, if_pos hr, classify_value w v hv.1]

theorem encScalar_ok (w : W) (x : Option Int) (h : Fits w x) : encScalar w x = .ok (encS w (raw w x)) := by
  cases x with
  | none => rfl
  | some v =>
    have hr := raw_range w (some v) h
    simp only [raw, Option.getD_some] at hr
    simp only [encScalar, raw, Option.getD_some, if_pos hr]

theorem elemOfInt_raw (w : W) (x : Option Int) (h : Fits w x) : elemOfInt w (raw w x) = .ok x := by
  cases x with
  | none => simp only [elemOfInt, raw, Option.getD_none, classify_missing]
  | some v => simp only [elemOfInt, raw, Option.getD_some, classify_value w v (h v rfl).1]

/-- the width chosen by the scan fits every entry -/
theorem scan_fits (xs : List (Option Int)) (w : W)
    (hr : ∀ x ∈ xs, ∀ v, x = some v → I32_MIN + 8 ≤ v ∧ v ≤ I32_MAX)
    (hw : selectWidth (scan xs).1 (scan xs).2 = some w) : ∀ x ∈ xs, Fits w x := by
  have hs := selectWidth_sound _ _ w hw (scan_range xs hr).2
  intro x hx v hv
  subst hv
  have := scan_bounds xs (some v) hx
  simp only [Option.getD_some] at this
  omega

/-! ### `read_value` on what the vector writers emit -/

theorem readValue_ints (w : W) (raws : List Int) (d rest : Bytes) (h2 : 2 ≤ raws.length)
    (hd : ∀ r, readType (d ++ r) = .ok (some (.int w, raws.length), r))
    (hr : ∀ x ∈ raws, w.min ≤ x ∧ x ≤ w.max) :
    readValue (d ++ (raws.map (encS w)).flatten ++ rest) = .ok (.ints w raws, rest) := by
  unfold readValue
  rw [List.append_assoc, hd]
  simp only
  rw [if_neg (by omega), if_neg (by omega), decN_decS w raws hr]

theorem readValue_int1 (w : W) (x : Int) (d rest : Bytes)
    (hd : ∀ r, readType (d ++ r) = .ok (some (.int w, 1), r))
    (hr : w.min ≤ x ∧ x ≤ w.max) :
    readValue (d ++ encS w x ++ rest) = .ok (.int w (some (classify w x)), rest) := by
  unfold readValue
  rw [List.append_assoc, hd]
  simp only
  simp [decS_encS w x hr.1 hr.2]

theorem readValue_floats (raws : List Nat) (d rest : Bytes) (h2 : 2 ≤ raws.length)
    (hd : ∀ r, readType (d ++ r) = .ok (some (.float, raws.length), r))
    (hr : ∀ x ∈ raws, x < 4294967296) :
    readValue (d ++ (raws.map encF).flatten ++ rest) = .ok (.floats raws, rest) := by
  unfold readValue
  rw [List.append_assoc, hd]
  simp only
  rw [if_neg (by omega), if_neg (by omega), decN_decF raws hr]

theorem readValue_float1 (x : Nat) (d rest : Bytes)
    (hd : ∀ r, readType (d ++ r) = .ok (some (.float, 1), r)) (hr : x < 4294967296) :
    readValue (d ++ encF x ++ rest) = .ok (.float (some (classifyF x)), rest) := by
  unfold readValue
  rw [List.append_assoc, hd]
  simp only
  simp [decF_encF x hr]

/-! ### INFO integer vectors -/

/-- what both readers return for a written vector: a vector that is exactly `[missing]` is a
missing INFO value (the VCF text is `.` either way) -/
def normInts : List (Option Int) → Option InfoVal
  | [none] => none
  | xs => some (.ints xs)

theorem normInts_two (a b : Option Int) (t : List (Option Int)) :
    normInts (a :: b :: t) = some (.ints (a :: b :: t)) := by
  cases a <;> rfl

theorem mapM'_elemOfInt (w : W) (xs : List (Option Int)) (h : ∀ x ∈ xs, Fits w x) :
    mapM' (elemOfInt w) (xs.map (raw w)) = .ok xs := by
  induction xs with
  | nil => rfl
  | cons x xs ih =>
    simp only [List.map_cons, mapM', elemOfInt_raw w x (h x (by simp)),
      ih (fun y hy => h y (List.mem_cons_of_mem _ hy))]

theorem info_ints_roundtrip (xs : List (Option Int)) (hne : xs ≠ []) (hlen : xs.length ≤ 2147483647)
    (hr : ∀ x ∈ xs, ∀ v, x = some v → I32_MIN + 8 ≤ v ∧ v ≤ I32_MAX) (lazy : Bool) (rest : Bytes) :
    ∃ bs, writeInfoInts xs = .ok bs ∧
      readInfoVal lazy .other .integer (bs ++ rest) = .ok (normInts xs, rest) := by
  obtain ⟨w, hw⟩ := selectWidth_some (scan xs).1 (scan xs).2 (scan_range xs hr).1
  have hfit := scan_fits xs w hr hw
  obtain ⟨d, hd1, _⟩ := readType_writeType (.int w) xs.length hlen []
  have hd2 : ∀ r, readType (d ++ r) = .ok (some (.int w, xs.length), r) := by
    intro r
    obtain ⟨d', hd', hr'⟩ := readType_writeType (.int w) xs.length hlen r
    rw [hd1] at hd'; injection hd' with hd'; subst hd'; exact hr'
  have hm : mapM' (encElem w) xs = .ok (xs.map fun x => encS w (raw w x)) :=
    mapM'_ok _ _ xs (fun x hx => encElem_ok w x (hfit x hx))
  refine ⟨d ++ ((xs.map (raw w)).map (encS w)).flatten, ?_, ?_⟩
  · unfold writeInfoInts
    have : xs.isEmpty = false := by cases xs <;> simp_all
    simp only [this, hw, hm, hd1, List.map_map]
    rfl
  · have hrr : ∀ x ∈ xs.map (raw w), w.min ≤ x ∧ x ≤ w.max := by
      intro x hx
      obtain ⟨y, hy, rfl⟩ := List.mem_map.mp hx
      exact raw_range w y (hfit y hy)
    unfold readInfoVal
    by_cases h2 : 2 ≤ xs.length
    · rw [readValue_ints w (xs.map (raw w)) d rest (by simpa using h2) (by simpa using hd2) hrr]
      simp only [resolveInfo, resolveInts, mapM'_elemOfInt w xs hfit]
      match xs, h2 with
      | a :: b :: t, _ => rw [normInts_two]
    · match xs, hne, h2 with
      | [x], _, _ =>
        have hx := hfit x (by simp)
        have := readValue_int1 w (raw w x) d rest (by simpa using hd2) (raw_range w x hx)
        simp only [List.map_cons, List.map_nil, List.flatten_cons, List.flatten_nil,
          List.append_nil] at this ⊢
        rw [this]
        cases x with
        | none => simp only [raw, Option.getD_none, classify_missing, resolveInfo, resolveInts, normInts]
        | some v =>
          simp only [raw, Option.getD_some, classify_value w v (hx v rfl).1, resolveInfo,
            resolveInts, normInts]
      | _ :: _ :: _, _, h2 => simp at h2

/-- INFO integer scalar -/
theorem info_int_roundtrip (n : Int) (h1 : I32_MIN + 8 ≤ n) (h2 : n ≤ I32_MAX) (lazy : Bool)
    (rest : Bytes) :
    ∃ bs, writeInfoInt n = .ok bs ∧
      readInfoVal lazy .one .integer (bs ++ rest) = .ok (some (.int n), rest) := by
  obtain ⟨w, hw⟩ := selectWidth_some n n h1
  have hs := selectWidth_sound n n w hw h2
  have hmin : w.min ≤ n := by have := hs.1; unfold W.minValue at this; omega
  refine ⟨UInt8.ofNat (16 + w.code) :: encS w n, by simp only [writeInfoInt, hw], ?_⟩
  have hd : ∀ r, readType (UInt8.ofNat (16 + w.code) :: r) = .ok (some (.int w, 1), r) := by
    intro r
    obtain ⟨d', hd', hr'⟩ := readType_writeType (.int w) 1 (by omega) r
    simp only [writeType, Ty.code] at hd'
    rw [if_neg (by omega)] at hd'
    injection hd' with hd'
    subst hd'
    simpa [Nat.add_comm] using hr'
  have := readValue_int1 w n [UInt8.ofNat (16 + w.code)] rest (by simpa using hd) ⟨hmin, hs.2⟩
  unfold readInfoVal
  simp only [List.cons_append, List.nil_append] at this ⊢
  rw [this]
  simp only [classify_value w n hs.1, resolveInfo, resolveInt]

/-! ### INFO floats -/

/-- a bit pattern that is none of the eight reserved NaNs is a value -/
theorem classifyF_value (b : Nat) (h : b < 0x7f800001 ∨ 0x7f800007 < b) : classifyF b = .value b := by
  unfold classifyF F_MISSING F_EOV
  rw [if_neg (by omega), if_neg (by omega), if_neg (by omega)]

def rawF (x : Option Nat) : Nat := x.getD F_MISSING

def FitsF (x : Option Nat) : Prop := ∀ b, x = some b → b < 4294967296 ∧ (b < 0x7f800001 ∨ 0x7f800007 < b)

theorem encElemF_ok (x : Option Nat) (h : FitsF x) : encElemF x = .ok (encF (rawF x)) := by
  cases x with
  | none => rfl
  | some b => simp only [encElemF, rawF, Option.getD_some, classifyF_value b (h b rfl).2]

theorem elemOfFloat_raw (x : Option Nat) (h : FitsF x) : elemOfFloat (rawF x) = .ok x := by
  cases x with
  | none => simp [elemOfFloat, rawF, classifyF, F_MISSING]
  | some b => simp only [elemOfFloat, rawF, Option.getD_some, classifyF_value b (h b rfl).2]

theorem rawF_lt (x : Option Nat) (h : FitsF x) : rawF x < 4294967296 := by
  cases x with
  | none => simp [rawF, F_MISSING]
  | some b => simpa [rawF] using (h b rfl).1

theorem mapM'_elemOfFloat (xs : List (Option Nat)) (h : ∀ x ∈ xs, FitsF x) :
    mapM' elemOfFloat (xs.map rawF) = .ok xs := by
  induction xs with
  | nil => rfl
  | cons x xs ih =>
    simp only [List.map_cons, mapM', elemOfFloat_raw x (h x (by simp)),
      ih (fun y hy => h y (List.mem_cons_of_mem _ hy))]

def normFloats : List (Option Nat) → Option InfoVal
  | [none] => none
  | xs => some (.floats xs)

theorem normFloats_two (a b : Option Nat) (t : List (Option Nat)) :
    normFloats (a :: b :: t) = some (.floats (a :: b :: t)) := by
  cases a <;> rfl

theorem info_float_roundtrip (b : Nat) (hb : b < 4294967296) (hres : b < 0x7f800001 ∨ 0x7f800007 < b)
    (lazy : Bool) (rest : Bytes) :
    ∃ bs, writeInfoFloat b = .ok bs ∧
      readInfoVal lazy .one .float (bs ++ rest) = .ok (some (.float b), rest) := by
  refine ⟨_, rfl, ?_⟩
  have hd : ∀ r, readType ((0x15 : UInt8) :: r) = .ok (some (.float, 1), r) := by
    intro r; simp [readType]
  have := readValue_float1 b [0x15] rest (by simpa using hd) hb
  unfold readInfoVal
  simp only [List.cons_append, List.nil_append] at this ⊢
  rw [this]
  simp only [classifyF_value b hres, resolveInfo, resolveFloat]

theorem info_floats_roundtrip (xs : List (Option Nat)) (hne : xs ≠ []) (hlen : xs.length ≤ 2147483647)
    (hr : ∀ x ∈ xs, FitsF x) (lazy : Bool) (rest : Bytes) :
    ∃ bs, writeInfoFloats xs = .ok bs ∧
      readInfoVal lazy .other .float (bs ++ rest) = .ok (normFloats xs, rest) := by
  obtain ⟨d, hd1, _⟩ := readType_writeType .float xs.length hlen []
  have hd2 : ∀ r, readType (d ++ r) = .ok (some (.float, xs.length), r) := by
    intro r
    obtain ⟨d', hd', hr'⟩ := readType_writeType .float xs.length hlen r
    rw [hd1] at hd'; injection hd' with hd'; subst hd'; exact hr'
  have hm : mapM' encElemF xs = .ok (xs.map fun x => encF (rawF x)) :=
    mapM'_ok _ _ xs (fun x hx => encElemF_ok x (hr x hx))
  refine ⟨d ++ ((xs.map rawF).map encF).flatten, ?_, ?_⟩
  · unfold writeInfoFloats
    simp only [hm, hd1, List.map_map]
    rfl
  · have hrr : ∀ x ∈ xs.map rawF, x < 4294967296 := by
      intro x hx
      obtain ⟨y, hy, rfl⟩ := List.mem_map.mp hx
      exact rawF_lt y (hr y hy)
    unfold readInfoVal
    by_cases h2 : 2 ≤ xs.length
    · rw [readValue_floats (xs.map rawF) d rest (by simpa using h2) (by simpa using hd2) hrr]
      simp only [resolveInfo, resolveFloats, mapM'_elemOfFloat xs hr]
      match xs, h2 with
      | a :: b :: t, _ => rw [normFloats_two]
    · match xs, hne, h2 with
      | [x], _, _ =>
        have hx := hr x (by simp)
        have := readValue_float1 (rawF x) d rest (by simpa using hd2) (rawF_lt x hx)
        simp only [List.map_cons, List.map_nil, List.flatten_cons, List.flatten_nil,
          List.append_nil] at this ⊢
        rw [this]
        cases x with
        | none => simp [rawF, classifyF, F_MISSING, resolveInfo, resolveFloats, normFloats]
        | some v =>
          simp only [rawF, Option.getD_some, classifyF_value v (hx v rfl).2, resolveInfo,
            resolveFloats, normFloats]
      | _ :: _ :: _, _, h2 => simp at h2

end Noodles.Bcf
