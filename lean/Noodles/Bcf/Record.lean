import Noodles.Bcf.Typed
import Noodles.Bcf.StringMap
/-!
# A whole BCF record: site block + samples block (model for C10)

Transcribed from noodles-bcf `io/writer/record.rs` `write_record`,
`record/codec/encoder/site.rs` (+ `site/*.rs`), `record/codec/encoder/samples.rs`,
`record/codec/encoder/string_map.rs`; readers: `io/reader/record_buf.rs`,
`record/codec/decoder.rs` `read_site`, `record/codec/decoder/samples.rs` (eager) and
`record/fields.rs`, `record/info.rs`, `record/samples.rs`, `record/samples/series.rs` (lazy).

The header is reduced to what the codec consults: the two string maps, the `Number`/`Type` of every
INFO and FORMAT definition, the number of samples and whether the file format is ≥ 4.4
(the lazy genotype's first-allele phasing). `rlen` is the number of reference bases (records with
`END` / `SVLEN` / `LEN` are outside the correspondence).
-/
namespace Noodles.Bcf
open Noodles.Codec (Bytes le unle Dec decN)

structure Def where
  num : Num
  ty : HTy
  deriving Repr

structure Header where
  v44 : Bool
  nSample : Nat
  strings : StringMap
  contigs : StringMap
  infos : List (String × Def)
  formats : List (String × Def)
  deriving Repr

structure Rec where
  chrom : String
  pos : Option Nat
  qual : Option Nat
  ids : Bytes
  ref : Bytes
  alts : List Bytes
  filters : List String
  info : List (String × Option InfoVal)
  keys : List String
  rows : List (List (Option SVal))
  deriving Repr

def bind' {ε α β : Type} (x : Except ε α) (f : α → Except ε β) : Except ε β :=
  match x with
  | .ok a => f a
  | .error e => .error e

/-- `write_string_map_index` -/
def writeIndex (i : Nat) : Except WErr Bytes :=
  if i ≤ 127 then .ok (0x11 :: encS .w1 i)
  else if i ≤ 32767 then .ok (0x12 :: encS .w2 i)
  else if i ≤ 2147483647 then .ok (0x13 :: encS .w4 i)
  else .error .invalidInput

/-- `write_string_map_indices` (FILTER) -/
def writeIndices (is : List Nat) : Except WErr Bytes :=
  match is with
  | [] => .ok [0x00]
  | [i] => writeIndex i
  | _ =>
    let mx := is.foldl max 0
    if 2147483647 < mx then .error .invalidInput
    else
      let w : W := if mx ≤ 127 then .w1 else if mx ≤ 32767 then .w2 else .w4
      bind' (writeType (some (.int w, is.length))) fun d =>
        .ok (d ++ (is.map fun (i : Nat) => encS w (i : Int)).flatten)

/-- typed string; `write_ids` writes `String(None)` = `0x07` for no IDs, which is what the empty
string gives as well -/
def writeStr (s : Bytes) : Except WErr Bytes := writeString s

def SEMI : UInt8 := 0x3b

def mapMW {α β : Type} (f : α → Except WErr β) (xs : List α) : Except WErr (List β) := mapM' f xs

/-- one column of the samples block -/
def writeColumn (h : Header) (key : String) (col : List (Option SVal)) : Except WErr Bytes :=
  match h.strings.getIndexOf key with
  | none => .error .invalidInput
  | some ki =>
    bind' (writeIndex ki) fun kb =>
    match h.formats.lookup key with
    | none => .error .invalidData
    | some d =>
      let body : Except WErr Bytes :=
        if key = "GT" then
          bind' (mapMW (fun (v : Option SVal) => match v with
            | some (.gt g) => .ok (some g)
            | _ => .error WErr.invalidInput) col) writeGenotypeValues
        else match d.ty, d.num with
        | .integer, .one =>
          bind' (mapMW (fun (v : Option SVal) => match v with
            | none => .ok none | some (.int n) => .ok (some n)
            | _ => .error WErr.invalidInput) col) writeIntValues
        | .integer, _ =>
          bind' (mapMW (fun (v : Option SVal) => match v with
            | none => .ok none | some (.ints xs) => .ok (some xs)
            | _ => .error WErr.invalidInput) col) writeIntArrayValues
        | .float, .one =>
          bind' (mapMW (fun (v : Option SVal) => match v with
            | none => .ok none | some (.float b) => .ok (some b)
            | _ => .error WErr.invalidInput) col) writeFloatValues
        | .float, _ =>
          bind' (mapMW (fun (v : Option SVal) => match v with
            | none => .ok none | some (.floats xs) => .ok (some xs)
            | _ => .error WErr.invalidInput) col) writeFloatArrayValues
        | .character, .one =>
          bind' (mapMW (fun (v : Option SVal) => match v with
            | none => .ok none | some (.char c) => .ok (some [c])
            | _ => .error WErr.invalidInput) col) writeStringValues
        | .character, _ =>
          bind' (mapMW (fun (v : Option SVal) => match v with
            | none => .ok none
            | some (.chars xs) => .ok (some (joinStrs (xs.map (·.map fun c => [c]))))
            | _ => .error WErr.invalidInput) col) writeStringValues
        | .string, .one =>
          bind' (mapMW (fun (v : Option SVal) => match v with
            | none => .ok none | some (.str s) => .ok (some s)
            | _ => .error WErr.invalidInput) col) writeStringValues
        | .string, _ =>
          bind' (mapMW (fun (v : Option SVal) => match v with
            | none => .ok none | some (.strs xs) => .ok (some xs)
            | _ => .error WErr.invalidInput) col) writeStringArrayValues
        | .flag, _ => .error .invalidInput
      bind' body fun b => .ok (kb ++ b)

def joinWith (sep : UInt8) : List Bytes → Bytes
  | [] => []
  | [x] => x
  | x :: xs => x ++ sep :: joinWith sep xs

/-- `Record::variant_span` for a file format < 4.5 (`noodles-vcf/src/variant/record.rs`
`variant_span` / `variant_end` / `info_end`), then `write_rlen`: the span is `END - start + 1` when
the INFO map has an `END` entry with a value (an integer ≥ 1, else `InvalidData`; `END` before the
start is `InvalidData`), otherwise the number of reference bases (`InvalidData` when there is
none); a missing position counts as `Position::MIN`. `i32::try_from(span)` is `InvalidInput`. -/
def rlenOf (pos : Option Nat) (info : List (String × Option InfoVal)) (ref : Bytes) : Except WErr Nat :=
  let start := pos.getD 1
  let span : Except WErr Nat :=
    match info.lookup "END" with
    | some (some (.int n)) =>
      if n < 1 then .error .invalidData
      else if n.toNat < start then .error .invalidData
      else .ok (n.toNat - start + 1)
    | some (some _) => .error .invalidData
    | _ => if ref.isEmpty then .error .invalidData else .ok ref.length
  match span with
  | .error e => .error e
  | .ok n => if 2147483647 < n then .error .invalidInput else .ok n

/-- `write_site` -/
def writeSite (h : Header) (r : Rec) : Except WErr Bytes :=
  match h.contigs.getIndexOf r.chrom with
  | none => .error .invalidInput
  | some ci =>
    if 2147483647 < ci then .error .invalidInput else
    let pos : Except WErr Int := match r.pos with
      | none => .ok (-1)
      | some p => if 2147483647 < p then .error .invalidInput else .ok ((p : Int) - 1)
    bind' pos fun pos =>
    bind' (rlenOf r.pos r.info r.ref) fun rlen =>
    if 65535 < r.info.length ∨ 65535 < r.alts.length + 1 ∨ 16777215 < h.nSample ∨ 255 < r.keys.length
    then .error .invalidInput else
    let fixed := encS .w4 ci ++ encS .w4 pos ++ encS .w4 rlen
      ++ encF (r.qual.getD F_MISSING)
      ++ le 2 r.info.length ++ le 2 (r.alts.length + 1)
      ++ le 4 (r.keys.length * 16777216 + h.nSample)
    bind' (writeStr r.ids) fun ids =>
    bind' (mapMW writeStr (r.ref :: r.alts)) fun bases =>
    bind' (mapMW (fun f => match h.strings.getIndexOf f with
      | some i => .ok i | none => .error WErr.invalidInput) r.filters) fun fis =>
    bind' (writeIndices fis) fun filt =>
    bind' (mapMW (fun (kv : String × Option InfoVal) =>
      match h.strings.getIndexOf kv.1 with
      | none => .error WErr.invalidInput
      | some ki => bind' (writeIndex ki) fun kb => bind' (writeInfoVal kv.2) fun vb => .ok (kb ++ vb))
      r.info) fun infos =>
    .ok (fixed ++ ids ++ bases.flatten ++ filt ++ infos.flatten)

/-- `write_samples` (not called when the record has no sample rows) -/
def writeSamples (h : Header) (r : Rec) : Except WErr Bytes :=
  if r.rows.isEmpty then .ok []
  else
    bind' (mapMW (fun (ki : String × Nat) =>
      writeColumn h ki.1 (r.rows.map fun row => (row[ki.2]?).join)) (r.keys.zip (List.range r.keys.length)))
      fun cols => .ok cols.flatten

/-- `write_record`: `l_shared`, `l_indiv`, site, samples -/
def writeRecord (h : Header) (r : Rec) : Except WErr Bytes :=
  bind' (writeSite h r) fun site =>
  bind' (writeSamples h r) fun smp =>
  -- `u32::try_from(site_buf.len())`, `u32::try_from(samples_buf.len())`
  if 4294967295 < site.length ∨ 4294967295 < smp.length then .error .invalidInput else
  .ok (le 4 site.length ++ le 4 smp.length ++ site ++ smp)

/-! ## readers -/

abbrev RExcept := Except RErr

def rbind {α β : Type} (x : RExcept (α × Bytes)) (f : α → Bytes → RExcept β) : RExcept β :=
  match x with
  | .ok (a, r) => f a r
  | .error e => .error e

/-- `read_string_map_index` through `as_int` -/
def readIndex : Dec Nat := fun bs =>
  rbind (readValue bs) fun v r =>
    match v with
    | .int _ (some (.value n)) => if 0 ≤ n then .ok (n.toNat, r) else .error .invalid
    | _ => .error .invalid

/-- `read_string_map_indices`: raw values, `usize::try_from` each -/
def readIndices : Dec (List Nat) := fun bs =>
  rbind (readValue bs) fun v r =>
    let conv (xs : List Int) : RExcept (List Nat × Bytes) :=
      if xs.all (0 ≤ ·) then .ok (xs.map (·.toNat), r) else .error .invalid
    match v with
    | .none => .ok ([], r)
    | .int _ (some (.value n)) => conv [n]
    | .ints _ raw => conv raw
    | _ => .error .invalid

def readStr : Dec (Option Bytes) := fun bs =>
  rbind (readValue bs) fun v r =>
    match v with
    | .str s => .ok (s, r)
    | _ => .error .invalid

def splitOnByte (sep : UInt8) (s : Bytes) : List Bytes :=
  let r := s.foldr (fun b (acc : Bytes × List Bytes) =>
    if b = sep then ([], acc.1 :: acc.2) else (b :: acc.1, acc.2)) ([], [])
  r.1 :: r.2

/-- eager `read_id`: `id.split(';')` collected into the `IndexSet` of `RecordBuf` (the first
occurrence of an id is kept), shown `;`-joined again; the lazy `Ids` iterates the raw text -/
def dedupIds (ids : Bytes) : Bytes := joinWith SEMI (splitOnByte SEMI ids).eraseDups

def lookupNum (m : StringMap) (i : Nat) : RExcept String :=
  match m.getIndex i with
  | some s => .ok s
  | none => .error .invalid

/-- `read_info` -/
def readInfo (lazy : Bool) (h : Header) : Nat → Dec (List (String × Option InfoVal))
  | 0, bs => .ok ([], bs)
  | n + 1, bs =>
    rbind (readIndex bs) fun ki r =>
    match lookupNum h.strings ki with
    | .error e => .error e
    | .ok key =>
      match h.infos.lookup key with
      | none => .error .invalid
      | some d =>
        rbind (readInfoVal lazy d.num d.ty r) fun v r' =>
        rbind (readInfo lazy h n r') fun rest r'' =>
          -- eager `read_info`: `info.insert(key, value).is_some()` is `DuplicateKey`
          if !lazy && rest.any (·.1 == key) then .error .invalid else .ok ((key, v) :: rest, r'')

structure SiteOut where
  chrom : String
  pos : Option Nat
  qual : Option Nat
  ids : Bytes
  ref : Bytes
  alts : List Bytes
  filters : List String
  info : List (String × Option InfoVal)
  nFmt : Nat
  nSample : Nat
  deriving Repr

/-- `read_site` (the lazy accessors of `record/fields.rs` read the same bytes the same way) -/
def readSite (lazy : Bool) (h : Header) (bs : Bytes) : RExcept SiteOut :=
  rbind (decS .w4 bs) fun chrom r =>
  if chrom < 0 then .error .invalid else
  match lookupNum h.contigs chrom.toNat with
  | .error e => .error e
  | .ok cname =>
  rbind (decS .w4 r) fun pos r =>
  if pos < -1 then .error .invalid else
  rbind (decS .w4 r) fun rlen r =>
  -- eager `read_rlen`: `usize::try_from`; the lazy accessors look at `rlen` only in `end()`
  if !lazy && rlen < 0 then .error .invalid else
  rbind (decF r) fun qual r =>
  match (match classifyF qual with
    | .value q => (.ok (some q) : RExcept (Option Nat))
    | .missing => .ok none
    | _ => .error .invalid) with
  | .error e => .error e
  | .ok qual =>
  rbind (match unle 2 r with | .ok x => .ok x | .error e => .error e) fun nInfo r =>
  rbind (match unle 2 r with | .ok x => .ok x | .error e => .error e) fun nAllele r =>
  rbind (match unle 4 r with | .ok x => .ok x | .error e => .error e) fun nfs r =>
  rbind (readStr r) fun ids r =>
  rbind (decN readStr nAllele r) fun alleles r =>
  match alleles with
  | [] => .error .invalid
  | ref :: alts =>
  -- lazy `AlternateBases::iter`: a typed string of length 0 is `invalid alt value`
  if lazy && alts.any (·.isNone) then .error .invalid else
  rbind (readIndices r) fun fis r =>
  match mapM' (lookupNum h.strings) fis with
  | .error e => .error e
  | .ok filters =>
  rbind (readInfo lazy h nInfo r) fun info _ =>
  .ok { chrom := cname, pos := if pos = -1 then none else some (pos.toNat + 1), qual := qual,
        ids := if lazy then ids.getD [] else dedupIds (ids.getD []),
        -- eager `read_ref_alt`: `String(None)` is `.`; lazy `ReferenceBases`: the empty slice
        ref := ref.getD (if lazy then [] else [DOT]), alts := alts.map (·.getD [DOT]),
        filters := if lazy then filters else filters.eraseDups, info := info, nFmt := nfs / 16777216, nSample := nfs % 16777216 }

def colKind (h : Header) (key : String) : RExcept ColKind :=
  if key = "GT" then .ok .gt
  else match h.formats.lookup key with
    | some d => .ok (.field d.num d.ty)
    | none => .error .invalid

/-- `read_samples` (eager): `n_fmt` columns -/
def readColumnsEager (h : Header) (nSample : Nat) : Nat → Dec (List (String × List (Option SVal)))
  | 0, bs => .ok ([], bs)
  | n + 1, bs =>
    rbind (readIndex bs) fun ki r =>
    match lookupNum h.strings ki with
    | .error e => .error e
    | .ok key =>
      -- `read_key`: the name must be a FORMAT definition
      match h.formats.lookup key with
      | none => .error .invalid
      | some _ =>
        match colKind h key with
        | .error e => .error e
        | .ok kind =>
          rbind (readColumnEager kind nSample r) fun col r' =>
          rbind (readColumnsEager h nSample n r') fun rest r'' => .ok ((key, col) :: rest, r'')

/-- lazy `Samples::series`: columns until the samples block is exhausted -/
def readColumnsLazy (h : Header) (nSample : Nat) : Nat → Dec (List (String × List (Option SVal)))
  | 0, bs => if bs.isEmpty then .ok ([], bs) else .error .invalid
  | fuel + 1, bs =>
    if bs.isEmpty then .ok ([], bs)
    else
      rbind (readIndex bs) fun ki r =>
      match lookupNum h.strings ki with
      | .error e => .error e
      | .ok key =>
        match colKind h key with
        | .error e => .error e
        | .ok kind =>
          rbind (readColumnLazy h.v44 kind nSample r) fun col r' =>
          rbind (readColumnsLazy h nSample fuel r') fun rest r'' => .ok ((key, col) :: rest, r'')

/-- transpose columns into rows: sample `i` gets the `i`-th value of every column that has one
(`samples.iter_mut().zip(values)`) -/
def toRows (nSample : Nat) (cols : List (String × List (Option SVal))) : List (List (Option SVal)) :=
  (List.range nSample).map fun i => cols.filterMap fun c => c.2[i]?

/-- a record read back -/
def readRecord (lazy : Bool) (h : Header) (bs : Bytes) : RExcept Rec :=
  rbind (match unle 4 bs with | .ok x => .ok x | .error e => .error e) fun lShared r =>
  rbind (match unle 4 r with | .ok x => .ok x | .error e => .error e) fun lIndiv r =>
  rbind (takeN lShared r) fun site r =>
  rbind (takeN lIndiv r) fun smp _ =>
  match readSite lazy h site with
  | .error e => .error e
  | .ok s =>
    let cols := if lazy then readColumnsLazy h s.nSample smp.length smp
                else readColumnsEager h s.nSample s.nFmt smp
    match cols with
    | .error e => .error e
    | .ok (cols, _) =>
      .ok { chrom := s.chrom, pos := s.pos, qual := s.qual, ids := s.ids, ref := s.ref,
            alts := s.alts, filters := s.filters, info := s.info,
            keys := cols.map (·.1), rows := toRows s.nSample cols }

end Noodles.Bcf
