import Noodles.Bcf.RecordSpec
import Noodles.Bcf.SiteProof
import Noodles.Bcf.SamplesBlockProof
namespace Noodles.Bcf
open Noodles.Codec (Bytes Dec decN le unle)

/-! # The whole BCF record: `writeRecord` read back by both readers -/

/-! ### (1) the INFO list -/

theorem rp_bind_ok {ε α β : Type} (a : α) (f : α → Except ε β) : bind' (.ok a) f = f a := rfl
theorem rp_rbind_ok {α β : Type} (a : α) (r : Bytes) (f : α → Bytes → RExcept β) :
    rbind (.ok (a, r)) f = f a r := rfl

/-- one `bind'` step; the unifier sees through the (per-module) names of `match` auxiliaries -/
theorem rp_bind_eq {ε α β : Type} {x : Except ε α} {a : α} {f : α → Except ε β} {y : Except ε β}
    (hx : x = .ok a) (hf : f a = y) : bind' x f = y := by
  subst hx; exact hf

/-- the bytes of an INFO value do not depend on the reader / the rest -/
theorem rp_writeInfoVal (d : Def) (v : Option InfoVal) (hv : infoValOk d v = true) :
    ∃ vb, writeInfoVal v = .ok vb ∧ ∀ (lazy : Bool) (rest : Bytes),
      readInfoVal lazy d.num d.ty (vb ++ rest) = .ok (normInfoVal v, rest) := by
  obtain ⟨vb, hvb, _⟩ := writeInfoVal_roundtrip d v hv false []
  refine ⟨vb, hvb, ?_⟩
  intro lazy rest
  obtain ⟨vb', hvb', hr⟩ := writeInfoVal_roundtrip d v hv lazy rest
  have e : vb' = vb := Except.ok.inj (hvb'.symm.trans hvb)
  subst e
  exact hr

theorem rp_any_key_false (t : List (String × Option InfoVal)) (k : String)
    (hk : (t.map (·.1)).contains k = false) :
    (t.map (fun kv => (kv.1, normInfoVal kv.2))).any (·.1 == k) = false := by
  induction t with
  | nil => rfl
  | cons a t ih =>
    simp only [List.map_cons, List.contains_cons, Bool.or_eq_false_iff] at hk
    simp only [List.map_cons, List.any_cons, ih hk.2, Bool.or_false]
    have h1 := hk.1
    simp only [beq_eq_false_iff_ne, ne_eq] at h1 ⊢
    exact fun e => h1 e.symm

theorem readInfo_roundtrip (h : Header) (info : List (String × Option InfoVal))
    (hn : nodupB (info.map (·.1)) = true)
    (hall : ∀ kv ∈ info, resolves h.strings kv.1 = true ∧
        ∃ d, h.infos.lookup kv.1 = some d ∧ infoValOk d kv.2 = true) :
    ∃ bss, mapMW (fun (kv : String × Option InfoVal) =>
        match h.strings.getIndexOf kv.1 with
        | none => .error WErr.invalidInput
        | some ki => bind' (writeIndex ki) fun kb => bind' (writeInfoVal kv.2) fun vb => .ok (kb ++ vb)) info = .ok bss ∧
      ∀ (lazy : Bool) (rest : Bytes), readInfo lazy h info.length (bss.flatten ++ rest)
        = .ok (info.map (fun kv => (kv.1, normInfoVal kv.2)), rest) := by
  induction info with
  | nil => exact ⟨[], rfl, fun _ _ => rfl⟩
  | cons kv t ih =>
    simp only [List.map_cons, nodupB, Bool.and_eq_true, Bool.not_eq_true'] at hn
    obtain ⟨hnk, hnt⟩ := hn
    obtain ⟨bss, hmap, hrd⟩ := ih hnt (fun x hx => hall x (List.mem_cons_of_mem _ hx))
    obtain ⟨hres, d, hd, hok⟩ := hall kv (by simp)
    obtain ⟨ki, hki, hle, hlk⟩ := sb_resolves h.strings kv.1 hres
    obtain ⟨kb, hkb, _, hri⟩ := sb_writeIndex_roundtrip ki hle
    obtain ⟨vb, hvb, hrv⟩ := rp_writeInfoVal d kv.2 hok
    refine ⟨(kb ++ vb) :: bss, ?_, ?_⟩
    · unfold mapMW at hmap ⊢
      simp only [mapM', hki, hkb, hvb, rp_bind_ok, hmap]
    · intro lazy rest
      simp only [List.flatten_cons, List.append_assoc, List.length_cons, readInfo, hri, rbind, hlk,
        hd, hrv, hrd, List.map_cons, rp_any_key_false t kv.1 hnk, Bool.and_false]
      rfl

/-! ### (2) the site block -/

theorem rp_rlenOf_le (p : Option Nat) (i : List (String × Option InfoVal)) (f : Bytes) (n : Nat)
    (h : rlenOf p i f = .ok n) : n ≤ 2147483647 := by
  unfold rlenOf at h
  simp only at h
  split at h
  · cases h
  · split at h
    · cases h
    · injection h with h; omega

theorem rp_map_getD (alts : List Bytes) (d : Bytes) :
    (alts.map some).map (·.getD d) = alts := by
  induction alts with
  | nil => rfl
  | cons a t ih => simp only [List.map_cons, Option.getD_some, ih]

theorem rp_any_isNone (alts : List Bytes) : (alts.map some).any (·.isNone) = false := by
  induction alts with
  | nil => rfl
  | cons a t ih => simp only [List.map_cons, List.any_cons, Option.isNone_some, ih, Bool.or_false]

/-- the reader on a site block of the writer's shape -/
theorem rp_readSite (lazy : Bool) (h : Header) (ci : Nat) (chrom : String) (posI : Int) (rlen q : Nat)
    (qual : Option Nat) (nInfo nfs : Nat) (idsO : Option Bytes) (ref : Bytes) (alts : List Bytes)
    (fis : List Nat) (filters : List String) (info : List (String × Option InfoVal))
    (idb basesb filtb infob : Bytes)
    (hci : ci ≤ 2147483647) (hlk : lookupNum h.contigs ci = .ok chrom)
    (hp1 : -1 ≤ posI) (hp2 : posI ≤ 2147483647) (hrl : rlen ≤ 2147483647)
    (hq1 : q < 4294967296)
    (hq : (classifyF q = .value q ∧ qual = some q) ∨ (classifyF q = .missing ∧ qual = none))
    (hni : nInfo < 65536) (hna : alts.length + 1 < 65536) (hnfs : nfs < 4294967296)
    (hids : ∀ rest, readStr (idb ++ rest) = .ok (idsO, rest))
    (hbases : ∀ rest, decN readStr (alts.length + 1) (basesb ++ rest)
      = .ok (some ref :: alts.map some, rest))
    (hfilt : ∀ rest, readIndices (filtb ++ rest) = .ok (fis, rest))
    (hlook : mapM' (lookupNum h.strings) fis = .ok filters)
    (hinfo : readInfo lazy h nInfo infob = .ok (info, [])) :
    readSite lazy h (encS .w4 ci ++ (encS .w4 posI ++ (encS .w4 rlen ++ (encF q ++ (le 2 nInfo
      ++ (le 2 (alts.length + 1) ++ (le 4 nfs ++ (idb ++ (basesb ++ (filtb ++ infob))))))))))
    = .ok { chrom := chrom, pos := if posI = -1 then none else some (posI.toNat + 1), qual := qual,
            ids := if lazy then idsO.getD [] else dedupIds (idsO.getD []),
            ref := ref, alts := alts,
            filters := if lazy then filters else filters.eraseDups, info := info,
            nFmt := nfs / 16777216, nSample := nfs % 16777216 } := by
  obtain ⟨e1, e2, e3, e4, e5, e6, e7, e8, e9⟩ := w_consts
  have h1 := decS_encS .w4 (ci : Int) (by omega) (by omega)
  have h2 := decS_encS .w4 posI (by omega) (by omega)
  have h3 := decS_encS .w4 (rlen : Int) (by omega) (by omega)
  have h4 := decF_encF q hq1
  have h5 := Noodles.Codec.unle_le 2 nInfo (by omega)
  have h6 := Noodles.Codec.unle_le 2 (alts.length + 1) (by omega)
  have h7 := Noodles.Codec.unle_le 4 nfs (by omega)
  have n1 : ¬ ((ci : Int) < 0) := by omega
  have n2 : ¬ (posI < -1) := by omega
  have n3 : ¬ ((rlen : Int) < 0) := by omega
  have t1 : (ci : Int).toNat = ci := by omega
  unfold readSite
  rcases hq with ⟨hq, rfl⟩ | ⟨hq, rfl⟩
  · simp only [h1, h2, h3, h4, h5, h6, h7, rbind, n1, n2, n3, t1, if_false, hlk, hq, hids, hbases,
      hfilt, hlook, hinfo, rp_any_isNone, Bool.and_false, rp_map_getD, Option.getD_some,
      decide_false, Bool.false_eq_true]
    try rfl
  · simp only [h1, h2, h3, h4, h5, h6, h7, rbind, n1, n2, n3, t1, if_false, hlk, hq, hids, hbases,
      hfilt, hlook, hinfo, rp_any_isNone, Bool.and_false, rp_map_getD, Option.getD_some,
      decide_false, Bool.false_eq_true]
    try rfl

theorem rp_writeStr (s : Bytes) (hlen : s.length ≤ LEN_MAX) :
    ∃ bs, writeStr s = .ok bs ∧
      ∀ rest, readStr (bs ++ rest) = .ok (if s = [] then none else some s, rest) := by
  obtain ⟨bs, hbs, _⟩ := writeStr_roundtrip s hlen []
  refine ⟨bs, hbs, ?_⟩
  intro rest
  obtain ⟨bs', hbs', hr⟩ := writeStr_roundtrip s hlen rest
  have e : bs' = bs := Except.ok.inj (hbs'.symm.trans hbs)
  subst e
  exact hr

theorem rp_writeStrs (ss : List Bytes) (hne : ∀ s ∈ ss, s ≠ []) (hlen : ∀ s ∈ ss, s.length ≤ LEN_MAX) :
    ∃ bss, mapMW writeStr ss = .ok bss ∧
      ∀ rest, decN readStr ss.length (bss.flatten ++ rest) = .ok (ss.map some, rest) := by
  obtain ⟨bs, hbs, _⟩ := writeStrs_roundtrip ss hne hlen []
  refine ⟨bs, hbs, ?_⟩
  intro rest
  obtain ⟨bs', hbs', hr⟩ := writeStrs_roundtrip ss hne hlen rest
  have e : bs' = bs := Except.ok.inj (hbs'.symm.trans hbs)
  subst e
  exact hr

theorem rp_writeIndices (is : List Nat) (hi : ∀ i ∈ is, i ≤ 2147483647) (hlen : is.length ≤ LEN_MAX) :
    ∃ bs, writeIndices is = .ok bs ∧ ∀ rest, readIndices (bs ++ rest) = .ok (is, rest) := by
  obtain ⟨bs, hbs, _⟩ := writeIndices_roundtrip is hi hlen []
  refine ⟨bs, hbs, ?_⟩
  intro rest
  obtain ⟨bs', hbs', hr⟩ := writeIndices_roundtrip is hi hlen rest
  have e : bs' = bs := Except.ok.inj (hbs'.symm.trans hbs)
  subst e
  exact hr

/-- the FILTER names resolve to indices that resolve back -/
theorem rp_filters (m : StringMap) (fs : List String) (hf : ∀ f ∈ fs, resolves m f = true) :
    ∃ fis, mapMW (fun f => match m.getIndexOf f with
        | some i => .ok i | none => .error WErr.invalidInput) fs = .ok fis ∧
      (∀ i ∈ fis, i ≤ 2147483647) ∧ fis.length = fs.length ∧
      mapM' (lookupNum m) fis = .ok fs := by
  induction fs with
  | nil => exact ⟨[], rfl, (fun i hi => by cases hi), rfl, rfl⟩
  | cons f t ih =>
    obtain ⟨fis, hmap, hle, hlen, hlk⟩ := ih (fun x hx => hf x (List.mem_cons_of_mem _ hx))
    obtain ⟨i, hi, hile, hil⟩ := sb_resolves m f (hf f (by simp))
    refine ⟨i :: fis, ?_, ?_, ?_, ?_⟩
    · unfold mapMW at hmap ⊢
      simp only [mapM', hi, hmap]
    · intro j hj
      rcases List.mem_cons.mp hj with rfl | hj
      · exact hile
      · exact hle j hj
    · simp only [List.length_cons, hlen]
    · simp only [mapM', hil, hlk]

theorem rp_pos (pos : Option Nat)
    (hpos : optAll (fun p => decide (1 ≤ p) && decide (p ≤ 2147483647)) pos = true) :
    ∃ posI : Int, (match pos with
        | none => (.ok (-1) : Except WErr Int)
        | some p => if 2147483647 < p then .error .invalidInput else .ok ((p : Int) - 1)) = .ok posI ∧
      -1 ≤ posI ∧ posI ≤ 2147483647 ∧ (if posI = -1 then none else some (posI.toNat + 1)) = pos := by
  cases pos with
  | none => exact ⟨-1, rfl, by omega, by omega, rfl⟩
  | some p =>
    simp only [optAll, Bool.and_eq_true, decide_eq_true_eq] at hpos
    refine ⟨(p : Int) - 1, ?_, by omega, by omega, ?_⟩
    · simp only [if_neg (show ¬ 2147483647 < p by omega)]
    · rw [if_neg (by omega)]
      congr 1
      omega

theorem rp_qual (qual : Option Nat) (hq : optAll fitsFB qual = true) :
    qual.getD F_MISSING < 4294967296 ∧
      ((classifyF (qual.getD F_MISSING) = .value (qual.getD F_MISSING)
          ∧ qual = some (qual.getD F_MISSING)) ∨
       (classifyF (qual.getD F_MISSING) = .missing ∧ qual = none)) := by
  cases qual with
  | none =>
    refine ⟨by simp only [Option.getD_none, F_MISSING]; omega, Or.inr ⟨?_, rfl⟩⟩
    simp only [Option.getD_none, classifyF, if_true]
  | some b =>
    simp only [optAll, fitsFB, decide_eq_true_eq] at hq
    exact ⟨hq.1, Or.inl ⟨classifyF_value b hq.2, rfl⟩⟩

theorem rp_ids_getD (ids : Bytes) : (if ids = [] then none else some ids).getD [] = ids := by
  by_cases hi : ids = []
  · rw [if_pos hi, hi]; rfl
  · rw [if_neg hi]; rfl

theorem writeSite_roundtrip (h : Header) (r : Rec) (hw : siteWF h r = true) :
    ∃ site, writeSite h r = .ok site ∧
      ∀ lazy : Bool, readSite lazy h site = .ok
        { chrom := r.chrom, pos := r.pos, qual := r.qual, ids := r.ids, ref := r.ref, alts := r.alts,
          filters := r.filters, info := r.info.map (fun kv => (kv.1, normInfoVal kv.2)),
          nFmt := r.keys.length, nSample := h.nSample } := by
  simp only [siteWF, Bool.and_eq_true, decide_eq_true_eq, List.all_eq_true, Bool.not_eq_true',
    beq_iff_eq] at hw
  obtain ⟨⟨⟨⟨⟨⟨⟨⟨⟨⟨⟨⟨⟨⟨⟨⟨⟨hchrom, hpos⟩, hqual⟩, hidl⟩, hidd⟩, hrefne⟩, hrefl⟩, halts⟩, haltn⟩, hfilt⟩,
    hfdup⟩, hfl⟩, hrlen⟩, hil⟩, hnd⟩, hinfo⟩, hkl⟩, hns⟩ := hw
  obtain ⟨ci, hci, hcile, hclk⟩ := sb_resolves h.contigs r.chrom hchrom
  obtain ⟨posI, hposW, hp1, hp2, hposR⟩ := rp_pos r.pos hpos
  obtain ⟨hq1, hq⟩ := rp_qual r.qual hqual
  obtain ⟨idb, hidb, hidr⟩ := rp_writeStr r.ids hidl
  obtain ⟨bases, hbasesW, hbasesR⟩ := rp_writeStrs (r.ref :: r.alts)
    (fun s hs => by
      rcases List.mem_cons.mp hs with rfl | hs
      · intro e; rw [e] at hrefne; cases hrefne
      · intro e; have := (halts s hs).1; rw [e] at this; cases this)
    (fun s hs => by
      rcases List.mem_cons.mp hs with rfl | hs
      · exact hrefl
      · exact (halts s hs).2)
  obtain ⟨fis, hfisW, hfisle, hfislen, hfisR⟩ := rp_filters h.strings r.filters hfilt
  obtain ⟨filtb, hfiltW, hfiltR⟩ := rp_writeIndices fis hfisle (by rw [hfislen]; exact hfl)
  obtain ⟨infos, hinfosW, hinfosR⟩ := readInfo_roundtrip h r.info hnd (fun kv hkv => by
    refine ⟨(hinfo kv hkv).1, ?_⟩
    have h2 := (hinfo kv hkv).2
    cases hl : h.infos.lookup kv.1 with
    | none => rw [hl] at h2; cases h2
    | some d => rw [hl] at h2; exact ⟨d, rfl, h2⟩)
  cases hr : rlenOf r.pos r.info r.ref with
  | error e => rw [hr] at hrlen; cases hrlen
  | ok rlen =>
  have hrl := rp_rlenOf_le _ _ _ _ hr
  have hnci : ¬ 2147483647 < ci := by omega
  have hb : ¬ (65535 < r.info.length ∨ 65535 < r.alts.length + 1 ∨ 16777215 < h.nSample
      ∨ 255 < r.keys.length) := by omega
  refine ⟨encS .w4 ci ++ (encS .w4 posI ++ (encS .w4 rlen ++ (encF (r.qual.getD F_MISSING)
      ++ (le 2 r.info.length ++ (le 2 (r.alts.length + 1)
      ++ (le 4 (r.keys.length * 16777216 + h.nSample)
      ++ (idb ++ (bases.flatten ++ (filtb ++ infos.flatten))))))))), ?_, ?_⟩
  · unfold writeSite
    rw [hci]
    simp only [if_neg hnci, hr, rp_bind_ok, if_neg hb, hidb, hbasesW, List.append_assoc]
    refine rp_bind_eq hposW ?_
    refine rp_bind_eq hfisW ?_
    refine rp_bind_eq hfiltW ?_
    refine rp_bind_eq hinfosW ?_
    rfl
  · intro lazy
    have hir := hinfosR lazy []
    rw [List.append_nil] at hir
    have := rp_readSite lazy h ci r.chrom posI rlen (r.qual.getD F_MISSING) r.qual r.info.length
      (r.keys.length * 16777216 + h.nSample) (if r.ids = [] then none else some r.ids) r.ref r.alts
      fis r.filters (r.info.map (fun kv => (kv.1, normInfoVal kv.2))) idb bases.flatten filtb
      infos.flatten hcile hclk hp1 hp2 hrl hq1 hq (by omega) (by omega) (by omega) hidr
      hbasesR hfiltR hfisR hir
    rw [this, hposR, rp_ids_getD, hidd, hfdup]
    have e1 : (r.keys.length * 16777216 + h.nSample) / 16777216 = r.keys.length := by omega
    have e2 : (r.keys.length * 16777216 + h.nSample) % 16777216 = h.nSample := by omega
    rw [e1, e2]
    cases lazy <;> rfl

/-! ### (3) the whole record -/

theorem rp_takeN (a b : Bytes) : takeN a.length (a ++ b) = .ok (a, b) := by
  unfold takeN
  rw [if_pos (by simp only [List.length_append]; omega), List.take_left', List.drop_left'] <;> rfl

theorem rp_map_fst_zip (ks : List String) (ns : List Nat) (hl : ks.length ≤ ns.length) :
    ((ks.zip ns).map fun ki => ki.1) = ks := by
  induction ks generalizing ns with
  | nil => rfl
  | cons k t ih =>
    cases ns with
    | nil => simp only [List.length_cons, List.length_nil] at hl; omega
    | cons n ns =>
      simp only [List.length_cons] at hl
      simp only [List.zip_cons_cons, List.map_cons, ih ns (by omega)]

theorem rp_normCols_keys (lazy : Bool) (h : Header) (r : Rec) :
    (normCols lazy h r).map (·.1) = r.keys := by
  unfold normCols
  rw [List.map_map]
  exact rp_map_fst_zip r.keys (List.range r.keys.length) (by rw [List.length_range]; omega)

/-- the framing of `readRecord` -/
theorem rp_readRecord (lazy : Bool) (h : Header) (site smp rest : Bytes) (s : SiteOut)
    (cols : List (String × List (Option SVal)))
    (h1 : site.length ≤ 4294967295) (h2 : smp.length ≤ 4294967295)
    (hs : readSite lazy h site = .ok s)
    (hE : lazy = false → readColumnsEager h s.nSample s.nFmt smp = .ok (cols, []))
    (hL : lazy = true → readColumnsLazy h s.nSample smp.length smp = .ok (cols, [])) :
    readRecord lazy h (le 4 site.length ++ le 4 smp.length ++ site ++ smp ++ rest)
      = .ok { chrom := s.chrom, pos := s.pos, qual := s.qual, ids := s.ids, ref := s.ref,
              alts := s.alts, filters := s.filters, info := s.info,
              keys := cols.map (·.1), rows := toRows s.nSample cols } := by
  have u1 := Noodles.Codec.unle_le 4 site.length (by omega)
  have u2 := Noodles.Codec.unle_le 4 smp.length (by omega)
  unfold readRecord
  simp only [List.append_assoc, u1, u2, rbind, rp_takeN, hs]
  cases lazy with
  | false => simp only [hE rfl, Bool.false_eq_true, if_false]
  | true => simp only [hL rfl, if_true]

theorem writeRecord_roundtrip (h : Header) (r : Rec) (hw : recWF h r = true) :
    ∃ site smp, writeSite h r = .ok site ∧ writeSamples h r = .ok smp ∧
      ((4294967295 < site.length ∨ 4294967295 < smp.length) → writeRecord h r = .error .invalidInput) ∧
      (site.length ≤ 4294967295 → smp.length ≤ 4294967295 →
        writeRecord h r = .ok (le 4 site.length ++ le 4 smp.length ++ site ++ smp) ∧
        ∀ (lazy : Bool) (rest : Bytes),
          readRecord lazy h (le 4 site.length ++ le 4 smp.length ++ site ++ smp ++ rest)
            = .ok (normRec lazy h r)) := by
  simp only [recWF, Bool.and_eq_true] at hw
  obtain ⟨hs, hm⟩ := hw
  obtain ⟨site, hsite, hrs⟩ := writeSite_roundtrip h r hs
  obtain ⟨smp, hsmp, _, hE, hL⟩ := writeSamples_roundtrip h r hm
  refine ⟨site, smp, hsite, hsmp, ?_, ?_⟩
  · intro hlt
    unfold writeRecord
    rw [hsite, hsmp]
    simp only [rp_bind_ok, if_pos hlt]
  · intro h1 h2
    refine ⟨?_, ?_⟩
    · unfold writeRecord
      rw [hsite, hsmp]
      simp only [rp_bind_ok,
        if_neg (show ¬ (4294967295 < site.length ∨ 4294967295 < smp.length) by omega)]
    · intro lazy rest
      rw [rp_readRecord lazy h site smp rest _ (normCols lazy h r) h1 h2 (hrs lazy)
        (fun e => by subst e; exact hE) (fun e => by subst e; exact hL)]
      simp only [rp_normCols_keys, normRec]

#print axioms readInfo_roundtrip
#print axioms writeSite_roundtrip
#print axioms writeRecord_roundtrip

end Noodles.Bcf
