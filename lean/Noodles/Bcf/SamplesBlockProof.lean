import Noodles.Bcf.RecordSpec
import Noodles.Bcf.ColumnProof
namespace Noodles.Bcf
open Noodles.Codec (Bytes Dec decN)

/-! # The samples block of a BCF record: `writeSamples` read back by both readers -/

/-! ### the string-map index in front of every column -/

theorem sb_readType_int1 (w : W) (c : UInt8)
    (hc : (c = 0x11 ∧ w = .w1) ∨ (c = 0x12 ∧ w = .w2) ∨ (c = 0x13 ∧ w = .w4)) (r : Bytes) :
    readType ([c] ++ r) = .ok (some (.int w, 1), r) := by
  rcases hc with ⟨rfl, rfl⟩ | ⟨rfl, rfl⟩ | ⟨rfl, rfl⟩ <;> simp [readType]

theorem sb_readIndex_w (w : W) (c : UInt8)
    (hc : (c = 0x11 ∧ w = .w1) ∨ (c = 0x12 ∧ w = .w2) ∨ (c = 0x13 ∧ w = .w4))
    (i : Nat) (hi : (i : Int) ≤ w.max) (rest : Bytes) :
    readIndex ((c :: encS w i) ++ rest) = .ok (i, rest) := by
  have hmin : w.min ≤ (i : Int) := by cases w <;> simp [W.min, W.modulus] <;> omega
  have hv := classify_value w i (by cases w <;> simp [W.minValue, W.min, W.modulus] <;> omega)
  have hrv := readValue_int1 w i [c] rest (sb_readType_int1 w c hc) ⟨hmin, hi⟩
  simp only [List.cons_append, List.nil_append] at hrv
  unfold readIndex
  simp only [List.cons_append, hrv, rbind, hv]
  simp

theorem sb_writeIndex_roundtrip (i : Nat) (hi : i ≤ 2147483647) :
    ∃ kb, writeIndex i = .ok kb ∧ kb ≠ [] ∧ ∀ rest, readIndex (kb ++ rest) = .ok (i, rest) := by
  unfold writeIndex
  by_cases h1 : i ≤ 127
  · exact ⟨_, if_pos h1, (by simp), fun rest =>
      sb_readIndex_w .w1 _ (by simp) i (by simp [W.max, W.modulus]; omega) rest⟩
  · rw [if_neg h1]
    by_cases h2 : i ≤ 32767
    · exact ⟨_, if_pos h2, (by simp), fun rest =>
        sb_readIndex_w .w2 _ (by simp) i (by simp [W.max, W.modulus]; omega) rest⟩
    · rw [if_neg h2]
      exact ⟨_, if_pos hi, (by simp), fun rest =>
        sb_readIndex_w .w4 _ (by simp) i (by simp [W.max, W.modulus]; omega) rest⟩

/-! ### the key resolves, the kind is the one the spec names -/

theorem sb_resolves (m : StringMap) (key : String) (h : resolves m key = true) :
    ∃ ki, m.getIndexOf key = some ki ∧ ki ≤ 2147483647 ∧ lookupNum m ki = .ok key := by
  unfold resolves at h
  cases hk : m.getIndexOf key with
  | none => rw [hk] at h; cases h
  | some ki =>
    rw [hk] at h
    simp only [Bool.and_eq_true, decide_eq_true_eq] at h
    exact ⟨ki, rfl, h.1, by simp only [lookupNum, h.2]⟩

theorem sb_colKind (h : Header) (key : String) (hd : (h.formats.lookup key).isSome = true) :
    colKind h key = .ok (kindOf h key) := by
  unfold colKind kindOf
  split
  · rfl
  · cases hl : h.formats.lookup key with
    | none => rw [hl] at hd; cases hd
    | some d => rfl

theorem sb_isEmpty_append (a b : Bytes) (ha : a ≠ []) : (a ++ b).isEmpty = false := by
  cases a with
  | nil => exact absurd rfl ha
  | cons x xs => rfl

/-! ### one column, key in front -/

theorem sb_column (h : Header) (key : String) (col : List (Option SVal))
    (hr : resolves h.strings key = true) (hd : (h.formats.lookup key).isSome = true)
    (hc : colOk (kindOf h key) col = true) :
    ∃ ki kb body, writeColumn h key col = .ok (kb ++ body) ∧ kb ≠ [] ∧
      (∀ rest, readIndex (kb ++ rest) = .ok (ki, rest)) ∧
      lookupNum h.strings ki = .ok key ∧
      (∀ rest, readColumnEager (kindOf h key) col.length (body ++ rest)
        = .ok (col.map (normSValE (kindOf h key)), rest)) ∧
      (∀ rest v44, readColumnLazy v44 (kindOf h key) col.length (body ++ rest)
        = .ok (col.map (normSValL v44 (kindOf h key)), rest)) := by
  obtain ⟨ki, hki, hle, hlk⟩ := sb_resolves h.strings key hr
  obtain ⟨kb, hkb, hne, hri⟩ := sb_writeIndex_roundtrip ki hle
  obtain ⟨body, hw, _, _⟩ := writeColumn_body h key col ki hki kb hkb hd hc []
  have key' : ∀ rest,
      readColumnEager (kindOf h key) col.length (body ++ rest)
        = .ok (col.map (normSValE (kindOf h key)), rest) ∧
      ∀ v44, readColumnLazy v44 (kindOf h key) col.length (body ++ rest)
        = .ok (col.map (normSValL v44 (kindOf h key)), rest) := by
    intro rest
    obtain ⟨body', hw', hE, hL⟩ := writeColumn_body h key col ki hki kb hkb hd hc rest
    have e : kb ++ body' = kb ++ body := Except.ok.inj (hw'.symm.trans hw)
    have e' : body' = body := List.append_cancel_left e
    subst e'
    exact ⟨hE, hL⟩
  exact ⟨ki, kb, body, hw, hne, hri, hlk, fun rest => (key' rest).1, fun rest v44 => (key' rest).2 v44⟩

/-! ### all columns -/

theorem sb_columns (h : Header) (r : Rec) (n : Nat) (kis : List (String × Nat))
    (hk : ∀ ki ∈ kis, resolves h.strings ki.1 = true ∧ (h.formats.lookup ki.1).isSome = true ∧
        colOk (kindOf h ki.1) (colOf r ki.2) = true)
    (hn : ∀ k, (colOf r k).length = n) :
    ∃ bss, mapMW (fun (ki : String × Nat) => writeColumn h ki.1 (colOf r ki.2)) kis = .ok bss ∧
      bss.length = kis.length ∧ (∀ bs ∈ bss, bs ≠ []) ∧
      (∀ rest, readColumnsEager h n kis.length (bss.flatten ++ rest) =
        .ok (kis.map fun ki => (ki.1, (colOf r ki.2).map (normSValE (kindOf h ki.1))), rest)) ∧
      (∀ fuel, kis.length ≤ fuel → readColumnsLazy h n fuel bss.flatten =
        .ok (kis.map fun ki => (ki.1, (colOf r ki.2).map (normSValL h.v44 (kindOf h ki.1))), [])) := by
  induction kis with
  | nil =>
    refine ⟨[], rfl, rfl, (fun bs hbs => by cases hbs), (fun rest => rfl), ?_⟩
    intro fuel _
    cases fuel <;> rfl
  | cons ki kis ih =>
    obtain ⟨hr, hd, hc⟩ := hk ki (by simp)
    obtain ⟨bss, hmap, hlen, hne, ihE, ihL⟩ := ih (fun k hk' => hk k (List.mem_cons_of_mem _ hk'))
    obtain ⟨i, kb, body, hw, hkb, hri, hlk, hE, hL⟩ := sb_column h ki.1 (colOf r ki.2) hr hd hc
    rw [hn] at hE hL
    obtain ⟨d, hd'⟩ := Option.isSome_iff_exists.mp hd
    have hck := sb_colKind h ki.1 hd
    refine ⟨(kb ++ body) :: bss, ?_, ?_, ?_, ?_, ?_⟩
    · unfold mapMW at hmap ⊢
      simp only [mapM', hw, hmap]
    · simp only [List.length_cons, hlen]
    · intro bs hbs
      rcases List.mem_cons.mp hbs with rfl | hbs
      · intro e
        cases kb with
        | nil => exact hkb rfl
        | cons x xs => cases e
      · exact hne bs hbs
    · intro rest
      simp only [List.flatten_cons, List.append_assoc, List.length_cons, readColumnsEager, hri, rbind,
        hlk, hd', hck, hE, ihE, List.map_cons]
    · intro fuel hf
      cases fuel with
      | zero => simp only [List.length_cons] at hf; omega
      | succ fuel =>
        have hf' : kis.length ≤ fuel := by simp only [List.length_cons] at hf; omega
        simp only [List.flatten_cons, List.append_assoc, readColumnsLazy,
          sb_isEmpty_append kb _ hkb, hri, rbind, hlk, hck, hL, ihL fuel hf', List.map_cons]
        rfl

/-! ### the block -/

theorem sb_colOf_length (r : Rec) (k : Nat) : (colOf r k).length = r.rows.length := by
  simp only [colOf, List.length_map]

theorem sb_flatten_length (bss : List Bytes) (h : ∀ bs ∈ bss, bs ≠ []) :
    bss.length ≤ bss.flatten.length := by
  induction bss with
  | nil => simp
  | cons b bss ih =>
    have hb : b ≠ [] := h b (by simp)
    have h1 := ih (fun x hx => h x (List.mem_cons_of_mem _ hx))
    have h2 : 1 ≤ b.length := by
      cases b with
      | nil => exact absurd rfl hb
      | cons x xs => simp
    simp only [List.length_cons, List.flatten_cons, List.length_append]
    omega

theorem sb_normCols_false (h : Header) (r : Rec) :
    normCols false h r = (r.keys.zip (List.range r.keys.length)).map fun ki =>
      (ki.1, (colOf r ki.2).map (normSValE (kindOf h ki.1))) := rfl

theorem sb_normCols_true (h : Header) (r : Rec) :
    normCols true h r = (r.keys.zip (List.range r.keys.length)).map fun ki =>
      (ki.1, (colOf r ki.2).map (normSValL h.v44 (kindOf h ki.1))) := rfl

theorem writeSamples_roundtrip (h : Header) (r : Rec) (hw : samplesWF h r = true) :
    ∃ smp, writeSamples h r = .ok smp ∧
      (r.keys = [] → smp = []) ∧
      readColumnsEager h h.nSample r.keys.length smp = .ok (normCols false h r, []) ∧
      readColumnsLazy h h.nSample smp.length smp = .ok (normCols true h r, []) := by
  simp only [samplesWF, Bool.and_eq_true, List.all_eq_true] at hw
  obtain ⟨hshape, hcols⟩ := hw
  by_cases hkeys : r.keys = []
  · refine ⟨[], ?_, (fun _ => rfl), ?_, ?_⟩
    · unfold writeSamples
      split
      · rfl
      · rw [hkeys]; rfl
    · rw [sb_normCols_false, hkeys]; rfl
    · rw [sb_normCols_true, hkeys]; rfl
  · have hne : ¬ (r.keys.isEmpty = true) := by
      intro e; exact hkeys (List.isEmpty_iff.mp e)
    rw [if_neg hne] at hshape
    simp only [Bool.and_eq_true, decide_eq_true_eq] at hshape
    obtain ⟨⟨hrows, hpos⟩, _⟩ := hshape
    have hn : ∀ k, (colOf r k).length = h.nSample := fun k => by rw [sb_colOf_length, hrows]
    obtain ⟨bss, hmap, hlen, hnon, hE, hL⟩ :=
      sb_columns h r h.nSample (r.keys.zip (List.range r.keys.length))
        (fun ki hki => ⟨(hcols ki hki).1.1, (hcols ki hki).1.2, (hcols ki hki).2⟩) hn
    have hzl : (r.keys.zip (List.range r.keys.length)).length = r.keys.length := by
      simp only [List.length_zip, List.length_range, Nat.min_self]
    have hrne : r.rows.isEmpty = false := by
      cases hr : r.rows with
      | nil => rw [hr] at hrows; simp only [List.length_nil] at hrows; omega
      | cons x xs => rfl
    refine ⟨bss.flatten, ?_, (fun e => absurd e hkeys), ?_, ?_⟩
    · unfold writeSamples
      rw [hrne]
      simp only [Bool.false_eq_true, if_false]
      have hmap' : mapMW (fun (ki : String × Nat) =>
          writeColumn h ki.1 (r.rows.map fun row => (row[ki.2]?).join))
          (r.keys.zip (List.range r.keys.length)) = .ok bss := hmap
      rw [hmap']
      rfl
    · have := hE []
      rw [hzl, List.append_nil] at this
      rw [this, sb_normCols_false]
    · have hfl := sb_flatten_length bss hnon
      rw [hL bss.flatten.length (by omega), sb_normCols_true]

#print axioms writeSamples_roundtrip

end Noodles.Bcf
