import Noodles.Io.Prog
import Noodles.Io.Binary
import Noodles.Io.MoreProof
import Noodles.Hostile.BamHeader
/-!
# The CRAM file header container as a `Prog` (model for C13, part 2)

Transcribed from noodles-cram `io/reader/header.rs` (`read_file_header`, `read_file_header_inner`,
`read_sam_header`), `io/reader/header/container.rs` (`Reader::new` = `inner.take(len)`,
`raw_sam_header_reader`, `discard_to_end`), `header/container/header.rs` (`read_header`,
`read_header_inner`, `read_landmarks`), `header/container/block.rs` (`read_block`,
`read_compression_method`, `read_content_type`, `validate_content_type`) and
`header/container/sam_header.rs` (the `BufRead` that ends the text at a line starting with NUL — the
same reader as the BAM one: `Noodles.Hostile.BamHdr.linesGo` / `textLines`, shared with C15).

How the file is touched: the container header field by field with `read_exact` (through a
`CrcReader`); everything after it through `reader.take(len)`. On success that `Take` is read to its
end (`container_reader.discard_to_end()`); on an error the position does not matter. So the reader is
`read_header`, then `Prog.upTo len` and a PURE function of the bytes the `Take` delivered
(`headerOfBody`): the block header (run as a `Prog` over those bytes), then

* method `None`: `take(uncompressed_size)`, `l_text` (`i32`, non-negative), `take(l_text)`, the lines;
* method `Gzip`: `GzDecoder::new(take(compressed_size))`, the same reads on its output.

External components are parameters: CRC-32 (`crc`), the SAM header parser (`P`: the lines it is fed ↦
`none` = a line was rejected (`InvalidData`), or the parsed header), and flate2's `GzDecoder` under the
read pattern of `read_file_header` (`G`: the window ↦ `GzRun`; the harness obtains the answers from
flate2 itself and validates the law the theorem assumes on every run).
-/
namespace Noodles.IO
namespace Prog

/-- `for _ in 0..len { read_itf8(reader)?; }` of the header container's `read_landmarks` (the values
are dropped, not converted) -/
def landmarksRaw : Nat → Bytes → Prog Bytes
  | 0, raw => ret raw
  | n+1, raw => bind itf8 fun (_, r) => landmarksRaw n (raw ++ r)

/-- `header::container::header::read_header`: the container header fields read and dropped (no
reference context, no conversion except the landmark count), the CRC-32 of their bytes against the
stored one; the result is the body length as a `u64` -/
def cramHdrContainerLen (crc : Bytes → Nat) : Prog Nat := do
  let lenB ← readExact 4
  let len := leNat lenB
  if ¬ len < 2 ^ 31 then fail .invalidData else      -- `u64::try_from(i32)`
  let (_, r1) ← itf8
  let (_, r2) ← itf8
  let (_, r3) ← itf8
  let (_, r4) ← itf8
  let (_, r5) ← ltf8
  let (_, r6) ← ltf8
  let (_, r7) ← itf8
  let (n, r8) ← asUnsigned 32 itf8
  let r9 ← landmarksRaw n []
  let actual := crc (lenB ++ r1 ++ r2 ++ r3 ++ r4 ++ r5 ++ r6 ++ r7 ++ r8 ++ r9)
  let expected ← u32le
  if actual ≠ expected then fail .invalidData else return len

/-- `header::container::block::read_block` up to the block data: compression method (`decode`:
0..=8), content type (`decode`: 0..=5, then it must be `FileHeader` = 0), content id, compressed and
uncompressed size (`read_itf8_as::<u64>`); a method other than `None` / `Gzip` is `InvalidData`.
Returns (method, compressed size, uncompressed size). -/
def cramHdrBlock : Prog (Nat × Nat × Nat) := do
  let m ← u8
  if 8 < m then fail .invalidData else
  let t ← u8
  if 5 < t then fail .invalidData else
  if t ≠ 0 then fail .invalidData else
  let _ ← itf8
  let (cs, _) ← asUnsigned 32 itf8
  let (us, _) ← asUnsigned 32 itf8
  if m = 0 ∨ m = 1 then return (m, cs, us) else fail .invalidData

/-- what a `GzDecoder` over the block's `compressed_size` window does under the read pattern of
`read_file_header` (`read_exact` of the 4 bytes of `l_text`, then 8 KiB `BufReader` fills through
`take(l_text)` until the end): the first four bytes or the error of that read; then the text bytes
delivered before the source ended, and the error it ended with (`none`: cleanly) -/
structure GzRun where
  first4 : Except Err Bytes
  text : Bytes
  stop : Option Err

/-- the text lines out of a raw block's bytes: `l_text`, then `take(l_text)`; the source simply ends -/
def rawLines (d : Bytes) : Except Err (List Bytes × Option Err) :=
  match runPure i32leNonneg d with
  | (.error e, _) => .error e
  | (.ok lText, r) => .ok (Noodles.Hostile.BamHdr.textLines (r.take lText), none)

/-- the same out of a gzip block. A source that fails hands over the complete lines it delivered
before (the unterminated rest is dropped with the error). -/
def gzLines (g : GzRun) : Except Err (List Bytes × Option Err) :=
  match g.first4 with
  | .error e => .error e
  | .ok b =>
    if ¬ leNat b < 2 ^ 31 then .error .invalidData
    else match g.stop with
      | none => .ok (Noodles.Hostile.BamHdr.textLines g.text, none)
      | some e => .ok ((Noodles.Hostile.BamHdr.linesGo g.text none).1, some e)

/-- the lines `read_sam_header` feeds the parser, and the error the text source ended with, out of the
bytes `w` the container's `Take` delivers -/
def linesOfBody (G : Bytes → GzRun) (w : Bytes) : Except Err (List Bytes × Option Err) :=
  match runPure cramHdrBlock w with
  | (.error e, _) => .error e
  | (.ok (m, cs, us), rest) =>
    if m = 0 then rawLines (rest.take us) else gzLines (G (rest.take cs))

/-- `read_sam_header` on the lines: they go to the parser one by one (a rejected line is
`InvalidData` — before an error of the text source, which comes after the complete lines delivered
before it) -/
def headerOfLines {ρ : Type} (P : List Bytes → Option ρ) :
    Except Err (List Bytes × Option Err) → Except Err ρ
  | .error e => .error e
  | .ok (lines, stop) =>
    match P lines with
    | none => .error .invalidData
    | some h =>
      match stop with
      | some e => .error e
      | none => .ok h

/-- `read_file_header_inner` after the container header -/
def headerOfBody {ρ : Type} (G : Bytes → GzRun) (P : List Bytes → Option ρ) (w : Bytes) : Except Err ρ :=
  headerOfLines P (linesOfBody G w)

/-- `read_file_header` -/
def cramFileHeader {ρ : Type} (crc : Bytes → Nat) (G : Bytes → GzRun) (P : List Bytes → Option ρ) :
    Prog ρ := do
  let len ← cramHdrContainerLen crc
  upTo len fun w =>
    match headerOfBody G P w with
    | .ok h => ret h
    | .error e => fail e

/-- `read_header` = `read_file_definition`, then `read_file_header` -/
def cramHeader {ρ : Type} (crc : Bytes → Nat) (G : Bytes → GzRun) (P : List Bytes → Option ρ) :
    Prog ((Bytes × Bytes) × ρ) := do
  let d ← cramFileDefinition
  let h ← cramFileHeader crc G P
  return (d, h)

end Prog
end Noodles.IO
