import Noodles.Bgzf.Frame
/-!
# Framed readers on truncated input (model for C13)

Every noodles reader that matters for "a truncated file yields a prefix, then EOF or an error" is
a loop over a *frame reader*: one call consumes one frame off the front of the stream and reports
an item, the end of input, or an error.

* BGZF members — `noodles-bgzf/src/io/reader/frame.rs` (`read_frame_into`, `parse_frame`,
  `inflate`), looped by `io/reader.rs::read_nonempty_block_with`. The member reader itself is
  `Noodles.Bgzf.readFrame` (shared with C01); here it is wrapped so that the data delivered before
  an error is kept.
* BAM records — `noodles-bam/src/io/reader/record.rs` (`read_record`, `read_block_size`,
  `read_exact_or_eof`, `validate`).
* BCF records — `noodles-bcf/src/io/reader/record.rs` (`read_record`, `read_site_length`,
  `read_exact_or_eof`, `read_samples_length`).
* CRAM containers — `noodles-cram/src/io/reader/container.rs` (`read_container`),
  `container/header.rs` (`read_header_inner`, `read_landmarks`, `is_eof`), `num/itf8.rs`,
  `num/ltf8.rs`, `header.rs` (`read_file_definition_inner`).

Integers are `Nat`/`Int`; the bit masks of the Rust code are written with `%` and `/`
(`b &&& 0x80 = 0` is `b < 128` for a byte, `(b &&& 0x7f) <<< 8` is `(b % 128) * 256`, …).
-/
namespace Noodles.Trunc
open Noodles.Codec hiding Err Dec
open Noodles.Bgzf

/-- How a stream ends: cleanly, or with an I/O error of some class. -/
inductive End
  | eof
  | err (e : Err)
  deriving Repr, DecidableEq

/-- One call of a frame reader. -/
inductive Step (α : Type)
  | eof
  | err (e : Err)
  | item (a : α) (rest : Bytes)

def Step.ofEnd {α : Type} : End → Step α
  | .eof => .eof
  | .err e => .err e

/-- The caller's loop (`while reader.read_record(..)? != 0`, `read_to_end`, `records()`): frames
until the end of input or the first error; what was delivered before is kept. -/
def readMany {α : Type} (rd : Bytes → Step α) : Nat → Bytes → List α × End
  | 0, _ => ([], .err .unreachable)
  | fuel+1, s =>
    match rd s with
    | .eof => ([], .eof)
    | .err e => ([], .err e)
    | .item a rest => ((a :: (readMany rd fuel rest).1), (readMany rd fuel rest).2)

/-- Where a cut falls in a list of frames of the given lengths: the number of frames wholly inside
the first `k` bytes, and the number of bytes present beyond them. -/
def whole : List Nat → Nat → Nat × Nat
  | [], k => (0, k)
  | n :: ns, k => if n ≤ k then ((whole ns (k - n)).1 + 1, (whole ns (k - n)).2) else (0, k)

/-! ## BGZF -/

/-- `read_frame_into` + `parse_block` as one step: `Ok(None)` is the end of input. -/
def bgzfStep (D : Deflater) (s : Bytes) : Step Bytes :=
  match readFrame D s with
  | .error e => .err e
  | .ok none => .eof
  | .ok (some (_, data, rest)) => .item data rest

/-- Reading a BGZF stream to its end: the data of the members read, and how it ended. -/
def readStream (D : Deflater) (s : Bytes) : List Bytes × End :=
  readMany (bgzfStep D) (s.length + 1) s

/-! ## a byte source as a record reader sees it -/

/-- The error a `read`/`read_exact` reports when the source runs out: `UnexpectedEof` if the source
ended cleanly, the source's own error otherwise. -/
def shortErr : End → Err
  | .eof => .eof
  | .err e => e

/-! ## BAM records -/

def u16le (s : Bytes) : Nat := (s.getD 0 0).toNat + 256 * (s.getD 1 0).toNat
def u32le (s : Bytes) : Nat :=
  (s.getD 0 0).toNat + 256 * ((s.getD 1 0).toNat + 256 * ((s.getD 2 0).toNat + 256 * (s.getD 3 0).toNat))

/-- `validate`: the fixed 32 bytes, then name, CIGAR, packed bases and qualities must fit. Both
failures are `UnexpectedEof`. -/
def bamValidate (src : Bytes) : Bool :=
  if src.length < 32 then false else
  let nameLen := (src.getD 8 0).toNat
  let cigarOps := u16le (src.drop 12)
  let baseCount := u32le (src.drop 16)
  let qualityScoresEnd := 32 + nameLen + cigarOps * 4 + (baseCount + 1) / 2 + baseCount
  !(src.length < qualityScoresEnd)

/-- `read_record` on a source that delivers `s` and then ends as `fin`.
`read_exact_or_eof`: zero bytes leave the size buffer at 0; a partial size is `UnexpectedEof`.
A block size of 0 — from an empty source *or from four zero bytes* — is reported as end of input. -/
def bamStep (fin : End) (s : Bytes) : Step Bytes :=
  if s.length = 0 then .ofEnd fin
  else if s.length < 4 then .err (shortErr fin)
  else
    match unle 4 s with
    | .error _ => .err .eof
    | .ok (n, r) =>
      if n = 0 then .eof
      else if r.length < n then .err (shortErr fin)
      else if bamValidate (r.take n) then .item (r.take n) (r.drop n)
      else .err .eof

/-- the record section of an uncompressed BAM stream -/
def bamFrame (r : Bytes) : Bytes := le 4 r.length ++ r
def bamStream (recs : List Bytes) : Bytes := (recs.map bamFrame).flatten

/-- the BAM record loop (`while reader.read_record(&mut record)? != 0`) over a source that
delivers `s` and then ends as `fin` -/
def readBam (fin : End) (s : Bytes) : List Bytes × End := readMany (bamStep fin) (s.length + 1) s

/-! ## BCF records -/

/-- `read_record`: `l_shared` (0 bytes or a value of 0 = end of input), `l_indiv` (`read_exact`),
the site block, `Fields::index` on it (a parameter: `none` = accepted), the samples block. -/
def bcfStep (index : Bytes → Option Err) (fin : End) (s : Bytes) : Step (Bytes × Bytes) :=
  if s.length = 0 then .ofEnd fin
  else if s.length < 4 then .err (shortErr fin)
  else
    match unle 4 s with
    | .error _ => .err .eof
    | .ok (lShared, r) =>
      if lShared = 0 then .eof
      else
        match unle 4 r with
        | .error _ => .err (shortErr fin)
        | .ok (lIndiv, r2) =>
          if r2.length < lShared then .err (shortErr fin)
          else
            match index (r2.take lShared) with
            | some e => .err e
            | none =>
              if (r2.drop lShared).length < lIndiv then .err (shortErr fin)
              else .item (r2.take lShared, (r2.drop lShared).take lIndiv) ((r2.drop lShared).drop lIndiv)

def bcfFrame (p : Bytes × Bytes) : Bytes := le 4 p.1.length ++ le 4 p.2.length ++ p.1 ++ p.2
def bcfStream (recs : List (Bytes × Bytes)) : Bytes := (recs.map bcfFrame).flatten

/-- the BCF record loop -/
def readBcf (index : Bytes → Option Err) (fin : End) (s : Bytes) : List (Bytes × Bytes) × End :=
  readMany (bcfStep index fin) (s.length + 1) s

/-! ## a small decoder kit (errors of class `Bgzf.Err`) for the CRAM container header -/

abbrev Dec (α : Type) := Bytes → Except Err (α × Bytes)

def Dec.pure {α : Type} (a : α) : Dec α := fun s => .ok (a, s)
def Dec.fail {α : Type} (e : Err) : Dec α := fun _ => .error e
def Dec.bind {α β : Type} (d : Dec α) (f : α → Dec β) : Dec β := fun s =>
  match d s with
  | .error e => .error e
  | .ok (a, r) => f a r
/-- `read_exact` of `n` bytes -/
def Dec.take (n : Nat) : Dec Bytes := fun s =>
  if s.length < n then .error .eof else .ok (s.take n, s.drop n)
/-- `try_from`-style check -/
def Dec.guard (c : Bool) (e : Err) : Dec Unit := if c then Dec.pure () else Dec.fail e

/-- `n` items -/
def Dec.many {α : Type} (d : Dec α) : Nat → Dec (List α)
  | 0 => Dec.pure []
  | n+1 => d.bind fun a => (Dec.many d n).bind fun as => Dec.pure (a :: as)

def beVal : Bytes → Nat
  | [] => 0
  | b :: r => b.toNat * 256 ^ r.length + beVal r
def leVal : Bytes → Nat
  | [] => 0
  | b :: r => b.toNat + 256 * leVal r

def beN (n : Nat) : Dec Nat := (Dec.take n).bind fun bs => Dec.pure (beVal bs)
def leN (n : Nat) : Dec Nat := (Dec.take n).bind fun bs => Dec.pure (leVal bs)

/-- `as i32` / `as i64` of an unsigned value -/
def toSigned (bits : Nat) (n : Nat) : Int :=
  if n % 2 ^ bits < 2 ^ (bits - 1) then (n % 2 ^ bits : Nat) else ((n % 2 ^ bits : Nat) : Int) - (2 ^ bits : Nat)

/-- `read_itf8`: the first byte says how many follow (0–4); the fifth byte contributes 4 bits. -/
def itf8 : Dec Int := (beN 1).bind fun b0 =>
  if b0 < 128 then Dec.pure (toSigned 32 b0)
  else if b0 < 192 then (beN 1).bind fun v => Dec.pure (toSigned 32 ((b0 % 128) * 256 + v))
  else if b0 < 224 then (beN 2).bind fun v => Dec.pure (toSigned 32 ((b0 % 64) * 65536 + v))
  else if b0 < 240 then (beN 3).bind fun v => Dec.pure (toSigned 32 ((b0 % 32) * 16777216 + v))
  else (beN 4).bind fun v => Dec.pure (toSigned 32 ((b0 % 16) * 268435456 + (v / 256) * 16 + v % 16))

/-- `read_ltf8`: 0–8 following bytes. -/
def ltf8 : Dec Int := (beN 1).bind fun b0 =>
  if b0 < 128 then Dec.pure (toSigned 64 b0)
  else if b0 < 192 then (beN 1).bind fun v => Dec.pure (toSigned 64 ((b0 % 128) * 256 + v))
  else if b0 < 224 then (beN 2).bind fun v => Dec.pure (toSigned 64 ((b0 % 64) * 2 ^ 16 + v))
  else if b0 < 240 then (beN 3).bind fun v => Dec.pure (toSigned 64 ((b0 % 32) * 2 ^ 24 + v))
  else if b0 < 248 then (beN 4).bind fun v => Dec.pure (toSigned 64 ((b0 % 16) * 2 ^ 32 + v))
  else if b0 < 252 then (beN 5).bind fun v => Dec.pure (toSigned 64 ((b0 % 8) * 2 ^ 40 + v))
  else if b0 < 254 then (beN 6).bind fun v => Dec.pure (toSigned 64 ((b0 % 4) * 2 ^ 48 + v))
  else if b0 < 255 then (beN 7).bind fun v => Dec.pure (toSigned 64 v)
  else (beN 8).bind fun v => Dec.pure (toSigned 64 v)

/-- `read_itf8_as::<usize>` / `read_ltf8_as::<u64>`: a negative value is `InvalidData` -/
def nonneg (d : Dec Int) : Dec Nat := d.bind fun v =>
  (Dec.guard (decide (0 ≤ v)) .invalidData).bind fun _ => Dec.pure v.toNat

/-! ## CRAM container header -/

structure CramHeader where
  len : Nat
  refId : Int
  start : Int
  span : Int
  records : Nat
  counter : Nat
  bases : Nat
  blocks : Nat
  landmarks : List Nat
  deriving Repr, DecidableEq

/-- `ReferenceSequenceContext::try_from((id, start, span))`: −1 and −2 are always accepted;
otherwise id ≥ 0, start ≥ 1 (`Position`), span ≥ 1 (`NonZero`) -/
def ctxOk (refId start span : Int) : Bool :=
  refId == -1 || refId == -2 || (decide (0 ≤ refId) && decide (1 ≤ start) && decide (1 ≤ span))

/-- the fields of `read_header_inner` up to (not including) the CRC32, in the order the code reads
and checks them -/
def cramFields : Dec CramHeader :=
  (leN 4).bind fun rawLen =>
  (Dec.guard (decide (rawLen < 2 ^ 31)) .invalidData).bind fun _ =>
  itf8.bind fun refId =>
  itf8.bind fun start =>
  itf8.bind fun span =>
  (Dec.guard (ctxOk refId start span) .invalidData).bind fun _ =>
  (nonneg itf8).bind fun records =>
  (nonneg ltf8).bind fun counter =>
  (nonneg ltf8).bind fun bases =>
  (nonneg itf8).bind fun blocks =>
  (nonneg itf8).bind fun nLandmarks =>
  (Dec.many (nonneg itf8) nLandmarks).bind fun landmarks =>
  Dec.pure ⟨rawLen, refId, start, span, records, counter, bases, blocks, landmarks⟩

/-- `read_header_inner`: the fields through a `CrcReader`, then the stored CRC32 from the raw
reader; a mismatch is `InvalidData`. Returns the header and the CRC32. -/
def cramHeader (crc : Bytes → Nat) : Dec (CramHeader × Nat) := fun s =>
  match cramFields s with
  | .error e => .error e
  | .ok (h, r) =>
    let actual := crc (s.take (s.length - r.length))
    match leN 4 r with
    | .error e => .error e
    | .ok (expected, r') =>
      if actual ≠ expected then .error .invalidData else .ok ((h, actual), r')

/-- `is_eof` -/
def cramIsEof (h : CramHeader) (crc : Nat) : Bool :=
  h.len == 15 && h.refId == -1 && h.start == 4542278 && h.blocks == 1 && crc == 0x4fd9bd05

structure Container where
  header : CramHeader
  src : Bytes
  deriving Repr, DecidableEq

/-- `read_container`: `read_header` returns 0 for the EOF container *and for any container whose
length field is 0*; both are reported as the end of input, and the body of the EOF container is
not read. Otherwise `len` bytes are `read_exact`. -/
def cramStep (crc : Bytes → Nat) (s : Bytes) : Step Container :=
  match cramHeader crc s with
  | .error e => .err e
  | .ok ((h, c), r) =>
    if cramIsEof h c || h.len == 0 then .eof
    else if r.length < h.len then .err .eof
    else .item ⟨h, r.take h.len⟩ (r.drop h.len)

def CRAM_MAGIC : Bytes := [0x43, 0x52, 0x41, 0x4d]

/-- `read_file_definition_inner`: magic (validated), 2 version bytes, 20 file-id bytes -/
def cramFileDefinition : Dec Unit :=
  (Dec.take 4).bind fun m =>
  (Dec.guard (decide (m = CRAM_MAGIC)) .invalidData).bind fun _ =>
  (Dec.take 2).bind fun _ =>
  (Dec.take 20).bind fun _ => Dec.pure ()

/-- the 38-byte CRAM 3.x EOF container written by `write_eof_container` -/
def CRAM_EOF : Bytes :=
  [0x0f, 0x00, 0x00, 0x00, 0xff, 0xff, 0xff, 0xff, 0x0f, 0xe0, 0x45, 0x4f, 0x46, 0x00, 0x00, 0x00,
   0x00, 0x01, 0x00, 0x05, 0xbd, 0xd9, 0x4f, 0x00, 0x01, 0x00, 0x06, 0x06, 0x01, 0x00, 0x01, 0x00,
   0x01, 0x00, 0xee, 0x63, 0x01, 0x4b]

/-- the container loop (`while reader.read_container(&mut container)? != 0`) -/
def readCram (crc : Bytes → Nat) (s : Bytes) : List Container × End :=
  readMany (cramStep crc) (s.length + 1) s

/-- `read_file_definition`, then the container loop: what `cram::io::Reader` does with a stream -/
def readCramFile (crc : Bytes → Nat) (s : Bytes) : List Container × End :=
  match cramFileDefinition s with
  | .error e => ([], .err e)
  | .ok (_, r) => readCram crc r

/-! ## BAM / BCF headers (framing only) -/

def BAM_MAGIC : Bytes := [0x42, 0x41, 0x4d, 0x01]
def BCF_MAGIC : Bytes := [0x42, 0x43, 0x46]

/-- `noodles-bam/src/io/reader/header.rs::read_header_inner`, framing only: magic (validated),
`l_text` and that many bytes of text, `n_ref` and per reference `l_name`, the name, `l_ref`.
What the text and name parsers make of their (complete) input is not modelled. (The code reads the
text through `Take(l_text)`, which tolerates a short text, but then fails on `n_ref`.) -/
def bamHeader : Dec Unit :=
  (Dec.take 4).bind fun m =>
  (Dec.guard (decide (m = BAM_MAGIC)) .invalidData).bind fun _ =>
  (leN 4).bind fun lText =>
  (Dec.take lText).bind fun _ =>
  (leN 4).bind fun nRef =>
  (Dec.many ((leN 4).bind fun lName => (Dec.take lName).bind fun _ => (leN 4).bind fun _ => Dec.pure ()) nRef).bind fun _ =>
  Dec.pure ()

/-- `noodles-bcf/src/io/reader/header.rs::read_header_inner`, framing only, AS FIXED by
`fixes/bcf-header-truncated-text.diff`: magic (validated), two version bytes, `l_text` and that
many bytes of text. Before the fix `vcf_header::Reader` (a `Take(l_text)`) accepted a text shorter
than `l_text` and the reader returned a header built from the lines present. -/
def bcfHeader : Dec Unit :=
  (Dec.take 3).bind fun m =>
  (Dec.guard (decide (m = BCF_MAGIC)) .invalidData).bind fun _ =>
  (Dec.take 2).bind fun _ =>
  (leN 4).bind fun lText =>
  (Dec.take lText).bind fun _ =>
  Dec.pure ()

end Noodles.Trunc
