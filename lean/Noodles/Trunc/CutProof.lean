import Noodles.Trunc.Cut
import Noodles.Trunc.Proof
/-!
# The generic truncation theorems for `Prog` trees and record loops (proofs for C13, part 2)
-/
namespace Noodles.IO
namespace Prog
variable {β γ : Type}

theorem used_le (p : Prog β) (d : Bytes) : used p d ≤ d.length := by
  unfold used; omega

theorem runPure_nil_snd (p : Prog β) : (runPure p []).2 = [] := by
  have := runPure_le p []
  exact List.eq_nil_of_length_eq_zero (by simpa using this)

theorem used_exact_ok (n : Nat) (kk : Except Err Bytes → Prog β) (d : Bytes) (h : n ≤ d.length) :
    used (exact n kk) d = n + used (kk (.ok (d.take n))) (d.drop n) := by
  have hs : specReadExact d n = (.ok (d.take n), d.drop n) := by simp [specReadExact, h]
  have := runPure_le (kk (.ok (d.take n))) (d.drop n)
  simp only [used, runPure, hs, List.length_drop] at this ⊢
  omega

theorem used_exactOrEof_ok (n : Nat) (kk : Except Err Bytes → Prog β) (d : Bytes) (h : n ≤ d.length) :
    used (exactOrEof n kk) d = n + used (kk (.ok (d.take n))) (d.drop n) := by
  have hs : specReadExactOrEof d n = (.ok (d.take n), d.drop n) := by simp [specReadExactOrEof, h]
  have := runPure_le (kk (.ok (d.take n))) (d.drop n)
  simp only [used, runPure, hs, List.length_drop] at this ⊢
  omega

theorem used_upTo_ok (n : Nat) (kk : Bytes → Prog β) (d : Bytes) (h : n ≤ d.length) :
    used (upTo n kk) d = n + used (kk (d.take n)) (d.drop n) := by
  have := runPure_le (kk (d.take n)) (d.drop n)
  simp only [used, runPure, List.length_drop] at this ⊢
  omega

/-- a call that asks for more than there is uses up everything -/
theorem used_exact_short (n : Nat) (kk : Except Err Bytes → Prog β) (d : Bytes) (h : d.length < n) :
    used (exact n kk) d = d.length ∧ runPure (exact n kk) d = runPure (kk (.error .eof)) [] := by
  have hs : specReadExact d n = (.error .eof, []) := by simp [specReadExact]; omega
  simp only [used, runPure, hs, runPure_nil_snd]
  simp

theorem take_take_min (d : Bytes) (n k : Nat) (h : n ≤ k) : (d.take k).take n = d.take n := by
  rw [List.take_take]; congr 1; omega

theorem drop_take_comm (d : Bytes) (n k : Nat) : (d.take k).drop n = (d.drop n).take (k - n) := by
  rw [List.drop_take]

/-- **The generic truncation theorem for `Prog` trees.** For EVERY reader `p`, byte string `d` and cut
`k ≤ |d|`: if the run over `d` uses at most `k` bytes, the run over the first `k` bytes gives the same
result and leaves what is left of those `k` bytes; otherwise it is the run over `d` up to the first
call that does not fit, that call sees the end of the source (`starve`), and everything is used up. -/
theorem runPure_take (p : Prog β) (d : Bytes) (k : Nat) (hk : k ≤ d.length) :
    runPure p (d.take k) =
      if used p d ≤ k then ((runPure p d).1, (runPure p d).2.take (k - used p d))
      else ((runPure (starve p d k) []).1, []) := by
  induction p generalizing d k with
  | ret b =>
    simp [runPure, used]
  | fail e =>
    simp [runPure, used]
  | exact n kk ih =>
    by_cases hn : n ≤ k
    · have hnd : n ≤ d.length := by omega
      have hs : specReadExact (d.take k) n = (.ok (d.take n), (d.drop n).take (k - n)) := by
        simp only [specReadExact, List.length_take]
        rw [if_pos (by omega), take_take_min d n k hn, drop_take_comm]
      have hs' : specReadExact d n = (.ok (d.take n), d.drop n) := by simp [specReadExact, hnd]
      rw [used_exact_ok n kk d hnd]
      simp only [runPure, hs, hs', starve, if_pos hn]
      rw [ih (.ok (d.take n)) (d.drop n) (k - n) (by simp; omega)]
      by_cases hu : used (kk (.ok (d.take n))) (d.drop n) ≤ k - n
      · rw [if_pos hu, if_pos (by omega)]
        congr 2; omega
      · rw [if_neg hu, if_neg (by omega)]
    · have hs : specReadExact (d.take k) n = (.error .eof, []) := by
        simp only [specReadExact, List.length_take]; rw [if_neg (by omega)]
      simp only [runPure, hs, starve, if_neg hn]
      by_cases hnd : n ≤ d.length
      · rw [used_exact_ok n kk d hnd, if_neg (by omega)]
        have := runPure_nil_snd (kk (.error .eof))
        exact Prod.ext rfl this
      · obtain ⟨hu, _⟩ := used_exact_short n kk d (by omega)
        have hs2 : specReadExact d n = (.error .eof, []) := by
          simp only [specReadExact]; rw [if_neg hnd]
        rw [hu]
        by_cases hkd : d.length ≤ k
        · rw [if_pos hkd, hs2]
          have := runPure_nil_snd (kk (.error .eof))
          exact Prod.ext rfl (by rw [this]; simp)
        · rw [if_neg hkd]
          have := runPure_nil_snd (kk (.error .eof))
          exact Prod.ext rfl this
  | exactOrEof n kk ih =>
    by_cases hn : n ≤ k
    · have hnd : n ≤ d.length := by omega
      have hs : specReadExactOrEof (d.take k) n = (.ok (d.take n), (d.drop n).take (k - n)) := by
        simp only [specReadExactOrEof, List.length_take]
        rw [if_pos (by omega), take_take_min d n k hn, drop_take_comm]
      have hs' : specReadExactOrEof d n = (.ok (d.take n), d.drop n) := by
        simp [specReadExactOrEof, hnd]
      rw [used_exactOrEof_ok n kk d hnd]
      simp only [runPure, hs, hs', starve, if_pos hn]
      rw [ih (.ok (d.take n)) (d.drop n) (k - n) (by simp; omega)]
      by_cases hu : used (kk (.ok (d.take n))) (d.drop n) ≤ k - n
      · rw [if_pos hu, if_pos (by omega)]
        congr 2; omega
      · rw [if_neg hu, if_neg (by omega)]
    · -- the call does not fit into the first `k` bytes
      have hlen : (d.take k).length = k := by simp; omega
      by_cases hk0 : k = 0
      · subst hk0
        have hs : specReadExactOrEof (d.take 0) n = (.ok [], []) := by
          simp only [specReadExactOrEof, List.take_zero, List.length_nil]
          rw [if_neg (by omega)]; simp
        simp only [runPure, hs, starve, if_neg hn, if_true]
        by_cases hu : used (exactOrEof n kk) d ≤ 0
        · rw [if_pos hu]
          -- the full run used nothing: `d` is empty too
          by_cases hnd : n ≤ d.length
          · rw [used_exactOrEof_ok n kk d hnd] at hu; omega
          · have hd0 : d.length = 0 := by
              by_cases hd0 : d.length = 0
              · exact hd0
              · have hs2 : specReadExactOrEof d n = (.error .eof, []) := by
                  simp [specReadExactOrEof, hnd, hd0]
                have hu2 : used (exactOrEof n kk) d = d.length := by
                  simp only [used, runPure, hs2, runPure_nil_snd]; simp
                omega
            have hdn : d = [] := List.eq_nil_of_length_eq_zero hd0
            subst hdn
            have hs2 : specReadExactOrEof ([] : Bytes) n = (.ok [], []) := by
              simp only [specReadExactOrEof, List.length_nil]; rw [if_neg (by omega)]; simp
            simp only [runPure, hs2]
            exact Prod.ext rfl (by rw [runPure_nil_snd]; simp)
        · rw [if_neg hu]
          exact Prod.ext rfl (runPure_nil_snd _)
      · have hs : specReadExactOrEof (d.take k) n = (.error .eof, []) := by
          simp only [specReadExactOrEof, hlen]
          rw [if_neg (by omega), if_neg hk0]
        simp only [runPure, hs, starve, if_neg hn, if_neg hk0]
        by_cases hnd : n ≤ d.length
        · rw [used_exactOrEof_ok n kk d hnd, if_neg (by omega)]
          exact Prod.ext rfl (runPure_nil_snd _)
        · have hd0 : d.length ≠ 0 := by omega
          have hs2 : specReadExactOrEof d n = (.error .eof, []) := by
            simp [specReadExactOrEof, hnd, hd0]
          have hu : used (exactOrEof n kk) d = d.length := by
            simp only [used, runPure, hs2, runPure_nil_snd]; simp
          rw [hu]
          by_cases hkd : d.length ≤ k
          · rw [if_pos hkd]
            simp only [runPure, hs2]
            exact Prod.ext rfl (by rw [runPure_nil_snd]; simp)
          · rw [if_neg hkd]
            exact Prod.ext rfl (runPure_nil_snd _)
  | upTo n kk ih =>
    by_cases hn : n ≤ k
    · have hnd : n ≤ d.length := by omega
      rw [used_upTo_ok n kk d hnd]
      simp only [runPure, starve, if_pos hn]
      rw [take_take_min d n k hn, drop_take_comm]
      rw [ih (d.take n) (d.drop n) (k - n) (by simp; omega)]
      by_cases hu : used (kk (d.take n)) (d.drop n) ≤ k - n
      · rw [if_pos hu, if_pos (by omega)]
        congr 2; omega
      · rw [if_neg hu, if_neg (by omega)]
    · have h1 : (d.take k).take n = d.take k := by
        rw [List.take_take]; congr 1; omega
      have h2 : (d.take k).drop n = [] := by
        apply List.drop_of_length_le; simp; omega
      simp only [runPure, starve, if_neg hn, h1, h2]
      by_cases hnd : n ≤ d.length
      · rw [used_upTo_ok n kk d hnd, if_neg (by omega)]
        exact Prod.ext rfl (runPure_nil_snd _)
      · have h3 : d.take n = d := List.take_of_length_le (by omega)
        have h4 : d.drop n = [] := List.drop_of_length_le (by omega)
        have hu : used (upTo n kk) d = d.length := by
          simp only [used, runPure, h3, h4, runPure_nil_snd]; simp
        rw [hu]
        by_cases hkd : d.length ≤ k
        · rw [if_pos hkd]
          have hkk : d.take k = d := List.take_of_length_le hkd
          simp only [runPure, h3, h4, hkk]
          exact Prod.ext rfl (by rw [runPure_nil_snd]; simp)
        · rw [if_neg hkd]
          exact Prod.ext rfl (runPure_nil_snd _)

/-! ## consequences that hold for every tree -/

/-- a cut inside what `p` would have used: the run over the cut file uses up all of it -/
theorem runPure_take_snd (p : Prog β) (d : Bytes) (k : Nat) (hk : k ≤ d.length) (hu : k < used p d) :
    (runPure p (d.take k)).2 = [] := by
  rw [runPure_take p d k hk, if_neg (by omega)]

/-- **No fabrication, for every tree**: if the run over the cut file leaves a byte unread, it
returns exactly what the run over the whole file returns. -/
theorem runPure_take_same (p : Prog β) (d : Bytes) (k : Nat) (hk : k ≤ d.length)
    (h : (runPure p (d.take k)).2 ≠ []) : (runPure p (d.take k)).1 = (runPure p d).1 := by
  rw [runPure_take p d k hk] at h ⊢
  by_cases hu : used p d ≤ k
  · rw [if_pos hu]
  · rw [if_neg hu] at h; exact absurd rfl h

/-- a run that used `c` bytes of `d` does the same on `d` followed by anything … -/
theorem runPure_take_of_used_le (p : Prog β) (d : Bytes) (k : Nat) (hk : k ≤ d.length)
    (hu : used p d ≤ k) :
    runPure p (d.take k) = ((runPure p d).1, (runPure p d).2.take (k - used p d)) := by
  rw [runPure_take p d k hk, if_pos hu]

/-! ## `Strict` trees -/

theorem starve_strict {E : Err → Prop} {p : Prog β} (hs : Strict E p) (d : Bytes) (k : Nat)
    (hk : k ≤ d.length) (hu : k < used p d) : Starved E (starve p d k) := by
  induction hs generalizing d k with
  | ret b => simp [used, runPure] at hu
  | fail e => simp [used, runPure] at hu
  | exact n kk h1 _ ih =>
    by_cases hn : n ≤ k
    · have hnd : n ≤ d.length := by omega
      rw [used_exact_ok n kk d hnd] at hu
      simp only [starve, if_pos hn]
      exact ih (d.take n) (by simp; omega) (d.drop n) (k - n) (by simp; omega) (by omega)
    · simp only [starve, if_neg hn]; exact h1
  | exactOrEof n kk h1 h0 _ ih =>
    by_cases hn : n ≤ k
    · have hnd : n ≤ d.length := by omega
      rw [used_exactOrEof_ok n kk d hnd] at hu
      simp only [starve, if_pos hn]
      exact ih (d.take n) (by simp; omega) (d.drop n) (k - n) (by simp; omega) (by omega)
    · simp only [starve, if_neg hn]
      by_cases hk0 : k = 0
      · rw [if_pos hk0]; exact h0 (by omega)
      · rw [if_neg hk0]; exact h1
  | upTo n kk h1 _ ih =>
    by_cases hn : n ≤ k
    · have hnd : n ≤ d.length := by omega
      rw [used_upTo_ok n kk d hnd] at hu
      simp only [starve, if_pos hn]
      exact ih (d.take n) (by simp; omega) (d.drop n) (k - n) (by simp; omega) (by omega)
    · simp only [starve, if_neg hn]
      exact h1 (d.take k) (by simp; omega)

/-- **Strict readers: a cut inside what the reader would have used is an error.** -/
theorem strict_cutFails {E : Err → Prop} {p : Prog β} (hs : Strict E p) : CutFails E p := by
  intro d k hk hu
  obtain ⟨e, he, hr⟩ := starve_strict hs d k hk hu
  refine ⟨e, he, ?_⟩
  rw [runPure_take p d k hk, if_neg (by omega), hr]

/-! ## `CutFails` composes -/

theorem cutFails_ret (E : Err → Prop) (b : β) : CutFails E (ret b) := by
  intro d k _ hu; simp [used, runPure] at hu

theorem cutFails_fail (E : Err → Prop) (e : Err) : CutFails E (fail e : Prog β) := by
  intro d k _ hu; simp [used, runPure] at hu

theorem cutFails_mono {E F : Err → Prop} (h : ∀ e, E e → F e) {p : Prog β} (hp : CutFails E p) :
    CutFails F p := by
  intro d k hk hu
  obtain ⟨e, he, hr⟩ := hp d k hk hu
  exact ⟨e, h e he, hr⟩

theorem used_bind (p : Prog β) (f : β → Prog γ) (d : Bytes) :
    used (bind p f) d =
      match runPure p d with
      | (.ok a, d') => used p d + used (f a) d'
      | (.error _, _) => used p d := by
  simp only [used, runPure_bind]
  have h1 := runPure_le p d
  rcases e : runPure p d with ⟨r, d'⟩
  rw [e] at h1
  cases r with
  | error x => rfl
  | ok a =>
    simp only at h1 ⊢
    have := runPure_le (f a) d'
    omega

/-- `p` then `f`: a cut inside `p` fails as `p` does; a cut after it leaves `p`'s result alone
(`runPure_take`) and fails as `f` does -/
theorem cutFails_bind {E : Err → Prop} {p : Prog β} {f : β → Prog γ} (hp : CutFails E p)
    (hf : ∀ b, CutFails E (f b)) : CutFails E (bind p f) := by
  intro d k hk hu
  rw [used_bind] at hu
  rw [runPure_bind]
  by_cases hup : k < used p d
  · obtain ⟨e, he, hr⟩ := hp d k hk hup
    exact ⟨e, he, by rw [hr]⟩
  · rw [runPure_take_of_used_le p d k hk (by omega)]
    rcases e : runPure p d with ⟨r, d'⟩
    rw [e] at hu
    have hud : used p d = d.length - d'.length := by simp [used, e]
    have hle : d'.length ≤ d.length := by have := runPure_le p d; rw [e] at this; exact this
    cases r with
    | error x => simp only at hu; omega
    | ok a =>
      simp only at hu ⊢
      exact hf a d' (k - used p d) (by omega) (by omega)

/-- the same when `p` itself may return SOMETHING on a cut input (an optional trailing field, a
`take(n)` read to its end) but whatever follows needs at least one more read: the continuation fails
on the ended source -/
theorem cutFails_bind_starved {E : Err → Prop} {p : Prog β} {f : β → Prog γ}
    (hp : ∀ d k, k ≤ d.length → k < used p d →
      (∃ e, E e ∧ (runPure p (d.take k)).1 = .error e) ∨ ∃ b, (runPure p (d.take k)).1 = .ok b ∧ Starved E (f b))
    (hf : ∀ b, CutFails E (f b)) : CutFails E (bind p f) := by
  intro d k hk hu
  rw [used_bind] at hu
  rw [runPure_bind]
  by_cases hup : k < used p d
  · have hnil := runPure_take_snd p d k hk hup
    rcases hp d k hk hup with ⟨e, he, hr⟩ | ⟨b, hr, e, he, hs⟩
    · refine ⟨e, he, ?_⟩
      rcases e2 : runPure p (d.take k) with ⟨r, d'⟩
      rw [e2] at hr hnil; simp only at hr hnil; subst hr hnil; rfl
    · refine ⟨e, he, ?_⟩
      rcases e2 : runPure p (d.take k) with ⟨r, d'⟩
      rw [e2] at hr hnil; simp only at hr hnil; subst hr hnil
      simp only
      exact Prod.ext hs (runPure_nil_snd _)
  · rw [runPure_take_of_used_le p d k hk (by omega)]
    rcases e : runPure p d with ⟨r, d'⟩
    rw [e] at hu
    have hud : used p d = d.length - d'.length := by simp [used, e]
    have hle : d'.length ≤ d.length := by have := runPure_le p d; rw [e] at this; exact this
    cases r with
    | error x => simp only at hu; omega
    | ok a =>
      simp only at hu ⊢
      exact hf a d' (k - used p d) (by omega) (by omega)

theorem cutFails_on {E : Err → Prop} {p : Prog β} (hp : CutFails E p) (d : Bytes) : CutFailsOn E p d :=
  fun k hk hu => hp d k hk hu

/-- per input: the continuation only has to fail on cuts for the value `p` actually read -/
theorem cutFailsOn_bind {E : Err → Prop} {p : Prog β} {f : β → Prog γ} (d : Bytes)
    (hp : CutFailsOn E p d)
    (hf : ∀ b d', runPure p d = (.ok b, d') → CutFailsOn E (f b) d') : CutFailsOn E (bind p f) d := by
  intro k hk hu
  rw [used_bind] at hu
  rw [runPure_bind]
  by_cases hup : k < used p d
  · obtain ⟨e, he, hr⟩ := hp k hk hup
    exact ⟨e, he, by rw [hr]⟩
  · rw [runPure_take_of_used_le p d k hk (by omega)]
    rcases e : runPure p d with ⟨r, d'⟩
    rw [e] at hu
    have hud : used p d = d.length - d'.length := by simp [used, e]
    have hle : d'.length ≤ d.length := by have := runPure_le p d; rw [e] at this; exact this
    cases r with
    | error x => simp only at hu; omega
    | ok a =>
      simp only at hu ⊢
      exact hf a d' e (k - used p d) (by omega) (by omega)

theorem runPure_mapErrInvalid (p : Prog β) (d : Bytes) :
    runPure (mapErrInvalid p) d =
      match runPure p d with
      | (.ok a, d') => (.ok a, d')
      | (.error _, d') => (.error .invalidData, d') := by
  simp only [mapErrInvalid, runPure_bind, runPure_attempt]
  rcases runPure p d with ⟨r, d'⟩
  cases r <;> rfl

theorem used_mapErrInvalid (p : Prog β) (d : Bytes) : used (mapErrInvalid p) d = used p d := by
  simp only [used, runPure_mapErrInvalid]
  rcases runPure p d with ⟨r, d'⟩
  cases r <;> rfl

/-- `.map_err(|e| InvalidData)`: the cut is still an error, now `InvalidData` -/
theorem cutFails_mapErrInvalid {E : Err → Prop} {p : Prog β} (hp : CutFails E p) :
    CutFails (fun e => e = .invalidData) (mapErrInvalid p) := by
  intro d k hk hu
  rw [used_mapErrInvalid] at hu
  obtain ⟨e, _, hr⟩ := hp d k hk hu
  exact ⟨.invalidData, rfl, by rw [runPure_mapErrInvalid, hr]⟩

theorem cutFails_many {E : Err → Prop} {p : Prog β} (hp : CutFails E p) (n : Nat) :
    CutFails E (many p n) := by
  induction n with
  | zero => exact cutFails_ret E []
  | succ n ih =>
    exact cutFails_bind hp fun a => cutFails_bind ih fun as => cutFails_ret E _

theorem strict_readExact (n : Nat) : Strict IsEof (readExact n) :=
  Strict.exact n _ ⟨.eof, rfl, rfl⟩ (fun bs _ => Strict.ret bs)

theorem cutFails_readExact (n : Nat) : CutFails IsEof (readExact n) := strict_cutFails (strict_readExact n)

theorem cutFails_readExactToVec (n : Nat) : CutFails IsEof (readExactToVec n) :=
  strict_cutFails (Strict.upTo n _
    (fun bs h => ⟨.eof, rfl, by rw [if_neg (by omega)]; rfl⟩)
    (fun bs h => by rw [if_pos h]; exact Strict.ret bs))

/-! ## what is left is a suffix; strict readers do not look ahead -/

theorem runPure_snd_eq_drop (p : Prog β) (d : Bytes) : (runPure p d).2 = d.drop (used p d) := by
  induction p generalizing d with
  | ret b => simp [runPure, used]
  | fail e => simp [runPure, used]
  | exact n kk ih =>
    by_cases hnd : n ≤ d.length
    · rw [used_exact_ok n kk d hnd]
      have hs : specReadExact d n = (.ok (d.take n), d.drop n) := by simp [specReadExact, hnd]
      simp only [runPure, hs]
      rw [ih, List.drop_drop]
    · obtain ⟨hu, hr⟩ := used_exact_short n kk d (by omega)
      rw [hu, hr, runPure_nil_snd]; simp
  | exactOrEof n kk ih =>
    by_cases hnd : n ≤ d.length
    · rw [used_exactOrEof_ok n kk d hnd]
      have hs : specReadExactOrEof d n = (.ok (d.take n), d.drop n) := by
        simp [specReadExactOrEof, hnd]
      simp only [runPure, hs]
      rw [ih, List.drop_drop]
    · have hs : (specReadExactOrEof d n).2 = [] := by
        simp only [specReadExactOrEof]; rw [if_neg hnd]; split <;> rfl
      have h1 : (runPure (exactOrEof n kk) d).2 = [] := by
        simp only [runPure, hs, runPure_nil_snd]
      have h2 : used (exactOrEof n kk) d = d.length := by simp [used, h1]
      rw [h1, h2]; simp
  | upTo n kk ih =>
    by_cases hnd : n ≤ d.length
    · rw [used_upTo_ok n kk d hnd]
      simp only [runPure]
      rw [ih, List.drop_drop]
    · have h4 : d.drop n = [] := List.drop_of_length_le (by omega)
      have h1 : (runPure (upTo n kk) d).2 = [] := by
        simp only [runPure, h4, runPure_nil_snd]
      have h2 : used (upTo n kk) d = d.length := by simp [used, h1]
      rw [h1, h2]; simp

/-- **A reader whose cuts all fail does not look ahead**: if it reads `f` to its end and succeeds,
it reads `f` followed by anything with the same result and leaves what follows. -/
theorem cutFails_extend {E : Err → Prop} {p : Prog β} (hp : CutFails E p) (f : Bytes) (v : β)
    (h : runPure p f = (.ok v, [])) (rest : Bytes) : runPure p (f ++ rest) = (.ok v, rest) := by
  have huf : used p f = f.length := by simp [used, h]
  have htk : (f ++ rest).take f.length = f := by simp
  have hkl : f.length ≤ (f ++ rest).length := by simp
  by_cases hu : f.length < used p (f ++ rest)
  · obtain ⟨e, _, hr⟩ := hp (f ++ rest) f.length hkl hu
    rw [htk, h] at hr
    exact absurd (congrArg Prod.fst hr) (by simp)
  · have h1 := runPure_take_of_used_le p (f ++ rest) f.length hkl (by omega)
    rw [htk, h] at h1
    have hv : (runPure p (f ++ rest)).1 = .ok v := (congrArg Prod.fst h1).symm
    by_cases hlt : used p (f ++ rest) < f.length
    · -- cut the long input where the run stopped: the same result from a strict prefix of `f`
      have hk2 : used p (f ++ rest) ≤ (f ++ rest).length := used_le _ _
      have h2 := runPure_take_of_used_le p (f ++ rest) (used p (f ++ rest)) hk2 (Nat.le_refl _)
      have htk2 : (f ++ rest).take (used p (f ++ rest)) = f.take (used p (f ++ rest)) := by
        rw [List.take_append_of_le_length (by omega)]
      rw [htk2] at h2
      obtain ⟨e, _, hr⟩ := hp f (used p (f ++ rest)) (by omega) (by omega)
      rw [hr, hv] at h2
      exact absurd (congrArg Prod.fst h2) (by simp)
    · have hue : used p (f ++ rest) = f.length := by omega
      have := runPure_snd_eq_drop p (f ++ rest)
      rw [hue] at this
      simp only [List.drop_left'] at this
      exact Prod.ext hv this

/-! ## on the ended source -/

theorem starved_bind_left {E : Err → Prop} {p : Prog β} (f : β → Prog γ) (h : Starved E p) :
    Starved E (bind p f) := by
  obtain ⟨e, he, hr⟩ := h
  refine ⟨e, he, ?_⟩
  rw [runPure_bind]
  rcases e2 : runPure p [] with ⟨r, d'⟩
  rw [e2] at hr; simp only at hr; subst hr; rfl

theorem starved_bind_right {E : Err → Prop} {p : Prog β} {f : β → Prog γ} (b : β)
    (hp : (runPure p []).1 = .ok b) (h : Starved E (f b)) : Starved E (bind p f) := by
  obtain ⟨e, he, hr⟩ := h
  refine ⟨e, he, ?_⟩
  rw [runPure_bind]
  have hn := runPure_nil_snd p
  rcases e2 : runPure p [] with ⟨r, d'⟩
  rw [e2] at hp hn; simp only at hp hn; subst hp hn; exact hr

theorem starved_readExact (n : Nat) (hn : 0 < n) : Starved IsEof (readExact n) := by
  refine ⟨.eof, rfl, ?_⟩
  rw [readExact_pure, if_neg (by simp; omega)]

theorem starved_mono {E F : Err → Prop} (h : ∀ e, E e → F e) {p : Prog β} (hp : Starved E p) :
    Starved F p := by
  obtain ⟨e, he, hr⟩ := hp
  exact ⟨e, h e he, hr⟩

end Prog

/-! ## record loops -/

theorem pLoop_items {β : Type} (st : Bytes → Except Err (Option β) × Bytes)
    (fs : List (Bytes × β)) (hitem : ∀ p ∈ fs, ∀ r, st (p.1 ++ r) = (.ok (some p.2), r))
    (fuel : Nat) (acc : List β) (r : Bytes) :
    pLoop st (fuel + fs.length) acc ((fs.map (·.1)).flatten ++ r) =
      pLoop st fuel ((fs.map (·.2)).reverse ++ acc) r := by
  induction fs generalizing acc with
  | nil => simp
  | cons p fs ih =>
    have h1 : fuel + (p :: fs).length = (fuel + fs.length) + 1 := by simp; omega
    rw [h1]
    simp only [List.map_cons, List.flatten_cons, List.append_assoc]
    rw [pLoop, hitem p (by simp)]
    simp only
    rw [ih (fun q hq => hitem q (List.mem_cons_of_mem _ hq))]
    simp

/-- the first `k` bytes of a framed stream: the frames wholly inside, then what is present of the next
frame (or of the tail) -/
theorem take_frames {β : Type} (fs : List (Bytes × β)) (t : Bytes) (k : Nat) :
    ((fs.map (·.1)).flatten ++ t).take k =
      ((fs.take (cutPos fs k).1).map (·.1)).flatten ++ cutRest fs t k := by
  induction fs generalizing k with
  | nil => simp [cutPos, cutRest, Noodles.Trunc.whole]
  | cons p fs ih =>
    simp only [cutPos, cutRest, List.map_cons, Noodles.Trunc.whole]
    by_cases hk : p.1.length ≤ k
    · rw [if_pos hk]
      simp only [List.flatten_cons, List.append_assoc, List.take_succ_cons, List.map_cons,
        List.getElem?_cons_succ]
      rw [List.take_append, List.take_of_length_le hk]
      have := ih (k - p.1.length)
      simp only [cutPos, cutRest] at this
      rw [this]
    · rw [if_neg hk]
      simp only [List.flatten_cons, List.append_assoc, List.take_zero, List.map_nil,
        List.flatten_nil, List.nil_append, List.getElem?_cons_zero]
      rw [List.take_append, show k - p.1.length = 0 by omega]
      simp

theorem cutPos_le_length {β : Type} (fs : List (Bytes × β)) (k : Nat) : (cutPos fs k).1 ≤ fs.length := by
  have := Noodles.Trunc.whole_fst_le_length (fs.map (·.1.length)) k
  simpa [cutPos] using this

/-- **The generic cut theorem for record loops.** A stream is a list of frames followed by a tail;
each frame, followed by anything, is read as its item. Then reading the first `k` bytes delivers the
items of the frames wholly inside the cut, in order, and goes on with what is present of the frame
the cut falls into (`cutRest`) — nothing else of the stream matters. -/
theorem pLoop_cut {β : Type} (st : Bytes → Except Err (Option β) × Bytes)
    (fs : List (Bytes × β)) (t : Bytes)
    (hitem : ∀ p ∈ fs, ∀ r, st (p.1 ++ r) = (.ok (some p.2), r))
    (k fuel : Nat) (acc : List β) :
    pLoop st (fuel + (cutPos fs k).1) acc (((fs.map (·.1)).flatten ++ t).take k) =
      pLoop st fuel (((fs.take (cutPos fs k).1).map (·.2)).reverse ++ acc) (cutRest fs t k) := by
  rw [take_frames]
  have hl : (fs.take (cutPos fs k).1).length = (cutPos fs k).1 :=
    List.length_take_of_le (cutPos_le_length fs k)
  have := pLoop_items st (fs.take (cutPos fs k).1)
    (fun p hp => hitem p (List.mem_of_mem_take hp)) fuel acc (cutRest fs t k)
  rw [hl] at this
  exact this

end Noodles.IO
