import Noodles.Basic.Wire
import Noodles.Basic.Crc32
import Noodles.Io.DriverC12More
import Noodles.Trunc.CramHeader
/-! Line-protocol handler for the second part of the C13 model (`c13 …`, tried before the requests of
`DriverC13`). Every request carries the COMPLETE input and a cut offset `k`; the model is run on the
first `k` bytes.

* `c13 tr <k> <i> <c12 request words…>` — the reader of the `c12` request (`Noodles/Io/DriverC12.lean`,
  `DriverC12More.lean`: `bamv bcf cram bai tbi csi gzi samrec vcfrec lines gff gtf fasta fastq`) on the
  cut input: word `i` of the `c12` request is the input (hex); it is replaced by its first `k` bytes and
  the request is answered as in suite `c12` (the transcript of the reader: items, how it ended, bytes
  used). The theorems of `Noodles/Props/C13More.lean` are about exactly these model functions applied
  to `data.take k`.
* `c13 cramhp <k> <container> <G>` — the CRAM file header container reader of
  `Noodles/Trunc/CramHeader.lean`, as far as the lines: `lines=<hex;…> end=<ok|err:…>` (the parser
  accepts everything); `G` = `-` or `<window>=<first4|!class>/<text>/<stop>`: what flate2 answered for
  the gzip window of the CUT container.
* `c13 cramh <k> <container> <G> <lines> <verdict>` — `read_file_header` itself: `ok <token>` or the
  error class. `lines` (`hex;hex;…`) are the lines the harness fed the real SAM header parser and
  `verdict` its answer (`!` = a line was rejected, else a token of the parsed header): the parameter `P`
  of the model at that one argument; for any other argument the answer shows `lines-differ`.
-/
namespace Noodles.Trunc.More
open Noodles.Wire hiding Bytes
open Noodles.IO

def setNth (l : List String) (i : Nat) (v : String) : List String :=
  l.take i ++ [v] ++ l.drop (i + 1)

def parseErrClass (s : String) : Option Err :=
  if s = "eof" then some .eof
  else if s = "data" then some .invalidData
  else none

def parseGEntry (s : String) : Option (Bytes × Prog.GzRun) :=
  match s.splitOn "=" with
  | [w, v] =>
    match v.splitOn "/" with
    | [f4, text, stop] => do
      let w ← unhex w
      let first4 : Except Err Bytes ←
        if f4.startsWith "!" then (parseErrClass (f4.drop 1).toString).map Except.error
        else (unhex f4).map Except.ok
      let text ← unhex text
      let stop : Option Err ← if stop = "-" then some none else (parseErrClass stop).map some
      pure (w, ⟨first4, text, stop⟩)
    | _ => none
  | _ => none

/-- the `G` of a request: the one entry of the table; a window that is not in it shows as `err:fuel` -/
def gOf (s : String) : Option (Bytes → Prog.GzRun) :=
  if s = "-" then some fun _ => ⟨.error .fuel, [], none⟩
  else (parseGEntry s).map fun e => fun w => if w = e.1 then e.2 else ⟨.error .fuel, [], none⟩

def fmtLines (l : List Bytes) : String :=
  if l.isEmpty then "-" else ";".intercalate (l.map hex)

def parseLines (s : String) : Option (List Bytes) :=
  if s = "-" then some [] else (s.splitOn ";").mapM unhex

def crc (b : Bytes) : Nat := Noodles.Crc32.crc32 b

/-- the container reader as far as the lines -/
def cramHeaderLines (G : Bytes → Prog.GzRun) : Prog (List Bytes × Option Err) := do
  let len ← Prog.cramHdrContainerLen crc
  Prog.upTo len fun w =>
    match Prog.linesOfBody G w with
    | .ok r => Prog.ret r
    | .error e => Prog.fail e

def handle? : List String → Option String
  | "tr" :: k :: i :: ws =>
    some <| match k.toNat?, i.toNat? with
    | some k, some i =>
      match ws[i]? with
      | none => "bad-op"
      | some w =>
        match unhex w with
        | none => "bad-op"
        | some d => handleC12All (setNth ws i (hex (d.take k)))
    | _, _ => "bad-op"
  | ["cramhp", k, c, g] =>
    some <| match k.toNat?, unhex c, gOf g with
    | some k, some c, some G =>
      match (Prog.runPure (cramHeaderLines G) (c.take k)).1 with
      | .ok (ls, none) => s!"lines={fmtLines ls} end=ok"
      | .ok (ls, some e) => s!"lines={fmtLines ls} end={errStr e}"
      | .error e => s!"lines=- end={errStr e}"
    | _, _, _ => "bad-op"
  | ["cramh", k, c, g, lines, verdict] =>
    some <| match k.toNat?, unhex c, gOf g, parseLines lines with
    | some k, some c, some G, some ls =>
      let P : List Bytes → Option String := fun l =>
        if l = ls then (if verdict = "!" then none else some verdict) else some "lines-differ"
      match (Prog.runPure (Prog.cramFileHeader crc G P) (c.take k)).1 with
      | .ok t => s!"ok {t}"
      | .error e => errStr e
    | _, _, _, _ => "bad-op"
  | _ => none

end Noodles.Trunc.More
