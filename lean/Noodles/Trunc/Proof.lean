import Noodles.Trunc.Model
import Noodles.Bgzf.FrameProof
/-! Helper lemmas for the C13 theorems: the generic cut lemma for framed readers and its
instances (BGZF members, BAM records, BCF records). CRAM is in `ProofCram.lean`. -/
namespace Noodles.Trunc
open Noodles.Codec hiding Err Dec
open Noodles.Bgzf

/-! ## `whole` -/

theorem whole_fst_le (lens : List Nat) (h : ∀ n ∈ lens, 0 < n) (k : Nat) :
    (whole lens k).1 ≤ k ∧ (whole lens k).1 ≤ lens.sum := by
  induction lens generalizing k with
  | nil => simp [whole]
  | cons n ns ih =>
    have hn := h n (by simp)
    have ih' := ih (fun m hm => h m (List.mem_cons_of_mem _ hm)) (k - n)
    unfold whole
    by_cases hk : n ≤ k
    · rw [if_pos hk]; simp only [List.sum_cons]; omega
    · rw [if_neg hk]; simp

theorem whole_fst_le_length (lens : List Nat) (k : Nat) : (whole lens k).1 ≤ lens.length := by
  induction lens generalizing k with
  | nil => simp [whole]
  | cons n ns ih =>
    unfold whole
    by_cases hk : n ≤ k
    · rw [if_pos hk]; have := ih (k - n); simp only [List.length_cons]; omega
    · rw [if_neg hk]; simp

/-- the bytes before the cut that belong to whole frames, plus the leftover, are the cut -/
theorem whole_spec (lens : List Nat) (k : Nat) :
    ((lens.take (whole lens k).1).sum + (whole lens k).2 = k) ∧
    ((whole lens k).1 < lens.length → (whole lens k).2 < lens.getD (whole lens k).1 0) := by
  induction lens generalizing k with
  | nil => simp [whole]
  | cons n ns ih =>
    unfold whole
    by_cases hk : n ≤ k
    · rw [if_pos hk]
      obtain ⟨h1, h2⟩ := ih (k - n)
      refine ⟨?_, ?_⟩
      · simp only [List.take_succ_cons, List.sum_cons]; omega
      · intro h
        simp only [List.length_cons] at h
        simpa using h2 (by omega)
    · rw [if_neg hk]
      refine ⟨by simp, ?_⟩
      intro _
      simp; omega

/-! ## the generic cut lemma -/

/-- A stream is a list of frames followed by a tail. Each frame, followed by anything, is read as
its item; a strict prefix of a frame alone stops the reader in a way that depends only on how many
bytes are present (`stop`); a prefix of the tail stops it as `tstop` says. Then reading the first
`k` bytes delivers exactly the items of the frames wholly inside, and stops as `stop`/`tstop` say
for the bytes left over. -/
theorem readMany_cut {α : Type} (rd : Bytes → Step α) (stop tstop : Nat → End)
    (fs : List (Bytes × α)) (t : Bytes)
    (hitem : ∀ p ∈ fs, ∀ r, rd (p.1 ++ r) = .item p.2 r)
    (hcut : ∀ p ∈ fs, ∀ j, j < p.1.length → rd (p.1.take j) = .ofEnd (stop j))
    (htail : ∀ j, rd (t.take j) = .ofEnd (tstop j))
    (k fuel : Nat) (hfuel : (whole (fs.map (·.1.length)) k).1 < fuel) :
    readMany rd fuel (((fs.map (·.1)).flatten ++ t).take k) =
      ((fs.take (whole (fs.map (·.1.length)) k).1).map (·.2),
       if (whole (fs.map (·.1.length)) k).1 = fs.length
       then tstop (whole (fs.map (·.1.length)) k).2
       else stop (whole (fs.map (·.1.length)) k).2) := by
  induction fs generalizing k fuel with
  | nil =>
    obtain ⟨f, rfl⟩ : ∃ f, fuel = f + 1 := ⟨fuel - 1, by omega⟩
    simp only [List.map_nil, List.flatten_nil, List.nil_append, whole, List.take_zero,
      List.length_nil, if_true]
    unfold readMany
    rw [htail k]
    cases tstop k <;> rfl
  | cons p fs ih =>
    obtain ⟨f, rfl⟩ : ∃ f, fuel = f + 1 := ⟨fuel - 1, by omega⟩
    simp only [List.map_cons, List.flatten_cons, List.length_cons] at hfuel ⊢
    unfold whole at hfuel ⊢
    by_cases hk : p.1.length ≤ k
    · rw [if_pos hk] at hfuel ⊢
      simp only at hfuel ⊢
      have ht : ((p.1 ++ (fs.map (·.1)).flatten) ++ t).take k =
          p.1 ++ (((fs.map (·.1)).flatten ++ t).take (k - p.1.length)) := by
        rw [List.append_assoc, List.take_append, List.take_of_length_le hk]
      rw [ht]
      unfold readMany
      rw [hitem p (by simp)]
      simp only
      rw [ih (fun q hq => hitem q (List.mem_cons_of_mem _ hq))
        (fun q hq => hcut q (List.mem_cons_of_mem _ hq)) (k - p.1.length) f (by omega)]
      simp only [List.take_succ_cons, List.map_cons, Nat.add_right_cancel_iff]
    · rw [if_neg hk] at hfuel ⊢
      have hk' : k < p.1.length := by omega
      have ht : ((p.1 ++ (fs.map (·.1)).flatten) ++ t).take k = p.1.take k := by
        rw [List.append_assoc, List.take_append, show k - p.1.length = 0 by omega]
        simp
      rw [ht]
      unfold readMany
      rw [hcut p (by simp) k hk']
      simp only [List.take_zero, List.map_nil]
      rw [if_neg (by omega)]
      cases stop k <;> rfl

/-! ## BGZF members -/

theorem unle_short (n : Nat) (s : Bytes) (h : s.length < n) : unle n s = .error .eof := by
  induction n generalizing s with
  | zero => omega
  | succ n ih =>
    cases s with
    | nil => rfl
    | cons b r =>
      simp only [List.length_cons] at h
      simp only [unle, ih r (by omega)]

/-- A member of which only the first `j` bytes are present: clean end of input while the 18-byte
header is incomplete (`read_exact` → `UnexpectedEof` → `Ok(None)`), `UnexpectedEof` after that. -/
theorem readFrame_take_mkFrame (D : Deflater) (cdata : Bytes) (crc isize j : Nat)
    (hc : cdata.length ≤ 65510) (hj : j < 26 + cdata.length) :
    readFrame D ((mkFrame cdata crc isize).take j) = if j < 18 then .ok none else .error .eof := by
  have hlen : ((mkFrame cdata crc isize).take j).length = j := by
    rw [List.length_take, mkFrame_length]; omega
  unfold readFrame
  rw [hlen]
  simp only [HEADER_SIZE_eq]
  by_cases h18 : j < 18
  · rw [if_pos h18, if_pos h18]
  · rw [if_neg h18, if_neg h18]
    have hm := mkFrame_assoc cdata crc isize []
    rw [List.append_nil] at hm
    have hd : ((mkFrame cdata crc isize).take j).drop 16 =
        le 2 (25 + cdata.length) ++ (cdata ++ (le 4 crc ++ (le 4 isize ++ []))).take (j - 18) := by
      rw [hm, List.take_append, List.drop_append, headerPrefix_length]
      have h1 : (headerPrefix.take j).length = 16 := by
        rw [List.length_take, headerPrefix_length]; omega
      rw [h1, List.drop_eq_nil_of_le (by omega)]
      simp only [Nat.sub_self, List.drop_zero, List.nil_append]
      rw [List.take_append, le_length, List.take_of_length_le (by rw [le_length]; omega)]
      congr 2 <;> omega
    rw [hd, unle_le 2 _ (by omega)]
    simp only [MIN_FRAME_eq]
    rw [if_neg (by omega), if_pos (by omega)]

theorem bgzfStep_frame (D : Deflater) (hD : D.Lawful) (p : Bytes × Bytes) (hp : Good D p)
    (r : Bytes) : bgzfStep D (encFrame D p ++ r) = .item p.2 r := by
  obtain ⟨h1, h2, h3⟩ := hp
  unfold bgzfStep
  rw [encFrame, readFrame_mkFrame D p.1 p.2 r _ _ h1 (hD.crc_lt _) h2 h3 rfl]

def bgzfStop (j : Nat) : End := if j < 18 then .eof else .err .eof

theorem bgzfStep_cut (D : Deflater) (p : Bytes × Bytes) (hp : Good D p) (j : Nat)
    (hj : j < (encFrame D p).length) :
    bgzfStep D ((encFrame D p).take j) = .ofEnd (bgzfStop j) := by
  obtain ⟨h1, _, _⟩ := hp
  rw [encFrame, mkFrame_length] at hj
  unfold bgzfStep bgzfStop
  rw [encFrame, readFrame_take_mkFrame D p.1 _ _ j h1 hj]
  by_cases h : j < 18
  · rw [if_pos h, if_pos h]; rfl
  · rw [if_neg h, if_neg h]; rfl

theorem bgzfStep_nil (D : Deflater) : bgzfStep D [] = .eof := by
  unfold bgzfStep
  rw [readFrame_nil]

/-- the frame list as `readMany_cut` wants it -/
def bgzfFrames (D : Deflater) (frs : List (Bytes × Bytes)) : List (Bytes × Bytes) :=
  frs.map fun p => (encFrame D p, p.2)

theorem bgzfFrames_flatten (D : Deflater) (frs : List (Bytes × Bytes)) :
    ((bgzfFrames D frs).map (·.1)).flatten = enc D frs := by
  simp [bgzfFrames, enc, List.map_map, Function.comp_def]

theorem bgzfFrames_lens (D : Deflater) (frs : List (Bytes × Bytes)) :
    (bgzfFrames D frs).map (·.1.length) = frs.map fun p => (encFrame D p).length := by
  simp [bgzfFrames, List.map_map, Function.comp_def]

theorem bgzfFrames_take_items (D : Deflater) (frs : List (Bytes × Bytes)) (n : Nat) :
    ((bgzfFrames D frs).take n).map (·.2) = (frs.take n).map (·.2) := by
  simp [bgzfFrames, ← List.map_take, List.map_map, Function.comp_def]

theorem enc_length (D : Deflater) (frs : List (Bytes × Bytes)) :
    (enc D frs).length = (frs.map fun p => (encFrame D p).length).sum := by
  simp [enc, List.length_flatten, List.map_map, Function.comp_def]

/-- where the cut falls in a BGZF file -/
def bgzfCut (D : Deflater) (frs : List (Bytes × Bytes)) (k : Nat) : Nat × Nat :=
  whole (frs.map fun p => (encFrame D p).length) k

theorem bgzf_cut (D : Deflater) (hD : D.Lawful) (frs : List (Bytes × Bytes))
    (hg : ∀ p ∈ frs, Good D p) (k : Nat) :
    readStream D ((enc D frs).take k) =
      ((frs.take (bgzfCut D frs k).1).map (·.2),
       if (bgzfCut D frs k).1 = frs.length then .eof else bgzfStop (bgzfCut D frs k).2) := by
  have hpos : ∀ n ∈ (frs.map fun p => (encFrame D p).length), 0 < n := by
    intro n hn
    obtain ⟨p, _, rfl⟩ := List.mem_map.1 hn
    rw [encFrame, mkFrame_length]; omega
  have hw := whole_fst_le _ hpos k
  have hfuel : (whole ((bgzfFrames D frs).map (·.1.length)) k).1 < ((enc D frs).take k).length + 1 := by
    rw [bgzfFrames_lens, List.length_take, enc_length]
    omega
  have h := readMany_cut (bgzfStep D) bgzfStop (fun _ => .eof) (bgzfFrames D frs) []
    (by
      intro q hq r
      obtain ⟨p, hp, rfl⟩ := List.mem_map.1 hq
      exact bgzfStep_frame D hD p (hg p hp) r)
    (by
      intro q hq j hj
      obtain ⟨p, hp, rfl⟩ := List.mem_map.1 hq
      exact bgzfStep_cut D p (hg p hp) j hj)
    (by intro j; rw [List.take_nil, bgzfStep_nil]; rfl)
    k _ hfuel
  rw [List.append_nil, bgzfFrames_flatten, bgzfFrames_lens, bgzfFrames_take_items] at h
  unfold readStream bgzfCut
  rw [h]
  simp [bgzfFrames]

theorem readMany_item {α : Type} (rd : Bytes → Step α) (fuel : Nat) (s : Bytes) (a : α)
    (rest : Bytes) (h : rd s = .item a rest) :
    readMany rd (fuel + 1) s = (a :: (readMany rd fuel rest).1, (readMany rd fuel rest).2) := by
  simp only [readMany, h]

theorem readMany_eof {α : Type} (rd : Bytes → Step α) (fuel : Nat) (s : Bytes) (h : rd s = .eof) :
    readMany rd (fuel + 1) s = ([], .eof) := by
  simp only [readMany, h]

theorem readMany_err {α : Type} (rd : Bytes → Step α) (fuel : Nat) (s : Bytes) (e : Err)
    (h : rd s = .err e) : readMany rd (fuel + 1) s = ([], .err e) := by
  simp only [readMany, h]

/-- `readStream` keeps what `Bgzf.readAll` (the C01 model of `read_to_end`) throws away on error. -/
theorem readAll_eq_readMany (D : Deflater) (fuel : Nat) (s : Bytes) :
    readAll D fuel s =
      (match readMany (bgzfStep D) fuel s with
       | (ds, .eof) => .ok ds.flatten
       | (_, .err e) => .error e) := by
  induction fuel generalizing s with
  | zero => rfl
  | succ fuel ih =>
    unfold readAll
    cases hr : readFrame D s with
    | error e =>
      have hs : bgzfStep D s = .err e := by simp only [bgzfStep, hr]
      rw [readMany_err _ _ _ _ hs]
    | ok o =>
      cases o with
      | none =>
        have hs : bgzfStep D s = .eof := by simp only [bgzfStep, hr]
        rw [readMany_eof _ _ _ hs]
        rfl
      | some t =>
        obtain ⟨bs, data, rest⟩ := t
        have hs : bgzfStep D s = .item data rest := by simp only [bgzfStep, hr]
        rw [readMany_item _ _ _ _ _ hs]
        simp only
        rw [ih rest]
        rcases readMany (bgzfStep D) fuel rest with ⟨ds, e⟩
        cases e <;> simp

/-! ## BAM records -/

theorem bamValidate_length (r : Bytes) (h : bamValidate r = true) : 32 ≤ r.length := by
  unfold bamValidate at h
  by_cases hl : r.length < 32
  · rw [if_pos hl] at h; cases h
  · omega

theorem bamFrame_length (r : Bytes) : (bamFrame r).length = 4 + r.length := by
  simp [bamFrame, le_length]

theorem bamStep_frame (fin : End) (r : Bytes) (hv : bamValidate r = true) (hl : r.length < 2 ^ 32)
    (rest : Bytes) : bamStep fin (bamFrame r ++ rest) = .item r rest := by
  have h32 := bamValidate_length r hv
  have hlen : (bamFrame r ++ rest).length = 4 + r.length + rest.length := by
    rw [List.length_append, bamFrame_length]
  unfold bamStep
  rw [hlen, if_neg (by omega), if_neg (by omega)]
  unfold bamFrame
  rw [List.append_assoc, unle_le 4 r.length (by simpa using hl)]
  simp only
  rw [if_neg (by omega), if_neg (by rw [List.length_append]; omega),
    List.take_left' rfl, List.drop_left' rfl, hv]
  simp

def recStop (fin : End) (j : Nat) : End := if j = 0 then fin else .err (shortErr fin)

theorem bamStep_cut (fin : End) (r : Bytes) (hv : bamValidate r = true) (hl : r.length < 2 ^ 32)
    (j : Nat) (hj : j < (bamFrame r).length) :
    bamStep fin ((bamFrame r).take j) = .ofEnd (recStop fin j) := by
  have h32 := bamValidate_length r hv
  rw [bamFrame_length] at hj
  have hlen : ((bamFrame r).take j).length = j := by
    rw [List.length_take, bamFrame_length]; omega
  unfold bamStep recStop
  rw [hlen]
  by_cases h0 : j = 0
  · rw [if_pos h0, if_pos h0]
  · rw [if_neg h0, if_neg h0]
    by_cases h4 : j < 4
    · rw [if_pos h4]; rfl
    · rw [if_neg h4]
      have ht : (bamFrame r).take j = le 4 r.length ++ r.take (j - 4) := by
        unfold bamFrame
        rw [List.take_append, le_length, List.take_of_length_le (by rw [le_length]; omega)]
      rw [ht, unle_le 4 r.length (by simpa using hl)]
      simp only
      rw [if_neg (by omega), if_pos (by rw [List.length_take]; omega)]
      rfl

def bamFrames (recs : List Bytes) : List (Bytes × Bytes) := recs.map fun r => (bamFrame r, r)

theorem bamFrames_flatten (recs : List Bytes) : ((bamFrames recs).map (·.1)).flatten = bamStream recs := by
  simp [bamFrames, bamStream, List.map_map, Function.comp_def]

theorem bamFrames_lens (recs : List Bytes) :
    (bamFrames recs).map (·.1.length) = recs.map fun r => 4 + r.length := by
  simp [bamFrames, List.map_map, Function.comp_def, bamFrame_length]

theorem bamFrames_take_items (recs : List Bytes) (n : Nat) :
    ((bamFrames recs).take n).map (·.2) = recs.take n := by
  simp [bamFrames, ← List.map_take, List.map_map, Function.comp_def]

theorem bamStream_length (recs : List Bytes) :
    (bamStream recs).length = (recs.map fun r => 4 + r.length).sum := by
  simp [bamStream, List.length_flatten, List.map_map, Function.comp_def, bamFrame_length]

/-- where a cut falls in a BAM record stream -/
def bamCut (recs : List Bytes) (k : Nat) : Nat × Nat := whole (recs.map fun r => 4 + r.length) k

theorem bam_cut (fin : End) (recs : List Bytes)
    (hv : ∀ r ∈ recs, bamValidate r = true ∧ r.length < 2 ^ 32) (k : Nat) :
    readBam fin ((bamStream recs).take k) =
      (recs.take (bamCut recs k).1,
       if (bamCut recs k).1 = recs.length then fin else recStop fin (bamCut recs k).2) := by
  have hpos : ∀ n ∈ (recs.map fun r => 4 + r.length), 0 < n := by
    intro n hn
    obtain ⟨p, _, rfl⟩ := List.mem_map.1 hn
    omega
  have hw := whole_fst_le _ hpos k
  have hfuel : (whole ((bamFrames recs).map (·.1.length)) k).1 < ((bamStream recs).take k).length + 1 := by
    rw [bamFrames_lens, List.length_take, bamStream_length]
    omega
  have h := readMany_cut (bamStep fin) (recStop fin) (fun _ => fin) (bamFrames recs) []
    (by
      intro q hq r
      obtain ⟨p, hp, rfl⟩ := List.mem_map.1 hq
      exact bamStep_frame fin p (hv p hp).1 (hv p hp).2 r)
    (by
      intro q hq j hj
      obtain ⟨p, hp, rfl⟩ := List.mem_map.1 hq
      exact bamStep_cut fin p (hv p hp).1 (hv p hp).2 j hj)
    (by
      intro j
      rw [List.take_nil]
      unfold bamStep
      simp)
    k _ hfuel
  rw [List.append_nil, bamFrames_flatten, bamFrames_lens, bamFrames_take_items] at h
  unfold readBam bamCut
  rw [h]
  simp [bamFrames]

/-! ## BCF records -/

theorem bcfFrame_length (p : Bytes × Bytes) : (bcfFrame p).length = 8 + p.1.length + p.2.length := by
  simp [bcfFrame, le_length]; omega

/-- what the theorems ask of a written BCF record: a non-empty site block that `Fields::index`
accepts, lengths that fit `u32` -/
def BcfOk (index : Bytes → Option Err) (p : Bytes × Bytes) : Prop :=
  0 < p.1.length ∧ p.1.length < 2 ^ 32 ∧ p.2.length < 2 ^ 32 ∧ index p.1 = none

theorem bcfStep_frame (index : Bytes → Option Err) (fin : End) (p : Bytes × Bytes)
    (hp : BcfOk index p) (rest : Bytes) : bcfStep index fin (bcfFrame p ++ rest) = .item p rest := by
  obtain ⟨h0, h1, h2, h3⟩ := hp
  have hlen : (bcfFrame p ++ rest).length = 8 + p.1.length + p.2.length + rest.length := by
    rw [List.length_append, bcfFrame_length]
  unfold bcfStep
  rw [hlen, if_neg (by omega), if_neg (by omega)]
  unfold bcfFrame
  simp only [List.append_assoc]
  rw [unle_le 4 p.1.length (by simpa using h1)]
  simp only
  rw [if_neg (by omega), unle_le 4 p.2.length (by simpa using h2)]
  simp only
  rw [if_neg (by simp only [List.length_append]; omega), List.take_left' rfl, h3]
  simp only
  rw [List.drop_left' rfl, if_neg (by simp only [List.length_append]; omega),
    List.take_left' rfl, List.drop_left' rfl]

theorem bcfStep_cut (index : Bytes → Option Err) (fin : End) (p : Bytes × Bytes)
    (hp : BcfOk index p) (j : Nat) (hj : j < (bcfFrame p).length) :
    bcfStep index fin ((bcfFrame p).take j) = .ofEnd (recStop fin j) := by
  obtain ⟨h0, h1, h2, h3⟩ := hp
  rw [bcfFrame_length] at hj
  have hlen : ((bcfFrame p).take j).length = j := by
    rw [List.length_take, bcfFrame_length]; omega
  unfold bcfStep recStop
  rw [hlen]
  by_cases hj0 : j = 0
  · rw [if_pos hj0, if_pos hj0]
  · rw [if_neg hj0, if_neg hj0]
    by_cases h4 : j < 4
    · rw [if_pos h4]; rfl
    · rw [if_neg h4]
      have ht : (bcfFrame p).take j =
          le 4 p.1.length ++ (le 4 p.2.length ++ (p.1 ++ p.2)).take (j - 4) := by
        unfold bcfFrame
        simp only [List.append_assoc]
        rw [List.take_append, le_length, List.take_of_length_le (by rw [le_length]; omega)]
      rw [ht, unle_le 4 p.1.length (by simpa using h1)]
      simp only
      rw [if_neg (by omega)]
      by_cases h8 : j < 8
      · rw [unle_short 4 _ (by rw [List.length_take]; simp only [List.length_append, le_length]; omega)]
        rfl
      · have ht2 : (le 4 p.2.length ++ (p.1 ++ p.2)).take (j - 4) =
            le 4 p.2.length ++ (p.1 ++ p.2).take (j - 8) := by
          rw [List.take_append, le_length, List.take_of_length_le (by rw [le_length]; omega)]
          congr 2 <;> omega
        rw [ht2, unle_le 4 p.2.length (by simpa using h2)]
        simp only
        by_cases hs : j - 8 < p.1.length
        · rw [if_pos (by rw [List.length_take, List.length_append]; omega)]
          rfl
        · rw [if_neg (by rw [List.length_take, List.length_append]; omega)]
          have ht3 : (p.1 ++ p.2).take (j - 8) = p.1 ++ p.2.take (j - 8 - p.1.length) := by
            rw [List.take_append, List.take_of_length_le (by omega)]
          rw [ht3, List.take_left' rfl, h3]
          simp only
          rw [List.drop_left' rfl, if_pos (by rw [List.length_take]; omega)]
          rfl

def bcfFrames (recs : List (Bytes × Bytes)) : List (Bytes × (Bytes × Bytes)) :=
  recs.map fun p => (bcfFrame p, p)

theorem bcfFrames_flatten (recs : List (Bytes × Bytes)) :
    ((bcfFrames recs).map (·.1)).flatten = bcfStream recs := by
  simp [bcfFrames, bcfStream, List.map_map, Function.comp_def]

theorem bcfFrames_lens (recs : List (Bytes × Bytes)) :
    (bcfFrames recs).map (·.1.length) = recs.map fun p => 8 + p.1.length + p.2.length := by
  simp [bcfFrames, List.map_map, Function.comp_def, bcfFrame_length]

theorem bcfFrames_take_items (recs : List (Bytes × Bytes)) (n : Nat) :
    ((bcfFrames recs).take n).map (·.2) = recs.take n := by
  simp [bcfFrames, ← List.map_take, List.map_map, Function.comp_def]

theorem bcfStream_length (recs : List (Bytes × Bytes)) :
    (bcfStream recs).length = (recs.map fun p => 8 + p.1.length + p.2.length).sum := by
  simp [bcfStream, List.length_flatten, List.map_map, Function.comp_def, bcfFrame_length]

def bcfCut (recs : List (Bytes × Bytes)) (k : Nat) : Nat × Nat :=
  whole (recs.map fun p => 8 + p.1.length + p.2.length) k

theorem bcf_cut (index : Bytes → Option Err) (fin : End) (recs : List (Bytes × Bytes))
    (hv : ∀ p ∈ recs, BcfOk index p) (k : Nat) :
    readBcf index fin ((bcfStream recs).take k) =
      (recs.take (bcfCut recs k).1,
       if (bcfCut recs k).1 = recs.length then fin else recStop fin (bcfCut recs k).2) := by
  have hpos : ∀ n ∈ (recs.map fun p => 8 + p.1.length + p.2.length), 0 < n := by
    intro n hn
    obtain ⟨p, _, rfl⟩ := List.mem_map.1 hn
    omega
  have hw := whole_fst_le _ hpos k
  have hfuel : (whole ((bcfFrames recs).map (·.1.length)) k).1 < ((bcfStream recs).take k).length + 1 := by
    rw [bcfFrames_lens, List.length_take, bcfStream_length]
    omega
  have h := readMany_cut (bcfStep index fin) (recStop fin) (fun _ => fin) (bcfFrames recs) []
    (by
      intro q hq r
      obtain ⟨p, hp, rfl⟩ := List.mem_map.1 hq
      exact bcfStep_frame index fin p (hv p hp) r)
    (by
      intro q hq j hj
      obtain ⟨p, hp, rfl⟩ := List.mem_map.1 hq
      exact bcfStep_cut index fin p (hv p hp) j hj)
    (by
      intro j
      rw [List.take_nil]
      unfold bcfStep
      simp)
    k _ hfuel
  rw [List.append_nil, bcfFrames_flatten, bcfFrames_lens, bcfFrames_take_items] at h
  unfold readBcf bcfCut
  rw [h]
  simp [bcfFrames]

/-! ## a record reader on top of the BGZF reader -/

theorem datas_append (a b : List (Bytes × Bytes)) : datas (a ++ b) = datas a ++ datas b := by
  simp [datas]

/-- the data of the first `n` members is the corresponding prefix of all the data -/
theorem datas_take (frs : List (Bytes × Bytes)) (n : Nat) :
    datas (frs.take n) = (datas frs).take (datas (frs.take n)).length := by
  have h : datas frs = datas (frs.take n) ++ datas (frs.drop n) := by
    rw [← datas_append, List.take_append_drop]
  rw [h, List.take_left' rfl]

theorem datas_take_prefix (frs : List (Bytes × Bytes)) (n : Nat) : datas (frs.take n) <+: datas frs :=
  ⟨datas (frs.drop n), by rw [← datas_append, List.take_append_drop]⟩

theorem drop_take_append (h s : Bytes) (L : Nat) (hL : h.length ≤ L) :
    ((h ++ s).take L).drop h.length = s.take (L - h.length) := by
  rw [List.take_append, List.take_of_length_le hL, List.drop_left' rfl]

end Noodles.Trunc
