import Noodles.Trunc.CramHeader
import Noodles.Trunc.BinaryCutProof
/-!
# The CRAM file header container on a cut file (proofs for C13, part 2)
-/
namespace Noodles.IO
namespace Prog

theorem cutFails_landmarksRaw (n : Nat) (raw : Bytes) : CutFails IsEof (landmarksRaw n raw) := by
  induction n generalizing raw with
  | zero => exact cutFails_ret _ _
  | succ n ih =>
    unfold landmarksRaw
    exact cutFails_bind cutFails_itf8 fun _ => ih _

theorem cutFails_u8 : CutFails IsEof u8 :=
  cutFails_bind (cutFails_readExact 1) fun _ => cutFails_ret _ _

theorem cutFails_cramHdrContainerLen (crc : Bytes → Nat) : CutFails IsEof (cramHdrContainerLen crc) := by
  unfold cramHdrContainerLen
  simp only [bind_eq, pure_eq]
  repeat' (first
    | with_reducible exact cutFails_itf8
    | with_reducible exact cutFails_ltf8
    | with_reducible exact cutFails_asUnsigned _ _ cutFails_itf8
    | with_reducible exact cutFails_landmarksRaw _ _
    | cut_step)

theorem cutFails_cramHdrBlock : CutFails IsEof cramHdrBlock := by
  unfold cramHdrBlock
  simp only [bind_eq, pure_eq]
  repeat' (first
    | with_reducible exact cutFails_u8
    | with_reducible exact cutFails_itf8
    | with_reducible exact cutFails_asUnsigned _ _ cutFails_itf8
    | cut_step)

/-- what the theorem assumes of flate2 on a CUT gzip window, under the read pattern of
`read_file_header` (validated by the harness on every run, on every cut of every written header): it
fails on the first read, or delivers the same first four bytes and then either ends with an error or
— when only bytes it never needs are missing (the gzip trailer) — delivers the complete text. It
never reports a clean end after a shorter or different text. -/
def GzCutLaw (G : Bytes → GzRun) (z f4 text : Bytes) : Prop :=
  ∀ j, j < z.length →
    (∃ e, (G (z.take j)).first4 = .error e) ∨
    ((G (z.take j)).first4 = .ok f4 ∧
      (((G (z.take j)).stop = none ∧ (G (z.take j)).text = text) ∨ ∃ e, (G (z.take j)).stop = some e))

/-- the bytes the container's `Take` delivers when the container `hdr ++ body` is cut at `k ≥ |hdr|` -/
theorem headerOfBody_cut {ρ : Type} (G : Bytes → GzRun) (P : List Bytes → Option ρ)
    (bh z pad f4 text : Bytes) (cs us : Nat) (h : ρ)
    (hb : runPure cramHdrBlock bh = (.ok (1, cs, us), [])) (hz : z.length = cs)
    (hg : G z = ⟨.ok f4, text, none⟩) (hf4 : leNat f4 < 2 ^ 31)
    (hP : P (Noodles.Hostile.BamHdr.textLines text) = some h)
    (hlaw : GzCutLaw G z f4 text) (m : Nat) :
    (bh.length + z.length ≤ m → headerOfBody G P ((bh ++ (z ++ pad)).take m) = .ok h) ∧
    (m < bh.length → ∃ e, headerOfBody G P ((bh ++ (z ++ pad)).take m) = .error e) ∧
    (∀ h', headerOfBody G P ((bh ++ (z ++ pad)).take m) = .ok h' → h' = h) := by
  have hub : used cramHdrBlock bh = bh.length := by simp [used, hb]
  -- a cut inside the block header
  have hlt : m < bh.length → ∃ e, headerOfBody G P ((bh ++ (z ++ pad)).take m) = .error e := by
    intro hm
    rw [List.take_append_of_le_length (by omega)]
    obtain ⟨e, _, hr⟩ := cutFails_cramHdrBlock bh m (by omega) (by omega)
    exact ⟨e, by simp only [headerOfBody, linesOfBody, hr, headerOfLines]⟩
  -- a cut after it: the block header is read, the window is what is present of `z`
  have hge : bh.length ≤ m → headerOfBody G P ((bh ++ (z ++ pad)).take m) =
      headerOfLines P (gzLines (G (z.take (m - bh.length)))) := by
    intro hm
    rw [List.take_append, List.take_of_length_le hm]
    have := cutFails_extend cutFails_cramHdrBlock bh (1, cs, us) hb ((z ++ pad).take (m - bh.length))
    simp only [headerOfBody, linesOfBody, this]
    have hw : ((z ++ pad).take (m - bh.length)).take cs = z.take (m - bh.length) := by
      rw [List.take_take]
      by_cases hc : m - bh.length ≤ cs
      · rw [Nat.min_eq_right hc, List.take_append_of_le_length (by omega)]
      · rw [Nat.min_eq_left (by omega), List.take_append_of_le_length (by omega),
          List.take_of_length_le (by omega), List.take_of_length_le (by omega)]
    rw [if_neg (by decide), hw]
  have hfull : gzLines (G z) = .ok (Noodles.Hostile.BamHdr.textLines text, none) := by
    simp only [gzLines, hg]; rw [if_neg (by omega)]
  refine ⟨fun hm => ?_, hlt, fun h' hh => ?_⟩
  · rw [hge (by omega), List.take_of_length_le (by omega), hfull]
    simp only [headerOfLines, hP]
  · by_cases hm : m < bh.length
    · obtain ⟨e, he⟩ := hlt hm; rw [he] at hh; cases hh
    · rw [hge (by omega)] at hh
      by_cases hmz : z.length ≤ m - bh.length
      · rw [List.take_of_length_le hmz, hfull] at hh
        simp only [headerOfLines, hP] at hh
        injection hh with hh; exact hh.symm
      · rcases hlaw (m - bh.length) (by omega) with ⟨e, he⟩ | ⟨h4, hs⟩
        · simp only [gzLines, he, headerOfLines] at hh; cases hh
        · rcases hs with ⟨hs1, hs2⟩ | ⟨e, hs1⟩
          · simp only [gzLines, h4, hs1, hs2] at hh
            rw [if_neg (by omega)] at hh
            simp only [headerOfLines, hP] at hh
            injection hh with hh; exact hh.symm
          · simp only [gzLines, h4, hs1] at hh
            rw [if_neg (by omega)] at hh
            simp only [headerOfLines] at hh
            split at hh <;> cases hh

/-- **The CRAM file header container (as noodles writes it: one gzip block), every cut.** The
container is `hdr ++ (bh ++ z ++ pad)`: container header, block header, the gzip stream, and what
follows it in the container (the block's CRC-32, which this reader skips). Then for every cut `k`:

* inside the container header or the block header: an error;
* with the whole gzip stream present: the complete header `h` (the missing bytes are never looked at);
* in between — inside the gzip stream — an error, or, when flate2 happens to need none of the missing
  bytes, the complete header `h`: NEVER a different (shorter) header. -/
theorem cramFileHeader_cut {ρ : Type} (crc : Bytes → Nat) (G : Bytes → GzRun) (P : List Bytes → Option ρ)
    (hdr bh z pad f4 text : Bytes) (len cs us : Nat) (h : ρ)
    (hh : runPure (cramHdrContainerLen crc) hdr = (.ok len, []))
    (hlen : (bh ++ (z ++ pad)).length = len)
    (hb : runPure cramHdrBlock bh = (.ok (1, cs, us), [])) (hz : z.length = cs)
    (hg : G z = ⟨.ok f4, text, none⟩) (hf4 : leNat f4 < 2 ^ 31)
    (hP : P (Noodles.Hostile.BamHdr.textLines text) = some h)
    (hlaw : GzCutLaw G z f4 text) (k : Nat) :
    (k < hdr.length + bh.length →
      ∃ e, (runPure (cramFileHeader crc G P) ((hdr ++ (bh ++ (z ++ pad))).take k)).1 = .error e) ∧
    (hdr.length + bh.length + z.length ≤ k →
      (runPure (cramFileHeader crc G P) ((hdr ++ (bh ++ (z ++ pad))).take k)).1 = .ok h) ∧
    (∀ h', (runPure (cramFileHeader crc G P) ((hdr ++ (bh ++ (z ++ pad))).take k)).1 = .ok h' → h' = h) := by
  have huh : used (cramHdrContainerLen crc) hdr = hdr.length := by simp [used, hh]
  -- a cut inside the container header
  have hlt : k < hdr.length →
      ∃ e, (runPure (cramFileHeader crc G P) ((hdr ++ (bh ++ (z ++ pad))).take k)).1 = .error e := by
    intro hk
    rw [List.take_append_of_le_length (by omega)]
    obtain ⟨e, _, hr⟩ := cutFails_cramHdrContainerLen crc hdr k (by omega) (by omega)
    refine ⟨e, ?_⟩
    unfold cramFileHeader
    simp only [bind_eq]
    rw [runPure_bind, hr]
  -- a cut after it
  have hge : hdr.length ≤ k →
      (runPure (cramFileHeader crc G P) ((hdr ++ (bh ++ (z ++ pad))).take k)).1 =
        match headerOfBody G P ((bh ++ (z ++ pad)).take (k - hdr.length)) with
        | .ok h => .ok h
        | .error e => .error e := by
    intro hk
    rw [List.take_append, List.take_of_length_le hk]
    unfold cramFileHeader
    simp only [bind_eq]
    rw [runPure_bind, cutFails_extend (cutFails_cramHdrContainerLen crc) hdr len hh]
    simp only [runPure]
    have hw : ((bh ++ (z ++ pad)).take (k - hdr.length)).take len = (bh ++ (z ++ pad)).take (k - hdr.length) := by
      rw [List.take_take]
      by_cases hc : k - hdr.length ≤ len
      · rw [Nat.min_eq_right hc]
      · rw [Nat.min_eq_left (by omega), List.take_of_length_le (by omega), List.take_of_length_le (by omega)]
    rw [hw]
    cases headerOfBody G P ((bh ++ (z ++ pad)).take (k - hdr.length)) <;> rfl
  obtain ⟨c1, c2, c3⟩ := headerOfBody_cut G P bh z pad f4 text cs us h hb hz hg hf4 hP hlaw (k - hdr.length)
  refine ⟨fun hk => ?_, fun hk => ?_, fun h' hr => ?_⟩
  · by_cases hk2 : k < hdr.length
    · exact hlt hk2
    · obtain ⟨e, he⟩ := c2 (by omega)
      exact ⟨e, by rw [hge (by omega), he]⟩
  · rw [hge (by omega), c1 (by omega)]
  · by_cases hk2 : k < hdr.length
    · obtain ⟨e, he⟩ := hlt hk2; rw [he] at hr; cases hr
    · rw [hge (by omega)] at hr
      cases hb2 : headerOfBody G P ((bh ++ (z ++ pad)).take (k - hdr.length)) with
      | error e => rw [hb2] at hr; cases hr
      | ok x =>
        rw [hb2] at hr
        injection hr with hr
        rw [← hr]; exact c3 x hb2

end Prog
end Noodles.IO
