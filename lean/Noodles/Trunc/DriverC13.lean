import Noodles.Basic.Wire
import Noodles.Basic.Crc32
import Noodles.Bgzf.Driver
import Noodles.Trunc.Model
/-! Line-protocol handlers for the truncation suites (`c13 …`). Every request carries the complete
file (hex) and a cut offset `k`; the model reads the first `k` bytes. -/
namespace Noodles.Trunc
open Noodles.Wire hiding Bytes
open Noodles.Codec hiding Err Dec
open Noodles.Bgzf

def endStr : End → String
  | .eof => "eof"
  | .err e => errStr e

def natList (l : List Nat) : String :=
  if l.isEmpty then "-" else ",".intercalate (l.map toString)

/-- `Fields::index` is not modelled: on a cut of a well-formed stream it only ever sees the complete
site block of a written record -/
def indexAccepts : Bytes → Option Err := fun _ => none

def handleC13 : List String → String
  | ["bgzf", k, file, table] =>
    match k.toNat?, unhex file, parseInfTable table with
    | some k, some f, some it =>
      let r := readStream (tableDeflater [] it) (f.take k)
      s!"{hex r.1.flatten} {endStr r.2}"
    | _, _, _ => "bad-op"
  | ["bam", k, stream] =>
    match k.toNat?, unhex stream with
    | some k, some s =>
      let r := readBam .eof (s.take k)
      s!"{natList (r.1.map (·.length))} {endStr r.2}"
    | _, _ => "bad-op"
  | ["bcf", k, stream] =>
    match k.toNat?, unhex stream with
    | some k, some s =>
      let r := readBcf indexAccepts .eof (s.take k)
      s!"{natList (r.1.map fun p => p.1.length + p.2.length)} {endStr r.2}"
    | _, _ => "bad-op"
  | [fmt, k, hdr, file, table] =>
    -- `bamz` / `bcfz`: the record reader on top of the BGZF reader, header of `hdr` bytes
    match k.toNat?, hdr.toNat?, unhex file, parseInfTable table with
    | some k, some hdr, some f, some it =>
      let z := readStream (tableDeflater [] it) (f.take k)
      let d := z.1.flatten
      if d.length < hdr then s!"hdr:{errStr (shortErr z.2)}" else
      if fmt = "bamz" then
        let r := readBam z.2 (d.drop hdr)
        s!"{r.1.length} {endStr r.2}"
      else if fmt = "bcfz" then
        let r := readBcf indexAccepts z.2 (d.drop hdr)
        s!"{r.1.length} {endStr r.2}"
      else "bad-op"
    | _, _, _, _ => "bad-op"
  | ["bamhdr", k, h] =>
    match k.toNat?, unhex h with
    | some k, some h => match bamHeader (h.take k) with | .ok _ => "ok" | .error _ => "err"
    | _, _ => "bad-op"
  | ["bcfhdr", k, h] =>
    match k.toNat?, unhex h with
    | some k, some h => match bcfHeader (h.take k) with | .ok _ => "ok" | .error _ => "err"
    | _, _ => "bad-op"
  | ["cram", k, file] =>
    match k.toNat?, unhex file with
    | some k, some f =>
      match cramFileDefinition (f.take k) with
      | .error e => s!"def:{errStr e}"
      | .ok _ =>
        let res := readCramFile Crc32.crc32 (f.take k)
        s!"{natList (res.1.map (·.src.length))} {endStr res.2}"
    | _, _ => "bad-op"
  | _ => "bad-op"

end Noodles.Trunc
