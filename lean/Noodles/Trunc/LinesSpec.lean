import Noodles.Io.LoopsProof
import Noodles.Io.Lines
import Noodles.Io.FastaProof
import Noodles.Trunc.Cut
/-!
# Pure twins of the text record readers (definitions for C13, part 3)

`Noodles.Io.Lines` gives the text record readers of noodles over a `BufReader` (`RdB`). Everything
they do is determined by the bytes the `BufReader` will still deliver (`BufR.stream`); this file
writes that down as functions on byte strings:

* `SP β` — a reader as a function on the undelivered bytes, with `pure / fail / bind / attempt`
  mirroring `RdB.*`, and `HasSpec f s`: the `RdB` reader `f` computes `s` of the stream, whatever
  the delivery schedule, the capacity and the split between buffer and source;
* the three primitives `pReadFieldInto`, `pReadLineInto`, `pReadLineUtf8Into`
  (`specField` / `specUntil` of `Noodles.Io.LoopsProof`);
* one-to-one mirrors `pSamReadRecord`, `pVcfReadRecord`, `pReadParsedLine`, `pGffLine`, the FASTQ
  record reader `pFastqReadRecord` and the FASTA record step `fastaStep`;
* lines and cuts: `IsLine` (`isLineB`), `noLF`, `cutN`, `cutP`, `cutOutcome`; the records as written:
  `FqLines` (FASTQ, four lines), `FaLines` (FASTA, definition line + sequence lines); what a reader makes
  of a line: `samRecOfLine`, `vcfRecOfLine`, `gffItem`, `fqDef`, `fqCut`, `bases`;
* the data of the witness theorems.

Definitions only; the proofs are in `Noodles.Trunc.LinesCutProof`.
-/
namespace Noodles.IO

/-- a reader as a function on the bytes still to be delivered: result and the bytes left -/
abbrev SP (β : Type) : Type := Bytes → Except Err β × Bytes

namespace SP
variable {β γ : Type}

def pure (a : β) : SP β := fun d => (.ok a, d)
def fail (e : Err) : SP β := fun d => (.error e, d)

def bind (f : SP β) (g : β → SP γ) : SP γ := fun d =>
  match f d with
  | (.error e, d') => (.error e, d')
  | (.ok a, d') => g a d'

def attempt (f : SP β) : SP (Except Err β) := fun d =>
  match f d with
  | (.error e, d') => (.ok (.error e), d')
  | (.ok a, d') => (.ok (.ok a), d')

end SP

/-- the `BufReader` reader `f` computes `s` of the stream (and keeps the capacity) -/
def HasSpec {β : Type} (f : RdB β) (s : SP β) : Prop :=
  ∀ b : BufR UInt8, 0 < b.cap →
    (f b).1 = (s b.stream).1 ∧ (f b).2.stream = (s b.stream).2 ∧ (f b).2.cap = b.cap

/-! ## the primitives -/

def pReadFieldInto (dst : Bytes) : SP (Bytes × Nat × Bool) := fun xs =>
  match specField (dst, 0, none) xs with
  | ((d, len, m), xs') =>
    let isEol := m == some LF
    (.ok (if isEol && (d.drop dst.length).getLast? == some CR then d.dropLast else d, len, isEol), xs')

def pReadLineInto (dst : Bytes) : SP (Nat × Bytes) := fun xs =>
  let r := specUntil (· == LF) xs
  (.ok (r.1.length, dst ++ stripEol r.1), r.2)

def pReadLineUtf8Into (dst : Bytes) : SP (Nat × Bytes) := fun xs =>
  let r := specUntil (· == LF) xs
  if Noodles.Index.validUtf8 r.1 then
    (.ok (r.1.length, dst ++ stripEol r.1), r.2)
  else (.error .invalidData, r.2)

/-! ## the lazy SAM record reader -/

def pSamRequiredField (dst : Bytes) : SP (Bytes × Nat) :=
  SP.bind (pReadFieldInto dst) fun (d, len, isEol) =>
    if isEol then SP.fail .invalidData else SP.pure (d, len)

def pSamRequiredFields : Nat → Bytes → List Nat → Nat → SP (Bytes × List Nat × Nat)
  | 0, dst, ends, len => SP.pure (dst, ends, len)
  | k+1, dst, ends, len =>
    SP.bind (pSamRequiredField dst) fun (d, n) => pSamRequiredFields k d (d.length :: ends) (len + n)

def pSamReadRecord : SP LazyRec :=
  SP.bind (pSamRequiredFields 10 [] [] 0) fun (d, ends, len) =>
  SP.bind (pReadFieldInto d) fun (d', n, isEol) =>
    if isEol then SP.pure ⟨len + n, d', (d'.length :: ends).reverse⟩
    else SP.bind (pReadLineInto d') fun (m, d'') => SP.pure ⟨len + n + m, d'', (d'.length :: ends).reverse⟩

/-- the record the lazy SAM reader makes of the bytes `l` (a line, or what is present of one) -/
def samRecOfLine (l : Bytes) : LazyRec :=
  match (pSamReadRecord l).1 with
  | .ok r => r
  | .error _ => ⟨0, [], []⟩

/-- one round of `while reader.read_record(&mut record)? != 0` -/
def lazyStep (s : SP LazyRec) : SP (Option LazyRec) := fun d =>
  match s d with
  | (.ok r, d') => (.ok (if r.len = 0 then none else some r), d')
  | (.error e, d') => (.error e, d')

/-! ## the lazy VCF record reader -/

def pVcfReadFieldInto (dst : Bytes) : SP (Bytes × Nat × Bool) :=
  SP.bind (pReadFieldInto dst) fun (d, len, isEol) =>
    if Noodles.Index.validUtf8 d then SP.pure (d, len, isEol) else SP.fail .invalidData

def pVcfRequiredField (dst : Bytes) : SP (Bytes × Nat) :=
  SP.bind (pVcfReadFieldInto dst) fun (d, len, isEol) =>
    if isEol then SP.fail .invalidData else SP.pure (d, len)

def pVcfRequiredFields : Nat → Bytes → List Nat → Nat → SP (Bytes × List Nat × Nat)
  | 0, dst, ends, len => SP.pure (dst, ends, len)
  | k+1, dst, ends, len =>
    SP.bind (pVcfRequiredField dst) fun (d, n) => pVcfRequiredFields k d (d.length :: ends) (len + n)

def pVcfReadRecord : SP LazyRec :=
  SP.bind (pVcfRequiredFields 7 [] [] 0) fun (d, ends, len) =>
  SP.bind (pVcfReadFieldInto d) fun (d', n, isEol) =>
    if isEol then SP.pure ⟨len + n, d', (d'.length :: ends).reverse⟩
    else SP.bind (pReadLineUtf8Into d') fun (m, d'') => SP.pure ⟨len + n + m, d'', (d'.length :: ends).reverse⟩

/-- the record the lazy VCF reader makes of the bytes `l` (when it makes one) -/
def vcfRecOfLine (l : Bytes) : LazyRec :=
  match (pVcfReadRecord l).1 with
  | .ok r => r
  | .error _ => ⟨0, [], []⟩

/-! ## one line, then parse it -/

def pReadParsedLine {ρ : Type} (utf8 : Bool) (parse : Bytes → Except Err ρ) : SP (Option (Nat × ρ)) :=
  SP.bind (if utf8 then pReadLineUtf8Into [] else pReadLineInto []) fun (n, l) =>
    if n = 0 then SP.pure none
    else match parse l with
      | .error e => SP.fail e
      | .ok r => SP.pure (some (n, r))

def pGffReadLine : Nat → SP (Nat × Bytes)
  | 0 => SP.fail .fuel
  | fuel+1 =>
    SP.bind (pReadLineInto []) fun (n, l) =>
      if n = 0 || !(l.all isAsciiWhitespace) then SP.pure (n, l) else pGffReadLine fuel

def pGffLine : SP (Option (Nat × Bytes)) := fun d =>
  match pGffReadLine (d.length + 1) d with
  | (.error e, d') => (.error e, d')
  | (.ok (n, l), d') => (.ok (if n = 0 then none else some (n, l)), d')

/-! ## FASTA: `specFasta` as a record loop -/

/-- one round of `specFasta` (`Noodles.Io.FastaProof`): the definition line, then the sequence up to
the next `>` -/
def fastaStep : SP (Option FastaRec) := fun xs =>
  let l := specUntil (· == LF) xs
  if l.1.length = 0 then (.ok none, l.2)
  else match parseDefinition (stripEol l.1) with
    | .error e => (.error e, l.2)
    | .ok (name, desc) => (.ok (some ⟨name, desc, (specSeq l.2).1⟩), (specSeq l.2).2)

/-! ## FASTQ (the fixed reader, `fastqReadRecord true`) -/

/-- `read_line` on the stream -/
def pReadLine (xs : Bytes) : (Nat × Bytes) × Bytes :=
  let r := specUntil (· == LF) xs
  ((r.1.length, stripEol r.1), r.2)

def pFastqReadDefinition : SP (Nat × Bytes × Bytes) := fun xs =>
  match xs.head? with
  | none => (.ok (0, [], []), xs.tail)
  | some c =>
    if c ≠ AT then (.error .invalidData, xs.tail)
    else match specName ([], 1, false, false) xs.tail with
      | ((name, len, isEol, _), xs2) =>
        if isEol then
          (.ok (len, if name.getLast? == some CR then name.dropLast else name, []), xs2)
        else
          let r := pReadLine xs2
          (.ok (len + r.1.1, name, r.1.2), r.2)

def pFastqConsumePlusLine : SP Nat := fun xs =>
  match xs.head? with
  | none => (.error .eof, xs.tail)
  | some c =>
    if c ≠ PLUS then (.error .invalidData, xs.tail)
    else
      let r := specLineSt (0, false) xs.tail
      (.ok (r.1 + 1), r.2)

def pFastqReadRecord : SP (Option (Nat × FastqRec)) := fun xs =>
  match pFastqReadDefinition xs with
  | (.error e, x1) => (.error e, x1)
  | (.ok (0, _, _), x1) => (.ok none, x1)
  | (.ok (n, name, desc), x1) =>
    let s := pReadLine x1
    match pFastqConsumePlusLine s.2 with
    | (.error e, x3) => (.error e, x3)
    | (.ok m, x3) =>
      let q := pReadLine x3
      (.ok (some (n + s.1.1 + m + q.1.1, ⟨name, desc, s.1.2, q.1.2⟩)), q.2)

/-- the four lines of a FASTQ record: `"@" ++ n`, `s`, `"+" ++ c`, `q` -/
structure FqLines where
  /-- the definition line without its `@` -/
  n : Bytes
  /-- the sequence line -/
  s : Bytes
  /-- the plus line without its `+` -/
  c : Bytes
  /-- the quality line -/
  q : Bytes

def FqLines.lines (f : FqLines) : List Bytes := [AT :: f.n, f.s, PLUS :: f.c, f.q]

def FqLines.bytes (f : FqLines) : Bytes := f.lines.flatten

/-- (name, description) the reader makes of the definition line `"@" ++ n` -/
def fqDef (n : Bytes) : Bytes × Bytes :=
  match (pFastqReadDefinition (AT :: n)).1 with
  | .ok (_, name, desc) => (name, desc)
  | .error _ => ([], [])

/-- the record as the reader delivers it: (bytes read, record) -/
def FqLines.item (f : FqLines) : Nat × FastqRec :=
  (f.bytes.length, ⟨(fqDef f.n).1, (fqDef f.n).2, stripEol f.s, stripEol f.q⟩)

/-- what the reader makes, at the end of the input, of the bytes `q` present of the record `f`
(`fastq_record_cut`): nothing there — `Ok(0)`; the cut is before the `+` — `UnexpectedEof`; the `+` is
there — a record whose quality string is whatever is present of the fourth line (possibly nothing) -/
def fqCut (f : FqLines) (q : Bytes) : Except Err (Option (Nat × FastqRec)) :=
  if q = [] then .ok none
  else if q.length ≤ (f.n.length + 1) + f.s.length then .error .eof
  else .ok (some (q.length, ⟨(fqDef f.n).1, (fqDef f.n).2, stripEol f.s,
    q.drop ((f.n.length + 1) + f.s.length + (f.c.length + 1))⟩))

/-! ## lines and cuts -/

/-- a complete line: LF-free bytes, then one LF -/
def isLineB : Bytes → Bool
  | [] => false
  | c :: t => if c == LF then t.isEmpty else isLineB t

/-- a complete line (decidable: `isLineB`); `isLine_iff`: `∃ body, l = body ++ [LF] ∧ LF ∉ body` -/
def IsLine (l : Bytes) : Prop := isLineB l = true

instance (l : Bytes) : Decidable (IsLine l) := inferInstanceAs (Decidable (isLineB l = true))

/-- the four lines of the record are complete lines -/
def FqLines.Wf (f : FqLines) : Prop := IsLine f.n ∧ IsLine f.s ∧ IsLine f.c ∧ IsLine f.q

instance (f : FqLines) : Decidable f.Wf := inferInstanceAs (Decidable (_ ∧ _ ∧ _ ∧ _))

/-- a FASTA record as written: the definition line `">" ++ d`, then the sequence lines `s` -/
structure FaLines where
  /-- the definition line without its `>` -/
  d : Bytes
  /-- the sequence lines -/
  s : Bytes

def FaLines.bytes (f : FaLines) : Bytes := GT :: (f.d ++ f.s)

/-- the definition line is a complete line; the sequence lines contain no `>`, end with an LF (or are
empty) and a CR in them is followed by an LF (`wfSeq` up to the `>` of the next record) -/
def FaLines.Wf (f : FaLines) : Prop :=
  IsLine f.d ∧ f.s.all (fun c => !(c == GT)) = true ∧ wfSeq LF (f.s ++ [GT]) = true

instance (f : FaLines) : Decidable f.Wf := inferInstanceAs (Decidable (_ ∧ _ ∧ _))

/-- the bases in sequence lines: everything but CR and LF -/
def bases (s : Bytes) : Bytes := s.filter (fun c => !(c == CR || c == LF))

/-- what may follow a FASTA record: nothing, or the `>` of the next record -/
def FaNext (r : Bytes) : Prop := r = [] ∨ r.head? = some GT

/-- no LF: what is present of a line that was cut -/
def noLF (p : Bytes) : Bool := p.all (fun c => !(c == LF))

/-- the lines as frames for `cutPos` / `cutRest` -/
def lineFrames (ls : List Bytes) : List (Bytes × Unit) := ls.map fun l => (l, ())

/-- the number of lines wholly inside the first `k` bytes of `ls.flatten` -/
def cutN (ls : List Bytes) (k : Nat) : Nat := (cutPos (lineFrames ls) k).1

/-- the bytes present of the line the cut falls into (`[]`: the cut is at a line boundary or beyond
the end) -/
def cutP (ls : List Bytes) (k : Nat) : Bytes := cutRest (lineFrames ls) [] k

/-- blank for noodles-gff: only ASCII whitespace -/
def isBlank (l : Bytes) : Bool := l.all isAsciiWhitespace

/-- what the GFF3 line reader makes of a complete line: nothing if it is blank -/
def gffItem (l : Bytes) : Option (Nat × Bytes) :=
  if isBlank (stripEol l) then none else some (l.length, stripEol l)

/-- all bytes < 0x80 -/
def isAscii (p : Bytes) : Bool := p.all (fun c => decide (c.toNat < 0x80))

/-- all bytes are ASCII (`isAscii_iff`) -/
def Asc (l : Bytes) : Prop := ∀ c ∈ l, c.toNat < 0x80

/-- how a line-based record loop ends on the bytes `p` present of the cut line, given what one more
round of the reader makes of them -/
def cutOutcome {β : Type} (items : List β) (p : Bytes) (res : Except Err (Option β)) : List β × Option Err :=
  if p = [] then (items, none) else
  match res with
  | .error e => (items, some e)
  | .ok none => (items, none)
  | .ok (some r) => (items ++ [r], none)

/-! ## data for the witness theorems -/

/-- a SAM line with 11 one-byte fields: `1\t2\t3\t4\t5\t6\t7\t8\t9\tA\tB\n` -/
def samLineW : Bytes := [49, 9, 50, 9, 51, 9, 52, 9, 53, 9, 54, 9, 55, 9, 56, 9, 57, 9, 65, 9, 66, 10]

/-- a VCF line whose first field is `é` (`C3 A9`) -/
def vcfLineW : Bytes := [0xC3, 0xA9, 9, 50, 9, 51, 9, 52, 9, 53, 9, 54, 9, 55, 9, 56, 10]

/-- `">a\nACGT\n>b\nGG\n"` -/
def fastaW : List FaLines := [⟨[97, 10], [65, 67, 71, 84, 10]⟩, ⟨[98, 10], [71, 71, 10]⟩]

/-- `"@r\nACGT\n+\nIIII\n"` -/
def fastqW : List FqLines := [⟨[114, 10], [65, 67, 71, 84, 10], [10], [73, 73, 73, 73, 10]⟩]

end Noodles.IO
