import Noodles.Trunc.LinesSpec
import Noodles.Trunc.CutProof
/-!
# Truncation theorems for the text record readers (proofs for C13, part 3)

What each text record reader of `Noodles.Io.Lines` / `Noodles.Io.Loops` delivers when its input is the
first `k` bytes — ANY `k` — of a text made of complete lines (records), over ANY `BufReader` (any
capacity ≥ 1, any delivery schedule, any split between buffer and source).

* Step 1 — the spec kit: `HasSpec` for `pure / fail / bind / attempt / ite`, for the primitives
  (`hasSpec_readFieldInto`, `hasSpec_readLineInto`, `hasSpec_readLineUtf8Into`), for the twins
  (`hasSpec_samReadRecord`, `hasSpec_vcfReadRecord`, `hasSpec_readParsedLine`, `hasSpec_gffLine`,
  `hasSpec_fastqReadRecord`) and the loops as `pLoop`s (`lazyRecords_pLoop`, `parsedLines_pLoop`,
  `fastqRecords_pLoop`, `specFasta_pLoop`).
* Step 2 — lines: `isLine_iff`, `specUntil_line`, `specUntil_noLF`, `noLF_take_line`, `stripEol_noLF`,
  `take_lines`, `cutP_cases`, `cutP_noLF`; the generic `lines_cut` (an instance of `pLoop_cut`),
  `lines_cut_skip` (readers that skip lines), `pLoop_frames_cut` / `pLoop_frames_cut_R` (multi-line
  frames).
* The theorems: `parsedLines_cut` (+ `parsedLines_cut_prefix`), `sam_lazy_cut`, `vcf_lazy_cut`
  (+ `vcf_lazy_cut_ascii`, `vcf_lazy_cut_utf8`), `gff_lines_cut`, `fasta_cut`, `fastq_cut`, each with a
  witness theorem on a concrete input and a non-vacuity example.

The common finding: a cut INSIDE a line is not an error for these readers. The bytes present of the
cut line are handed to the parser / delivered as one more record — a record that was never written —
and the stream then ends cleanly. An error arises only when those bytes happen to be rejected (by the
line parser; as invalid UTF-8; FASTQ before the `+` line: `UnexpectedEof`).
-/
namespace Noodles.IO
open Noodles.Index (validUtf8 inRange)

/-- only for the `decide` witnesses below -/
local instance exceptDecEqL {ε α : Type} [DecidableEq ε] [DecidableEq α] : DecidableEq (Except ε α) :=
  fun a b =>
    match a, b with
    | .ok x, .ok y => if h : x = y then isTrue (by rw [h]) else isFalse (fun h' => h (Except.ok.inj h'))
    | .error x, .error y =>
      if h : x = y then isTrue (by rw [h]) else isFalse (fun h' => h (Except.error.inj h'))
    | .ok _, .error _ => isFalse (fun h => by cases h)
    | .error _, .ok _ => isFalse (fun h => by cases h)

/-! ## Step 1: the spec kit -/

section Kit
variable {β γ : Type}

theorem HasSpec.pure (a : β) : HasSpec (RdB.pure a) (SP.pure a) := by
  intro b _; exact ⟨rfl, rfl, rfl⟩

theorem HasSpec.fail (e : Err) : HasSpec (RdB.fail e : RdB β) (SP.fail e) := by
  intro b _; exact ⟨rfl, rfl, rfl⟩

theorem HasSpec.bind {f : RdB β} {s : SP β} {g : β → RdB γ} {t : β → SP γ}
    (hf : HasSpec f s) (hg : ∀ a, HasSpec (g a) (t a)) : HasSpec (RdB.bind f g) (SP.bind s t) := by
  intro b hc
  obtain ⟨a1, a2, a3⟩ := hf b hc
  unfold RdB.bind SP.bind
  rcases e1 : f b with ⟨r1, t1⟩
  rcases e2 : s b.stream with ⟨r2, d2⟩
  simp only [e1, e2] at a1 a2 a3
  subst a1 a2
  cases r1 with
  | error e => exact ⟨rfl, rfl, a3⟩
  | ok a =>
    obtain ⟨c1, c2, c3⟩ := hg a t1 (by rw [a3]; exact hc)
    exact ⟨c1, c2, by rw [c3, a3]⟩

theorem HasSpec.attempt {f : RdB β} {s : SP β} (hf : HasSpec f s) :
    HasSpec (RdB.attempt f) (SP.attempt s) := by
  intro b hc
  obtain ⟨a1, a2, a3⟩ := hf b hc
  unfold RdB.attempt SP.attempt
  rcases e1 : f b with ⟨r1, t1⟩
  rcases e2 : s b.stream with ⟨r2, d2⟩
  simp only [e1, e2] at a1 a2 a3
  subst a1 a2
  cases r1 with
  | error e => exact ⟨rfl, rfl, a3⟩
  | ok a => exact ⟨rfl, rfl, a3⟩

theorem HasSpec.ite {c : Prop} [Decidable c] {f g : RdB β} {s t : SP β}
    (hf : HasSpec f s) (hg : HasSpec g t) : HasSpec (if c then f else g) (if c then s else t) := by
  cases ‹Decidable c› with
  | isTrue h => exact hf
  | isFalse h => exact hg

end Kit

theorem hasSpec_readFieldInto (dst : Bytes) : HasSpec (readFieldInto dst) (pReadFieldInto dst) := by
  intro b hc
  obtain ⟨a1, a2, a3⟩ := scanLoop_spec fieldStep specField fieldStep_spec b.fuel (dst, 0, none) b hc (mu_lt_fuel b)
  unfold readFieldInto pReadFieldInto
  rcases e1 : scanLoop true fieldStep b.fuel (dst, 0, none) b with ⟨r1, t1⟩
  rcases e2 : specField (dst, 0, none) b.stream with ⟨⟨d, len, m⟩, xs'⟩
  simp only [e1, e2] at a1 a2 a3
  subst a1 a2
  exact ⟨rfl, rfl, a3⟩

theorem hasSpec_readLineInto (dst : Bytes) : HasSpec (readLineInto dst) (pReadLineInto dst) := by
  intro b hc
  obtain ⟨a1, a2, a3⟩ := readUntil_spec (· == LF) b.fuel b [] hc (mu_lt_fuel b)
  simp only [List.nil_append] at a1
  simp only [readLineInto, pReadLineInto]
  rw [a1]
  exact ⟨rfl, a2, a3⟩

theorem hasSpec_readLineUtf8Into (dst : Bytes) : HasSpec (readLineUtf8Into dst) (pReadLineUtf8Into dst) := by
  intro b hc
  obtain ⟨a1, a2, a3⟩ := readUntil_spec (· == LF) b.fuel b [] hc (mu_lt_fuel b)
  simp only [List.nil_append] at a1
  simp only [readLineUtf8Into, pReadLineUtf8Into]
  rw [a1]
  by_cases hv : Noodles.Index.validUtf8 (specUntil (fun x => x == LF) b.stream).1 = true
  · rw [if_pos hv, if_pos hv]; exact ⟨rfl, a2, a3⟩
  · rw [if_neg hv, if_neg hv]; exact ⟨rfl, a2, a3⟩

/-! ### the twins -/

theorem hasSpec_samRequiredField (dst : Bytes) : HasSpec (samRequiredField dst) (pSamRequiredField dst) :=
  HasSpec.bind (hasSpec_readFieldInto dst) fun ⟨_, _, _⟩ => HasSpec.ite (HasSpec.fail _) (HasSpec.pure _)

theorem hasSpec_samRequiredFields (k : Nat) (dst : Bytes) (ends : List Nat) (len : Nat) :
    HasSpec (samRequiredFields k dst ends len) (pSamRequiredFields k dst ends len) := by
  induction k generalizing dst ends len with
  | zero => exact HasSpec.pure _
  | succ k ih =>
    exact HasSpec.bind (hasSpec_samRequiredField dst) fun ⟨d, n⟩ => ih d (d.length :: ends) (len + n)

theorem hasSpec_samReadRecord : HasSpec samReadRecord pSamReadRecord :=
  HasSpec.bind (hasSpec_samRequiredFields 10 [] [] 0) fun ⟨d, _, _⟩ =>
  HasSpec.bind (hasSpec_readFieldInto d) fun ⟨d', _, _⟩ =>
    HasSpec.ite (HasSpec.pure _) (HasSpec.bind (hasSpec_readLineInto d') fun ⟨_, _⟩ => HasSpec.pure _)

theorem hasSpec_vcfReadFieldInto (dst : Bytes) : HasSpec (vcfReadFieldInto dst) (pVcfReadFieldInto dst) :=
  HasSpec.bind (hasSpec_readFieldInto dst) fun ⟨_, _, _⟩ => HasSpec.ite (HasSpec.pure _) (HasSpec.fail _)

theorem hasSpec_vcfRequiredField (dst : Bytes) : HasSpec (vcfRequiredField dst) (pVcfRequiredField dst) :=
  HasSpec.bind (hasSpec_vcfReadFieldInto dst) fun ⟨_, _, _⟩ => HasSpec.ite (HasSpec.fail _) (HasSpec.pure _)

theorem hasSpec_vcfRequiredFields (k : Nat) (dst : Bytes) (ends : List Nat) (len : Nat) :
    HasSpec (vcfRequiredFields k dst ends len) (pVcfRequiredFields k dst ends len) := by
  induction k generalizing dst ends len with
  | zero => exact HasSpec.pure _
  | succ k ih =>
    exact HasSpec.bind (hasSpec_vcfRequiredField dst) fun ⟨d, n⟩ => ih d (d.length :: ends) (len + n)

theorem hasSpec_vcfReadRecord : HasSpec vcfReadRecord pVcfReadRecord :=
  HasSpec.bind (hasSpec_vcfRequiredFields 7 [] [] 0) fun ⟨d, _, _⟩ =>
  HasSpec.bind (hasSpec_vcfReadFieldInto d) fun ⟨d', _, _⟩ =>
    HasSpec.ite (HasSpec.pure _) (HasSpec.bind (hasSpec_readLineUtf8Into d') fun ⟨_, _⟩ => HasSpec.pure _)

theorem hasSpec_readParsedLine {ρ : Type} (utf8 : Bool) (parse : Bytes → Except Err ρ) :
    HasSpec (readParsedLine utf8 parse) (pReadParsedLine utf8 parse) := by
  unfold readParsedLine pReadParsedLine
  refine HasSpec.bind ?_ fun ⟨n, l⟩ => ?_
  · cases utf8
    · exact hasSpec_readLineInto []
    · exact hasSpec_readLineUtf8Into []
  · refine HasSpec.ite (HasSpec.pure _) ?_
    cases parse l with
    | error e => exact HasSpec.fail _
    | ok r => exact HasSpec.pure _

theorem hasSpec_gffReadLine (fuel : Nat) : HasSpec (gffReadLine fuel) (pGffReadLine fuel) := by
  induction fuel with
  | zero => exact HasSpec.fail _
  | succ fuel ih =>
    exact HasSpec.bind (hasSpec_readLineInto []) fun ⟨n, l⟩ => HasSpec.ite (HasSpec.pure _) ih

theorem hasSpec_gffLine : HasSpec gffLine pGffLine := by
  intro b hc
  obtain ⟨a1, a2, a3⟩ := hasSpec_gffReadLine (b.stream.length + 1) b hc
  unfold gffLine pGffLine
  rcases e1 : gffReadLine (b.stream.length + 1) b with ⟨r1, t1⟩
  rcases e2 : pGffReadLine (b.stream.length + 1) b.stream with ⟨r2, d2⟩
  simp only [e1, e2] at a1 a2 a3
  subst a1 a2
  cases r1 with
  | error e => exact ⟨rfl, rfl, a3⟩
  | ok x => obtain ⟨n, l⟩ := x; exact ⟨rfl, rfl, a3⟩

/-! ### the record loops are `pLoop`s of the twin step -/

theorem lazyRecords_pLoop {rd : RdB LazyRec} {s : SP LazyRec} (h : HasSpec rd s) (fuel : Nat)
    (acc : List LazyRec) (b : BufR UInt8) (hc : 0 < b.cap) :
    (lazyRecords rd fuel acc b).1 = .ok (pLoop (lazyStep s) fuel acc b.stream).1 ∧
    (lazyRecords rd fuel acc b).2.stream = (pLoop (lazyStep s) fuel acc b.stream).2 := by
  induction fuel generalizing acc b with
  | zero => exact ⟨rfl, rfl⟩
  | succ fuel ih =>
    obtain ⟨a1, a2, a3⟩ := h b hc
    simp only [lazyRecords, RdB.bind, RdB.attempt, pLoop, lazyStep]
    rcases e1 : rd b with ⟨r1, t1⟩
    rcases e2 : s b.stream with ⟨r2, d2⟩
    simp only [e1, e2] at a1 a2 a3
    subst a1 a2
    cases r1 with
    | error e => exact ⟨rfl, rfl⟩
    | ok r =>
      simp only
      by_cases hz : r.len = 0
      · rw [if_pos hz, if_pos hz]; exact ⟨rfl, rfl⟩
      · rw [if_neg hz, if_neg hz]; exact ih (r :: acc) t1 (by rw [a3]; exact hc)

theorem parsedLines_pLoop {ρ : Type} {rd : RdB (Option (Nat × ρ))} {s : SP (Option (Nat × ρ))}
    (h : HasSpec rd s) (fuel : Nat) (acc : List (Nat × ρ)) (b : BufR UInt8) (hc : 0 < b.cap) :
    (parsedLines rd fuel acc b).1 = .ok (pLoop s fuel acc b.stream).1 ∧
    (parsedLines rd fuel acc b).2.stream = (pLoop s fuel acc b.stream).2 := by
  induction fuel generalizing acc b with
  | zero => exact ⟨rfl, rfl⟩
  | succ fuel ih =>
    obtain ⟨a1, a2, a3⟩ := h b hc
    simp only [parsedLines, RdB.bind, RdB.attempt, pLoop]
    rcases e1 : rd b with ⟨r1, t1⟩
    rcases e2 : s b.stream with ⟨r2, d2⟩
    simp only [e1, e2] at a1 a2 a3
    subst a1 a2
    cases r1 with
    | error e => exact ⟨rfl, rfl⟩
    | ok o =>
      cases o with
      | none => exact ⟨rfl, rfl⟩
      | some r => exact ih (r :: acc) t1 (by rw [a3]; exact hc)

/-! ## Step 2: lines -/

theorem findSplit_lf_noLF (p : Bytes) (h : noLF p = true) : findSplit (fun x => x == LF) p = none := by
  induction p with
  | nil => rfl
  | cons c t ih =>
    simp only [noLF, List.all_cons, Bool.and_eq_true, Bool.not_eq_true'] at h
    simp only [findSplit, h.1, Bool.false_eq_true, if_false]
    rw [ih h.2]

/-- on LF-free bytes `read_until(LF)` takes everything -/
theorem specUntil_noLF (p : Bytes) (h : noLF p = true) : specUntil (fun x => x == LF) p = (p, []) := by
  simp only [specUntil, findSplit_lf_noLF p h]

theorem noLF_nil : noLF [] = true := rfl

theorem noLF_cons (c : UInt8) (t : Bytes) : noLF (c :: t) = (!(c == LF) && noLF t) := rfl

theorem noLF_append (a b : Bytes) : noLF (a ++ b) = (noLF a && noLF b) := by
  simp only [noLF, List.all_append]

theorem findSplit_lf_line (l : Bytes) (h : IsLine l) :
    ∃ body, findSplit (fun x => x == LF) l = some (body, LF, []) ∧ noLF body = true := by
  induction l with
  | nil => exact absurd h (by simp [IsLine, isLineB])
  | cons c t ih =>
    simp only [IsLine, isLineB] at h
    by_cases hc : (c == LF) = true
    · rw [if_pos hc] at h
      have ht : t = [] := List.isEmpty_iff.mp h
      have hcl : c = LF := by simpa using hc
      subst ht; subst hcl
      exact ⟨[], by simp [findSplit], rfl⟩
    · rw [if_neg hc] at h
      obtain ⟨body, hb, hn⟩ := ih h
      refine ⟨c :: body, ?_, ?_⟩
      · simp only [findSplit, hc, Bool.false_eq_true, if_false, hb]
      · rw [noLF_cons, hn]; simpa using hc

/-- a complete line is LF-free bytes followed by one LF -/
theorem isLine_eq (l : Bytes) (h : IsLine l) : ∃ body, l = body ++ [LF] ∧ noLF body = true := by
  obtain ⟨body, hb, hn⟩ := findSplit_lf_line l h
  exact ⟨body, findSplit_some_eq _ l body [] LF hb, hn⟩

theorem isLine_of_eq (body : Bytes) (hn : noLF body = true) : IsLine (body ++ [LF]) := by
  induction body with
  | nil => decide
  | cons c t ih =>
    rw [noLF_cons, Bool.and_eq_true] at hn
    have hc : (c == LF) = false := by simpa using hn.1
    have := ih hn.2
    simp only [IsLine, List.cons_append, isLineB, hc, Bool.false_eq_true, if_false] at this ⊢
    exact this

theorem mem_iff_noLF (body : Bytes) : LF ∉ body ↔ noLF body = true := by
  simp only [noLF, List.all_eq_true, Bool.not_eq_true', beq_eq_false_iff_ne, ne_eq]
  constructor
  · intro h x hx hxl; exact h (hxl ▸ hx)
  · intro h hm; exact h LF hm rfl

theorem isLine_iff (l : Bytes) : IsLine l ↔ ∃ body, l = body ++ [LF] ∧ LF ∉ body := by
  constructor
  · intro h
    obtain ⟨body, e, hn⟩ := isLine_eq l h
    exact ⟨body, e, (mem_iff_noLF body).mpr hn⟩
  · rintro ⟨body, rfl, hn⟩
    exact isLine_of_eq body ((mem_iff_noLF body).mp hn)

/-- `read_until(LF)` on a complete line followed by anything: exactly the line -/
theorem specUntil_line (l r : Bytes) (h : IsLine l) : specUntil (fun x => x == LF) (l ++ r) = (l, r) := by
  obtain ⟨body, hb, _⟩ := findSplit_lf_line l h
  have e := findSplit_some_eq _ l body [] LF hb
  simp only [specUntil, findSplit_append_some _ l r body [] LF hb, List.nil_append]
  rw [e]

theorem isLine_length_pos (l : Bytes) (h : IsLine l) : 0 < l.length := by
  cases l with
  | nil => exact absurd h (by simp [IsLine, isLineB])
  | cons c t => simp

/-- every strict prefix of a line is LF-free -/
theorem noLF_take_line (l : Bytes) (h : IsLine l) (j : Nat) (hj : j < l.length) : noLF (l.take j) = true := by
  induction l generalizing j with
  | nil => simp at hj
  | cons c t ih =>
    cases j with
    | zero => rfl
    | succ j =>
      simp only [IsLine, isLineB] at h
      simp only [List.length_cons] at hj
      by_cases hc : (c == LF) = true
      · rw [if_pos hc] at h
        have ht : t = [] := List.isEmpty_iff.mp h
        subst ht; simp at hj
      · rw [if_neg hc] at h
        rw [List.take_succ_cons, noLF_cons, ih h j (by omega)]
        simpa using hc

/-- LF-free bytes have no line terminator to strip -/
theorem stripEol_noLF (p : Bytes) (h : noLF p = true) : stripEol p = p := by
  unfold stripEol
  rw [if_neg]
  intro hl
  have hm := List.mem_of_getLast? hl
  exact ((mem_iff_noLF p).mpr h) hm

/-! ### where the cut falls -/

theorem cutPos_eq {β : Type} (fs : List (Bytes × β)) (k : Nat) :
    cutPos fs k = Noodles.Trunc.whole ((fs.map (·.1)).map List.length) k := by
  simp only [cutPos, List.map_map]
  rfl

theorem cutRest_eq {β : Type} (fs : List (Bytes × β)) (t : Bytes) (k : Nat) :
    cutRest fs t k =
      match (fs.map (·.1))[(cutPos fs k).1]? with
      | some l => l.take (cutPos fs k).2
      | none => t.take (cutPos fs k).2 := by
  simp only [cutRest, List.getElem?_map]
  cases h : fs[(cutPos fs k).1]? <;> rfl

theorem map_fst_map {β : Type} (g : Bytes → β) (ls : List Bytes) :
    (ls.map fun l => (l, g l)).map (·.1) = ls := by
  simp only [List.map_map]
  exact List.map_id' ls

theorem cutPos_map {β : Type} (g : Bytes → β) (ls : List Bytes) (k : Nat) :
    cutPos (ls.map fun l => (l, g l)) k = cutPos (lineFrames ls) k := by
  rw [cutPos_eq, cutPos_eq, lineFrames, map_fst_map, map_fst_map]

theorem cutRest_map {β : Type} (g : Bytes → β) (ls : List Bytes) (k : Nat) :
    cutRest (ls.map fun l => (l, g l)) [] k = cutP ls k := by
  rw [cutP, cutRest_eq, cutRest_eq, cutPos_map, lineFrames, map_fst_map, map_fst_map]

/-- the cut text: the whole lines, then what is present of the cut line -/
theorem take_lines (ls : List Bytes) (k : Nat) :
    ls.flatten.take k = (ls.take (cutN ls k)).flatten ++ cutP ls k := by
  have := take_frames (lineFrames ls) [] k
  have h1 : (lineFrames ls).map (·.1) = ls := map_fst_map _ ls
  have h2 : ((lineFrames ls).take (cutPos (lineFrames ls) k).1).map (·.1) = ls.take (cutN ls k) := by
    rw [List.map_take, h1]; rfl
  rw [h1, h2, List.append_nil] at this
  exact this

theorem cutN_le_length (ls : List Bytes) (k : Nat) : cutN ls k ≤ ls.length := by
  have := cutPos_le_length (lineFrames ls) k
  simpa [lineFrames, cutN] using this

/-- what is present of the cut line is nothing, or a strict prefix of that line -/
theorem cutP_cases (ls : List Bytes) (k : Nat) :
    cutP ls k = [] ∨ ∃ l j, ls[cutN ls k]? = some l ∧ j < l.length ∧ cutP ls k = l.take j := by
  have hw := (Noodles.Trunc.whole_spec (ls.map List.length) k).2
  have hp : cutPos (lineFrames ls) k = Noodles.Trunc.whole (ls.map List.length) k := by
    rw [cutPos_eq, lineFrames, map_fst_map]
  rw [cutP, cutRest_eq, cutN, lineFrames, map_fst_map]
  rw [← lineFrames, hp]
  cases hg : ls[(Noodles.Trunc.whole (ls.map List.length) k).1]? with
  | none => left; simp
  | some l =>
    right
    have hlt : (Noodles.Trunc.whole (ls.map List.length) k).1 < ls.length := by
      rcases List.getElem?_eq_some_iff.mp hg with ⟨h, _⟩; exact h
    have := hw (by simpa using hlt)
    rw [List.getD_eq_getElem?_getD, List.getElem?_map, hg] at this
    exact ⟨l, _, rfl, by simpa using this, rfl⟩

theorem cutP_noLF (ls : List Bytes) (hline : ∀ l ∈ ls, IsLine l) (k : Nat) : noLF (cutP ls k) = true := by
  rcases cutP_cases ls k with h | ⟨l, j, hl, hj, h⟩
  · rw [h]; rfl
  · rw [h]
    exact noLF_take_line l (hline l (List.mem_of_getElem? hl)) j hj

theorem length_le_flatten (ls : List Bytes) (h : ∀ l ∈ ls, 0 < l.length) : ls.length ≤ ls.flatten.length := by
  induction ls with
  | nil => simp
  | cons l t ih =>
    have h1 := h l (by simp)
    have h2 := ih (fun x hx => h x (List.mem_cons_of_mem _ hx))
    simp only [List.flatten_cons, List.length_append, List.length_cons]
    omega

/-! ### the generic cut theorem for line-based record loops -/

/-- the whole lines are read as their items; the loop goes on, with enough fuel, on what is present of
the cut line -/
theorem pLoop_lines_cut {β : Type} (st : SP (Option β)) (item : Bytes → β) (ls : List Bytes)
    (hline : ∀ l ∈ ls, IsLine l)
    (hitem : ∀ l ∈ ls, ∀ r, st (l ++ r) = (.ok (some (item l)), r)) (k : Nat) :
    ∃ fuel, (cutP ls k).length + 1 ≤ fuel ∧
      pLoop st ((ls.flatten.take k).length + 1) [] (ls.flatten.take k) =
        pLoop st fuel ((ls.take (cutN ls k)).map item).reverse (cutP ls k) := by
  have hlen : cutN ls k + (cutP ls k).length ≤ (ls.flatten.take k).length := by
    rw [take_lines ls k, List.length_append]
    have h1 := length_le_flatten (ls.take (cutN ls k))
      (fun l hl => isLine_length_pos l (hline l (List.mem_of_mem_take hl)))
    rw [List.length_take_of_le (cutN_le_length ls k)] at h1
    omega
  refine ⟨(ls.flatten.take k).length + 1 - cutN ls k, by omega, ?_⟩
  have hc := pLoop_cut st (ls.map fun l => (l, item l)) []
    (by
      intro p hp r
      obtain ⟨l, hl, rfl⟩ := List.mem_map.mp hp
      exact hitem l hl r)
    k ((ls.flatten.take k).length + 1 - cutN ls k) []
  have h1 : (ls.map fun l => (l, item l)).map (·.1) = ls := map_fst_map item ls
  have h2 : ((ls.map fun l => (l, item l)).take (cutN ls k)).map (·.2) = (ls.take (cutN ls k)).map item := by
    rw [← List.map_take, List.map_map]; rfl
  rw [cutPos_map item ls k, cutRest_map item ls k, h1, List.append_nil] at hc
  change pLoop st ((ls.flatten.take k).length + 1 - cutN ls k + cutN ls k) [] _ = _ at hc
  rw [show (ls.flatten.take k).length + 1 - cutN ls k + cutN ls k = (ls.flatten.take k).length + 1 by omega] at hc
  rw [hc]
  change pLoop st _ ((((ls.map fun l => (l, item l)).take (cutN ls k)).map (·.2)).reverse ++ []) _ = _
  rw [h2, List.append_nil]

/-- **The cut theorem for line-based record loops.** The text is complete lines, each read — whatever
follows — as its item; at the end of input the reader returns `Ok(0)`; on LF-free input a record costs
all the bytes there are. Then the first `k` bytes deliver the items of the whole lines and then ONE
more round of the reader on what is present of the cut line decides: an error, a clean end, or one more
record followed by a clean end. -/
theorem lines_cut {β : Type} (st : SP (Option β)) (item : Bytes → β) (ls : List Bytes)
    (hline : ∀ l ∈ ls, IsLine l)
    (hitem : ∀ l ∈ ls, ∀ r, st (l ++ r) = (.ok (some (item l)), r))
    (h0 : st [] = (.ok none, []))
    (hend : ∀ p r p', noLF p = true → st p = (.ok (some r), p') → p' = []) (k : Nat) :
    (pLoop st ((ls.flatten.take k).length + 1) [] (ls.flatten.take k)).1 =
      cutOutcome ((ls.take (cutN ls k)).map item) (cutP ls k) (st (cutP ls k)).1 := by
  obtain ⟨fuel, hf, he⟩ := pLoop_lines_cut st item ls hline hitem k
  rw [he]
  unfold cutOutcome
  by_cases hp : cutP ls k = []
  · rw [if_pos hp, hp]
    obtain ⟨f, rfl⟩ : ∃ f, fuel = f + 1 := ⟨fuel - 1, by omega⟩
    simp only [pLoop, h0, List.reverse_reverse]
  · rw [if_neg hp]
    have hl : 0 < (cutP ls k).length := List.length_pos_iff.mpr hp
    obtain ⟨f, rfl⟩ : ∃ f, fuel = f + 2 := ⟨fuel - 2, by omega⟩
    have hn := cutP_noLF ls hline k
    rcases e : st (cutP ls k) with ⟨res, p'⟩
    cases res with
    | error x => simp only [pLoop, e, List.reverse_reverse]
    | ok o =>
      cases o with
      | none => simp only [pLoop, e, List.reverse_reverse]
      | some r =>
        have := hend _ r p' hn e
        subst this
        simp only [pLoop, e, h0, List.reverse_cons, List.reverse_reverse]

/-! ## T1: one line, then parse it -/

/-- `read_line` + parse, in terms of what `read_until(LF)` returns -/
theorem pReadParsedLine_of {ρ : Type} (utf8 : Bool) (parse : Bytes → Except Err ρ) (xs a rest : Bytes)
    (hu : specUntil (fun x => x == LF) xs = (a, rest)) :
    pReadParsedLine utf8 parse xs =
      if utf8 = true ∧ Noodles.Index.validUtf8 a = false then (.error .invalidData, rest)
      else if a.length = 0 then (.ok none, rest)
      else match parse (stripEol a) with
        | .error e => (.error e, rest)
        | .ok v => (.ok (some (a.length, v)), rest) := by
  cases utf8 with
  | false =>
    simp only [pReadParsedLine, SP.bind, pReadLineInto, hu, Bool.false_eq_true, if_false, false_and,
      List.nil_append]
    by_cases hz : a.length = 0
    · simp only [hz, if_true]; rfl
    · simp only [hz, if_false]
      cases parse (stripEol a) <;> rfl
  | true =>
    simp only [pReadParsedLine, SP.bind, pReadLineUtf8Into, hu, if_true, true_and, List.nil_append]
    cases hv : Noodles.Index.validUtf8 a with
    | false => simp only [Bool.false_eq_true, if_false, if_true]
    | true =>
      simp only [if_true, Bool.true_eq_false, if_false]
      by_cases hz : a.length = 0
      · simp only [hz, if_true]; rfl
      · simp only [hz, if_false]
        cases parse (stripEol a) <;> rfl

theorem validUtf8_nil : Noodles.Index.validUtf8 [] = true := by
  unfold Noodles.Index.validUtf8; rfl

theorem pReadParsedLine_nil {ρ : Type} (utf8 : Bool) (parse : Bytes → Except Err ρ) :
    pReadParsedLine utf8 parse [] = (.ok none, []) := by
  rw [pReadParsedLine_of utf8 parse [] [] [] (specUntil_noLF [] rfl)]
  rw [if_neg (by rw [validUtf8_nil]; simp), if_pos List.length_nil]

/-- a complete line that is accepted is read as its item, whatever follows -/
theorem pReadParsedLine_line {ρ : Type} (utf8 : Bool) (parse : Bytes → Except Err ρ) (l r : Bytes) (v : ρ)
    (hl : IsLine l) (hu : utf8 = true → Noodles.Index.validUtf8 l = true) (hp : parse (stripEol l) = .ok v) :
    pReadParsedLine utf8 parse (l ++ r) = (.ok (some (l.length, v)), r) := by
  rw [pReadParsedLine_of utf8 parse (l ++ r) l r (specUntil_line l r hl)]
  have hpos := isLine_length_pos l hl
  rw [if_neg (by intro ⟨h1, h2⟩; rw [hu h1] at h2; cases h2), if_neg (by omega), hp]

/-- what is present of a cut line (LF-free, not empty), at the end of the input -/
theorem pReadParsedLine_cut {ρ : Type} (utf8 : Bool) (parse : Bytes → Except Err ρ) (p : Bytes)
    (hn : noLF p = true) (hne : p ≠ []) :
    pReadParsedLine utf8 parse p =
      if utf8 = true ∧ Noodles.Index.validUtf8 p = false then (.error .invalidData, [])
      else match parse p with
        | .error e => (.error e, [])
        | .ok v => (.ok (some (p.length, v)), []) := by
  rw [pReadParsedLine_of utf8 parse p p [] (specUntil_noLF p hn), stripEol_noLF p hn]
  have : ¬ p.length = 0 := by
    have := List.length_pos_iff.mpr hne; omega
  rw [if_neg this]

/-- **T1 (`parsedLinesAll`: fai, crai, SAM / VCF `RecordBuf`, GTF, FASTA definitions).** The text is
complete lines, each accepted by the parser; the input is its first `k` bytes (ANY `k`). The reader
delivers the items of the lines wholly inside the cut, unchanged; then

* the cut is at a line boundary (or beyond the end): a clean end of input;
* `utf8` and what is present of the cut line is not valid UTF-8 (the cut is inside a multi-byte
  character): `InvalidData`;
* the parser rejects what is present of the cut line: that error;
* the parser ACCEPTS what is present of the cut line: it is delivered as one more record — a record
  that was never written — and then a clean end of input. -/
theorem parsedLines_cut {ρ : Type} (utf8 : Bool) (parse : Bytes → Except Err ρ) (item : Bytes → ρ)
    (ls : List Bytes) (hline : ∀ l ∈ ls, IsLine l)
    (hutf : utf8 = true → ∀ l ∈ ls, Noodles.Index.validUtf8 l = true)
    (hparse : ∀ l ∈ ls, parse (stripEol l) = .ok (item l))
    (k : Nat) (b : BufR UInt8) (hc : 0 < b.cap) (hs : b.stream = ls.flatten.take k) :
    (parsedLinesAll utf8 parse b).1 = .ok (
      let items := (ls.take (cutN ls k)).map fun l => (l.length, item l)
      let p := cutP ls k
      if p = [] then (items, none)
      else if utf8 = true ∧ Noodles.Index.validUtf8 p = false then (items, some .invalidData)
      else match parse p with
        | .error e => (items, some e)
        | .ok r => (items ++ [(p.length, r)], none)) := by
  have h1 := (parsedLines_pLoop (hasSpec_readParsedLine utf8 parse) (b.stream.length + 1) [] b hc).1
  unfold parsedLinesAll
  rw [h1, hs]
  congr 1
  rw [lines_cut (pReadParsedLine utf8 parse) (fun l => (l.length, item l)) ls hline
    (fun l hl r => pReadParsedLine_line utf8 parse l r (item l) (hline l hl)
      (fun hu => hutf hu l hl) (hparse l hl))
    (pReadParsedLine_nil utf8 parse)
    (by
      intro p r p' hn he
      by_cases hne : p = []
      · subst hne; rw [pReadParsedLine_nil] at he; cases he
      · rw [pReadParsedLine_cut utf8 parse p hn hne] at he
        split at he
        · cases he
        · split at he <;> cases he
          rfl)
    k]
  simp only [cutOutcome]
  by_cases hp : cutP ls k = []
  · rw [if_pos hp, if_pos hp]
  · rw [if_neg hp, if_neg hp, pReadParsedLine_cut utf8 parse _ (cutP_noLF ls hline k) hp]
    by_cases hv : utf8 = true ∧ Noodles.Index.validUtf8 (cutP ls k) = false
    · rw [if_pos hv, if_pos hv]
    · rw [if_neg hv, if_neg hv]
      cases parse (cutP ls k) <;> rfl

/-- **Corollary (the prefix property, and exactly how it can fail).** Whatever `k`: the items of the
whole lines are a prefix of what is delivered; at most ONE more item is delivered, and only when the
cut is inside a line. -/
theorem parsedLines_cut_prefix {ρ : Type} (utf8 : Bool) (parse : Bytes → Except Err ρ) (item : Bytes → ρ)
    (ls : List Bytes) (hline : ∀ l ∈ ls, IsLine l)
    (hutf : utf8 = true → ∀ l ∈ ls, Noodles.Index.validUtf8 l = true)
    (hparse : ∀ l ∈ ls, parse (stripEol l) = .ok (item l))
    (k : Nat) (b : BufR UInt8) (hc : 0 < b.cap) (hs : b.stream = ls.flatten.take k) :
    ∃ items e, (parsedLinesAll utf8 parse b).1 = .ok (items, e) ∧
      ((ls.take (cutN ls k)).map fun l => (l.length, item l)) <+: items ∧
      items.length ≤ cutN ls k + 1 ∧ (items.length = cutN ls k + 1 → cutP ls k ≠ []) := by
  rw [parsedLines_cut utf8 parse item ls hline hutf hparse k b hc hs]
  have hl : ((ls.take (cutN ls k)).map fun l => (l.length, item l)).length = cutN ls k := by
    rw [List.length_map, List.length_take_of_le (cutN_le_length ls k)]
  simp only
  by_cases hp : cutP ls k = []
  · rw [if_pos hp]
    exact ⟨_, _, rfl, List.prefix_refl _, by omega, by omega⟩
  · rw [if_neg hp]
    by_cases hv : utf8 = true ∧ Noodles.Index.validUtf8 (cutP ls k) = false
    · rw [if_pos hv]
      exact ⟨_, _, rfl, List.prefix_refl _, by omega, fun _ => hp⟩
    · rw [if_neg hv]
      cases parse (cutP ls k) with
      | error e => exact ⟨_, _, rfl, List.prefix_refl _, by omega, fun _ => hp⟩
      | ok r =>
        exact ⟨_, _, rfl, List.prefix_append _ _, by rw [List.length_append, hl]; simp, fun _ => hp⟩

/-- **Witness: a record that was never written.** The GTF raw-line reader (`parse = Ok`) on the text
`"ab\ncd\n"` cut after 4 bytes delivers the lines `"ab"` and `"c"`, and a clean end of input. -/
theorem parsedLines_cut_delivers_partial_line :
    (parsedLinesAll false (fun l => Except.ok l)
      (BufR.ofSrc ⟨([[97, 98, 10], [99, 100, 10]] : List Bytes).flatten.take 4, []⟩ 8)).1
      = .ok ([(3, [97, 98]), (1, [99])], none) := by
  decide +kernel

/-- non-vacuity of `parsedLines_cut`, and the same outcome computed from the theorem's right-hand side -/
example : (∀ l ∈ ([[97, 98, 10], [99, 100, 10]] : List Bytes), IsLine l) ∧
    cutN [[97, 98, 10], [99, 100, 10]] 4 = 1 ∧ cutP [[97, 98, 10], [99, 100, 10]] 4 = [99] := by
  decide


/-- the delimiter search of `read_field` on (the rest of) a complete line: it ends at a TAB inside the
line, or at the line's LF -/
theorem findSplit_delim_line (x : Bytes) (h : IsLine x) :
    ∃ pre d post, findSplit (fun c => c == TAB || c == LF) x = some (pre, d, post) ∧
      ((d = TAB ∧ IsLine post ∧ x.count TAB = post.count TAB + 1) ∨
       (d = LF ∧ post = [] ∧ x.count TAB = 0)) := by
  induction x with
  | nil => exact absurd h (by simp [IsLine, isLineB])
  | cons c t ih =>
    simp only [IsLine, isLineB] at h
    by_cases hc : (c == LF) = true
    · rw [if_pos hc] at h
      have ht : t = [] := List.isEmpty_iff.mp h
      have hcl : c = LF := by simpa using hc
      subst ht; subst hcl
      exact ⟨[], LF, [], by simp [findSplit], Or.inr ⟨rfl, rfl, by decide⟩⟩
    · rw [if_neg hc] at h
      by_cases ht : (c == TAB) = true
      · have hct : c = TAB := by simpa using ht
        subst hct
        exact ⟨[], TAB, t, by simp [findSplit], Or.inl ⟨rfl, h, by simp⟩⟩
      · obtain ⟨pre, d, post, hfs, hcase⟩ := ih h
        have hne : c ≠ TAB := by simpa using ht
        have hcnt : (c :: t).count TAB = t.count TAB := List.count_cons_of_ne hne
        refine ⟨c :: pre, d, post, ?_, ?_⟩
        · simp only [findSplit, hc, ht, Bool.or_self, Bool.false_eq_true, if_false, hfs]
        · rw [hcnt]; exact hcase

theorem findSplit_delim_noLF (p : Bytes) (h : noLF p = true) :
    findSplit (fun c => c == TAB || c == LF) p = none ∨
    ∃ pre post, findSplit (fun c => c == TAB || c == LF) p = some (pre, TAB, post) ∧ noLF post = true := by
  induction p with
  | nil => left; rfl
  | cons c t ih =>
    rw [noLF_cons, Bool.and_eq_true] at h
    have hc : (c == LF) = false := by simpa using h.1
    by_cases ht : (c == TAB) = true
    · have hct : c = TAB := by simpa using ht
      subst hct
      exact Or.inr ⟨[], t, by simp [findSplit], h.2⟩
    · rcases ih h.2 with hn | ⟨pre, post, hfs, hp⟩
      · left; simp only [findSplit, hc, ht, Bool.or_self, Bool.false_eq_true, if_false, hn]
      · right
        exact ⟨c :: pre, post, by simp only [findSplit, hc, ht, Bool.or_self, Bool.false_eq_true, if_false, hfs], hp⟩


theorem specField_split (dst x r pre post : Bytes) (d : UInt8)
    (hfs : findSplit (fun c => c == TAB || c == LF) x = some (pre, d, post)) :
    specField (dst, 0, none) (x ++ r) = ((dst ++ pre, pre.length + 1, some d), post ++ r) := by
  simp only [specField, Option.isSome_none, Bool.false_eq_true, if_false,
    findSplit_append_some _ x r pre post d hfs, Nat.zero_add]

/-- `read_field` on (the rest of) a complete line, whatever follows the line: it stays inside the
line; it ends at a TAB (the rest of the line is left) or at the LF (nothing of the line is left) -/
theorem pReadFieldInto_line (dst x : Bytes) (h : IsLine x) :
    ∃ d' n e x', (∀ r, pReadFieldInto dst (x ++ r) = (.ok (d', n, e), x' ++ r)) ∧
      n + x'.length = x.length ∧
      ((e = false ∧ IsLine x' ∧ x.count TAB = x'.count TAB + 1) ∨
       (e = true ∧ x' = [] ∧ x.count TAB = 0)) ∧
      (∀ c ∈ d', c ∈ dst ∨ c ∈ x) ∧ (∀ c ∈ x', c ∈ x) := by
  obtain ⟨pre, d, post, hfs, hcase⟩ := findSplit_delim_line x h
  have hx := findSplit_some_eq _ x pre post d hfs
  have hlen : pre.length + 1 + post.length = x.length := by rw [hx]; simp; omega
  have hmem1 : ∀ c ∈ dst ++ pre, c ∈ dst ∨ c ∈ x := by
    intro c hc
    rcases List.mem_append.mp hc with h1 | h1
    · exact Or.inl h1
    · exact Or.inr (by rw [hx]; exact List.mem_append_left _ h1)
  have hmem2 : ∀ c ∈ post, c ∈ x := by
    intro c hc; rw [hx]; exact List.mem_append_right _ (List.mem_cons_of_mem _ hc)
  rcases hcase with ⟨rfl, hpost, hcnt⟩ | ⟨rfl, rfl, hcnt⟩
  · refine ⟨dst ++ pre, pre.length + 1, false, post, ?_, hlen, Or.inl ⟨rfl, hpost, hcnt⟩, hmem1, hmem2⟩
    intro r
    have hb : (some TAB == some LF) = false := by decide
    simp only [pReadFieldInto, specField_split dst x r pre post TAB hfs, hb, Bool.false_and,
      Bool.false_eq_true, if_false]
  · refine ⟨if ((dst ++ pre).drop dst.length).getLast? == some CR then (dst ++ pre).dropLast else dst ++ pre,
      pre.length + 1, true, [], ?_, hlen, Or.inr ⟨rfl, rfl, hcnt⟩, ?_, hmem2⟩
    · intro r
      have hb : (some LF == some LF) = true := by decide
      simp only [pReadFieldInto, specField_split dst x r pre [] LF hfs, hb, Bool.true_and]
    · intro c hc
      split at hc
      · exact hmem1 c (List.dropLast_subset _ hc)
      · exact hmem1 c hc

theorem specField_none (dst p : Bytes)
    (hfs : findSplit (fun c => c == TAB || c == LF) p = none) :
    specField (dst, 0, none) p = ((dst ++ p, p.length, none), []) := by
  simp only [specField, Option.isSome_none, Bool.false_eq_true, if_false, hfs, Nat.zero_add]

/-- `read_field` on LF-free bytes at the end of the input: never the end of a line -/
theorem pReadFieldInto_noLF (dst p : Bytes) (h : noLF p = true) :
    ∃ d' n p', pReadFieldInto dst p = (.ok (d', n, false), p') ∧ n + p'.length = p.length ∧
      noLF p' = true ∧ (∀ c ∈ d', c ∈ dst ∨ c ∈ p) ∧ (∀ c ∈ p', c ∈ p) := by
  have hb : ((none : Option UInt8) == some LF) = false := by decide
  have hb2 : (some TAB == some LF) = false := by decide
  rcases findSplit_delim_noLF p h with hn | ⟨pre, post, hfs, hp⟩
  · refine ⟨dst ++ p, p.length, [], ?_, by simp, rfl, ?_, by simp⟩
    · simp only [pReadFieldInto, specField_none dst p hn, hb, Bool.false_and, Bool.false_eq_true, if_false]
    · intro c hc
      rcases List.mem_append.mp hc with h1 | h1
      · exact Or.inl h1
      · exact Or.inr h1
  · have hx := findSplit_some_eq _ p pre post TAB hfs
    have hsp := specField_split dst p [] pre post TAB hfs
    rw [List.append_nil, List.append_nil] at hsp
    refine ⟨dst ++ pre, pre.length + 1, post, ?_, by rw [hx]; simp; omega, hp, ?_, ?_⟩
    · simp only [pReadFieldInto, hsp, hb2, Bool.false_and, Bool.false_eq_true, if_false]
    · intro c hc
      rcases List.mem_append.mp hc with h1 | h1
      · exact Or.inl h1
      · exact Or.inr (by rw [hx]; exact List.mem_append_left _ h1)
    · intro c hc; rw [hx]; exact List.mem_append_right _ (List.mem_cons_of_mem _ hc)


/-! ## T2: the lazy SAM record reader -/

/-- `k` required fields on (the rest of) a complete line: `InvalidData` when the line has fewer than
`k` TABs left (a required field ends the line), else `k` fields and the rest of the line -/
theorem pSamRequiredFields_line (k : Nat) (dst : Bytes) (ends : List Nat) (len : Nat) (x : Bytes)
    (h : IsLine x) :
    (x.count TAB < k ∧ ∀ r, pSamRequiredFields k dst ends len (x ++ r) = (.error .invalidData, r)) ∨
    (∃ d' ends' n x', (∀ r, pSamRequiredFields k dst ends len (x ++ r) = (.ok (d', ends', len + n), x' ++ r)) ∧
      n + x'.length = x.length ∧ IsLine x' ∧ x.count TAB = x'.count TAB + k) := by
  induction k generalizing dst ends len x with
  | zero =>
    right
    exact ⟨dst, ends, 0, x, fun r => rfl, by simp, h, rfl⟩
  | succ k ih =>
    obtain ⟨d1, n1, e1, x1, hf, hl1, hcase, _, _⟩ := pReadFieldInto_line dst x h
    rcases hcase with ⟨rfl, hx1, hcnt⟩ | ⟨rfl, rfl, hcnt⟩
    · rcases ih d1 (d1.length :: ends) (len + n1) x1 hx1 with ⟨hlt, he⟩ | ⟨d', ends', n, x', he, hl2, hx', hcnt2⟩
      · left
        refine ⟨by omega, fun r => ?_⟩
        simp only [pSamRequiredFields, pSamRequiredField, SP.bind, hf r, Bool.false_eq_true, if_false,
          SP.pure, he r]
      · right
        refine ⟨d', ends', n1 + n, x', fun r => ?_, by omega, hx', by omega⟩
        simp only [pSamRequiredFields, pSamRequiredField, SP.bind, hf r, Bool.false_eq_true, if_false,
          SP.pure, he r, Nat.add_assoc]
    · left
      refine ⟨by omega, fun r => ?_⟩
      simp only [pSamRequiredFields, pSamRequiredField, SP.bind, hf r, if_true, SP.fail, List.nil_append]

/-- **The lazy SAM reader on a complete line, whatever follows it**: it reads exactly the line; the
result is `InvalidData` when the line has fewer than 10 TABs (11 fields), else a record of `len` = the
length of the line. -/
theorem pSamReadRecord_line (l : Bytes) (h : IsLine l) :
    ∃ res, (∀ r, pSamReadRecord (l ++ r) = (res, r)) ∧
      ((l.count TAB < 10 ∧ res = .error .invalidData) ∨
       (10 ≤ l.count TAB ∧ ∃ rec, res = .ok rec ∧ rec.len = l.length)) := by
  rcases pSamRequiredFields_line 10 [] [] 0 l h with ⟨hlt, he⟩ | ⟨d, ends, n, x, he, hl, hx, hcnt⟩
  · refine ⟨.error .invalidData, fun r => ?_, Or.inl ⟨hlt, rfl⟩⟩
    simp only [pSamReadRecord, SP.bind, he r]
  · obtain ⟨d1, n1, e1, x1, hf, hl1, hcase, _, _⟩ := pReadFieldInto_line d x hx
    rcases hcase with ⟨rfl, hx1, _⟩ | ⟨rfl, rfl, _⟩
    · refine ⟨.ok ⟨0 + n + n1 + x1.length, d1 ++ stripEol x1, (d1.length :: ends).reverse⟩, fun r => ?_,
        Or.inr ⟨by omega, _, rfl, by simp only; omega⟩⟩
      simp only [pSamReadRecord, SP.bind, he r, hf r, Bool.false_eq_true, if_false, pReadLineInto,
        specUntil_line x1 r hx1, SP.pure]
    · refine ⟨.ok ⟨0 + n + n1, d1, (d1.length :: ends).reverse⟩, fun r => ?_,
        Or.inr ⟨by omega, _, rfl, by simp only; simp at hl1; omega⟩⟩
      simp only [pSamReadRecord, SP.bind, he r, hf r, if_true, SP.pure, List.nil_append]

/-- the lazy SAM reader never reads past the line -/
theorem pSamReadRecord_local (l r : Bytes) (h : IsLine l) :
    pSamReadRecord (l ++ r) = ((pSamReadRecord l).1, r) := by
  obtain ⟨res, he, _⟩ := pSamReadRecord_line l h
  have := he []
  rw [List.append_nil] at this
  rw [he r, this]

theorem pSamRequiredFields_noLF (k : Nat) (dst : Bytes) (ends : List Nat) (len : Nat) (p : Bytes)
    (h : noLF p = true) :
    ∃ d' ends' n p', pSamRequiredFields k dst ends len p = (.ok (d', ends', len + n), p') ∧
      n + p'.length = p.length ∧ noLF p' = true := by
  induction k generalizing dst ends len p with
  | zero => exact ⟨dst, ends, 0, p, rfl, by simp, h⟩
  | succ k ih =>
    obtain ⟨d1, n1, p1, hf, hl1, hp1, _, _⟩ := pReadFieldInto_noLF dst p h
    obtain ⟨d', ends', n, p', he, hl2, hp'⟩ := ih d1 (d1.length :: ends) (len + n1) p1 hp1
    refine ⟨d', ends', n1 + n, p', ?_, by omega, hp'⟩
    simp only [pSamRequiredFields, pSamRequiredField, SP.bind, hf, Bool.false_eq_true, if_false,
      SP.pure, he, Nat.add_assoc]

/-- **The lazy SAM reader on LF-free bytes at the end of the input** (what is present of a cut line):
NEVER an error — a required field fails only when it hits the LF —; a record of `len` = the number of
bytes present, and everything is used up. -/
theorem pSamReadRecord_noLF (p : Bytes) (h : noLF p = true) :
    ∃ rec, pSamReadRecord p = (.ok rec, []) ∧ rec.len = p.length := by
  obtain ⟨d, ends, n, p1, he, hl, hp1⟩ := pSamRequiredFields_noLF 10 [] [] 0 p h
  obtain ⟨d1, n1, p2, hf, hl1, hp2, _, _⟩ := pReadFieldInto_noLF d p1 hp1
  refine ⟨⟨0 + n + n1 + p2.length, d1 ++ stripEol p2, (d1.length :: ends).reverse⟩, ?_, by simp only; omega⟩
  simp only [pSamReadRecord, SP.bind, he, hf, Bool.false_eq_true, if_false, pReadLineInto,
    specUntil_noLF p2 hp2, SP.pure]


theorem samRecOfLine_line (l : Bytes) (h : IsLine l) (ht : 10 ≤ l.count TAB) :
    (∀ r, pSamReadRecord (l ++ r) = (.ok (samRecOfLine l), r)) ∧ (samRecOfLine l).len = l.length := by
  obtain ⟨res, he, hcase⟩ := pSamReadRecord_line l h
  rcases hcase with ⟨hlt, _⟩ | ⟨_, rec, rfl, hlen⟩
  · omega
  · have h0 := he []
    rw [List.append_nil] at h0
    have : samRecOfLine l = rec := by simp only [samRecOfLine, h0]
    rw [this]
    exact ⟨he, hlen⟩

theorem samRecOfLine_noLF (p : Bytes) (h : noLF p = true) :
    pSamReadRecord p = (.ok (samRecOfLine p), []) ∧ (samRecOfLine p).len = p.length := by
  obtain ⟨rec, he, hlen⟩ := pSamReadRecord_noLF p h
  have : samRecOfLine p = rec := by simp only [samRecOfLine, he]
  rw [this]
  exact ⟨he, hlen⟩

/-- **T2 (`samRecordsAll`, the lazy SAM record reader).** The text is complete lines with at least 10
TABs each (11 fields: exactly the lines the reader accepts, `pSamReadRecord_line`); the input is its
first `k` bytes (ANY `k`). The reader delivers the records of the lines wholly inside the cut,
unchanged; then, when the cut is inside a line, it ALWAYS delivers what is present of that line as one
more record (`samRecOfLine_noLF`: never an error, `len` = the number of bytes present) — a record that
was never written — and then a clean end of input. -/
theorem sam_lazy_cut (ls : List Bytes) (hline : ∀ l ∈ ls, IsLine l) (htab : ∀ l ∈ ls, 10 ≤ l.count TAB)
    (k : Nat) (b : BufR UInt8) (hc : 0 < b.cap) (hs : b.stream = ls.flatten.take k) :
    (samRecordsAll b).1 = .ok (
      if cutP ls k = [] then ((ls.take (cutN ls k)).map samRecOfLine, none)
      else ((ls.take (cutN ls k)).map samRecOfLine ++ [samRecOfLine (cutP ls k)], none)) := by
  have h1 := (lazyRecords_pLoop hasSpec_samReadRecord (b.stream.length + 1) [] b hc).1
  unfold samRecordsAll
  rw [h1, hs]
  congr 1
  have hnil : lazyStep pSamReadRecord [] = (.ok none, []) := by
    obtain ⟨e1, e2⟩ := samRecOfLine_noLF [] rfl
    simp only [lazyStep, e1]
    rw [if_pos (by rw [e2]; rfl)]
  rw [lines_cut (lazyStep pSamReadRecord) samRecOfLine ls hline
    (by
      intro l hl r
      obtain ⟨e1, e2⟩ := samRecOfLine_line l (hline l hl) (htab l hl)
      have := isLine_length_pos l (hline l hl)
      simp only [lazyStep, e1 r]
      rw [if_neg (by omega)])
    hnil
    (by
      intro p r p' hn he
      obtain ⟨e1, _⟩ := samRecOfLine_noLF p hn
      simp only [lazyStep, e1] at he
      exact (Prod.mk.inj he).2.symm)
    k]
  simp only [cutOutcome]
  by_cases hp : cutP ls k = []
  · rw [if_pos hp, if_pos hp]
  · rw [if_neg hp, if_neg hp]
    obtain ⟨e1, e2⟩ := samRecOfLine_noLF (cutP ls k) (cutP_noLF ls hline k)
    have : 0 < (cutP ls k).length := List.length_pos_iff.mpr hp
    simp only [lazyStep, e1]
    rw [if_neg (by omega)]


/-! ## T3: the lazy VCF record reader -/

theorem isAscii_iff (p : Bytes) : isAscii p = true ↔ Asc p := by
  simp only [isAscii, Asc, List.all_eq_true, decide_eq_true_eq]

theorem validUtf8_cons_ascii (c : UInt8) (t : Bytes) (h1 : c.toNat < 0x80) :
    validUtf8 (c :: t) = validUtf8 t := by
  conv => lhs; unfold validUtf8
  simp only [h1, if_true]

theorem validUtf8_of_asc (p : Bytes) (h : Asc p) : validUtf8 p = true := by
  induction p with
  | nil => exact validUtf8_nil
  | cons c t ih =>
    have h1 : c.toNat < 0x80 := h c (by simp)
    have h2 : Asc t := fun x hx => h x (List.mem_cons_of_mem _ hx)
    rw [validUtf8_cons_ascii c t h1]
    exact ih h2

theorem asc_of_mem {d dst x : Bytes} (hm : ∀ c ∈ d, c ∈ dst ∨ c ∈ x) (h1 : Asc dst) (h2 : Asc x) : Asc d := by
  intro c hc
  rcases hm c hc with h | h
  · exact h1 c h
  · exact h2 c h

theorem asc_of_sub {x' x : Bytes} (hm : ∀ c ∈ x', c ∈ x) (h : Asc x) : Asc x' :=
  fun c hc => h c (hm c hc)

theorem asc_nil : Asc [] := fun c hc => by cases hc

/-- `k` required VCF fields on (the rest of) a complete line: the reader stays inside the line; it fails
(`InvalidData`) when the buffer is not valid UTF-8 after a field or a required field ends the line —
which does not happen on ASCII bytes with at least `k` TABs left -/
theorem pVcfRequiredFields_line (k : Nat) (dst : Bytes) (ends : List Nat) (len : Nat) (x : Bytes)
    (h : IsLine x) :
    (∃ x', (∀ r, pVcfRequiredFields k dst ends len (x ++ r) = (.error .invalidData, x' ++ r)) ∧
      ¬ (Asc dst ∧ Asc x ∧ k ≤ x.count TAB)) ∨
    (∃ d' ends' n x', (∀ r, pVcfRequiredFields k dst ends len (x ++ r) = (.ok (d', ends', len + n), x' ++ r)) ∧
      n + x'.length = x.length ∧ IsLine x' ∧ x.count TAB = x'.count TAB + k ∧
      (∀ c ∈ d', c ∈ dst ∨ c ∈ x) ∧ (∀ c ∈ x', c ∈ x)) := by
  induction k generalizing dst ends len x with
  | zero =>
    right
    exact ⟨dst, ends, 0, x, fun r => rfl, by simp, h, rfl, fun c hc => Or.inl hc, fun c hc => hc⟩
  | succ k ih =>
    obtain ⟨d1, n1, e1, x1, hf, hl1, hcase, hm1, hm2⟩ := pReadFieldInto_line dst x h
    by_cases hv : validUtf8 d1 = true
    · rcases hcase with ⟨rfl, hx1, hcnt⟩ | ⟨rfl, rfl, hcnt⟩
      · rcases ih d1 (d1.length :: ends) (len + n1) x1 hx1 with ⟨x', he, hno⟩ | ⟨d', ends', n, x', he, hl2, hx', hcnt2, hm3, hm4⟩
        · left
          refine ⟨x', fun r => ?_, ?_⟩
          · simp only [pVcfRequiredFields, pVcfRequiredField, pVcfReadFieldInto, SP.bind, hf r, hv, if_true,
              Bool.false_eq_true, if_false, SP.pure, he r]
          · intro ⟨a1, a2, a3⟩
            exact hno ⟨asc_of_mem hm1 a1 a2, asc_of_sub hm2 a2, by omega⟩
        · right
          refine ⟨d', ends', n1 + n, x', fun r => ?_, by omega, hx', by omega, ?_, fun c hc => hm2 c (hm4 c hc)⟩
          · simp only [pVcfRequiredFields, pVcfRequiredField, pVcfReadFieldInto, SP.bind, hf r, hv, if_true,
              Bool.false_eq_true, if_false, SP.pure, he r, Nat.add_assoc]
          · intro c hc
            rcases hm3 c hc with h3 | h3
            · exact hm1 c h3
            · exact Or.inr (hm2 c h3)
      · left
        refine ⟨[], fun r => ?_, ?_⟩
        · simp only [pVcfRequiredFields, pVcfRequiredField, pVcfReadFieldInto, SP.bind, hf r, hv, if_true,
            SP.pure, SP.fail]
        · intro ⟨_, _, a3⟩; omega
    · left
      refine ⟨x1, fun r => ?_, ?_⟩
      · simp only [pVcfRequiredFields, pVcfRequiredField, pVcfReadFieldInto, SP.bind, hf r, hv,
          Bool.false_eq_true, if_false, SP.fail]
      · intro ⟨a1, a2, _⟩
        exact hv (validUtf8_of_asc d1 (asc_of_mem hm1 a1 a2))

/-- **The lazy VCF reader on a complete line, whatever follows it**: it stays inside the line; a record
costs exactly the line and has `len` = the length of the line; an ASCII line with at least 7 TABs
(8 fields) is a record. -/
theorem pVcfReadRecord_line (l : Bytes) (h : IsLine l) :
    ∃ res x', (∀ r, pVcfReadRecord (l ++ r) = (res, x' ++ r)) ∧
      (∀ rec, res = .ok rec → x' = [] ∧ rec.len = l.length) ∧
      (Asc l → 7 ≤ l.count TAB → ∃ rec, res = .ok rec) := by
  rcases pVcfRequiredFields_line 7 [] [] 0 l h with ⟨x', he, hno⟩ | ⟨d, ends, n, x, he, hl, hx, hcnt, hm3, hm4⟩
  · refine ⟨.error .invalidData, x', fun r => ?_, (fun rec hr => by cases hr), fun a1 a2 => ?_⟩
    · simp only [pVcfReadRecord, SP.bind, he r]
    · exact absurd ⟨asc_nil, a1, a2⟩ hno
  · obtain ⟨d1, n1, e1, x1, hf, hl1, hcase, hm1, hm2⟩ := pReadFieldInto_line d x hx
    have hascd : Asc l → Asc d := fun a => asc_of_mem hm3 asc_nil a
    have hascx : Asc l → Asc x := fun a => asc_of_sub hm4 a
    by_cases hv : validUtf8 d1 = true
    · rcases hcase with ⟨rfl, hx1, _⟩ | ⟨rfl, rfl, _⟩
      · by_cases hv2 : validUtf8 x1 = true
        · refine ⟨.ok ⟨0 + n + n1 + x1.length, d1 ++ stripEol x1, (d1.length :: ends).reverse⟩, [], fun r => ?_,
            fun rec hr => ⟨rfl, by cases hr; simp only; omega⟩, fun _ _ => ⟨_, rfl⟩⟩
          simp only [pVcfReadRecord, pVcfReadFieldInto, SP.bind, he r, hf r, hv, if_true, Bool.false_eq_true,
            if_false, pReadLineUtf8Into, specUntil_line x1 r hx1, hv2, SP.pure, List.nil_append]
        · refine ⟨.error .invalidData, [], fun r => ?_, (fun rec hr => by cases hr), fun a1 _ => ?_⟩
          · simp only [pVcfReadRecord, pVcfReadFieldInto, SP.bind, he r, hf r, hv, if_true, Bool.false_eq_true,
              if_false, pReadLineUtf8Into, specUntil_line x1 r hx1, hv2, SP.pure, List.nil_append]
          · exact absurd (validUtf8_of_asc x1 (asc_of_sub hm2 (hascx a1))) hv2
      · refine ⟨.ok ⟨0 + n + n1, d1, (d1.length :: ends).reverse⟩, [], fun r => ?_,
          fun rec hr => ⟨rfl, by cases hr; simp only; simp at hl1; omega⟩, fun _ _ => ⟨_, rfl⟩⟩
        simp only [pVcfReadRecord, pVcfReadFieldInto, SP.bind, he r, hf r, hv, if_true, SP.pure]
    · refine ⟨.error .invalidData, x1, fun r => ?_, (fun rec hr => by cases hr), fun a1 _ => ?_⟩
      · simp only [pVcfReadRecord, pVcfReadFieldInto, SP.bind, he r, hf r, hv, Bool.false_eq_true, if_false,
          SP.fail]
      · exact absurd (validUtf8_of_asc d1 (asc_of_mem hm1 (hascd a1) (hascx a1))) hv

theorem pVcfRequiredFields_noLF (k : Nat) (dst : Bytes) (ends : List Nat) (len : Nat) (p : Bytes)
    (h : noLF p = true) :
    (∃ p', pVcfRequiredFields k dst ends len p = (.error .invalidData, p') ∧ ¬ (Asc dst ∧ Asc p)) ∨
    (∃ d' ends' n p', pVcfRequiredFields k dst ends len p = (.ok (d', ends', len + n), p') ∧
      n + p'.length = p.length ∧ noLF p' = true ∧ (∀ c ∈ d', c ∈ dst ∨ c ∈ p) ∧ (∀ c ∈ p', c ∈ p)) := by
  induction k generalizing dst ends len p with
  | zero => exact Or.inr ⟨dst, ends, 0, p, rfl, by simp, h, fun c hc => Or.inl hc, fun c hc => hc⟩
  | succ k ih =>
    obtain ⟨d1, n1, p1, hf, hl1, hp1, hm1, hm2⟩ := pReadFieldInto_noLF dst p h
    by_cases hv : validUtf8 d1 = true
    · rcases ih d1 (d1.length :: ends) (len + n1) p1 hp1 with ⟨p', he, hno⟩ | ⟨d', ends', n, p', he, hl2, hp', hm3, hm4⟩
      · left
        refine ⟨p', ?_, ?_⟩
        · simp only [pVcfRequiredFields, pVcfRequiredField, pVcfReadFieldInto, SP.bind, hf, hv, if_true,
            Bool.false_eq_true, if_false, SP.pure, he]
        · intro ⟨a1, a2⟩
          exact hno ⟨asc_of_mem hm1 a1 a2, asc_of_sub hm2 a2⟩
      · right
        refine ⟨d', ends', n1 + n, p', ?_, by omega, hp', ?_, fun c hc => hm2 c (hm4 c hc)⟩
        · simp only [pVcfRequiredFields, pVcfRequiredField, pVcfReadFieldInto, SP.bind, hf, hv, if_true,
            Bool.false_eq_true, if_false, SP.pure, he, Nat.add_assoc]
        · intro c hc
          rcases hm3 c hc with h3 | h3
          · exact hm1 c h3
          · exact Or.inr (hm2 c h3)
    · left
      refine ⟨p1, ?_, ?_⟩
      · simp only [pVcfRequiredFields, pVcfRequiredField, pVcfReadFieldInto, SP.bind, hf, hv,
          Bool.false_eq_true, if_false, SP.fail]
      · intro ⟨a1, a2⟩
        exact hv (validUtf8_of_asc d1 (asc_of_mem hm1 a1 a2))

/-- **The lazy VCF reader on LF-free bytes at the end of the input** (what is present of a cut line):
a record of `len` = the number of bytes present, everything used up — or `InvalidData` (the buffer, or
the rest of the line, is not valid UTF-8), which does not happen on ASCII bytes. -/
theorem pVcfReadRecord_noLF (p : Bytes) (h : noLF p = true) :
    (∃ p', pVcfReadRecord p = (.error .invalidData, p') ∧ ¬ Asc p) ∨
    (∃ rec, pVcfReadRecord p = (.ok rec, []) ∧ rec.len = p.length) := by
  rcases pVcfRequiredFields_noLF 7 [] [] 0 p h with ⟨p', he, hno⟩ | ⟨d, ends, n, p1, he, hl, hp1, hm3, hm4⟩
  · left
    refine ⟨p', ?_, fun a => hno ⟨asc_nil, a⟩⟩
    simp only [pVcfReadRecord, SP.bind, he]
  · obtain ⟨d1, n1, p2, hf, hl1, hp2, hm1, hm2⟩ := pReadFieldInto_noLF d p1 hp1
    have hascd : Asc p → Asc d := fun a => asc_of_mem hm3 asc_nil a
    have hascx : Asc p → Asc p1 := fun a => asc_of_sub hm4 a
    by_cases hv : validUtf8 d1 = true
    · by_cases hv2 : validUtf8 p2 = true
      · right
        refine ⟨⟨0 + n + n1 + p2.length, d1 ++ stripEol p2, (d1.length :: ends).reverse⟩, ?_, by simp only; omega⟩
        simp only [pVcfReadRecord, pVcfReadFieldInto, SP.bind, he, hf, hv, if_true, Bool.false_eq_true,
          if_false, pReadLineUtf8Into, specUntil_noLF p2 hp2, hv2, SP.pure]
      · left
        refine ⟨[], ?_, fun a => ?_⟩
        · simp only [pVcfReadRecord, pVcfReadFieldInto, SP.bind, he, hf, hv, if_true, Bool.false_eq_true,
            if_false, pReadLineUtf8Into, specUntil_noLF p2 hp2, hv2, SP.pure]
        · exact absurd (validUtf8_of_asc p2 (asc_of_sub hm2 (hascx a))) hv2
    · left
      refine ⟨p2, ?_, fun a => ?_⟩
      · simp only [pVcfReadRecord, pVcfReadFieldInto, SP.bind, he, hf, hv, Bool.false_eq_true, if_false,
          SP.fail]
      · exact absurd (validUtf8_of_asc d1 (asc_of_mem hm1 (hascd a) (hascx a))) hv


/-- an accepted complete line is read as its record, whatever follows -/
theorem vcfRecOfLine_line (l : Bytes) (h : IsLine l) (hok : ∃ rec, (pVcfReadRecord l).1 = .ok rec) :
    (∀ r, pVcfReadRecord (l ++ r) = (.ok (vcfRecOfLine l), r)) ∧ (vcfRecOfLine l).len = l.length := by
  obtain ⟨res, x', he, hrec, _⟩ := pVcfReadRecord_line l h
  obtain ⟨rec, hr⟩ := hok
  have h0 := he []
  rw [List.append_nil] at h0
  rw [h0] at hr
  simp only at hr
  subst hr
  obtain ⟨rfl, hlen⟩ := hrec rec rfl
  have : vcfRecOfLine l = rec := by simp only [vcfRecOfLine, h0]
  rw [this]
  exact ⟨fun r => by rw [he r, List.nil_append], hlen⟩

/-- an ASCII line with at least 7 TABs (8 fields) is accepted -/
theorem vcf_line_accepted (l : Bytes) (h : IsLine l) (ha : isAscii l = true) (ht : 7 ≤ l.count TAB) :
    ∃ rec, (pVcfReadRecord l).1 = .ok rec := by
  obtain ⟨res, x', he, _, hacc⟩ := pVcfReadRecord_line l h
  obtain ⟨rec, hr⟩ := hacc ((isAscii_iff l).mp ha) ht
  have h0 := he []
  rw [List.append_nil] at h0
  exact ⟨rec, by rw [h0, hr]⟩

/-- what is present of a cut line: the only error is `InvalidData`, and only when a byte is not ASCII -/
theorem vcf_cut_error (p : Bytes) (h : noLF p = true) (e : Err) (he : (pVcfReadRecord p).1 = .error e) :
    e = .invalidData ∧ isAscii p = false := by
  rcases pVcfReadRecord_noLF p h with ⟨p', h1, hna⟩ | ⟨rec, h1, _⟩
  · rw [h1] at he
    simp only [Except.error.injEq] at he
    refine ⟨he.symm, ?_⟩
    cases ha : isAscii p with
    | false => rfl
    | true => exact absurd ((isAscii_iff p).mp ha) hna
  · rw [h1] at he; cases he

/-- ASCII bytes present of a cut line are ALWAYS a record (`len` = the number of bytes present) -/
theorem vcf_cut_ascii (p : Bytes) (h : noLF p = true) (ha : isAscii p = true) :
    pVcfReadRecord p = (.ok (vcfRecOfLine p), []) ∧ (vcfRecOfLine p).len = p.length := by
  rcases pVcfReadRecord_noLF p h with ⟨p', _, hna⟩ | ⟨rec, h1, hlen⟩
  · exact absurd ((isAscii_iff p).mp ha) hna
  · have : vcfRecOfLine p = rec := by simp only [vcfRecOfLine, h1]
    rw [this]
    exact ⟨h1, hlen⟩

/-- **T3 (`vcfRecordsAll`, the lazy VCF record reader).** The text is complete lines, each accepted by
the reader (`vcf_line_accepted`: e.g. ASCII with at least 7 TABs); the input is its first `k` bytes
(ANY `k`). The reader delivers the records of the lines wholly inside the cut, unchanged; then, when
the cut is inside a line, ONE more round of the reader on the bytes present decides: they are
delivered as one more record — a record that was never written — followed by a clean end of input,
or the round fails. By `vcf_cut_error` the only failure is `InvalidData` and needs a non-ASCII byte
(the buffer is validated as UTF-8: a cut inside a multi-byte character); by `vcf_cut_ascii` ASCII bytes
are always delivered. -/
theorem vcf_lazy_cut (ls : List Bytes) (hline : ∀ l ∈ ls, IsLine l)
    (hacc : ∀ l ∈ ls, ∃ rec, (pVcfReadRecord l).1 = .ok rec)
    (k : Nat) (b : BufR UInt8) (hc : 0 < b.cap) (hs : b.stream = ls.flatten.take k) :
    (vcfRecordsAll b).1 = .ok (
      if cutP ls k = [] then ((ls.take (cutN ls k)).map vcfRecOfLine, none)
      else match (pVcfReadRecord (cutP ls k)).1 with
        | .ok r => ((ls.take (cutN ls k)).map vcfRecOfLine ++ [r], none)
        | .error e => ((ls.take (cutN ls k)).map vcfRecOfLine, some e)) := by
  have h1 := (lazyRecords_pLoop hasSpec_vcfReadRecord (b.stream.length + 1) [] b hc).1
  unfold vcfRecordsAll
  rw [h1, hs]
  congr 1
  have hnil : lazyStep pVcfReadRecord [] = (.ok none, []) := by
    obtain ⟨e1, e2⟩ := vcf_cut_ascii [] rfl rfl
    simp only [lazyStep, e1]
    rw [if_pos (by rw [e2]; rfl)]
  rw [lines_cut (lazyStep pVcfReadRecord) vcfRecOfLine ls hline
    (by
      intro l hl r
      obtain ⟨e1, e2⟩ := vcfRecOfLine_line l (hline l hl) (hacc l hl)
      have := isLine_length_pos l (hline l hl)
      simp only [lazyStep, e1 r]
      rw [if_neg (by omega)])
    hnil
    (by
      intro p r p' hn he
      rcases pVcfReadRecord_noLF p hn with ⟨p'', e1, _⟩ | ⟨rec, e1, _⟩
      · simp only [lazyStep, e1] at he
        cases he
      · simp only [lazyStep, e1] at he
        exact (Prod.mk.inj he).2.symm)
    k]
  simp only [cutOutcome]
  by_cases hp : cutP ls k = []
  · rw [if_pos hp, if_pos hp]
  · rw [if_neg hp, if_neg hp]
    have hl : 0 < (cutP ls k).length := List.length_pos_iff.mpr hp
    rcases pVcfReadRecord_noLF (cutP ls k) (cutP_noLF ls hline k) with ⟨p'', e1, _⟩ | ⟨rec, e1, e2⟩
    · simp only [lazyStep, e1]
    · simp only [lazyStep, e1]
      rw [if_neg (by omega)]

/-- T3 on ASCII texts: the cut line is ALWAYS delivered as a record -/
theorem vcf_lazy_cut_ascii (ls : List Bytes) (hline : ∀ l ∈ ls, IsLine l)
    (hasc : ∀ l ∈ ls, isAscii l = true) (htab : ∀ l ∈ ls, 7 ≤ l.count TAB)
    (k : Nat) (b : BufR UInt8) (hc : 0 < b.cap) (hs : b.stream = ls.flatten.take k) :
    (vcfRecordsAll b).1 = .ok (
      if cutP ls k = [] then ((ls.take (cutN ls k)).map vcfRecOfLine, none)
      else ((ls.take (cutN ls k)).map vcfRecOfLine ++ [vcfRecOfLine (cutP ls k)], none)) := by
  rw [vcf_lazy_cut ls hline (fun l hl => vcf_line_accepted l (hline l hl) (hasc l hl) (htab l hl)) k b hc hs]
  by_cases hp : cutP ls k = []
  · rw [if_pos hp, if_pos hp]
  · rw [if_neg hp, if_neg hp]
    have hap : isAscii (cutP ls k) = true := by
      rcases cutP_cases ls k with h | ⟨l, j, hl, _, h⟩
      · exact absurd h hp
      · rw [h, isAscii_iff]
        have := (isAscii_iff l).mp (hasc l (List.mem_of_getElem? hl))
        exact fun c hc => this c (List.mem_of_mem_take hc)
    rw [(vcf_cut_ascii _ (cutP_noLF ls hline k) hap).1]


/-! ## T4: the GFF3 line reader (blank lines are skipped) -/

theorem specUntil_length {α : Type} (p : α → Bool) (xs : List α) :
    (specUntil p xs).1.length + (specUntil p xs).2.length = xs.length := by
  unfold specUntil
  cases h : findSplit p xs with
  | none => simp
  | some t =>
    obtain ⟨pre, d, post⟩ := t
    have := findSplit_some_eq p xs pre post d h
    simp only
    rw [this]
    simp only [List.length_append, List.length_cons, List.length_nil]
    omega

/-- one round of the blank-line loop -/
theorem pGffReadLine_succ (fuel : Nat) (d : Bytes) :
    pGffReadLine (fuel + 1) d =
      if ((specUntil (fun x => x == LF) d).1.length = 0 ||
          !(isBlank (stripEol (specUntil (fun x => x == LF) d).1))) = true
      then (.ok ((specUntil (fun x => x == LF) d).1.length, stripEol (specUntil (fun x => x == LF) d).1),
        (specUntil (fun x => x == LF) d).2)
      else pGffReadLine fuel (specUntil (fun x => x == LF) d).2 := by
  simp only [pGffReadLine, SP.bind, pReadLineInto, List.nil_append]
  by_cases hc : (decide ((specUntil (fun x => x == LF) d).1.length = 0) ||
      !isBlank (stripEol (specUntil (fun x => x == LF) d).1)) = true
  · rw [if_pos hc, if_pos (show (decide _ || !List.all _ isAsciiWhitespace) = true from hc)]; rfl
  · rw [if_neg hc, if_neg (show ¬ (decide _ || !List.all _ isAsciiWhitespace) = true from hc)]

/-- with more fuel than bytes the fuel bound is never reached -/
theorem pGffReadLine_fuel (f1 f2 : Nat) (d : Bytes) (h1 : d.length < f1) (h2 : d.length < f2) :
    pGffReadLine f1 d = pGffReadLine f2 d := by
  induction f1 generalizing f2 d with
  | zero => omega
  | succ f1 ih =>
    cases f2 with
    | zero => omega
    | succ f2 =>
      rw [pGffReadLine_succ, pGffReadLine_succ]
      have hlen := specUntil_length (fun x => x == LF) d
      by_cases hcnd : ((specUntil (fun x => x == LF) d).1.length = 0 ||
          !(isBlank (stripEol (specUntil (fun x => x == LF) d).1))) = true
      · rw [if_pos hcnd, if_pos hcnd]
      · rw [if_neg hcnd, if_neg hcnd]
        have hz : (specUntil (fun x => x == LF) d).1.length ≠ 0 := by
          intro hz; rw [hz] at hcnd; simp at hcnd
        exact ih f2 _ (by omega) (by omega)

/-- a complete line that is not blank is delivered, whatever follows -/
theorem pGffLine_line (l r : Bytes) (h : IsLine l) (hb : isBlank (stripEol l) = false) :
    pGffLine (l ++ r) = (.ok (some (l.length, stripEol l)), r) := by
  have hpos := isLine_length_pos l h
  have hz : l.length ≠ 0 := by omega
  simp only [pGffLine, pGffReadLine_succ, specUntil_line l r h, hb, Bool.not_false, Bool.or_true, if_true, hz,
    if_false]

/-- a complete blank line is skipped -/
theorem pGffLine_blank (l r : Bytes) (h : IsLine l) (hb : isBlank (stripEol l) = true) :
    pGffLine (l ++ r) = pGffLine r := by
  have hpos := isLine_length_pos l h
  have hz : l.length ≠ 0 := by omega
  have hrl : pGffReadLine ((l ++ r).length + 1) (l ++ r) = pGffReadLine (r.length + 1) r := by
    rw [pGffReadLine_succ]
    simp only [specUntil_line l r h, hb, Bool.not_true, Bool.or_false, decide_eq_true_eq, hz, if_false]
    exact pGffReadLine_fuel (l ++ r).length (r.length + 1) r (by simp; omega) (by omega)
  unfold pGffLine
  rw [hrl]

/-- at the end of the input: `Ok(0)` -/
theorem pGffLine_nil : pGffLine [] = (.ok none, []) := by
  simp only [pGffLine, pGffReadLine_succ, specUntil_noLF [] rfl, List.length_nil, decide_true, Bool.true_or,
    if_true]

/-- what is present of a cut line, not blank: delivered -/
theorem pGffLine_cut (p : Bytes) (hn : noLF p = true) (hb : isBlank p = false) :
    pGffLine p = (.ok (some (p.length, p)), []) := by
  have hz : p.length ≠ 0 := by
    intro hz
    have : p = [] := List.eq_nil_of_length_eq_zero hz
    rw [this] at hb; cases hb
  simp only [pGffLine, pGffReadLine_succ, specUntil_noLF p hn, stripEol_noLF p hn, hb, Bool.not_false,
    Bool.or_true, if_true, hz, if_false]

/-- what is present of a cut line, blank: skipped, then `Ok(0)` -/
theorem pGffLine_cut_blank (p : Bytes) (hn : noLF p = true) (hb : isBlank p = true) :
    pGffLine p = (.ok none, []) := by
  by_cases hz : p.length = 0
  · have : p = [] := List.eq_nil_of_length_eq_zero hz
    rw [this]; exact pGffLine_nil
  · obtain ⟨f, hf⟩ : ∃ f, p.length = f + 1 := ⟨p.length - 1, by omega⟩
    simp only [pGffLine, hf, pGffReadLine_succ, specUntil_noLF p hn, stripEol_noLF p hn, hb, Bool.not_true,
      Bool.or_false, decide_eq_true_eq, Nat.add_one_ne_zero, if_false, specUntil_noLF [] rfl, List.length_nil,
      decide_true, Bool.true_or, if_true]

/-- the record loop over whole lines, some of which the reader skips without ending the round -/
theorem pLoop_lines_skip {β : Type} (st : SP (Option β)) (item : Bytes → Option β) (ws : List Bytes)
    (hitem : ∀ l ∈ ws, ∀ r, st (l ++ r) = match item l with
      | some v => (.ok (some v), r)
      | none => st r)
    (fuel : Nat) (acc : List β) (r : Bytes) :
    pLoop st (fuel + 1 + (ws.filterMap item).length) acc (ws.flatten ++ r) =
      pLoop st (fuel + 1) ((ws.filterMap item).reverse ++ acc) r := by
  induction ws generalizing acc with
  | nil => simp
  | cons l ws ih =>
    have hl := hitem l (by simp)
    have ih' := ih (fun q hq => hitem q (List.mem_cons_of_mem _ hq))
    simp only [List.flatten_cons, List.append_assoc]
    cases hi : item l with
    | none =>
      rw [hi] at hl
      simp only [List.filterMap_cons, hi]
      rw [← ih' acc]
      have : fuel + 1 + (ws.filterMap item).length = (fuel + (ws.filterMap item).length) + 1 := by omega
      rw [this, pLoop, pLoop, hl]
    | some v =>
      rw [hi] at hl
      simp only [List.filterMap_cons, hi, List.length_cons, List.reverse_cons, List.append_assoc,
        List.singleton_append]
      rw [← ih' (v :: acc)]
      have : fuel + 1 + ((ws.filterMap item).length + 1) = (fuel + 1 + (ws.filterMap item).length) + 1 := by omega
      rw [this, pLoop, hl]


/-- **The cut theorem for line-based record loops whose reader skips some lines** (`item l = none`)
without ending the round. -/
theorem lines_cut_skip {β : Type} (st : SP (Option β)) (item : Bytes → Option β) (ls : List Bytes)
    (hline : ∀ l ∈ ls, IsLine l)
    (hitem : ∀ l ∈ ls, ∀ r, st (l ++ r) = match item l with
      | some v => (.ok (some v), r)
      | none => st r)
    (h0 : st [] = (.ok none, []))
    (hend : ∀ p r p', noLF p = true → st p = (.ok (some r), p') → p' = []) (k : Nat) :
    (pLoop st ((ls.flatten.take k).length + 1) [] (ls.flatten.take k)).1 =
      cutOutcome ((ls.take (cutN ls k)).filterMap item) (cutP ls k) (st (cutP ls k)).1 := by
  have hlen : cutN ls k + (cutP ls k).length ≤ (ls.flatten.take k).length := by
    rw [take_lines ls k, List.length_append]
    have h1 := length_le_flatten (ls.take (cutN ls k))
      (fun l hl => isLine_length_pos l (hline l (List.mem_of_mem_take hl)))
    rw [List.length_take_of_le (cutN_le_length ls k)] at h1
    omega
  have hcnt : ((ls.take (cutN ls k)).filterMap item).length ≤ cutN ls k := by
    have := List.length_filterMap_le item (ls.take (cutN ls k))
    rw [List.length_take_of_le (cutN_le_length ls k)] at this
    exact this
  obtain ⟨F, hF, hFp⟩ : ∃ F, (ls.flatten.take k).length + 1 =
      F + 1 + ((ls.take (cutN ls k)).filterMap item).length ∧ (cutP ls k).length ≤ F :=
    ⟨(ls.flatten.take k).length - ((ls.take (cutN ls k)).filterMap item).length, by omega, by omega⟩
  rw [hF, take_lines ls k,
    pLoop_lines_skip st item (ls.take (cutN ls k)) (fun l hl => hitem l (List.mem_of_mem_take hl)) F []
      (cutP ls k), List.append_nil]
  unfold cutOutcome
  by_cases hp : cutP ls k = []
  · rw [if_pos hp, hp]
    simp only [pLoop, h0, List.reverse_reverse]
  · rw [if_neg hp]
    have hl : 0 < (cutP ls k).length := List.length_pos_iff.mpr hp
    obtain ⟨f, rfl⟩ : ∃ f, F = f + 1 := ⟨F - 1, by omega⟩
    have hn := cutP_noLF ls hline k
    rcases e : st (cutP ls k) with ⟨res, p'⟩
    cases res with
    | error x => simp only [pLoop, e, List.reverse_reverse]
    | ok o =>
      cases o with
      | none => simp only [pLoop, e, List.reverse_reverse]
      | some r =>
        have := hend _ r p' hn e
        subst this
        simp only [pLoop, e, h0, List.reverse_cons, List.reverse_reverse]

/-- **T4 (`gffLinesAll`, the GFF3 line reader; blank lines — only ASCII whitespace — are skipped).** The
text is complete lines, blank or not; the input is its first `k` bytes (ANY `k`). The reader delivers
the non-blank lines wholly inside the cut, unchanged; then what is present of the cut line is dropped
if it is blank (or empty), and otherwise delivered as one more line — a line that was never written;
in both cases a clean end of input follows. Never an error. -/
theorem gff_lines_cut (ls : List Bytes) (hline : ∀ l ∈ ls, IsLine l)
    (k : Nat) (b : BufR UInt8) (hc : 0 < b.cap) (hs : b.stream = ls.flatten.take k) :
    (gffLinesAll b).1 = .ok (
      if isBlank (cutP ls k) = true then ((ls.take (cutN ls k)).filterMap gffItem, none)
      else ((ls.take (cutN ls k)).filterMap gffItem ++ [((cutP ls k).length, cutP ls k)], none)) := by
  have h1 := (parsedLines_pLoop hasSpec_gffLine (b.stream.length + 1) [] b hc).1
  unfold gffLinesAll
  rw [h1, hs]
  congr 1
  rw [lines_cut_skip pGffLine gffItem ls hline
    (by
      intro l hl r
      unfold gffItem
      cases hb : isBlank (stripEol l) with
      | true => rw [if_pos rfl]; exact pGffLine_blank l r (hline l hl) hb
      | false => rw [if_neg (by simp)]; exact pGffLine_line l r (hline l hl) hb)
    pGffLine_nil
    (by
      intro p r p' hn he
      cases hb : isBlank p with
      | true => rw [pGffLine_cut_blank p hn hb] at he; cases he
      | false => rw [pGffLine_cut p hn hb] at he; exact (Prod.mk.inj he).2.symm)
    k]
  simp only [cutOutcome]
  have hn := cutP_noLF ls hline k
  cases hb : isBlank (cutP ls k) with
  | true =>
    rw [if_pos rfl, pGffLine_cut_blank _ hn hb]
    split <;> rfl
  | false =>
    have hp : cutP ls k ≠ [] := by intro h; rw [h] at hb; cases hb
    rw [if_neg hp, if_neg (by simp), pGffLine_cut _ hn hb]


/-! ## T6: FASTQ -/

theorem readLine_pspec (b : BufR UInt8) (hc : 0 < b.cap) :
    (readLine b).1 = (pReadLine b.stream).1 ∧ (readLine b).2.stream = (pReadLine b.stream).2 ∧
    (readLine b).2.cap = b.cap := by
  obtain ⟨a1, a2, a3⟩ := readUntil_spec (· == LF) b.fuel b [] hc (mu_lt_fuel b)
  simp only [List.nil_append] at a1
  simp only [readLine, pReadLine]
  rw [a1]
  exact ⟨rfl, a2, a3⟩

theorem hasSpec_fastqReadDefinition : HasSpec (fastqReadDefinition true) pFastqReadDefinition := by
  intro b hc
  obtain ⟨a1, a2, a3⟩ := readU8_spec b.fuel b hc (mu_lt_fuel b)
  unfold fastqReadDefinition pFastqReadDefinition
  rcases e1 : readU8 b.fuel b with ⟨r1, t1⟩
  simp only [e1] at a1 a2 a3
  rw [← a1, ← a2]
  cases r1 with
  | none => exact ⟨rfl, rfl, a3⟩
  | some c =>
    simp only
    by_cases hcat : c ≠ AT
    · rw [if_pos hcat, if_pos hcat]; exact ⟨rfl, rfl, a3⟩
    · rw [if_neg hcat, if_neg hcat]
      have hc1 : 0 < t1.cap := by rw [a3]; exact hc
      obtain ⟨c1, c2, c3⟩ := scanLoop_spec (nameStep true) specName nameStep_spec t1.fuel
        ([], 1, false, false) t1 hc1 (mu_lt_fuel t1)
      rcases e3 : scanLoop true (nameStep true) t1.fuel ([], 1, false, false) t1 with ⟨r3, t3⟩
      rcases e4 : specName ([], 1, false, false) t1.stream with ⟨⟨name, len, isEol, m⟩, xs2⟩
      simp only [e3, e4] at c1 c2 c3
      subst c1 c2
      simp only
      by_cases he : isEol = true
      · rw [if_pos he, if_pos he]
        exact ⟨rfl, rfl, by rw [c3, a3]⟩
      · rw [if_neg he, if_neg he]
        obtain ⟨d1, d2, d3⟩ := readLine_pspec t3 (by rw [c3]; exact hc1)
        rw [d1]
        exact ⟨rfl, d2, by rw [d3, c3, a3]⟩

theorem hasSpec_fastqConsumePlusLine : HasSpec (fastqConsumePlusLine true) pFastqConsumePlusLine := by
  intro b hc
  obtain ⟨a1, a2, a3⟩ := readU8_spec b.fuel b hc (mu_lt_fuel b)
  unfold fastqConsumePlusLine pFastqConsumePlusLine
  rcases e1 : readU8 b.fuel b with ⟨r1, t1⟩
  simp only [e1] at a1 a2 a3
  rw [← a1, ← a2]
  cases r1 with
  | none => exact ⟨rfl, rfl, a3⟩
  | some c =>
    simp only
    by_cases hcp : c ≠ PLUS
    · rw [if_pos hcp, if_pos hcp]; exact ⟨rfl, rfl, a3⟩
    · rw [if_neg hcp, if_neg hcp]
      have hc1 : 0 < t1.cap := by rw [a3]; exact hc
      obtain ⟨c1, c2, c3⟩ := scanLoop_spec lineStep specLineSt lineStep_spec t1.fuel (0, false) t1 hc1
        (mu_lt_fuel t1)
      unfold consumeLine
      rcases e3 : scanLoop true lineStep t1.fuel (0, false) t1 with ⟨r3, t3⟩
      simp only [e3] at c1 c2 c3
      subst c1
      exact ⟨rfl, c2, by rw [c3, a3]⟩

theorem hasSpec_fastqReadRecord : HasSpec (fastqReadRecord true) pFastqReadRecord := by
  intro b hc
  obtain ⟨a1, a2, a3⟩ := hasSpec_fastqReadDefinition b hc
  unfold fastqReadRecord pFastqReadRecord
  rcases e1 : fastqReadDefinition true b with ⟨r1, t1⟩
  rcases e2 : pFastqReadDefinition b.stream with ⟨r2, x1⟩
  simp only [e1, e2] at a1 a2 a3
  subst a1 a2
  cases r1 with
  | error e => exact ⟨rfl, rfl, a3⟩
  | ok x =>
    obtain ⟨n, name, desc⟩ := x
    cases n with
    | zero => exact ⟨rfl, rfl, a3⟩
    | succ n =>
      simp only
      have hc1 : 0 < t1.cap := by rw [a3]; exact hc
      obtain ⟨c1, c2, c3⟩ := readLine_pspec t1 hc1
      rw [c1]
      obtain ⟨d1, d2, d3⟩ := hasSpec_fastqConsumePlusLine (readLine t1).2 (by rw [c3]; exact hc1)
      rw [c2] at d1 d2
      rcases e3 : fastqConsumePlusLine true (readLine t1).2 with ⟨r3, t3⟩
      rcases e4 : pFastqConsumePlusLine (pReadLine t1.stream).2 with ⟨r4, x3⟩
      simp only [e3, e4] at d1 d2 d3
      subst d1 d2
      cases r3 with
      | error e => exact ⟨rfl, rfl, by rw [d3, c3, a3]⟩
      | ok m =>
        simp only
        obtain ⟨f1, f2, f3⟩ := readLine_pspec t3 (by rw [d3, c3]; exact hc1)
        rw [f1]
        exact ⟨rfl, f2, by rw [f3, d3, c3, a3]⟩

theorem fastqRecords_pLoop (fuel : Nat) (acc : List (Nat × FastqRec)) (b : BufR UInt8) (hc : 0 < b.cap) :
    (fastqRecords true fuel b acc).1 = (pLoop pFastqReadRecord fuel acc b.stream).1 ∧
    (fastqRecords true fuel b acc).2.stream = (pLoop pFastqReadRecord fuel acc b.stream).2 := by
  induction fuel generalizing acc b with
  | zero => exact ⟨rfl, rfl⟩
  | succ fuel ih =>
    obtain ⟨a1, a2, a3⟩ := hasSpec_fastqReadRecord b hc
    simp only [fastqRecords, pLoop]
    rcases e1 : fastqReadRecord true b with ⟨r1, t1⟩
    rcases e2 : pFastqReadRecord b.stream with ⟨r2, d2⟩
    simp only [e1, e2] at a1 a2 a3
    subst a1 a2
    cases r1 with
    | error e => exact ⟨rfl, rfl⟩
    | ok o =>
      cases o with
      | none => exact ⟨rfl, rfl⟩
      | some r => exact ih (r :: acc) t1 (by rw [a3]; exact hc)


theorem findSplit_name_line (x : Bytes) (h : IsLine x) :
    ∃ pre d post, findSplit (fun c => c == SPACE || c == TAB || c == LF) x = some (pre, d, post) ∧
      (((d == LF) = false ∧ IsLine post) ∨ (d = LF ∧ post = [])) := by
  induction x with
  | nil => exact absurd h (by simp [IsLine, isLineB])
  | cons c t ih =>
    simp only [IsLine, isLineB] at h
    by_cases hc : (c == LF) = true
    · rw [if_pos hc] at h
      have ht : t = [] := List.isEmpty_iff.mp h
      have hcl : c = LF := by simpa using hc
      subst ht; subst hcl
      exact ⟨[], LF, [], by simp [findSplit], Or.inr ⟨rfl, rfl⟩⟩
    · rw [if_neg hc] at h
      by_cases ht : (c == SPACE || c == TAB) = true
      · exact ⟨[], c, t, by simp only [findSplit, ht, Bool.true_or, if_true], Or.inl ⟨by simpa using hc, h⟩⟩
      · obtain ⟨pre, d, post, hfs, hcase⟩ := ih h
        refine ⟨c :: pre, d, post, ?_, hcase⟩
        simp only [findSplit, ht, hc, Bool.or_self, Bool.false_eq_true, if_false, hfs]

theorem findSplit_name_noLF (p : Bytes) (h : noLF p = true) :
    findSplit (fun c => c == SPACE || c == TAB || c == LF) p = none ∨
    ∃ pre d post, findSplit (fun c => c == SPACE || c == TAB || c == LF) p = some (pre, d, post) ∧
      (d == LF) = false ∧ noLF post = true := by
  induction p with
  | nil => left; rfl
  | cons c t ih =>
    rw [noLF_cons, Bool.and_eq_true] at h
    have hc : (c == LF) = false := by simpa using h.1
    by_cases ht : (c == SPACE || c == TAB) = true
    · exact Or.inr ⟨[], c, t, by simp only [findSplit, ht, Bool.true_or, if_true], hc, h.2⟩
    · rcases ih h.2 with hn | ⟨pre, d, post, hfs, hd, hp⟩
      · left; simp only [findSplit, ht, hc, Bool.or_self, Bool.false_eq_true, if_false, hn]
      · right
        exact ⟨c :: pre, d, post, by simp only [findSplit, ht, hc, Bool.or_self, Bool.false_eq_true, if_false, hfs], hd, hp⟩

theorem pReadLine_line (l r : Bytes) (h : IsLine l) : pReadLine (l ++ r) = ((l.length, stripEol l), r) := by
  simp only [pReadLine, specUntil_line l r h]

theorem pReadLine_noLF (p : Bytes) (h : noLF p = true) : pReadLine p = ((p.length, p), []) := by
  simp only [pReadLine, specUntil_noLF p h, stripEol_noLF p h]

theorem pReadLine_nil : pReadLine [] = ((0, []), []) := pReadLine_noLF [] rfl

/-- the definition line `"@" ++ n`, complete, whatever follows: exactly the line is read -/
theorem pFastqReadDefinition_line (n : Bytes) (h : IsLine n) :
    ∃ name desc, ∀ R, pFastqReadDefinition (AT :: (n ++ R)) = (.ok (n.length + 1, name, desc), R) := by
  obtain ⟨pre, d, post, hfs, hcase⟩ := findSplit_name_line n h
  have hx := findSplit_some_eq _ n pre post d hfs
  have hat : ¬ (AT ≠ AT) := by simp
  have hsp : ∀ R, specName ([], 1, false, false) (n ++ R) = ((pre, 1 + (pre.length + 1), d == LF, true), post ++ R) := by
    intro R
    simp only [specName, Bool.false_eq_true, if_false, findSplit_append_some _ n R pre post d hfs,
      List.nil_append]
  rcases hcase with ⟨hd, hpost⟩ | ⟨rfl, rfl⟩
  · refine ⟨pre, stripEol post, fun R => ?_⟩
    have hl : 1 + (pre.length + 1) + post.length = n.length + 1 := by rw [hx]; simp; omega
    simp only [pFastqReadDefinition, List.head?_cons, List.tail_cons, hat, if_false, hsp R, hd,
      Bool.false_eq_true, pReadLine_line post R hpost, hl]
  · refine ⟨if pre.getLast? == some CR then pre.dropLast else pre, [], fun R => ?_⟩
    have hl : 1 + (pre.length + 1) = n.length + 1 := by rw [hx]; simp; omega
    have hb : (LF == LF) = true := by decide
    simp only [pFastqReadDefinition, List.head?_cons, List.tail_cons, hat, if_false, hsp R, hb, if_true, hl,
      List.nil_append]

/-- what is present of a cut definition line, at the end of the input: a definition all the same -/
theorem pFastqReadDefinition_noLF (t : Bytes) (h : noLF t = true) :
    ∃ name desc, pFastqReadDefinition (AT :: t) = (.ok (t.length + 1, name, desc), []) := by
  have hat : ¬ (AT ≠ AT) := by simp
  rcases findSplit_name_noLF t h with hn | ⟨pre, d, post, hfs, hd, hp⟩
  · refine ⟨t, [], ?_⟩
    have hsp : specName ([], 1, false, false) t = ((t, 1 + t.length, false, false), []) := by
      simp only [specName, Bool.false_eq_true, if_false, hn, List.nil_append]
    have hl : 1 + t.length + 0 = t.length + 1 := by omega
    simp only [pFastqReadDefinition, List.head?_cons, List.tail_cons, hat, if_false, hsp, Bool.false_eq_true,
      pReadLine_nil, hl]
  · have hx := findSplit_some_eq _ t pre post d hfs
    refine ⟨pre, post, ?_⟩
    have hsp : specName ([], 1, false, false) t = ((pre, 1 + (pre.length + 1), d == LF, true), post) := by
      simp only [specName, Bool.false_eq_true, if_false, hfs, List.nil_append]
    have hl : 1 + (pre.length + 1) + post.length = t.length + 1 := by rw [hx]; simp; omega
    simp only [pFastqReadDefinition, List.head?_cons, List.tail_cons, hat, if_false, hsp, hd,
      Bool.false_eq_true, pReadLine_noLF post hp, hl]

theorem pFastqReadDefinition_nil : pFastqReadDefinition [] = (.ok (0, [], []), []) := rfl

theorem fqDef_line (n : Bytes) (h : IsLine n) (R : Bytes) :
    pFastqReadDefinition (AT :: (n ++ R)) = (.ok (n.length + 1, (fqDef n).1, (fqDef n).2), R) := by
  obtain ⟨name, desc, he⟩ := pFastqReadDefinition_line n h
  have h0 := he []
  rw [List.append_nil] at h0
  have : fqDef n = (name, desc) := by simp only [fqDef, h0]
  rw [this]
  exact he R

/-- the plus line `"+" ++ c`, complete, whatever follows -/
theorem pFastqConsumePlusLine_line (c R : Bytes) (h : IsLine c) :
    pFastqConsumePlusLine (PLUS :: (c ++ R)) = (.ok (c.length + 1), R) := by
  obtain ⟨body, hb, _⟩ := findSplit_lf_line c h
  have hx := findSplit_some_eq _ c body [] LF hb
  have hp : ¬ (PLUS ≠ PLUS) := by simp
  have hl : 0 + (body.length + 1) = c.length := by rw [hx]; simp
  simp only [pFastqConsumePlusLine, List.head?_cons, List.tail_cons, hp, if_false, specLineSt,
    Bool.false_eq_true, findSplit_append_some _ c R body [] LF hb, hl, List.nil_append]

theorem pFastqConsumePlusLine_noLF (t : Bytes) (h : noLF t = true) :
    pFastqConsumePlusLine (PLUS :: t) = (.ok (t.length + 1), []) := by
  have hp : ¬ (PLUS ≠ PLUS) := by simp
  simp only [pFastqConsumePlusLine, List.head?_cons, List.tail_cons, hp, if_false, specLineSt,
    Bool.false_eq_true, findSplit_lf_noLF t h, Nat.zero_add]

theorem pFastqConsumePlusLine_nil : pFastqConsumePlusLine [] = (.error .eof, []) := rfl

/-- the record reader once the definition is read -/
theorem pFastqReadRecord_of_def (xs x1 : Bytes) (n : Nat) (name desc : Bytes)
    (h : pFastqReadDefinition xs = (.ok (n + 1, name, desc), x1)) :
    pFastqReadRecord xs =
      match pFastqConsumePlusLine (pReadLine x1).2 with
      | (.error e, x3) => (.error e, x3)
      | (.ok m, x3) =>
        (.ok (some (n + 1 + (pReadLine x1).1.1 + m + (pReadLine x3).1.1,
          ⟨name, desc, (pReadLine x1).1.2, (pReadLine x3).1.2⟩)), (pReadLine x3).2) := by
  simp only [pFastqReadRecord, h]
  rcases pFastqConsumePlusLine (pReadLine x1).2 with ⟨r, x3⟩
  cases r <;> rfl


theorem fq_bytes_eq (f : FqLines) : f.bytes = AT :: (f.n ++ (f.s ++ (PLUS :: (f.c ++ f.q)))) := by
  simp [FqLines.bytes, FqLines.lines]

theorem fq_bytes_length (f : FqLines) :
    f.bytes.length = (f.n.length + 1) + f.s.length + (f.c.length + 1) + f.q.length := by
  rw [fq_bytes_eq]; simp only [List.length_cons, List.length_append]; omega

/-- **a complete FASTQ record, whatever follows**: exactly its four lines are read -/
theorem pFastqReadRecord_frame (f : FqLines) (h : f.Wf) (r : Bytes) :
    pFastqReadRecord (f.bytes ++ r) = (.ok (some f.item), r) := by
  obtain ⟨hn, hs, hc, hq⟩ := h
  have e : f.bytes ++ r = AT :: (f.n ++ (f.s ++ (PLUS :: (f.c ++ (f.q ++ r))))) := by
    rw [fq_bytes_eq]; simp
  rw [e, pFastqReadRecord_of_def _ _ f.n.length _ _ (fqDef_line f.n hn _)]
  simp only [pReadLine_line f.s _ hs, pFastqConsumePlusLine_line f.c _ hc, pReadLine_line f.q r hq,
    FqLines.item, fq_bytes_length]

theorem pFastqReadRecord_nil : pFastqReadRecord [] = (.ok none, []) := by
  simp only [pFastqReadRecord, pFastqReadDefinition_nil]

/-- cut inside the definition line -/
theorem pFastqReadRecord_cut0 (t : Bytes) (h : noLF t = true) :
    pFastqReadRecord (AT :: t) = (.error .eof, []) := by
  obtain ⟨name, desc, he⟩ := pFastqReadDefinition_noLF t h
  rw [pFastqReadRecord_of_def _ _ t.length _ _ he]
  simp only [pReadLine_nil, pFastqConsumePlusLine_nil]

/-- cut inside (or just before) the sequence line -/
theorem pFastqReadRecord_cut1 (n p : Bytes) (hn : IsLine n) (h : noLF p = true) :
    pFastqReadRecord (AT :: (n ++ p)) = (.error .eof, []) := by
  rw [pFastqReadRecord_of_def _ _ n.length _ _ (fqDef_line n hn _)]
  simp only [pReadLine_noLF p h, pFastqConsumePlusLine_nil]

/-- cut just before the plus line -/
theorem pFastqReadRecord_cut2 (n s : Bytes) (hn : IsLine n) (hs : IsLine s) :
    pFastqReadRecord (AT :: (n ++ (s ++ []))) = (.error .eof, []) := by
  rw [pFastqReadRecord_of_def _ _ n.length _ _ (fqDef_line n hn _)]
  simp only [pReadLine_line s [] hs, pFastqConsumePlusLine_nil]

/-- cut inside the plus line, its `+` present: a record with an empty quality string -/
theorem pFastqReadRecord_cut2p (n s t : Bytes) (hn : IsLine n) (hs : IsLine s) (h : noLF t = true) :
    pFastqReadRecord (AT :: (n ++ (s ++ (PLUS :: t)))) =
      (.ok (some (n.length + 1 + s.length + (t.length + 1) + 0, ⟨(fqDef n).1, (fqDef n).2, stripEol s, []⟩)), []) := by
  rw [pFastqReadRecord_of_def _ _ n.length _ _ (fqDef_line n hn _)]
  simp only [pReadLine_line s _ hs, pFastqConsumePlusLine_noLF t h, pReadLine_nil]

/-- cut inside (or just before) the quality line: a record with the quality bytes present -/
theorem pFastqReadRecord_cut3 (n s c p : Bytes) (hn : IsLine n) (hs : IsLine s) (hc : IsLine c)
    (h : noLF p = true) :
    pFastqReadRecord (AT :: (n ++ (s ++ (PLUS :: (c ++ p))))) =
      (.ok (some (n.length + 1 + s.length + (c.length + 1) + p.length,
        ⟨(fqDef n).1, (fqDef n).2, stripEol s, p⟩)), []) := by
  rw [pFastqReadRecord_of_def _ _ n.length _ _ (fqDef_line n hn _)]
  simp only [pReadLine_line s _ hs, pFastqConsumePlusLine_line c _ hc, pReadLine_noLF p h]

theorem isLine_cons (c : UInt8) (l : Bytes) (hc : (c == LF) = false) (h : IsLine l) : IsLine (c :: l) := by
  simp only [IsLine, isLineB, hc, Bool.false_eq_true, if_false]
  exact h

theorem fq_lines_isLine (f : FqLines) (h : f.Wf) : ∀ l ∈ f.lines, IsLine l := by
  obtain ⟨hn, hs, hc, hq⟩ := h
  intro l hl
  simp only [FqLines.lines, List.mem_cons, List.not_mem_nil, or_false] at hl
  rcases hl with rfl | rfl | rfl | rfl
  · exact isLine_cons AT _ (by decide) hn
  · exact hs
  · exact isLine_cons PLUS _ (by decide) hc
  · exact hq

/-- **what is present of a cut FASTQ record, at the end of the input** (`fqCut`): the cut is before the
`+` of the third line — `UnexpectedEof`; the `+` is present — a record, with the quality bytes that are
present (possibly none), and everything is used up. -/
theorem fastq_record_cut (f : FqLines) (h : f.Wf) (j : Nat) (hj : j < f.bytes.length) :
    pFastqReadRecord (f.bytes.take j) = (fqCut f (f.bytes.take j), []) := by
  have hlines := fq_lines_isLine f h
  obtain ⟨hn, hs, hc, hq⟩ := h
  have hlen := fq_bytes_length f
  have htl : (f.bytes.take j).length = j := by rw [List.length_take]; omega
  have hnp := cutP_noLF f.lines hlines j
  have hdec := take_lines f.lines j
  have hm : cutN f.lines j < 4 := by
    have h1 := cutN_le_length f.lines j
    have h4 : f.lines.length = 4 := rfl
    rcases Nat.lt_or_ge (cutN f.lines j) 4 with h | h
    · exact h
    · have h5 : cutN f.lines j = 4 := by omega
      have := congrArg List.length hdec
      rw [h5, show f.lines.take 4 = f.lines from rfl, List.length_append] at this
      change (f.bytes.take j).length = f.bytes.length + _ at this
      omega
  have hcases := cutP_cases f.lines j
  change f.bytes.take j = _ at hdec
  generalize hP : cutP f.lines j = P at hdec hnp hcases
  generalize hM : cutN f.lines j = M at hdec hm hcases
  have hM4 : M = 0 ∨ M = 1 ∨ M = 2 ∨ M = 3 := by omega
  rcases hM4 with rfl | rfl | rfl | rfl
  · -- inside the definition line
    have e : f.bytes.take j = P := by rw [hdec]; rfl
    rw [e]
    rcases hcases with hp | ⟨l, j', hl, hj', hp⟩
    · rw [hp]; exact pFastqReadRecord_nil
    · have hl' : l = AT :: f.n := by simpa [FqLines.lines] using hl.symm
      subst hl'
      cases j' with
      | zero => rw [hp]; exact pFastqReadRecord_nil
      | succ j' =>
        rw [List.take_succ_cons] at hp
        have hnt : noLF (f.n.take j') = true := by
          rw [hp, noLF_cons, Bool.and_eq_true] at hnp; exact hnp.2
        have hle : P.length ≤ f.n.length + 1 + f.s.length := by
          rw [hp, List.length_cons, List.length_take]; omega
        rw [hp, pFastqReadRecord_cut0 _ hnt, fqCut, if_neg (by simp), ← hp, if_pos hle]
  · -- inside the sequence line
    have e : f.bytes.take j = AT :: (f.n ++ P) := by rw [hdec]; simp [FqLines.lines]
    have hPl : P.length < f.s.length := by
      rcases hcases with hp | ⟨l, j', hl, hj', hp⟩
      · rw [hp]; exact isLine_length_pos _ hs
      · have hl' : l = f.s := by simpa [FqLines.lines] using hl.symm
        subst hl'
        rw [hp, List.length_take]; omega
    rw [e, pFastqReadRecord_cut1 _ _ hn hnp, fqCut, if_neg (by simp),
      if_pos (by simp only [List.length_cons, List.length_append]; omega)]
  · -- inside the plus line
    have e : f.bytes.take j = AT :: (f.n ++ (f.s ++ P)) := by rw [hdec]; simp [FqLines.lines]
    rcases hcases with hp | ⟨l, j', hl, hj', hp⟩
    · rw [e, hp, pFastqReadRecord_cut2 _ _ hn hs, fqCut, if_neg (by simp),
        if_pos (by simp only [List.length_cons, List.length_append, List.length_nil]; omega)]
    · have hl' : l = PLUS :: f.c := by simpa [FqLines.lines] using hl.symm
      subst hl'
      cases j' with
      | zero =>
        rw [List.take_zero] at hp
        rw [e, hp, pFastqReadRecord_cut2 _ _ hn hs, fqCut, if_neg (by simp),
          if_pos (by simp only [List.length_cons, List.length_append, List.length_nil]; omega)]
      | succ j' =>
        rw [List.take_succ_cons] at hp
        have hnt : noLF (f.c.take j') = true := by
          rw [hp, noLF_cons, Bool.and_eq_true] at hnp; exact hnp.2
        simp only [List.length_cons] at hj'
        have hjl : (f.c.take j').length = j' := by rw [List.length_take]; omega
        rw [e, hp, pFastqReadRecord_cut2p _ _ _ hn hs hnt, fqCut, if_neg (by simp),
          if_neg (by simp only [List.length_cons, List.length_append]; omega)]
        congr 4
        · simp only [List.length_cons, List.length_append]; omega
        · congr 1
          symm
          apply List.drop_eq_nil_of_le
          simp only [List.length_cons, List.length_append, hjl]; omega
  · -- inside the quality line
    have e : f.bytes.take j = AT :: (f.n ++ (f.s ++ (PLUS :: (f.c ++ P)))) := by
      rw [hdec]; simp [FqLines.lines]
    rw [e, pFastqReadRecord_cut3 _ _ _ _ hn hs hc hnp, fqCut, if_neg (by simp),
      if_neg (by simp only [List.length_cons, List.length_append]; omega)]
    congr 4
    · simp only [List.length_cons, List.length_append]; omega
    · congr 1
      have e2 : AT :: (f.n ++ (f.s ++ (PLUS :: (f.c ++ P)))) = (AT :: (f.n ++ (f.s ++ (PLUS :: f.c)))) ++ P := by
        simp
      rw [e2]
      symm
      apply List.drop_left'
      simp only [List.length_cons, List.length_append]; omega


/-! ### the cut theorem for record loops over multi-line frames -/

theorem length_le_flatten_map {β : Type} (fs : List (Bytes × β)) (h : ∀ p ∈ fs, 0 < p.1.length) :
    fs.length ≤ (fs.map (·.1)).flatten.length := by
  have := length_le_flatten (fs.map (·.1)) (by
    intro l hl
    obtain ⟨p, hp, rfl⟩ := List.mem_map.mp hl
    exact h p hp)
  simpa using this

theorem pLoop_frames_cut {β : Type} (st : SP (Option β)) (fs : List (Bytes × β))
    (hpos : ∀ p ∈ fs, 0 < p.1.length)
    (hitem : ∀ p ∈ fs, ∀ r, st (p.1 ++ r) = (.ok (some p.2), r)) (k : Nat) :
    ∃ fuel, (cutRest fs [] k).length + 1 ≤ fuel ∧
      pLoop st (((fs.map (·.1)).flatten.take k).length + 1) [] ((fs.map (·.1)).flatten.take k) =
        pLoop st fuel ((fs.take (cutPos fs k).1).map (·.2)).reverse (cutRest fs [] k) := by
  have htf := take_frames fs [] k
  rw [List.append_nil] at htf
  have hlen : (cutPos fs k).1 + (cutRest fs [] k).length ≤ ((fs.map (·.1)).flatten.take k).length := by
    rw [htf, List.length_append]
    have h1 := length_le_flatten_map (fs.take (cutPos fs k).1) (fun p hp => hpos p (List.mem_of_mem_take hp))
    rw [List.length_take_of_le (cutPos_le_length fs k)] at h1
    omega
  refine ⟨((fs.map (·.1)).flatten.take k).length + 1 - (cutPos fs k).1, by omega, ?_⟩
  have hc := pLoop_cut st fs [] hitem k (((fs.map (·.1)).flatten.take k).length + 1 - (cutPos fs k).1) []
  rw [List.append_nil, List.append_nil,
    show ((fs.map (·.1)).flatten.take k).length + 1 - (cutPos fs k).1 + (cutPos fs k).1 =
      ((fs.map (·.1)).flatten.take k).length + 1 by omega] at hc
  exact hc

theorem cutRest_cases {β : Type} (fs : List (Bytes × β)) (k : Nat) :
    (fs[(cutPos fs k).1]? = none ∧ cutRest fs [] k = []) ∨
    ∃ p j, fs[(cutPos fs k).1]? = some p ∧ j < p.1.length ∧ cutRest fs [] k = p.1.take j := by
  have hw := (Noodles.Trunc.whole_spec (fs.map (·.1.length)) k).2
  cases hg : fs[(cutPos fs k).1]? with
  | none => left; exact ⟨rfl, by simp only [cutRest, hg, List.take_nil]⟩
  | some p =>
    right
    have hlt : (cutPos fs k).1 < fs.length := by
      rcases List.getElem?_eq_some_iff.mp hg with ⟨h, _⟩; exact h
    have := hw (by simpa [cutPos] using hlt)
    rw [List.getD_eq_getElem?_getD, List.getElem?_map] at this
    change (cutPos fs k).2 < (Option.map _ fs[(cutPos fs k).1]?).getD 0 at this
    rw [hg] at this
    exact ⟨p, (cutPos fs k).2, rfl, by simpa using this, by simp only [cutRest, hg]⟩

/-- **T6 (`fastqRecordsAll true`, the FASTQ record reader after the fix).** The text is complete
four-line records (`FqLines.Wf`); the input is its first `k` bytes (ANY `k`). The reader delivers the
records wholly inside the cut, unchanged; then

* the cut is at a record boundary (or beyond the end): a clean end of input;
* the cut is inside the definition or the sequence line, or before the `+` of the third line:
  `UnexpectedEof`;
* the `+` is present: a record with the quality bytes present so far (possibly none) IS delivered — a
  record that was never written — and then a clean end of input. -/
theorem fastq_cut (fs : List FqLines) (hwf : ∀ f ∈ fs, f.Wf) (k : Nat) (b : BufR UInt8) (hc : 0 < b.cap)
    (hs : b.stream = (fs.map (·.bytes)).flatten.take k) :
    (fastqRecordsAll true b).1 =
      (let F := fs.map fun f => (f.bytes, f.item)
       let n := (cutPos F k).1
       let q := cutRest F [] k
       let items := (fs.take n).map (·.item)
       match fs[n]? with
       | none => (items, none)
       | some f =>
         if q = [] then (items, none)
         else if q.length ≤ (f.n.length + 1) + f.s.length then (items, some .eof)
         else (items ++ [(q.length, ⟨(fqDef f.n).1, (fqDef f.n).2, stripEol f.s,
            q.drop ((f.n.length + 1) + f.s.length + (f.c.length + 1))⟩)], none)) := by
  have h1 := (fastqRecords_pLoop (b.stream.length + 1) [] b hc).1
  unfold fastqRecordsAll
  rw [h1, hs]
  have hmap : (fs.map fun f => (f.bytes, f.item)).map (·.1) = fs.map (·.bytes) := by
    simp only [List.map_map]; rfl
  have hpos : ∀ p ∈ (fs.map fun f => (f.bytes, f.item)), 0 < p.1.length := by
    intro p hp
    obtain ⟨f, _, rfl⟩ := List.mem_map.mp hp
    have := fq_bytes_length f
    simp only; omega
  obtain ⟨fuel, hf, he⟩ := pLoop_frames_cut pFastqReadRecord (fs.map fun f => (f.bytes, f.item)) hpos
    (by
      intro p hp r
      obtain ⟨f, hfm, rfl⟩ := List.mem_map.mp hp
      exact pFastqReadRecord_frame f (hwf f hfm) r)
    k
  rw [hmap] at he
  rw [he]
  have hitems : ((fs.map fun f => (f.bytes, f.item)).take (cutPos (fs.map fun f => (f.bytes, f.item)) k).1).map (·.2)
      = (fs.take (cutPos (fs.map fun f => (f.bytes, f.item)) k).1).map (·.item) := by
    rw [← List.map_take, List.map_map]; rfl
  rw [hitems]
  simp only
  rcases cutRest_cases (fs.map fun f => (f.bytes, f.item)) k with ⟨hnone, hq⟩ | ⟨p, j, hsome, hj, hq⟩
  · rw [List.getElem?_map, Option.map_eq_none_iff] at hnone
    rw [hnone, hq]
    obtain ⟨f', rfl⟩ : ∃ f', fuel = f' + 1 := ⟨fuel - 1, by omega⟩
    simp only [pLoop, pFastqReadRecord_nil, List.reverse_reverse]
  · rw [List.getElem?_map, Option.map_eq_some_iff] at hsome
    obtain ⟨f, hfn, rfl⟩ := hsome
    rw [hfn]
    simp only at hj hq ⊢
    have hcut := fastq_record_cut f (hwf f (List.mem_of_getElem? hfn)) j hj
    rw [← hq] at hcut
    by_cases hqn : cutRest (fs.map fun f => (f.bytes, f.item)) [] k = []
    · rw [if_pos hqn, hqn]
      obtain ⟨f', rfl⟩ : ∃ f', fuel = f' + 1 := ⟨fuel - 1, by omega⟩
      simp only [pLoop, pFastqReadRecord_nil, List.reverse_reverse]
    · rw [if_neg hqn]
      have hl : 0 < (cutRest (fs.map fun f => (f.bytes, f.item)) [] k).length := List.length_pos_iff.mpr hqn
      obtain ⟨f', rfl⟩ : ∃ f', fuel = f' + 2 := ⟨fuel - 2, by omega⟩
      rw [fqCut, if_neg hqn] at hcut
      by_cases hle : (cutRest (fs.map fun f => (f.bytes, f.item)) [] k).length ≤ f.n.length + 1 + f.s.length
      · rw [if_pos hle] at hcut ⊢
        simp only [pLoop, hcut, List.reverse_reverse]
      · rw [if_neg hle] at hcut ⊢
        simp only [pLoop, hcut, pFastqReadRecord_nil, List.reverse_cons, List.reverse_reverse]


/-! ## T5: FASTA -/

/-- `specFasta` is the record loop of `fastaStep` -/
theorem specFasta_pLoop (fuel : Nat) (xs : Bytes) (acc : List FastaRec) :
    specFasta fuel xs acc = pLoop fastaStep fuel acc xs := by
  induction fuel generalizing xs acc with
  | zero => rfl
  | succ fuel ih =>
    simp only [specFasta, pLoop, fastaStep]
    by_cases hz : (specUntil (fun x => x == LF) xs).1.length = 0
    · simp only [hz, if_true]
    · simp only [hz, if_false]
      cases parseDefinition (stripEol (specUntil (fun x => x == LF) xs).1) with
      | error e => rfl
      | ok nd =>
        obtain ⟨name, desc⟩ := nd
        exact ih _ _

/-- the sequence reader on `>`-free sequence lines followed by the next record (or nothing) -/
theorem specSeq_noGT (sb r : Bytes) (h : sb.all (fun c => !(c == GT)) = true) (hr : FaNext r) :
    specSeq (sb ++ r) = (bases sb, r) := by
  induction sb with
  | nil =>
    rcases hr with rfl | hr
    · rfl
    · cases r with
      | nil => rfl
      | cons c t =>
        simp only [List.head?_cons, Option.some.injEq] at hr
        subst hr
        exact specSeq_gt t
  | cons c t ih =>
    simp only [List.all_cons, Bool.and_eq_true, Bool.not_eq_true'] at h
    have ih' := ih (by simpa using h.2)
    by_cases hc : (c == CR || c == LF) = true
    · simp only [List.cons_append, specSeq, hc, if_true, ih', bases, List.filter_cons, Bool.not_true,
        Bool.false_eq_true, if_false]
    · have hc' : (c == CR || c == LF) = false := by simpa using hc
      simp only [List.cons_append, specSeq, hc', Bool.false_eq_true, if_false, h.1, ih', bases,
        List.filter_cons, Bool.not_false, if_true]

theorem wfSeq_take (prev : UInt8) (xs : Bytes) (j : Nat) (h : wfSeq prev xs = true) :
    wfSeq prev (xs.take j) = true := by
  induction xs generalizing prev j with
  | nil => simp [wfSeq]
  | cons c r ih =>
    cases j with
    | zero => rfl
    | succ j =>
      simp only [wfSeq, List.take_succ_cons] at h ⊢
      by_cases hg : (c == GT) = true
      · rw [if_pos hg] at h ⊢; exact h
      · rw [if_neg hg, Bool.and_eq_true] at h ⊢
        exact ⟨h.1, ih c j h.2⟩

/-- `wfSeq` looks no further than the first `>` -/
theorem wfSeq_append_gt (prev : UInt8) (sb t : Bytes) (h : sb.all (fun c => !(c == GT)) = true) :
    wfSeq prev (sb ++ GT :: t) = wfSeq prev (sb ++ [GT]) := by
  induction sb generalizing prev with
  | nil => simp [wfSeq]
  | cons c r ih =>
    simp only [List.all_cons, Bool.and_eq_true, Bool.not_eq_true'] at h
    simp only [List.cons_append, wfSeq, h.1, Bool.false_eq_true, if_false]
    rw [ih c (by simpa using h.2)]

theorem wfSeq_next (sb r : Bytes) (h : sb.all (fun c => !(c == GT)) = true)
    (hw : wfSeq LF (sb ++ [GT]) = true) (hr : FaNext r) : wfSeq LF (sb ++ r) = true := by
  rcases hr with rfl | hr
  · have := wfSeq_take LF (sb ++ [GT]) sb.length hw
    rw [List.take_left'] at this
    · rw [List.append_nil]; exact this
    · rfl
  · cases r with
    | nil => cases hr
    | cons c t =>
      simp only [List.head?_cons, Option.some.injEq] at hr
      subst hr
      rw [wfSeq_append_gt LF sb t h]; exact hw


theorem fastaStep_nil : fastaStep [] = (.ok none, []) := by
  simp only [fastaStep, specUntil_noLF [] rfl, List.length_nil, if_true]

/-- a complete FASTA record followed by the next one (or by nothing) -/
theorem fastaStep_frame (f : FaLines) (h : f.Wf) (name desc : Bytes)
    (hp : parseDefinition (stripEol (GT :: f.d)) = .ok (name, desc)) (r : Bytes) (hr : FaNext r) :
    fastaStep (f.bytes ++ r) = (.ok (some ⟨name, desc, bases f.s⟩), r) := by
  obtain ⟨hd, hs, _⟩ := h
  have hl : IsLine (GT :: f.d) := isLine_cons GT _ (by decide) hd
  have e : f.bytes ++ r = (GT :: f.d) ++ (f.s ++ r) := by simp [FaLines.bytes]
  have hz : ¬ (GT :: f.d).length = 0 := by simp
  simp only [e, fastaStep, specUntil_line _ _ hl, hz, if_false, hp, specSeq_noGT f.s r hs hr]

/-- what is present of a cut definition line, at the end of the input: parsed as far as it goes -/
theorem fastaStep_cut_def (q : Bytes) (hn : noLF q = true) (hne : q ≠ []) :
    fastaStep q = match parseDefinition q with
      | .error e => (.error e, [])
      | .ok (name, desc) => (.ok (some ⟨name, desc, []⟩), []) := by
  have hz : ¬ q.length = 0 := by
    have := List.length_pos_iff.mpr hne; omega
  simp only [fastaStep, specUntil_noLF q hn, hz, if_false, stripEol_noLF q hn]
  cases parseDefinition q with
  | error e => rfl
  | ok nd => rfl

/-- a record cut inside its sequence lines, at the end of the input: a SHORTER record -/
theorem fastaStep_cut_seq (d s : Bytes) (hd : IsLine d) (hs : s.all (fun c => !(c == GT)) = true)
    (name desc : Bytes) (hp : parseDefinition (stripEol (GT :: d)) = .ok (name, desc)) :
    fastaStep ((GT :: d) ++ s) = (.ok (some ⟨name, desc, bases s⟩), []) := by
  have hl : IsLine (GT :: d) := isLine_cons GT _ (by decide) hd
  have hz : ¬ (GT :: d).length = 0 := by simp
  have hsq := specSeq_noGT s [] hs (Or.inl rfl)
  rw [List.append_nil] at hsq
  simp only [fastaStep, specUntil_line _ _ hl, hz, if_false, hp, hsq]

/-! ### well-formedness of the cut text -/

theorem wfFastaF_nil (fuel : Nat) : wfFastaF fuel [] = true := by
  cases fuel with
  | zero => rfl
  | succ fuel => simp only [wfFastaF, specUntil_noLF [] rfl, List.length_nil, if_true]

theorem wfFastaF_cut_def (fuel : Nat) (q : Bytes) (hn : noLF q = true) : wfFastaF fuel q = true := by
  cases fuel with
  | zero => rfl
  | succ fuel =>
    simp only [wfFastaF, specUntil_noLF q hn]
    split
    · rfl
    · have : specSeq [] = ([], []) := rfl
      simp only [this, wfFastaF_nil, Bool.and_true]
      rfl

theorem wfFastaF_cut_seq (fuel : Nat) (d s : Bytes) (hd : IsLine d)
    (hs : s.all (fun c => !(c == GT)) = true) (hw : wfSeq LF s = true) :
    wfFastaF fuel ((GT :: d) ++ s) = true := by
  cases fuel with
  | zero => rfl
  | succ fuel =>
    have hl : IsLine (GT :: d) := isLine_cons GT _ (by decide) hd
    have hz : ¬ (GT :: d).length = 0 := by simp
    have hsq := specSeq_noGT s [] hs (Or.inl rfl)
    rw [List.append_nil] at hsq
    simp only [wfFastaF, specUntil_line _ _ hl, hz, if_false, hw, hsq, wfFastaF_nil, Bool.and_true]

theorem faNext_bytes (f : FaLines) (r : Bytes) : FaNext (f.bytes ++ r) := Or.inr rfl

theorem faNext_frames (fs : List FaLines) (q : Bytes) (hq : FaNext q) :
    FaNext ((fs.map (·.bytes)).flatten ++ q) := by
  cases fs with
  | nil => exact hq
  | cons f fs =>
    simp only [List.map_cons, List.flatten_cons, List.append_assoc]
    exact faNext_bytes f _

theorem wfFastaF_frames (fs : List FaLines) (hwf : ∀ f ∈ fs, f.Wf) (q : Bytes) (hq : FaNext q)
    (hwq : ∀ fuel, wfFastaF fuel q = true) (fuel : Nat) :
    wfFastaF fuel ((fs.map (·.bytes)).flatten ++ q) = true := by
  induction fs generalizing fuel with
  | nil => exact hwq fuel
  | cons f fs ih =>
    cases fuel with
    | zero => rfl
    | succ fuel =>
      obtain ⟨hd, hs, hw⟩ := hwf f (by simp)
      have hl : IsLine (GT :: f.d) := isLine_cons GT _ (by decide) hd
      have hz : ¬ (GT :: f.d).length = 0 := by simp
      have hnext := faNext_frames fs q hq
      have e : ((f :: fs).map (·.bytes)).flatten ++ q =
          (GT :: f.d) ++ (f.s ++ ((fs.map (·.bytes)).flatten ++ q)) := by
        simp [FaLines.bytes]
      rw [e]
      simp only [wfFastaF, specUntil_line _ _ hl, hz, if_false, specSeq_noGT f.s _ hs hnext,
        wfSeq_next f.s _ hs hw hnext, Bool.true_and]
      exact ih (fun g hg => hwf g (List.mem_cons_of_mem _ hg)) fuel

/-! ### record loops whose frames need the right continuation -/

theorem pLoop_items_R {β : Type} (st : SP (Option β)) (R : Bytes → Prop) (fs : List (Bytes × β))
    (hitem : ∀ p ∈ fs, ∀ r, R r → st (p.1 ++ r) = (.ok (some p.2), r))
    (hR : ∀ p ∈ fs, ∀ r, R (p.1 ++ r))
    (fuel : Nat) (acc : List β) (r : Bytes) (hr : R r) :
    pLoop st (fuel + fs.length) acc ((fs.map (·.1)).flatten ++ r) =
      pLoop st fuel ((fs.map (·.2)).reverse ++ acc) r := by
  induction fs generalizing acc with
  | nil => simp
  | cons p fs ih =>
    have h1 : fuel + (p :: fs).length = (fuel + fs.length) + 1 := by simp; omega
    have hnext : R ((fs.map (·.1)).flatten ++ r) := by
      cases fs with
      | nil => exact hr
      | cons p' fs' =>
        simp only [List.map_cons, List.flatten_cons, List.append_assoc]
        exact hR p' (by simp) _
    rw [h1]
    simp only [List.map_cons, List.flatten_cons, List.append_assoc]
    rw [pLoop, hitem p (by simp) _ hnext]
    simp only
    rw [ih (fun q hq => hitem q (List.mem_cons_of_mem _ hq)) (fun q hq => hR q (List.mem_cons_of_mem _ hq))]
    simp

theorem pLoop_frames_cut_R {β : Type} (st : SP (Option β)) (R : Bytes → Prop) (fs : List (Bytes × β))
    (hpos : ∀ p ∈ fs, 0 < p.1.length)
    (hitem : ∀ p ∈ fs, ∀ r, R r → st (p.1 ++ r) = (.ok (some p.2), r))
    (hR : ∀ p ∈ fs, ∀ r, R (p.1 ++ r)) (k : Nat) (hq : R (cutRest fs [] k)) :
    ∃ fuel, (cutRest fs [] k).length + 1 ≤ fuel ∧
      pLoop st (((fs.map (·.1)).flatten.take k).length + 1) [] ((fs.map (·.1)).flatten.take k) =
        pLoop st fuel ((fs.take (cutPos fs k).1).map (·.2)).reverse (cutRest fs [] k) := by
  have htf := take_frames fs [] k
  rw [List.append_nil] at htf
  have hlen : (cutPos fs k).1 + (cutRest fs [] k).length ≤ ((fs.map (·.1)).flatten.take k).length := by
    rw [htf, List.length_append]
    have h1 := length_le_flatten_map (fs.take (cutPos fs k).1) (fun p hp => hpos p (List.mem_of_mem_take hp))
    rw [List.length_take_of_le (cutPos_le_length fs k)] at h1
    omega
  refine ⟨((fs.map (·.1)).flatten.take k).length + 1 - (cutPos fs k).1, by omega, ?_⟩
  have hl : (fs.take (cutPos fs k).1).length = (cutPos fs k).1 :=
    List.length_take_of_le (cutPos_le_length fs k)
  have hc := pLoop_items_R st R (fs.take (cutPos fs k).1)
    (fun p hp => hitem p (List.mem_of_mem_take hp)) (fun p hp => hR p (List.mem_of_mem_take hp))
    (((fs.map (·.1)).flatten.take k).length + 1 - (cutPos fs k).1) [] (cutRest fs [] k) hq
  rw [hl, List.append_nil,
    show ((fs.map (·.1)).flatten.take k).length + 1 - (cutPos fs k).1 + (cutPos fs k).1 =
      ((fs.map (·.1)).flatten.take k).length + 1 by omega, ← htf] at hc
  exact hc



/-- the three ways a cut falls into a FASTA record: before it; inside the definition line; after it -/
theorem fasta_take_cases (f : FaLines) (h : f.Wf) (j : Nat) (hj : j < f.bytes.length) :
    f.bytes.take j = [] ∨
    (f.bytes.take j ≠ [] ∧ (f.bytes.take j).length ≤ f.d.length ∧ noLF (f.bytes.take j) = true ∧
      (f.bytes.take j).head? = some GT) ∨
    (f.d.length < (f.bytes.take j).length ∧
      ∃ s', f.bytes.take j = (GT :: f.d) ++ s' ∧ (f.bytes.take j).drop (f.d.length + 1) = s' ∧
        s'.all (fun c => !(c == GT)) = true ∧ wfSeq LF s' = true) := by
  obtain ⟨hd, hs, hw⟩ := h
  have hl : IsLine (GT :: f.d) := isLine_cons GT _ (by decide) hd
  have e : f.bytes = (GT :: f.d) ++ f.s := rfl
  have htl : (f.bytes.take j).length = j := by rw [List.length_take]; omega
  cases j with
  | zero => left; rfl
  | succ j =>
    right
    by_cases hjd : j + 1 ≤ f.d.length
    · left
      have e2 : f.bytes.take (j + 1) = (GT :: f.d).take (j + 1) := by
        rw [e, List.take_append_of_le_length (by simp; omega)]
      refine ⟨by rw [e2]; simp, by omega, ?_, by rw [e2]; rfl⟩
      rw [e2]
      exact noLF_take_line _ hl (j + 1) (by simp; omega)
    · right
      refine ⟨by omega, f.s.take (j + 1 - (f.d.length + 1)), ?_, ?_, ?_, ?_⟩
      · rw [e, List.take_append, List.take_of_length_le (by simp; omega)]; rfl
      · rw [e, List.take_append, List.take_of_length_le (by simp; omega)]
        apply List.drop_left'
        simp
      · rw [List.all_eq_true] at hs ⊢
        exact fun c hc => hs c (List.mem_of_mem_take hc)
      · have := wfSeq_take LF (f.s ++ [GT]) (j + 1 - (f.d.length + 1)) hw
        rw [List.take_append_of_le_length (by
          rw [e] at hj; simp only [List.length_append, List.length_cons] at hj; omega)] at this
        exact this


/-- **T5 (`fastaRecordsAll`, the FASTA record iterator).** The text is complete records (`FaLines.Wf`:
a definition line `">" ++ d`, then `>`-free sequence lines ending in an LF) whose definition lines
parse; the input is its first `k` bytes (ANY `k`); `sizes` (the buffer sizes of `read_to_end`) are
arbitrary. NO well-formedness hypothesis on the cut text: `wfFasta` of it is derived. The reader
delivers the records wholly inside the cut, unchanged; then

* the cut is at a record boundary (or beyond the end): a clean end of input;
* the cut is inside the definition line: the bytes present are parsed as a definition — an error if
  they do not parse (only `">"` present: `InvalidData`), otherwise a record with a CUT name or
  description and an empty sequence is delivered, then a clean end;
* the cut is after the definition line: a record with the bases present so far — a SHORTER record
  that was never written — is delivered, then a clean end of input. -/
theorem fasta_cut (sizes : Nat → List Nat) (fs : List FaLines) (nd : FaLines → Bytes × Bytes)
    (hwf : ∀ f ∈ fs, f.Wf)
    (hparse : ∀ f ∈ fs, parseDefinition (stripEol (GT :: f.d)) = .ok (nd f))
    (k : Nat) (b : BufR UInt8) (hc : 0 < b.cap) (hs : b.stream = (fs.map (·.bytes)).flatten.take k) :
    (fastaRecordsAll sizes b).1 = .ok (
      let item := fun f : FaLines => (⟨(nd f).1, (nd f).2, bases f.s⟩ : FastaRec)
      let F := fs.map fun f => (f.bytes, item f)
      let n := (cutPos F k).1
      let q := cutRest F [] k
      let items := (fs.take n).map item
      match fs[n]? with
      | none => (items, none)
      | some f =>
        if q = [] then (items, none)
        else if q.length ≤ f.d.length then
          match parseDefinition q with
          | .error e => (items, some e)
          | .ok (name, desc) => (items ++ [⟨name, desc, []⟩], none)
        else (items ++ [⟨(nd f).1, (nd f).2, bases (q.drop (f.d.length + 1))⟩], none)) := by
  simp only
  generalize hF : (fs.map fun f => (f.bytes, (⟨(nd f).1, (nd f).2, bases f.s⟩ : FastaRec))) = F
  have hmap : F.map (·.1) = fs.map (·.bytes) := by
    rw [← hF]; simp only [List.map_map]; rfl
  have hpos : ∀ p ∈ F, 0 < p.1.length := by
    intro p hp
    rw [← hF] at hp
    obtain ⟨f, _, rfl⟩ := List.mem_map.mp hp
    simp [FaLines.bytes]
  have hitem : ∀ p ∈ F, ∀ r, FaNext r → fastaStep (p.1 ++ r) = (.ok (some p.2), r) := by
    intro p hp r hr
    rw [← hF] at hp
    obtain ⟨f, hfm, rfl⟩ := List.mem_map.mp hp
    exact fastaStep_frame f (hwf f hfm) _ _ (hparse f hfm) r hr
  have hR : ∀ p ∈ F, ∀ r, FaNext (p.1 ++ r) := by
    intro p hp r
    rw [← hF] at hp
    obtain ⟨f, _, rfl⟩ := List.mem_map.mp hp
    exact faNext_bytes f r
  have hitems : (F.take (cutPos F k).1).map (·.2)
      = (fs.take (cutPos F k).1).map fun f => (⟨(nd f).1, (nd f).2, bases f.s⟩ : FastaRec) := by
    rw [← hF, ← List.map_take, List.map_map]; rfl
  -- what is present of the cut record
  have hcases : (fs[(cutPos F k).1]? = none ∧ cutRest F [] k = []) ∨
      ∃ f j, fs[(cutPos F k).1]? = some f ∧ f ∈ fs ∧ j < f.bytes.length ∧ cutRest F [] k = f.bytes.take j := by
    rcases cutRest_cases F k with ⟨hnone, hq⟩ | ⟨p, j, hsome, hj, hq⟩
    · left
      rw [← hF, List.getElem?_map, Option.map_eq_none_iff, hF] at hnone
      exact ⟨hnone, hq⟩
    · right
      rw [← hF, List.getElem?_map, Option.map_eq_some_iff, hF] at hsome
      obtain ⟨f, hfn, rfl⟩ := hsome
      exact ⟨f, j, hfn, List.mem_of_getElem? hfn, hj, hq⟩
  have hqR : FaNext (cutRest F [] k) ∧ ∀ fuel, wfFastaF fuel (cutRest F [] k) = true := by
    rcases hcases with ⟨_, hq⟩ | ⟨f, j, _, hfm, hj, hq⟩
    · rw [hq]; exact ⟨Or.inl rfl, wfFastaF_nil⟩
    · rw [hq]
      rcases fasta_take_cases f (hwf f hfm) j hj with h0 | ⟨_, _, hn, hh⟩ | ⟨_, s', he, _, hs', hw'⟩
      · rw [h0]; exact ⟨Or.inl rfl, wfFastaF_nil⟩
      · exact ⟨Or.inr hh, fun fuel => wfFastaF_cut_def fuel _ hn⟩
      · rw [he]
        exact ⟨Or.inr rfl, fun fuel => wfFastaF_cut_seq fuel f.d s' (hwf f hfm).1 hs' hw'⟩
  -- the cut text is well formed
  have htf := take_frames F [] k
  rw [List.append_nil, hmap] at htf
  have hwfS : wfFasta b.stream = true := by
    rw [hs, htf]
    have hfr : (F.take (cutPos F k).1).map (·.1) = (fs.take (cutPos F k).1).map (·.bytes) := by
      rw [List.map_take, hmap, ← List.map_take]
    rw [hfr]
    exact wfFastaF_frames (fs.take (cutPos F k).1) (fun f hf => hwf f (List.mem_of_mem_take hf)) _ hqR.1 hqR.2 _
  rw [(fastaRecordsAll_spec sizes b hc hwfS).1, specFasta_pLoop, hs]
  congr 1
  obtain ⟨fuel, hfu, he⟩ := pLoop_frames_cut_R fastaStep FaNext F hpos hitem hR k hqR.1
  rw [hmap] at he
  rw [he, hitems]
  rcases hcases with ⟨hnone, hq⟩ | ⟨f, j, hfn, hfm, hj, hq⟩
  · rw [hnone, hq]
    obtain ⟨f', rfl⟩ : ∃ f', fuel = f' + 1 := ⟨fuel - 1, by omega⟩
    simp only [pLoop, fastaStep_nil, List.reverse_reverse]
  · rw [hfn]
    simp only
    by_cases hqn : cutRest F [] k = []
    · rw [if_pos hqn, hqn]
      obtain ⟨f', rfl⟩ : ∃ f', fuel = f' + 1 := ⟨fuel - 1, by omega⟩
      simp only [pLoop, fastaStep_nil, List.reverse_reverse]
    · rw [if_neg hqn]
      have hl : 0 < (cutRest F [] k).length := List.length_pos_iff.mpr hqn
      obtain ⟨f', rfl⟩ : ∃ f', fuel = f' + 2 := ⟨fuel - 2, by omega⟩
      rw [hq] at hqn ⊢
      rcases fasta_take_cases f (hwf f hfm) j hj with h0 | ⟨_, hle, hn, _⟩ | ⟨hlt, s', he', hdrop, hs', _⟩
      · exact absurd h0 hqn
      · rw [if_pos hle]
        have hst := fastaStep_cut_def _ hn hqn
        cases hpd : parseDefinition (f.bytes.take j) with
        | error e =>
          rw [hpd] at hst
          simp only [pLoop, hst, List.reverse_reverse]
        | ok x =>
          obtain ⟨name, desc⟩ := x
          rw [hpd] at hst
          simp only [pLoop, hst, fastaStep_nil, List.reverse_cons, List.reverse_reverse]
      · rw [if_neg (by omega), hdrop]
        have hst := fastaStep_cut_seq f.d s' (hwf f hfm).1 hs' _ _ (hparse f hfm)
        rw [← he'] at hst
        simp only [pLoop, hst, fastaStep_nil, List.reverse_cons, List.reverse_reverse]


/-! ### UTF-8 validity and ASCII separators -/

theorem validUtf8_cons (b0 : UInt8) (r : Bytes) :
    validUtf8 (b0 :: r) =
      if b0.toNat < 0x80 then validUtf8 r
      else if inRange b0 0xC2 0xDF then
        match r with
        | b1 :: r1 => inRange b1 0x80 0xBF && validUtf8 r1
        | _ => false
      else if inRange b0 0xE0 0xEF then
        match r with
        | b1 :: b2 :: r2 =>
          (if b0.toNat = 0xE0 then inRange b1 0xA0 0xBF
           else if b0.toNat = 0xED then inRange b1 0x80 0x9F
           else inRange b1 0x80 0xBF) && inRange b2 0x80 0xBF && validUtf8 r2
        | _ => false
      else if inRange b0 0xF0 0xF4 then
        match r with
        | b1 :: b2 :: b3 :: r3 =>
          (if b0.toNat = 0xF0 then inRange b1 0x90 0xBF
           else if b0.toNat = 0xF4 then inRange b1 0x80 0x8F
           else inRange b1 0x80 0xBF) && inRange b2 0x80 0xBF && inRange b3 0x80 0xBF && validUtf8 r3
        | _ => false
      else false := by
  conv => lhs; unfold validUtf8
  rcases r with _ | ⟨b1, _ | ⟨b2, _ | ⟨b3, r3⟩⟩⟩ <;> rfl

/-- an ASCII byte is not a continuation byte -/
theorem inRange_ascii_false (c : UInt8) (hc : c.toNat < 0x80) (lo hi : Nat) (hlo : 0x80 ≤ lo) :
    inRange c lo hi = false := by
  simp only [inRange, Bool.and_eq_false_iff, decide_eq_false_iff_not]
  left; omega

set_option linter.unusedSimpArgs false in
/-- **an ASCII byte splits a byte string into two independently validated parts** -/
theorem validUtf8_append_ascii (a : Bytes) (c : UInt8) (b : Bytes) (hc : c.toNat < 0x80) :
    validUtf8 (a ++ c :: b) = (validUtf8 a && validUtf8 b) := by
  have hr : ∀ lo hi, 0x80 ≤ lo → inRange c lo hi = false := fun lo hi h => inRange_ascii_false c hc lo hi h
  induction a using Noodles.Index.validUtf8.induct with
  | case1 => rw [List.nil_append, validUtf8_cons_ascii c b hc, validUtf8_nil, Bool.true_and]
  | case2 b0 r h ih =>
    rw [List.cons_append, validUtf8_cons_ascii _ _ h, validUtf8_cons_ascii _ _ h, ih]
  | case3 b0 h1 h2 b1 r1 ih =>
    rw [List.cons_append, List.cons_append, validUtf8_cons, validUtf8_cons b0]
    simp only [h1, h2, Bool.false_eq_true, if_false, if_true, Bool.and_false, Bool.false_and, Bool.and_assoc, ih, Bool.and_assoc]
  | case4 b0 r h1 h2 hno =>
    cases r with
    | cons b1 r1 => exact absurd rfl (hno b1 r1)
    | nil =>
      rw [List.cons_append, List.nil_append, validUtf8_cons, validUtf8_cons b0]
      simp only [h1, h2, Bool.false_eq_true, if_false, if_true, Bool.and_false, Bool.false_and, Bool.and_assoc, hr 0x80 0xBF (by omega), Bool.false_and]
  | case5 b0 h1 h2 h3 b1 b2 r2 ih =>
    rw [List.cons_append, List.cons_append, List.cons_append, validUtf8_cons, validUtf8_cons b0]
    simp only [h1, h2, h3, Bool.false_eq_true, if_false, if_true, Bool.and_false, Bool.false_and, Bool.and_assoc, ih, Bool.and_assoc]
  | case6 b0 r h1 h2 h3 hno =>
    rw [List.cons_append, validUtf8_cons, validUtf8_cons b0]
    simp only [h1, h2, h3, Bool.false_eq_true, if_false, if_true, Bool.and_false, Bool.false_and, Bool.and_assoc]
    cases r with
    | nil =>
      cases b with
      | nil => simp
      | cons b' bs =>
        simp only [List.nil_append, hr 0xA0 0xBF (by omega), hr 0x80 0x9F (by omega), hr 0x80 0xBF (by omega),
          ite_self, Bool.false_and, Bool.false_eq_true, if_false]
    | cons b1 r =>
      cases r with
      | cons b2 r2 => exact absurd rfl (hno b1 b2 r2)
      | nil => simp only [List.cons_append, List.nil_append, hr 0x80 0xBF (by omega), Bool.and_false, Bool.false_and, Bool.false_eq_true, if_false, ite_self]
  | case7 b0 h1 h2 h3 h4 b1 b2 b3 r3 ih =>
    rw [List.cons_append, List.cons_append, List.cons_append, List.cons_append, validUtf8_cons, validUtf8_cons b0]
    simp only [h1, h2, h3, h4, Bool.false_eq_true, if_false, if_true, Bool.and_false, Bool.false_and, Bool.and_assoc, ih, Bool.and_assoc]
  | case8 b0 r h1 h2 h3 h4 hno =>
    rw [List.cons_append, validUtf8_cons, validUtf8_cons b0]
    simp only [h1, h2, h3, h4, Bool.false_eq_true, if_false, if_true, Bool.and_false, Bool.false_and, Bool.and_assoc]
    cases r with
    | nil =>
      cases b with
      | nil => simp
      | cons b' bs =>
        cases bs with
        | nil => simp
        | cons b'' bs' =>
          simp only [List.nil_append, hr 0x90 0xBF (by omega), hr 0x80 0x8F (by omega), hr 0x80 0xBF (by omega),
            ite_self, Bool.false_and, Bool.false_eq_true, if_false]
    | cons b1 r =>
      cases r with
      | nil =>
        cases b with
        | nil => simp
        | cons b' bs =>
          simp only [List.cons_append, List.nil_append, hr 0x80 0xBF (by omega), Bool.and_false, Bool.false_and, Bool.false_eq_true, if_false, ite_self]
      | cons b2 r =>
        cases r with
        | cons b3 r3 => exact absurd rfl (hno b1 b2 b3 r3)
        | nil =>
          simp only [List.cons_append, List.nil_append, hr 0x80 0xBF (by omega), Bool.and_false, Bool.false_and, Bool.false_eq_true, if_false, ite_self]
  | case9 b0 r h1 h2 h3 h4 =>
    rw [List.cons_append, validUtf8_cons, validUtf8_cons b0]
    simp only [h1, h2, h3, h4, if_false, Bool.false_eq_true, Bool.false_and]

set_option linter.unusedSimpArgs false in
/-- after a valid prefix, validation goes on with the rest -/
theorem validUtf8_append_of_valid (a b : Bytes) (h : validUtf8 a = true) :
    validUtf8 (a ++ b) = validUtf8 b := by
  induction a using Noodles.Index.validUtf8.induct with
  | case1 => rfl
  | case2 b0 r h0 ih =>
    rw [validUtf8_cons_ascii _ _ h0] at h
    rw [List.cons_append, validUtf8_cons_ascii _ _ h0, ih h]
  | case3 b0 h1 h2 b1 r1 ih =>
    rw [validUtf8_cons] at h
    simp only [h1, h2, Bool.false_eq_true, if_false, if_true, Bool.and_eq_true] at h
    rw [List.cons_append, List.cons_append, validUtf8_cons]
    simp only [h1, h2, Bool.false_eq_true, if_false, if_true, ih h.2, h.1, Bool.true_and]
  | case4 b0 r h1 h2 hno =>
    rw [validUtf8_cons] at h
    simp only [h1, h2, Bool.false_eq_true, if_false, if_true] at h
  | case5 b0 h1 h2 h3 b1 b2 r2 ih =>
    rw [validUtf8_cons] at h
    simp only [h1, h2, h3, Bool.false_eq_true, if_false, if_true, Bool.and_eq_true] at h
    rw [List.cons_append, List.cons_append, List.cons_append, validUtf8_cons]
    simp only [h1, h2, h3, Bool.false_eq_true, if_false, if_true, ih h.2, h.1.1, h.1.2, Bool.true_and]
  | case6 b0 r h1 h2 h3 hno =>
    rw [validUtf8_cons] at h
    simp only [h1, h2, h3, Bool.false_eq_true, if_false, if_true] at h
  | case7 b0 h1 h2 h3 h4 b1 b2 b3 r3 ih =>
    rw [validUtf8_cons] at h
    simp only [h1, h2, h3, h4, Bool.false_eq_true, if_false, if_true, Bool.and_eq_true] at h
    rw [List.cons_append, List.cons_append, List.cons_append, List.cons_append, validUtf8_cons]
    simp only [h1, h2, h3, h4, Bool.false_eq_true, if_false, if_true, ih h.2, h.1.1.1, h.1.1.2, h.1.2,
      Bool.true_and]
  | case8 b0 r h1 h2 h3 h4 hno =>
    rw [validUtf8_cons] at h
    simp only [h1, h2, h3, h4, Bool.false_eq_true, if_false, if_true] at h
  | case9 b0 r h1 h2 h3 h4 =>
    rw [validUtf8_cons] at h
    simp only [h1, h2, h3, h4, Bool.false_eq_true, if_false] at h


/-! ### T3, the exact condition: the cut line is delivered iff the bytes present are valid UTF-8 -/

/-- `read_field` on LF-free bytes at the end of the input, with the shape of what it read: the field
`pre` is appended, and the bytes are valid UTF-8 iff the field and what is left are -/
theorem pReadFieldInto_noLF_utf8 (dst p : Bytes) (h : noLF p = true) :
    ∃ pre n p', pReadFieldInto dst p = (.ok (dst ++ pre, n, false), p') ∧ n + p'.length = p.length ∧
      noLF p' = true ∧ validUtf8 p = (validUtf8 pre && validUtf8 p') := by
  have hb : ((none : Option UInt8) == some LF) = false := by decide
  have hb2 : (some TAB == some LF) = false := by decide
  rcases findSplit_delim_noLF p h with hn | ⟨pre, post, hfs, hp⟩
  · refine ⟨p, p.length, [], ?_, by simp, rfl, by rw [validUtf8_nil, Bool.and_true]⟩
    simp only [pReadFieldInto, specField_none dst p hn, hb, Bool.false_and, Bool.false_eq_true, if_false]
  · have hx := findSplit_some_eq _ p pre post TAB hfs
    have hsp := specField_split dst p [] pre post TAB hfs
    rw [List.append_nil, List.append_nil] at hsp
    refine ⟨pre, pre.length + 1, post, ?_, by rw [hx]; simp; omega, hp, ?_⟩
    · simp only [pReadFieldInto, hsp, hb2, Bool.false_and, Bool.false_eq_true, if_false]
    · rw [hx]; exact validUtf8_append_ascii pre TAB post (by decide)

theorem pVcfRequiredFields_noLF_utf8 (k : Nat) (dst : Bytes) (ends : List Nat) (len : Nat) (p : Bytes)
    (h : noLF p = true) (hd : validUtf8 dst = true) :
    (validUtf8 p = false ∧ ∃ p', pVcfRequiredFields k dst ends len p = (.error .invalidData, p')) ∨
    (∃ d' ends' n p', pVcfRequiredFields k dst ends len p = (.ok (d', ends', len + n), p') ∧
      n + p'.length = p.length ∧ noLF p' = true ∧ validUtf8 d' = true ∧ validUtf8 p = validUtf8 p') := by
  induction k generalizing dst ends len p with
  | zero => exact Or.inr ⟨dst, ends, 0, p, rfl, by simp, h, hd, rfl⟩
  | succ k ih =>
    obtain ⟨pre, n1, p1, hf, hl1, hp1, hv⟩ := pReadFieldInto_noLF_utf8 dst p h
    have hvd : validUtf8 (dst ++ pre) = validUtf8 pre := validUtf8_append_of_valid dst pre hd
    cases hpre : validUtf8 pre with
    | false =>
      left
      rw [hpre, Bool.false_and] at hv
      refine ⟨hv, p1, ?_⟩
      simp only [pVcfRequiredFields, pVcfRequiredField, pVcfReadFieldInto, SP.bind, hf, hvd, hpre,
        Bool.false_eq_true, if_false, SP.fail]
    | true =>
      rw [hpre, Bool.true_and] at hv
      rcases ih (dst ++ pre) ((dst ++ pre).length :: ends) (len + n1) p1 hp1 (by rw [hvd, hpre]) with
        ⟨hv1, p', he⟩ | ⟨d', ends', n, p', he, hl2, hp', hd', hv2⟩
      · left
        refine ⟨by rw [hv, hv1], p', ?_⟩
        simp only [pVcfRequiredFields, pVcfRequiredField, pVcfReadFieldInto, SP.bind, hf, hvd, hpre, if_true,
          Bool.false_eq_true, if_false, SP.pure, he]
      · right
        refine ⟨d', ends', n1 + n, p', ?_, by omega, hp', hd', by rw [hv, hv2]⟩
        simp only [pVcfRequiredFields, pVcfRequiredField, pVcfReadFieldInto, SP.bind, hf, hvd, hpre, if_true,
          Bool.false_eq_true, if_false, SP.pure, he, Nat.add_assoc]

/-- **The lazy VCF reader on LF-free bytes at the end of the input, exactly**: a record (of `len` = the
number of bytes present, everything used up) if the bytes are valid UTF-8, `InvalidData` if not. -/
theorem pVcfReadRecord_noLF_utf8 (p : Bytes) (h : noLF p = true) :
    (validUtf8 p = false ∧ ∃ p', pVcfReadRecord p = (.error .invalidData, p')) ∨
    (validUtf8 p = true ∧ ∃ rec, pVcfReadRecord p = (.ok rec, []) ∧ rec.len = p.length) := by
  rcases pVcfRequiredFields_noLF_utf8 7 [] [] 0 p h validUtf8_nil with
    ⟨hv, p', he⟩ | ⟨d, ends, n, p1, he, hl, hp1, hd, hv⟩
  · left
    refine ⟨hv, p', ?_⟩
    simp only [pVcfReadRecord, SP.bind, he]
  · obtain ⟨pre, n1, p2, hf, hl1, hp2, hv1⟩ := pReadFieldInto_noLF_utf8 d p1 hp1
    have hvd : validUtf8 (d ++ pre) = validUtf8 pre := validUtf8_append_of_valid d pre hd
    cases hpre : validUtf8 pre with
    | false =>
      left
      rw [hpre, Bool.false_and] at hv1
      refine ⟨by rw [hv, hv1], p2, ?_⟩
      simp only [pVcfReadRecord, pVcfReadFieldInto, SP.bind, he, hf, hvd, hpre, Bool.false_eq_true, if_false,
        SP.fail]
    | true =>
      rw [hpre, Bool.true_and] at hv1
      cases hv2 : validUtf8 p2 with
      | false =>
        left
        refine ⟨by rw [hv, hv1, hv2], [], ?_⟩
        simp only [pVcfReadRecord, pVcfReadFieldInto, SP.bind, he, hf, hvd, hpre, if_true, Bool.false_eq_true,
          if_false, pReadLineUtf8Into, specUntil_noLF p2 hp2, hv2, SP.pure]
      | true =>
        right
        refine ⟨by rw [hv, hv1, hv2],
          ⟨0 + n + n1 + p2.length, (d ++ pre) ++ stripEol p2, ((d ++ pre).length :: ends).reverse⟩, ?_,
          by simp only; omega⟩
        simp only [pVcfReadRecord, pVcfReadFieldInto, SP.bind, he, hf, hvd, hpre, if_true, Bool.false_eq_true,
          if_false, pReadLineUtf8Into, specUntil_noLF p2 hp2, hv2, SP.pure]

/-- **T3, exact form.** As `vcf_lazy_cut`, with the round on the cut line resolved: what is present of
the cut line is delivered as one more record iff it is valid UTF-8; otherwise (the cut is inside a
multi-byte character) the reader fails with `InvalidData`. -/
theorem vcf_lazy_cut_utf8 (ls : List Bytes) (hline : ∀ l ∈ ls, IsLine l)
    (hacc : ∀ l ∈ ls, ∃ rec, (pVcfReadRecord l).1 = .ok rec)
    (k : Nat) (b : BufR UInt8) (hc : 0 < b.cap) (hs : b.stream = ls.flatten.take k) :
    (vcfRecordsAll b).1 = .ok (
      if cutP ls k = [] then ((ls.take (cutN ls k)).map vcfRecOfLine, none)
      else if validUtf8 (cutP ls k) = true then
        ((ls.take (cutN ls k)).map vcfRecOfLine ++ [vcfRecOfLine (cutP ls k)], none)
      else ((ls.take (cutN ls k)).map vcfRecOfLine, some .invalidData)) := by
  rw [vcf_lazy_cut ls hline hacc k b hc hs]
  by_cases hp : cutP ls k = []
  · rw [if_pos hp, if_pos hp]
  · rw [if_neg hp, if_neg hp]
    rcases pVcfReadRecord_noLF_utf8 (cutP ls k) (cutP_noLF ls hline k) with ⟨hv, p', he⟩ | ⟨hv, rec, he, _⟩
    · rw [he, hv]; rfl
    · have : vcfRecOfLine (cutP ls k) = rec := by simp only [vcfRecOfLine, he]
      rw [he, hv, this]; rfl

/-! ## witnesses (concrete inputs, checked by evaluation in the kernel) and non-vacuity -/

/-- non-vacuity of `sam_lazy_cut` / `vcf_lazy_cut_ascii` -/
example : (∀ l ∈ [samLineW, samLineW], IsLine l) ∧ (∀ l ∈ [samLineW, samLineW], 10 ≤ l.count TAB) ∧
    (∀ l ∈ [samLineW, samLineW], isAscii l = true) ∧
    cutN [samLineW, samLineW] 25 = 1 ∧ cutP [samLineW, samLineW] 25 = [49, 9, 50] := by
  decide

/-- **Witness (lazy SAM): a record that was never written.** Two SAM lines cut 3 bytes into the second
one (`"1\t2"`): the second record delivered has `len = 3`, the buffer `"12"` and nine empty fields; then
a clean end of input. -/
theorem sam_lazy_cut_delivers_partial_line :
    (samRecordsAll (BufR.ofSrc ⟨([samLineW, samLineW] : List Bytes).flatten.take 25, []⟩ 8)).1
      = .ok ([⟨22, [49, 50, 51, 52, 53, 54, 55, 56, 57, 65, 66], [1, 2, 3, 4, 5, 6, 7, 8, 9, 10, 11]⟩,
              ⟨3, [49, 50], [1, 2, 2, 2, 2, 2, 2, 2, 2, 2, 2]⟩], none) := by
  decide +kernel

/-- **Witness (lazy VCF): the same text, the cut line is delivered** -/
theorem vcf_lazy_cut_delivers_partial_line :
    (vcfRecordsAll (BufR.ofSrc ⟨([samLineW, samLineW] : List Bytes).flatten.take 25, []⟩ 8)).1
      = .ok ([⟨22, [49, 50, 51, 52, 53, 54, 55, 56, 57, 9, 65, 9, 66], [1, 2, 3, 4, 5, 6, 7, 8]⟩,
              ⟨3, [49, 50], [1, 2, 2, 2, 2, 2, 2, 2]⟩], none) := by
  decide +kernel

/-- non-vacuity of `vcf_lazy_cut` with a non-ASCII line: the line is accepted -/
example : IsLine vcfLineW ∧ (pVcfReadRecord vcfLineW).1 =
    .ok ⟨17, [0xC3, 0xA9, 50, 51, 52, 53, 54, 55, 56], [2, 3, 4, 5, 6, 7, 8, 9]⟩ := by
  decide +kernel

/-- **Witness (lazy VCF): a cut inside a multi-byte character is `InvalidData`.** -/
theorem vcf_lazy_cut_inside_character :
    (vcfRecordsAll (BufR.ofSrc ⟨([vcfLineW, vcfLineW] : List Bytes).flatten.take 18, []⟩ 8)).1
      = .ok ([⟨17, [0xC3, 0xA9, 50, 51, 52, 53, 54, 55, 56], [2, 3, 4, 5, 6, 7, 8, 9]⟩],
             some .invalidData) := by
  decide +kernel

/-- **Witness (GFF3): `"a\n \n\nbc\n"` cut after 6 bytes** — the blank lines are skipped and the cut
line `"b"` is delivered -/
theorem gff_lines_cut_delivers_partial_line :
    (gffLinesAll (BufR.ofSrc ⟨([[97, 10], [32, 10], [10], [98, 99, 10]] : List Bytes).flatten.take 6, []⟩ 8)).1
      = .ok ([(2, [97]), (1, [98])], none) := by
  decide +kernel

/-- the same from the theorem's right-hand side -/
example : (∀ l ∈ ([[97, 10], [32, 10], [10], [98, 99, 10]] : List Bytes), IsLine l) ∧
    (([[97, 10], [32, 10], [10], [98, 99, 10]] : List Bytes).take
      (cutN [[97, 10], [32, 10], [10], [98, 99, 10]] 6)).filterMap gffItem = [(2, [97])] ∧
    cutP [[97, 10], [32, 10], [10], [98, 99, 10]] 6 = [98] := by
  decide +kernel

/-- non-vacuity of `fasta_cut` -/
example : (∀ f ∈ fastaW, f.Wf) ∧
    (fastaW.map (·.bytes)).flatten = [62, 97, 10, 65, 67, 71, 84, 10, 62, 98, 10, 71, 71, 10] ∧
    (∀ f ∈ fastaW, parseDefinition (stripEol (GT :: f.d)) = .ok (f.d.dropLast, [])) := by
  decide +kernel

/-- **Witness (FASTA): a shorter record.** `">a\nACGT\n>b\nGG\n"` cut after 5 bytes delivers the record
`a` with the sequence `"AC"`, and a clean end of input. -/
theorem fasta_cut_delivers_shorter_record :
    (fastaRecordsAll (fun _ => []) (BufR.ofSrc ⟨(fastaW.map (·.bytes)).flatten.take 5, []⟩ 8)).1
      = .ok ([⟨[97], [], [65, 67]⟩], none) := by
  decide +kernel

/-- **Witness (FASTA): cut inside a definition line.** After 9 bytes (`">"` of the second record):
`InvalidData`; after 10 bytes (`">b"`): a record `b` with an empty sequence. -/
theorem fasta_cut_inside_definition :
    (fastaRecordsAll (fun _ => []) (BufR.ofSrc ⟨(fastaW.map (·.bytes)).flatten.take 9, []⟩ 8)).1
      = .ok ([⟨[97], [], [65, 67, 71, 84]⟩], some .invalidData) ∧
    (fastaRecordsAll (fun _ => []) (BufR.ofSrc ⟨(fastaW.map (·.bytes)).flatten.take 10, []⟩ 8)).1
      = .ok ([⟨[97], [], [65, 67, 71, 84]⟩, ⟨[98], [], []⟩], none) := by
  decide +kernel

/-- non-vacuity of `fastq_cut` -/
example : (∀ f ∈ fastqW, f.Wf) ∧
    (fastqW.map (·.bytes)).flatten = [64, 114, 10, 65, 67, 71, 84, 10, 43, 10, 73, 73, 73, 73, 10] := by
  decide +kernel

/-- **Witness (FASTQ): a short quality string.** `"@r\nACGT\n+\nIIII\n"` cut after 11 bytes delivers the
record `r` / `ACGT` with the quality string `"I"`; cut after 9 bytes (just the `+`) or 10 bytes it
delivers the record with an EMPTY quality string; cut after 8 bytes: `UnexpectedEof`. -/
theorem fastq_cut_delivers_short_quality :
    (fastqRecordsAll true (BufR.ofSrc ⟨(fastqW.map (·.bytes)).flatten.take 11, []⟩ 8)).1
      = ([(11, ⟨[114], [], [65, 67, 71, 84], [73]⟩)], none) ∧
    (fastqRecordsAll true (BufR.ofSrc ⟨(fastqW.map (·.bytes)).flatten.take 10, []⟩ 8)).1
      = ([(10, ⟨[114], [], [65, 67, 71, 84], []⟩)], none) ∧
    (fastqRecordsAll true (BufR.ofSrc ⟨(fastqW.map (·.bytes)).flatten.take 9, []⟩ 8)).1
      = ([(9, ⟨[114], [], [65, 67, 71, 84], []⟩)], none) ∧
    (fastqRecordsAll true (BufR.ofSrc ⟨(fastqW.map (·.bytes)).flatten.take 8, []⟩ 8)).1
      = ([], some .eof) := by
  decide +kernel


/-! ### the witnesses again, this time THROUGH the theorems (their hypotheses are satisfiable and their
right-hand sides evaluate to what the readers deliver) -/

example : (parsedLinesAll false (fun l => Except.ok l)
      (BufR.ofSrc ⟨([[97, 98, 10], [99, 100, 10]] : List Bytes).flatten.take 4, []⟩ 8)).1
      = .ok ([(3, [97, 98]), (1, [99])], none) := by
  rw [parsedLines_cut false (fun l => Except.ok l) stripEol [[97, 98, 10], [99, 100, 10]] (by decide)
    (by intro h; cases h) (fun _ _ => rfl) 4 _ (by decide) rfl]
  decide +kernel

example : (samRecordsAll (BufR.ofSrc ⟨([samLineW, samLineW] : List Bytes).flatten.take 25, []⟩ 8)).1
      = .ok ([⟨22, [49, 50, 51, 52, 53, 54, 55, 56, 57, 65, 66], [1, 2, 3, 4, 5, 6, 7, 8, 9, 10, 11]⟩,
              ⟨3, [49, 50], [1, 2, 2, 2, 2, 2, 2, 2, 2, 2, 2]⟩], none) := by
  rw [sam_lazy_cut [samLineW, samLineW] (by decide) (by decide) 25 _ (by decide) rfl]
  decide +kernel

example : (vcfRecordsAll (BufR.ofSrc ⟨([vcfLineW, vcfLineW] : List Bytes).flatten.take 18, []⟩ 8)).1
      = .ok ([⟨17, [0xC3, 0xA9, 50, 51, 52, 53, 54, 55, 56], [2, 3, 4, 5, 6, 7, 8, 9]⟩],
             some .invalidData) := by
  rw [vcf_lazy_cut_utf8 [vcfLineW, vcfLineW] (by decide)
    (by intro l hl; exact ⟨⟨17, [0xC3, 0xA9, 50, 51, 52, 53, 54, 55, 56], [2, 3, 4, 5, 6, 7, 8, 9]⟩, by
      simp only [List.mem_cons, List.not_mem_nil, or_false, or_self] at hl; subst hl; decide +kernel⟩)
    18 _ (by decide) rfl]
  decide +kernel

example : (gffLinesAll (BufR.ofSrc ⟨([[97, 10], [32, 10], [10], [98, 99, 10]] : List Bytes).flatten.take 6, []⟩ 8)).1
      = .ok ([(2, [97]), (1, [98])], none) := by
  rw [gff_lines_cut [[97, 10], [32, 10], [10], [98, 99, 10]] (by decide) 6 _ (by decide) rfl]
  decide +kernel

example : (fastaRecordsAll (fun _ => []) (BufR.ofSrc ⟨(fastaW.map (·.bytes)).flatten.take 5, []⟩ 8)).1
      = .ok ([⟨[97], [], [65, 67]⟩], none) := by
  rw [fasta_cut (fun _ => []) fastaW (fun f => (f.d.dropLast, [])) (by decide) (by decide +kernel) 5 _
    (by decide) rfl]
  decide +kernel

example : (fastqRecordsAll true (BufR.ofSrc ⟨(fastqW.map (·.bytes)).flatten.take 11, []⟩ 8)).1
      = ([(11, ⟨[114], [], [65, 67, 71, 84], [73]⟩)], none) := by
  rw [fastq_cut fastqW (by decide) 11 _ (by decide) rfl]
  decide +kernel

end Noodles.IO
