import Noodles.Trunc.CutProof
/-!
# The binary readers of `Noodles.Io.Binary` on a cut file (proofs for C13, part 2)

Instances of the generic theorems of `CutProof.lean`: the BAM / BCF / CRAM record loops, the CRAM file
definition, and the BAI / tabix / CSI / gzi index readers.
-/
namespace Noodles.IO
namespace Prog
variable {β γ : Type}

theorem bind_eq (p : Prog β) (f : β → Prog γ) : (p >>= f) = Prog.bind p f := rfl
theorem pure_eq (b : β) : (pure b : Prog β) = ret b := rfl

/-! ## `records` is a `pLoop` -/

/-- the step function of a record reader -/
def stepOf (rd : Prog (Option β)) : Bytes → Except Err (Option β) × Bytes := runPure rd

theorem runPure_records (rd : Prog (Option β)) (fuel : Nat) (acc : List β) (d : Bytes) :
    runPure (records rd fuel acc) d =
      (.ok (pLoop (stepOf rd) fuel acc d).1, (pLoop (stepOf rd) fuel acc d).2) := by
  induction fuel generalizing acc d with
  | zero => rfl
  | succ fuel ih =>
    simp only [records, runPure_bind, runPure_attempt, pLoop, stepOf]
    rcases runPure rd d with ⟨r, d'⟩
    cases r with
    | error e => rfl
    | ok o =>
      cases o with
      | none => rfl
      | some x => simp only; rw [ih]; rfl

/-! ## a reader that starts with `read_exact_or_eof` -/

/-- A record reader `read_exact_or_eof(n)?; …` whose every later read is followed by `?`: cut after
at least one byte and before its end, it fails. (Cut before the first byte it reports the clean end:
that is `k = 0`.) -/
theorem framed_cut {E : Err → Prop} (n : Nat) (kk : Except Err Bytes → Prog β)
    (h1 : Starved E (kk (.error .eof)))
    (h2 : ∀ bs, bs.length = n → CutFails E (kk (.ok bs)))
    (d : Bytes) (k : Nat) (hk0 : 0 < k) (hk : k ≤ d.length) (hu : k < used (exactOrEof n kk) d) :
    ∃ e, E e ∧ runPure (exactOrEof n kk) (d.take k) = (.error e, []) := by
  by_cases hn : n ≤ k
  · have hnd : n ≤ d.length := by omega
    rw [used_exactOrEof_ok n kk d hnd] at hu
    have hs : specReadExactOrEof (d.take k) n = (.ok (d.take n), (d.drop n).take (k - n)) := by
      simp only [specReadExactOrEof, List.length_take]
      rw [if_pos (by omega), take_take_min d n k hn, drop_take_comm]
    simp only [runPure, hs]
    exact h2 (d.take n) (by simp; omega) (d.drop n) (k - n) (by simp; omega) (by omega)
  · have hs : specReadExactOrEof (d.take k) n = (.error .eof, []) := by
      simp only [specReadExactOrEof, List.length_take]
      rw [if_neg (by omega), if_neg (by omega)]
    obtain ⟨e, he, hr⟩ := h1
    refine ⟨e, he, ?_⟩
    simp only [runPure, hs]
    exact Prod.ext hr (runPure_nil_snd _)

theorem leNat_le (n k : Nat) (h : k < 256 ^ n) : leNat (Noodles.Codec.le n k) = k := by
  induction n generalizing k with
  | zero => simp at h; simp [Noodles.Codec.le, leNat]; omega
  | succ n ih =>
    have hk : k / 256 < 256 ^ n := by rw [Nat.pow_succ] at h; omega
    simp only [Noodles.Codec.le, leNat, ih (k / 256) hk]
    have : (UInt8.ofNat (k % 256)).toNat = k % 256 := by simp
    rw [this]; omega

theorem zeroPad_self (bs : Bytes) (n : Nat) (h : bs.length = n) : zeroPad n bs = bs := by
  unfold zeroPad
  rw [List.take_append_of_le_length (by omega), List.take_of_length_le (by omega)]

/-! ## BAM -/

open Noodles.Trunc (bamFrame bamStream bcfFrame bcfStream)

/-- what follows the block size in `read_record` -/
def bamAfterSize (hdr : Bytes) : Prog (Option Bytes) :=
  if leNat (zeroPad 4 hdr) = 0 then ret none
  else bind (readExactToVec (leNat (zeroPad 4 hdr))) fun body =>
    if bamValidate body then ret (some body) else fail .eof

theorem bamReadRecordV_eq :
    bamReadRecordV = exactOrEof 4 fun
      | .error e => fail e
      | .ok hdr => bamAfterSize hdr := rfl

theorem cutFails_bamAfterSize (hdr : Bytes) : CutFails IsEof (bamAfterSize hdr) := by
  unfold bamAfterSize
  split
  · exact cutFails_ret _ _
  · exact cutFails_bind (cutFails_readExactToVec _) fun body => by
      split
      · exact cutFails_ret _ _
      · exact cutFails_fail _ _

theorem runPure_readExactToVec (n : Nat) (d : Bytes) (h : n ≤ d.length) :
    runPure (readExactToVec n) d = (.ok (d.take n), d.drop n) := by
  simp only [readExactToVec, runPure]
  rw [if_pos (by simp; omega)]
  rfl

/-- a whole record, followed by anything, is read as that record -/
theorem bam_item (r : Bytes) (hv : bamValidate r = true) (hl : r.length < 2 ^ 32) (rest : Bytes) :
    runPure bamReadRecordV (bamFrame r ++ rest) = (.ok (some r), rest) := by
  have h32 : 32 ≤ r.length := by
    unfold bamValidate at hv
    by_cases h : r.length < 32
    · rw [if_pos h] at hv; exact absurd hv (by decide)
    · omega
  have hlen : (Noodles.Codec.le 4 r.length).length = 4 := Noodles.Codec.le_length 4 _
  have hs : specReadExactOrEof (bamFrame r ++ rest) 4 = (.ok (Noodles.Codec.le 4 r.length), r ++ rest) := by
    simp only [specReadExactOrEof, bamFrame, List.append_assoc, List.length_append, hlen]
    rw [if_pos (by omega)]
    rw [List.take_append_of_le_length (by omega), List.take_of_length_le (by omega),
      List.drop_append_of_le_length (by omega), List.drop_of_length_le (by omega)]
    rfl
  rw [bamReadRecordV_eq]
  simp only [runPure, hs, bamAfterSize]
  rw [zeroPad_self _ 4 hlen, leNat_le 4 r.length (by simpa using hl), if_neg (by omega), runPure_bind,
    runPure_readExactToVec _ _ (by simp)]
  simp only [List.take_left', List.drop_left']
  rw [if_pos hv]
  rfl

theorem bam_nil : runPure bamReadRecordV [] = (.ok none, []) := by rfl

/-- a record cut after its first byte and before its end is `UnexpectedEof` -/
theorem bam_cut_inside (r : Bytes) (hv : bamValidate r = true) (hl : r.length < 2 ^ 32) (j : Nat)
    (h0 : 0 < j) (hj : j < (bamFrame r).length) :
    runPure bamReadRecordV ((bamFrame r).take j) = (.error .eof, []) := by
  have hu : used bamReadRecordV (bamFrame r) = (bamFrame r).length := by
    have := bam_item r hv hl []
    simp only [List.append_nil] at this
    simp [used, this]
  obtain ⟨e, he, hr⟩ := framed_cut (E := IsEof) 4 _ ⟨.eof, rfl, rfl⟩
    (fun bs _ => cutFails_bamAfterSize bs) (bamFrame r) j h0 (by omega)
    (by rw [← bamReadRecordV_eq, hu]; exact hj)
  rw [← bamReadRecordV_eq] at hr
  rw [hr, he]

end Prog

/-! ## the cut theorem for loops over framed, strict record readers -/

theorem pLoop_stop_err {β : Type} (st : Bytes → Except Err (Option β) × Bytes) (fuel : Nat) (acc : List β)
    (c c' : Bytes) (e : Err) (h : st c = (.error e, c')) :
    pLoop st (fuel + 1) acc c = ((acc.reverse, some e), c') := by
  simp [pLoop, h]

theorem pLoop_stop_none {β : Type} (st : Bytes → Except Err (Option β) × Bytes) (fuel : Nat) (acc : List β)
    (c c' : Bytes) (h : st c = (.ok none, c')) :
    pLoop st (fuel + 1) acc c = ((acc.reverse, none), c') := by
  simp [pLoop, h]

theorem cutRest_of_lt {β : Type} (fs : List (Bytes × β)) (t : Bytes) (k : Nat)
    (h : (cutPos fs k).1 < fs.length) :
    ∃ p ∈ fs, cutRest fs t k = p.1.take (cutPos fs k).2 ∧ (cutPos fs k).2 < p.1.length := by
  have hs := (Noodles.Trunc.whole_spec (fs.map (·.1.length)) k).2 (by simpa [cutPos] using h)
  refine ⟨fs[(cutPos fs k).1], List.getElem_mem _, ?_, ?_⟩
  · simp only [cutRest]
    rw [List.getElem?_eq_getElem h]
  · have : (fs.map (·.1.length)).getD (cutPos fs k).1 0 = (fs[(cutPos fs k).1]).1.length := by
      rw [List.getD_eq_getElem?_getD, List.getElem?_map, List.getElem?_eq_getElem h]; rfl
    simp only [cutPos] at this ⊢
    omega

theorem cutRest_of_eq {β : Type} (fs : List (Bytes × β)) (t : Bytes) (k : Nat)
    (h : (cutPos fs k).1 = fs.length) : cutRest fs t k = t.take (cutPos fs k).2 := by
  simp only [cutRest]
  rw [List.getElem?_eq_none (by omega)]

/-- Frames read by a step function that (a) reads a whole frame followed by anything as its item,
(b) reports the clean end on an empty source, (c) fails with `UnexpectedEof` on a frame cut after its
first byte. Then for EVERY cut `k` of the stream of frames: exactly the items of the frames wholly
inside, then a clean end iff the cut is at a frame boundary (or beyond the end), else
`UnexpectedEof`; everything is used up. -/
theorem pLoop_cut_framed {β : Type} (st : Bytes → Except Err (Option β) × Bytes)
    (fs : List (Bytes × β))
    (hitem : ∀ p ∈ fs, ∀ r, st (p.1 ++ r) = (.ok (some p.2), r))
    (hnil : st [] = (.ok none, []))
    (hcut : ∀ p ∈ fs, ∀ j, 0 < j → j < p.1.length → st (p.1.take j) = (.error .eof, []))
    (k fuel : Nat) (hf : (cutPos fs k).1 < fuel) :
    pLoop st fuel [] (((fs.map (·.1)).flatten).take k) =
      (((fs.take (cutPos fs k).1).map (·.2),
        if (cutPos fs k).1 = fs.length ∨ (cutPos fs k).2 = 0 then none else some .eof), []) := by
  obtain ⟨f, rfl⟩ : ∃ f, fuel = (f + 1) + (cutPos fs k).1 := ⟨fuel - (cutPos fs k).1 - 1, by omega⟩
  have h := pLoop_cut st fs [] hitem k (f + 1) []
  rw [List.append_nil] at h
  rw [h]
  by_cases hn : (cutPos fs k).1 = fs.length
  · rw [cutRest_of_eq fs [] k hn, List.take_nil, pLoop_stop_none st f _ [] [] hnil]
    simp [hn]
  · obtain ⟨p, hp, hr, hj⟩ := cutRest_of_lt fs [] k (by have := cutPos_le_length fs k; omega)
    rw [hr]
    by_cases hj0 : (cutPos fs k).2 = 0
    · rw [hj0, List.take_zero, pLoop_stop_none st f _ [] [] hnil]
      simp [hj0]
    · rw [pLoop_stop_err st f _ _ [] .eof (hcut p hp _ (by omega) hj)]
      simp [hn, hj0]

namespace Prog
open Noodles.Trunc (bamFrame bamStream bcfFrame bcfStream)

/-- **BAM records (the reader with `read_exact_to_vec`), every cut.** -/
theorem bamRecordsV_cut (recs : List Bytes)
    (hv : ∀ r ∈ recs, bamValidate r = true ∧ r.length < 2 ^ 32) (k fuel : Nat)
    (hf : recs.length < fuel) :
    runPure (bamRecordsV fuel []) ((bamStream recs).take k) =
      (.ok (recs.take (Noodles.Trunc.bamCut recs k).1,
        if (Noodles.Trunc.bamCut recs k).1 = recs.length ∨ (Noodles.Trunc.bamCut recs k).2 = 0
        then none else some .eof), []) := by
  have hc : cutPos (Noodles.Trunc.bamFrames recs) k = Noodles.Trunc.bamCut recs k := by
    simp only [cutPos, Noodles.Trunc.bamCut, Noodles.Trunc.bamFrames_lens]
  have hlen : (Noodles.Trunc.bamFrames recs).length = recs.length := by simp [Noodles.Trunc.bamFrames]
  have h := pLoop_cut_framed (stepOf bamReadRecordV) (Noodles.Trunc.bamFrames recs)
    (by
      intro q hq r
      obtain ⟨p, hp, rfl⟩ := List.mem_map.1 hq
      exact bam_item p (hv p hp).1 (hv p hp).2 r)
    bam_nil
    (by
      intro q hq j h0 hj
      obtain ⟨p, hp, rfl⟩ := List.mem_map.1 hq
      exact bam_cut_inside p (hv p hp).1 (hv p hp).2 j h0 hj)
    k fuel (by
      have := cutPos_le_length (Noodles.Trunc.bamFrames recs) k
      omega)
  rw [Noodles.Trunc.bamFrames_flatten, Noodles.Trunc.bamFrames_take_items, hc, hlen] at h
  unfold bamRecordsV
  rw [runPure_records, h]

/-! ## BCF -/

/-- what the theorems ask of a written BCF record: a non-empty site block that `Fields::index`
accepts, lengths that fit `u32` -/
def BcfOkV (index : Bytes → Option Err) (p : Bytes × Bytes) : Prop :=
  0 < p.1.length ∧ p.1.length < 2 ^ 32 ∧ p.2.length < 2 ^ 32 ∧ index p.1 = none

/-- what follows `l_shared` in `read_record` -/
def bcfAfterSize (index : Bytes → Option Err) (hdr : Bytes) : Prog (Option (Bytes × Bytes)) :=
  if leNat (zeroPad 4 hdr) = 0 then ret none
  else bind u32le fun lIndiv =>
    bind (readExactToVec (leNat (zeroPad 4 hdr))) fun site =>
      match index site with
      | some e => fail e
      | none => bind (readExactToVec lIndiv) fun samples => ret (some (site, samples))

theorem bcfReadRecord_eq (index : Bytes → Option Err) :
    bcfReadRecord index = exactOrEof 4 fun
      | .error e => fail e
      | .ok hdr => bcfAfterSize index hdr := rfl

theorem cutFails_u32le : CutFails IsEof u32le :=
  cutFails_bind (cutFails_readExact 4) fun _ => cutFails_ret _ _

theorem cutFails_u64le : CutFails IsEof u64le :=
  cutFails_bind (cutFails_readExact 8) fun _ => cutFails_ret _ _

theorem cutFails_bcfAfterSize (index : Bytes → Option Err) (hdr : Bytes) :
    CutFails IsEof (bcfAfterSize index hdr) := by
  unfold bcfAfterSize
  split
  · exact cutFails_ret _ _
  · refine cutFails_bind cutFails_u32le fun lIndiv => cutFails_bind (cutFails_readExactToVec _) fun site => ?_
    split
    · exact cutFails_fail _ _
    · exact cutFails_bind (cutFails_readExactToVec _) fun _ => cutFails_ret _ _

theorem runPure_u32le (d : Bytes) (h : 4 ≤ d.length) :
    runPure u32le d = (.ok (leNat (d.take 4)), d.drop 4) := by
  simp only [u32le, runPure_bind, readExact_pure]
  rw [if_pos h]
  rfl

theorem bcf_item (index : Bytes → Option Err) (p : Bytes × Bytes) (hp : BcfOkV index p) (rest : Bytes) :
    runPure (bcfReadRecord index) (bcfFrame p ++ rest) = (.ok (some p), rest) := by
  obtain ⟨h0, h1, h2, h3⟩ := hp
  have hl1 : (Noodles.Codec.le 4 p.1.length).length = 4 := Noodles.Codec.le_length 4 _
  have hl2 : (Noodles.Codec.le 4 p.2.length).length = 4 := Noodles.Codec.le_length 4 _
  have hs : specReadExactOrEof (bcfFrame p ++ rest) 4 =
      (.ok (Noodles.Codec.le 4 p.1.length), Noodles.Codec.le 4 p.2.length ++ (p.1 ++ (p.2 ++ rest))) := by
    simp only [specReadExactOrEof, bcfFrame, List.append_assoc, List.length_append, hl1]
    rw [if_pos (by omega)]
    rw [List.take_append_of_le_length (by omega), List.take_of_length_le (by omega),
      List.drop_append_of_le_length (by omega), List.drop_of_length_le (by omega)]
    rfl
  rw [bcfReadRecord_eq]
  simp only [runPure, hs, bcfAfterSize]
  rw [zeroPad_self _ 4 hl1, leNat_le 4 p.1.length (by simpa using h1), if_neg (by omega), runPure_bind,
    runPure_u32le _ (by simp [hl2])]
  simp only
  rw [List.take_append_of_le_length (by omega), List.take_of_length_le (by omega),
    List.drop_append_of_le_length (by omega), List.drop_of_length_le (by omega),
    leNat_le 4 p.2.length (by simpa using h2), List.nil_append, runPure_bind,
    runPure_readExactToVec _ _ (by simp)]
  simp only [List.take_left', List.drop_left', h3]
  rw [runPure_bind, runPure_readExactToVec _ _ (by simp)]
  simp only [List.take_left', List.drop_left']
  rfl

theorem bcf_nil (index : Bytes → Option Err) : runPure (bcfReadRecord index) [] = (.ok none, []) := by
  rfl

theorem bcf_cut_inside (index : Bytes → Option Err) (p : Bytes × Bytes) (hp : BcfOkV index p) (j : Nat)
    (h0 : 0 < j) (hj : j < (bcfFrame p).length) :
    runPure (bcfReadRecord index) ((bcfFrame p).take j) = (.error .eof, []) := by
  have hu : used (bcfReadRecord index) (bcfFrame p) = (bcfFrame p).length := by
    have := bcf_item index p hp []
    simp only [List.append_nil] at this
    simp [used, this]
  obtain ⟨e, he, hr⟩ := framed_cut (E := IsEof) 4 _ ⟨.eof, rfl, rfl⟩
    (fun bs _ => cutFails_bcfAfterSize index bs) (bcfFrame p) j h0 (by omega)
    (by rw [← bcfReadRecord_eq, hu]; exact hj)
  rw [← bcfReadRecord_eq] at hr
  rw [hr, he]

/-- **BCF records, every cut.** -/
theorem bcfRecords_cut (index : Bytes → Option Err) (recs : List (Bytes × Bytes))
    (hv : ∀ p ∈ recs, BcfOkV index p) (k fuel : Nat) (hf : recs.length < fuel) :
    runPure (bcfRecords index fuel []) ((bcfStream recs).take k) =
      (.ok (recs.take (Noodles.Trunc.bcfCut recs k).1,
        if (Noodles.Trunc.bcfCut recs k).1 = recs.length ∨ (Noodles.Trunc.bcfCut recs k).2 = 0
        then none else some .eof), []) := by
  have hc : cutPos (Noodles.Trunc.bcfFrames recs) k = Noodles.Trunc.bcfCut recs k := by
    simp only [cutPos, Noodles.Trunc.bcfCut, Noodles.Trunc.bcfFrames_lens]
  have hlen : (Noodles.Trunc.bcfFrames recs).length = recs.length := by simp [Noodles.Trunc.bcfFrames]
  have h := pLoop_cut_framed (stepOf (bcfReadRecord index)) (Noodles.Trunc.bcfFrames recs)
    (by
      intro q hq r
      obtain ⟨p, hp, rfl⟩ := List.mem_map.1 hq
      exact bcf_item index p (hv p hp) r)
    (bcf_nil index)
    (by
      intro q hq j h0 hj
      obtain ⟨p, hp, rfl⟩ := List.mem_map.1 hq
      exact bcf_cut_inside index p (hv p hp) j h0 hj)
    k fuel (by
      have := cutPos_le_length (Noodles.Trunc.bcfFrames recs) k
      omega)
  rw [Noodles.Trunc.bcfFrames_flatten, Noodles.Trunc.bcfFrames_take_items, hc, hlen] at h
  unfold bcfRecords
  rw [runPure_records, h]

/-! ## automation: every read followed by `?` -/

/-- one step of a `CutFails` proof for a reader in `do` notation (after `simp only [bind_eq, pure_eq]`) -/
macro "cut_step" : tactic =>
  `(tactic| first
    | with_reducible exact cutFails_ret _ _
    | with_reducible exact cutFails_fail _ _
    | with_reducible exact cutFails_readExact _
    | with_reducible exact cutFails_readExactToVec _
    | with_reducible exact cutFails_u32le
    | with_reducible exact cutFails_u64le
    | with_reducible (refine cutFails_bind ?_ (fun _ => ?_))
    | split
    | (dsimp only))

/-! ## CRAM -/

theorem cutFails_itf8 : CutFails IsEof itf8 := by
  unfold itf8
  simp only [bind_eq, pure_eq]
  repeat' cut_step

theorem cutFails_ltf8 : CutFails IsEof ltf8 := by
  unfold ltf8
  simp only [bind_eq, pure_eq]
  repeat' cut_step

theorem cutFails_asUnsigned (bits : Nat) (p : Prog (Nat × Bytes)) (h : CutFails IsEof p) :
    CutFails IsEof (asUnsigned bits p) := by
  unfold asUnsigned
  refine cutFails_bind h (fun _ => ?_)
  repeat' cut_step

theorem cutFails_landmarksLoop (n : Nat) (acc : List Nat) (raw : Bytes) :
    CutFails IsEof (landmarksLoop n acc raw) := by
  induction n generalizing acc raw with
  | zero => exact cutFails_ret _ _
  | succ n ih =>
    unfold landmarksLoop
    exact cutFails_bind (cutFails_asUnsigned 32 _ cutFails_itf8) fun _ => ih _ _

theorem cutFails_cramReadHeader (crc : Bytes → Nat) : CutFails IsEof (cramReadHeader crc) := by
  unfold cramReadHeader
  simp only [bind_eq, pure_eq]
  repeat' (first
    | with_reducible exact cutFails_itf8
    | with_reducible exact cutFails_ltf8
    | with_reducible exact cutFails_asUnsigned _ _ cutFails_itf8
    | with_reducible exact cutFails_asUnsigned _ _ cutFails_ltf8
    | with_reducible exact cutFails_landmarksLoop _ _ _
    | cut_step)

/-- **a CRAM container cut anywhere — also before its first byte — is `UnexpectedEof`** -/
theorem cutFails_cramReadContainer (crc : Bytes → Nat) : CutFails IsEof (cramReadContainer crc) := by
  unfold cramReadContainer
  simp only [bind_eq, pure_eq]
  refine cutFails_bind (cutFails_cramReadHeader crc) (fun x => ?_)
  split
  · exact cutFails_ret _ _
  · exact strict_cutFails (Strict.upTo _ _
      (fun bs h => ⟨.eof, rfl, by rw [if_pos h]; rfl⟩)
      (fun bs h => by rw [if_neg (by omega)]; exact Strict.ret _))

theorem cutFails_cramFileDefinition : CutFails IsEof cramFileDefinition := by
  unfold cramFileDefinition
  simp only [bind_eq, pure_eq]
  repeat' cut_step

theorem starved_cramReadContainer (crc : Bytes → Nat) :
    runPure (cramReadContainer crc) [] = (.error .eof, []) := rfl

/-! ## the binning-index readers -/

theorem cutFails_i32leNonneg : CutFails IsEof i32leNonneg := by
  unfold i32leNonneg
  refine cutFails_bind cutFails_u32le (fun _ => ?_)
  repeat' cut_step

theorem cutFails_magic (m : Bytes) : CutFails IsEof (magic m) := by
  unfold magic
  refine cutFails_bind (cutFails_readExact _) (fun _ => ?_)
  repeat' cut_step

theorem cutFails_chunk : CutFails IsEof chunk := by
  unfold chunk
  simp only [bind_eq, pure_eq]
  repeat' cut_step

theorem cutFails_chunks : CutFails IsEof chunks := by
  unfold chunks
  simp only [bind_eq, pure_eq]
  exact cutFails_bind cutFails_i32leNonneg fun _ => cutFails_many cutFails_chunk _

theorem cutFails_metadata : CutFails IsEof metadata := by
  unfold metadata
  simp only [bind_eq, pure_eq]
  repeat' cut_step

theorem cutFails_count (signed : Bool) : CutFails IsEof (count signed) := by
  unfold count
  split
  · exact cutFails_i32leNonneg
  · exact cutFails_u32le

theorem isEof_sub : ∀ e, IsEof e → EofOrInvalid e := fun _ h => Or.inl h
theorem invalid_sub : ∀ e, e = Err.invalidData → EofOrInvalid e := fun _ h => Or.inr h

theorem cutFails_binsLinear (metaId n : Nat) (bins : Noodles.Index.Bins) (md : Option Noodles.Index.Meta) :
    CutFails EofOrInvalid (binsLinear metaId n bins md) := by
  induction n generalizing bins md with
  | zero => exact cutFails_ret _ _
  | succ n ih =>
    unfold binsLinear
    simp only [bind_eq, pure_eq]
    refine cutFails_bind (cutFails_mono isEof_sub cutFails_u32le) (fun id => ?_)
    split
    · refine cutFails_bind (cutFails_mono invalid_sub (cutFails_mapErrInvalid cutFails_metadata)) (fun m => ?_)
      split
      · exact cutFails_fail _ _
      · exact ih _ _
    · refine cutFails_bind (cutFails_mono invalid_sub (cutFails_mapErrInvalid cutFails_chunks)) (fun cs => ?_)
      split
      · exact cutFails_fail _ _
      · exact ih _ _

theorem cutFails_intervals (signed : Bool) : CutFails IsEof (intervals signed) := by
  unfold intervals
  simp only [bind_eq, pure_eq]
  exact cutFails_bind (cutFails_count signed) fun _ => cutFails_many cutFails_u64le _

theorem cutFails_refLinear (signed : Bool) : CutFails EofOrInvalid (refLinear signed) := by
  unfold refLinear
  simp only [bind_eq, pure_eq]
  refine cutFails_bind (cutFails_mono isEof_sub (cutFails_count signed)) (fun n => ?_)
  refine cutFails_bind (cutFails_binsLinear _ _ _ _) (fun x => ?_)
  exact cutFails_bind (cutFails_mono isEof_sub (cutFails_intervals signed)) fun _ => cutFails_ret _ _

/-- **BAI before the trailing count: every cut is an error** -/
theorem cutFails_baiHead : CutFails EofOrInvalid baiHead := by
  unfold baiHead baiWith
  refine cutFails_bind (cutFails_mono isEof_sub (cutFails_magic _)) (fun _ => ?_)
  refine cutFails_bind (cutFails_mono isEof_sub cutFails_u32le) (fun n => ?_)
  exact cutFails_bind (cutFails_many (cutFails_refLinear false) n) fun _ => cutFails_ret _ _

/-- every reference of BAI / tabix starts with a count: on the ended source it fails -/
theorem starved_refLinear (signed : Bool) : Starved EofOrInvalid (refLinear signed) := by
  refine ⟨.eof, Or.inl rfl, ?_⟩
  cases signed <;> rfl

theorem starved_many_succ {E : Err → Prop} {p : Prog β} (h : Starved E p) (n : Nat) :
    Starved E (many p (n + 1)) := starved_bind_left _ h

theorem mapErrInvalid_error (p : Prog β) (d : Bytes) (e : Err)
    (h : (runPure (mapErrInvalid p) d).1 = .error e) : e = .invalidData := by
  rw [runPure_mapErrInvalid] at h
  rcases er : runPure p d with ⟨r, d'⟩
  rw [er] at h
  cases r with
  | ok a => dsimp only at h; cases h
  | error x => dsimp only at h; injection h with h; exact h.symm

/-- `read_reference_sequence_names` since /repo `fix:` 125ecd7: the names are read through
`take(l_nm)` to its end and then the `Take` must have used up its limit — a cut inside the names block
is `UnexpectedEof` (or `InvalidData`, when what is there does not parse: a last name without NUL, a
repeated name).  Before the fix a cut at a name boundary gave FEWER names, not an error. -/
theorem cutFails_names : CutFails EofOrInvalid names := by
  unfold names
  simp only [bind_eq, pure_eq]
  refine cutFails_bind (cutFails_mono isEof_sub cutFails_i32leNonneg) (fun l => ?_)
  refine strict_cutFails (Strict.upTo _ _ (fun bs h => ?_) (fun bs h => ?_))
  · cases Noodles.Index.namesGo bs [] [] with
    | error e => exact ⟨.invalidData, Or.inr rfl, rfl⟩
    | ok ns => exact ⟨.eof, Or.inl rfl, by dsimp only; rw [if_pos h]; rfl⟩
  · cases Noodles.Index.namesGo bs [] [] with
    | error e => exact Strict.fail _
    | ok ns => dsimp only; rw [if_neg (by omega)]; exact Strict.ret _

theorem cutFails_column : CutFails IsEof column := by
  unfold column
  refine cutFails_bind cutFails_u32le (fun _ => ?_)
  repeat' cut_step

theorem cutFails_columnEnd (f : Noodles.Index.Format) (cb : Nat) : CutFails IsEof (columnEnd f cb) := by
  unfold columnEnd
  split
  · refine cutFails_bind cutFails_u32le (fun _ => ?_)
    repeat' cut_step
  · refine cutFails_bind cutFails_column (fun _ => ?_)
    repeat' cut_step

/-- **the tabix header (noodles-csi `read_header`): every cut is an error** — also inside the names
block (`cutFails_names`) -/
theorem cutFails_tabixHeader : CutFails EofOrInvalid tabixHeader := by
  unfold tabixHeader
  simp only [bind_eq, pure_eq]
  refine cutFails_bind (cutFails_mono isEof_sub cutFails_u32le) (fun fv => ?_)
  split
  · exact cutFails_fail _ _
  · refine cutFails_bind (cutFails_mono isEof_sub cutFails_column) (fun cs => ?_)
    refine cutFails_bind (cutFails_mono isEof_sub cutFails_column) (fun cb => ?_)
    refine cutFails_bind (cutFails_mono isEof_sub (cutFails_columnEnd _ _)) (fun ce => ?_)
    refine cutFails_bind (cutFails_mono isEof_sub cutFails_u32le) (fun m => ?_)
    split
    · exact cutFails_fail _ _
    · refine cutFails_bind (cutFails_mono isEof_sub cutFails_i32leNonneg) (fun sk => ?_)
      exact cutFails_bind cutFails_names fun _ => cutFails_ret _ _

/-- **tabix before the trailing count: every cut is an error** — with or without reference sequences.
(Before /repo `fix:` 125ecd7 this needed `0 < n_ref`: a names block cut at a name boundary was read as
a shorter name list, and only the first reference sequence then failed for want of four bytes.) -/
theorem cutFails_tabixHead : CutFails EofOrInvalid tabixHead := by
  unfold tabixHead tabixWith
  refine cutFails_bind (cutFails_mono isEof_sub (cutFails_magic _)) (fun _ => ?_)
  refine cutFails_bind (cutFails_mono isEof_sub cutFails_i32leNonneg) (fun n => ?_)
  refine cutFails_bind (cutFails_mono invalid_sub (cutFails_mapErrInvalid cutFails_tabixHeader)) (fun h => ?_)
  exact cutFails_bind (cutFails_many (cutFails_refLinear true) _) fun _ => cutFails_ret _ _

theorem cutFails_binsCsi (metaId n : Nat) (bins : Noodles.Index.Bins) (index : Noodles.Csi.Binned)
    (md : Option Noodles.Index.Meta) : CutFails EofOrInvalid (binsCsi metaId n bins index md) := by
  induction n generalizing bins index md with
  | zero => exact cutFails_ret _ _
  | succ n ih =>
    unfold binsCsi
    simp only [bind_eq, pure_eq]
    refine cutFails_bind (cutFails_mono isEof_sub cutFails_u32le) (fun id => ?_)
    refine cutFails_bind (cutFails_mono isEof_sub cutFails_u64le) (fun lo => ?_)
    split
    · refine cutFails_bind (cutFails_mono isEof_sub cutFails_metadata) (fun m => ?_)
      split
      · exact cutFails_fail _ _
      · exact ih _ _ _
    · refine cutFails_bind (cutFails_mono isEof_sub cutFails_chunks) (fun cs => ?_)
      split
      · exact cutFails_fail _ _
      · exact ih _ _ _

theorem cutFails_refCsi (depth : Nat) : CutFails EofOrInvalid (refCsi depth) := by
  unfold refCsi
  simp only [bind_eq, pure_eq]
  exact cutFails_bind (cutFails_mono isEof_sub cutFails_i32leNonneg) fun _ => cutFails_binsCsi _ _ _ _ _

theorem cutFails_i32AsU8 : CutFails IsEof i32AsU8 := by
  unfold i32AsU8
  refine cutFails_bind cutFails_u32le (fun _ => ?_)
  repeat' cut_step

def AnyErr (_ : Err) : Prop := True

/-- **CSI before the trailing count: every cut is an error** — whatever `read_aux` makes of a cut
`aux` block, `n_ref` needs four more bytes. -/
theorem cutFails_csiHead : CutFails AnyErr csiHead := by
  unfold csiHead csiWith
  refine cutFails_bind (cutFails_mono (fun _ _ => trivial) (cutFails_magic _)) (fun _ => ?_)
  refine cutFails_bind (cutFails_mono (fun _ _ => trivial) cutFails_i32AsU8) (fun ms => ?_)
  refine cutFails_bind (cutFails_mono (fun _ _ => trivial) cutFails_i32AsU8) (fun dp => ?_)
  split
  · exact cutFails_fail _ _
  · refine cutFails_bind_starved ?_ (fun hh => ?_)
    · intro dd k hk hu
      rcases er : (runPure csiAux (dd.take k)).1 with e | b
      · exact Or.inl ⟨e, trivial, rfl⟩
      · exact Or.inr ⟨b, rfl, ⟨.eof, trivial, rfl⟩⟩
    · refine cutFails_bind (cutFails_mono (fun _ _ => trivial) cutFails_i32leNonneg) (fun n => ?_)
      exact cutFails_bind (cutFails_mono (fun _ _ => trivial) (cutFails_many (cutFails_refCsi dp) n))
        fun _ => cutFails_ret _ _

theorem cutFails_gziHead : CutFails IsEof gziHead := by
  unfold gziHead gziWith
  refine cutFails_bind cutFails_u64le (fun n => ?_)
  refine cutFails_bind (cutFails_many ?_ n) (fun _ => cutFails_ret _ _)
  exact cutFails_bind cutFails_u64le fun _ => cutFails_bind cutFails_u64le fun _ => cutFails_ret _ _

/-! ## the whole index readers: head, then the optional trailing count -/

open Noodles.Index (RefLin Bai Tabix Header RefCsi CsiIndex Gzi)

theorem baiReadIndex_eq : baiReadIndex = baiWith (fun refs => bind unplaced fun u => ret ⟨refs, u⟩) := rfl
theorem tabixReadIndex_eq :
    tabixReadIndex = tabixWith (fun _ h refs => bind unplaced fun u => ret ⟨some h, refs, u⟩) := rfl
theorem csiReadIndex_eq :
    csiReadIndex = mapErrInvalid (csiWith (fun ms d h refs => bind unplaced fun u => ret ⟨ms, d, h, refs, u⟩)) :=
  rfl
theorem gziReadIndex_eq : gziReadIndex = gziWith (fun ix => exact 1 fun
    | .ok _ => fail .invalidData
    | .error .eof => ret ix
    | .error e => fail e) := rfl

theorem runPure_ite (c : Prop) [Decidable c] (p q : Prog β) (d : Bytes) :
    runPure (if c then p else q) d = if c then runPure p d else runPure q d := by
  split <;> rfl

theorem runPure_baiWith (g : List RefLin → Prog γ) (d : Bytes) :
    runPure (baiWith g) d =
      match runPure baiHead d with
      | (.ok refs, d') => runPure (g refs) d'
      | (.error e, d') => (.error e, d') := by
  unfold baiHead baiWith
  simp only [runPure_bind]
  repeat' (first | rfl | split)

theorem runPure_tabixWith (g : Nat → Header → List RefLin → Prog γ) (d : Bytes) :
    runPure (tabixWith g) d =
      match runPure tabixHead d with
      | (.ok (n, h, refs), d') => runPure (g n h refs) d'
      | (.error e, d') => (.error e, d') := by
  unfold tabixHead tabixWith
  simp only [runPure_bind]
  repeat' (first | rfl | split)

theorem runPure_csiWith (g : Nat → Nat → Option Header → List RefCsi → Prog γ) (d : Bytes) :
    runPure (csiWith g) d =
      match runPure csiHead d with
      | (.ok (ms, dp, h, refs), d') => runPure (g ms dp h refs) d'
      | (.error e, d') => (.error e, d') := by
  unfold csiHead csiWith
  simp only [runPure_bind, runPure_ite]
  repeat' (first | rfl | split)

theorem runPure_gziWith (g : Gzi → Prog γ) (d : Bytes) :
    runPure (gziWith g) d =
      match runPure gziHead d with
      | (.ok ix, d') => runPure (g ix) d'
      | (.error e, d') => (.error e, d') := by
  unfold gziHead gziWith
  simp only [runPure_bind]
  repeat' (first | rfl | split)

/-- the trailing count: present iff 8 bytes are left; never an error -/
theorem runPure_unplaced_then (mk : Option Nat → β) (t : Bytes) :
    runPure (bind unplaced fun u => ret (mk u)) t = (.ok (mk (unplacedOf t)), t.drop 8) := by
  unfold unplaced unplacedOf
  simp only [bind, runPure, specReadExact]
  by_cases h : 8 ≤ t.length
  · rw [if_pos h, if_pos h]; rfl
  · rw [if_neg h, if_neg h, List.drop_of_length_le (by omega)]; rfl

/-- A reader `full` = a head, then — on success — a continuation `tl` that cannot fail on a cut (the
optional count). If every cut inside the head fails, then a cut of `d` at `k`: inside the head → the
head's error (as `full` reports it: `em`); after it → the head's value and the continuation run on
what is present of the rest. -/
theorem head_tail_cut {α : Type} {E : Err → Prop} (head : Prog α) (tl : α → Prog β) (full : Prog β)
    (em : Err → Err)
    (hfull : ∀ d, runPure full d =
      match runPure head d with
      | (.ok a, d') => runPure (tl a) d'
      | (.error e, d') => (.error (em e), d'))
    (d : Bytes) (a : α) (t : Bytes) (hd : runPure head d = (.ok a, t)) (hcut : CutFailsOn E head d)
    (k : Nat) (hk : k ≤ d.length) :
    (k < d.length - t.length → ∃ e, E e ∧ runPure full (d.take k) = (.error (em e), [])) ∧
    (d.length - t.length ≤ k →
      runPure full (d.take k) = runPure (tl a) (t.take (k - (d.length - t.length)))) := by
  have hu : used head d = d.length - t.length := by simp [used, hd]
  constructor
  · intro hlt
    obtain ⟨e, he, hr⟩ := hcut k hk (by omega)
    exact ⟨e, he, by rw [hfull, hr]⟩
  · intro hge
    rw [hfull, runPure_take_of_used_le head d k hk (by omega), hd, hu]

/-- **BAI, every cut.** `d` = an index that the reader reads as `refs` up to the trailing count, and
`t`, whatever follows (nothing, or the 8 bytes of `n_no_coor`). A cut before the count is an ERROR
(`UnexpectedEof`, or `InvalidData` where a bin's chunk list is cut: `read_bins` re-wraps); a cut inside
the count delivers the index WITHOUT the count — the one exception: the count is optional in the
format, and the reader cannot tell a file written without it from one cut inside it. -/
theorem bai_cut (d : Bytes) (refs : List RefLin) (t : Bytes) (hd : runPure baiHead d = (.ok refs, t))
    (k : Nat) (hk : k ≤ d.length) :
    (k < d.length - t.length → ∃ e, EofOrInvalid e ∧ runPure baiReadIndex (d.take k) = (.error e, [])) ∧
    (d.length - t.length ≤ k → runPure baiReadIndex (d.take k) =
      (.ok ⟨refs, unplacedOf (t.take (k - (d.length - t.length)))⟩,
        (t.take (k - (d.length - t.length))).drop 8)) := by
  have h := head_tail_cut (E := EofOrInvalid) baiHead (fun refs => bind unplaced fun u => ret (⟨refs, u⟩ : Bai))
    baiReadIndex id (fun d => by
      rw [baiReadIndex_eq, runPure_baiWith]
      rcases runPure baiHead d with ⟨r, d'⟩
      cases r <;> rfl) d refs t hd
    (cutFails_on cutFails_baiHead d) k hk
  refine ⟨h.1, fun hge => ?_⟩
  rw [h.2 hge, runPure_unplaced_then]

/-- **tabix (the uncompressed payload), every cut** — with or without reference sequences (since
/repo `fix:` 125ecd7 a cut names block is an error). Same shape as BAI; every error class the reader
can report here is `UnexpectedEof` or `InvalidData`. -/
theorem tabix_cut (d : Bytes) (nRef : Nat) (h : Header) (refs : List RefLin) (t : Bytes)
    (hd : runPure tabixHead d = (.ok (nRef, h, refs), t))
    (k : Nat) (hk : k ≤ d.length) :
    (k < d.length - t.length → ∃ e, EofOrInvalid e ∧ runPure tabixReadIndex (d.take k) = (.error e, [])) ∧
    (d.length - t.length ≤ k → runPure tabixReadIndex (d.take k) =
      (.ok ⟨some h, refs, unplacedOf (t.take (k - (d.length - t.length)))⟩,
        (t.take (k - (d.length - t.length))).drop 8)) := by
  have hh := head_tail_cut (E := EofOrInvalid) tabixHead
    (fun x => bind unplaced fun u => ret (⟨some x.2.1, x.2.2, u⟩ : Tabix))
    tabixReadIndex id (fun d => by
      rw [tabixReadIndex_eq, runPure_tabixWith]
      rcases runPure tabixHead d with ⟨r, d'⟩
      cases r with
      | error e => rfl
      | ok x => obtain ⟨a, b, c⟩ := x; rfl) d (nRef, h, refs) t hd
    (cutFails_on cutFails_tabixHead d) k hk
  refine ⟨hh.1, fun hge => ?_⟩
  rw [hh.2 hge, runPure_unplaced_then]

/-- **CSI (the uncompressed payload), every cut.** `csi::io::Reader::read_index` reports every error
as `InvalidData`, so that is what a cut before the trailing count gives. -/
theorem csi_cut (d : Bytes) (ms dp : Nat) (h : Option Header) (refs : List RefCsi) (t : Bytes)
    (hd : runPure csiHead d = (.ok (ms, dp, h, refs), t)) (k : Nat) (hk : k ≤ d.length) :
    (k < d.length - t.length → runPure csiReadIndex (d.take k) = (.error .invalidData, [])) ∧
    (d.length - t.length ≤ k → runPure csiReadIndex (d.take k) =
      (.ok ⟨ms, dp, h, refs, unplacedOf (t.take (k - (d.length - t.length)))⟩,
        (t.take (k - (d.length - t.length))).drop 8)) := by
  have hh := head_tail_cut (E := AnyErr) csiHead
    (fun x => bind unplaced fun u => ret (⟨x.1, x.2.1, x.2.2.1, x.2.2.2, u⟩ : CsiIndex))
    csiReadIndex (fun _ => .invalidData)
    (fun d => by
      rw [csiReadIndex_eq, runPure_mapErrInvalid, runPure_csiWith]
      rcases runPure csiHead d with ⟨r, d'⟩
      cases r with
      | error e => rfl
      | ok x =>
        obtain ⟨a, b, c, e⟩ := x
        simp only [runPure_unplaced_then])
    d (ms, dp, h, refs) t hd (cutFails_on cutFails_csiHead d) k hk
  refine ⟨fun hlt => ?_, fun hge => ?_⟩
  · obtain ⟨e, _, hr⟩ := hh.1 hlt; exact hr
  · rw [hh.2 hge, runPure_unplaced_then]

/-- **gzi, every cut**: the entry count comes first, so a cut anywhere before the end of the last
entry is `UnexpectedEof` — no exception. (`t` = what follows the entries: nothing in a written file; a
reader that finds a byte there reports `InvalidData`.) -/
theorem gzi_cut (d : Bytes) (ix : Gzi) (t : Bytes) (hd : runPure gziHead d = (.ok ix, t))
    (k : Nat) (hk : k ≤ d.length) :
    (k < d.length - t.length → runPure gziReadIndex (d.take k) = (.error .eof, [])) ∧
    (d.length - t.length ≤ k → (runPure gziReadIndex (d.take k)).1 =
      if k = d.length - t.length then .ok ix else .error .invalidData) := by
  have hh := head_tail_cut (E := IsEof) gziHead
    (fun ix => exact 1 fun
      | .ok _ => fail .invalidData
      | .error .eof => ret ix
      | .error e => fail e)
    gziReadIndex id (fun d => by
      rw [gziReadIndex_eq, runPure_gziWith]
      rcases runPure gziHead d with ⟨r, d'⟩
      cases r <;> rfl) d ix t hd
    (cutFails_on cutFails_gziHead d) k hk
  have hle : t.length ≤ d.length := by have := runPure_le gziHead d; rw [hd] at this; exact this
  refine ⟨fun hlt => ?_, fun hge => ?_⟩
  · obtain ⟨e, he, hr⟩ := hh.1 hlt; rw [hr, he]; rfl
  · rw [hh.2 hge]
    simp only [runPure, specReadExact, List.length_take]
    by_cases hk2 : k = d.length - t.length
    · rw [if_pos hk2, if_neg (by omega)]; rfl
    · rw [if_neg hk2, if_pos (by omega)]; rfl

/-! ## the CRAM file: definition, containers, EOF container -/

/-- the cut theorem for a loop over a reader every cut of which fails with `UnexpectedEof` — also the
cut before its first byte (`read_container` begins with `read_exact`) — followed by a tail `eofh ++
eofb` whose first part the reader takes as the end of the stream -/
theorem pLoop_cut_strict_tail {β : Type} (rd : Prog (Option β)) (hrd : CutFails IsEof rd)
    (fs : List (Bytes × β)) (hitem : ∀ p ∈ fs, runPure rd p.1 = (.ok (some p.2), []))
    (eofh eofb : Bytes) (heof : runPure rd eofh = (.ok none, []))
    (k fuel : Nat) (hf : (cutPos fs k).1 < fuel) :
    (pLoop (stepOf rd) fuel [] (((fs.map (·.1)).flatten ++ (eofh ++ eofb)).take k)).1 =
      ((fs.take (cutPos fs k).1).map (·.2),
        if (cutPos fs k).1 = fs.length ∧ eofh.length ≤ (cutPos fs k).2 then none else some .eof) := by
  obtain ⟨f, rfl⟩ : ∃ f, fuel = (f + 1) + (cutPos fs k).1 := ⟨fuel - (cutPos fs k).1 - 1, by omega⟩
  have hit : ∀ p ∈ fs, ∀ r, stepOf rd (p.1 ++ r) = (.ok (some p.2), r) :=
    fun p hp r => cutFails_extend hrd p.1 (some p.2) (hitem p hp) r
  rw [pLoop_cut (stepOf rd) fs (eofh ++ eofb) hit k (f + 1) []]
  rw [List.append_nil]
  by_cases hn : (cutPos fs k).1 = fs.length
  · rw [cutRest_of_eq fs _ k hn]
    by_cases hj : eofh.length ≤ (cutPos fs k).2
    · have ht : (eofh ++ eofb).take (cutPos fs k).2 = eofh ++ eofb.take ((cutPos fs k).2 - eofh.length) := by
        rw [List.take_append, List.take_of_length_le hj]
      rw [ht, pLoop_stop_none (stepOf rd) f _ _ _ (cutFails_extend hrd eofh none heof _)]
      simp [hn, hj]
    · have ht : (eofh ++ eofb).take (cutPos fs k).2 = eofh.take (cutPos fs k).2 := by
        rw [List.take_append_of_le_length (by omega)]
      have hu : used rd eofh = eofh.length := by simp [used, heof]
      obtain ⟨e, he, hr⟩ := hrd eofh (cutPos fs k).2 (by omega) (by omega)
      rw [ht, pLoop_stop_err (stepOf rd) f _ _ [] e hr, he]
      simp [hn, hj]
  · obtain ⟨p, hp, hr, hj⟩ := cutRest_of_lt fs (eofh ++ eofb) k (by have := cutPos_le_length fs k; omega)
    have hu : used rd p.1 = p.1.length := by simp [used, hitem p hp]
    obtain ⟨e, he, hr2⟩ := hrd p.1 (cutPos fs k).2 (by omega) (by omega)
    rw [hr, pLoop_stop_err (stepOf rd) f _ _ [] e hr2, he]
    simp [hn]

/-- **The CRAM file at container granularity, every cut** (`read_file_definition`, then
`read_container` until `Ok(0)`). The file is a definition `defn`, containers `cs` (each a byte string
that `read_container` reads, alone, as exactly one container) and the EOF container `eofh ++ eofb`
(`eofh`: the header, at which `read_container` reports the end; `eofb`: its body, never read).

* a cut inside the definition: `UnexpectedEof`;
* otherwise exactly the containers wholly inside the cut, then `UnexpectedEof` UNLESS every container
  and the header of the EOF container are present. In particular a file cut exactly before the EOF
  container — every data container whole — is NOT a clean end: `read_container` starts with
  `read_exact`, so the missing EOF container is reported as `UnexpectedEof` after the last container. -/
theorem cramFile_cut (crc : Bytes → Nat) (defn : Bytes) (dv : Bytes × Bytes)
    (hdef : runPure cramFileDefinition defn = (.ok dv, []))
    (cs : List (Bytes × (CramHeader × Bytes)))
    (hc : ∀ p ∈ cs, runPure (cramReadContainer crc) p.1 = (.ok (some p.2), []))
    (eofh eofb : Bytes) (heof : runPure (cramReadContainer crc) eofh = (.ok none, []))
    (k fuel : Nat) (hf : cs.length < fuel) :
    (runPure (cramFile crc fuel) ((defn ++ ((cs.map (·.1)).flatten ++ (eofh ++ eofb))).take k)).1 =
      if k < defn.length then .error .eof
      else .ok (dv, (cs.take (cutPos cs (k - defn.length)).1).map (·.2),
        if (cutPos cs (k - defn.length)).1 = cs.length ∧ eofh.length ≤ (cutPos cs (k - defn.length)).2
        then none else some .eof) := by
  unfold cramFile
  simp only [bind_eq, pure_eq]
  rw [runPure_bind]
  by_cases hk : k < defn.length
  · rw [if_pos hk, List.take_append_of_le_length (by omega)]
    have hu : used cramFileDefinition defn = defn.length := by simp [used, hdef]
    obtain ⟨e, he, hr⟩ := cutFails_cramFileDefinition defn k (by omega) (by omega)
    rw [hr, he]
  · rw [if_neg hk, List.take_append, List.take_of_length_le (by omega),
      cutFails_extend cutFails_cramFileDefinition defn dv hdef]
    simp only
    rw [runPure_bind]
    unfold cramContainers
    rw [runPure_records]
    simp only [runPure]
    rw [pLoop_cut_strict_tail (cramReadContainer crc) (cutFails_cramReadContainer crc) cs hc eofh eofb
      heof (k - defn.length) fuel (by have := cutPos_le_length cs (k - defn.length); omega)]

end Prog
end Noodles.IO
