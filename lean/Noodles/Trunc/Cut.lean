import Noodles.Io.Prog
import Noodles.Io.Binary
import Noodles.Io.MoreProof
import Noodles.Trunc.Model
/-!
# Truncation of `Prog` readers and of record loops (model-side definitions for C13, part 2)

`Noodles.Io.Prog` gives the binary readers of noodles (BAM / BCF records, CRAM file definition and
containers, BAI / tabix / CSI / gzi) as trees whose nodes are the three ways such a reader touches its
source (`read_exact`, `read_exact_or_eof`, `take(n).read_to_end`), and `Prog.runPure` is what such a
tree computes from the undelivered bytes (`Prog.run_spec`: over ANY scheduled source).

A file cut at offset `k` is the source `d.take k`. This file defines what is needed to STATE what a
tree does on it:

* `Prog.used p d` — the number of bytes the run of `p` over `d` uses up;
* `Prog.starve p d k` — the run over `d` followed as long as every call fits into the first `k` bytes;
  the result is the continuation of the first call that does not fit, applied to what that call
  returns when the source ends there (`read_exact`: `UnexpectedEof`; `read_exact_or_eof`: `Ok(0 bytes)`
  if the cut is exactly where the call starts, `UnexpectedEof` otherwise; `read_to_end`: the bytes
  there are);
* `Prog.Strict E p` — every such continuation of `p` fails, with an error in `E`, when the source has
  ended (the `?` after every read); `Prog.CutFails E p` — the semantic form: cut anywhere inside what
  `p` would have used, `p` fails with an error in `E`;
* `pLoop` — the caller's loop over a pure step function (`while read_record(..)? != 0`), the common
  shape of `Prog.records` and of the text record loops of `Noodles.Io.Lines`.
-/
namespace Noodles.IO
namespace Prog
variable {β γ : Type}

/-- the number of bytes the run of `p` over `d` uses up -/
def used (p : Prog β) (d : Bytes) : Nat := d.length - (runPure p d).2.length

/-- Follow the run of `p` over `d` while every call fits into the first `k` bytes; at the first call
that does not, return its continuation applied to what the call returns when the source ends after
those `k` bytes. (If every call fits, the leaf the run ends in.) -/
def starve : Prog β → Bytes → Nat → Prog β
  | ret b, _, _ => ret b
  | fail e, _, _ => fail e
  | exact n kk, d, k =>
    if n ≤ k then starve (kk (.ok (d.take n))) (d.drop n) (k - n) else kk (.error .eof)
  | exactOrEof n kk, d, k =>
    if n ≤ k then starve (kk (.ok (d.take n))) (d.drop n) (k - n)
    else if k = 0 then kk (.ok []) else kk (.error .eof)
  | upTo n kk, d, k =>
    if n ≤ k then starve (kk (d.take n)) (d.drop n) (k - n) else kk (d.take k)

/-- `q` fails with an error in `E` when its source has ended -/
def Starved (E : Err → Prop) (q : Prog β) : Prop := ∃ e, E e ∧ (runPure q []).1 = .error e

/-- Every read of `p` is followed by `?`: the continuation of a read that finds the source ended
fails (with an error in `E`) — for `read_exact_or_eof` also the continuation of the clean end. The
children that matter are those for the byte strings the call can return. -/
inductive Strict (E : Err → Prop) : Prog β → Prop
  | ret (b : β) : Strict E (ret b)
  | fail (e : Err) : Strict E (fail e)
  | exact (n : Nat) (kk : Except Err Bytes → Prog β) :
    Starved E (kk (.error .eof)) → (∀ bs, bs.length = n → Strict E (kk (.ok bs))) → Strict E (exact n kk)
  | exactOrEof (n : Nat) (kk : Except Err Bytes → Prog β) :
    Starved E (kk (.error .eof)) → (0 < n → Starved E (kk (.ok []))) →
    (∀ bs, bs.length = n → Strict E (kk (.ok bs))) → Strict E (exactOrEof n kk)
  | upTo (n : Nat) (kk : Bytes → Prog β) :
    (∀ bs, bs.length < n → Starved E (kk bs)) → (∀ bs, bs.length = n → Strict E (kk bs)) →
    Strict E (upTo n kk)

/-- cut anywhere inside what `p` would have used of `d`, `p` fails with an error in `E` (and has
used up everything there was) -/
def CutFails (E : Err → Prop) (p : Prog β) : Prop :=
  ∀ d k, k ≤ d.length → k < used p d → ∃ e, E e ∧ runPure p (d.take k) = (.error e, [])

/-- the same for one particular input `d` -/
def CutFailsOn (E : Err → Prop) (p : Prog β) (d : Bytes) : Prop :=
  ∀ k, k ≤ d.length → k < used p d → ∃ e, E e ∧ runPure p (d.take k) = (.error e, [])

/-- the two error classes a truncated binary file can produce -/
def EofOrInvalid (e : Err) : Prop := e = .eof ∨ e = .invalidData

def IsEof (e : Err) : Prop := e = .eof

/-! ## the index readers, split at the optional trailing count

BAI, tabix and CSI end with `n_no_coor`, a `u64` that is read only if the stream has 8 more bytes
(`read_unplaced_unmapped_record_count`: `UnexpectedEof` is `None`). `…With g` is the reader up to that
point, continued by `g`; `…Head` returns what was read so far. -/

open Noodles.Index (RefLin Bai Tabix Header RefCsi CsiIndex Gzi) in
/-- `bai::io::Reader::read_index` before the trailing count -/
def baiWith (g : List RefLin → Prog γ) : Prog γ :=
  bind (magic Noodles.Index.baiMagic) fun _ =>
    bind u32le fun nRef => bind (many (refLinear false) nRef) g

open Noodles.Index (RefLin) in
def baiHead : Prog (List RefLin) := baiWith ret

open Noodles.Index (RefLin Header) in
/-- `tabix::io::Reader::read_index` before the trailing count; `n_ref` is kept -/
def tabixWith (g : Nat → Header → List RefLin → Prog γ) : Prog γ :=
  bind (magic Noodles.Index.tbiMagic) fun _ =>
    bind i32leNonneg fun nRef =>
      bind (mapErrInvalid tabixHeader) fun h => bind (many (refLinear true) nRef) (g nRef h)

open Noodles.Index (RefLin Header) in
def tabixHead : Prog (Nat × Header × List RefLin) := tabixWith fun n h refs => ret (n, h, refs)

open Noodles.Index (RefCsi Header) in
/-- noodles-csi `read_index` before the trailing count (inside the `map_err` of
`csi::io::Reader::read_index`) -/
def csiWith (g : Nat → Nat → Option Header → List RefCsi → Prog γ) : Prog γ :=
  bind (magic Noodles.Index.csiMagic) fun _ =>
    bind i32AsU8 fun ms =>
      bind i32AsU8 fun d =>
        if ¬ Noodles.Index.validGeometry ms d then fail .invalidData else
        bind csiAux fun h =>
          bind i32leNonneg fun nRef => bind (many (refCsi d) nRef) (g ms d h)

open Noodles.Index (RefCsi Header) in
def csiHead : Prog (Nat × Nat × Option Header × List RefCsi) :=
  csiWith fun ms d h refs => ret (ms, d, h, refs)

open Noodles.Index (Gzi) in
/-- `gzi::io::Reader::read_index` before the end-of-stream check -/
def gziWith (g : Gzi → Prog γ) : Prog γ :=
  bind u64le fun n => bind (many (bind u64le fun a => bind u64le fun b => ret (a, b)) n) g

open Noodles.Index (Gzi) in
def gziHead : Prog Gzi := gziWith ret

/-- the trailing count on what is left: `Some` iff 8 bytes are there -/
def unplacedOf (t : Bytes) : Option Nat := if 8 ≤ t.length then some (leNat (t.take 8)) else none

end Prog

/-- The caller's loop over a pure step function (`none` = `Ok(0)`): the items, then how the stream
ended (`none` = cleanly), and the bytes left. -/
def pLoop {β : Type} (st : Bytes → Except Err (Option β) × Bytes) :
    Nat → List β → Bytes → (List β × Option Err) × Bytes
  | 0, acc, d => ((acc.reverse, some .fuel), d)
  | fuel+1, acc, d =>
    match st d with
    | (.error e, d') => ((acc.reverse, some e), d')
    | (.ok none, d') => ((acc.reverse, none), d')
    | (.ok (some r), d') => pLoop st fuel (r :: acc) d'

/-- Where a cut falls in a list of frames: `Noodles.Trunc.whole` of the frame lengths (the number of
frames wholly inside the first `k` bytes, and the number of bytes present beyond them). -/
def cutPos {β : Type} (fs : List (Bytes × β)) (k : Nat) : Nat × Nat :=
  Noodles.Trunc.whole (fs.map (·.1.length)) k

/-- the bytes of the frame the cut falls into that are present (of the tail `t`, if every frame is
whole) -/
def cutRest {β : Type} (fs : List (Bytes × β)) (t : Bytes) (k : Nat) : Bytes :=
  let c := cutPos fs k
  match fs[c.1]? with
  | some f => f.1.take c.2
  | none => t.take c.2

end Noodles.IO
