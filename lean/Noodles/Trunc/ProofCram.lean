import Noodles.Trunc.Proof
/-! Helper lemmas for `cram_truncate`: every decoder of the CRAM container header is
*prefix-safe* — when it succeeds it has consumed a definite prefix, behaves the same whatever
follows, and fails with `UnexpectedEof` on every strict prefix of what it consumed. -/
namespace Noodles.Trunc
open Noodles.Codec hiding Err Dec
open Noodles.Bgzf

/-- prefix-safety of a decoder -/
def PS {α : Type} (d : Dec α) : Prop :=
  ∀ s v r, d s = .ok (v, r) →
    ∃ c, s = c ++ r ∧ (∀ r', d (c ++ r') = .ok (v, r')) ∧
      (∀ j, j < c.length → d (c.take j) = .error .eof)

theorem PS_pure {α : Type} (a : α) : PS (Dec.pure a) := by
  intro s v r h
  simp only [Dec.pure, Except.ok.injEq, Prod.mk.injEq] at h
  obtain ⟨rfl, rfl⟩ := h
  exact ⟨[], rfl, fun _ => rfl, fun j hj => by simp at hj⟩

theorem PS_fail {α : Type} (e : Err) : PS (Dec.fail e : Dec α) := by
  intro s v r h
  simp [Dec.fail] at h

theorem PS_guard (c : Bool) (e : Err) : PS (Dec.guard c e) := by
  unfold Dec.guard
  cases c
  · exact PS_fail e
  · exact PS_pure ()

theorem PS_take (n : Nat) : PS (Dec.take n) := by
  intro s v r h
  unfold Dec.take at h
  by_cases hl : s.length < n
  · rw [if_pos hl] at h; cases h
  · rw [if_neg hl] at h
    simp only [Except.ok.injEq, Prod.mk.injEq] at h
    obtain ⟨rfl, rfl⟩ := h
    have hlen : (s.take n).length = n := by rw [List.length_take]; omega
    refine ⟨s.take n, (List.take_append_drop n s).symm, ?_, ?_⟩
    · intro r'
      unfold Dec.take
      rw [if_neg (by rw [List.length_append, hlen]; omega), List.take_left' hlen,
        List.drop_left' hlen]
    · intro j hj
      unfold Dec.take
      rw [if_pos (by rw [List.length_take]; omega)]

theorem PS_bind {α β : Type} (d : Dec α) (f : α → Dec β) (hd : PS d) (hf : ∀ a, PS (f a)) :
    PS (d.bind f) := by
  intro s v r h
  unfold Dec.bind at h
  cases h1 : d s with
  | error e => rw [h1] at h; cases h
  | ok x =>
    obtain ⟨a, r1⟩ := x
    rw [h1] at h
    simp only at h
    obtain ⟨c1, hs1, hu1, hp1⟩ := hd s a r1 h1
    obtain ⟨c2, hs2, hu2, hp2⟩ := hf a r1 v r h
    refine ⟨c1 ++ c2, by rw [hs1, hs2, List.append_assoc], ?_, ?_⟩
    · intro r'
      unfold Dec.bind
      rw [List.append_assoc, hu1]
      exact hu2 r'
    · intro j hj
      unfold Dec.bind
      by_cases hj1 : j < c1.length
      · have : (c1 ++ c2).take j = c1.take j := by
          rw [List.take_append, show j - c1.length = 0 by omega]; simp
        rw [this, hp1 j hj1]
      · have : (c1 ++ c2).take j = c1 ++ c2.take (j - c1.length) := by
          rw [List.take_append, List.take_of_length_le (by omega)]
        rw [this, hu1]
        simp only
        exact hp2 _ (by rw [List.length_append] at hj; omega)

theorem PS_many {α : Type} (d : Dec α) (hd : PS d) (n : Nat) : PS (Dec.many d n) := by
  induction n with
  | zero => exact PS_pure []
  | succ n ih =>
    unfold Dec.many
    exact PS_bind _ _ hd fun a => PS_bind _ _ ih fun as => PS_pure _

theorem PS_beN (n : Nat) : PS (beN n) := PS_bind _ _ (PS_take n) fun _ => PS_pure _
theorem PS_leN (n : Nat) : PS (leN n) := PS_bind _ _ (PS_take n) fun _ => PS_pure _

theorem PS_itf8 : PS itf8 := by
  unfold itf8
  refine PS_bind _ _ (PS_beN 1) fun b0 => ?_
  split
  · exact PS_pure _
  split
  · exact PS_bind _ _ (PS_beN 1) fun _ => PS_pure _
  split
  · exact PS_bind _ _ (PS_beN 2) fun _ => PS_pure _
  split
  · exact PS_bind _ _ (PS_beN 3) fun _ => PS_pure _
  · exact PS_bind _ _ (PS_beN 4) fun _ => PS_pure _

theorem PS_ltf8 : PS ltf8 := by
  unfold ltf8
  refine PS_bind _ _ (PS_beN 1) fun b0 => ?_
  split
  · exact PS_pure _
  split
  · exact PS_bind _ _ (PS_beN 1) fun _ => PS_pure _
  split
  · exact PS_bind _ _ (PS_beN 2) fun _ => PS_pure _
  split
  · exact PS_bind _ _ (PS_beN 3) fun _ => PS_pure _
  split
  · exact PS_bind _ _ (PS_beN 4) fun _ => PS_pure _
  split
  · exact PS_bind _ _ (PS_beN 5) fun _ => PS_pure _
  split
  · exact PS_bind _ _ (PS_beN 6) fun _ => PS_pure _
  split
  · exact PS_bind _ _ (PS_beN 7) fun _ => PS_pure _
  · exact PS_bind _ _ (PS_beN 8) fun _ => PS_pure _

theorem PS_nonneg (d : Dec Int) (hd : PS d) : PS (nonneg d) :=
  PS_bind _ _ hd fun _ => PS_bind _ _ (PS_guard _ _) fun _ => PS_pure _

theorem PS_cramFields : PS cramFields := by
  unfold cramFields
  refine PS_bind _ _ (PS_leN 4) fun _ => ?_
  refine PS_bind _ _ (PS_guard _ _) fun _ => ?_
  refine PS_bind _ _ PS_itf8 fun _ => ?_
  refine PS_bind _ _ PS_itf8 fun _ => ?_
  refine PS_bind _ _ PS_itf8 fun _ => ?_
  refine PS_bind _ _ (PS_guard _ _) fun _ => ?_
  refine PS_bind _ _ (PS_nonneg _ PS_itf8) fun _ => ?_
  refine PS_bind _ _ (PS_nonneg _ PS_ltf8) fun _ => ?_
  refine PS_bind _ _ (PS_nonneg _ PS_ltf8) fun _ => ?_
  refine PS_bind _ _ (PS_nonneg _ PS_itf8) fun _ => ?_
  refine PS_bind _ _ (PS_nonneg _ PS_itf8) fun _ => ?_
  refine PS_bind _ _ (PS_many _ (PS_nonneg _ PS_itf8) _) fun _ => ?_
  exact PS_pure _

theorem PS_cramHeader (crc : Bytes → Nat) : PS (cramHeader crc) := by
  intro s v r' h
  unfold cramHeader at h
  cases h1 : cramFields s with
  | error e => rw [h1] at h; cases h
  | ok x =>
    obtain ⟨hd, r⟩ := x
    rw [h1] at h
    simp only at h
    obtain ⟨c1, hs1, hu1, hp1⟩ := PS_cramFields s hd r h1
    cases h2 : leN 4 r with
    | error e => rw [h2] at h; cases h
    | ok y =>
      obtain ⟨expected, r2⟩ := y
      rw [h2] at h
      simp only at h
      obtain ⟨c2, hs2, hu2, hp2⟩ := PS_leN 4 r expected r2 h2
      have hcons : s.take (s.length - r.length) = c1 := by
        rw [hs1, List.length_append, Nat.add_sub_cancel, List.take_left' rfl]
      rw [hcons] at h
      by_cases hne : crc c1 ≠ expected
      · rw [if_pos hne] at h; cases h
      · rw [if_neg hne] at h
        simp only [Except.ok.injEq, Prod.mk.injEq] at h
        obtain ⟨rfl, rfl⟩ := h
        refine ⟨c1 ++ c2, by rw [hs1, hs2, List.append_assoc], ?_, ?_⟩
        · intro r''
          unfold cramHeader
          rw [List.append_assoc, hu1]
          simp only
          rw [hu2]
          simp only
          have : (c1 ++ (c2 ++ r'')).take ((c1 ++ (c2 ++ r'')).length - (c2 ++ r'').length) = c1 := by
            rw [List.length_append, Nat.add_sub_cancel, List.take_left' rfl]
          rw [this, if_neg hne]
        · intro j hj
          unfold cramHeader
          by_cases hj1 : j < c1.length
          · have : (c1 ++ c2).take j = c1.take j := by
              rw [List.take_append, show j - c1.length = 0 by omega]; simp
            rw [this, hp1 j hj1]
          · have : (c1 ++ c2).take j = c1 ++ c2.take (j - c1.length) := by
              rw [List.take_append, List.take_of_length_le (by omega)]
            rw [this, hu1]
            simp only
            rw [hp2 _ (by rw [List.length_append] at hj; omega)]

/-- A byte string that `read_container` reads as exactly one container with nothing left over is
read the same way whatever follows it, and every strict prefix of it is `UnexpectedEof`. -/
theorem cramStep_exact (crc : Bytes → Nat) (f : Bytes) (a : Container)
    (h : cramStep crc f = .item a []) :
    (∀ r, cramStep crc (f ++ r) = .item a r) ∧
    (∀ j, j < f.length → cramStep crc (f.take j) = .err .eof) := by
  unfold cramStep at h
  cases h1 : cramHeader crc f with
  | error e => rw [h1] at h; cases h
  | ok x =>
    obtain ⟨⟨hd, c⟩, r⟩ := x
    rw [h1] at h
    simp only at h
    obtain ⟨c1, hs1, hu1, hp1⟩ := PS_cramHeader crc f (hd, c) r h1
    by_cases he : (cramIsEof hd c || hd.len == 0) = true
    · rw [if_pos he] at h; cases h
    · rw [if_neg he] at h
      by_cases hl : r.length < hd.len
      · rw [if_pos hl] at h; cases h
      · rw [if_neg hl] at h
        simp only [Step.item.injEq] at h
        obtain ⟨rfl, hdrop⟩ := h
        have hrl : r.length = hd.len := by
          have := congrArg List.length hdrop
          simp only [List.length_drop, List.length_nil] at this
          omega
        refine ⟨?_, ?_⟩
        · intro r'
          unfold cramStep
          rw [hs1, List.append_assoc, hu1]
          simp only
          rw [if_neg he, if_neg (by rw [List.length_append]; omega),
            List.take_left' hrl, List.drop_left' hrl, List.take_of_length_le (by omega)]
        · intro j hj
          unfold cramStep
          rw [hs1] at hj ⊢
          by_cases hj1 : j < c1.length
          · have : (c1 ++ r).take j = c1.take j := by
              rw [List.take_append, show j - c1.length = 0 by omega]; simp
            rw [this, hp1 j hj1]
          · have : (c1 ++ r).take j = c1 ++ r.take (j - c1.length) := by
              rw [List.take_append, List.take_of_length_le (by omega)]
            rw [this, hu1]
            simp only
            rw [if_neg he, if_pos (by rw [List.length_take]; rw [List.length_append] at hj; omega)]

/-! ## the EOF container -/

def eofHeader : CramHeader := ⟨15, -1, 4542278, 0, 0, 0, 0, 1, []⟩

/-- Boolean form of "`x` is `ok (h, r)`", so that a closed instance can be evaluated by the kernel -/
def isOkWith (x : Except Err (CramHeader × Bytes)) (h : CramHeader) (r : Bytes) : Bool :=
  match x with
  | .ok (h', r') => decide (h' = h) && decide (r' = r)
  | .error _ => false

theorem isOkWith_eq (x : Except Err (CramHeader × Bytes)) (h : CramHeader) (r : Bytes)
    (hx : isOkWith x h r = true) : x = .ok (h, r) := by
  cases x with
  | error e => simp [isOkWith] at hx
  | ok p =>
    obtain ⟨h', r'⟩ := p
    simp only [isOkWith, Bool.and_eq_true, decide_eq_true_eq] at hx
    rw [hx.1, hx.2]

theorem cramFields_eof : cramFields CRAM_EOF = .ok (eofHeader, CRAM_EOF.drop 19) :=
  isOkWith_eq _ _ _ (by decide +kernel)

theorem leN_append (c r : Bytes) (n : Nat) (h : c.length = n) : leN n (c ++ r) = .ok (leVal c, r) := by
  unfold leN Dec.bind Dec.take
  rw [if_neg (by rw [List.length_append]; omega)]
  simp only [Dec.pure]
  rw [List.take_left' h, List.drop_left' h]

/-- the reader stops at the EOF container as soon as its 23-byte header is complete (the 15-byte
body is never read); with less than that it is `UnexpectedEof` -/
theorem cramStep_eof_take (crc : Bytes → Nat) (hcrc : crc (CRAM_EOF.take 19) = 0x4fd9bd05)
    (j : Nat) : cramStep crc (CRAM_EOF.take j) = .ofEnd (if j < 23 then .err .eof else .eof) := by
  obtain ⟨c1, hs1, hu1, hp1⟩ := PS_cramFields CRAM_EOF eofHeader (CRAM_EOF.drop 19) cramFields_eof
  have hc1 : c1 = CRAM_EOF.take 19 := by
    have h := congrArg (List.take 19) hs1
    have hl : c1.length = 19 := by
      have := congrArg List.length hs1
      simp only [List.length_append, List.length_drop] at this
      have h38 : CRAM_EOF.length = 38 := rfl
      omega
    rw [List.take_left' hl] at h
    exact h.symm
  subst hc1
  have hl : (CRAM_EOF.take 19).length = 19 := rfl
  unfold cramStep cramHeader
  by_cases hj : j < 19
  · have : CRAM_EOF.take j = (CRAM_EOF.take 19).take j := by
      rw [List.take_take, Nat.min_eq_left (by omega)]
    rw [this, hp1 j (by omega), if_pos (by omega)]
    rfl
  · have ht : CRAM_EOF.take j = CRAM_EOF.take 19 ++ (CRAM_EOF.drop 19).take (j - 19) := by
      conv => lhs; rw [hs1]
      rw [List.take_append, List.take_of_length_le (by omega), hl]
    rw [ht, hu1]
    simp only
    have hcons : (CRAM_EOF.take 19 ++ (CRAM_EOF.drop 19).take (j - 19)).take
        ((CRAM_EOF.take 19 ++ (CRAM_EOF.drop 19).take (j - 19)).length -
          ((CRAM_EOF.drop 19).take (j - 19)).length) = CRAM_EOF.take 19 := by
      rw [List.length_append, Nat.add_sub_cancel, List.take_left' rfl]
    rw [hcons, hcrc]
    by_cases hj2 : j < 23
    · rw [if_pos hj2]
      have : leN 4 ((CRAM_EOF.drop 19).take (j - 19)) = .error .eof := by
        unfold leN Dec.bind Dec.take
        rw [if_pos (by rw [List.length_take]; omega)]
      rw [this]
      rfl
    · rw [if_neg hj2]
      have h4 : (CRAM_EOF.drop 19).take (j - 19) =
          [0x05, 0xbd, 0xd9, 0x4f] ++ (CRAM_EOF.drop 23).take (j - 23) := by
        have : CRAM_EOF.drop 19 = [0x05, 0xbd, 0xd9, 0x4f] ++ CRAM_EOF.drop 23 := by decide
        rw [this, List.take_append, List.take_of_length_le (by simp; omega)]
        congr 2 <;> simp <;> omega
      have h5 : leN 4 ([0x05, 0xbd, 0xd9, 0x4f] ++ (CRAM_EOF.drop 23).take (j - 23)) =
          .ok (0x4fd9bd05, (CRAM_EOF.drop 23).take (j - 23)) :=
        leN_append [0x05, 0xbd, 0xd9, 0x4f] _ 4 rfl
      rw [h4, h5]
      simp only [ne_eq, not_true_eq_false, if_false]
      have : (cramIsEof eofHeader 0x4fd9bd05 || eofHeader.len == 0) = true := by decide
      rw [if_pos this]
      rfl

/-! ## the container loop on a cut file -/

theorem cramStep_nil (crc : Bytes → Nat) : cramStep crc [] = .err .eof := rfl

def cramStop (_ : Nat) : End := .err .eof
def cramTailStop (j : Nat) : End := if j < 23 then .err .eof else .eof

/-- where a cut falls in a list of containers -/
def cramCut (cs : List (Bytes × Container)) (k : Nat) : Nat × Nat := whole (cs.map (·.1.length)) k

theorem cram_cut (crc : Bytes → Nat) (hcrc : crc (CRAM_EOF.take 19) = 0x4fd9bd05)
    (cs : List (Bytes × Container)) (hc : ∀ p ∈ cs, cramStep crc p.1 = .item p.2 []) (k : Nat) :
    readCram crc (((cs.map (·.1)).flatten ++ CRAM_EOF).take k) =
      ((cs.take (cramCut cs k).1).map (·.2),
       if (cramCut cs k).1 = cs.length then cramTailStop (cramCut cs k).2 else .err .eof) := by
  have hpos : ∀ n ∈ cs.map (·.1.length), 0 < n := by
    intro n hn
    obtain ⟨p, hp, rfl⟩ := List.mem_map.1 hn
    have h := hc p hp
    cases hl : p.1 with
    | nil => rw [hl, cramStep_nil] at h; cases h
    | cons b r => simp
  have hw := whole_fst_le _ hpos k
  have hfuel : (whole (cs.map (·.1.length)) k).1 <
      (((cs.map (·.1)).flatten ++ CRAM_EOF).take k).length + 1 := by
    rw [List.length_take, List.length_append, List.length_flatten, List.map_map]
    have : (List.map (List.length ∘ fun x => x.1) cs) = cs.map (·.1.length) := rfl
    rw [this]
    omega
  have h := readMany_cut (cramStep crc) cramStop cramTailStop cs CRAM_EOF
    (fun p hp r => (cramStep_exact crc p.1 p.2 (hc p hp)).1 r)
    (fun p hp j hj => (cramStep_exact crc p.1 p.2 (hc p hp)).2 j hj)
    (fun j => cramStep_eof_take crc hcrc j)
    k _ hfuel
  unfold readCram cramCut
  rw [h]
  rfl

/-! ## the file definition -/

theorem PS_cramFileDefinition : PS cramFileDefinition := by
  unfold cramFileDefinition
  refine PS_bind _ _ (PS_take 4) fun _ => ?_
  refine PS_bind _ _ (PS_guard _ _) fun _ => ?_
  refine PS_bind _ _ (PS_take 2) fun _ => ?_
  exact PS_bind _ _ (PS_take 20) fun _ => PS_pure _

theorem cramFile_cut (crc : Bytes → Nat) (hcrc : crc (CRAM_EOF.take 19) = 0x4fd9bd05)
    (d : Bytes) (hd : cramFileDefinition d = .ok ((), []))
    (cs : List (Bytes × Container)) (hc : ∀ p ∈ cs, cramStep crc p.1 = .item p.2 []) (k : Nat) :
    readCramFile crc ((d ++ ((cs.map (·.1)).flatten ++ CRAM_EOF)).take k) =
      if k < d.length then ([], .err .eof)
      else ((cs.take (cramCut cs (k - d.length)).1).map (·.2),
        if (cramCut cs (k - d.length)).1 = cs.length then cramTailStop (cramCut cs (k - d.length)).2
        else .err .eof) := by
  obtain ⟨c, hs, hu, hp⟩ := PS_cramFileDefinition d () [] hd
  rw [List.append_nil] at hs
  subst hs
  unfold readCramFile
  by_cases hk : k < d.length
  · rw [if_pos hk]
    have : (d ++ ((cs.map (·.1)).flatten ++ CRAM_EOF)).take k = d.take k := by
      rw [List.take_append, show k - d.length = 0 by omega]; simp
    rw [this, hp k hk]
  · rw [if_neg hk]
    have : (d ++ ((cs.map (·.1)).flatten ++ CRAM_EOF)).take k =
        d ++ ((cs.map (·.1)).flatten ++ CRAM_EOF).take (k - d.length) := by
      rw [List.take_append, List.take_of_length_le (by omega)]
    rw [this, hu]
    simp only
    exact cram_cut crc hcrc cs hc (k - d.length)

/-- Boolean form of "`x` is an item with nothing left", for closed examples -/
def isItemNil (x : Step Container) : Bool :=
  match x with
  | .item _ r => decide (r = [])
  | _ => false

theorem isItemNil_eq (x : Step Container) (h : isItemNil x = true) : ∃ a, x = .item a [] := by
  cases x with
  | eof => simp [isItemNil] at h
  | err e => simp [isItemNil] at h
  | item a r =>
    simp only [isItemNil, decide_eq_true_eq] at h
    exact ⟨a, by rw [h]⟩

/-! ## BAM / BCF header framing -/

theorem PS_bamHeader : PS bamHeader := by
  unfold bamHeader
  refine PS_bind _ _ (PS_take 4) fun _ => ?_
  refine PS_bind _ _ (PS_guard _ _) fun _ => ?_
  refine PS_bind _ _ (PS_leN 4) fun _ => ?_
  refine PS_bind _ _ (PS_take _) fun _ => ?_
  refine PS_bind _ _ (PS_leN 4) fun _ => ?_
  refine PS_bind _ _ (PS_many _ ?_ _) fun _ => PS_pure _
  exact PS_bind _ _ (PS_leN 4) fun _ => PS_bind _ _ (PS_take _) fun _ =>
    PS_bind _ _ (PS_leN 4) fun _ => PS_pure _

theorem PS_bcfHeader : PS bcfHeader := by
  unfold bcfHeader
  refine PS_bind _ _ (PS_take 3) fun _ => ?_
  refine PS_bind _ _ (PS_guard _ _) fun _ => ?_
  refine PS_bind _ _ (PS_take 2) fun _ => ?_
  refine PS_bind _ _ (PS_leN 4) fun _ => ?_
  exact PS_bind _ _ (PS_take _) fun _ => PS_pure _

/-- a decoder that consumed all of `h` fails with `UnexpectedEof` on every strict prefix of `h` -/
theorem PS_strict_prefix {α : Type} (d : Dec α) (hd : PS d) (h : Bytes) (v : α)
    (hok : d h = .ok (v, [])) (j : Nat) (hj : j < h.length) : d (h.take j) = .error .eof := by
  obtain ⟨c, hs, _, hp⟩ := hd h v [] hok
  rw [List.append_nil] at hs
  subst hs
  exact hp j hj

end Noodles.Trunc
