import Noodles.Basic.Wire
import Noodles.Bgzf.MtModel
/-! Line-protocol handler for the multithreaded writer protocol (`c03 …`): replays a forced
completion order on the transition system of `MtModel` with a greedy scheduler for the caller
and the writer thread (each greedy move is a `WStep`). -/
namespace Noodles.MtModel
open Noodles.Wire

/-- caller and writer thread move as far as they can (each move is an enabled `WStep`) -/
def advance : Nat → W → W
  | 0, s => s
  | fuel+1, s =>
    if s.taken = s.written ∧ s.taken < s.nsub ∧ !s.dead ∧ !s.exited then
      advance fuel { s with taken := s.taken + 1 }
    else if s.taken = s.written + 1 ∧ s.written ∈ s.done ∧ s.failAt ≠ some s.written ∧ !s.dead then
      advance fuel { s with written := s.written + 1, sink := s.sink ++ [some s.written] }
    else if !s.closed ∧ s.nsub < s.total ∧ s.nsub - s.taken < s.cap ∧ !s.dead then
      advance fuel { s with nsub := s.nsub + 1 }
    else s

def replay : W → List Nat → Option W
  | s, [] => some s
  | s, i :: rest =>
    let s := advance (4 * s.total + 8) s
    if i < s.nsub ∧ i ∉ s.done then replay { s with done := i :: s.done } rest else none

def fmtSink (l : List Entry) : String :=
  ",".intercalate (l.map fun e => match e with | some i => toString i | none => "eof")

def handleC03 : List String → String
  | ["wsched", cap, n, order] =>
    match cap.toNat?, n.toNat?, nats order with
    | some cap, some n, some order =>
      match replay (W.init n cap none) order with
      | none => "infeasible"
      | some s =>
        let s := advance (4 * n + 8) s
        if s.nsub = s.total ∧ !s.closed then
          let s := advance (4 * n + 8) { s with closed := true }
          if s.closed ∧ !s.exited ∧ s.taken = s.written ∧ s.written = s.nsub ∧ !s.dead then
            s!"feasible sink={fmtSink (s.sink ++ [none])}"
          else "stuck"
        else "stuck"
    | _, _, _ => "bad-op"
  | _ => "bad-op"

end Noodles.MtModel
