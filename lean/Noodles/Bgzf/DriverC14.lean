import Noodles.Basic.Wire
import Noodles.Basic.Crc32
import Noodles.Bgzf.Driver
import Noodles.Bgzf.SinkModel
/-! Line-protocol handlers for the scripted-destination suites (`c14 …`). -/
namespace Noodles.Bgzf.SM
open Noodles.Wire hiding Bytes
open Noodles.Codec Noodles.Bgzf

def werrStr : WErr → String
  | .sink k => s!"err:kind{k}"
  | .sinkZero => "err:write-zero"
  | .enc e => Bgzf.errStr e

/-- `a<n>` accept at most n bytes, `i` interrupted; `-` = empty script -/
def parseScript (s : String) : Option (List Step) :=
  if s = "-" then some [] else
  (s.splitOn ",").mapM fun e =>
    match e.toList with
    | ['i'] => some Step.interrupted
    | 'a' :: r => (String.ofList r).toNat?.map Step.accept
    | _ => none

def parseFailAt (s : String) : Option (Option Nat) :=
  if s = "-" then some none else s.toNat?.map some

def parseEnd (s : String) : Option End :=
  if s = "fin" then some .finish else if s = "try" then some .tryFinish
  else if s = "drop" then some .drop else none

def vposW (w : FW) : Nat := w.position * 65536 + w.staging.length

def fmtSink (s : Sink) : String :=
  s!"sink={s.accepted.length}:{Crc32.crc32 s.accepted} calls={s.calls} failed={if s.failed then 1 else 0}"

/-- replay a history call by call; stop at the first error like the harness does. Every answer
carries `position()` and `virtual_position()` after the call — also after a failed one. -/
def replayW (D : Deflater) (lvl : Nat) : FW → List HOp → List String → FW × List String × Bool
  | w, [], acc => (w, acc.reverse, true)
  | w, op :: ops, acc =>
    match op with
    | .all b =>
      match step D lvl w (.write b) with
      | (none, w') => replayW D lvl w' ops (s!"ok:{w'.position}:{vposW w'}" :: acc)
      | (some e, w') => (w', (s!"{werrStr e}:{w'.position}:{vposW w'}" :: acc).reverse, false)
    | .one b =>
      match write1 D lvl w b with
      | (.ok amt, w') => replayW D lvl w' ops (s!"amt{amt}:{w'.position}:{vposW w'}" :: acc)
      | (.error e, w') => (w', (s!"{werrStr e}:{w'.position}:{vposW w'}" :: acc).reverse, false)
    | .flush =>
      match flush D lvl w with
      | (none, w') => replayW D lvl w' ops (s!"ok:{w'.position}:{vposW w'}" :: acc)
      | (some e, w') => (w', (s!"{werrStr e}:{w'.position}:{vposW w'}" :: acc).reverse, false)

def toOps : List HOp → Option (List Op)
  | [] => some []
  | .all b :: r => (toOps r).map (Op.write b :: ·)
  | .flush :: r => (toOps r).map (Op.flush :: ·)
  | .one _ :: _ => none

def handleC14 : List String → String
  | ["sess", lvl, fin, script, fallback, failAt, kind, ops, table] =>
    match lvl.toNat?, parseEnd fin, parseScript script, fallback.toNat?, parseFailAt failAt,
        kind.toNat?, parseOps ops, parseDefTable table with
    | some lvl, some fin, some script, some fallback, some failAt, some kind, some ops, some dt =>
      let D := tableDeflater dt []
      let w0 := FW.init (Sink.fresh script fallback failAt kind)
      let (w, outs, ok) := replayW D lvl w0 ops []
      let per := if outs.isEmpty then "-" else ",".intercalate outs
      let (endS, wf) : String × FW :=
        if !ok then ("aborted", drop D lvl w) else
        match fin with
        | .drop => ("dropped", drop D lvl w)
        | .tryFinish =>
          match tryFinish D lvl w with
          | (none, w') => (s!"ok pos={w'.position}", w')
          | (some e, w') => (s!"{werrStr e} pos={w'.position}", w')
        | .finish =>
          match tryFinish D lvl w with
          | (none, w') => ("ok", w')
          | (some e, w') => (werrStr e, drop D lvl w')
      -- the call-by-call replay and `session` (the function the theorems are about) must agree
      let consistent :=
        match toOps ops with
        | none => true
        | some ops' =>
          let s := (session D lvl w0 ops' fin).2
          s.sink.accepted == wf.sink.accepted && s.sink.calls == wf.sink.calls && s.position == wf.position
      if !consistent then "model-inconsistent" else
      s!"{per} | end={endS} | {fmtSink wf.sink}"
    | _, _, _, _, _, _, _, _ => "bad-op"
  | ["feed", script, fallback, failAt, kind, chunks] =>
    match parseScript script, fallback.toNat?, parseFailAt failAt, kind.toNat?,
        (if chunks = "-" then some [] else (chunks.splitOn ",").mapM unhex) with
    | some script, some fallback, some failAt, some kind, some chunks =>
      let (r, s) := feed (Sink.fresh script fallback failAt kind) chunks
      let rs := match r with | none => "ok" | some e => werrStr e
      s!"{rs} {fmtSink s} left={s.script.length}"
    | _, _, _, _, _ => "bad-op"
  | _ => "bad-op"

end Noodles.Bgzf.SM
