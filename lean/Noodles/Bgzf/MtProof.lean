import Noodles.Bgzf.MtModel
/-! Helper lemmas (invariants) for the C03 theorems. -/
namespace Noodles.MtModel

theorem frames_succ (n : Nat) : frames (n+1) = frames n ++ [some n] := by
  simp [frames, List.range_succ]

/-- pigeonhole: a duplicate-free list of naturals below `n` has at most `n` elements -/
theorem nodup_bounded_length :
    ∀ (n : Nat) (l : List Nat), l.Nodup → (∀ i ∈ l, i < n) → l.length ≤ n := by
  intro n
  induction n with
  | zero =>
    intro l _ h
    cases l with
    | nil => simp
    | cons a l => exact absurd (h a (by simp)) (by omega)
  | succ n ih =>
    intro l hnd h
    have h1 := ih (l.erase n) (hnd.erase n) (fun i hi => by
      have h2 := (hnd.mem_erase_iff).mp hi
      have := h i h2.2
      omega)
    have h3 := List.length_erase (a := n) (l := l)
    split at h3 <;> omega

/-! ## writer -/

structure WInv (total cap : Nat) (failAt : Option Nat) (s : W) : Prop where
  tot : s.total = total
  cp : s.cap = cap
  fa : s.failAt = failAt
  sub : s.nsub ≤ s.total
  tk : s.taken ≤ s.nsub
  wr : s.written ≤ s.taken ∧ s.taken ≤ s.written + 1
  dn : ∀ i ∈ s.done, i < s.nsub
  nd : s.done.Nodup
  cl : s.closed = true → s.nsub = s.total ∨ s.dead = true
  sk : s.sink = frames s.written ++ (if s.exited then [none] else [])
  ex : s.exited = true → s.closed = true ∧ s.written = s.nsub ∧ s.taken = s.written ∧
        s.dead = false ∧ s.nsub = s.total
  dd : s.dead = true → s.failAt = some s.written ∧ s.taken = s.written + 1
  fw : ∀ k, s.failAt = some k → s.written ≤ k
  ob : s.observed = true → s.dead = true
  jn : s.joined = true → s.closed = true ∧ (s.exited = true ∨ s.dead = true)
  jo : s.joined = true → s.observed = s.dead

theorem winv_init (total cap : Nat) (failAt : Option Nat) :
    WInv total cap failAt (W.init total cap failAt) := by
  constructor <;> simp [W.init, frames]

theorem winv_step {total cap : Nat} {failAt : Option Nat} {s t : W}
    (ih : WInv total cap failAt s) (hs : WStep s t) : WInv total cap failAt t := by
  cases hs with
  | submit h1 h2 h3 h4 =>
    have ⟨a1, a2, a3, a4, a5, a6, a7, a8, a9, a10, a11, a12, a13, a14, a15, a16⟩ := ih
    constructor <;> simp only [] <;> grind
  | complete i h1 h2 =>
    have ⟨a1, a2, a3, a4, a5, a6, a7, a8, a9, a10, a11, a12, a13, a14, a15, a16⟩ := ih
    constructor <;> simp only [] <;> grind
  | take h1 h2 h3 h4 =>
    have ⟨a1, a2, a3, a4, a5, a6, a7, a8, a9, a10, a11, a12, a13, a14, a15, a16⟩ := ih
    constructor <;> simp only [] <;> grind
  | write h1 h2 h3 h4 =>
    have ⟨a1, a2, a3, a4, a5, a6, a7, a8, a9, a10, a11, a12, a13, a14, a15, a16⟩ := ih
    constructor <;> simp only [] <;> grind [frames_succ]
  | fail h1 h2 h3 h4 =>
    have ⟨a1, a2, a3, a4, a5, a6, a7, a8, a9, a10, a11, a12, a13, a14, a15, a16⟩ := ih
    constructor <;> simp only [] <;> grind
  | observe h1 h2 h3 =>
    have ⟨a1, a2, a3, a4, a5, a6, a7, a8, a9, a10, a11, a12, a13, a14, a15, a16⟩ := ih
    constructor <;> simp only [] <;> grind
  | close h1 h2 =>
    have ⟨a1, a2, a3, a4, a5, a6, a7, a8, a9, a10, a11, a12, a13, a14, a15, a16⟩ := ih
    constructor <;> simp only [] <;> grind
  | exit h1 h2 h3 h4 h5 =>
    have ⟨a1, a2, a3, a4, a5, a6, a7, a8, a9, a10, a11, a12, a13, a14, a15, a16⟩ := ih
    constructor <;> simp only [] <;> grind
  | join h1 h2 h3 =>
    have ⟨a1, a2, a3, a4, a5, a6, a7, a8, a9, a10, a11, a12, a13, a14, a15, a16⟩ := ih
    constructor <;> simp only [] <;> grind

theorem winv_reach (total cap : Nat) (failAt : Option Nat) (s : W)
    (h : WReach total cap failAt s) : WInv total cap failAt s := by
  induction h with
  | init => exact winv_init total cap failAt
  | step _ hs ih => exact winv_step ih hs

/-- termination measure for the writer system -/
def W.mu (s : W) : Nat :=
  (s.total - s.nsub) + (s.total - s.done.length) + (s.total - s.taken) + (s.total - s.written)
    + (if s.dead then 0 else 1) + (if s.closed then 0 else 1) + (if s.exited then 0 else 1)
    + (if s.joined then 0 else 1)

theorem mu_init (total cap : Nat) (failAt : Option Nat) :
    (W.init total cap failAt).mu = 4 * total + 4 := by
  simp [W.init, W.mu]; omega

theorem done_length_le {total cap : Nat} {failAt : Option Nat} {s : W}
    (ih : WInv total cap failAt s) : s.done.length ≤ s.nsub :=
  nodup_bounded_length s.nsub s.done ih.nd ih.dn

theorem mu_step {total cap : Nat} {failAt : Option Nat} {s t : W}
    (ih : WInv total cap failAt s) (hs : WStep s t) : t.mu < s.mu := by
  have ⟨a1, a2, a3, a4, a5, a6, a7, a8, a9, a10, a11, a12, a13, a14, a15, a16⟩ := ih
  have hd := done_length_le ih
  cases hs with
  | submit h1 h2 h3 h4 => simp only [W.mu]; omega
  | complete i h1 h2 =>
    have := nodup_bounded_length s.nsub (i :: s.done) (List.nodup_cons.mpr ⟨h2, a8⟩)
      (fun j hj => by rcases List.mem_cons.mp hj with rfl | hj; exact h1; exact a7 j hj)
    simp only [W.mu, List.length_cons] at *; omega
  | take h1 h2 h3 h4 => simp only [W.mu]; omega
  | write h1 h2 h3 h4 => simp only [W.mu]; omega
  | fail h1 h2 h3 h4 => simp [W.mu, h4]
  | observe h1 h2 h3 => simp [W.mu, h2]; omega
  | close h1 h2 => simp [W.mu, h1]
  | exit h1 h2 h3 h4 h5 => simp [W.mu, h2]
  | join h1 h2 h3 => simp [W.mu, h2]

theorem wpath_bound {total cap : Nat} {failAt : Option Nat} {s t : W} {n : Nat}
    (hp : WPath s n t) : WInv total cap failAt s → n ≤ s.mu := by
  induction hp with
  | nil s => intro _; exact Nat.zero_le _
  | cons hs _ ih =>
    intro hi
    have h1 := ih (winv_step hi hs)
    have h2 := mu_step hi hs
    omega

/-! ## reader -/

structure RInv (n nbuf : Nat) (corrupt : Option Nat) (s : R) : Prop where
  pn : s.n = n
  pb : s.nbuf = nbuf
  pc : s.corrupt = corrupt
  is : s.issued ≤ s.n
  dl : s.delivered ≤ s.issued
  dn : ∀ i ∈ s.done, i < s.issued
  ef : s.eof = true → s.issued = s.n
  hd : s.held = 1
  tok : s.free + (s.issued - s.delivered) + s.held + (if s.eof then 1 else 0)
          + (if s.err then 1 else 0) = s.nbuf + 1
  ou : s.out = List.range s.out.length
  e0 : s.err = false → s.out.length = s.delivered
  e1 : s.err = true → s.corrupt = some s.out.length ∧ s.delivered = s.out.length + 1
  cj : ∀ j, s.corrupt = some j → s.err = false → s.delivered ≤ j

theorem rinv_init (n nbuf : Nat) (corrupt : Option Nat) :
    RInv n nbuf corrupt (R.init n nbuf corrupt) := by
  constructor <;> simp [R.init]

theorem rinv_step {n nbuf : Nat} {corrupt : Option Nat} {s t : R}
    (ih : RInv n nbuf corrupt s) (hs : RStep s t) : RInv n nbuf corrupt t := by
  have ⟨a1, a2, a3, a4, a5, a6, a7, a8, a9, a10, a11, a12, a13⟩ := ih
  cases hs with
  | issue h1 h2 h3 => constructor <;> simp only [] <;> grind
  | hitEof h1 h2 h3 => constructor <;> simp only [] <;> grind
  | complete i h1 h2 => constructor <;> simp only [] <;> grind
  | deliver h1 h2 h3 h4 =>
    have hlen := a11 h4
    have hou : s.out ++ [s.delivered] = List.range (s.out ++ [s.delivered]).length := by
      rw [List.length_append, List.length_singleton, List.range_succ, ← a10, hlen]
    constructor <;> simp only [] <;> first | exact hou | grind
  | deliverErr h1 h2 h3 h4 => constructor <;> simp only [] <;> grind

theorem rinv_reach (n nbuf : Nat) (corrupt : Option Nat) (s : R)
    (h : RReach n nbuf corrupt s) : RInv n nbuf corrupt s := by
  induction h with
  | init => exact rinv_init n nbuf corrupt
  | step _ hs ih => exact rinv_step ih hs

end Noodles.MtModel
