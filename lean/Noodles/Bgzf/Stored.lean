import Noodles.Basic.Codec
import Noodles.Basic.Crc32
import Noodles.Bgzf.Frame
/-!
# DEFLATE at compression level 0 (stored blocks) and an independent gzip reader (model)

* `storedDeflate` — what `deflate::encode` (noodles-bgzf/src/deflate.rs, zlib-rs
  `Deflate::new(0, raw, 15).compress(src, dst, Finish)` with `dst.len() = compress_bound(src.len())`)
  emits at level 0: zlib's `deflate_stored` copies the whole input as RFC 1951 stored blocks
  `BFINAL|BTYPE=00, LEN, NLEN, data`, at most 65535 bytes per block, the last one with BFINAL = 1;
  an EMPTY input is one empty final block `01 00 00 ff ff`; an input whose length is a positive
  multiple of 65535 gets NO trailing empty block. The writer only ever passes ≤ 65495 bytes
  (one block); the split is checked against the library separately (`c01 stored deflate`).
* `inflateStored` — an inflater written from RFC 1951 §3.2.3/§3.2.4 for streams of stored blocks
  (plus the one fixed-Huffman block BGZF needs: the empty final block `03 00` of the EOF marker).
* `gunzipMember` / `gunzipAll` — an RFC 1952 gzip member / multi-member reader that knows nothing
  about BGZF (`BC`, BSIZE): FEXTRA is skipped whatever its subfields, FNAME/FCOMMENT skipped,
  FHCRC verified, reserved FLG bits rejected, CRC32 and ISIZE verified.
-/
namespace Noodles.Bgzf
open Noodles.Codec

/-- zlib `MAX_STORED` -/
def MAX_STORED : Nat := 65535

/-- one stored block: header byte (BFINAL in bit 0, BTYPE = 00, padding 0), LEN, NLEN = ¬LEN, data -/
def storedBlock (final : Bool) (x : Bytes) : Bytes :=
  (if final then 0x01 else 0x00) :: (le 2 x.length ++ le 2 (65535 - x.length) ++ x)

/-- `deflate_stored` with `Finish`, all input present and enough output space: full 65535-byte
non-final blocks while more than 65535 bytes are left, then one final block with the rest
(`last = flush == Finish && len == left + avail_in`). Fuel = number of bytes (never runs out). -/
def storedDeflateAux : Nat → Bytes → Bytes
  | 0, x => storedBlock true x
  | fuel+1, x =>
    if x.length ≤ MAX_STORED then storedBlock true x
    else storedBlock false (x.take MAX_STORED) ++ storedDeflateAux fuel (x.drop MAX_STORED)

def storedDeflate (x : Bytes) : Bytes := storedDeflateAux x.length x

/-! ## independent inflater (RFC 1951, stored blocks) -/

inductive GzErr
  | truncated      -- input ends inside a header / block / trailer
  | badNlen        -- LEN and NLEN are not complements
  | unsupported    -- BTYPE = 01 (other than the empty final block) or 10: compressed blocks
  | badBtype       -- BTYPE = 11 (reserved)
  | badMagic | badMethod | badFlags | badHcrc | badCrc | badIsize
  | fuel
  deriving Repr, DecidableEq

/-- LEN NLEN data of a stored block (RFC 1951 §3.2.4); returns (data, rest) -/
def storedBody (r : Bytes) : Except GzErr (Bytes × Bytes) :=
  match unle 2 r with
  | .error _ => .error .truncated
  | .ok (len, r1) =>
    match unle 2 r1 with
    | .error _ => .error .truncated
    | .ok (nlen, r2) =>
      if len + nlen ≠ 65535 then .error .badNlen else
      if r2.length < len then .error .truncated else
      .ok (r2.take len, r2.drop len)

/-- a DEFLATE stream made of stored blocks, each starting on a byte boundary: read blocks until
one has BFINAL set. Returns (output, bytes after the end of the stream). The five padding bits
after a stored block's 3 header bits are ignored, as the RFC says. BTYPE = 01 is accepted only as
the empty final block (`BFINAL=1, BTYPE=01`, 7-bit end-of-block code `0000000`, i.e. first byte
`03` and the two low bits of the next byte zero; the rest of that byte is padding). -/
def inflateStored : Nat → Bytes → Except GzErr (Bytes × Bytes)
  | 0, _ => .error .fuel
  | _+1, [] => .error .truncated
  | fuel+1, b :: r =>
    let bfinal := b.toNat % 2
    let btype := b.toNat / 2 % 4
    if btype = 0 then
      match storedBody r with
      | .error e => .error e
      | .ok (data, rest) =>
        if bfinal = 1 then .ok (data, rest) else
        match inflateStored fuel rest with
        | .error e => .error e
        | .ok (more, rest') => .ok (data ++ more, rest')
    else if btype = 1 then
      if b.toNat = 3 then
        match r with
        | [] => .error .truncated
        | c :: r' => if c.toNat % 4 = 0 then .ok ([], r') else .error .unsupported
      else .error .unsupported
    else if btype = 2 then .error .unsupported
    else .error .badBtype

/-- the whole of `c` is one stream inflating to exactly `n` bytes (what `deflate::decode` is
asked for) -/
def inflateExact (c : Bytes) (n : Nat) : Option Bytes :=
  match inflateStored (c.length + 1) c with
  | .ok (d, []) => if d.length = n then some d else none
  | _ => none

/-- the concrete level-0 library: stored-block deflater, the independent inflater, real CRC-32 -/
def storedDeflater : Deflater where
  deflate := fun _ x => storedDeflate x
  inflate := inflateExact
  crc := Crc32.crc32

/-! ## independent gzip reader (RFC 1952) -/

/-- skip a zero-terminated string (FNAME / FCOMMENT) -/
def skipZ : Bytes → Option Bytes
  | [] => none
  | b :: r => if b = 0 then some r else skipZ r

/-- optional header parts after the 10 fixed bytes, in RFC order: FEXTRA, FNAME, FCOMMENT, FHCRC.
`hdr` is the whole member from its first byte (for the header CRC16). -/
def gzOptional (flg : Nat) (hdr r : Bytes) : Except GzErr Bytes :=
  -- FEXTRA (bit 2): XLEN then XLEN bytes of subfields, skipped whatever they are
  let afterExtra : Except GzErr Bytes :=
    if flg / 4 % 2 = 1 then
      match unle 2 r with
      | .error _ => .error .truncated
      | .ok (xlen, r1) => if r1.length < xlen then .error .truncated else .ok (r1.drop xlen)
    else .ok r
  match afterExtra with
  | .error e => .error e
  | .ok r1 =>
    -- FNAME (bit 3)
    match (if flg / 8 % 2 = 1 then skipZ r1 else some r1) with
    | none => .error .truncated
    | some r2 =>
      -- FCOMMENT (bit 4)
      match (if flg / 16 % 2 = 1 then skipZ r2 else some r2) with
      | none => .error .truncated
      | some r3 =>
        -- FHCRC (bit 1): CRC16 = low 16 bits of the CRC-32 of all header bytes before it
        if flg / 2 % 2 = 1 then
          match unle 2 r3 with
          | .error _ => .error .truncated
          | .ok (c16, r4) =>
            if Crc32.crc32 (hdr.take (hdr.length - r3.length)) % 65536 = c16 then .ok r4
            else .error .badHcrc
        else .ok r3

/-- one gzip member off the front: (uncompressed data, rest). MTIME, XFL, OS and FTEXT are
ignored; CM must be 8; reserved FLG bits 5–7 must be zero. -/
def gunzipMember (s : Bytes) : Except GzErr (Bytes × Bytes) :=
  match s with
  | id1 :: id2 :: cm :: flg :: _ :: _ :: _ :: _ :: _ :: _ :: r =>
    if id1.toNat ≠ 0x1f ∨ id2.toNat ≠ 0x8b then .error .badMagic else
    if cm.toNat ≠ 8 then .error .badMethod else
    if flg.toNat / 32 ≠ 0 then .error .badFlags else
    match gzOptional flg.toNat s r with
    | .error e => .error e
    | .ok body =>
      match inflateStored (body.length + 1) body with
      | .error e => .error e
      | .ok (data, r1) =>
        match unle 4 r1 with
        | .error _ => .error .truncated
        | .ok (crc, r2) =>
          match unle 4 r2 with
          | .error _ => .error .truncated
          | .ok (isize, rest) =>
            if Crc32.crc32 data ≠ crc then .error .badCrc else
            if data.length % 2^32 ≠ isize then .error .badIsize else
            .ok (data, rest)
  | _ => .error .truncated

/-- a gzip file is a series of members (RFC 1952 §2.2): concatenate their data -/
def gunzipLoop : Nat → Bytes → Except GzErr Bytes
  | 0, _ => .error .fuel
  | fuel+1, s =>
    if s.isEmpty then .ok [] else
    match gunzipMember s with
    | .error e => .error e
    | .ok (data, rest) =>
      match gunzipLoop fuel rest with
      | .error e => .error e
      | .ok more => .ok (data ++ more)

def gunzipAll (s : Bytes) : Except GzErr Bytes := gunzipLoop (s.length + 1) s

end Noodles.Bgzf
