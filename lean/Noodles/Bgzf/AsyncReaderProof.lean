import Noodles.Bgzf.AsyncReader
import Noodles.Bgzf.ReaderProof
/-!
# Helper lemmas for C16 (async BGZF reader): the poll machine computes, under EVERY script, the
sequential meaning of the async operations; the sequential meaning simulates the sync reader.
-/
namespace Noodles.Bgzf.Async
open Noodles.Bgzf.RM

variable {α : Type}

/-! ## A. the pipeline (FramedRead + TryBuffered) -/

/-- pipe invariant relative to the number `t` of members taken by the reader -/
structure PInv (L : Layout α) (t : Nat) (p : Pipe) : Prop where
  tLe : t ≤ p.fetched
  eofLen : p.eof = true → L.length ≤ p.fetched

theorem framedPoll_spec (L : Layout α) (sc : List Poll1) (p : Pipe) :
    (framedPoll L sc p).2.1.length ≤ sc.length ∧
    ((framedPoll L sc p).2.2 = .frame →
      (framedPoll L sc p).1.fetched = p.fetched + 1 ∧ (framedPoll L sc p).1.eof = p.eof) ∧
    ((framedPoll L sc p).2.2 = .none →
      (framedPoll L sc p).1.fetched = p.fetched ∧ (framedPoll L sc p).1.eof = true ∧
      L.length ≤ p.fetched) ∧
    ((framedPoll L sc p).2.2 = .pending →
      (framedPoll L sc p).1.fetched = p.fetched ∧ (framedPoll L sc p).1.eof = p.eof ∧
      (framedPoll L sc p).2.1.length < sc.length) := by
  induction sc generalizing p with
  | nil =>
    unfold framedPoll
    cases h : L[p.fetched]? with
    | none =>
      have := getElem?_none_le L _ h
      simp [this]
    | some b => simp
  | cons ev sc ih =>
    unfold framedPoll
    cases h : L[p.fetched]? with
    | none =>
      have := getElem?_none_le L _ h
      cases ev with
      | pending => simp
      | ready n => simp [this]
    | some b =>
      simp only
      split
      · simp
      · cases ev with
        | pending => simp
        | ready n =>
          simp only
          obtain ⟨h1, h2, h3, h4⟩ := ih { p with spos := p.spos + min (max n 1) (total L - p.spos) }
          refine ⟨by simp only [List.length_cons]; omega, h2, h3, ?_⟩
          intro hp
          obtain ⟨a, b', c⟩ := h4 hp
          exact ⟨a, b', by simp only [List.length_cons]; omega⟩

theorem fillQueue_spec (L : Layout α) (w t : Nat) (fuel : Nat) (p : Pipe) (sc : List Poll1)
    (hi : PInv L t p) :
    PInv L t (fillQueue L w t fuel p sc).1 ∧
    (fillQueue L w t fuel p sc).2.length ≤ sc.length ∧
    (w ≤ (fillQueue L w t fuel p sc).1.fetched - t ∨ (fillQueue L w t fuel p sc).1.eof = true ∨
      (fillQueue L w t fuel p sc).2.length < sc.length ∨
      p.fetched + fuel ≤ (fillQueue L w t fuel p sc).1.fetched) := by
  induction fuel generalizing p sc with
  | zero =>
    unfold fillQueue
    exact ⟨hi, Nat.le_refl _, Or.inr (Or.inr (Or.inr (Nat.le_refl _)))⟩
  | succ fuel ih =>
    unfold fillQueue
    split
    · rename_i hc
      obtain ⟨f1, f2, f3, f4⟩ := framedPoll_spec L sc p
      generalize hfp : framedPoll L sc p = res at f1 f2 f3 f4
      obtain ⟨p', sc', fr⟩ := res
      cases fr with
      | frame =>
        simp only at f1 f2 ⊢
        obtain ⟨g1, g2⟩ := f2 trivial
        have hi' : PInv L t p' := ⟨by have := hi.tLe; omega, by rw [g2]; intro h; have := hi.eofLen h; omega⟩
        obtain ⟨i1, i2, i3⟩ := ih p' sc' hi'
        refine ⟨i1, by omega, ?_⟩
        rcases i3 with i3 | i3 | i3 | i3
        · exact Or.inl i3
        · exact Or.inr (Or.inl i3)
        · exact Or.inr (Or.inr (Or.inl (by omega)))
        · exact Or.inr (Or.inr (Or.inr (by omega)))
      | none =>
        simp only at f1 f3 ⊢
        obtain ⟨g1, g2, g3⟩ := f3 trivial
        exact ⟨⟨by have := hi.tLe; omega, by intro _; omega⟩, f1, Or.inr (Or.inl g2)⟩
      | pending =>
        simp only at f1 f4 ⊢
        obtain ⟨g1, g2, g3⟩ := f4 trivial
        exact ⟨⟨by have := hi.tLe; omega, by rw [g2]; intro h; have := hi.eofLen h; omega⟩, f1,
          Or.inr (Or.inr (Or.inl g3))⟩
    · rename_i hc
      refine ⟨hi, Nat.le_refl _, ?_⟩
      simp only
      by_cases h1 : p.fetched - t < w
      · have : p.eof = true := by
          cases he : p.eof with
          | true => rfl
          | false => exact absurd ⟨h1, he⟩ hc
        exact Or.inr (Or.inl this)
      · exact Or.inl (by omega)

/-- what one `TryBuffered::poll_next` does, whatever the script -/
theorem pollNext_spec (L : Layout α) (w t : Nat) (hw : 1 ≤ w) (p : Pipe) (sd : Sched)
    (hi : PInv L t p) :
    (pollNext (α := α) L w t p sd).2.1.measure ≤ sd.measure ∧
    (∀ b, (pollNext L w t p sd).2.2 = .item b → L[t]? = some b ∧ PInv L (t+1) (pollNext L w t p sd).1) ∧
    ((pollNext (α := α) L w t p sd).2.2 = .done → L[t]? = none ∧ PInv L t (pollNext (α := α) L w t p sd).1) ∧
    ((pollNext (α := α) L w t p sd).2.2 = .pending →
      (pollNext (α := α) L w t p sd).2.1.measure < sd.measure ∧ PInv L t (pollNext (α := α) L w t p sd).1) := by
  obtain ⟨q1, q2, q3⟩ := fillQueue_spec L w t w p sd.src hi
  unfold pollNext
  simp only
  generalize fillQueue L w t w p sd.src = q at q1 q2 q3
  split
  · rename_i hlt
    have hi1 : PInv L (t+1) q.1 := ⟨by omega, q1.eofLen⟩
    cases hinf : sd.inf with
    | nil =>
      simp only [Sched.measure, hinf]
      cases hb : L[t]? with
      | none => simp; exact ⟨by omega, q1⟩
      | some b => simp; exact ⟨by omega, hi1⟩
    | cons x inf' =>
      cases x with
      | false =>
        simp only [Sched.measure, hinf, List.length_cons]
        refine ⟨by omega, (by intro b h; cases h), (by intro h; cases h), fun _ => ⟨by omega, q1⟩⟩
      | true =>
        simp only [Sched.measure, hinf, List.length_cons]
        cases hb : L[t]? with
        | none => simp; exact ⟨by omega, q1⟩
        | some b => simp; exact ⟨by omega, hi1⟩
  · rename_i hge
    split
    · rename_i heof
      simp only [Sched.measure]
      refine ⟨by omega, (by intro b h; cases h), fun _ => ⟨?_, q1⟩, (by intro h; cases h)⟩
      have := q1.eofLen heof
      apply List.getElem?_eq_none
      omega
    · rename_i hneof
      simp only [Sched.measure]
      have hlt : q.2.length < sd.src.length := by
        rcases q3 with h | h | h | h
        · omega
        · exact absurd h hneof
        · exact h
        · have := hi.tLe; omega
      exact ⟨by omega, (by intro b h; cases h), (by intro h; cases h), fun _ => ⟨by omega, q1⟩⟩

/-! ## B. `poll_fill_buf` -/

theorem readBlockA_none (L : Layout α) (s : R α) (h : L[s.next]? = none) : readBlockA L s = s := by
  rw [readBlockA]; split
  · rfl
  · rename_i b hb; rw [h] at hb; cases hb

theorem readBlockA_pos (L : Layout α) (s : R α) (b : Blk α) (h : L[s.next]? = some b)
    (hp : b.data.length > 0) : readBlockA L s = absorb s b := by
  rw [readBlockA]; split
  · rename_i hb; rw [h] at hb; cases hb
  · rename_i b' hb; rw [h] at hb; cases hb; rw [if_pos hp]

theorem readBlockA_zero (L : Layout α) (s : R α) (b : Blk α) (h : L[s.next]? = some b)
    (hp : ¬ b.data.length > 0) : readBlockA L s = readBlockA L (absorb s b) := by
  rw [readBlockA]; split
  · rename_i hb; rw [h] at hb; cases hb
  · rename_i b' hb; rw [h] at hb; cases hb; rw [if_neg hp]

/-- `s'` is `s` after taking some (possibly zero) empty members from the stream -/
inductive Skip (L : Layout α) : R α → R α → Prop
  | refl (s : R α) : Skip L s s
  | step (s : R α) (b : Blk α) (s' : R α) : L[s.next]? = some b → ¬ b.data.length > 0 →
      Skip L (absorb s b) s' → Skip L s s'

theorem skip_readBlockA (L : Layout α) (s s' : R α) (h : Skip L s s') :
    readBlockA L s' = readBlockA L s := by
  induction h with
  | refl s => rfl
  | step s b s' hb h0 _ ih => rw [ih, readBlockA_zero L s b hb h0]

theorem absorb_noRem (s : R α) (b : Blk α) (h0 : ¬ b.data.length > 0) :
    hasRemaining (absorb s b) = false := by
  have : b.data.length = 0 := by omega
  simp [hasRemaining, absorb, this]

theorem skip_noRem (L : Layout α) (s s' : R α) (h : Skip L s s') (hr : hasRemaining s = false) :
    hasRemaining s' = false := by
  induction h with
  | refl s => exact hr
  | step s b s' _ h0 _ ih => exact ih (absorb_noRem s b h0)

theorem fillBufA_noRem (L : Layout α) (s : R α) (hr : hasRemaining s = false) :
    fillBufA L s = (readBlockA L s, (readBlockA L s).data.drop (readBlockA L s).cur) := by
  unfold fillBufA; rw [hr]; simp

theorem fillBufA_rem (L : Layout α) (s : R α) (hr : hasRemaining s = true) :
    fillBufA L s = (s, s.data.drop s.cur) := by
  unfold fillBufA; rw [hr]; simp

theorem skip_fillBufA (L : Layout α) (s s' : R α) (h : Skip L s s') (hr : hasRemaining s = false) :
    fillBufA L s' = fillBufA L s := by
  rw [fillBufA_noRem L s hr, fillBufA_noRem L s' (skip_noRem L s s' h hr), skip_readBlockA L s s' h]

theorem drop_nil_of_noRem (s : R α) (hr : hasRemaining s = false) : s.data.drop s.cur = [] := by
  simp only [hasRemaining, decide_eq_false_iff_not] at hr
  apply List.drop_eq_nil_of_le; omega

/-- what one `poll_fill_buf` does, whatever the script: `Ready` is the sequential `fill_buf`; `Pending`
consumed part of the script, delivered nothing, and at most took empty members from the stream. -/
theorem pollFillBuf_spec (L : Layout α) (w : Nat) (hw : 1 ≤ w) (fuel : Nat) (a : AR α) (sd : Sched)
    (hi : PInv L a.r.next a.p) (hf : L.length - a.r.next < fuel) :
    (pollFillBuf L w fuel a sd).2.1.measure ≤ sd.measure ∧
    PInv L (pollFillBuf L w fuel a sd).1.r.next (pollFillBuf L w fuel a sd).1.p ∧
    ((pollFillBuf L w fuel a sd).2.2 = .pending →
      (pollFillBuf L w fuel a sd).2.1.measure < sd.measure ∧ hasRemaining a.r = false ∧
      Skip L a.r (pollFillBuf L w fuel a sd).1.r) ∧
    (∀ bs, (pollFillBuf L w fuel a sd).2.2 = .ready bs →
      ((pollFillBuf L w fuel a sd).1.r, bs) = fillBufA L a.r) := by
  induction fuel generalizing a sd with
  | zero => omega
  | succ fuel ih =>
    unfold pollFillBuf
    cases hr : hasRemaining a.r with
    | true =>
      simp only [if_true]
      refine ⟨Nat.le_refl _, hi, (by intro h; cases h), ?_⟩
      intro bs h
      cases h
      rw [fillBufA_rem L a.r hr]
    | false =>
      simp only [Bool.false_eq_true, if_false]
      obtain ⟨n1, n2, n3, n4⟩ := pollNext_spec L w a.r.next hw a.p sd hi
      generalize pollNext L w a.r.next a.p sd = res at n1 n2 n3 n4
      obtain ⟨p', sd', pr⟩ := res
      cases pr with
      | pending =>
        simp only at n1 n4 ⊢
        obtain ⟨m1, m2⟩ := n4 trivial
        exact ⟨n1, m2, fun _ => ⟨m1, by trivial, Skip.refl _⟩, (by intro bs h; cases h)⟩
      | done =>
        simp only at n1 n3 ⊢
        obtain ⟨m1, m2⟩ := n3 trivial
        refine ⟨n1, m2, (by intro h; cases h), ?_⟩
        intro bs h
        cases h
        rw [fillBufA_noRem L a.r hr, readBlockA_none L a.r m1, drop_nil_of_noRem a.r hr]
      | item b =>
        simp only at n1 n2 ⊢
        obtain ⟨m1, m2⟩ := n2 b rfl
        by_cases hp : b.data.length > 0
        · rw [if_pos hp]
          refine ⟨n1, m2, (by intro h; cases h), ?_⟩
          intro bs h
          cases h
          rw [fillBufA_noRem L a.r hr, readBlockA_pos L a.r b m1 hp]
          simp [absorb]
        · rw [if_neg hp]
          have hlt := getElem?_some_lt L _ b m1
          obtain ⟨i1, i2, i3, i4⟩ := ih ⟨absorb a.r b, p'⟩ sd' m2 (by simp only [absorb]; omega)
          refine ⟨by omega, i2, ?_, ?_⟩
          · intro h
            obtain ⟨j1, _, j3⟩ := i3 h
            exact ⟨by omega, by trivial, Skip.step a.r b _ m1 hp j3⟩
          · intro bs h
            rw [i4 bs h, fillBufA_noRem L a.r hr, fillBufA_noRem L _ (absorb_noRem a.r b hp),
              readBlockA_zero L a.r b m1 hp]

/-! ## C. futures: polling until `Ready` computes the sequential operation under every script -/

theorem fbFuel_ok (L : Layout α) (a : AR α) : L.length - a.r.next < fbFuel L a := by
  unfold fbFuel; omega

theorem driveFillBuf_spec (L : Layout α) (w : Nat) (hw : 1 ≤ w) (fuel : Nat) (a : AR α) (sd : Sched)
    (hi : PInv L a.r.next a.p) (hf : sd.measure < fuel) :
    (driveFillBuf L w fuel a sd).2.1.measure ≤ sd.measure ∧
    PInv L (driveFillBuf L w fuel a sd).1.r.next (driveFillBuf L w fuel a sd).1.p ∧
    ∃ bs, (driveFillBuf L w fuel a sd).2.2 = some bs ∧
      ((driveFillBuf L w fuel a sd).1.r, bs) = fillBufA L a.r := by
  induction fuel generalizing a sd with
  | zero => omega
  | succ fuel ih =>
    unfold driveFillBuf
    obtain ⟨f1, f2, f3, f4⟩ := pollFillBuf_spec L w hw (fbFuel L a) a sd hi (fbFuel_ok L a)
    generalize pollFillBuf L w (fbFuel L a) a sd = res at f1 f2 f3 f4
    obtain ⟨a', sd', pr⟩ := res
    cases pr with
    | pending =>
      simp only at f1 f2 f3 ⊢
      obtain ⟨g1, g2, g3⟩ := f3 trivial
      obtain ⟨i1, i2, bs, i3, i4⟩ := ih a' sd' f2 (by omega)
      exact ⟨by omega, i2, bs, i3, by rw [i4, skip_fillBufA L a.r a'.r g3 g2]⟩
    | ready bs =>
      simp only at f1 f2 f4 ⊢
      exact ⟨f1, f2, bs, rfl, f4 bs rfl⟩

theorem pollRead_spec (L : Layout α) (w : Nat) (hw : 1 ≤ w) (a : AR α) (sd : Sched) (n : Nat)
    (hi : PInv L a.r.next a.p) :
    (pollRead L w a sd n).2.1.measure ≤ sd.measure ∧
    PInv L (pollRead L w a sd n).1.r.next (pollRead L w a sd n).1.p ∧
    ((pollRead L w a sd n).2.2 = .pending →
      (pollRead L w a sd n).2.1.measure < sd.measure ∧ hasRemaining a.r = false ∧
      Skip L a.r (pollRead L w a sd n).1.r) ∧
    (∀ bs, (pollRead L w a sd n).2.2 = .ready bs →
      ((pollRead L w a sd n).1.r, bs) = readA L a.r n) := by
  unfold pollRead
  obtain ⟨f1, f2, f3, f4⟩ := pollFillBuf_spec L w hw (fbFuel L a) a sd hi (fbFuel_ok L a)
  generalize pollFillBuf L w (fbFuel L a) a sd = res at f1 f2 f3 f4
  obtain ⟨a', sd', pr⟩ := res
  cases pr with
  | pending =>
    simp only at f1 f2 f3 ⊢
    exact ⟨f1, f2, fun _ => f3 trivial, (by intro bs h; cases h)⟩
  | ready src =>
    simp only at f1 f2 f4 ⊢
    refine ⟨f1, ?_, (by intro h; cases h), ?_⟩
    · simpa [consume] using f2
    · intro bs h
      cases h
      have := f4 src rfl
      unfold readA
      rw [← this]

theorem skip_readA (L : Layout α) (s s' : R α) (n : Nat) (h : Skip L s s')
    (hr : hasRemaining s = false) : readA L s' n = readA L s n := by
  unfold readA; rw [skip_fillBufA L s s' h hr]

theorem driveRead_spec (L : Layout α) (w : Nat) (hw : 1 ≤ w) (n : Nat) (fuel : Nat) (a : AR α)
    (sd : Sched) (hi : PInv L a.r.next a.p) (hf : sd.measure < fuel) :
    (driveRead L w n fuel a sd).2.1.measure ≤ sd.measure ∧
    PInv L (driveRead L w n fuel a sd).1.r.next (driveRead L w n fuel a sd).1.p ∧
    ∃ bs, (driveRead L w n fuel a sd).2.2 = some bs ∧
      ((driveRead L w n fuel a sd).1.r, bs) = readA L a.r n := by
  induction fuel generalizing a sd with
  | zero => omega
  | succ fuel ih =>
    unfold driveRead
    obtain ⟨f1, f2, f3, f4⟩ := pollRead_spec L w hw a sd n hi
    generalize pollRead L w a sd n = res at f1 f2 f3 f4
    obtain ⟨a', sd', pr⟩ := res
    cases pr with
    | pending =>
      simp only at f1 f2 f3 ⊢
      obtain ⟨g1, g2, g3⟩ := f3 trivial
      obtain ⟨i1, i2, bs, i3, i4⟩ := ih a' sd' f2 (by omega)
      exact ⟨by omega, i2, bs, i3, by rw [i4, skip_readA L a.r a'.r n g3 g2]⟩
    | ready bs =>
      simp only at f1 f2 f4 ⊢
      exact ⟨f1, f2, bs, rfl, f4 bs rfl⟩

def xOfExcept : Except Err (List α) → XRes α
  | .ok b => .ok b
  | .error _ => .eof

theorem readExactLoop_spec (L : Layout α) (w : Nat) (hw : 1 ≤ w) (fuel : Nat) (a : AR α) (sd : Sched)
    (n : Nat) (acc : List α) (hi : PInv L a.r.next a.p) :
    (readExactLoop L w fuel a sd n acc).2.1.measure ≤ sd.measure ∧
    PInv L (readExactLoop L w fuel a sd n acc).1.r.next (readExactLoop L w fuel a sd n acc).1.p ∧
    (readExactLoop L w fuel a sd n acc).1.r = (readExactA L fuel a.r n acc).1 ∧
    (readExactLoop L w fuel a sd n acc).2.2 = xOfExcept (readExactA L fuel a.r n acc).2 := by
  induction fuel generalizing a sd n acc with
  | zero => unfold readExactLoop readExactA; exact ⟨Nat.le_refl _, hi, by trivial, by trivial⟩
  | succ fuel ih =>
    unfold readExactLoop readExactA
    by_cases hn : n = 0
    · simp only [hn, if_true]; exact ⟨Nat.le_refl _, hi, by trivial, by trivial⟩
    · simp only [hn, if_false]
      obtain ⟨f1, f2, bs, f3, f4⟩ := driveRead_spec L w hw n (sd.measure + 1) a sd hi (by omega)
      generalize driveRead L w n (sd.measure + 1) a sd = res at f1 f2 f3 f4
      obtain ⟨a', sd', o⟩ := res
      simp only at f1 f2 f3 f4
      subst f3
      simp only
      have e1 : (readA L a.r n).1 = a'.r := by rw [← f4]
      have e2 : (readA L a.r n).2 = bs := by rw [← f4]
      rw [e1, e2]
      by_cases hb : bs.isEmpty
      · simp only [hb, if_true]; exact ⟨f1, f2, by trivial, by trivial⟩
      · simp only [hb, Bool.false_eq_true, if_false]
        obtain ⟨i1, i2, i3, i4⟩ := ih a' sd' (n - bs.length) (acc ++ bs) f2
        exact ⟨by omega, i2, i3, i4⟩

theorem driveNext_spec (L : Layout α) (w t : Nat) (hw : 1 ≤ w) (fuel : Nat) (p : Pipe) (sd : Sched)
    (hi : PInv L t p) (hf : sd.measure < fuel) :
    (driveNext (α := α) L w t fuel p sd).2.1.measure ≤ sd.measure ∧
    (driveNext L w t fuel p sd).2.2 = some L[t]? ∧
    PInv L (match L[t]? with | some _ => t + 1 | none => t) (driveNext (α := α) L w t fuel p sd).1 := by
  induction fuel generalizing p sd with
  | zero => omega
  | succ fuel ih =>
    unfold driveNext
    obtain ⟨n1, n2, n3, n4⟩ := pollNext_spec L w t hw p sd hi
    generalize pollNext L w t p sd = res at n1 n2 n3 n4
    obtain ⟨p', sd', pr⟩ := res
    cases pr with
    | pending =>
      simp only at n1 n4 ⊢
      obtain ⟨m1, m2⟩ := n4 trivial
      obtain ⟨i1, i2, i3⟩ := ih p' sd' m2 (by omega)
      exact ⟨by omega, i2, i3⟩
    | done =>
      simp only at n1 n3 ⊢
      obtain ⟨m1, m2⟩ := n3 trivial
      rw [m1]; exact ⟨n1, rfl, m2⟩
    | item b =>
      simp only at n1 n2 ⊢
      obtain ⟨m1, m2⟩ := n2 b rfl
      rw [m1]; exact ⟨n1, rfl, m2⟩

theorem seek_spec (L : Layout α) (w : Nat) (hw : 1 ≤ w) (a : AR α) (sd : Sched) (c u : Nat)
    (hi : PInv L a.r.next a.p) :
    (seek L w a sd c u).2.1.measure ≤ sd.measure ∧
    PInv L (seek L w a sd c u).1.r.next (seek L w a sd c u).1.p ∧
    ((seek L w a sd c u).1.r, (seek L w a sd c u).2.2) = seekA L a.r c u := by
  unfold seek seekA
  cases hm : memberAt L c with
  | none => exact ⟨Nat.le_refl _, hi, rfl⟩
  | some k =>
    simp only
    obtain ⟨d1, d2, d3⟩ := driveNext_spec L w k hw (sd.measure + 1) ⟨c, k, false⟩ sd
      ⟨Nat.le_refl _, by intro h; cases h⟩ (by omega)
    generalize driveNext L w k (sd.measure + 1) ⟨c, k, false⟩ sd = res at d1 d2 d3
    obtain ⟨p', sd', o⟩ := res
    simp only at d1 d2 d3
    subst d2
    simp only
    cases hb : L[k]? with
    | none =>
      rw [hb] at d3
      simp only at d3 ⊢
      split
      · exact ⟨d1, d3, rfl⟩
      · exact ⟨d1, d3, rfl⟩
    | some b =>
      rw [hb] at d3
      simp only at d3 ⊢
      split
      · exact ⟨d1, d3, rfl⟩
      · exact ⟨d1, d3, rfl⟩

theorem readExactA_err (L : Layout α) (fuel : Nat) (s : R α) (n : Nat) (acc : List α) (e : Err)
    (h : (readExactA L fuel s n acc).2 = .error e) : e = .eof := by
  induction fuel generalizing s n acc with
  | zero => unfold readExactA at h; cases h; rfl
  | succ fuel ih =>
    unfold readExactA at h
    by_cases hn : n = 0
    · simp [hn] at h
    · simp only [hn, if_false] at h
      by_cases hb : (readA L s n).2.isEmpty
      · simp only [hb, if_true] at h; cases h; rfl
      · simp only [hb, Bool.false_eq_true, if_false] at h
        exact ih _ _ _ h

/-- one operation, polled to completion under ANY script, is the sequential operation -/
theorem stepA_spec (L : Layout α) (w : Nat) (hw : 1 ≤ w) (a : AR α) (sd : Sched) (op : AOp)
    (hi : PInv L a.r.next a.p) :
    PInv L (stepA L w a sd op).1.r.next (stepA L w a sd op).1.p ∧
    (stepA L w a sd op).2.2 = .out (stepSeq L a.r op).2 ∧
    (stepA L w a sd op).1.r = (stepSeq L a.r op).1 := by
  cases op with
  | read n =>
    simp only [stepA, stepSeq]
    obtain ⟨f1, f2, bs, f3, f4⟩ := driveRead_spec L w hw n (sd.measure + 1) a sd hi (by omega)
    generalize driveRead L w n (sd.measure + 1) a sd = res at f1 f2 f3 f4 ⊢
    obtain ⟨a', sd', o⟩ := res
    simp only at f2 f3 f4
    subst f3
    simp only
    rw [← f4]
    exact ⟨f2, rfl, rfl⟩
  | readExact n =>
    simp only [stepA, stepSeq]
    obtain ⟨f1, f2, f3, f4⟩ := readExactLoop_spec L w hw (n + 1) a sd n [] hi
    generalize readExactLoop L w (n + 1) a sd n [] = res at f1 f2 f3 f4 ⊢
    obtain ⟨a', sd', o⟩ := res
    generalize hseq : readExactA L (n + 1) a.r n [] = seq at f3 f4 ⊢
    obtain ⟨s', e⟩ := seq
    simp only at f2 f3 f4
    subst f4
    cases e with
    | ok b => exact ⟨f2, rfl, f3⟩
    | error e =>
      have := readExactA_err L (n + 1) a.r n [] e (by rw [hseq])
      subst this
      exact ⟨f2, rfl, f3⟩
  | fillConsume n =>
    simp only [stepA, stepSeq]
    obtain ⟨f1, f2, bs, f3, f4⟩ := driveFillBuf_spec L w hw (sd.measure + 1) a sd hi (by omega)
    generalize driveFillBuf L w (sd.measure + 1) a sd = res at f1 f2 f3 f4 ⊢
    obtain ⟨a', sd', o⟩ := res
    simp only at f2 f3 f4
    subst f3
    simp only
    rw [← f4]
    exact ⟨by simpa [consume] using f2, rfl, rfl⟩
  | seek c u =>
    simp only [stepA, stepSeq]
    obtain ⟨f1, f2, f3⟩ := seek_spec L w hw a sd c u hi
    generalize seek L w a sd c u = res at f1 f2 f3 ⊢
    obtain ⟨a', sd', o⟩ := res
    simp only at f2 f3
    rw [← f3]
    cases o with
    | none => exact ⟨f2, rfl, rfl⟩
    | some e => exact ⟨f2, rfl, rfl⟩
  | tell =>
    simp only [stepA, stepSeq]
    exact ⟨hi, by trivial, by trivial⟩

def runSeq (L : Layout α) : R α → List AOp → List (Out α)
  | _, [] => []
  | s, op :: ops => (stepSeq L s op).2 :: runSeq L (stepSeq L s op).1 ops

theorem runA_eq_seq (L : Layout α) (w : Nat) (hw : 1 ≤ w) (ops : List AOp) (a : AR α) (sd : Sched)
    (hi : PInv L a.r.next a.p) :
    runA L w a sd ops = (runSeq L a.r ops).map AOut.out := by
  induction ops generalizing a sd with
  | nil => rfl
  | cons op ops ih =>
    unfold runA runSeq
    obtain ⟨s1, s2, s3⟩ := stepA_spec L w hw a sd op hi
    generalize stepA L w a sd op = res at s1 s2 s3 ⊢
    obtain ⟨a', sd', o⟩ := res
    simp only at s1 s2 s3
    simp only [List.map_cons]
    rw [s2, ih a' sd' s1, s3]

/-! ## D. the sequential async operations simulate the sync reader -/

theorem readBlock_none (L : Layout α) (s : R α) (h : L[s.next]? = none) :
    readBlock L s = { s with bpos := s.position, bsize := 0, data := [], cur := 0 } := by
  rw [readBlock]; split
  · rfl
  · rename_i b hb; rw [h] at hb; cases hb

theorem readBlock_pos (L : Layout α) (s : R α) (b : Blk α) (h : L[s.next]? = some b)
    (hp : b.data.length > 0) : readBlock L s = absorb s b := by
  rw [readBlock]; split
  · rename_i hb; rw [h] at hb; cases hb
  · rename_i b' hb; rw [h] at hb; cases hb; simp only [if_pos hp]; rfl

theorem readBlock_zero (L : Layout α) (s : R α) (b : Blk α) (h : L[s.next]? = some b)
    (hp : ¬ b.data.length > 0) : readBlock L s = readBlock L (absorb s b) := by
  rw [readBlock]; split
  · rename_i hb; rw [h] at hb; cases hb
  · rename_i b' hb; rw [h] at hb; cases hb; simp only [if_neg hp]; rfl

/-- `readBlock` only looks at `next` and `position` -/
theorem readBlock_congr (L : Layout α) (a b : R α) (h1 : a.next = b.next) (h2 : a.position = b.position) :
    readBlock L a = readBlock L b := by
  cases h : L[a.next]? with
  | none =>
    rw [readBlock_none L a h, readBlock_none L b (by rw [← h1]; exact h)]
    cases a; cases b; simp only at h1 h2; subst h1; subst h2; rfl
  | some x =>
    by_cases hp : x.data.length > 0
    · rw [readBlock_pos L a x h hp, readBlock_pos L b x (by rw [← h1]; exact h) hp]
      simp only [absorb, h1, h2]
    · rw [readBlock_zero L a x h hp, readBlock_zero L b x (by rw [← h1]; exact h) hp]
      simp only [absorb, h1, h2]

theorem readBlock_cur (L : Layout α) (s : R α) : (readBlock L s).cur = 0 := by
  fun_induction readBlock L s with
  | case1 s hnone => rfl
  | case2 s b hb s' hpos => rfl
  | case3 s b hb s' hnpos ih => exact ih

theorem readBlock_eofIdem (L : Layout α) (s : R α) (h : L[s.next]? = none) :
    readBlock L (readBlock L s) = readBlock L s := by
  rw [readBlock_none L s h]
  rw [readBlock_none L _ (by simpa using h)]

/-- the async loop against the sync loop from the same exhausted block: either both stop on the same
non-empty member, or both reach the end of the stream (the sync reader then installs an empty block,
the async reader keeps the last one) -/
theorem readBlockA_vs (L : Layout α) (s : R α) (hr : hasRemaining s = false) :
    (readBlockA L s = readBlock L s ∧ hasRemaining (readBlock L s) = true) ∨
    (hasRemaining (readBlockA L s) = false ∧ readBlock L s = readBlock L (readBlockA L s) ∧
      L[(readBlockA L s).next]? = none ∧ (readBlock L s).data = []) := by
  fun_induction readBlockA L s with
  | case1 s hnone =>
    right
    refine ⟨hr, rfl, hnone, ?_⟩
    rw [readBlock_none L s hnone]
  | case2 s b hb hpos =>
    left
    rw [readBlock_pos L s b hb hpos]
    refine ⟨rfl, ?_⟩
    simp only [hasRemaining, absorb]
    exact decide_eq_true hpos
  | case3 s b hb hnpos ih =>
    rw [readBlock_zero L s b hb hnpos]
    exact ih (absorb_noRem s b hnpos)

theorem absorb_inv (L : Layout α) (s : R α) (b : Blk α) (hi : Inv L s) (hb : L[s.next]? = some b) :
    Inv L (absorb s b) := by
  have hcoff := coff_succ L s.next b hb
  have hlt := getElem?_some_lt L s.next b hb
  refine ⟨?_, ?_, ?_, rfl, Or.inl ⟨s.next, b, rfl, hb, hi.pos, rfl, rfl⟩⟩
  · simp only [absorb]; rw [hcoff, hi.pos]
  · simp only [absorb]; omega
  · simp [absorb]

theorem readBlockA_inv (L : Layout α) (s : R α) (hi : Inv L s) : Inv L (readBlockA L s) := by
  fun_induction readBlockA L s with
  | case1 s hnone => exact hi
  | case2 s b hb hpos => exact absorb_inv L s b hi hb
  | case3 s b hb hnpos ih => exact ih (absorb_inv L s b hi hb)

/-- the simulation relation: the async cursor `a` is the sync cursor `s`, or `a` has an exhausted
block and `s` is what the sync reader's block loop makes of it (`a` lags behind: it sits on an empty
member after a seek, or keeps its last block at the end of the stream).  `P` constrains where a
lagging cursor can sit (used for the exact-position variant). -/
def Rel (L : Layout α) (P : Nat → Prop) (a s : R α) : Prop :=
  a = s ∨ (hasRemaining a = false ∧ s = readBlock L a ∧ P a.next)

structure Sim (L : Layout α) (P : Nat → Prop) (a s : R α) : Prop where
  ia : Inv L a
  is : Inv L s
  rel : Rel L P a s

/-- what `fill_buf` leaves behind on both sides -/
structure FillOut (L : Layout α) (P : Nat → Prop) (ra rs : R α × List α) : Prop where
  bytes : ra.2 = rs.2
  ia : Inv L ra.1
  is : Inv L rs.1
  bufA : ra.2 = ra.1.data.drop ra.1.cur
  rel : ra.1 = rs.1 ∨ (ra.2 = [] ∧ hasRemaining ra.1 = false ∧ rs.1 = readBlock L ra.1 ∧
          rs.1.data = [] ∧ rs.1.cur = 0 ∧ P ra.1.next)

theorem inv_readBlock (L : Layout α) (s : R α) (hi : Inv L s) : Inv L (readBlock L s) :=
  (readBlock_spec L s hi.pos hi.nextLe).1

theorem fill_sim (L : Layout α) (P : Nat → Prop) (hnoneP : ∀ k, L[k]? = none → P k) (a s : R α)
    (h : Sim L P a s) : FillOut L P (fillBufA L a) (fillBuf L s) := by
  rcases h.rel with heq | ⟨hr, hs, _⟩
  · subst heq
    cases hr : hasRemaining a with
    | true =>
      rw [fillBufA_rem L a hr]
      unfold fillBuf; rw [hr]; simp only [if_true]
      exact ⟨rfl, h.ia, h.ia, rfl, Or.inl rfl⟩
    | false =>
      rw [fillBufA_noRem L a hr]
      unfold fillBuf; rw [hr]; simp only [Bool.false_eq_true, if_false]
      have hiA := readBlockA_inv L a h.ia
      have hiS := inv_readBlock L a h.ia
      rcases readBlockA_vs L a hr with ⟨e, _⟩ | ⟨n1, n2, n3, n4⟩
      · exact ⟨by rw [e], hiA, hiS, rfl, Or.inl e⟩
      · refine ⟨?_, hiA, hiS, rfl, Or.inr ⟨drop_nil_of_noRem _ n1, n1, n2, n4, readBlock_cur L a, hnoneP _ n3⟩⟩
        simp only
        rw [drop_nil_of_noRem _ n1, n4]; simp
  · subst hs
    rw [fillBufA_noRem L a hr]
    have hiA := readBlockA_inv L a h.ia
    rcases readBlockA_vs L a hr with ⟨e, hrem⟩ | ⟨n1, n2, n3, n4⟩
    · unfold fillBuf; rw [hrem]; simp only [if_true]
      exact ⟨by rw [e], hiA, h.is, rfl, Or.inl e⟩
    · have hnr : hasRemaining (readBlock L a) = false := by
        simp [hasRemaining, n4]
      unfold fillBuf; rw [hnr]; simp only [Bool.false_eq_true, if_false]
      have hidem : readBlock L (readBlock L a) = readBlock L a := by
        rw [n2]; exact readBlock_eofIdem L _ n3
      rw [hidem]
      refine ⟨?_, hiA, h.is, rfl, Or.inr ⟨drop_nil_of_noRem _ n1, n1, n2, n4, readBlock_cur L a, hnoneP _ n3⟩⟩
      simp only
      rw [drop_nil_of_noRem _ n1, n4]; simp

theorem consume_noRem (n : Nat) (s : R α) (hr : hasRemaining s = false) :
    hasRemaining (consume n s) = false := by
  have h1 : ¬ s.cur < s.data.length := by simpa [hasRemaining] using hr
  have h2 : ¬ (consume n s).cur < (consume n s).data.length := by simp only [consume]; omega
  unfold hasRemaining
  exact decide_eq_false h2

theorem consume_sim (L : Layout α) (P : Nat → Prop) (ra rs : R α × List α) (k : Nat)
    (h : FillOut L P ra rs) : Sim L P (consume k ra.1) (consume k rs.1) := by
  refine ⟨consume_inv L _ k h.ia, consume_inv L _ k h.is, ?_⟩
  rcases h.rel with e | ⟨_, n1, n2, n3, n4, n5⟩
  · rw [e]; exact Or.inl rfl
  · right
    refine ⟨consume_noRem k _ n1, ?_, n5⟩
    have e1 : consume k rs.1 = rs.1 := by
      cases hrs : rs.1 with
      | mk nx po bp bs da cu =>
        rw [hrs] at n3 n4
        simp only at n3 n4
        subst n3; subst n4
        simp [consume]
    rw [e1, n2]
    exact readBlock_congr L _ _ rfl rfl

theorem read_eq_nodirect (L : Layout α) (hL : WF L) (s : R α) (n : Nat) (hi : Inv L s) :
    read L s n = (consume (min n (fillBuf L s).2.length) (fillBuf L s).1,
      (fillBuf L s).2.take (min n (fillBuf L s).2.length)) := by
  rw [read_eq]
  split
  · rename_i hc
    simp only [Bool.and_eq_true, Bool.not_eq_true', decide_eq_true_eq] at hc
    obtain ⟨hr, hn⟩ := hc
    have hcur := readBlock_cur L s
    have hle := inv_data_le_max L hL _ (inv_readBlock L s hi)
    unfold fillBuf; rw [hr]; simp only [Bool.false_eq_true, if_false]
    rw [hcur]
    simp only [List.drop_zero]
    have hm : min n (readBlock L s).data.length = (readBlock L s).data.length := by omega
    rw [hm, List.take_length]
    congr 1
    cases hrb : readBlock L s with
    | mk nx po bp bs da cu =>
      rw [hrb] at hcur; simp only at hcur; subst hcur
      simp [consume]
  · rfl

theorem read_sim (L : Layout α) (hL : WF L) (P : Nat → Prop) (hnoneP : ∀ k, L[k]? = none → P k)
    (a s : R α) (n : Nat) (h : Sim L P a s) :
    (readA L a n).2 = (read L s n).2 ∧ Sim L P (readA L a n).1 (read L s n).1 := by
  have hf := fill_sim L P hnoneP a s h
  rw [read_eq_nodirect L hL s n h.is]
  unfold readA
  simp only
  rw [Nat.min_comm (fillBufA L a).2.length n, hf.bytes]
  exact ⟨rfl, consume_sim L P _ _ _ hf⟩

theorem readExact_eq_loop (L : Layout α) (hL : WF L) (s : R α) (n : Nat) (hi : Inv L s) :
    readExact L s n = RM.readExactLoop L (n + 1) s n [] := by
  unfold readExact
  split
  · rename_i hle
    simp only [List.length_drop] at hle
    by_cases hn : n = 0
    · subst hn
      unfold RM.readExactLoop
      simp only [if_true, List.take_zero]
      congr 1
      cases hs : s with
      | mk nx po bp bs da cu =>
        have := hi.curLe; rw [hs] at this; simp only at this
        simp only [consume, Nat.add_zero]
        congr 1; omega
    · unfold RM.readExactLoop
      simp only [hn, if_false]
      have hr : hasRemaining s = true := by simp [hasRemaining]; omega
      have hrd : read L s n = (consume n s, (s.data.drop s.cur).take n) := by
        rw [read_eq_nodirect L hL s n hi]
        unfold fillBuf; rw [hr]; simp only [if_true, List.length_drop]
        have : min n (s.data.length - s.cur) = n := by omega
        rw [this]
      rw [hrd]
      simp only
      have hlen : ((s.data.drop s.cur).take n).length = n := by
        simp only [List.length_take, List.length_drop]; omega
      have hne : ((s.data.drop s.cur).take n).isEmpty = false := by
        cases hx : (s.data.drop s.cur).take n with
        | nil => rw [hx] at hlen; simp at hlen; omega
        | cons _ _ => rfl
      rw [hne]
      simp only [Bool.false_eq_true, if_false, hlen, Nat.sub_self, List.nil_append]
      cases n with
      | zero => omega
      | succ m => unfold RM.readExactLoop; simp
  · rfl

theorem readExactLoop_sim (L : Layout α) (hL : WF L) (P : Nat → Prop)
    (hnoneP : ∀ k, L[k]? = none → P k) (fuel : Nat) (a s : R α) (n : Nat) (acc : List α)
    (h : Sim L P a s) :
    (readExactA L fuel a n acc).2 = (RM.readExactLoop L fuel s n acc).2 ∧
    Sim L P (readExactA L fuel a n acc).1 (RM.readExactLoop L fuel s n acc).1 := by
  induction fuel generalizing a s n acc with
  | zero => unfold readExactA RM.readExactLoop; exact ⟨rfl, h⟩
  | succ fuel ih =>
    unfold readExactA RM.readExactLoop
    by_cases hn : n = 0
    · simp only [hn, if_true]; exact ⟨by trivial, h⟩
    · simp only [hn, if_false]
      obtain ⟨r1, r2⟩ := read_sim L hL P hnoneP a s n h
      generalize readA L a n = ra at r1 r2
      generalize read L s n = rs at r1 r2
      obtain ⟨a', ga⟩ := ra
      obtain ⟨s', gs⟩ := rs
      simp only at r1 r2
      subst r1
      simp only
      by_cases hb : ga.isEmpty
      · simp only [hb, if_true]; exact ⟨by trivial, r2⟩
      · simp only [hb, Bool.false_eq_true, if_false]
        exact ih a' s' _ _ r2

theorem seek_sim (L : Layout α) (P : Nat → Prop)
    (hseekP : ∀ k b, L[k]? = some b → ¬ b.data.length > 0 → P (k + 1))
    (a s : R α) (c u : Nat) (h : Sim L P a s) (hv : SeekValid L (.seek c u)) :
    (seekA L a c u).2 = (RM.seek L s c u).2 ∧ Sim L P (seekA L a c u).1 (RM.seek L s c u).1 := by
  have hsi := seek_inv L s c u h.is
  unfold seekA
  unfold RM.seek at hsi ⊢
  cases hm : memberAt L c with
  | none => exact ⟨rfl, h⟩
  | some k =>
    rw [hm] at hsi
    simp only at hsi ⊢
    obtain ⟨hk, hc⟩ := memberAt_some L c k hm
    have hi0 : Inv L (⟨k, c, c, 0, [], 0⟩ : R α) :=
      ⟨hc.symm, hk, Nat.le_refl _, rfl, Or.inr rfl⟩
    have e0 : readBlock L { s with next := k, position := c } = readBlock L (⟨k, c, c, 0, [], 0⟩ : R α) :=
      readBlock_congr L _ _ rfl rfl
    rw [e0] at hsi ⊢
    cases hb : L[k]? with
    | none =>
      have e1 : readBlock L (⟨k, c, c, 0, [], 0⟩ : R α) = ⟨k, c, c, 0, [], 0⟩ := by
        rw [readBlock_none L _ (by simpa using hb)]
      rw [e1] at hsi ⊢
      simp only at hsi ⊢
      by_cases hgt : u > ([] : List α).length
      · rw [if_pos hgt] at hsi ⊢; exact ⟨by trivial, hsi, hsi, Or.inl rfl⟩
      · rw [if_neg hgt] at hsi ⊢; exact ⟨by trivial, hsi, hsi, Or.inl rfl⟩
    | some b =>
      by_cases hp : b.data.length > 0
      · have e1 : readBlock L (⟨k, c, c, 0, [], 0⟩ : R α) = ⟨k + 1, c + b.csize, c, b.csize, b.data, 0⟩ := by
          rw [readBlock_pos L _ b (by simpa using hb) hp]; rfl
        rw [e1] at hsi ⊢
        simp only at hsi ⊢
        by_cases hgt : u > b.data.length
        · rw [if_pos hgt] at hsi ⊢; exact ⟨by trivial, hsi, hsi, Or.inl rfl⟩
        · rw [if_neg hgt] at hsi ⊢; exact ⟨by trivial, hsi, hsi, Or.inl rfl⟩
      · have hu : u = 0 := hv k b hm hb (by omega)
        subst hu
        have e1 : readBlock L (⟨k, c, c, 0, [], 0⟩ : R α) =
            readBlock L (⟨k + 1, c + b.csize, c, b.csize, b.data, 0⟩ : R α) := by
          rw [readBlock_zero L _ b (by simpa using hb) hp]; rfl
        rw [e1] at hsi ⊢
        have hia : Inv L (⟨k + 1, c + b.csize, c, b.csize, b.data, 0⟩ : R α) :=
          absorb_inv L ⟨k, c, c, 0, [], 0⟩ b hi0 (by simpa using hb)
        have hnr : hasRemaining (⟨k + 1, c + b.csize, c, b.csize, b.data, 0⟩ : R α) = false :=
          absorb_noRem ⟨k, c, c, 0, [], 0⟩ b hp
        generalize hrb : readBlock L (⟨k + 1, c + b.csize, c, b.csize, b.data, 0⟩ : R α) = rb at hsi ⊢
        have hcur : rb.cur = 0 := by rw [← hrb]; exact readBlock_cur L _
        simp only [Nat.not_lt_zero, if_false] at hsi ⊢
        have e2 : ({ rb with cur := 0 } : R α) = rb := by
          cases rb; simp only at hcur; subst hcur; rfl
        rw [e2] at hsi ⊢
        exact ⟨by trivial, hia, hsi, Or.inr ⟨hnr, hrb.symm, hseekP k b hb hp⟩⟩

theorem noRem_le (s : R α) (hr : hasRemaining s = false) : s.data.length ≤ s.cur := by
  have : ¬ s.cur < s.data.length := by simpa [hasRemaining] using hr
  omega

theorem off_sim (L : Layout α) (P : Nat → Prop) (a s : R α) (h : Sim L P a s) : off L a = off L s := by
  rcases h.rel with e | ⟨hr, hs, _⟩
  · rw [e]
  · rw [hs, (readBlock_spec L a h.ia.pos h.ia.nextLe).2.2.1, off_exhausted L a (noRem_le a hr)]

theorem tell_sim (L : Layout α) (hL : WF L) (P : Nat → Prop) (a s : R α) (h : Sim L P a s) :
    cursor L a = cursor L s ∧ cursor L a = some (off L a) := by
  rw [cursor_of_inv L hL a h.ia, cursor_of_inv L hL s h.is, off_sim L P a s h]
  exact ⟨rfl, rfl⟩

/-- where a lagging cursor may sit for the reported positions to be numerically equal: not in front
of another empty member -/
def PX (L : Layout α) (k : Nat) : Prop := ∀ b, L[k]? = some b → b.data.length > 0

theorem tell_exact (L : Layout α) (a s : R α) (h : Sim L (PX L) a s) : tell a = tell s := by
  rcases h.rel with e | ⟨hr, hs, hp⟩
  · rw [e]
  · have ha : tell a = (a.position, 0) := by
      unfold tell; rw [hr]; simp only [Bool.false_eq_true, if_false]; rw [h.ia.bend]
    rw [ha, hs]
    cases hb : L[a.next]? with
    | none =>
      rw [readBlock_none L a hb]
      simp [tell, hasRemaining]
    | some b =>
      have hpos := hp b hb
      rw [readBlock_pos L a b hb hpos]
      have : hasRemaining (absorb a b) = true := by
        simp only [hasRemaining, absorb]; exact decide_eq_true hpos
      unfold tell; rw [this]; simp [absorb]

theorem Sim.mono (L : Layout α) (P Q : Nat → Prop) (hPQ : ∀ k, P k → Q k) (a s : R α)
    (h : Sim L P a s) : Sim L Q a s := by
  refine ⟨h.ia, h.is, ?_⟩
  rcases h.rel with e | ⟨a1, a2, a3⟩
  · exact Or.inl e
  · exact Or.inr ⟨a1, a2, hPQ _ a3⟩

theorem step_sim (L : Layout α) (hL : WF L) (P : Nat → Prop)
    (hnoneP : ∀ k, L[k]? = none → P k)
    (hseekP : ∀ k b, L[k]? = some b → ¬ b.data.length > 0 → P (k + 1))
    (a s : R α) (op : AOp) (h : Sim L P a s) (hv : SeekValid L op) :
    OutSim L (stepSeq L a op).2 (stepS L s op).2 ∧
    Sim L P (stepSeq L a op).1 (stepS L s op).1 ∧
    ((∀ k, P k → PX L k) → (stepSeq L a op).2 = (stepS L s op).2) := by
  cases op with
  | read n =>
    obtain ⟨r1, r2⟩ := read_sim L hL P hnoneP a s n h
    simp only [stepSeq, stepS, step]
    rw [r1]
    exact ⟨rfl, r2, fun _ => rfl⟩
  | readExact n =>
    obtain ⟨r1, r2⟩ := readExactLoop_sim L hL P hnoneP (n + 1) a s n [] h
    simp only [stepSeq, stepS, step]
    rw [readExact_eq_loop L hL s n h.is]
    generalize readExactA L (n + 1) a n [] = ra at r1 r2
    generalize RM.readExactLoop L (n + 1) s n [] = rs at r1 r2
    obtain ⟨a', ea⟩ := ra
    obtain ⟨s', es⟩ := rs
    simp only at r1 r2
    subst r1
    cases ea with
    | ok b => exact ⟨rfl, r2, fun _ => rfl⟩
    | error e => exact ⟨rfl, r2, fun _ => rfl⟩
  | fillConsume n =>
    have hf := fill_sim L P hnoneP a s h
    simp only [stepSeq, stepS]
    rw [hf.bytes]
    exact ⟨rfl, consume_sim L P _ _ _ hf, fun _ => rfl⟩
  | seek c u =>
    obtain ⟨r1, r2⟩ := seek_sim L P hseekP a s c u h hv
    simp only [stepSeq, stepS, step]
    generalize seekA L a c u = ra at r1 r2
    generalize RM.seek L s c u = rs at r1 r2
    obtain ⟨a', ea⟩ := ra
    obtain ⟨s', es⟩ := rs
    simp only at r1 r2
    subst r1
    cases ea with
    | none => exact ⟨trivial, r2, fun _ => rfl⟩
    | some e => exact ⟨rfl, r2, fun _ => rfl⟩
  | tell =>
    obtain ⟨t1, t2⟩ := tell_sim L hL P a s h
    simp only [stepSeq, stepS, step]
    refine ⟨⟨t1, ?_⟩, h, ?_⟩
    · unfold cursor at t2; rw [t2]; rfl
    · intro hPX
      rw [tell_exact L a s (Sim.mono L P (PX L) hPX a s h)]

theorem runSeq_sim (L : Layout α) (hL : WF L) (P : Nat → Prop)
    (hnoneP : ∀ k, L[k]? = none → P k)
    (hseekP : ∀ k b, L[k]? = some b → ¬ b.data.length > 0 → P (k + 1))
    (ops : List AOp) (a s : R α) (h : Sim L P a s) (hv : ∀ op ∈ ops, SeekValid L op) :
    OutsSim L (runSeq L a ops) (runS L s ops) ∧
    ((∀ k, P k → PX L k) → runSeq L a ops = runS L s ops) := by
  induction ops generalizing a s with
  | nil => exact ⟨OutsSim.nil, fun _ => rfl⟩
  | cons op ops ih =>
    obtain ⟨s1, s2, s3⟩ := step_sim L hL P hnoneP hseekP a s op h (hv op (by simp))
    obtain ⟨i1, i2⟩ := ih _ _ s2 (fun o ho => hv o (List.mem_cons_of_mem _ ho))
    unfold runSeq runS
    refine ⟨OutsSim.cons s1 i1, ?_⟩
    intro hPX
    rw [s3 hPX, i2 hPX]

theorem sim_init (L : Layout α) (P : Nat → Prop) : Sim L P (R.init : R α) R.init :=
  ⟨inv_init L, inv_init L, Or.inl rfl⟩

theorem pinv_init (L : Layout α) : PInv L (AR.init : AR α).r.next (AR.init : AR α).p :=
  ⟨Nat.le_refl _, by intro h; cases h⟩

/-! ## E. `Pending` is a stutter -/

theorem skip_inv (L : Layout α) (s s' : R α) (h : Skip L s s') (hi : Inv L s) : Inv L s' := by
  induction h with
  | refl s => exact hi
  | step s b s' hb _ _ ih => exact ih (absorb_inv L s b hi hb)

theorem skip_off (L : Layout α) (s s' : R α) (h : Skip L s s') (hi : Inv L s)
    (hr : hasRemaining s = false) : off L s' = off L s := by
  induction h with
  | refl s => rfl
  | step s b s' hb h0 _ ih =>
    have hnr := absorb_noRem s b h0
    rw [ih (absorb_inv L s b hi hb) hnr, off_exhausted L _ (noRem_le _ hnr),
      off_exhausted L s (noRem_le s hr)]
    have := uoff_succ L s.next b hb
    simp only [absorb]
    omega

theorem skip_exact (L : Layout α) (s s' : R α) (h : Skip L s s') (hp : PX L s.next) : s' = s := by
  induction h with
  | refl s => rfl
  | step s b s' hb h0 _ _ => exact absurd (hp b hb) h0

end Noodles.Bgzf.Async
