import Noodles.Bgzf.MtTrunc
import Noodles.Trunc.Proof
/-! Proofs for `Noodles.Bgzf.MtTrunc`: the invariant of the ticket protocol with errors, the
two-stage decomposition of `Bgzf.readFrame`, and the link between the reader thread's scan of a
byte string and the single-threaded reader model `Trunc.readStream`. -/
namespace Noodles.MtTrunc
open Noodles.Codec hiding Err Dec
open Noodles.Bgzf

/-! ## the protocol invariant -/

theorem evs_succ (bad : Nat → Bool) (k : Nat) :
    evs bad (k + 1) = evs bad k ++ [if bad k then .bad k else .blk k] := by
  simp [evs, List.range_succ]

theorem evs_length (bad : Nat → Bool) (k : Nat) : (evs bad k).length = k := by
  simp [evs]

structure TInv (n nbuf : Nat) (bad : Nat → Bool) (termErr : Bool) (s : T) : Prop where
  is : s.issued ≤ n
  dl : s.delivered ≤ s.issued
  dn : ∀ i ∈ s.done, i < s.issued
  ls : s.lost ≤ s.delivered
  tok : s.th = .run → s.free + (s.issued - s.delivered) + s.lost = nbuf
  ou : s.out = evs bad s.delivered
  lo : s.lost = (s.out.filter Ev.isBad).length
  thO : s.th = .ok → s.starved = false → s.issued = n
  stv : s.starved = true → s.closed = true ∧ s.th = .ok
  ef : 0 < s.eofs → s.th = .ok ∧ s.starved = false ∧ s.delivered = n
  fn : ∀ e, s.fin = some e → s.joined = true ∧ s.th = .ok ∧ e = false
  jn : s.joined = true → s.closed = true ∧ s.th = .ok

theorem tinv_init (n nbuf : Nat) (bad : Nat → Bool) (termErr : Bool) :
    TInv n nbuf bad termErr (T.init nbuf) := by
  constructor <;> simp [T.init, evs]

theorem th_cases (t : Th) (h : t ≠ .run) : t = .ok := by
  cases t with
  | run => exact absurd rfl h
  | ok => rfl

theorem tinv_step {n nbuf : Nat} {bad : Nat → Bool} {termErr : Bool} {s t : T}
    (ih : TInv n nbuf bad termErr s) (hs : TStep n bad termErr s t) : TInv n nbuf bad termErr t := by
  have ⟨a1, a2, a3, a4, a5, a6, a7, a8, a9, a10, a11, a12⟩ := ih
  cases hs with
  | issue h1 h2 h3 h4 => constructor <;> simp only [] <;> grind
  | issueErr h1 h2 h3 h4 => constructor <;> simp only [] <;> grind
  | hitEnd h1 h2 h3 => constructor <;> simp only [] <;> grind
  | starve h1 h2 h3 => constructor <;> simp only [] <;> grind
  | complete i h1 h2 => constructor <;> simp only [] <;> grind
  | deliver h0 h1 h2 h3 =>
    have hou : s.out ++ [Ev.blk s.delivered] = evs bad (s.delivered + 1) := by
      rw [evs_succ, ← a6, h3]; rfl
    have hlo : s.lost = ((s.out ++ [Ev.blk s.delivered]).filter Ev.isBad).length := by
      simp [List.filter_append, List.filter, Ev.isBad, ← a7]
    constructor <;> simp only [] <;> first | exact hou | exact hlo | grind
  | deliverErr h0 h1 h2 h3 =>
    have hou : s.out ++ [Ev.bad s.delivered] = evs bad (s.delivered + 1) := by
      rw [evs_succ, ← a6, h3]; rfl
    have hlo : s.lost + 1 = ((s.out ++ [Ev.bad s.delivered]).filter Ev.isBad).length := by
      simp [List.filter_append, List.filter, Ev.isBad, ← a7]
    constructor <;> simp only [] <;> first | exact hou | exact hlo | grind
  | seeEof h0 h1 h2 =>
    have hth := th_cases s.th h1
    constructor <;> simp only [] <;> grind
  | close h0 => constructor <;> simp only [] <;> grind
  | join h0 h1 h2 =>
    have hth := th_cases s.th h1
    constructor <;> simp only [] <;> grind

theorem tinv_reach {n nbuf : Nat} {bad : Nat → Bool} {termErr : Bool} {s : T}
    (h : TReach n nbuf bad termErr s) : TInv n nbuf bad termErr s := by
  induction h with
  | init => exact tinv_init n nbuf bad termErr
  | step _ hs ih => exact tinv_step ih hs

/-! ## the two stages of the frame parser -/

theorem unle_rest : ∀ (n : Nat) (x : Bytes) (v : Nat) (r : Bytes), unle n x = .ok (v, r) → r = x.drop n := by
  intro n
  induction n with
  | zero => intro x v r h; simp [unle] at h; simp [h.2]
  | succ n ih =>
    intro x v r h
    cases x with
    | nil => simp [unle] at h
    | cons b t =>
      simp only [unle] at h
      cases h2 : unle n t with
      | error e => simp [h2] at h
      | ok p =>
        obtain ⟨v', r'⟩ := p
        simp [h2] at h
        have := ih t v' r' h2
        simp [← h.2, this]

theorem unle_ok_of_length : ∀ (n : Nat) (x : Bytes), n ≤ x.length → ∃ v, unle n x = .ok (v, x.drop n) := by
  intro n
  induction n with
  | zero => intro x _; exact ⟨0, by simp [unle]⟩
  | succ n ih =>
    intro x h
    cases x with
    | nil => simp at h
    | cons b t =>
      obtain ⟨v, hv⟩ := ih t (by simpa using h)
      exact ⟨b.toNat + 256 * v, by simp [unle, hv]⟩

theorem unle_take : ∀ (n m : Nat) (x : Bytes), n ≤ m →
    unle n (x.take m) = match unle n x with
      | .ok (v, r) => .ok (v, r.take (m - n))
      | .error e => .error e := by
  intro n
  induction n with
  | zero => intro m x _; simp [unle]
  | succ n ih =>
    intro m x h
    cases x with
    | nil => simp [unle]
    | cons b t =>
      obtain ⟨m', rfl⟩ : ∃ m', m = m' + 1 := ⟨m - 1, by omega⟩
      simp only [List.take_succ_cons, unle]
      rw [ih m' t (by omega)]
      cases unle n t with
      | error e => rfl
      | ok p => obtain ⟨v, r⟩ := p; simp



/-- the second half of `readFrame` (what `parse_block` does once the frame is delimited) -/
def finishFrame (D : Deflater) (pre cdata : Bytes) (crc isize B : Nat) (rest : Bytes) :
    Except Err (Option (Nat × Bytes × Bytes)) :=
  if pre.take 4 ≠ headerPrefix.take 4 ∨ pre.drop 10 ≠ headerPrefix.drop 10 then .error .invalidData else
  if isize > MAX_ISIZE then .error .invalidData else
  match D.inflate cdata isize with
  | none => .error .invalidData
  | some data => if D.crc data = crc then .ok (some (B, data, rest)) else .error .invalidData

theorem readFrame_nf (D : Deflater) (s r2 r4 rest : Bytes) (bsize crc isize : Nat)
    (h18 : ¬ s.length < HEADER_SIZE) (hb : unle 2 (s.drop 16) = .ok (bsize, r2))
    (hmin : ¬ bsize + 1 < MIN_FRAME) (hshort : ¬ s.length < bsize + 1)
    (hc : unle 4 (r2.drop (bsize + 1 - MIN_FRAME)) = .ok (crc, r4)) (hi : unle 4 r4 = .ok (isize, rest)) :
    readFrame D s = finishFrame D (s.take 16) (r2.take (bsize + 1 - MIN_FRAME)) crc isize (bsize + 1) rest := by
  unfold readFrame finishFrame
  simp only [h18, hb, hmin, hshort, hc, hi, if_false]
  rfl

theorem readFrame_stage (D : Deflater) (s : Bytes) :
    readFrame D s = (match readFrameInto s with
      | .error e => .error e
      | .ok none => .ok none
      | .ok (some (buf, rest)) =>
        match parseBlock D buf with
        | .error e => .error e
        | .ok (bs, data) => .ok (some (bs, data, rest))) := by
  by_cases h18 : s.length < HEADER_SIZE
  · simp [readFrame, readFrameInto, h18]
  · have hlen : 18 ≤ s.length := by simp [HEADER_SIZE] at h18; omega
    obtain ⟨bsize, hb⟩ := unle_ok_of_length 2 (s.drop 16) (by simp; omega)
    by_cases hmin : bsize + 1 < MIN_FRAME
    · simp [readFrame, readFrameInto, h18, hb, hmin]
    · by_cases hshort : s.length < bsize + 1
      · simp [readFrame, readFrameInto, h18, hb, hmin, hshort]
      · have h26 : 26 ≤ bsize + 1 := by simp [MIN_FRAME_eq] at hmin; omega
        have hB : bsize + 1 ≤ s.length := by omega
        obtain ⟨crc, hc⟩ := unle_ok_of_length 4 (((s.drop 16).drop 2).drop (bsize + 1 - MIN_FRAME))
          (by simp [MIN_FRAME_eq]; omega)
        obtain ⟨isize, hi⟩ := unle_ok_of_length 4
          ((((s.drop 16).drop 2).drop (bsize + 1 - MIN_FRAME)).drop 4) (by simp [MIN_FRAME_eq]; omega)
        have hrest : ((((s.drop 16).drop 2).drop (bsize + 1 - MIN_FRAME)).drop 4).drop 4 = s.drop (bsize + 1) := by
          simp only [List.drop_drop, MIN_FRAME_eq]; congr 1; omega
        rw [hrest] at hi
        rw [readFrame_nf D s _ _ _ bsize crc isize h18 hb hmin hshort hc hi]
        -- the buffer
        have hl' : (s.take (bsize + 1)).length = bsize + 1 := by simp; omega
        have h18' : ¬ (s.take (bsize + 1)).length < HEADER_SIZE := by rw [hl']; simp [HEADER_SIZE]; omega
        have hshort' : ¬ (s.take (bsize + 1)).length < bsize + 1 := by rw [hl']; omega
        have hb' : unle 2 ((s.take (bsize + 1)).drop 16) = .ok (bsize, ((s.drop 16).drop 2).take (bsize + 1 - 16 - 2)) := by
          rw [List.drop_take, unle_take 2 _ _ (by omega), hb]
        have hc' : unle 4 ((((s.drop 16).drop 2).take (bsize + 1 - 16 - 2)).drop (bsize + 1 - MIN_FRAME))
            = .ok (crc, ((((s.drop 16).drop 2).drop (bsize + 1 - MIN_FRAME)).drop 4).take 4) := by
          rw [List.drop_take, unle_take 4 _ _ (by simp [MIN_FRAME_eq]; omega), hc]
          simp only [MIN_FRAME_eq]; congr 3; omega
        have hi' : unle 4 (((((s.drop 16).drop 2).drop (bsize + 1 - MIN_FRAME)).drop 4).take 4) = .ok (isize, []) := by
          have := unle_take 4 4 ((((s.drop 16).drop 2).drop (bsize + 1 - MIN_FRAME)).drop 4) (Nat.le_refl _)
          rw [this]
          have hi0 := unle_ok_of_length 4
            ((((s.drop 16).drop 2).drop (bsize + 1 - MIN_FRAME)).drop 4) (by simp [MIN_FRAME_eq]; omega)
          obtain ⟨v, hv⟩ := hi0
          rw [hrest] at hv
          rw [hv] at hi
          cases hi
          rw [hv]; simp
        have hbuf := readFrame_nf D (s.take (bsize + 1)) _ _ _ bsize crc isize h18' hb' hmin hshort' hc' hi'
        have htake16 : (s.take (bsize + 1)).take 16 = s.take 16 := by
          rw [List.take_take]; congr 1; omega
        have hcd : (((s.drop 16).drop 2).take (bsize + 1 - 16 - 2)).take (bsize + 1 - MIN_FRAME)
            = ((s.drop 16).drop 2).take (bsize + 1 - MIN_FRAME) := by
          rw [List.take_take]; congr 1; simp only [MIN_FRAME_eq]; omega
        rw [htake16, hcd] at hbuf
        simp only [readFrameInto, h18, hb, hmin, hshort, if_false, parseBlock, hbuf]
        unfold finishFrame
        split
        · rfl
        · split
          · rfl
          · cases D.inflate (List.take (bsize + 1 - MIN_FRAME) (List.drop 2 (List.drop 16 s))) isize with
            | none => rfl
            | some data =>
              simp only []
              split <;> rfl


/-! ## the reader thread's scan and the single-threaded reader -/

open Noodles.Trunc (readMany bgzfStep readStream)

theorem readMany_eq_stOf_scanF (D : Deflater) : ∀ (fuel : Nat) (s : Bytes),
    readMany (bgzfStep D) fuel s = stOf (scanF D fuel s).1 := by
  intro fuel
  induction fuel with
  | zero => intro s; rfl
  | succ fuel ih =>
    intro s
    have hst := readFrame_stage D s
    unfold scanF
    cases h1 : readFrameInto s with
    | error e =>
      simp only [h1] at hst
      rw [Trunc.readMany_err _ _ _ e (by simp [bgzfStep, hst])]; rfl
    | ok o =>
      cases o with
      | none =>
        simp only [h1] at hst
        rw [Trunc.readMany_eof _ _ _ (by simp [bgzfStep, hst])]; rfl
      | some p =>
        obtain ⟨buf, rest⟩ := p
        simp only [h1] at hst
        cases h2 : parseBlock D buf with
        | error e =>
          simp only [h2] at hst
          rw [Trunc.readMany_err _ _ _ e (by simp [bgzfStep, hst])]; simp only [h2, stOf]
        | ok q =>
          obtain ⟨bs, data⟩ := q
          simp only [h2] at hst
          rw [Trunc.readMany_item _ _ _ data rest (by simp [bgzfStep, hst]), ih rest]; simp only [h2, stOf]

theorem readStream_eq_stOf_scan (D : Deflater) (s : Bytes) :
    readStream D s = stOf (scan D s).1 :=
  readMany_eq_stOf_scanF D (s.length + 1) s

/-- the reader thread's own error, when there is one, is the last ticket -/
theorem scanF_termErr_last (D : Deflater) : ∀ (fuel : Nat) (s : Bytes), (scanF D fuel s).2 = true →
    ∃ e, (scanF D fuel s).1.getLast? = some (.error e) := by
  intro fuel
  induction fuel with
  | zero => intro s _; exact ⟨.unreachable, rfl⟩
  | succ fuel ih =>
    intro s h
    unfold scanF at h ⊢
    cases h1 : readFrameInto s with
    | error e => exact ⟨e, rfl⟩
    | ok o =>
      cases o with
      | none => simp [h1] at h
      | some p =>
        obtain ⟨buf, rest⟩ := p
        simp only [h1] at h ⊢
        obtain ⟨e, he⟩ := ih rest h
        refine ⟨e, ?_⟩
        rw [List.getLast?_cons, he]; rfl

/-- … and it is a `read_frame_into` error of the rest of the source; without one the scan ends at
`Ok(None)` -/
theorem scanF_clean_end (D : Deflater) : ∀ (fuel : Nat) (s : Bytes), (scanF D fuel s).2 = false →
    ∀ i, (scanF D fuel s).1.length ≤ i → (scanF D fuel s).1[i]? = none := by
  intro fuel s _ i hi
  exact List.getElem?_eq_none hi

/-! ## what the consumer's results say about the bytes -/

def evOf (bad : Nat → Bool) (i : Nat) : Ev := if bad i then .bad i else .blk i

theorem evs_eq_range' (bad : Nat → Bool) (k : Nat) : evs bad k = (List.range' 0 k).map (evOf bad) := by
  simp [evs, evOf, List.range_eq_range']

theorem dataBefore_range' (fs : List Ticket) : ∀ (k j : Nat), j + k ≤ fs.length →
    dataBefore fs ((List.range' j k).map (evOf (badOf fs))) = (stOf ((fs.drop j).take k)).1 := by
  intro k
  induction k with
  | zero => intro j _; simp [dataBefore, stOf]
  | succ k ih =>
    intro j h
    have hj : j < fs.length := by omega
    have hd : fs.drop j = fs[j] :: fs.drop (j + 1) := List.drop_eq_getElem_cons hj
    have hget : fs[j]? = some fs[j] := List.getElem?_eq_getElem hj
    rw [List.range'_succ, List.map_cons, hd, List.take_succ_cons]
    cases hf : fs[j] with
    | error e =>
      have hb : badOf fs j = true := by simp [badOf, hget, hf]
      simp [evOf, hb, dataBefore, stOf]
    | ok p =>
      obtain ⟨c, d⟩ := p
      have hb : badOf fs j = false := by simp [badOf, hget, hf]
      have ih' := ih (j + 1) (by omega)
      simp [evOf, hb, dataBefore, hget, hf, stOf, ← ih']

theorem dataBefore_evs (fs : List Ticket) (k : Nat) (h : k ≤ fs.length) :
    dataBefore fs (evs (badOf fs) k) = (stOf (fs.take k)).1 := by
  rw [evs_eq_range', dataBefore_range' fs k 0 (by omega)]; simp

theorem stOf_take_prefix (fs : List Ticket) : ∀ k,
    ∃ r, (stOf fs).1 = (stOf (fs.take k)).1 ++ r := by
  induction fs with
  | nil => intro k; exact ⟨(stOf []).1, by simp [stOf]⟩
  | cons x fs ih =>
    intro k
    cases k with
    | zero => exact ⟨(stOf (x :: fs)).1, by simp [stOf]⟩
    | succ k =>
      cases x with
      | error e => exact ⟨[], by simp [stOf]⟩
      | ok p =>
        obtain ⟨c, d⟩ := p
        obtain ⟨r, hr⟩ := ih k
        exact ⟨r, by simp [stOf, hr]⟩

theorem badOf_cons_succ (x : Ticket) (fs : List Ticket) (i : Nat) : badOf (x :: fs) (i + 1) = badOf fs i := by
  simp [badOf]

theorem stOf_take_of_bad (fs : List Ticket) : ∀ k i, i < k → badOf fs i = true →
    (stOf (fs.take k)).1 = (stOf fs).1 := by
  induction fs with
  | nil => intro k i _ hb; simp [badOf] at hb
  | cons x fs ih =>
    intro k i hi hb
    cases k with
    | zero => omega
    | succ k =>
      cases x with
      | error e => simp [stOf]
      | ok p =>
        obtain ⟨c, d⟩ := p
        cases i with
        | zero => simp [badOf] at hb
        | succ i =>
          rw [badOf_cons_succ] at hb
          have := ih k i (by omega) hb
          simp [stOf, this]

/-- the first failing ticket is the single-threaded reader's error -/
theorem stOf_first_bad (fs : List Ticket) : ∀ (k : Nat) (e : Err), fs[k]? = some (.error e) →
    (∀ i, i < k → badOf fs i = false) → (stOf fs).2 = .err e := by
  induction fs with
  | nil => intro k e h; simp at h
  | cons x fs ih =>
    intro k e h hg
    cases k with
    | zero => simp at h; subst h; rfl
    | succ k =>
      cases x with
      | error e' => have := hg 0 (by omega); simp [badOf] at this
      | ok p =>
        obtain ⟨c, d⟩ := p
        simp only [stOf]
        exact ih k e (by simpa using h) (fun i hi => by have := hg (i + 1) (by omega); rwa [badOf_cons_succ] at this)

/-- the single-threaded reader ends cleanly iff no ticket fails -/
theorem stOf_eof (fs : List Ticket) (h : (stOf fs).2 = .eof) : ∀ i, badOf fs i = false := by
  induction fs with
  | nil => intro i; simp [badOf]
  | cons x fs ih =>
    cases x with
    | error e => simp [stOf] at h
    | ok p =>
      obtain ⟨c, d⟩ := p
      simp only [stOf] at h
      intro i
      cases i with
      | zero => simp [badOf]
      | succ i => rw [badOf_cons_succ]; exact ih h i

/-- … and fails iff some ticket fails -/
theorem stOf_err (fs : List Ticket) (e : Err) (h : (stOf fs).2 = .err e) :
    ∃ i, i < fs.length ∧ badOf fs i = true := by
  induction fs with
  | nil => simp [stOf] at h
  | cons x fs ih =>
    cases x with
    | error e' => exact ⟨0, by simp, by simp [badOf]⟩
    | ok p =>
      obtain ⟨c, d⟩ := p
      simp only [stOf] at h
      obtain ⟨i, hi, hb⟩ := ih h
      exact ⟨i + 1, by simp; omega, by rw [badOf_cons_succ]; exact hb⟩

theorem mem_evs_bad (bad : Nat → Bool) (k : Nat) (ev : Ev) (h : ev ∈ evs bad k) (hb : ev.isBad = true) :
    ∃ i, i < k ∧ bad i = true := by
  simp only [evs, List.mem_map, List.mem_range] at h
  obtain ⟨i, hi, rfl⟩ := h
  refine ⟨i, hi, ?_⟩
  cases hbi : bad i with
  | true => rfl
  | false => simp [hbi, Ev.isBad] at hb




/-! ## an executable scheduler (for witnesses and for replaying observed schedules) -/

inductive Act | issue | issueErr | hitEnd | starve | complete (i : Nat) | deliver | seeEof | close | join
  deriving Repr, DecidableEq

/-- perform one action if its guard holds (`deliver` picks `deliver`/`deliverErr` by `bad`) -/
def act (n : Nat) (bad : Nat → Bool) (termErr : Bool) (s : T) : Act → Option T
  | .issue => if s.th = .run ∧ 0 < s.free ∧ s.issued < n ∧ ¬ (termErr = true ∧ s.issued + 1 = n) then
      some { s with free := s.free - 1, issued := s.issued + 1 } else none
  | .issueErr => if s.th = .run ∧ 0 < s.free ∧ s.issued + 1 = n ∧ termErr = true then
      some { s with free := s.free - 1, issued := s.issued + 1, done := s.issued :: s.done, th := .ok } else none
  | .hitEnd => if s.th = .run ∧ 0 < s.free ∧ s.issued = n then
      some { s with free := s.free - 1, th := .ok } else none
  | .starve => if s.th = .run ∧ s.free = 0 ∧ s.closed = true then
      some { s with th := .ok, starved := true } else none
  | .complete i => if i < s.issued ∧ i ∉ s.done then some { s with done := i :: s.done } else none
  | .deliver =>
    if s.closed = false ∧ s.delivered < s.issued ∧ s.delivered ∈ s.done then
      if bad s.delivered = false then
        some { s with delivered := s.delivered + 1, free := s.free + 1, out := s.out ++ [.blk s.delivered] }
      else
        some { s with delivered := s.delivered + 1, lost := s.lost + 1, out := s.out ++ [.bad s.delivered] }
    else none
  | .seeEof => if s.closed = false ∧ s.th ≠ .run ∧ s.delivered = s.issued then
      some { s with eofs := s.eofs + 1 } else none
  | .close => if s.closed = false then some { s with closed := true } else none
  | .join => if s.closed = true ∧ s.th ≠ .run ∧ s.joined = false then
      some { s with joined := true, fin := some false } else none

def exec (n : Nat) (bad : Nat → Bool) (termErr : Bool) : T → List Act → Option T
  | s, [] => some s
  | s, a :: as => match act n bad termErr s a with
    | none => none
    | some t => exec n bad termErr t as

theorem act_sound {n : Nat} {bad : Nat → Bool} {termErr : Bool} {s t : T} {a : Act}
    (h : act n bad termErr s a = some t) : TStep n bad termErr s t := by
  cases a with
  | issue =>
    simp only [act] at h; split at h
    · next hg => cases h; exact TStep.issue s hg.1 hg.2.1 hg.2.2.1 hg.2.2.2
    · cases h
  | issueErr =>
    simp only [act] at h; split at h
    · next hg => cases h; exact TStep.issueErr s hg.1 hg.2.1 hg.2.2.1 hg.2.2.2
    · cases h
  | hitEnd =>
    simp only [act] at h; split at h
    · next hg => cases h; exact TStep.hitEnd s hg.1 hg.2.1 hg.2.2
    · cases h
  | starve =>
    simp only [act] at h; split at h
    · next hg => cases h; exact TStep.starve s hg.1 hg.2.1 hg.2.2
    · cases h
  | complete i =>
    simp only [act] at h; split at h
    · next hg => cases h; exact TStep.complete s i hg.1 hg.2
    · cases h
  | deliver =>
    simp only [act] at h; split at h
    · next hg =>
      split at h
      · next hb => cases h; exact TStep.deliver s hg.1 hg.2.1 hg.2.2 hb
      · next hb => cases h; exact TStep.deliverErr s hg.1 hg.2.1 hg.2.2 (by simpa using hb)
    · cases h
  | seeEof =>
    simp only [act] at h; split at h
    · next hg => cases h; exact TStep.seeEof s hg.1 hg.2.1 hg.2.2
    · cases h
  | close =>
    simp only [act] at h; split at h
    · next hg => cases h; exact TStep.close s hg
    · cases h
  | join =>
    simp only [act] at h; split at h
    · next hg => cases h; exact TStep.join s hg.1 hg.2.1 hg.2.2
    · cases h

theorem exec_reach {n nbuf : Nat} {bad : Nat → Bool} {termErr : Bool} : ∀ (as : List Act) (s t : T),
    TReach n nbuf bad termErr s → exec n bad termErr s as = some t → TReach n nbuf bad termErr t := by
  intro as
  induction as with
  | nil => intro s t hs h; simp [exec] at h; exact h ▸ hs
  | cons a as ih =>
    intro s t hs h
    simp only [exec] at h
    cases ha : act n bad termErr s a with
    | none => simp [ha] at h
    | some u =>
      simp only [ha] at h
      exact ih u t (TReach.step hs (act_sound ha)) h

/-! ## progress -/

/-- while fewer than `nbuf` buffers were lost (or after `finish()` was called), something other
than calling `finish()` can happen until `finish()` has returned -/
theorem progress {n nbuf : Nat} {bad : Nat → Bool} {termErr : Bool} {s : T}
    (h : TReach n nbuf bad termErr s) (hj : s.joined = false)
    (hl : s.lost < nbuf ∨ s.closed = true) :
    ∃ t, TStep n bad termErr s t ∧ t.closed = s.closed := by
  have inv := tinv_reach h
  by_cases hrun : s.th = .run
  · -- the reader thread lives
    by_cases hfree : 0 < s.free
    · by_cases hi : s.issued < n
      · by_cases hte : termErr = true ∧ s.issued + 1 = n
        · exact ⟨_, TStep.issueErr s hrun hfree hte.2 hte.1, rfl⟩
        · exact ⟨_, TStep.issue s hrun hfree hi hte, rfl⟩
      · exact ⟨_, TStep.hitEnd s hrun hfree (by have := inv.is; omega), rfl⟩
    · have hf0 : s.free = 0 := by omega
      by_cases hc : s.closed = true
      · exact ⟨_, TStep.starve s hrun hf0 hc, rfl⟩
      · have hc' : s.closed = false := by simpa using hc
        have hlost : s.lost < nbuf := by rcases hl with hl | hl; exact hl; exact absurd hl hc
        have htok := inv.tok hrun
        have hlt : s.delivered < s.issued := by omega
        by_cases hd : s.delivered ∈ s.done
        · cases hb : bad s.delivered with
          | false => exact ⟨_, TStep.deliver s hc' hlt hd hb, rfl⟩
          | true => exact ⟨_, TStep.deliverErr s hc' hlt hd hb, rfl⟩
        · exact ⟨_, TStep.complete s s.delivered hlt hd, rfl⟩
  · by_cases hc : s.closed = true
    · exact ⟨_, TStep.join s hc hrun hj, by simp [hc]⟩
    · have hc' : s.closed = false := by simpa using hc
      by_cases hlt : s.delivered < s.issued
      · by_cases hd : s.delivered ∈ s.done
        · cases hb : bad s.delivered with
          | false => exact ⟨_, TStep.deliver s hc' hlt hd hb, rfl⟩
          | true => exact ⟨_, TStep.deliverErr s hc' hlt hd hb, rfl⟩
        · exact ⟨_, TStep.complete s s.delivered hlt hd, rfl⟩
      · exact ⟨_, TStep.seeEof s hc' hrun (by have := inv.dl; omega), rfl⟩


end Noodles.MtTrunc
