import Noodles.Bgzf.ReaderModel
/-!
# The chunk reader over a BGZF block layout (C04 on top of C02)

* `noodles-csi/src/io/query.rs` — `Query::fill_buf`: for each chunk `seek_to_virtual_position(chunk.start())`,
  then hand out data while `reader.virtual_position() < chunk.end()`, then the next chunk;
* `noodles-bam/src/fs/index.rs`, `noodles-bcf/src/fs/index.rs`, `noodles-vcf/src/fs/index.rs` — the
  indexing pass: `start = virtual_position()`, read one record, `end = virtual_position()`, chunk
  `[start, end)`;
* the reader underneath is the BGZF reader state machine `Noodles.Bgzf.RM` (C02).

Record framing is not modelled here (it is C05/C06/C09/C10): the record that starts at flat offset
`x_m` occupies `len_m > 0` bytes and the record reader consumes exactly those bytes with
`read_exact` (BAM/BCF: a length prefix, then the body; text: a line). `Query` checks the position
inside `fill_buf`, i.e. at every refill; the model checks it where the result depends on it: before
each record (strictly inside a record of the chunk the position is before the chunk's end — that is
`resolve_lt_vlt` below the theorem). The correspondence runs the real `csi::io::Query` over real
BGZF files with length-prefixed records.
-/
namespace Noodles.Bgzf.ChunkRead
open Noodles.Bgzf.RM

variable {α : Type}

/-- a virtual position as (compressed, uncompressed); the packed `u64` is `c * 65536 + u` -/
abbrev VPos := Nat × Nat

/-- `VirtualPosition: Ord` — numeric order of the packed value = lexicographic order -/
def vlt (a b : VPos) : Bool := decide (a.1 < b.1 ∨ (a.1 = b.1 ∧ a.2 < b.2))

/-- the indexing pass from a reader that stands at the first record: the virtual position before
each record and after the last one (`lens.length + 1` positions) -/
def scanTells (L : Layout α) : R α → List Nat → List VPos
  | s, [] => [tell s]
  | s, len :: rest => tell s :: scanTells L (readExact L s len).1 rest

/-- `State::Read(chunk_end)`: records are read while `virtual_position() < chunk_end`; `lens` = the
lengths of the records from the current one on. Returns the records' bytes. A failing `read_exact`
ends the iteration. -/
def readUntil (L : Layout α) (cend : VPos) : R α → List Nat → R α × List (List α)
  | s, [] => (s, [])
  | s, len :: rest =>
    if vlt (tell s) cend then
      match readExact L s len with
      | (s', .ok bytes) =>
        let r := readUntil L cend s' rest
        (r.1, bytes :: r.2)
      | (s', .error _) => (s', [])
    else (s, [])

/-- one chunk `[cs, ce)`: `State::Seek` then `State::Read`; `none` = the seek failed -/
def serveChunk (L : Layout α) (s : R α) (cs ce : VPos) (lens : List Nat) :
    R α × Option (List (List α)) :=
  match seek L s cs.1 cs.2 with
  | (s', some _) => (s', none)
  | (s', none) =>
    let r := readUntil L ce s' lens
    (r.1, some r.2)

/-- flat offset of record boundary `m`: `hdr` bytes precede the first record -/
def bnd (hdr : Nat) (lens : List Nat) (m : Nat) : Nat := hdr + (lens.take m).sum

/-- the bytes of record `m` in the uncompressed stream -/
def recBytes (L : Layout α) (hdr : Nat) (lens : List Nat) (m : Nat) : List α :=
  ((flat L).drop (bnd hdr lens m)).take (lens.getD m 0)

end Noodles.Bgzf.ChunkRead
