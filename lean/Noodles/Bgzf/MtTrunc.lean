import Noodles.Trunc.Model
/-!
# The multithreaded BGZF reader on ANY byte string (model for C03, damaged / truncated input)

Transcribed from noodles-bgzf `io/multithreaded_reader.rs` (`State`, `resume`, `pause`,
`read_block`, `recv_buffer`, `finish`, `seek_to_virtual_position`, `spawn_reader`) and
`io/reader/frame.rs` (`read_frame_into` — run by the reader thread — and `parse_block` — run by
the rayon inflate task).

THE MODEL DESCRIBES THE CODE AFTER `fix: deliver multithreaded reader read errors in stream order`
(/tmp/ext/C03trunc/fixes/mt-reader-read-error-in-stream-order.diff): a `read_frame_into` error of
the reader thread is handed to the consumer as one more (failing) ticket, in file order, and the
thread returns the inner reader.  Before the fix the thread returned the error, `read` answered
`Ok(0)` at the damaged spot, only `finish()` reported the error, and `pause()` (every seek,
`get_mut`) discarded it: read-to-end, seek, finish reported a truncated file NOWHERE.

Three layers:

1. *bytes → tickets* (`readFrameInto`, `parseBlock`, `scan`): what the reader thread and the
   inflate tasks make of an arbitrary source.  The reader thread reads frame after frame; every
   frame it could read becomes a ticket whose result is the verdict of `parse_block` on the frame
   buffer (`Ok(block)` or `Err`); the thread ends at `Ok(None)` (clean end) or at its own read
   error, which it queues as a last, failing ticket.
   `parse_block` of a frame buffer is the single-threaded frame parser `Bgzf.readFrame` applied to
   the buffer alone (`parseBlock`); `MtTruncProof.readFrame_stage` proves that the two stages
   compose to `Bgzf.readFrame` on the stream, which is what the single-threaded reader model
   (`Trunc.readStream`, C13) loops over.
2. *the ticket protocol with errors* (`T`, `TStep`, `TReach`): a labelled transition system in the
   style of `MtModel.R`, now with per-frame inflate errors (any number of them), a reader-thread
   error, the consumer continuing after an error, `finish()` (`close` + `join`) at any moment, and
   the reader thread draining the recycle channel after `finish()` dropped the sender.
3. *the caller-visible transcript* (`Sim`): what a sequence of calls returns — determined, for every
   schedule, by the facts proved about layer 2 (delivery order, `Ok(0)` only at the end, the
   `finish()` result).  This is what the driver prints and the
   harness compares with the real `MultithreadedReader`.
-/
namespace Noodles.MtTrunc
open Noodles.Codec hiding Err Dec
open Noodles.Bgzf

/-! ## layer 1: bytes → tickets -/

/-- `read_frame_into` (reader thread): `Ok(None)` when `read_exact` of the 18 header bytes hits
`UnexpectedEof` (0..17 bytes left — not only 0: a quirk of the code, kept), `InvalidData` when
BSIZE + 1 < 26, `UnexpectedEof` when the body is short; otherwise the frame buffer and the rest of
the source. Header magic, CRC and ISIZE are NOT looked at here. -/
def readFrameInto (s : Bytes) : Except Err (Option (Bytes × Bytes)) :=
  if s.length < HEADER_SIZE then .ok none else
  match unle 2 (s.drop 16) with
  | .error _ => .error .eof
  | .ok (bsize, _) =>
    let blockSize := bsize + 1
    if blockSize < MIN_FRAME then .error .invalidData else
    if s.length < blockSize then .error .eof else
    .ok (some (s.take blockSize, s.drop blockSize))

/-- `parse_block` (inflate task) on the frame buffer the reader thread filled: header fields,
ISIZE ≤ 65536, inflate, CRC — the single-threaded frame parser applied to the buffer alone.
Result: (block size, data). -/
def parseBlock (D : Deflater) (buf : Bytes) : Except Err (Nat × Bytes) :=
  match readFrame D buf with
  | .error e => .error e
  | .ok none => .error .eof          -- `split_frame`: buffer shorter than 26 (cannot happen after `read_frame_into`)
  | .ok (some (bs, data, _)) => .ok (bs, data)

/-- a ticket's result -/
abbrev Ticket := Except Err (Nat × Bytes)

/-- The reader thread's loop over the whole source (it does not wait for inflate results): the
tickets in file order, and whether the last of them is the thread's own `read_frame_into` error
(`Err(e)` → a ticket that is already answered with `Err(e)`, then the thread returns) rather than
the end being `Ok(None)`. -/
def scanF (D : Deflater) : Nat → Bytes → List Ticket × Bool
  | 0, _ => ([.error .unreachable], true)
  | fuel+1, s =>
    match readFrameInto s with
    | .error e => ([.error e], true)
    | .ok none => ([], false)
    | .ok (some (buf, rest)) => (parseBlock D buf :: (scanF D fuel rest).1, (scanF D fuel rest).2)

def scan (D : Deflater) (s : Bytes) : List Ticket × Bool := scanF D (s.length + 1) s

/-- What a reader that stops at the first error (the single-threaded reader) gets out of a ticket
list: the data before the first failing ticket, and that error or the clean end. -/
def stOf : List Ticket → List Bytes × Trunc.End
  | [] => ([], .eof)
  | .error e :: _ => ([], .err e)
  | .ok (_, d) :: fs => (d :: (stOf fs).1, (stOf fs).2)

/-! ## layer 2: the ticket protocol with errors -/

/-- reader thread: running, returned (the inner reader) -/
inductive Th | run | ok
  deriving Repr, DecidableEq

/-- what one `recv_buffer` in `read_block` hands to the consumer -/
inductive Ev | blk (i : Nat) | bad (i : Nat)
  deriving Repr, DecidableEq

/-- `MultithreadedReader` from `resume` on.  Parameters of a run (not in the state): `n` tickets
the reader thread issues; `nbuf = buffer_count = workers + 2`; `bad i` = ticket `i` is answered
with `Err`; `termErr` = the last ticket (`n - 1`) is the thread's own `read_frame_into` error: it is
answered at once and the thread returns right after queueing it (else the thread returns when
`read_frame_into` answers `Ok(None)`, which costs it one more buffer). -/
structure T where
  free : Nat               -- buffers in the recycle channel
  issued : Nat             -- frames read by the reader thread (tickets sent, tasks spawned)
  done : List Nat          -- inflate tasks whose result is ready
  delivered : Nat          -- tickets consumed by `read_block`
  lost : Nat               -- buffers dropped together with an `Err` result (`parse_block(..).map(|_| buffer)`)
  th : Th
  starved : Bool           -- the thread ended because `recycle_rx.recv()` failed (sender dropped, channel drained)
  closed : Bool            -- `finish()` has dropped `recycle_tx`
  joined : Bool            -- `finish()` has returned
  out : List Ev            -- results of `recv_buffer`, in order
  eofs : Nat               -- how often `recv_buffer` answered `Ok(None)` (`read` returned `Ok(0)`)
  fin : Option Bool        -- `finish()`'s result: `some true` = `Err` (never: the thread returns the reader)
  deriving Repr

def T.init (nbuf : Nat) : T := ⟨nbuf, 0, [], 0, 0, .run, false, false, false, [], 0, none⟩

inductive TStep (n : Nat) (bad : Nat → Bool) (termErr : Bool) : T → T → Prop
  /-- reader thread: `recycle_rx.recv()`, `read_frame_into` = `Ok(Some)`, spawn the task, queue the
  ticket.  Still possible after `finish()` dropped the sender: `recv` drains the channel first. -/
  | issue (s : T) (h1 : s.th = .run) (h2 : 0 < s.free) (h3 : s.issued < n)
      (h4 : ¬ (termErr = true ∧ s.issued + 1 = n)) :
      TStep n bad termErr s { s with free := s.free - 1, issued := s.issued + 1 }
  /-- reader thread: `recycle_rx.recv()`, `read_frame_into` = `Err(e)`: queue a ticket already
  answered with `Err(e)`, return the reader (the buffer is dropped) -/
  | issueErr (s : T) (h1 : s.th = .run) (h2 : 0 < s.free) (h3 : s.issued + 1 = n) (h4 : termErr = true) :
      TStep n bad termErr s { s with free := s.free - 1, issued := s.issued + 1,
                                      done := s.issued :: s.done, th := .ok }
  /-- reader thread: `recycle_rx.recv()`, `read_frame_into` = `Ok(None)`: the thread returns -/
  | hitEnd (s : T) (h1 : s.th = .run) (h2 : 0 < s.free) (h3 : s.issued = n) :
      TStep n bad termErr s { s with free := s.free - 1, th := .ok }
  /-- reader thread: `recycle_rx.recv()` fails (sender dropped by `finish`, channel empty): `Ok(reader)` -/
  | starve (s : T) (h1 : s.th = .run) (h2 : s.free = 0) (h3 : s.closed = true) :
      TStep n bad termErr s { s with th := .ok, starved := true }
  /-- an inflate task finishes (any order) -/
  | complete (s : T) (i : Nat) (h1 : i < s.issued) (h2 : i ∉ s.done) :
      TStep n bad termErr s { s with done := i :: s.done }
  /-- consumer: next ticket ready and `Ok`: swap buffers, recycle the previous one
  (`recycle_tx.send(prev).ok()` — a dead thread just loses the buffer) -/
  | deliver (s : T) (h0 : s.closed = false) (h1 : s.delivered < s.issued) (h2 : s.delivered ∈ s.done)
      (h3 : bad s.delivered = false) :
      TStep n bad termErr s { s with delivered := s.delivered + 1, free := s.free + 1,
                                      out := s.out ++ [.blk s.delivered] }
  /-- consumer: next ticket ready and `Err`: `read_block` returns it; the buffer is gone; the
  consumer may go on calling -/
  | deliverErr (s : T) (h0 : s.closed = false) (h1 : s.delivered < s.issued) (h2 : s.delivered ∈ s.done)
      (h3 : bad s.delivered = true) :
      TStep n bad termErr s { s with delivered := s.delivered + 1, lost := s.lost + 1,
                                      out := s.out ++ [.bad s.delivered] }
  /-- consumer: `read_rx.recv()` fails — the thread has returned (dropping `read_tx`) and the queue
  is empty: `Ok(None)`, the block is emptied, `read` returns `Ok(0)`; repeatable -/
  | seeEof (s : T) (h0 : s.closed = false) (h1 : s.th ≠ .run) (h2 : s.delivered = s.issued) :
      TStep n bad termErr s { s with eofs := s.eofs + 1 }
  /-- caller: `finish()` drops `recycle_tx` (at any moment) -/
  | close (s : T) (h0 : s.closed = false) :
      TStep n bad termErr s { s with closed := true }
  /-- caller: `Ok(reader_handle.join().unwrap())` -/
  | join (s : T) (h0 : s.closed = true) (h1 : s.th ≠ .run) (h2 : s.joined = false) :
      TStep n bad termErr s { s with joined := true, fin := some false }

inductive TReach (n nbuf : Nat) (bad : Nat → Bool) (termErr : Bool) : T → Prop
  | init : TReach n nbuf bad termErr (T.init nbuf)
  | step {s t} : TReach n nbuf bad termErr s → TStep n bad termErr s t → TReach n nbuf bad termErr t

/-- the results `read_block` must hand out for the first `k` tickets -/
def evs (bad : Nat → Bool) (k : Nat) : List Ev :=
  (List.range k).map fun i => if bad i then .bad i else .blk i

/-- instantiate the protocol parameters from a ticket list -/
def badOf (fs : List Ticket) (i : Nat) : Bool :=
  match fs[i]? with
  | some (.error _) => true
  | _ => false

/-- the data of the blocks handed over before the first error result -/
def dataBefore (fs : List Ticket) : List Ev → List Bytes
  | .blk i :: r =>
    (match fs[i]? with | some (.ok (_, d)) => d | _ => []) :: dataBefore fs r
  | _ => []

def Ev.isBad : Ev → Bool
  | .bad _ => true
  | .blk _ => false

/-! ## layer 3: the caller-visible transcript -/

/-- result of one caller operation -/
inductive Res
  | data (b : Bytes) (fin : Option Trunc.End)   -- bytes read; `some` = the run stopped early: `Ok(0)` or an error
  | unit
  | err (e : Err)
  | hang                                        -- the call never returns (see `Sim.readBlock`)
  deriving Repr

/-- `MultithreadedReader` as its caller sees it.  `src` = the inner reader's remaining bytes while
`Paused`; while `Running`, `fs` = tickets not yet consumed, `termErr` = the last ticket is the
thread's own error, `okd`/`lost` = `Ok`/`Err` tickets consumed since `resume`. -/
structure Sim where
  file : Bytes
  running : Bool
  src : Bytes
  fs : List Ticket
  termErr : Bool
  okd : Nat
  lost : Nat
  cur : Bytes              -- unread rest of `self.buffer.block.data()`

def Sim.init (file : Bytes) : Sim := ⟨file, false, file, [], false, 0, 0, []⟩

/-- `resume` -/
def Sim.resume (D : Deflater) (m : Sim) : Sim :=
  if m.running then m else
  let r := scan D m.src
  { m with running := true, fs := r.1, termErr := r.2, okd := 0, lost := 0 }

inductive BlockRes | ok | err (e : Err) | hang

/-- the loop of `read_block` after `resume`.  With `lost ≥ nbuf` every buffer is gone (each `Err`
ticket dropped one) and the reader thread — unless it has already returned after its own error —
waits on the recycle channel for ever while the consumer waits on the ticket channel: the call
does not return. -/
def Sim.recvLoop (nbuf : Nat) : Nat → Sim → Sim × BlockRes
  | 0, m => (m, .hang)
  | fuel+1, m =>
    match m.fs with
    | [] =>
      -- `Ok(None)` needs the thread to have returned: at once after its own error, else after one
      -- more `recycle_rx.recv()`
      if !m.termErr && m.lost ≥ nbuf then (m, .hang) else ({ m with cur := [] }, .ok)
    | .error e :: r =>
      if m.lost ≥ nbuf then (m, .hang) else ({ m with fs := r, lost := m.lost + 1 }, .err e)
    | .ok (_, d) :: r =>
      if m.lost ≥ nbuf then (m, .hang) else
      let m' := { m with fs := r, okd := m.okd + 1, cur := d }
      if d.length > 0 then (m', .ok) else Sim.recvLoop nbuf fuel m'

def Sim.readBlock (D : Deflater) (nbuf : Nat) (m : Sim) : Sim × BlockRes :=
  let m := m.resume D
  Sim.recvLoop nbuf (m.fs.length + 1) m

/-- the caller reads until it has `want` bytes, or a call returns `Ok(0)` or an error
(`read` = `fill_buf` + copy + `consume`; `fill_buf` calls `read_block` iff the block is used up) -/
def Sim.readN (D : Deflater) (nbuf : Nat) : Nat → Sim → Nat → Bytes → Sim × Res
  | 0, m, _, acc => (m, .data acc none)
  | fuel+1, m, want, acc =>
    if want = 0 then (m, .data acc none) else
    if m.cur.length > 0 then
      let k := min want m.cur.length
      Sim.readN D nbuf fuel { m with cur := m.cur.drop k } (want - k) (acc ++ m.cur.take k)
    else
      match Sim.readBlock D nbuf m with
      | (m', .hang) => (m', .hang)
      | (m', .err e) => (m', .data acc (some (.err e)))
      | (m', .ok) =>
        if m'.cur.length = 0 then (m', .data acc (some .eof))
        else Sim.readN D nbuf fuel m' want acc

/-- `seek_to_virtual_position(c, u)`: `get_mut()` pauses (drops the recycle sender, joins the
thread; tickets the caller never consumed — read-ahead — are dropped with the channel), the inner
reader seeks, `read_block` resumes with a fresh thread and fresh buffers -/
def Sim.seek (D : Deflater) (nbuf : Nat) (m : Sim) (c u : Nat) : Sim × Res :=
  let m := { m with running := false, src := m.file.drop c }
  match Sim.readBlock D nbuf m with
  | (m', .hang) => (m', .hang)
  | (m', .err e) => (m', .err e)          -- `self.buffer` keeps the OLD block: `cur` unchanged
  | (m', .ok) =>
    if u > m'.cur.length then (m', .err .invalidInput)
    else ({ m' with cur := m'.cur.drop u }, .unit)

/-- `finish()`: `Paused` → `Ok(inner)`; `Running` → drop the sender, join: `Ok(reader)`. -/
def Sim.finish (_nbuf : Nat) (_m : Sim) : Option Err := none

inductive COp | read (n : Nat) | seek (c u : Nat)

def Sim.run (D : Deflater) (nbuf : Nat) : Sim → List COp → List Res × Option (Option Err)
  | m, [] => ([], some (Sim.finish nbuf m))
  | m, .read n :: ops =>
    match Sim.readN D nbuf (n + m.file.length + 2) m n [] with
    | (_, .hang) => ([.hang], none)
    | (m', r) => (r :: (Sim.run D nbuf m' ops).1, (Sim.run D nbuf m' ops).2)
  | m, .seek c u :: ops =>
    match Sim.seek D nbuf m c u with
    | (_, .hang) => ([.hang], none)
    | (m', r) => (r :: (Sim.run D nbuf m' ops).1, (Sim.run D nbuf m' ops).2)

end Noodles.MtTrunc
