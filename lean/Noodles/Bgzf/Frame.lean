import Noodles.Basic.Codec
/-!
# BGZF framing, the single-threaded writer and the `read_to_end` reader (model)

Transcribed from noodles-bgzf: `io/writer.rs`, `io/writer/frame.rs`, `deflate.rs`,
`io/reader/frame.rs`, `io/reader.rs`. DEFLATE and CRC32 are parameters (`Deflater`).
-/
namespace Noodles.Bgzf
open Noodles.Codec

inductive Err | eof | invalidData | invalidInput | writeZero | unreachable
  deriving Repr, DecidableEq

/-- The external compression library as seen by noodles-bgzf. -/
structure Deflater where
  /-- `Deflate::compress(src, Finish)` at a level -/
  deflate : Nat → Bytes → Bytes
  /-- `deflate::decode(cdata, dst)` with `dst.len() = isize`: the bytes left in `dst`, or failure -/
  inflate : Bytes → Nat → Option Bytes
  crc : Bytes → Nat

def HEADER_SIZE : Nat := 18
def TRAILER_SIZE : Nat := 8
def MAX_ISIZE : Nat := 65536
def OVERHEAD0 : Nat := 15
/-- `MAX_BUF_SIZE = BGZF_MAX_ISIZE - BGZF_HEADER_SIZE - gz::TRAILER_SIZE - COMPRESSION_LEVEL_0_OVERHEAD` -/
def MAX_BUF : Nat := MAX_ISIZE - HEADER_SIZE - TRAILER_SIZE - OVERHEAD0
def MAX_COMPRESSED : Nat := MAX_BUF + OVERHEAD0
def MIN_FRAME : Nat := HEADER_SIZE + TRAILER_SIZE

/-- The laws the theorems need from the library. -/
structure Deflater.Lawful (D : Deflater) : Prop where
  roundtrip : ∀ l x, D.inflate (D.deflate l x) x.length = some x
  level0 : ∀ x, x.length ≤ MAX_BUF → (D.deflate 0 x).length ≤ MAX_COMPRESSED
  crc_lt : ∀ x, D.crc x < 2^32
  /-- the constant CDATA `03 00` of the EOF marker is an empty stream, and CRC32("") = 0 -/
  eof_block : D.inflate [0x03, 0x00] 0 = some []
  crc_nil : D.crc [] = 0

/-- first 16 header bytes: ID1 ID2 CM FLG MTIME(4) XFL OS XLEN(2) SI1 SI2 SLEN(2) -/
def headerPrefix : Bytes :=
  [0x1f, 0x8b, 0x08, 0x04, 0, 0, 0, 0, 0x00, 0xff, 0x06, 0x00, 0x42, 0x43, 0x02, 0x00]

/-- the 28-byte EOF marker -/
def EOF_MARKER : Bytes :=
  headerPrefix ++ [0x1b, 0x00, 0x03, 0x00, 0, 0, 0, 0, 0, 0, 0, 0]

/-- `write_frame`: header with BSIZE = block_size - 1 (must fit `u16`), cdata, CRC32, ISIZE -/
def frame (cdata : Bytes) (crc isize : Nat) : Except Err Bytes :=
  let blockSize := HEADER_SIZE + cdata.length + TRAILER_SIZE
  if blockSize - 1 < 65536 then
    if isize < 2^32 then
      .ok (headerPrefix ++ le 2 (blockSize - 1) ++ cdata ++ le 4 crc ++ le 4 isize)
    else .error .invalidInput
  else .error .invalidInput

/-- `deflate::encode`: try the configured level, fall back to level 0, else `unreachable!()` -/
def encodeBlock (D : Deflater) (lvl : Nat) (x : Bytes) : Except Err Bytes :=
  if (D.deflate lvl x).length ≤ MAX_COMPRESSED then .ok (D.deflate lvl x)
  else if (D.deflate 0 x).length ≤ MAX_COMPRESSED then .ok (D.deflate 0 x)
  else .error .unreachable

structure Writer where
  staging : Bytes
  position : Nat
  sink : Bytes
  deriving Repr

def Writer.init : Writer := ⟨[], 0, []⟩

def flushBlock (D : Deflater) (lvl : Nat) (w : Writer) : Except Err Writer :=
  match encodeBlock D lvl w.staging with
  | .error e => .error e
  | .ok cdata =>
    match frame cdata (D.crc w.staging) w.staging.length with
    | .error e => .error e
    | .ok fr => .ok { staging := [], position := w.position + fr.length, sink := w.sink ++ fr }

def flush (D : Deflater) (lvl : Nat) (w : Writer) : Except Err Writer :=
  if w.staging.isEmpty then .ok w else flushBlock D lvl w

/-- one `Write::write` call: returns the new state and the amount accepted -/
def write1 (D : Deflater) (lvl : Nat) (w : Writer) (buf : Bytes) : Except Err (Writer × Nat) :=
  let amt := min (MAX_BUF - w.staging.length) buf.length
  let w' := { w with staging := w.staging ++ buf.take amt }
  if w'.staging.length < MAX_BUF then .ok (w', amt)
  else match flush D lvl w' with
    | .error e => .error e
    | .ok w'' => .ok (w'', amt)

/-- `Write::write_all` (std default): loop over `write`, `Ok(0)` is `WriteZero` -/
def writeAll (D : Deflater) (lvl : Nat) : Nat → Writer → Bytes → Except Err Writer
  | 0, w, buf => if buf.isEmpty then .ok w else .error .writeZero
  | fuel+1, w, buf =>
    if buf.isEmpty then .ok w else
    match write1 D lvl w buf with
    | .error e => .error e
    | .ok (w', amt) =>
      if amt = 0 then .error .writeZero else writeAll D lvl fuel w' (buf.drop amt)

inductive Op | write (b : Bytes) | flush
  deriving Repr

def step (D : Deflater) (lvl : Nat) (w : Writer) : Op → Except Err Writer
  | .write b => writeAll D lvl (b.length + 1) w b
  | .flush => flush D lvl w

def run (D : Deflater) (lvl : Nat) : Writer → List Op → Except Err Writer
  | w, [] => .ok w
  | w, op :: ops => match step D lvl w op with
    | .error e => .error e
    | .ok w' => run D lvl w' ops

/-- `try_finish` (also what `Drop` runs): flush, then the EOF marker -/
def finish (D : Deflater) (lvl : Nat) (w : Writer) : Except Err Writer :=
  match flush D lvl w with
  | .error e => .error e
  | .ok w' => .ok { w' with sink := w'.sink ++ EOF_MARKER, position := w'.position + EOF_MARKER.length }

def payload : List Op → Bytes
  | [] => []
  | .write b :: ops => b ++ payload ops
  | .flush :: ops => payload ops

/-! ## reader: `read_frame_into` + `parse_block`, looped as `read_to_end` does -/

/-- one frame off the front of the stream. `none` = clean end of input (fewer than 18 bytes left:
`read_exact` of the header hit `UnexpectedEof`). Returns (block_size, data, rest).
Sequential form of `read_frame_into` + `parse_frame` + `inflate`. -/
def readFrame (D : Deflater) (s : Bytes) : Except Err (Option (Nat × Bytes × Bytes)) :=
  if s.length < HEADER_SIZE then .ok none else
  let pre := s.take 16
  match unle 2 (s.drop 16) with
  | .error _ => .error .eof
  | .ok (bsize, r2) =>
    let blockSize := bsize + 1
    if blockSize < MIN_FRAME then .error .invalidData else
    if s.length < blockSize then .error .eof else
    if pre.take 4 ≠ headerPrefix.take 4 ∨ pre.drop 10 ≠ headerPrefix.drop 10 then .error .invalidData else
    let cdata := r2.take (blockSize - MIN_FRAME)
    match unle 4 (r2.drop (blockSize - MIN_FRAME)) with
    | .error _ => .error .eof
    | .ok (crc, r4) =>
      match unle 4 r4 with
      | .error _ => .error .eof
      | .ok (isize, rest) =>
        if isize > MAX_ISIZE then .error .invalidData else
        match D.inflate cdata isize with
        | none => .error .invalidData
        | some data =>
          if D.crc data = crc then .ok (some (blockSize, data, rest)) else .error .invalidData

/-- `read_to_end`: concatenate the data of all frames until clean end of input -/
def readAll (D : Deflater) : Nat → Bytes → Except Err Bytes
  | 0, _ => .error .unreachable
  | fuel+1, s =>
    match readFrame D s with
    | .error e => .error e
    | .ok none => .ok []
    | .ok (some (_, data, rest)) =>
      match readAll D fuel rest with
      | .error e => .error e
      | .ok more => .ok (data ++ more)

def readToEnd (D : Deflater) (s : Bytes) : Except Err Bytes := readAll D (s.length + 1) s

end Noodles.Bgzf
