import Noodles.Basic.Wire
import Noodles.Basic.Crc32
import Noodles.Bgzf.Frame
/-! Line-protocol handlers for the BGZF writer/reader suites (`c01 …`). -/
namespace Noodles.Bgzf
open Noodles.Wire hiding Bytes
open Noodles.Codec

def errStr : Err → String
  | .eof => "err:eof"
  | .invalidData => "err:invalid-data"
  | .invalidInput => "err:invalid-input"
  | .writeZero => "err:other"
  | .unreachable => "panic"

/-- deflate table from the request: `(crc32 data, |data|) ↦ cdata` — the real library's answers -/
structure DefEntry where
  crc : Nat
  len : Nat
  cdata : Bytes

/-- inflate table: `(crc32 cdata, |cdata|, isize) ↦ data or failure` -/
structure InfEntry where
  crc : Nat
  len : Nat
  isize : Nat
  data : Option Bytes

def tableDeflater (dt : List DefEntry) (it : List InfEntry) : Deflater where
  deflate := fun _ x =>
    let c := Crc32.crc32 x
    match dt.find? (fun e => e.crc = c ∧ e.len = x.length) with
    | some e => e.cdata
    | none => []
  inflate := fun cdata isize =>
    let c := Crc32.crc32 cdata
    match it.find? (fun e => e.crc = c ∧ e.len = cdata.length ∧ e.isize = isize) with
    | some e => e.data
    | none => none
  crc := Crc32.crc32

def parseDefTable (s : String) : Option (List DefEntry) :=
  if s = "-" then some [] else
  (s.splitOn ",").mapM fun e =>
    match e.splitOn ":" with
    | [c, l, d] => do pure ⟨← c.toNat?, ← l.toNat?, ← unhex d⟩
    | _ => none

def parseInfTable (s : String) : Option (List InfEntry) :=
  if s = "-" then some [] else
  (s.splitOn ",").mapM fun e =>
    match e.splitOn ":" with
    | [c, l, i, d] => do
      let data ← if d = "!" then some none else (unhex d).map some
      pure ⟨← c.toNat?, ← l.toNat?, ← i.toNat?, data⟩
    | _ => none

inductive HOp | all (b : Bytes) | one (b : Bytes) | flush

def parseOps (s : String) : Option (List HOp) :=
  if s = "-" then some [] else
  (s.splitOn ",").mapM fun e =>
    match e.toList with
    | 'a' :: r => (unhex (String.ofList r)).map HOp.all
    | 'w' :: r => (unhex (String.ofList r)).map HOp.one
    | ['f'] => some HOp.flush
    | _ => none

def vpos (w : Writer) : Nat := w.position * 65536 + w.staging.length

/-- replay a history; per-op canonical results, stop at the first error like the harness does -/
def replay (D : Deflater) (lvl : Nat) : Writer → List HOp → List String → Writer × List String × Bool
  | w, [], acc => (w, acc.reverse, true)
  | w, op :: ops, acc =>
    match op with
    | .all b =>
      match step D lvl w (.write b) with
      | .ok w' => replay D lvl w' ops (s!"ok:{w'.position}:{vpos w'}" :: acc)
      | .error e => (w, (errStr e :: acc).reverse, false)
    | .one b =>
      match write1 D lvl w b with
      | .ok (w', amt) => replay D lvl w' ops (s!"amt{amt}:{w'.position}:{vpos w'}" :: acc)
      | .error e => (w, (errStr e :: acc).reverse, false)
    | .flush =>
      match flush D lvl w with
      | .ok w' => replay D lvl w' ops (s!"ok:{w'.position}:{vpos w'}" :: acc)
      | .error e => (w, (errStr e :: acc).reverse, false)

def handleC01 : List String → String
  | ["hist", lvl, _fin, ops, table] =>
    match lvl.toNat?, parseOps ops, parseDefTable table with
    | some lvl, some ops, some dt =>
      let D := tableDeflater dt []
      let (w, outs, ok) := replay D lvl Writer.init ops []
      let per := if outs.isEmpty then "-" else ",".intercalate outs
      if !ok then s!"{per} | end=aborted" else
      -- finish() and drop both run try_finish
      match finish D lvl w with
      | .ok w' => s!"{per} | end=ok sink={w'.sink.length}:{Crc32.crc32 w'.sink} pos={w'.position}"
      | .error e => s!"{per} | end={errStr e}"
    | _, _, _ => "bad-op"
  | ["readall", sink, table] =>
    match unhex sink, parseInfTable table with
    | some s, some it =>
      match readToEnd (tableDeflater [] it) s with
      | .ok d => s!"ok:{d.length}:{Crc32.crc32 d}"
      | .error e => errStr e
    | _, _ => "bad-op"
  | _ => "bad-op"

end Noodles.Bgzf
