import Noodles.Bgzf.DriverC02
import Noodles.Bgzf.IndexedReader
import Noodles.Bgzf.IndexedBsearch
/-! Line-protocol handler for the indexed BGZF reader (`c02 idx…`). -/
namespace Noodles.Bgzf.IR
open Noodles.Wire Noodles.Bgzf.RM

/-- `c:u,c:u,…` -/
def parseGzi (s : String) : Option Gzi :=
  if s = "-" then some [] else
  (s.splitOn ",").mapM fun e =>
    match e.splitOn ":" with
    | [c, u] => do pure (← c.toNat?, ← u.toNat?)
    | _ => none

def fmtGzi (g : Gzi) : String :=
  if g.isEmpty then "-" else ",".intercalate (g.map fun (c, u) => s!"{c}:{u}")

def parseIOp (e : String) : Option IOp :=
  match e.toList with
  | 'r' :: r => (String.ofList r).toNat?.map IOp.read
  | 'x' :: r => (String.ofList r).toNat?.map IOp.readExact
  | ['b'] => some IOp.fillBuf
  | 'c' :: r => (String.ofList r).toNat?.map IOp.consume
  | 'S' :: r => (String.ofList r).toNat?.map fun p => IOp.seek (.start p)
  | 'C' :: r => (String.ofList r).toInt?.map fun d => IOp.seek (.current d)
  | 'E' :: r => (String.ofList r).toInt?.map fun d => IOp.seek (.end d)
  | ['p'] => some IOp.streamPosition
  | ['q'] => some IOp.position
  | ['t'] => some IOp.vpos
  | _ => none

def fmtIOut : IOut UInt8 → String
  | .bytes b => fmtBytes b
  | .unit => "ok"
  | .pos p => s!"p{p}"
  | .vpos c u => s!"v{c}/{u}"
  | .err e => errStr e
  | .panic => "panic"

def runAllI (L : Layout UInt8) (g : Gzi) : R UInt8 → List IOp → List String → List String
  | _, [], acc => acc.reverse
  | s, op :: ops, acc =>
    let (s', out) := istep L g s op
    let t := tell s'
    runAllI L g s' ops (s!"{fmtIOut out}@{t.1}/{t.2}#{s'.position}" :: acc)

def handle? : List String → Option String
  | ["idx", layout, gzi, ops] => some <|
    match parseLayout layout, parseGzi gzi,
        (if ops = "-" then some [] else (ops.splitOn ",").mapM parseIOp) with
    | some L, some g, some ops =>
      match (build (some g) : Except Err (Gzi × R UInt8)) with
      | .ok (g, s) => let r := runAllI L g s ops []; if r.isEmpty then "-" else " ".intercalate r
      | .error e => errStr e
    | _, _, _ => "bad-op"
  | ["idxall", layout, gzi, pos, n] => some <|
    match parseLayout layout, parseGzi gzi, pos.toNat?, n.toNat? with
    | some L, some g, some pos, some n =>
      let r := istep L g R.init (.seek (.start pos))
      match r.2 with
      | .pos _ => fmtBytes (readAll L n ((flat L).length + 2) r.1 [])
      | out => fmtIOut out
    | _, _, _, _ => "bad-op"
  | ["idxof", layout] => some <|
    match parseLayout layout with
    | some L => fmtGzi (gziOf L)
    | none => "bad-op"
  | ["idxq", gzi, pos] => some <|
    match parseGzi gzi, pos.toNat? with
    | some g, some pos => match query g pos with
      | .ok (c, u) => s!"v{c}/{u}"
      | .error e => errStr e
    | _, _ => "bad-op"
  | ["idxpp", gzi, pos] => some <|
    match parseGzi gzi, pos.toNat? with
    | some g, some pos => s!"{partitionPointBS g pos}"
    | _, _ => "bad-op"
  | ["idxbuild", gzi] => some <|
    match (if gzi = "none" then some none else (parseGzi gzi).map some) with
    | some ix => match (build ix : Except Err (Gzi × R UInt8)) with
      | .ok (g, _) => s!"ok {fmtGzi g}"
      | .error e => errStr e
    | none => "bad-op"
  | _ => none

end Noodles.Bgzf.IR
