namespace Noodles.Mtw

/-- Abstract state of `MultithreadedWriter` (blocks are identified by submission index). -/
structure St where
  total : Nat              -- blocks the caller will submit in this history
  cap : Nat                -- capacity of the ordered ticket channel (rayon::current_num_threads())
  nsub : Nat               -- tickets sent so far (= compress tasks spawned)
  done : List Nat          -- tasks whose one-shot result is ready (any order)
  taken : Nat              -- tickets the writer thread has received from the ordered channel
  written : Nat            -- frames written to the sink
  closed : Bool            -- caller dropped the sender (finish)
  exited : Bool            -- writer thread returned (EOF marker written)
  sink : List (Option Nat) -- `some i` = frame of block i, `none` = EOF marker

inductive Step : St → St → Prop
  | submit (s : St) (h1 : s.closed = false) (h2 : s.nsub < s.total) (h3 : s.nsub - s.taken < s.cap) :
      Step s { s with nsub := s.nsub + 1 }
  | complete (s : St) (i : Nat) (h1 : i < s.nsub) (h2 : i ∉ s.done) :
      Step s { s with done := i :: s.done }
  | take (s : St) (h1 : s.taken = s.written) (h2 : s.taken < s.nsub) :
      Step s { s with taken := s.taken + 1 }
  | write (s : St) (h1 : s.taken = s.written + 1) (h2 : s.written ∈ s.done) :
      Step s { s with written := s.written + 1, sink := s.sink ++ [some s.written] }
  | close (s : St) (h1 : s.closed = false) (h2 : s.nsub = s.total) :
      Step s { s with closed := true }
  | exit (s : St) (h1 : s.closed = true) (h2 : s.exited = false) (h3 : s.taken = s.written)
      (h4 : s.written = s.nsub) :
      Step s { s with exited := true, sink := s.sink ++ [none] }

def init (total cap : Nat) : St := ⟨total, cap, 0, [], 0, 0, false, false, []⟩

inductive Reach (total cap : Nat) : St → Prop
  | init : Reach total cap (init total cap)
  | step {s t} : Reach total cap s → Step s t → Reach total cap t

def frames (n : Nat) : List (Option Nat) := (List.range n).map some

structure Inv (total cap : Nat) (s : St) : Prop where
  tot : s.total = total
  cp : s.cap = cap
  sub : s.nsub ≤ s.total
  tk : s.taken ≤ s.nsub
  wr : s.written ≤ s.taken ∧ s.taken ≤ s.written + 1
  dn : ∀ i ∈ s.done, i < s.nsub
  cl : s.closed = true → s.nsub = s.total
  sk : s.sink = frames s.written ++ (if s.exited then [none] else [])
  ex : s.exited = true → s.closed = true ∧ s.written = s.nsub

theorem frames_succ (n : Nat) : frames (n+1) = frames n ++ [some n] := by
  simp [frames, List.range_succ]

theorem inv_reach (total cap : Nat) (s : St) (h : Reach total cap s) : Inv total cap s := by
  induction h with
  | init => exact ⟨rfl, rfl, by simp [init], by simp [init], by simp [init], by simp [init],
      by simp [init], by simp [init, frames], by simp [init]⟩
  | @step s t _ hs ih =>
    cases hs with
    | submit h1 h2 h3 =>
      exact ⟨ih.tot, ih.cp, by simp; omega, by simp; have := ih.tk; omega, ih.wr,
        fun i hi => by have := ih.dn i hi; simp; omega, by simp [h1], ih.sk,
        fun he => by have := (ih.ex he).1; simp [h1] at this⟩
    | complete i h1 h2 =>
      exact ⟨ih.tot, ih.cp, ih.sub, ih.tk, ih.wr,
        fun j hj => by rcases List.mem_cons.mp hj with rfl | hj; exact h1; exact ih.dn j hj,
        ih.cl, ih.sk, ih.ex⟩
    | take h1 h2 =>
      exact ⟨ih.tot, ih.cp, ih.sub, by simp; omega, by simp; omega, ih.dn, ih.cl, ih.sk,
        fun he => by have := (ih.ex he); simp at *; omega⟩
    | write h1 h2 =>
      refine ⟨ih.tot, ih.cp, ih.sub, ih.tk, by simp; omega, ih.dn, ih.cl, ?_, ?_⟩
      · have hne : s.exited = false := by
          cases he : s.exited with
          | false => rfl
          | true => have := ih.ex he; have := ih.tk; omega
        simp [ih.sk, hne, frames_succ]
      · intro he; have := ih.ex he; have := ih.tk; simp at *; omega
    | close h1 h2 =>
      exact ⟨ih.tot, ih.cp, ih.sub, ih.tk, ih.wr, ih.dn, fun _ => h2, ih.sk,
        fun he => by have := (ih.ex he).1; simp [h1] at this⟩
    | exit h1 h2 h3 h4 =>
      exact ⟨ih.tot, ih.cp, ih.sub, ih.tk, ih.wr, ih.dn, ih.cl, by simp [ih.sk, h2],
        fun _ => ⟨h1, h4⟩⟩

/-- Safety: whatever the completion order, a finished writer has emitted the frames in submission
order followed by the EOF marker — i.e. exactly what the single-threaded writer emits. -/
theorem output_eq_sequential (total cap : Nat) (s : St) (h : Reach total cap s)
    (hfin : s.exited = true) : s.sink = frames total ++ [none] := by
  have inv := inv_reach total cap s h
  have := inv.ex hfin
  have h2 := inv.cl this.1
  rw [inv.sk, hfin, this.2, h2, inv.tot]; rfl

/-- Progress: with a channel of capacity ≥ 1, every reachable non-final state can take a step. -/
theorem no_deadlock (total cap : Nat) (hcap : 0 < cap) (s : St) (h : Reach total cap s)
    (hne : s.exited = false) : ∃ t, Step s t := by
  have inv := inv_reach total cap s h
  by_cases hpend : ∃ i, i < s.nsub ∧ i ∉ s.done
  · obtain ⟨i, h1, h2⟩ := hpend; exact ⟨_, Step.complete s i h1 h2⟩
  · have hall : ∀ i, i < s.nsub → i ∈ s.done := by
      intro i hi; by_cases hm : i ∈ s.done; exact hm; exact absurd ⟨i, hi, hm⟩ hpend
    by_cases htw : s.taken = s.written + 1
    · exact ⟨_, Step.write s htw (hall _ (by have := inv.tk; omega))⟩
    · have heq : s.taken = s.written := by have := inv.wr; omega
      by_cases hlt : s.taken < s.nsub
      · exact ⟨_, Step.take s heq hlt⟩
      · have hts : s.taken = s.nsub := by have := inv.tk; omega
        cases hc : s.closed with
        | true => exact ⟨_, Step.exit s hc hne heq (by omega)⟩
        | false =>
          by_cases hsub : s.nsub < s.total
          · exact ⟨_, Step.submit s hc hsub (by rw [inv.cp]; omega)⟩
          · exact ⟨_, Step.close s hc (by have := inv.sub; omega)⟩

#print axioms output_eq_sequential
#print axioms no_deadlock
end Noodles.Mtw
