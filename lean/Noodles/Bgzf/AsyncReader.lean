import Noodles.Bgzf.ReaderModel
/-!
# The async BGZF reader as a `poll` state machine over a scripted async source (model for C16)

Transcribed from noodles-bgzf `async/io/reader.rs` (`poll_fill_buf`, `poll_read`, `consume`, `seek`,
`virtual_position`), `async/io/reader/inflater.rs` (`FramedRead<R, BlockCodec>` as a stream of inflate
futures), `async/block_codec.rs` (`Decoder::decode`), tokio-util `FramedImpl::poll_next`,
futures-util `TryBuffered::poll_next` / `FuturesOrdered::poll_next`, tokio `ReadExact`.

The block cursor (`R`, `hasRemaining`, `consume`, `tell`) is the one of the sync reader model
(`Noodles.Bgzf.RM`): both readers share `io::Block`.  The file is a *layout* (list of members:
compressed size + inflated data); framing/inflate of the bytes is C01's model.

Nondeterminism is scripted (`Sched`): what every `poll_read` of the underlying `AsyncRead` does
(`ready n`: transfer at most `n ≥ 1` bytes; `pending`: return `Poll::Pending`, waking immediately),
and, for every poll of the head of the in-flight queue, whether that `spawn_blocking` inflate task
has finished.  Once a list is exhausted the source delivers everything asked for / the task is done.
ASSUMPTION (trusted base): `FuturesOrdered` yields results in submission order — only the head of
the queue can be handed out.

`seek` is modelled as it is AFTER the proposed fix `fixes/bgzf-async-seek.diff` (end of stream →
empty block at the sought position; in-block offset beyond the block → `InvalidInput`).  Like the
code, it does NOT skip empty members (the sync reader does).
-/
namespace Noodles.Bgzf.Async
open Noodles.Bgzf.RM

variable {α : Type}

/-- one decision of the underlying `AsyncRead::poll_read` -/
inductive Poll1 | ready (n : Nat) | pending
  deriving Repr

structure Sched where
  /-- decisions of the source, one per `poll_read` -/
  src : List Poll1
  /-- one per poll of the head inflate future: has the blocking task finished? -/
  inf : List Bool
  deriving Repr

/-- every `Pending` consumes one scripted `pending` / `false`: this bounds the number of polls -/
def Sched.measure (sd : Sched) : Nat := sd.src.length + sd.inf.length

/-- `Inflater` (= `FramedRead` + `BlockCodec`) under `TryBuffered` -/
structure Pipe where
  /-- file offset up to which the source has delivered bytes into the framing buffer -/
  spos : Nat
  /-- members framed so far = index of the next member to frame; members `[taken, fetched)` are
  in flight (`taken` is the reader's `R.next`) -/
  fetched : Nat
  /-- the framed stream returned `None` (the `Fuse` is done) -/
  eof : Bool
  deriving Repr

def Pipe.init : Pipe := ⟨0, 0, false⟩

def total (L : Layout α) : Nat := coff L L.length

inductive FRes | frame | none | pending
  deriving Repr

/-- `FramedImpl::poll_next` with `BlockCodec::decode`: hand out the next frame if the buffer holds
all of it (BSIZE + 1 bytes), otherwise poll the source — `Pending` is returned as is, a transfer is
followed by another decode attempt, a transfer of 0 bytes is end of input (`decode_eof` on the
empty buffer → `None`).  Structural recursion on the source script. -/
def framedPoll (L : Layout α) : List Poll1 → Pipe → Pipe × List Poll1 × FRes
  | [], p =>
    match L[p.fetched]? with
    | some _ => ({ p with spos := max p.spos (total L), fetched := p.fetched + 1 }, [], .frame)
    | none => ({ p with eof := true }, [], .none)
  | ev :: sc, p =>
    match L[p.fetched]? with
    | some b =>
      if coff L p.fetched + b.csize ≤ p.spos then ({ p with fetched := p.fetched + 1 }, ev :: sc, .frame)
      else match ev with
        | .pending => (p, sc, .pending)
        | .ready n => framedPoll L sc { p with spos := p.spos + min (max n 1) (total L - p.spos) }
    | none =>
      match ev with
      | .pending => (p, sc, .pending)
      | .ready _ => ({ p with eof := true }, sc, .none)

/-- the `while in_progress_queue.len() < max` loop of `TryBuffered::poll_next`; `t` = members
already taken by the reader, so the queue holds `fetched - t` futures.  At most `w` iterations. -/
def fillQueue (L : Layout α) (w t : Nat) : Nat → Pipe → List Poll1 → Pipe × List Poll1
  | 0, p, sc => (p, sc)
  | fuel+1, p, sc =>
    if p.fetched - t < w ∧ p.eof = false then
      match framedPoll L sc p with
      | (p', sc', .frame) => fillQueue L w t fuel p' sc'
      | (p', sc', _) => (p', sc')
    else (p, sc)

inductive PRes (α : Type) | pending | item (b : Blk α) | done
  deriving Repr

/-- `TryBuffered::poll_next`: fill the queue, then poll its head (member `t`); an empty queue is
`None` when the framed stream is done and `Pending` otherwise. -/
def pollNext (L : Layout α) (w t : Nat) (p : Pipe) (sd : Sched) : Pipe × Sched × PRes α :=
  let q := fillQueue L w t w p sd.src
  if t < q.1.fetched then
    match sd.inf with
    | false :: inf' => (q.1, ⟨q.2, inf'⟩, .pending)
    | _ :: inf' => (q.1, ⟨q.2, inf'⟩, match L[t]? with | some b => .item b | none => .done)
    | [] => (q.1, ⟨q.2, []⟩, match L[t]? with | some b => .item b | none => .done)
  else if q.1.eof then (q.1, ⟨q.2, sd.inf⟩, .done) else (q.1, ⟨q.2, sd.inf⟩, .pending)

/-- the async reader: block cursor + pipeline -/
structure AR (α : Type) where
  r : R α
  p : Pipe
  deriving Repr

def AR.init : AR α := ⟨R.init, Pipe.init⟩

inductive Poll (β : Type) | pending | ready (x : β)
  deriving Repr

/-- the block taken from the stream becomes the current block (`block.set_position(position);
position += block.size()`) -/
def absorb (s : R α) (b : Blk α) : R α :=
  ⟨s.next + 1, s.position + b.csize, s.position, b.csize, b.data, 0⟩

/-- `AsyncBufRead::poll_fill_buf`: serve the current block while it has data; otherwise take blocks
from the stream until a non-empty one (each taken block is installed, empty or not); at the end of
the stream return the empty slice and leave the block as it is. -/
def pollFillBuf (L : Layout α) (w : Nat) : Nat → AR α → Sched → AR α × Sched × Poll (List α)
  | 0, a, sd => (a, sd, .pending)
  | fuel+1, a, sd =>
    if hasRemaining a.r then (a, sd, .ready (a.r.data.drop a.r.cur))
    else match pollNext L w a.r.next a.p sd with
      | (p', sd', .pending) => (⟨a.r, p'⟩, sd', .pending)
      | (p', sd', .done) => (⟨a.r, p'⟩, sd', .ready [])
      | (p', sd', .item b) =>
        if b.data.length > 0 then (⟨absorb a.r b, p'⟩, sd', .ready b.data)
        else pollFillBuf L w fuel ⟨absorb a.r b, p'⟩ sd'

/-- enough fuel for the empty-member loop: one iteration per remaining member, plus one -/
def fbFuel (L : Layout α) (a : AR α) : Nat := L.length - a.r.next + 2

/-- `AsyncRead::poll_read` with `buf.remaining() = n` -/
def pollRead (L : Layout α) (w : Nat) (a : AR α) (sd : Sched) (n : Nat) : AR α × Sched × Poll (List α) :=
  match pollFillBuf L w (fbFuel L a) a sd with
  | (a', sd', .pending) => (a', sd', .pending)
  | (a', sd', .ready src) =>
    let amt := min src.length n
    (⟨consume amt a'.r, a'.p⟩, sd', .ready (src.take amt))

/-! ## futures: a task polls until `Ready` (the adversary wakes immediately) -/

/-- `fill_buf().await` -/
def driveFillBuf (L : Layout α) (w : Nat) : Nat → AR α → Sched → AR α × Sched × Option (List α)
  | 0, a, sd => (a, sd, none)
  | fuel+1, a, sd =>
    match pollFillBuf L w (fbFuel L a) a sd with
    | (a', sd', .pending) => driveFillBuf L w fuel a' sd'
    | (a', sd', .ready bs) => (a', sd', some bs)

/-- `read(&mut buf).await` with `buf.len() = n` -/
def driveRead (L : Layout α) (w : Nat) (n : Nat) : Nat → AR α → Sched → AR α × Sched × Option (List α)
  | 0, a, sd => (a, sd, none)
  | fuel+1, a, sd =>
    match pollRead L w a sd n with
    | (a', sd', .pending) => driveRead L w n fuel a' sd'
    | (a', sd', .ready bs) => (a', sd', some bs)

inductive XRes (α : Type) | ok (b : List α) | eof | starved
  deriving Repr

/-- tokio `ReadExact`: poll `poll_read` with the unfilled rest until nothing is left; a read that
adds nothing is `UnexpectedEof`. -/
def readExactLoop (L : Layout α) (w : Nat) : Nat → AR α → Sched → Nat → List α → AR α × Sched × XRes α
  | 0, a, sd, _, _ => (a, sd, .eof)      -- not reached: the fuel is `n + 1` and every round adds ≥ 1 byte
  | fuel+1, a, sd, n, acc =>
    if n = 0 then (a, sd, .ok acc) else
    match driveRead L w n (sd.measure + 1) a sd with
    | (a', sd', none) => (a', sd', .starved)
    | (a', sd', some got) =>
      if got.isEmpty then (a', sd', .eof)
      else readExactLoop L w fuel a' sd' (n - got.length) (acc ++ got)

/-- `stream.try_next().await` on the fresh stream of a `seek` -/
def driveNext (L : Layout α) (w t : Nat) : Nat → Pipe → Sched → Pipe × Sched × Option (Option (Blk α))
  | 0, p, sd => (p, sd, none)
  | fuel+1, p, sd =>
    match pollNext L w t p sd with
    | (p', sd', .pending) => driveNext L w t fuel p' sd'
    | (p', sd', .item b) => (p', sd', some (some b))
    | (p', sd', .done) => (p', sd', some none)

/-- `Reader::seek` (with the fix): the in-flight futures are dropped, the source is positioned at
`c`, the framing buffer cleared, a new `TryBuffered` built; its first block becomes the current
block at `c` — or, at the end of the stream, an empty block at `c` — and the in-block offset is
checked against the block.  Empty members are NOT skipped. -/
def seek (L : Layout α) (w : Nat) (a : AR α) (sd : Sched) (c u : Nat) : AR α × Sched × Option Err :=
  match memberAt L c with
  | none => (a, sd, some .badSeek)      -- not a member boundary: the real reader would frame garbage
  | some k =>
    match driveNext L w k (sd.measure + 1) ⟨c, k, false⟩ sd with
    | (p', sd', none) => (⟨a.r, p'⟩, sd', some .badSeek)    -- starved: excluded by the fuel
    | (p', sd', some ob) =>
      let r' : R α := match ob with
        | some b => ⟨k + 1, c + b.csize, c, b.csize, b.data, 0⟩
        | none => ⟨k, c, c, 0, [], 0⟩
      if u > r'.data.length then (⟨r', p'⟩, sd', some .invalidInput)
      else (⟨{ r' with cur := u }, p'⟩, sd', none)

/-! ## operation histories -/

/-- the operations both readers offer.  `fillConsume n` = `fill_buf` followed by `consume` of at
most `n` of the bytes it returned (the `BufRead` contract: never more than was returned). -/
inductive AOp
  | read (n : Nat) | readExact (n : Nat) | fillConsume (n : Nat) | seek (c u : Nat) | tell
  deriving Repr

deriving instance DecidableEq for Noodles.Bgzf.RM.Out

/-- `starved` cannot happen (theorem `async_reader_schedule_irrelevant`); it exists to make the
functions total -/
inductive AOut (α : Type)
  | out (o : Out α) | starved
  deriving Repr, DecidableEq

/-- one operation on the async reader, polled to completion under the script -/
def stepA (L : Layout α) (w : Nat) (a : AR α) (sd : Sched) : AOp → AR α × Sched × AOut α
  | .read n =>
    match driveRead L w n (sd.measure + 1) a sd with
    | (a', sd', some b) => (a', sd', .out (.bytes b))
    | (a', sd', none) => (a', sd', .starved)
  | .readExact n =>
    match readExactLoop L w (n + 1) a sd n [] with
    | (a', sd', .ok b) => (a', sd', .out (.bytes b))
    | (a', sd', .eof) => (a', sd', .out (.err .eof))
    | (a', sd', .starved) => (a', sd', .starved)
  | .fillConsume n =>
    match driveFillBuf L w (sd.measure + 1) a sd with
    | (a', sd', some b) => (⟨consume (min n b.length) a'.r, a'.p⟩, sd', .out (.bytes b))
    | (a', sd', none) => (a', sd', .starved)
  | .seek c u =>
    match seek L w a sd c u with
    | (a', sd', none) => (a', sd', .out .unit)
    | (a', sd', some e) => (a', sd', .out (.err e))
  | .tell => (a, sd, .out (.vpos (tell a.r).1 (tell a.r).2))

def runA (L : Layout α) (w : Nat) : AR α → Sched → List AOp → List (AOut α)
  | _, _, [] => []
  | a, sd, op :: ops =>
    match stepA L w a sd op with
    | (a', sd', o) => o :: runA L w a' sd' ops

/-- the same operation on the sync reader model -/
def stepS (L : Layout α) (s : R α) : AOp → R α × Out α
  | .read n => step L s (.read n)
  | .readExact n => step L s (.readExact n)
  | .fillConsume n =>
    let r := fillBuf L s
    (consume (min n r.2.length) r.1, .bytes r.2)
  | .seek c u => step L s (.seek c u)
  | .tell => step L s .tell

def runS (L : Layout α) : R α → List AOp → List (Out α)
  | _, [] => []
  | s, op :: ops => (stepS L s op).2 :: runS L (stepS L s op).1 ops

/-! ## the sequential meaning of the async operations (every poll `Ready`) -/

/-- `poll_fill_buf`'s loop over an always-ready stream: like `RM.readBlock`, except that at the end
of the stream the current block is left as it is -/
def readBlockA (L : Layout α) (s : R α) : R α :=
  match h : L[s.next]? with
  | none => s
  | some b => if b.data.length > 0 then absorb s b else readBlockA L (absorb s b)
termination_by L.length - s.next
decreasing_by
  have := (List.getElem?_eq_some_iff.mp h).1
  simp only [absorb]
  omega

def fillBufA (L : Layout α) (s : R α) : R α × List α :=
  if hasRemaining s then (s, s.data.drop s.cur)
  else ((readBlockA L s), (readBlockA L s).data.drop (readBlockA L s).cur)

def readA (L : Layout α) (s : R α) (n : Nat) : R α × List α :=
  let r := fillBufA L s
  (consume (min r.2.length n) r.1, r.2.take (min r.2.length n))

def readExactA (L : Layout α) : Nat → R α → Nat → List α → R α × Except Err (List α)
  | 0, s, _, _ => (s, .error .eof)
  | fuel+1, s, n, acc =>
    if n = 0 then (s, .ok acc) else
    let r := readA L s n
    if r.2.isEmpty then (r.1, .error .eof)
    else readExactA L fuel r.1 (n - r.2.length) (acc ++ r.2)

def seekA (L : Layout α) (s : R α) (c u : Nat) : R α × Option Err :=
  match memberAt L c with
  | none => (s, some .badSeek)
  | some k =>
    let r' : R α := match L[k]? with
      | some b => ⟨k + 1, c + b.csize, c, b.csize, b.data, 0⟩
      | none => ⟨k, c, c, 0, [], 0⟩
    if u > r'.data.length then (r', some .invalidInput) else ({ r' with cur := u }, none)

def stepSeq (L : Layout α) (s : R α) : AOp → R α × Out α
  | .read n => let r := readA L s n; (r.1, .bytes r.2)
  | .readExact n => match readExactA L (n + 1) s n [] with
    | (s', .ok b) => (s', .bytes b)
    | (s', .error e) => (s', .err e)
  | .fillConsume n => let r := fillBufA L s; (consume (min n r.2.length) r.1, .bytes r.2)
  | .seek c u => match seekA L s c u with
    | (s', none) => (s', .unit)
    | (s', some e) => (s', .err e)
  | .tell => (s, .vpos (tell s).1 (tell s).2)

/-! ## specification vocabulary -/

/-- seeks on which the two readers are expected to agree.  An in-block offset `u > 0` into an EMPTY
member does not name a byte: the sync reader silently applies it to the next non-empty member, the
(fixed) async reader rejects it. -/
def SeekValid (L : Layout α) : AOp → Prop
  | .seek c u => ∀ k b, memberAt L c = some k → L[k]? = some b → b.data.length = 0 → u = 0
  | _ => True

/-- outputs agree: same bytes, same error class, and reported positions that name the same byte -/
def OutSim (L : Layout α) : Out α → Out α → Prop
  | .bytes b, .bytes b' => b = b'
  | .unit, .unit => True
  | .vpos c u, .vpos c' u' => resolve L c u = resolve L c' u' ∧ (resolve L c u).isSome = true
  | .err e, .err e' => e = e'
  | _, _ => False

inductive OutsSim (L : Layout α) : List (Out α) → List (Out α) → Prop
  | nil : OutsSim L [] []
  | cons {a b : Out α} {as bs : List (Out α)} : OutSim L a b → OutsSim L as bs →
      OutsSim L (a :: as) (b :: bs)

/-- no two consecutive empty members (a normal BGZF file has exactly one empty member, the EOF
marker, at the end) -/
def NoAdjacentEmpty (L : Layout α) : Prop :=
  ∀ k b b', L[k]? = some b → L[k + 1]? = some b' → b.data.length = 0 → b'.data.length > 0

end Noodles.Bgzf.Async
