namespace Noodles.Bgzf

structure Blk (α : Type) where
  csize : Nat
  data : List α

variable {α : Type}

abbrev Layout (α : Type) := List (Blk α)

def coff (L : Layout α) (k : Nat) : Nat := ((L.take k).map (·.csize)).sum
def uoff (L : Layout α) (k : Nat) : Nat := ((L.take k).map (·.data.length)).sum
def flat (L : Layout α) : List α := (L.map (·.data)).flatten

structure R (α : Type) where
  next : Nat
  position : Nat
  bpos : Nat
  bsize : Nat
  data : List α
  cur : Nat

def R.init : R α := ⟨0, 0, 0, 0, [], 0⟩

/-- `read_nonempty_block_with(parse_block)`: read frames until a non-empty one or EOF. -/
def readBlock (L : Layout α) (s : R α) : R α :=
  match h : L[s.next]? with
  | none => s
  | some b =>
    let s' : R α := ⟨s.next + 1, s.position + b.csize, s.position, b.csize, b.data, 0⟩
    if b.data.length > 0 then s' else readBlock L s'
termination_by L.length - s.next
decreasing_by
  have := (List.getElem?_eq_some_iff.mp h).1
  omega

def fillBuf (L : Layout α) (s : R α) : R α × List α :=
  if s.cur < s.data.length then (s, s.data.drop s.cur)
  else let s' := readBlock L s; (s', s'.data.drop s'.cur)

def consume (n : Nat) (s : R α) : R α := { s with cur := min (s.cur + n) s.data.length }

def tell (s : R α) : Nat × Nat :=
  if s.cur < s.data.length then (s.bpos, s.cur) else (s.bpos + s.bsize, 0)

/-- the reader sits on block `k` of the layout (or is in its initial state, `k = none`). -/
inductive Inv (L : Layout α) : R α → Option Nat → Prop
  | init : Inv L R.init none
  | at (k : Nat) (b : Blk α) (cur : Nat) (hb : L[k]? = some b) (hc : cur ≤ b.data.length) :
      Inv L ⟨k+1, coff L (k+1), coff L k, b.csize, b.data, cur⟩ (some k)

/-- flat offset named by the state -/
def off (L : Layout α) (s : R α) : Option Nat → Nat
  | none => 0
  | some k => uoff L k + s.cur

theorem coff_succ (L : Layout α) (k : Nat) (b : Blk α) (h : L[k]? = some b) :
    coff L (k+1) = coff L k + b.csize := by
  unfold coff
  rw [List.take_add_one, h]; simp

theorem uoff_succ (L : Layout α) (k : Nat) (b : Blk α) (h : L[k]? = some b) :
    uoff L (k+1) = uoff L k + b.data.length := by
  unfold uoff
  rw [List.take_add_one, h]; simp

theorem flat_drop_uoff (L : Layout α) (k : Nat) :
    (flat L).drop (uoff L k) = ((L.drop k).map (·.data)).flatten := by
  induction L generalizing k with
  | nil => simp [flat, uoff]
  | cons b L ih =>
    cases k with
    | zero => simp [flat, uoff]
    | succ k =>
      have : uoff (b :: L) (k+1) = b.data.length + uoff L k := by simp [uoff]
      rw [this]
      simp only [flat, List.map_cons, List.flatten_cons, List.drop_succ_cons]
      rw [← List.drop_drop, List.drop_left]
      exact ih k

/-- what remains of the flat stream at block `k`, cursor `cur`. -/
theorem flat_drop_at (L : Layout α) (k : Nat) (b : Blk α) (cur : Nat) (hb : L[k]? = some b)
    (h : cur ≤ b.data.length) :
    (flat L).drop (uoff L k + cur) = b.data.drop cur ++ ((L.drop (k+1)).map (·.data)).flatten := by
  rw [← List.drop_drop, flat_drop_uoff]
  have : L.drop k = b :: L.drop (k+1) := by
    have hk := (List.getElem?_eq_some_iff.mp hb)
    rw [List.drop_eq_getElem_cons hk.1, hk.2]
  rw [this]; simp only [List.map_cons, List.flatten_cons]
  rw [List.drop_append_of_le_length h]

end Noodles.Bgzf

namespace Noodles.Bgzf
variable {α : Type}

theorem flat_length (L : Layout α) : (flat L).length = uoff L L.length := by
  induction L with
  | nil => simp [flat, uoff]
  | cons b L ih => simp [flat, uoff] at *; omega

theorem uoff_of_ge (L : Layout α) (k : Nat) (h : L.length ≤ k) : uoff L k = uoff L L.length := by
  unfold uoff; rw [List.take_of_length_le h, List.take_length]

/-- Generalised invariant: the state *names* flat offset `o` and has consumed frames `[0, next)`. -/
structure Good (L : Layout α) (s : R α) (o : Nat) : Prop where
  pos : s.position = coff L s.next
  exhausted_or : s.cur ≤ s.data.length
  off : o = uoff L s.next - (s.data.length - s.cur)
  le : s.data.length - s.cur ≤ uoff L s.next
  rest : (flat L).drop o = s.data.drop s.cur ++ ((L.drop s.next).map (·.data)).flatten

theorem good_init (L : Layout α) : Good L (R.init : R α) 0 := by
  refine ⟨by simp [R.init, coff], by simp [R.init], by simp [R.init, uoff], by simp [R.init], ?_⟩
  simp [R.init, flat]

theorem readBlock_good (L : Layout α) (s : R α) (o : Nat) (hg : Good L s o)
    (hex : s.cur = s.data.length) :
    Good L (readBlock L s) o ∧
      ((readBlock L s).cur < (readBlock L s).data.length ∨ o = (flat L).length) := by
  fun_induction readBlock L s with
  | case1 s hnone =>
    refine ⟨hg, Or.inr ?_⟩
    have hlen : L.length ≤ s.next := by
      rcases Nat.lt_or_ge s.next L.length with h | h
      · have := List.getElem?_eq_getElem h; rw [hnone] at this; cases this
      · exact h
    rw [hg.off, hex, Nat.sub_self, Nat.sub_zero, flat_length, uoff_of_ge L _ hlen]
  | case2 s b hb s' hpos =>
    have hcoff := coff_succ L s.next b hb
    have huoff := uoff_succ L s.next b hb
    have hdrop : L.drop s.next = b :: L.drop (s.next + 1) := by
      have hk := (List.getElem?_eq_some_iff.mp hb)
      rw [List.drop_eq_getElem_cons hk.1, hk.2]
    refine ⟨⟨?_, ?_, ?_, ?_, ?_⟩, Or.inl ?_⟩
    · simp only [s']; rw [hcoff, hg.pos]
    · simp [s']
    · simp only [s']; rw [hg.off, hex, huoff]; omega
    · simp only [s']; rw [huoff]; omega
    · simp only [s']; rw [hg.rest, hex, hdrop]; simp
    · simpa [s'] using hpos
  | case3 s b hb s' hnpos ih =>
    have hcoff := coff_succ L s.next b hb
    have huoff := uoff_succ L s.next b hb
    have hdrop : L.drop s.next = b :: L.drop (s.next + 1) := by
      have hk := (List.getElem?_eq_some_iff.mp hb)
      rw [List.drop_eq_getElem_cons hk.1, hk.2]
    have hlen0 : b.data.length = 0 := by omega
    have hnil : b.data = [] := List.eq_nil_of_length_eq_zero hlen0
    apply ih
    · refine ⟨?_, ?_, ?_, ?_, ?_⟩
      · simp only [s']; rw [hcoff, hg.pos]
      · simp [s']
      · simp only [s']; rw [hg.off, hex, huoff]; omega
      · simp only [s']; rw [huoff]; omega
      · simp only [s']; rw [hg.rest, hex, hdrop]; simp [hnil]
    · simp [s', hnil]

/-- `fill_buf` returns a prefix of what remains of the flat stream, empty only at the very end,
and does not move the flat cursor. -/
theorem fillBuf_refines (L : Layout α) (s : R α) (o : Nat) (hg : Good L s o) :
    Good L (fillBuf L s).1 o ∧ (fillBuf L s).2 <+: (flat L).drop o ∧
      ((fillBuf L s).2 = [] → o = (flat L).length) := by
  unfold fillBuf
  split
  · rename_i h
    refine ⟨hg, ?_, ?_⟩
    · rw [hg.rest]; exact List.prefix_append _ _
    · intro hnil; simp at hnil; omega
  · rename_i h
    have hex : s.cur = s.data.length := by have := hg.exhausted_or; omega
    obtain ⟨hg', hor⟩ := readBlock_good L s o hg hex
    refine ⟨hg', ?_, ?_⟩
    · simp only; rw [hg'.rest]; exact List.prefix_append _ _
    · intro hnil; simp only at hnil
      rcases hor with h1 | h2
      · simp at hnil; omega
      · exact h2

theorem consume_good (L : Layout α) (s : R α) (o n : Nat) (hg : Good L s o) :
    Good L (consume n s) (o + min n (s.data.length - s.cur)) := by
  have hc := hg.exhausted_or
  refine ⟨hg.pos, by simp [consume]; omega, ?_, ?_, ?_⟩
  · simp only [consume]; rw [hg.off]; have := hg.le; omega
  · simp only [consume]; have := hg.le; omega
  · simp only [consume]
    rw [← List.drop_drop, hg.rest]
    have hm : min n (s.data.length - s.cur) ≤ (s.data.drop s.cur).length := by simp; omega
    rw [List.drop_append_of_le_length hm, List.drop_drop]
    congr 2; omega

#print axioms fillBuf_refines
#print axioms consume_good
end Noodles.Bgzf
