import Noodles.Basic.Wire
import Noodles.Bgzf.Driver
import Noodles.Bgzf.SeekCut
/-! Line-protocol handler for `c13 seekcut …`: the BGZF reader over raw (cut or garbage) bytes.

    c13 seekcut <k> <warm> <c> <up> <rbuf> <filehex> <inflate table>

The reader is built over the first `k` bytes of the file; one `read` with a buffer of `warm` bytes
(result ignored), `seek((c, up))`, then `read` with a buffer of `rbuf` bytes until `Ok(0)` or an
error. Answer: `seekerr:<class> vp=<c>,<u> ip=<cursor>` or
`<hex delivered> <end> vp=<c>,<u> vpe=<c>,<u> ip=<cursor>` (`vp` = `virtual_position()` right after
the seek, `vpe` after the last read, `ip` = position of the inner cursor at the end).
`c13 seekcutf …`: the same with the data read through `fill_buf` + `consume(min(rbuf, len))`.
`c13 seekcutx …`: the same with `read_exact` into an `rbuf`-byte buffer until it fails. -/
namespace Noodles.Bgzf.SC
open Noodles.Wire hiding Bytes
open Noodles.Bgzf

def stopStr : Stop → String
  | .more => "runaway"
  | .eof => "eof"
  | .err e => errStr e

def vpStr (s : R) : String := s!"{(tell s).1},{(tell s).2}"

def handle? : List String → Option String
  | [word, k, warm, c, up, rbuf, file, table] =>
    if word ≠ "seekcut" ∧ word ≠ "seekcutf" ∧ word ≠ "seekcutx" then none else
    some <|
    match k.toNat?, warm.toNat?, c.toNat?, up.toNat?, rbuf.toNat?, unhex file, parseInfTable table with
    | some k, some warm, some c, some up, some rbuf, some f, some it =>
      let D := tableDeflater [] it
      let res := if word = "seekcutf" then seekThenFill D (f.take k) warm c up rbuf 700000
        else if word = "seekcutx" then seekThenExact D (f.take k) warm c up rbuf 700000
        else seekThenRead D (f.take k) warm c up rbuf 700000
      match res with
      | .error (e, s) => s!"seekerr:{errStr e} vp={vpStr s} ip={s.ipos}"
      | .ok (out, stop, s1, s2) => s!"{hex out} {stopStr stop} vp={vpStr s1} vpe={vpStr s2} ip={s2.ipos}"
    | _, _, _, _, _, _, _ => "bad-op"
  | _ => none

end Noodles.Bgzf.SC
