import Noodles.Bgzf.MtTruncProof
/-! Proofs about the caller-visible transcript model `MtTrunc.Sim`: reading everything from a fresh
reader, and after a seek, delivers what the single-threaded reader model `Trunc.readStream` delivers. -/
namespace Noodles.MtTrunc
open Noodles.Codec hiding Err Dec
open Noodles.Bgzf
open Noodles.Trunc (readStream)

/-! ## the transcript model reads what the single-threaded reader reads -/

def flat (fs : List Ticket) : Bytes := (stOf fs).1.flatten

theorem flat_nil : flat [] = [] := rfl
theorem flat_err (e : Err) (r : List Ticket) : flat (.error e :: r) = [] := rfl
theorem flat_ok (c : Nat) (d : Bytes) (r : List Ticket) : flat (.ok (c, d) :: r) = d ++ flat r := by
  simp [flat, stOf]

/-- one `read_block` of a running reader that has lost no buffer: end of stream, an error, or the
next non-empty block -/
theorem recvLoop_spec (nbuf : Nat) (hn : 0 < nbuf) : ∀ (fuel : Nat) (m : Sim), m.lost = 0 →
    m.fs.length < fuel →
    ((Sim.recvLoop nbuf fuel m).2 = .ok ∧ (Sim.recvLoop nbuf fuel m).1.cur = [] ∧ flat m.fs = [] ∧
        (stOf m.fs).2 = .eof ∧ (Sim.recvLoop nbuf fuel m).1.lost = 0 ∧
        (Sim.recvLoop nbuf fuel m).1.running = m.running ∧ (Sim.recvLoop nbuf fuel m).1.fs = []) ∨
    (∃ e, (Sim.recvLoop nbuf fuel m).2 = .err e ∧ flat m.fs = [] ∧ (stOf m.fs).2 = .err e) ∨
    ((Sim.recvLoop nbuf fuel m).2 = .ok ∧ (Sim.recvLoop nbuf fuel m).1.cur ≠ [] ∧
        (Sim.recvLoop nbuf fuel m).1.lost = 0 ∧
        (Sim.recvLoop nbuf fuel m).1.running = m.running ∧
        flat m.fs = (Sim.recvLoop nbuf fuel m).1.cur ++ flat (Sim.recvLoop nbuf fuel m).1.fs ∧
        (stOf m.fs).2 = (stOf (Sim.recvLoop nbuf fuel m).1.fs).2 ∧
        (Sim.recvLoop nbuf fuel m).1.fs.length < m.fs.length) := by
  intro fuel
  induction fuel with
  | zero => intro m _ h; omega
  | succ fuel ih =>
    intro m hl hf
    have hnl : ¬ (m.lost ≥ nbuf) := by omega
    unfold Sim.recvLoop
    cases hfs : m.fs with
    | nil =>
      left
      have hcond : ¬ (m.termErr = false ∧ nbuf = 0) := by omega
      simp [flat_nil, stOf, hl, hcond]
    | cons x r =>
      cases x with
      | error e =>
        right; left
        exact ⟨e, by simp [hnl, flat_err, stOf]⟩
      | ok p =>
        obtain ⟨c, d⟩ := p
        simp only [hnl, if_false]
        by_cases hd : d.length > 0
        · right; right
          simp only [hd, if_true]
          refine ⟨trivial, ?_, hl, trivial, by simp [flat_ok], by simp [stOf], by simp⟩
          intro h0; simp [h0] at hd
        · have hd0 : d = [] := by
            cases d with
            | nil => rfl
            | cons _ _ => simp at hd
          subst hd0
          simp only [hd, if_false]
          have hf' : r.length < fuel := by rw [hfs] at hf; simp at hf; omega
          rcases ih { m with fs := r, okd := m.okd + 1, cur := [] } hl hf' with h | h | h
          · left
            obtain ⟨h1, h2, h3, h4, h5, h6, h7⟩ := h
            exact ⟨h1, h2, by simpa [flat_ok] using h3, by simpa [stOf] using h4, h5, h6, h7⟩
          · right; left
            obtain ⟨e, h1, h3, h4⟩ := h
            exact ⟨e, h1, by simpa [flat_ok] using h3, by simpa [stOf] using h4⟩
          · right; right
            obtain ⟨h1, h2, h3, h4, h5, h6, h7⟩ := h
            refine ⟨h1, h2, h3, h4, by simpa [flat_ok] using h5, by simpa [stOf] using h6, ?_⟩
            simp only [List.length_cons] at h7 ⊢
            omega


theorem resume_running (D : Deflater) (m : Sim) (h : m.running = true) : m.resume D = m := by
  simp [Sim.resume, h]

/-- reading on from a running reader that has lost no buffer, with room for everything: all the
data up to the first failing ticket, then that error or `Ok(0)` -/
theorem readN_spec (D : Deflater) (nbuf : Nat) (hn : 0 < nbuf) : ∀ (fuel : Nat) (m : Sim) (want : Nat)
    (acc : Bytes), m.running = true → m.lost = 0 → m.cur.length + (flat m.fs).length < want →
    2 * m.fs.length + (if m.cur.length > 0 then 1 else 0) + 1 ≤ fuel →
    (Sim.readN D nbuf fuel m want acc).2 = .data (acc ++ m.cur ++ flat m.fs) (some (stOf m.fs).2) := by
  intro fuel
  induction fuel with
  | zero => intro m want acc _ _ _ h; omega
  | succ fuel ih =>
    intro m want acc hr hl hw hf
    unfold Sim.readN
    have hw0 : ¬ want = 0 := by omega
    simp only [hw0, if_false]
    by_cases hc : m.cur.length > 0
    · simp only [hc, if_true]
      have hk : min want m.cur.length = m.cur.length := by omega
      rw [hk]
      have := ih { m with cur := m.cur.drop m.cur.length } (want - m.cur.length) (acc ++ m.cur.take m.cur.length)
        hr hl (by simp; omega) (by simp [hc] at hf ⊢; omega)
      rw [this]
      simp
    · simp only [hc, if_false]
      have hc0 : m.cur = [] := by
        cases hcc : m.cur with
        | nil => rfl
        | cons _ _ => simp [hcc] at hc
      simp only [Sim.readBlock, resume_running D m hr]
      have spec := recvLoop_spec nbuf hn (m.fs.length + 1) m hl (by omega)
      rcases hrb : Sim.recvLoop nbuf (m.fs.length + 1) m with ⟨m', r⟩
      rw [hrb] at spec
      simp only at spec
      rcases spec with ⟨h1, h2, h3, h4, _⟩ | ⟨e, h1, h3, h4⟩ | ⟨h1, h2, h3, h4, h5, h6, h7⟩
      · subst h1
        simp [h2, h3, h4, hc0]
      · subst h1
        simp [h3, h4, hc0]
      · subst h1
        have hne : ¬ m'.cur.length = 0 := by
          intro h0; exact h2 (List.eq_nil_of_length_eq_zero h0)
        simp only [hne, if_false]
        have hpos : m'.cur.length > 0 := by omega
        have := ih m' want acc (by rw [h4, hr]) h3
          (by rw [h5, List.length_append] at hw; rw [hc0] at hw; simpa using hw)
          (by simp [hc, hpos] at hf ⊢; omega)
        rw [this, h5, h6, hc0]
        simp

/-- each ticket is made from at least 18 bytes of the source -/
theorem scanF_length (D : Deflater) : ∀ (fuel : Nat) (s : Bytes), s.length < fuel →
    18 * (scanF D fuel s).1.length ≤ s.length := by
  intro fuel
  induction fuel with
  | zero => intro s h; omega
  | succ fuel ih =>
    intro s h
    unfold scanF
    by_cases h18 : s.length < HEADER_SIZE
    · simp [readFrameInto, h18]
    · have hlen : 18 ≤ s.length := by simp [HEADER_SIZE] at h18; omega
      obtain ⟨bsize, hb⟩ := unle_ok_of_length 2 (s.drop 16) (by simp; omega)
      by_cases hmin : bsize + 1 < MIN_FRAME
      · simp [readFrameInto, h18, hb, hmin]; omega
      · by_cases hshort : s.length < bsize + 1
        · simp [readFrameInto, h18, hb, hmin, hshort]; omega
        · have h26 : 26 ≤ bsize + 1 := by simp [MIN_FRAME_eq] at hmin; omega
          simp only [readFrameInto, h18, hb, hmin, hshort, if_false, List.length_cons]
          have := ih (s.drop (bsize + 1)) (by simp; omega)
          simp only [List.length_drop] at this
          omega

/-- The transcript model against the single-threaded reader: a fresh reader (any positive buffer
count) asked for more bytes than there are delivers exactly the single-threaded reader's bytes and
ends as it ends — `Ok(0)` or the same error — and `finish()` is `Ok`. -/
theorem sim_read_all (D : Deflater) (file : Bytes) (nbuf want : Nat) (hn : 0 < nbuf)
    (hw : (readStream D file).1.flatten.length < want) :
    Sim.run D nbuf (Sim.init file) [.read want] =
      ([.data (readStream D file).1.flatten (some (readStream D file).2)], some none) := by
  have hlen := scanF_length D (file.length + 1) file (by omega)
  rw [readStream_eq_stOf_scan] at hw ⊢
  -- the first `read` resumes the reader
  have key : (Sim.readN D nbuf (want + file.length + 2) (Sim.init file) want []).2 =
      .data (flat (scan D file).1) (some (stOf (scan D file).1).2) := by
    unfold Sim.readN
    have hw0 : ¬ want = 0 := by omega
    simp only [hw0, if_false, Sim.init, List.length_nil, Nat.lt_irrefl, gt_iff_lt, Sim.readBlock]
    have hres : Sim.resume D ⟨file, false, file, [], false, 0, 0, []⟩ =
        ⟨file, true, file, (scan D file).1, (scan D file).2, 0, 0, []⟩ := by simp [Sim.resume]
    rw [hres]
    have spec := recvLoop_spec nbuf hn ((scan D file).1.length + 1)
      ⟨file, true, file, (scan D file).1, (scan D file).2, 0, 0, []⟩ rfl (by simp)
    rcases hrb : Sim.recvLoop nbuf ((scan D file).1.length + 1)
      ⟨file, true, file, (scan D file).1, (scan D file).2, 0, 0, []⟩ with ⟨m', r⟩
    rw [hrb] at spec
    simp only at spec
    rcases spec with ⟨h1, h2, h3, h4, _⟩ | ⟨e, h1, h3, h4⟩ | ⟨h1, h2, h3, h4, h5, h6, h7⟩
    · subst h1; simp [h2, h3, h4]
    · subst h1; simp [h3, h4]
    · subst h1
      have hne : ¬ m'.cur.length = 0 := by
        intro h0; exact h2 (List.eq_nil_of_length_eq_zero h0)
      simp only [hne, if_false]
      have hpos : m'.cur.length > 0 := by omega
      have := readN_spec D nbuf hn (want + file.length + 1) m' want [] h4 h3
        (by simp only [flat] at h5 ⊢; rw [← List.length_append, ← h5]; exact hw)
        (by simp only [hpos, if_true]; unfold scan at h7; omega)
      rw [this, h5, h6]; simp
  simp only [Sim.run, Sim.finish]
  rcases hr : Sim.readN D nbuf (want + (Sim.init file).file.length + 2) (Sim.init file) want [] with ⟨m', r⟩
  have hfile : (Sim.init file).file = file := rfl
  rw [hfile] at hr
  rw [hr] at key
  simp only at key
  subst key
  rfl


/-- After a successful `seek_to_virtual_position(c, u)` — whatever happened before: errors
consumed, buffers lost, read-ahead into damage — reading everything delivers what the
single-threaded reader model delivers from compressed offset `c`, minus the first `u` bytes, and
ends as it ends. -/
theorem sim_seek_read_all (D : Deflater) (nbuf want c u fuel : Nat) (m : Sim) (hn : 0 < nbuf)
    (hok : (Sim.seek D nbuf m c u).2 = .unit)
    (hw : (readStream D (m.file.drop c)).1.flatten.length < want)
    (hfuel : m.file.length + 2 ≤ fuel) :
    (Sim.readN D nbuf fuel (Sim.seek D nbuf m c u).1 want []).2 =
      .data ((readStream D (m.file.drop c)).1.flatten.drop u) (some (readStream D (m.file.drop c)).2) := by
  have hlen := scanF_length D ((m.file.drop c).length + 1) (m.file.drop c) (by omega)
  have hdl : (m.file.drop c).length ≤ m.file.length := by simp
  rw [readStream_eq_stOf_scan] at hw ⊢
  unfold Sim.seek at hok ⊢
  simp only [Sim.readBlock] at hok ⊢
  have hres : Sim.resume D { m with running := false, src := m.file.drop c } =
      { m with running := true, src := m.file.drop c, fs := (scan D (m.file.drop c)).1,
               termErr := (scan D (m.file.drop c)).2, okd := 0, lost := 0 } := by
    simp [Sim.resume]
  rw [hres] at hok ⊢
  have spec := recvLoop_spec nbuf hn ((scan D (m.file.drop c)).1.length + 1)
    { m with running := true, src := m.file.drop c, fs := (scan D (m.file.drop c)).1,
             termErr := (scan D (m.file.drop c)).2, okd := 0, lost := 0 } rfl (by simp)
  rcases hrb : Sim.recvLoop nbuf ((scan D (m.file.drop c)).1.length + 1)
    { m with running := true, src := m.file.drop c, fs := (scan D (m.file.drop c)).1,
             termErr := (scan D (m.file.drop c)).2, okd := 0, lost := 0 } with ⟨m', r⟩
  rw [hrb] at spec hok
  simp only at spec hok ⊢
  rcases spec with ⟨h1, h2, h3, h4, h5, h6, h7⟩ | ⟨e, h1, h3, h4⟩ | ⟨h1, h2, h3, h4, h5, h6, h7⟩
  · subst h1
    simp only [h2, List.length_nil] at hok ⊢
    by_cases hu : u > 0
    · simp [hu] at hok
    · have hu0 : u = 0 := by omega
      subst hu0
      simp only [Nat.lt_irrefl, gt_iff_lt, if_false, List.drop_zero]
      have := readN_spec D nbuf hn fuel { m' with cur := [] } want [] h6 h5
        (by simp [h7, flat_nil]; omega) (by simp [h7]; omega)
      rw [this]
      simp only [flat] at h3
      simp [h7, flat_nil, h3, h4, stOf]
  · subst h1; simp at hok
  · subst h1
    by_cases hu : u > m'.cur.length
    · simp [hu] at hok
    · simp only [hu, if_false]
      have hle : u ≤ m'.cur.length := by omega
      have hfl : (flat (scan D (m.file.drop c)).1).length = m'.cur.length + (flat m'.fs).length := by
        rw [h5, List.length_append]
      have := readN_spec D nbuf hn fuel { m' with cur := m'.cur.drop u } want [] h4 h3
        (by simp only [flat] at hfl hw ⊢; simp only [List.length_drop]; omega)
        (by simp only [List.length_drop]; unfold scan at h7; split <;> omega)
      rw [this]
      simp only [flat] at h5
      simp only [h5, h6, List.nil_append, List.drop_append_of_le_length hle, flat]

end Noodles.MtTrunc
