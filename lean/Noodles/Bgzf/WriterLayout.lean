import Noodles.Bgzf.Frame
import Noodles.Bgzf.ReaderModel
/-!
# The block layout of a file produced by the BGZF writer (link between C01's writer model and
C02's reader model)
-/
namespace Noodles.Bgzf
open Noodles.Codec

/-- parse a byte string into its block layout with `readFrame` (compressed size, inflated data) -/
def layoutOfSink (D : Deflater) : Nat → Bytes → Option (RM.Layout UInt8)
  | 0, _ => none
  | fuel+1, s =>
    match readFrame D s with
    | .error _ => none
    | .ok none => if s.isEmpty then some [] else none
    | .ok (some (bs, data, rest)) =>
      match layoutOfSink D fuel rest with
      | none => none
      | some L => some (⟨bs, data⟩ :: L)

/-- `Writer::virtual_position` as (compressed, uncompressed) -/
def Writer.vpos (w : Writer) : Nat × Nat := (w.position, w.staging.length)

end Noodles.Bgzf
