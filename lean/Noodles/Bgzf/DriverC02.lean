import Noodles.Basic.Wire
import Noodles.Basic.Crc32
import Noodles.Bgzf.ReaderModel
/-! Line-protocol handler for the BGZF reader state machine (`c02 …`). -/
namespace Noodles.Bgzf.RM
open Noodles.Wire

def fmtBytes (b : List UInt8) : String :=
  if b.length ≤ 32 then hex b else s!"{b.length}:{Noodles.Crc32.crc32 b}"

def errStr : Err → String
  | .eof => "err:eof"
  | .invalidInput => "err:invalid-input"
  | .invalidData => "err:invalid-data"
  | .badSeek => "err:bad-seek"

/-- `csize:datahex,…` -/
def parseLayout (s : String) : Option (Layout UInt8) :=
  if s = "-" then some [] else
  (s.splitOn ",").mapM fun e =>
    match e.splitOn ":" with
    | [c, d] => do pure ⟨← c.toNat?, ← unhex d⟩
    | _ => none

def parseOp (e : String) : Option Op :=
  match e.toList with
  | 'r' :: r => (String.ofList r).toNat?.map Op.read
  | 'x' :: r => (String.ofList r).toNat?.map Op.readExact
  | ['b'] => some Op.fillBuf
  | 'c' :: r => (String.ofList r).toNat?.map Op.consume
  | 's' :: r => match (String.ofList r).splitOn "/" with
    | [c, u] => do pure (Op.seek (← c.toNat?) (← u.toNat?))
    | _ => none
  | 'u' :: r => (String.ofList r).toNat?.map Op.seekU
  | ['t'] => some Op.tell
  | _ => none

def fmtOut : Out UInt8 → String
  | .bytes b => fmtBytes b
  | .unit => "ok"
  | .vpos c u => s!"v{c}/{u}"
  | .err e => errStr e

def runAll (L : Layout UInt8) : R UInt8 → List Op → List String → List String
  | _, [], acc => acc.reverse
  | s, op :: ops, acc =>
    let (s', out) := step L s op
    let t := tell s'
    runAll L s' ops (s!"{fmtOut out}@{t.1}/{t.2}#{s'.position}" :: acc)

def handleC02 : List String → String
  | ["ops", layout, ops] =>
    match parseLayout layout, (if ops = "-" then some [] else (ops.splitOn ",").mapM parseOp) with
    | some L, some ops => let r := runAll L R.init ops []; if r.isEmpty then "-" else " ".intercalate r
    | _, _ => "bad-op"
  | ["gzi", layout, pos] =>
    match parseLayout layout, pos.toNat? with
    | some L, some pos => match gziQuery (gziOf L) pos with
      | .ok (c, u) => s!"v{c}/{u}"
      | .error e => errStr e
    | _, _ => "bad-op"
  | _ => "bad-op"

end Noodles.Bgzf.RM
