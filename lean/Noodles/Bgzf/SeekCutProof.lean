import Noodles.Bgzf.SeekCut
import Noodles.Bgzf.FrameProof
import Noodles.Trunc.Proof
/-!
# Helper lemmas for `Props/C13Seek.lean`: the raw-bytes BGZF reader on a cut file

The file is `pre ++ (enc D B ++ t)`: whole members `B` after some prefix, then a tail `t` that is
either shorter than a member header or a member cut after its header (`Tail`).
-/
namespace Noodles.Bgzf.SC
open Noodles.Codec hiding Err Dec
open Noodles.Bgzf

/-! ## one frame -/

theorem readFrameInto_short (f : Bytes) (ip : Nat) (h : (f.drop ip).length < 18) :
    readFrameInto f ip = (f.length, .ok none) := by
  unfold readFrameInto
  rw [if_pos (by rw [HEADER_SIZE_eq]; exact h)]

theorem readFrameInto_frame (pre cdata rest : Bytes) (crc isize : Nat) (hc : cdata.length ≤ 65510) :
    readFrameInto (pre ++ (mkFrame cdata crc isize ++ rest)) pre.length =
      (pre.length + (26 + cdata.length), .ok (some (mkFrame cdata crc isize))) := by
  have hlen : (mkFrame cdata crc isize ++ rest).length = 26 + cdata.length + rest.length := by
    rw [List.length_append, mkFrame_length]
  unfold readFrameInto
  simp only [List.drop_left' rfl, hlen, HEADER_SIZE_eq, MIN_FRAME_eq]
  rw [if_neg (by omega)]
  have hd : (mkFrame cdata crc isize ++ rest).drop 16 =
      le 2 (25 + cdata.length) ++ (cdata ++ (le 4 crc ++ (le 4 isize ++ rest))) := by
    rw [mkFrame_assoc, List.drop_left' headerPrefix_length]
  rw [hd, unle_le 2 _ (by omega)]
  simp only
  rw [if_neg (by omega), if_neg (by omega)]
  have ht : (mkFrame cdata crc isize ++ rest).take (25 + cdata.length + 1) = mkFrame cdata crc isize := by
    rw [List.take_left' (by rw [mkFrame_length]; omega)]
  rw [ht]
  congr 1
  omega

theorem readFrameInto_cut (pre cdata : Bytes) (crc isize j : Nat) (hc : cdata.length ≤ 65510)
    (h18 : 18 ≤ j) (hj : j < 26 + cdata.length) :
    readFrameInto (pre ++ (mkFrame cdata crc isize).take j) pre.length =
      ((pre ++ (mkFrame cdata crc isize).take j).length, .error .eof) := by
  have hlen : ((mkFrame cdata crc isize).take j).length = j := by
    rw [List.length_take, mkFrame_length]; omega
  unfold readFrameInto
  simp only [List.drop_left' rfl, hlen, HEADER_SIZE_eq, MIN_FRAME_eq]
  rw [if_neg (by omega)]
  have hm := mkFrame_assoc cdata crc isize []
  rw [List.append_nil] at hm
  have hd : ((mkFrame cdata crc isize).take j).drop 16 =
      le 2 (25 + cdata.length) ++ (cdata ++ (le 4 crc ++ (le 4 isize ++ []))).take (j - 18) := by
    rw [hm, List.take_append, List.drop_append, headerPrefix_length]
    have h1 : (headerPrefix.take j).length = 16 := by
      rw [List.length_take, headerPrefix_length]; omega
    rw [h1, List.drop_eq_nil_of_le (by omega)]
    simp only [Nat.sub_self, List.drop_zero, List.nil_append]
    rw [List.take_append, le_length, List.take_of_length_le (by rw [le_length]; omega)]
    congr 2 <;> omega
  rw [hd, unle_le 2 _ (by omega)]
  simp only
  rw [if_neg (by omega), if_pos (by omega)]

theorem validHeader_mkFrame (cdata : Bytes) (crc isize : Nat) :
    validHeader (mkFrame cdata crc isize) = true := by
  have hm := mkFrame_assoc cdata crc isize []
  rw [List.append_nil] at hm
  unfold validHeader
  rw [hm, List.take_left' headerPrefix_length,
    List.take_append_of_le_length (by rw [headerPrefix_length]; omega)]
  simp

theorem parseBlock_frame (D : Deflater) (direct : Bool) (cdata data : Bytes) (crc isize : Nat)
    (b : Blk) (hcrc : crc < 2^32) (hi : isize ≤ 65536)
    (hinf : D.inflate cdata isize = some data) (hcrcEq : D.crc data = crc) :
    parseBlock D direct (mkFrame cdata crc isize) b =
      (⟨b.bpos, 26 + cdata.length, data, if direct then isize else 0⟩, none) := by
  have hm := mkFrame_assoc cdata crc isize []
  rw [List.append_nil] at hm
  have h18 : (headerPrefix ++ le 2 (25 + cdata.length)).length = 18 := by
    rw [List.length_append, headerPrefix_length, le_length]
  have hm1 : mkFrame cdata crc isize =
      (headerPrefix ++ le 2 (25 + cdata.length)) ++ (cdata ++ (le 4 crc ++ (le 4 isize ++ []))) := by
    rw [hm, List.append_assoc]
  have hcd : ((mkFrame cdata crc isize).drop 18).take cdata.length = cdata := by
    rw [hm1, List.drop_left' h18, List.take_left' rfl]
  have h8 : (mkFrame cdata crc isize).drop (18 + cdata.length) = le 4 crc ++ (le 4 isize ++ []) := by
    have : mkFrame cdata crc isize =
        ((headerPrefix ++ le 2 (25 + cdata.length)) ++ cdata) ++ (le 4 crc ++ (le 4 isize ++ [])) := by
      rw [hm1]; simp only [List.append_assoc]
    rw [this, List.drop_left' (by rw [List.length_append, h18])]
  have h4 : (mkFrame cdata crc isize).drop (22 + cdata.length) = le 4 isize ++ [] := by
    have : mkFrame cdata crc isize =
        (((headerPrefix ++ le 2 (25 + cdata.length)) ++ cdata) ++ le 4 crc) ++ (le 4 isize ++ []) := by
      rw [hm1]; simp only [List.append_assoc]
    rw [this, List.drop_left' (by rw [List.length_append, List.length_append, h18, le_length]; omega)]
  unfold parseBlock
  simp only [mkFrame_length, MIN_FRAME_eq, HEADER_SIZE_eq, MAX_ISIZE_eq, validHeader_mkFrame]
  rw [if_neg (by omega)]
  simp only [Bool.not_true, Bool.false_eq_true, if_false]
  have e1 : 26 + cdata.length - 26 = cdata.length := by omega
  have e2 : 26 + cdata.length - 8 = 18 + cdata.length := by omega
  have e3 : 26 + cdata.length - 4 = 22 + cdata.length := by omega
  rw [e1, e2, e3, hcd, h8, h4, unle_le 4 _ (by omega), unle_le 4 _ (by omega)]
  simp only
  rw [if_neg (by omega), hinf]
  simp only [hcrcEq, if_true]

/-! ## the tail of a cut file -/

/-- what is left of the file after its whole members: fewer than 18 bytes (anything), or a member
cut after its 18-byte header -/
def Tail (t : Bytes) : Prop :=
  t.length < 18 ∨ ∃ cdata crc isize j, cdata.length ≤ 65510 ∧ 18 ≤ j ∧ j < 26 + cdata.length ∧
    t = (mkFrame cdata crc isize).take j

theorem readFrameInto_tail (t : Bytes) (ht : Tail t) (pre : Bytes) :
    readFrameInto (pre ++ t) pre.length =
      ((pre ++ t).length, if t.length < 18 then .ok none else .error .eof) := by
  rcases ht with h | ⟨cdata, crc, isize, j, hc, h18, hj, rfl⟩
  · rw [if_pos h, readFrameInto_short _ _ (by rw [List.drop_left' rfl]; exact h)]
  · have hlen : ((mkFrame cdata crc isize).take j).length = j := by
      rw [List.length_take, mkFrame_length]; omega
    rw [if_neg (by rw [hlen]; omega), readFrameInto_cut pre cdata crc isize j hc h18 hj]

/-! ## `read_nonempty_block_with` over whole members followed by a tail -/

/-- what `readBlock` does on `… ++ enc D B ++ t` from the start of `B` (closed form) -/
def expect (D : Deflater) (direct : Bool) (t : Bytes) (flen : Nat) :
    List (Bytes × Bytes) → Nat → Nat → Blk → R × Option Err
  | [], _, pos, b =>
    if t.length < 18 then (⟨flen, pos, ⟨pos, 0, [], 0⟩⟩, none) else (⟨flen, pos, b⟩, some .eof)
  | p :: B, ip, pos, _ =>
    let n := 26 + p.1.length
    let b' : Blk := ⟨pos, n, p.2, if direct then p.2.length else 0⟩
    if p.2.length > 0 then (⟨ip + n, pos + n, b'⟩, none)
    else expect D direct t flen B (ip + n) (pos + n) b'

theorem readBlock_live (D : Deflater) (hD : D.Lawful) (direct : Bool) (t : Bytes) (ht : Tail t) :
    ∀ (B : List (Bytes × Bytes)) (_ : ∀ p ∈ B, Good D p) (pre : Bytes) (s : R)
      (_ : s.ipos = pre.length) (fuel : Nat) (_ : B.length < fuel),
      readBlock D direct (pre ++ (enc D B ++ t)) fuel s =
        expect D direct t (pre ++ (enc D B ++ t)).length B s.ipos s.position s.blk := by
  intro B
  induction B with
  | nil =>
    intro _ pre s hs fuel hfuel
    obtain ⟨fuel, rfl⟩ : ∃ g, fuel = g + 1 := ⟨fuel - 1, by simp at hfuel; omega⟩
    simp only [enc_nil, List.nil_append]
    unfold readBlock expect
    rw [hs, readFrameInto_tail t ht pre]
    by_cases h : t.length < 18
    · simp only [if_pos h]
    · simp only [if_neg h]
  | cons p B ih =>
    intro hB pre s hs fuel hfuel
    obtain ⟨fuel, rfl⟩ : ∃ g, fuel = g + 1 := ⟨fuel - 1, by simp at hfuel; omega⟩
    obtain ⟨h1, h2, h3⟩ := hB p (by simp)
    have hB' : ∀ q ∈ B, Good D q := fun q hq => hB q (List.mem_cons_of_mem _ hq)
    have hf : pre ++ (enc D (p :: B) ++ t) = pre ++ (mkFrame p.1 (D.crc p.2) p.2.length ++ (enc D B ++ t)) := by
      rw [enc_cons, encFrame, List.append_assoc]
    have hf2 : pre ++ (enc D (p :: B) ++ t) = (pre ++ encFrame D p) ++ (enc D B ++ t) := by
      rw [enc_cons, List.append_assoc, List.append_assoc]
    unfold readBlock expect
    rw [hs]
    conv => lhs; rw [hf, readFrameInto_frame pre p.1 _ _ _ h1]
    simp only
    rw [parseBlock_frame D direct p.1 p.2 _ _ s.blk (hD.crc_lt _) h2 h3 rfl]
    simp only
    by_cases hz : p.2.length > 0
    · simp only [if_pos hz]
    · simp only [if_neg hz]
      rw [← hf, hf2]
      have := ih hB' (pre ++ encFrame D p)
        ⟨pre.length + (26 + p.1.length), s.position + (26 + p.1.length),
          ⟨s.position, 26 + p.1.length, p.2, if direct then p.2.length else 0⟩⟩
        (by simp [encFrame, mkFrame_length]) fuel (by simp at hfuel; omega)
      rw [this]

/-! ## what the inner stream still holds -/

/-- From cursor position `ip` the file `f` holds whole members with data `rest`, then a tail `t`
(`live`); or fewer than 18 bytes (`done`, `rest = []`). `P` is a fact known whenever the source is
done (a clean end of input will be reported): the theorems instantiate it with "fewer than 18 bytes
of the cut member are present". -/
def Src (D : Deflater) (P : Prop) (t f : Bytes) (ip : Nat) (rest : Bytes) : Prop :=
  (∃ pre B, f = pre ++ (enc D B ++ t) ∧ (∀ p ∈ B, Good D p) ∧ ip = pre.length ∧ rest = datas B) ∨
  ((f.drop ip).length < 18 ∧ rest = [] ∧ P)

theorem src_end (D : Deflater) (P : Prop) (hP : P) (t f : Bytes) : Src D P t f f.length [] :=
  Or.inr ⟨by simp, rfl, hP⟩

/-- what a `read_block` call that started with `rest` ahead of it guarantees -/
def BlockPost (D : Deflater) (P : Prop) (direct : Bool) (t f rest : Bytes) (r : R × Option Err) : Prop :=
  (r.2 = none → ∃ rest', Src D P t f r.1.ipos rest' ∧ rest = r.1.blk.data ++ rest' ∧
      r.1.blk.cur = (if direct then r.1.blk.data.length else 0) ∧
      (r.1.blk.data = [] → rest = [] ∧ P) ∧ r.1.blk.data.length ≤ 65536) ∧
  (∀ e, r.2 = some e → e = .eof ∧ rest = [] ∧ 18 ≤ t.length)

theorem blockPost_end (D : Deflater) (P : Prop) (hP : P) (direct : Bool) (t f : Bytes) (pos : Nat) :
    BlockPost D P direct t f [] (⟨f.length, pos, ⟨pos, 0, [], 0⟩⟩, none) := by
  refine ⟨fun _ => ⟨[], src_end D P hP t f, rfl, ?_, fun _ => ⟨rfl, hP⟩, Nat.zero_le _⟩, ?_⟩
  · cases direct <;> rfl
  · intro e he; cases he

theorem expect_spec (D : Deflater) (P : Prop) (direct : Bool) (t : Bytes) (hP : t.length < 18 → P) :
    ∀ (B : List (Bytes × Bytes)) (_ : ∀ p ∈ B, Good D p) (pre : Bytes) (pos : Nat) (b : Blk),
      BlockPost D P direct t (pre ++ (enc D B ++ t)) (datas B)
        (expect D direct t (pre ++ (enc D B ++ t)).length B pre.length pos b) := by
  intro B
  induction B with
  | nil =>
    intro _ pre pos b
    simp only [expect, enc_nil, List.nil_append, datas_nil]
    by_cases h : t.length < 18
    · simp only [if_pos h]
      exact blockPost_end D P (hP h) direct t (pre ++ t) pos
    · simp only [if_neg h]
      refine ⟨fun he => (by cases he), ?_⟩
      intro e he
      refine ⟨?_, rfl, by omega⟩
      cases he; rfl
  | cons p B ih =>
    intro hB pre pos b
    have hB' : ∀ q ∈ B, Good D q := fun q hq => hB q (List.mem_cons_of_mem _ hq)
    have hf2 : pre ++ (enc D (p :: B) ++ t) = (pre ++ encFrame D p) ++ (enc D B ++ t) := by
      rw [enc_cons, List.append_assoc, List.append_assoc]
    have hl : (pre ++ encFrame D p).length = pre.length + (26 + p.1.length) := by
      simp [encFrame, mkFrame_length]
    simp only [expect]
    by_cases hz : p.2.length > 0
    · simp only [if_pos hz]
      refine ⟨fun _ => ⟨datas B, Or.inl ⟨pre ++ encFrame D p, B, hf2, hB', hl.symm, rfl⟩,
        datas_cons p B, ?_, ?_, (hB p (by simp)).2.1⟩, ?_⟩
      · cases direct <;> rfl
      · intro h0
        have h0' : p.2 = [] := h0
        rw [h0'] at hz; simp at hz
      · intro e he; cases he
    · simp only [if_neg hz]
      have hp2 : p.2 = [] := List.eq_nil_of_length_eq_zero (by omega)
      have hd : datas (p :: B) = datas B := by rw [datas_cons, hp2, List.nil_append]
      have := ih hB' (pre ++ encFrame D p) (pos + (26 + p.1.length))
        ⟨pos, 26 + p.1.length, p.2, if direct then p.2.length else 0⟩
      rw [← hf2, hl] at this
      rw [hd]
      exact this

/-- `readBlock` from any position the source invariant describes -/
theorem readBlock_src (D : Deflater) (hD : D.Lawful) (P : Prop) (direct : Bool) (t : Bytes)
    (ht : Tail t) (hP : t.length < 18 → P)
    (f : Bytes) (s : R) (rest : Bytes) (hsrc : Src D P t f s.ipos rest) :
    BlockPost D P direct t f rest (readBlock D direct f (fuelOf f) s) := by
  rcases hsrc with ⟨pre, B, rfl, hB, hip, rfl⟩ | ⟨hshort, rfl, hPd⟩
  · have hfuel : B.length < fuelOf (pre ++ (enc D B ++ t)) := by
      have := enc_length_ge D B
      simp only [fuelOf, List.length_append]; omega
    rw [readBlock_live D hD direct t ht B hB pre s hip _ hfuel, hip]
    exact expect_spec D P direct t hP B hB pre s.position s.blk
  · have hr : readBlock D direct f (fuelOf f) s = (⟨f.length, s.position, ⟨s.position, 0, [], 0⟩⟩, none) := by
      unfold fuelOf readBlock
      rw [readFrameInto_short f s.ipos hshort]
    rw [hr]
    exact blockPost_end D P hPd direct t f s.position

/-! ## the reader invariant -/

/-- the reader still has exactly `total` to deliver: the rest of its block, then the source -/
def Inv (D : Deflater) (P : Prop) (t f : Bytes) (s : R) (total : Bytes) : Prop :=
  ∃ rest, Src D P t f s.ipos rest ∧ total = s.blk.data.drop s.blk.cur ++ rest

/-- what one `read` with a buffer of `n` bytes guarantees when `total` was still to come -/
def ReadPost (D : Deflater) (P : Prop) (t f total : Bytes) (n : Nat) (r : R × Except Err Bytes) : Prop :=
  match r.2 with
  | .ok got => got <+: total ∧ Inv D P t f r.1 (total.drop got.length) ∧
      (0 < n → got = [] → total = [] ∧ P) ∧ got.length ≤ n
  | .error e => e = .eof ∧ total = [] ∧ 18 ≤ t.length

theorem serve (D : Deflater) (P : Prop) (t f : Bytes) (s : R) (n : Nat) (rest : Bytes)
    (hsrc : Src D P t f s.ipos rest) (hnil : s.blk.data.drop s.blk.cur = [] → rest = [] ∧ P) :
    ReadPost D P t f (s.blk.data.drop s.blk.cur ++ rest) n
      (consume (min n (s.blk.data.drop s.blk.cur).length) s, .ok ((s.blk.data.drop s.blk.cur).take n)) := by
  have hgl : ((s.blk.data.drop s.blk.cur).take n).length = min n (s.blk.data.drop s.blk.cur).length :=
    List.length_take
  refine ⟨?_, ⟨rest, hsrc, ?_⟩, ?_, by rw [hgl]; exact Nat.min_le_left _ _⟩
  · exact (List.take_prefix _ _).trans (List.prefix_append _ _)
  · show _ = (consume _ s).blk.data.drop (consume _ s).blk.cur ++ rest
    rw [hgl, List.drop_append_of_le_length (Nat.min_le_right _ _)]
    congr 1
    simp only [consume, List.drop_drop, List.length_drop]
    by_cases hc : s.blk.cur ≤ s.blk.data.length
    · congr 1; omega
    · rw [List.drop_eq_nil_of_le (by omega), List.drop_eq_nil_of_le (by omega)]
  · intro hn hgot
    have h0 : min n (s.blk.data.drop s.blk.cur).length = 0 := by rw [← hgl, hgot]; rfl
    have h1 : (s.blk.data.drop s.blk.cur).length = 0 := by omega
    have h2 := List.eq_nil_of_length_eq_zero h1
    rw [h2, (hnil h2).1]; exact ⟨rfl, (hnil h2).2⟩

theorem read_inv (D : Deflater) (hD : D.Lawful) (P : Prop) (t : Bytes) (ht : Tail t)
    (hP : t.length < 18 → P) (f : Bytes) (s : R)
    (total : Bytes) (h : Inv D P t f s total) (n : Nat) : ReadPost D P t f total n (read D f s n) := by
  obtain ⟨rest, hsrc, rfl⟩ := h
  unfold read
  by_cases hr : hasRemaining s = true
  · -- the block still has data: served from it
    have hne : s.blk.data.drop s.blk.cur ≠ [] := by
      intro h0
      have := congrArg List.length h0
      simp only [hasRemaining, decide_eq_true_eq] at hr
      simp only [List.length_drop, List.length_nil] at this
      omega
    simp only [hr, Bool.not_true, Bool.false_and, Bool.false_eq_true, if_false, fillBuf, if_true]
    exact serve D P t f s n rest hsrc (fun h0 => absurd h0 hne)
  · have hnil : s.blk.data.drop s.blk.cur = [] := by
      simp only [hasRemaining, decide_eq_true_eq] at hr
      exact List.drop_eq_nil_of_le (by omega)
    rw [hnil, List.nil_append]
    have hr' : hasRemaining s = false := by simpa using hr
    by_cases hn : n ≥ MAX_ISIZE
    · -- direct path
      have hp := readBlock_src D hD P true t ht hP f s rest hsrc
      simp only [hr', Bool.not_false, Bool.true_and, decide_eq_true_eq, hn, if_true]
      rcases hrb : readBlock D true f (fuelOf f) s with ⟨s', _ | e⟩
      · rw [hrb] at hp
        obtain ⟨rest', hs', hrest, hcur, hz, hdl⟩ := hp.1 rfl
        simp only at hs' hrest hcur hz hdl ⊢
        refine ⟨?_, ⟨rest', hs', ?_⟩, ?_, by rw [MAX_ISIZE_eq] at hn; omega⟩
        · rw [hrest]; exact List.prefix_append _ _
        · show _ = s'.blk.data.drop s'.blk.cur ++ rest'
          rw [hcur, if_pos trivial, List.drop_length, hrest, List.drop_left' rfl, List.nil_append]
        · intro _ h0; exact hz h0
      · rw [hrb] at hp
        exact hp.2 e rfl
    · have hp := readBlock_src D hD P false t ht hP f s rest hsrc
      simp only [hr', Bool.not_false, Bool.true_and, decide_eq_true_eq, hn, if_false, fillBuf,
        Bool.false_eq_true]
      rcases hrb : readBlock D false f (fuelOf f) s with ⟨s', _ | e⟩
      · rw [hrb] at hp
        obtain ⟨rest', hs', hrest, hcur, hz, hdl⟩ := hp.1 rfl
        simp only at hs' hrest hcur hz hdl ⊢
        have hc0 : s'.blk.cur = 0 := by rw [hcur]; rfl
        have := serve D P t f s' n rest' hs' (by
          rw [hc0, List.drop_zero]; intro h0
          have hz' := hz h0
          have := hz'.1; rw [hrest, h0, List.nil_append] at this; exact ⟨this, hz'.2⟩)
        rw [hc0, List.drop_zero] at this ⊢
        rw [hrest]
        exact this
      · rw [hrb] at hp
        exact hp.2 e rfl

theorem fillConsume_inv (D : Deflater) (hD : D.Lawful) (P : Prop) (t : Bytes) (ht : Tail t)
    (hP : t.length < 18 → P) (f : Bytes) (s : R)
    (total : Bytes) (h : Inv D P t f s total) (n : Nat) :
    ReadPost D P t f total n (fillConsume D f s n) := by
  obtain ⟨rest, hsrc, rfl⟩ := h
  unfold fillConsume
  by_cases hr : hasRemaining s = true
  · have hne : s.blk.data.drop s.blk.cur ≠ [] := by
      intro h0
      have := congrArg List.length h0
      simp only [hasRemaining, decide_eq_true_eq] at hr
      simp only [List.length_drop, List.length_nil] at this
      omega
    simp only [hr, fillBuf, if_true]
    exact serve D P t f s n rest hsrc (fun h0 => absurd h0 hne)
  · have hnil : s.blk.data.drop s.blk.cur = [] := by
      simp only [hasRemaining, decide_eq_true_eq] at hr
      exact List.drop_eq_nil_of_le (by omega)
    rw [hnil, List.nil_append]
    have hr' : hasRemaining s = false := by simpa using hr
    have hp := readBlock_src D hD P false t ht hP f s rest hsrc
    simp only [hr', fillBuf, Bool.false_eq_true, if_false]
    rcases hrb : readBlock D false f (fuelOf f) s with ⟨s', _ | e⟩
    · rw [hrb] at hp
      obtain ⟨rest', hs', hrest, hcur, hz, hdl⟩ := hp.1 rfl
      simp only at hs' hrest hcur hz hdl ⊢
      have hc0 : s'.blk.cur = 0 := by rw [hcur]; rfl
      have := serve D P t f s' n rest' hs' (by
        rw [hc0, List.drop_zero]; intro h0
        have hz' := hz h0
        have := hz'.1; rw [hrest, h0, List.nil_append] at this; exact ⟨this, hz'.2⟩)
      rw [hc0, List.drop_zero] at this ⊢
      rw [hrest]
      exact this
    · rw [hrb] at hp
      exact hp.2 e rfl

theorem stepOp_inv (D : Deflater) (hD : D.Lawful) (P : Prop) (t : Bytes) (ht : Tail t)
    (hP : t.length < 18 → P) (f : Bytes) (s : R)
    (total : Bytes) (h : Inv D P t f s total) (op : Bool × Nat) :
    ReadPost D P t f total op.2 (stepOp D f s op) := by
  unfold stepOp
  by_cases hb : op.1 = true
  · rw [if_pos hb]; exact fillConsume_inv D hD P t ht hP f s total h op.2
  · rw [if_neg hb]; exact read_inv D hD P t ht hP f s total h op.2

/-- what a run of `read` calls guarantees when `total` was still to come -/
def RunPost (D : Deflater) (P : Prop) (t f total : Bytes) (r : Bytes × Stop × R) : Prop :=
  r.1 <+: total ∧
  (match r.2.1 with
   | .more => Inv D P t f r.2.2 (total.drop r.1.length)
   | .eof => r.1 = total ∧ P
   | .err e => e = .eof ∧ r.1 = total ∧ 18 ≤ t.length)

theorem readRun_inv (D : Deflater) (hD : D.Lawful) (P : Prop) (t : Bytes) (ht : Tail t)
    (hP : t.length < 18 → P) (f : Bytes) :
    ∀ (ns : List Nat) (_ : ∀ m ∈ ns, 0 < m) (s : R) (total : Bytes) (_ : Inv D P t f s total),
      RunPost D P t f total (readRun D f s ns) := by
  intro ns
  induction ns with
  | nil =>
    intro _ s total h
    exact ⟨List.nil_prefix, by simpa [readRun] using h⟩
  | cons n ns ih =>
    intro hpos s total h
    have hp := read_inv D hD P t ht hP f s total h n
    unfold readRun
    rcases hrd : read D f s n with ⟨s', e | got⟩
    · rw [hrd] at hp
      obtain ⟨he, htot, h18⟩ := hp
      exact ⟨List.nil_prefix, he, htot.symm, h18⟩
    · rw [hrd] at hp
      obtain ⟨hpre, hinv, hnil, _⟩ := hp
      simp only at hpre hinv hnil ⊢
      by_cases hg : got.isEmpty = true
      · rw [if_pos hg]
        have hg' : got = [] := List.isEmpty_iff.mp hg
        have hz := hnil (hpos n (by simp)) hg'
        exact ⟨List.nil_prefix, hz.1.symm, hz.2⟩
      · rw [if_neg hg]
        have ihr := ih (fun m hm => hpos m (List.mem_cons_of_mem _ hm)) s' _ hinv
        have htot : got ++ total.drop got.length = total := List.prefix_iff_eq_append.mp hpre
        obtain ⟨h1, h2⟩ := ihr
        refine ⟨?_, ?_⟩
        · show got ++ _ <+: total
          rw [← htot]; exact (List.prefix_append_right_inj got).mpr h1
        · show (match (readRun D f s' ns).2.1 with
            | .more => Inv D P t f (readRun D f s' ns).2.2 (total.drop (got ++ (readRun D f s' ns).1).length)
            | .eof => got ++ (readRun D f s' ns).1 = total ∧ P
            | .err e => e = .eof ∧ got ++ (readRun D f s' ns).1 = total ∧ 18 ≤ t.length)
          rcases hst : (readRun D f s' ns).2.1 with _ | _ | e
          · rw [hst] at h2
            simp only at h2 ⊢
            rw [List.length_append, ← List.drop_drop]
            exact h2
          · rw [hst] at h2
            simp only at h2 ⊢
            exact ⟨by rw [h2.1, htot], h2.2⟩
          · rw [hst] at h2
            simp only at h2 ⊢
            obtain ⟨ha, hb, hc⟩ := h2
            exact ⟨ha, by rw [hb, htot], hc⟩

theorem opsRun_inv (D : Deflater) (hD : D.Lawful) (P : Prop) (t : Bytes) (ht : Tail t)
    (hP : t.length < 18 → P) (f : Bytes) :
    ∀ (ops : List (Bool × Nat)) (_ : ∀ op ∈ ops, 0 < op.2) (s : R) (total : Bytes)
      (_ : Inv D P t f s total), RunPost D P t f total (opsRun D f s ops) := by
  intro ops
  induction ops with
  | nil =>
    intro _ s total h
    exact ⟨List.nil_prefix, by simpa [opsRun] using h⟩
  | cons op ops ih =>
    intro hpos s total h
    have hp := stepOp_inv D hD P t ht hP f s total h op
    unfold opsRun
    rcases hrd : stepOp D f s op with ⟨s', e | got⟩
    · rw [hrd] at hp
      obtain ⟨he, htot, h18⟩ := hp
      exact ⟨List.nil_prefix, he, htot.symm, h18⟩
    · rw [hrd] at hp
      obtain ⟨hpre, hinv, hnil, _⟩ := hp
      simp only at hpre hinv hnil ⊢
      by_cases hg : got.isEmpty = true
      · rw [if_pos hg]
        have hg' : got = [] := List.isEmpty_iff.mp hg
        have hz := hnil (hpos op (by simp)) hg'
        exact ⟨List.nil_prefix, hz.1.symm, hz.2⟩
      · rw [if_neg hg]
        have ihr := ih (fun m hm => hpos m (List.mem_cons_of_mem _ hm)) s' _ hinv
        have htot : got ++ total.drop got.length = total := List.prefix_iff_eq_append.mp hpre
        obtain ⟨h1, h2⟩ := ihr
        refine ⟨?_, ?_⟩
        · show got ++ _ <+: total
          rw [← htot]; exact (List.prefix_append_right_inj got).mpr h1
        · show (match (opsRun D f s' ops).2.1 with
            | .more => Inv D P t f (opsRun D f s' ops).2.2 (total.drop (got ++ (opsRun D f s' ops).1).length)
            | .eof => got ++ (opsRun D f s' ops).1 = total ∧ P
            | .err e => e = .eof ∧ got ++ (opsRun D f s' ops).1 = total ∧ 18 ≤ t.length)
          rcases hst : (opsRun D f s' ops).2.1 with _ | _ | e
          · rw [hst] at h2
            simp only at h2 ⊢
            rw [List.length_append, ← List.drop_drop]
            exact h2
          · rw [hst] at h2
            simp only at h2 ⊢
            exact ⟨by rw [h2.1, htot], h2.2⟩
          · rw [hst] at h2
            simp only at h2 ⊢
            obtain ⟨ha, hb, hc⟩ := h2
            exact ⟨ha, by rw [hb, htot], hc⟩

theorem readRun_eq_opsRun (D : Deflater) (f : Bytes) :
    ∀ (ns : List Nat) (s : R), readRun D f s ns = opsRun D f s (ns.map fun n => (false, n)) := by
  intro ns
  induction ns with
  | nil => intro s; rfl
  | cons n ns ih =>
    intro s
    simp only [readRun, List.map_cons, opsRun, stepOp, ih, Bool.false_eq_true, if_false]

theorem pumpFill_eq_opsRun (D : Deflater) (f : Bytes) (m : Nat) :
    ∀ (fuel : Nat) (s : R), pumpFill D f m fuel s = opsRun D f s (List.replicate fuel (true, m)) := by
  intro fuel
  induction fuel with
  | zero => intro s; rfl
  | succ fuel ih =>
    intro s
    simp only [pumpFill, List.replicate_succ, opsRun, stepOp, ih, if_true]

theorem pump_eq_readRun (D : Deflater) (f : Bytes) (n : Nat) :
    ∀ (fuel : Nat) (s : R), pump D f n fuel s = readRun D f s (List.replicate fuel n) := by
  intro fuel
  induction fuel with
  | zero => intro s; rfl
  | succ fuel ih =>
    intro s
    simp only [pump, List.replicate_succ, readRun, ih]

/-! ## `read_exact` -/

/-- what `read_exact(n)` guarantees when `total` was still to come: exactly the next `n` bytes, or
`UnexpectedEof` because fewer than `n` were left -/
def ExactPost (D : Deflater) (P : Prop) (t f total : Bytes) (n : Nat) (r : R × Except Err Bytes) : Prop :=
  match r.2 with
  | .ok b => b = total.take n ∧ n ≤ total.length ∧ Inv D P t f r.1 (total.drop n)
  | .error e => e = .eof ∧ total.length < n

theorem readExactLoop_inv (D : Deflater) (hD : D.Lawful) (P : Prop) (t : Bytes) (ht : Tail t)
    (hP : t.length < 18 → P) (f : Bytes) :
    ∀ (fuel : Nat) (s : R) (n : Nat) (acc total : Bytes) (_ : n < fuel) (_ : Inv D P t f s total),
      match (readExactLoop D f fuel s n acc).2 with
      | .ok b => b = acc ++ total.take n ∧ n ≤ total.length ∧
          Inv D P t f (readExactLoop D f fuel s n acc).1 (total.drop n)
      | .error e => e = .eof ∧ total.length < n := by
  intro fuel
  induction fuel with
  | zero => intro s n acc total h; omega
  | succ fuel ih =>
    intro s n acc total hfuel hinv
    unfold readExactLoop
    by_cases hn : n = 0
    · subst hn
      simp only [if_true, List.take_zero, List.append_nil, List.drop_zero]
      exact ⟨by simp, Nat.zero_le _, hinv⟩
    · rw [if_neg hn]
      have hp := read_inv D hD P t ht hP f s total hinv n
      rcases hrd : read D f s n with ⟨s', e | got⟩
      · rw [hrd] at hp
        obtain ⟨he, htot, _⟩ := hp
        simp only
        exact ⟨he, by rw [htot]; simp; omega⟩
      · rw [hrd] at hp
        obtain ⟨hpre, hinv', hnil, hle⟩ := hp
        simp only at hpre hinv' hnil hle ⊢
        by_cases hg : got.isEmpty = true
        · rw [if_pos hg]
          have hg' : got = [] := List.isEmpty_iff.mp hg
          have hz := hnil (by omega) hg'
          simp only
          exact ⟨by simp, by rw [hz.1]; simp; omega⟩
        · rw [if_neg hg]
          have hgl : 0 < got.length := by
            cases got with
            | nil => simp at hg
            | cons a l => simp
          have htot : got ++ total.drop got.length = total := List.prefix_iff_eq_append.mp hpre
          have := ih s' (n - got.length) (acc ++ got) (total.drop got.length) (by omega) hinv'
          rcases hres : (readExactLoop D f fuel s' (n - got.length) (acc ++ got)).2 with e | b
          · rw [hres] at this
            simp only at this ⊢
            obtain ⟨he, hlt⟩ := this
            refine ⟨he, ?_⟩
            rw [List.length_drop] at hlt
            omega
          · rw [hres] at this
            simp only at this ⊢
            obtain ⟨hb, hlen, hinv''⟩ := this
            rw [List.length_drop] at hlen
            have hgt : got.length ≤ total.length := by
              rw [← htot, List.length_append]; omega
            refine ⟨?_, by omega, ?_⟩
            · rw [hb, List.append_assoc]
              congr 1
              conv => rhs; rw [← htot]
              rw [List.take_append, List.take_of_length_le hle]
            · rw [List.drop_drop] at hinv''
              have : got.length + (n - got.length) = n := by omega
              rw [this] at hinv''
              exact hinv''

theorem readExact_inv (D : Deflater) (hD : D.Lawful) (P : Prop) (t : Bytes) (ht : Tail t)
    (hP : t.length < 18 → P) (f : Bytes) (s : R) (total : Bytes) (h : Inv D P t f s total) (n : Nat) :
    ExactPost D P t f total n (readExact D f s n) := by
  unfold readExact
  by_cases hfast : n ≤ (s.blk.data.drop s.blk.cur).length
  · rw [if_pos hfast]
    obtain ⟨rest, hsrc, rfl⟩ := h
    refine ⟨?_, by rw [List.length_append]; omega, rest, hsrc, ?_⟩
    · show _ = List.take n (_ ++ rest)
      rw [List.take_append_of_le_length hfast]
    · show _ = (consume n s).blk.data.drop (consume n s).blk.cur ++ rest
      rw [List.drop_append_of_le_length hfast]
      congr 1
      simp only [consume, List.drop_drop]
      rw [List.length_drop] at hfast
      by_cases hc : s.blk.cur ≤ s.blk.data.length
      · congr 1; omega
      · rw [List.drop_eq_nil_of_le (by omega), List.drop_eq_nil_of_le (by omega)]
  · rw [if_neg hfast]
    have := readExactLoop_inv D hD P t ht hP f (n + 1) s n [] total (by omega) h
    unfold ExactPost
    rcases hres : (readExactLoop D f (n + 1) s n []).2 with e | b
    · rw [hres] at this; exact this
    · rw [hres] at this
      simp only [List.nil_append] at this
      exact this

/-- a record reader's `read_exact` loop: whole records only, a prefix of `total`; it never ends
cleanly; when it stops it is with `UnexpectedEof` and fewer than `n` bytes were left -/
def ExactRunPost (D : Deflater) (P : Prop) (t f total : Bytes) (n : Nat) (r : Bytes × Stop × R) : Prop :=
  r.1 <+: total ∧
  (match r.2.1 with
   | .more => Inv D P t f r.2.2 (total.drop r.1.length)
   | .eof => False
   | .err e => e = .eof ∧ total.length - r.1.length < n)

theorem pumpExact_inv (D : Deflater) (hD : D.Lawful) (P : Prop) (t : Bytes) (ht : Tail t)
    (hP : t.length < 18 → P) (f : Bytes) (n : Nat) :
    ∀ (fuel : Nat) (s : R) (total : Bytes) (_ : Inv D P t f s total),
      ExactRunPost D P t f total n (pumpExact D f n fuel s) := by
  intro fuel
  induction fuel with
  | zero =>
    intro s total h
    exact ⟨List.nil_prefix, by simpa [pumpExact] using h⟩
  | succ fuel ih =>
    intro s total h
    have hp := readExact_inv D hD P t ht hP f s total h n
    unfold pumpExact
    unfold ExactPost at hp
    rcases hrd : readExact D f s n with ⟨s', e | got⟩
    · rw [hrd] at hp
      obtain ⟨he, hlt⟩ := hp
      exact ⟨List.nil_prefix, he, by simpa using hlt⟩
    · rw [hrd] at hp
      obtain ⟨hgot, hlen, hinv⟩ := hp
      simp only at hgot hlen hinv ⊢
      have hgl : got.length = n := by rw [hgot, List.length_take]; omega
      have htot : got ++ total.drop n = total := by rw [hgot, List.take_append_drop]
      obtain ⟨h1, h2⟩ := ih s' _ hinv
      refine ⟨?_, ?_⟩
      · show got ++ _ <+: total
        rw [← htot]; exact (List.prefix_append_right_inj got).mpr h1
      · show (match (pumpExact D f n fuel s').2.1 with
          | .more => Inv D P t f (pumpExact D f n fuel s').2.2 (total.drop (got ++ (pumpExact D f n fuel s').1).length)
          | .eof => False
          | .err e => e = .eof ∧ total.length - (got ++ (pumpExact D f n fuel s').1).length < n)
        rcases hst : (pumpExact D f n fuel s').2.1 with _ | _ | e
        · rw [hst] at h2
          simp only at h2 ⊢
          rw [List.length_append, hgl, ← List.drop_drop]
          exact h2
        · rw [hst] at h2; exact h2
        · rw [hst] at h2
          simp only at h2 ⊢
          obtain ⟨ha, hb⟩ := h2
          refine ⟨ha, ?_⟩
          rw [List.length_drop] at hb
          rw [List.length_append, hgl]
          omega

/-! ## `seek` -/

/-- what `seek(c, u)` guarantees when the source holds `rest` from `c` on -/
def SeekPost (D : Deflater) (P : Prop) (t f rest : Bytes) (u : Nat) (r : R × Option Err) : Prop :=
  match r.2 with
  | none => u ≤ rest.length ∧ Inv D P t f r.1 (rest.drop u)
  | some e => (e = .eof ∧ rest = [] ∧ 18 ≤ t.length) ∨
      (e = .invalidInput ∧ ∃ d rest', rest = d ++ rest' ∧ d.length < u ∧ (d = [] → rest = []))

theorem seek_inv (D : Deflater) (hD : D.Lawful) (P : Prop) (t : Bytes) (ht : Tail t)
    (hP : t.length < 18 → P) (f : Bytes) (s : R)
    (c u : Nat) (rest : Bytes) (hsrc : Src D P t f c rest) :
    SeekPost D P t f rest u (seek D f s c u) := by
  have hp := readBlock_src D hD P false t ht hP f { s with ipos := c, position := c } rest hsrc
  unfold seek
  rcases hrb : readBlock D false f (fuelOf f) { s with ipos := c, position := c } with ⟨s', _ | e⟩
  · rw [hrb] at hp
    obtain ⟨rest', hs', hrest, _, hz, _⟩ := hp.1 rfl
    simp only at hs' hrest hz ⊢
    by_cases hu : u > s'.blk.data.length
    · rw [if_pos hu]
      exact Or.inr ⟨rfl, s'.blk.data, rest', hrest, hu, fun h0 => (hz h0).1⟩
    · rw [if_neg hu]
      refine ⟨by rw [hrest, List.length_append]; omega, rest', hs', ?_⟩
      show rest.drop u = s'.blk.data.drop u ++ rest'
      rw [hrest, List.drop_append_of_le_length (by omega)]
  · rw [hrb] at hp
    exact Or.inl (hp.2 e rfl)

/-! ## a written file cut at `k`, in the form the lemmas above want -/
open Noodles.Trunc

theorem enc_append (D : Deflater) (a b : List (Bytes × Bytes)) : enc D (a ++ b) = enc D a ++ enc D b := by
  simp [enc]

theorem take_split (frs : List (Bytes × Bytes)) (a b : Nat) (h : a ≤ b) :
    frs.take b = frs.take a ++ (frs.take b).drop a := by
  have h1 : (frs.take b).take a = frs.take a := by rw [List.take_take, Nat.min_eq_left h]
  rw [← h1, List.take_append_drop]

theorem enc_take_mono (D : Deflater) (frs : List (Bytes × Bytes)) (a b : Nat) (h : a ≤ b) :
    (enc D (frs.take a)).length ≤ (enc D (frs.take b)).length := by
  rw [take_split frs a b h, enc_append, List.length_append]; omega

theorem datas_take_mono (frs : List (Bytes × Bytes)) (a b : Nat) (h : a ≤ b) :
    (datas (frs.take a)).length ≤ (datas (frs.take b)).length := by
  rw [take_split frs a b h, datas_append, List.length_append]; omega

/-- what is left of the cut file after its whole members -/
def cutTail (D : Deflater) (frs : List (Bytes × Bytes)) (k : Nat) : Bytes :=
  (enc D (frs.drop (bgzfCut D frs k).1)).take (bgzfCut D frs k).2

theorem enc_take_length (D : Deflater) (frs : List (Bytes × Bytes)) (n : Nat) :
    (enc D (frs.take n)).length = ((frs.map fun p => (encFrame D p).length).take n).sum := by
  rw [enc_length, List.map_take]

theorem cut_split (D : Deflater) (frs : List (Bytes × Bytes)) (k : Nat) :
    (enc D frs).take k = enc D (frs.take (bgzfCut D frs k).1) ++ cutTail D frs k := by
  have hs := (whole_spec (frs.map fun p => (encFrame D p).length) k).1
  have hl := enc_take_length D frs (bgzfCut D frs k).1
  unfold cutTail
  unfold bgzfCut at hl ⊢
  conv => lhs; rw [← List.take_append_drop (whole (frs.map fun p => (encFrame D p).length) k).1 frs, enc_append]
  rw [List.take_append, List.take_of_length_le (by omega)]
  congr 2
  omega

theorem cut_next (D : Deflater) (frs : List (Bytes × Bytes)) (k : Nat)
    (hn : (bgzfCut D frs k).1 < frs.length) :
    (bgzfCut D frs k).2 < (encFrame D frs[(bgzfCut D frs k).1]).length := by
  have hs := (whole_spec (frs.map fun p => (encFrame D p).length) k).2
  unfold bgzfCut at hn ⊢
  have := hs (by simpa using hn)
  simpa [List.getD_eq_getElem?_getD, hn] using this

theorem cutTail_eq (D : Deflater) (frs : List (Bytes × Bytes)) (k : Nat)
    (hn : (bgzfCut D frs k).1 < frs.length) :
    cutTail D frs k = (encFrame D frs[(bgzfCut D frs k).1]).take (bgzfCut D frs k).2 := by
  unfold cutTail
  rw [List.drop_eq_getElem_cons hn, enc_cons,
    List.take_append_of_le_length (Nat.le_of_lt (cut_next D frs k hn))]

theorem cutTail_nil (D : Deflater) (frs : List (Bytes × Bytes)) (k : Nat)
    (hn : ¬ (bgzfCut D frs k).1 < frs.length) : cutTail D frs k = [] := by
  unfold cutTail
  rw [List.drop_eq_nil_of_le (by omega), enc_nil, List.take_nil]

theorem cut_tail (D : Deflater) (frs : List (Bytes × Bytes)) (hg : ∀ p ∈ frs, Good D p) (k : Nat) :
    Tail (cutTail D frs k) := by
  by_cases hn : (bgzfCut D frs k).1 < frs.length
  · rw [cutTail_eq D frs k hn]
    have hj := cut_next D frs k hn
    have hgood := hg _ (List.getElem_mem hn)
    by_cases h18 : (bgzfCut D frs k).2 < 18
    · left; rw [List.length_take]; omega
    · right
      rw [encFrame, mkFrame_length] at hj
      exact ⟨_, _, _, _, hgood.1, by omega, hj, rfl⟩
  · rw [cutTail_nil D frs k hn]; left; simp

theorem cut_tail_long (D : Deflater) (frs : List (Bytes × Bytes)) (k : Nat)
    (h : 18 ≤ (cutTail D frs k).length) :
    (bgzfCut D frs k).1 < frs.length ∧ 18 ≤ (bgzfCut D frs k).2 := by
  by_cases hn : (bgzfCut D frs k).1 < frs.length
  · refine ⟨hn, ?_⟩
    rw [cutTail_eq D frs k hn, List.length_take] at h; omega
  · rw [cutTail_nil D frs k hn] at h; simp at h

theorem cut_tail_short (D : Deflater) (frs : List (Bytes × Bytes)) (k : Nat)
    (h : (cutTail D frs k).length < 18) :
    ¬ ((bgzfCut D frs k).1 < frs.length ∧ 18 ≤ (bgzfCut D frs k).2) := by
  rintro ⟨hn, hj⟩
  rw [cutTail_eq D frs k hn, List.length_take] at h
  have := cut_next D frs k hn
  omega

/-- the source invariant at the start of member `i` of the ORIGINAL file (`i = frs.length`: its end) -/
theorem src_of_member (D : Deflater) (P : Prop) (frs : List (Bytes × Bytes)) (hg : ∀ p ∈ frs, Good D p)
    (k i : Nat) (hi : i ≤ frs.length) (hP : (bgzfCut D frs k).1 < i → P) :
    Src D P (cutTail D frs k) ((enc D frs).take k) (enc D (frs.take i)).length
      ((datas (frs.take (bgzfCut D frs k).1)).drop (datas (frs.take i)).length) := by
  by_cases hin : i ≤ (bgzfCut D frs k).1
  · left
    refine ⟨enc D (frs.take i), (frs.take (bgzfCut D frs k).1).drop i, ?_, ?_, rfl, ?_⟩
    · rw [cut_split, ← List.append_assoc, ← enc_append, ← take_split frs _ _ hin]
    · intro p hp
      exact hg p (List.mem_of_mem_take (List.mem_of_mem_drop hp))
    · conv => lhs; rw [take_split frs _ _ hin, datas_append]
      rw [List.drop_left' rfl]
  · right
    have hn : (bgzfCut D frs k).1 < frs.length := by omega
    have h1 := enc_take_mono D frs ((bgzfCut D frs k).1 + 1) i (by omega)
    have h2 : (enc D (frs.take ((bgzfCut D frs k).1 + 1))).length =
        (enc D (frs.take (bgzfCut D frs k).1)).length + (encFrame D frs[(bgzfCut D frs k).1]).length := by
      rw [List.take_succ_eq_append_getElem hn, enc_append, List.length_append]
      simp [enc]
    have h3 := cut_next D frs k hn
    have h4 : ((enc D frs).take k).length ≤ (enc D (frs.take (bgzfCut D frs k).1)).length + (bgzfCut D frs k).2 := by
      rw [cut_split, List.length_append, cutTail, List.length_take]; omega
    refine ⟨?_, ?_, hP (by omega)⟩
    · rw [List.length_drop]; omega
    · exact List.drop_eq_nil_of_le (datas_take_mono frs _ _ (by omega))

/-! ## exact outcomes of `seek` -/

/-- fewer than 18 bytes at `c` (in particular `c` at or beyond the end of the cut file): the block
becomes an empty block at `c`; the seek succeeds iff `u = 0` -/
theorem seek_done (D : Deflater) (f : Bytes) (s : R) (c u : Nat) (h : (f.drop c).length < 18) :
    seek D f s c u =
      if u > 0 then (⟨f.length, c, ⟨c, 0, [], 0⟩⟩, some .invalidInput)
      else (⟨f.length, c, ⟨c, 0, [], u⟩⟩, none) := by
  unfold seek fuelOf readBlock
  simp only [readFrameInto_short f c h, List.length_nil]

/-- `seek` to the start of whole members followed by the tail, in closed form -/
theorem seek_live_eq (D : Deflater) (hD : D.Lawful) (t : Bytes) (ht : Tail t)
    (B : List (Bytes × Bytes)) (hB : ∀ p ∈ B, Good D p) (pre : Bytes) (s : R) (u : Nat) :
    seek D (pre ++ (enc D B ++ t)) s pre.length u =
      (match expect D false t (pre ++ (enc D B ++ t)).length B pre.length pre.length s.blk with
       | (s', some e) => (s', some e)
       | (s', none) =>
         if u > s'.blk.data.length then (s', some .invalidInput)
         else ({ s' with blk := { s'.blk with cur := u } }, none)) := by
  have hfuel : B.length < fuelOf (pre ++ (enc D B ++ t)) := by
    have := enc_length_ge D B
    simp only [fuelOf, List.length_append]; omega
  unfold seek
  rw [readBlock_live D hD false t ht B hB pre { s with ipos := pre.length, position := pre.length }
    rfl _ hfuel]
  rfl

end Noodles.Bgzf.SC
