import Noodles.Bgzf.IndexedReader
import Noodles.Bgzf.ReaderProof
/-! Helper lemmas for `Noodles/Props/C02Indexed.lean`. -/
namespace Noodles.Bgzf.IR
open Noodles.Bgzf.RM

variable {α : Type}

/-! ## query -/

theorem takeWhile_all {β : Type} (p : β → Bool) (g : List β) (h : ∀ x ∈ g, p x = true) :
    g.takeWhile p = g := by
  induction g with
  | nil => rfl
  | cons a g ih =>
    rw [List.takeWhile_cons, h a (by simp)]
    simp only [if_true]
    rw [ih (fun x hx => h x (by simp [hx]))]

theorem takeWhile_length_le {β : Type} (p : β → Bool) (g : List β) :
    (g.takeWhile p).length ≤ g.length := by
  induction g with
  | nil => simp
  | cons a g ih =>
    rw [List.takeWhile_cons]
    split <;> simp <;> omega

/-- the entry chosen by `query` -/
def entry (g : Gzi) (pos : Nat) : Nat × Nat :=
  if partitionPoint g pos = 0 then (0, 0) else g[partitionPoint g pos - 1]!

theorem query_eq (g : Gzi) (pos : Nat) :
    query g pos =
      if 65536 ≤ pos - (entry g pos).2 then .error .invalidData
      else if MAX_COMPRESSED ≤ (entry g pos).1 then .error .invalidData
      else .ok ((entry g pos).1, pos - (entry g pos).2) := rfl

theorem gziQuery_eq' (g : Gzi) (pos : Nat) :
    gziQuery g pos =
      if pos - (entry g pos).2 < 65536 then .ok ((entry g pos).1, pos - (entry g pos).2)
      else .error .invalidData := rfl

/-- the chosen entry is `(0,0)` or an entry of the index that satisfies the predicate -/
theorem entry_cases (g : Gzi) (pos : Nat) :
    entry g pos = (0, 0) ∨ (entry g pos ∈ g ∧ (entry g pos).2 ≤ pos) := by
  unfold entry
  by_cases h0 : partitionPoint g pos = 0
  · rw [if_pos h0]; exact Or.inl rfl
  · rw [if_neg h0]
    right
    obtain ⟨x, hx, hpx⟩ := takeWhile_last (fun r : Nat × Nat => decide (r.2 ≤ pos)) g
      (partitionPoint g pos - 1) (by unfold partitionPoint at h0 ⊢; omega)
    have : g[partitionPoint g pos - 1]! = x := by rw [getElem!_def, hx]
    rw [this]
    exact ⟨List.mem_of_getElem? hx, by simpa using hpx⟩

/-- the `u64` subtraction in `query` never underflows -/
theorem entry_le (g : Gzi) (pos : Nat) : (entry g pos).2 ≤ pos := by
  rcases entry_cases g pos with h | h
  · rw [h]; exact Nat.zero_le _
  · exact h.2

theorem query_eq_gziQuery (g : Gzi) (pos : Nat) (h : ∀ x ∈ g, x.1 < MAX_COMPRESSED) :
    query g pos = gziQuery g pos := by
  rw [query_eq, gziQuery_eq']
  have hc : (entry g pos).1 < MAX_COMPRESSED := by
    rcases entry_cases g pos with h' | h'
    · rw [h']; unfold MAX_COMPRESSED; omega
    · exact h _ h'.1
  by_cases h1 : 65536 ≤ pos - (entry g pos).2
  · rw [if_pos h1, if_neg (by omega)]
  · rw [if_neg h1, if_neg (by omega), if_pos (by omega)]

theorem gziOf_mem (L : Layout α) (x : Nat × Nat) (hx : x ∈ gziOf L) :
    ∃ k, 0 < k ∧ k < L.length ∧ x = (coff L k, uoff L k) := by
  obtain ⟨j, hj⟩ := List.getElem?_of_mem hx
  obtain ⟨h1, h2⟩ := gziOf_getElem?_some L j x hj
  exact ⟨j + 1, by omega, h1, h2⟩

theorem gziOf_small (L : Layout α) (hL : WF L) (hS : Small L) :
    ∀ x ∈ gziOf L, x.1 < MAX_COMPRESSED := by
  intro x hx
  obtain ⟨k, _, hk, rfl⟩ := gziOf_mem L x hx
  have := coff_strict L hL hk (Nat.le_refl _)
  unfold Small at hS
  simp only
  omega

theorem seekU_eq (L : Layout α) (hL : WF L) (hS : Small L) (s : R α) (pos : Nat) :
    IR.seekU L (gziOf L) s pos = RM.seekU L (gziOf L) s pos := by
  unfold IR.seekU RM.seekU
  rw [query_eq_gziQuery _ _ (gziOf_small L hL hS)]
  cases gziQuery (gziOf L) pos with
  | error e => rfl
  | ok p => rfl

theorem gziOf_length (L : Layout α) : (gziOf L).length = L.length - 1 := by
  unfold gziOf; simp

/-- at or beyond the end of the stream the last entry is chosen: the last member -/
theorem entry_end (L : Layout α) (pos : Nat) (h : (flat L).length ≤ pos) :
    entry (gziOf L) pos = (coff L (L.length - 1), uoff L (L.length - 1)) := by
  have hall : ∀ x ∈ gziOf L, (fun r : Nat × Nat => decide (r.2 ≤ pos)) x = true := by
    intro x hx
    obtain ⟨k, _, _, rfl⟩ := gziOf_mem L x hx
    have := uoff_le_flat L k
    simp; omega
  have hpp : partitionPoint (gziOf L) pos = L.length - 1 := by
    unfold partitionPoint
    rw [takeWhile_all _ _ hall, gziOf_length]
  unfold entry
  rw [hpp]
  by_cases h0 : L.length - 1 = 0
  · rw [if_pos h0, h0, coff_zero, uoff_zero]
  · rw [if_neg h0]
    have := gziOf_getElem? L (L.length - 1 - 1) (by omega)
    rw [getElem!_def, this]
    have e : L.length - 1 - 1 + 1 = L.length - 1 := by omega
    rw [e]

theorem getLast?_eq (L : Layout α) (_h : 0 < L.length) : L.getLast? = L[L.length - 1]? := by
  rw [List.getLast?_eq_getElem?]

/-- the end of the stream is served when the last member's length fits `u16` -/
theorem gziQuery_end (L : Layout α) (hL : WF L) (hE : EndOk L) :
    ∃ c u, gziQuery (gziOf L) (flat L).length = .ok (c, u) ∧
      resolve L c u = some (flat L).length := by
  have he := entry_end L (flat L).length (Nat.le_refl _)
  refine ⟨coff L (L.length - 1), (flat L).length - uoff L (L.length - 1), ?_, ?_⟩
  · rw [gziQuery_eq', he]
    simp only
    rw [if_pos]
    by_cases h0 : L.length = 0
    · rw [flat_length, h0]; simp [uoff]
    · have hb : L[L.length - 1]? = some L[L.length - 1] := List.getElem?_eq_getElem (by omega)
      have := hE _ (by rw [getLast?_eq L (by omega)]; exact hb)
      have hs := uoff_succ L (L.length - 1) _ hb
      have e : L.length - 1 + 1 = L.length := by omega
      rw [e] at hs
      rw [flat_length, hs]; omega
  · unfold resolve
    rw [memberAt_coff L hL (L.length - 1) (by omega)]
    simp only
    by_cases h0 : L.length = 0
    · have hn : L[L.length - 1]? = none := by
        rw [List.getElem?_eq_none_iff]; omega
      rw [hn]
      simp only
      rw [flat_length, h0]; simp [uoff]
    · have hb : L[L.length - 1]? = some L[L.length - 1] := List.getElem?_eq_getElem (by omega)
      have hs := uoff_succ L (L.length - 1) _ hb
      have e : L.length - 1 + 1 = L.length := by omega
      rw [e] at hs
      rw [hb]
      simp only
      rw [flat_length, hs]
      rw [if_pos (by omega)]
      congr 1; omega

/-- `seek(Start(p))` for every `p ≤ total` (the end included when `EndOk`) -/
theorem seekU_le_spec (L : Layout α) (hL : WF L) (hS : Small L) (s : R α) (pos : Nat)
    (hpos : pos < (flat L).length ∨ (pos = (flat L).length ∧ EndOk L)) :
    (IR.seekU L (gziOf L) s pos).2 = none ∧ Inv L (IR.seekU L (gziOf L) s pos).1 ∧
    off L (IR.seekU L (gziOf L) s pos).1 = pos := by
  rw [seekU_eq L hL hS]
  rcases hpos with h | ⟨h, hE⟩
  · exact seekU_spec L hL s pos h
  · obtain ⟨c, u, h1, h2⟩ := gziQuery_end L hL hE
    subst h
    unfold RM.seekU
    rw [h1]
    exact seek_resolve L s c u _ h2

theorem seekU_inv' (L : Layout α) (hL : WF L) (hS : Small L) (s : R α) (pos : Nat)
    (hi : Inv L s) : Inv L (IR.seekU L (gziOf L) s pos).1 := by
  rw [seekU_eq L hL hS]; exact seekU_inv L _ s pos hi

/-- the end of a stream whose last member holds 65536 bytes is NOT served: `InvalidData`, reader
untouched -/
theorem seekU_end_full (L : Layout α) (s : R α) (hE : ¬ EndOk L) :
    IR.seekU L (gziOf L) s (flat L).length = (s, some .invalidData) := by
  have he := entry_end L (flat L).length (Nat.le_refl _)
  unfold EndOk at hE
  have hE' : ∃ b, L.getLast? = some b ∧ 65536 ≤ b.data.length := by
    apply Classical.byContradiction
    intro hn
    apply hE
    intro b hb
    apply Classical.byContradiction
    intro hlt
    exact hn ⟨b, hb, by omega⟩
  obtain ⟨b, hb, hlen⟩ := hE'
  have h0 : 0 < L.length := by
    cases L with
    | nil => simp at hb
    | cons a l => simp
  rw [getLast?_eq L h0] at hb
  have hs := uoff_succ L (L.length - 1) _ hb
  have e : L.length - 1 + 1 = L.length := by omega
  rw [e] at hs
  unfold IR.seekU
  rw [query_eq, he]
  simp only
  rw [if_pos (by rw [flat_length, hs]; omega)]

/-- beyond the end: always an error -/
theorem seekU_beyond (L : Layout α) (hL : WF L) (s : R α) (pos : Nat)
    (h : (flat L).length < pos) :
    (IR.seekU L (gziOf L) s pos).2 = some .invalidInput ∨
    IR.seekU L (gziOf L) s pos = (s, some .invalidData) := by
  have he := entry_end L pos (Nat.le_of_lt h)
  unfold IR.seekU
  rw [query_eq, he]
  simp only
  by_cases h1 : 65536 ≤ pos - uoff L (L.length - 1)
  · rw [if_pos h1]; exact Or.inr rfl
  · rw [if_neg h1]
    by_cases h2 : MAX_COMPRESSED ≤ coff L (L.length - 1)
    · rw [if_pos h2]; exact Or.inr rfl
    · rw [if_neg h2]
      left
      simp only
      unfold seek
      rw [memberAt_coff L hL (L.length - 1) (by omega)]
      simp only
      obtain ⟨i1, i2, i3, _, _⟩ := readBlock_spec L
        { s with next := L.length - 1, position := coff L (L.length - 1) } rfl
        (by simp only; omega)
      have hd := inv_data_le L _ i1
      have hu := uoff_le_flat L
        (readBlock L { s with next := L.length - 1, position := coff L (L.length - 1) }).next
      simp only [off] at i3
      rw [i2] at i3
      rw [if_pos (by omega)]

/-! ## one step against the cursor -/

theorem istep_spec (L : Layout α) (hL : WF L) (hS : Small L) (s : R α) (hi : Inv L s)
    (op : IOp) :
    Inv L (istep L (gziOf L) s op).1 ∧
    accepts (flat L) (EndOk L) (off L s) (s.data.length - s.cur) op
      (istep L (gziOf L) s op).2 (off L (istep L (gziOf L) s op).1) := by
  cases op with
  | read n =>
    obtain ⟨r1, r2, r3, r4, r5, _⟩ := read_spec L hL s n hi
    exact ⟨r1, r2, r3, r4, r5⟩
  | readExact n =>
    obtain ⟨r1, _, r3, r4⟩ := readExact_spec L hL s n hi
    simp only [istep]
    rcases Nat.lt_or_ge (flat L).length (off L s + n) with h | h
    · obtain ⟨a, b⟩ := r4 h
      split <;> rename_i heq <;> rw [heq] at a b r1
      · cases a
      · simp only at a b r1 ⊢
        cases a
        exact ⟨r1, h, rfl, b⟩
    · obtain ⟨a, b⟩ := r3 h
      split <;> rename_i heq <;> rw [heq] at a b r1
      · simp only at a b r1 ⊢
        cases a
        exact ⟨r1, h, rfl, b⟩
      · cases a
  | fillBuf =>
    obtain ⟨r1, r2, r3, r4, _⟩ := fillBuf_spec L s hi
    have hbuf := prefix_of_buf L _ r1
    rw [← r3, r2] at hbuf
    refine ⟨r1, hbuf, ⟨r4, ?_⟩, r2⟩
    intro h
    show (fillBuf L s).2 = []
    rw [h] at hbuf
    rw [hbuf]; simp
  | consume n =>
    refine ⟨consume_inv L s n hi, ?_⟩
    exact consume_off L s n hi
  | seek f =>
    cases f with
    | start p =>
      simp only [istep, seekFrom]
      have hinv := seekU_inv' L hL hS s p hi
      by_cases hp : p < (flat L).length ∨ (p = (flat L).length ∧ EndOk L)
      · obtain ⟨a, b, c⟩ := seekU_le_spec L hL hS s p hp
        split <;> rename_i heq <;> rw [heq] at a b c
        · simp only at a b c ⊢
          refine ⟨b, ?_, rfl, c⟩
          rcases hp with hp | hp <;> omega
        · simp at a
      · have hcase : (flat L).length < p ∨ (p = (flat L).length ∧ ¬ EndOk L) := by
          by_cases hlt : (flat L).length < p
          · exact Or.inl hlt
          · right
            have hne : ¬ p < (flat L).length := fun h => hp (Or.inl h)
            have : p = (flat L).length := by omega
            exact ⟨this, fun hE => hp (Or.inr ⟨this, hE⟩)⟩
        have herr : (IR.seekU L (gziOf L) s p).2 = some .invalidInput ∨
            (IR.seekU L (gziOf L) s p).2 = some .invalidData := by
          rcases hcase with h | ⟨h, hE⟩
          · rcases seekU_beyond L hL s p h with h' | h'
            · exact Or.inl h'
            · right; rw [h']
          · right; rw [h, seekU_end_full L s hE]
        split <;> rename_i heq <;> rw [heq] at herr hinv
        · simp at herr
        · simp only at herr hinv ⊢
          refine ⟨hinv, ⟨hcase, ?_⟩, off_le L _⟩
          rcases herr with h | h
          · left; cases h; rfl
          · right; cases h; rfl
    | current d => exact ⟨hi, rfl⟩
    | «end» d => exact ⟨hi, rfl⟩
  | streamPosition => exact ⟨hi, rfl⟩
  | position => exact ⟨hi, rfl⟩
  | vpos => exact ⟨hi, rfl⟩

/-! ## a seek forgets the state before -/

theorem readBlock_congr (L : Layout α) (s₁ s₂ : R α) (hn : s₁.next = s₂.next)
    (hp : s₁.position = s₂.position) : readBlock L s₁ = readBlock L s₂ := by
  fun_induction readBlock L s₁ generalizing s₂ with
  | case1 s hnone =>
    rw [readBlock.eq_def]
    split
    · rw [hn, hp]
    · rename_i b hb; rw [← hn, hnone] at hb; cases hb
  | case2 s b hb s' hpos =>
    rw [readBlock.eq_def L s₂]
    split
    · rename_i hnone; rw [← hn, hb] at hnone; cases hnone
    · rename_i b' hb'
      rw [← hn, hb] at hb'; cases hb'
      simp only [s']
      rw [if_pos hpos, hn, hp]
  | case3 s b hb s' hnpos ih =>
    rw [readBlock.eq_def L s₂]
    split
    · rename_i hnone; rw [← hn, hb] at hnone; cases hnone
    · rename_i b' hb'
      rw [← hn, hb] at hb'; cases hb'
      simp only
      rw [if_neg hnpos]
      apply ih
      · simp only [s']; rw [hn]
      · simp only [s']; rw [hp]

theorem seekU_state_indep (L : Layout α) (g : Gzi) (s₁ s₂ : R α) (pos : Nat)
    (h : (IR.seekU L g s₁ pos).2 = none) : IR.seekU L g s₁ pos = IR.seekU L g s₂ pos := by
  unfold IR.seekU at h ⊢
  cases hq : query g pos with
  | error e => rw [hq] at h; simp at h
  | ok cu =>
    obtain ⟨c, u⟩ := cu
    rw [hq] at h
    simp only at h ⊢
    unfold seek at h ⊢
    cases hm : memberAt L c with
    | none => rw [hm] at h; simp at h
    | some k =>
      simp only
      rw [readBlock_congr L { s₁ with next := k, position := c } { s₂ with next := k, position := c }
        rfl rfl]

/-! ## monotonicity of query -/

theorem takeWhile_length_mono {β : Type} (p q : β → Bool) (g : List β)
    (h : ∀ x, p x = true → q x = true) : (g.takeWhile p).length ≤ (g.takeWhile q).length := by
  induction g with
  | nil => simp
  | cons a g ih =>
    rw [List.takeWhile_cons, List.takeWhile_cons]
    by_cases hp : p a = true
    · rw [if_pos hp, if_pos (h a hp)]; simp; exact ih
    · rw [if_neg hp]; simp

theorem entry_gziOf (L : Layout α) (pos : Nat) :
    partitionPoint (gziOf L) pos ≤ L.length - 1 ∧
    entry (gziOf L) pos =
      (coff L (partitionPoint (gziOf L) pos), uoff L (partitionPoint (gziOf L) pos)) := by
  have hle : partitionPoint (gziOf L) pos ≤ L.length - 1 := by
    rw [← gziOf_length]; exact takeWhile_length_le _ _
  refine ⟨hle, ?_⟩
  unfold entry
  by_cases h0 : partitionPoint (gziOf L) pos = 0
  · rw [if_pos h0, h0, coff_zero, uoff_zero]
  · rw [if_neg h0]
    have := gziOf_getElem? L (partitionPoint (gziOf L) pos - 1) (by omega)
    rw [getElem!_def, this]
    have e : partitionPoint (gziOf L) pos - 1 + 1 = partitionPoint (gziOf L) pos := by omega
    rw [e]

theorem query_ok (g : Gzi) (pos : Nat) (v : Nat × Nat) (h : query g pos = .ok v) :
    v = ((entry g pos).1, pos - (entry g pos).2) := by
  rw [query_eq] at h
  split at h
  · cases h
  · split at h
    · cases h
    · cases h; rfl

theorem query_mono (L : Layout α) (hL : WF L) (p q : Nat) (hpq : p ≤ q) (v w : Nat × Nat)
    (hv : query (gziOf L) p = .ok v) (hw : query (gziOf L) q = .ok w) : VLe v w := by
  rw [query_ok _ _ _ hv, query_ok _ _ _ hw]
  obtain ⟨hi, ei⟩ := entry_gziOf L p
  obtain ⟨hj, ej⟩ := entry_gziOf L q
  rw [ei, ej]
  have hij : partitionPoint (gziOf L) p ≤ partitionPoint (gziOf L) q := by
    unfold partitionPoint
    apply takeWhile_length_mono
    intro x hx
    simp at hx ⊢; omega
  rcases Nat.lt_or_ge (partitionPoint (gziOf L) p) (partitionPoint (gziOf L) q) with h | h
  · exact Or.inl (coff_strict L hL h (by omega))
  · have e : partitionPoint (gziOf L) p = partitionPoint (gziOf L) q := by omega
    rw [e]
    exact Or.inr ⟨rfl, by simp only; omega⟩

/-! ## reading to the end -/

theorem readAll_spec (L : Layout α) (hL : WF L) (n : Nat) (hn : 0 < n) (fuel : Nat) (s : R α)
    (hi : Inv L s) (acc : List α) (hf : (flat L).length - off L s < fuel) :
    readAll L n fuel s acc = acc ++ (flat L).drop (off L s) := by
  induction fuel generalizing s acc with
  | zero => omega
  | succ fuel ih =>
    obtain ⟨r1, r2, _, r4, r5, _⟩ := read_spec L hL s n hi
    simp only [readAll]
    by_cases he : (read L s n).2 = []
    · rw [he]
      simp only [List.isEmpty_nil, if_true]
      rcases r4 he with h | h
      · omega
      · rw [h]; simp
    · have hne : (read L s n).2.isEmpty = false := by
        cases hh : (read L s n).2 with
        | nil => exact absurd hh he
        | cons a l => rfl
      rw [hne]
      simp only [Bool.false_eq_true, if_false]
      have hk : 0 < (read L s n).2.length := by
        cases hh : (read L s n).2 with
        | nil => exact absurd hh he
        | cons a l => simp
      have hlen := congrArg List.length r2
      simp only [List.length_take, List.length_drop] at hlen
      rw [ih _ r1 _ (by rw [r5]; omega), r5, List.append_assoc]
      congr 1
      have hsplit := List.take_append_drop (read L s n).2.length ((flat L).drop (off L s))
      rw [← r2, List.drop_drop] at hsplit
      exact hsplit

/-! ## histories -/

theorem irun_inv (L : Layout α) (hL : WF L) (hS : Small L) (ops : List IOp) (s : R α)
    (hi : Inv L s) : Inv L (irun L (gziOf L) s ops).1 := by
  induction ops generalizing s with
  | nil => exact hi
  | cons op ops ih => exact ih _ (istep_spec L hL hS s hi op).1

theorem refines_of_inv (L : Layout α) (hL : WF L) (hS : Small L) (ops : List IOp) (s : R α)
    (hi : Inv L s) : Refines L (gziOf L) s ops := by
  induction ops generalizing s with
  | nil => trivial
  | cons op ops ih =>
    obtain ⟨h1, h2⟩ := istep_spec L hL hS s hi op
    exact ⟨⟨off L s, off L (istep L (gziOf L) s op).1, cursor_of_inv L hL s hi,
      cursor_of_inv L hL _ h1, h2⟩, ih _ h1⟩

theorem irun_eq_cursor (L : Layout α) (hL : WF L) (hS : Small L) (hE : EndOk L)
    (ops : List IOp) (s : R α) (hi : Inv L s) (outs : List (IOut α))
    (h : cursorRun (flat L) (off L s) ops = some outs) :
    (irun L (gziOf L) s ops).2 = outs := by
  induction ops generalizing s outs with
  | nil => simp [cursorRun] at h; simp [irun, h]
  | cons op ops ih =>
    obtain ⟨h1, h2⟩ := istep_spec L hL hS s hi op
    simp only [cursorRun] at h
    cases hc : cursorStep (flat L) (off L s) op with
    | none => rw [hc] at h; simp at h
    | some r =>
      obtain ⟨o', out⟩ := r
      rw [hc] at h
      simp only [Option.map_eq_some_iff] at h
      obtain ⟨rest, hrest, rfl⟩ := h
      -- the model's answer is the cursor's
      have key : (istep L (gziOf L) s op).2 = out ∧ off L (istep L (gziOf L) s op).1 = o' := by
        cases op with
        | readExact n =>
          simp only [cursorStep] at hc
          generalize (istep L (gziOf L) s (.readExact n)).2 = y at h2
          generalize off L (istep L (gziOf L) s (.readExact n)).1 = z at h2
          split at hc
          · cases hc
            cases y <;> simp only [accepts] at h2
            · obtain ⟨_, rfl, rfl⟩ := h2; exact ⟨rfl, rfl⟩
            · omega
          · cases hc
            cases y <;> simp only [accepts] at h2
            · omega
            · obtain ⟨_, rfl, rfl⟩ := h2; exact ⟨rfl, rfl⟩
        | seek f =>
          cases f with
          | start p =>
            simp only [cursorStep] at hc
            generalize (istep L (gziOf L) s (.seek (.start p))).2 = y at h2
            generalize off L (istep L (gziOf L) s (.seek (.start p))).1 = z at h2
            split at hc
            · cases hc
              cases y <;> simp only [accepts] at h2
              · obtain ⟨_, rfl, rfl⟩ := h2; exact ⟨rfl, rfl⟩
              · obtain ⟨⟨hh, _⟩, _⟩ := h2
                rcases hh with hh | ⟨_, hh⟩
                · omega
                · exact absurd hE hh
            · cases hc
          | current d => simp [cursorStep] at hc
          | «end» d => simp [cursorStep] at hc
        | read n => simp [cursorStep] at hc
        | fillBuf => simp [cursorStep] at hc
        | consume n => simp [cursorStep] at hc
        | streamPosition => simp [cursorStep] at hc
        | position => simp [cursorStep] at hc
        | vpos => simp [cursorStep] at hc
      simp only [irun]
      rw [key.1, ih _ h1 rest (by rw [key.2]; exact hrest)]

end Noodles.Bgzf.IR
