import Noodles.Bgzf.IndexedReader
import Noodles.Bgzf.IndexedReaderProof
/-!
# `slice::partition_point` as std implements it (binary search) agrees with the contract used by
`IR.partitionPoint` on every index sorted by uncompressed offset

Transcribed from rust `library/core/src/slice/mod.rs` `binary_search_by` (the branch-free loop
`while size > 1 { half = size / 2; mid = base + half; base = if cmp == Greater { base } else { mid };
size -= half }`, then one final comparison) with the comparator of `partition_point`
(`if pred(x) { Less } else { Greater }`, so `Equal` never occurs and the result is
`base + (cmp == Less) as usize`).
-/
namespace Noodles.Bgzf.IR
open Noodles.Bgzf.RM

/-- the loop; `fuel` bounds the number of iterations (`size` strictly decreases) -/
def bsLoop (g : Gzi) (pos : Nat) : Nat → Nat → Nat → Nat
  | 0, base, _ => base
  | fuel + 1, base, size =>
    if size ≤ 1 then base else
    let half := size / 2
    let mid := base + half
    bsLoop g pos fuel (if (g[mid]!).2 ≤ pos then mid else base) (size - half)

/-- `self.0.partition_point(|r| r.1 <= pos)` as executed -/
def partitionPointBS (g : Gzi) (pos : Nat) : Nat :=
  if g.length = 0 then 0 else
  let base := bsLoop g pos g.length 0 g.length
  base + (if (g[base]!).2 ≤ pos then 1 else 0)

/-- sorted by uncompressed offset -/
def SortedU (g : Gzi) : Prop :=
  ∀ (i j : Nat) (a b : Nat × Nat), i ≤ j → g[i]? = some a → g[j]? = some b → a.2 ≤ b.2

/-- on a sorted index the predicate holds exactly on the prefix of length `partitionPoint` -/
theorem pred_iff (g : Gzi) (pos : Nat) (hs : SortedU g) (i : Nat) (hi : i < g.length) :
    (g[i]!).2 ≤ pos ↔ i < partitionPoint g pos := by
  have hgi : g[i]? = some g[i] := List.getElem?_eq_getElem hi
  have hbang : g[i]! = g[i] := by rw [getElem!_def, hgi]
  rw [hbang]
  constructor
  · intro h
    apply Classical.byContradiction
    intro hn
    have hk : partitionPoint g pos ≤ i := by omega
    have hklen : partitionPoint g pos < g.length := by omega
    have hgk : g[partitionPoint g pos]? = some g[partitionPoint g pos] :=
      List.getElem?_eq_getElem hklen
    have hstop := takeWhile_stop (fun r : Nat × Nat => decide (r.2 ≤ pos)) g _ hgk
    have := hs _ _ _ _ hk hgk hgi
    simp at hstop
    omega
  · intro h
    obtain ⟨x, hx, hpx⟩ := takeWhile_last (fun r : Nat × Nat => decide (r.2 ≤ pos)) g i h
    rw [hgi] at hx; cases hx
    simpa using hpx

theorem bsLoop_spec (g : Gzi) (pos : Nat) (hs : SortedU g) (fuel base size : Nat)
    (h1 : 1 ≤ size) (h2 : base + size ≤ g.length) (h3 : base = 0 ∨ base < partitionPoint g pos)
    (h4 : partitionPoint g pos ≤ base + size) (hf : size ≤ fuel + 1) :
    let b := bsLoop g pos fuel base size
    b < g.length ∧ (b = 0 ∨ b < partitionPoint g pos) ∧ partitionPoint g pos ≤ b + 1 := by
  induction fuel generalizing base size with
  | zero =>
    simp only [bsLoop]
    exact ⟨by omega, h3, by omega⟩
  | succ fuel ih =>
    simp only [bsLoop]
    by_cases hsz : size ≤ 1
    · rw [if_pos hsz]
      exact ⟨by omega, h3, by omega⟩
    · rw [if_neg hsz]
      have hhalf : 1 ≤ size / 2 := by omega
      have hhalf2 : size / 2 ≤ size - size / 2 := by omega
      have hmid : base + size / 2 < g.length := by omega
      have hp := pred_iff g pos hs (base + size / 2) hmid
      by_cases hpred : (g[base + size / 2]!).2 ≤ pos
      · rw [if_pos hpred]
        exact ih (base + size / 2) (size - size / 2) (by omega) (by omega)
          (Or.inr (hp.mp hpred)) (by omega) (by omega)
      · rw [if_neg hpred]
        have : ¬ base + size / 2 < partitionPoint g pos := fun h => hpred (hp.mpr h)
        exact ih base (size - size / 2) (by omega) (by omega) h3 (by omega) (by omega)

/-- std's binary search computes the partition point of every sorted index -/
theorem partitionPointBS_eq (g : Gzi) (pos : Nat) (hs : SortedU g) :
    partitionPointBS g pos = partitionPoint g pos := by
  unfold partitionPointBS
  by_cases h0 : g.length = 0
  · rw [if_pos h0]
    have := takeWhile_length_le (fun r : Nat × Nat => decide (r.2 ≤ pos)) g
    unfold partitionPoint; omega
  · rw [if_neg h0]
    have hle : partitionPoint g pos ≤ g.length :=
      takeWhile_length_le (fun r : Nat × Nat => decide (r.2 ≤ pos)) g
    obtain ⟨b1, b2, b3⟩ := bsLoop_spec g pos hs g.length 0 g.length (by omega) (by omega)
      (Or.inl rfl) (by omega) (by omega)
    simp only
    have hp := pred_iff g pos hs _ b1
    by_cases hpred : (g[bsLoop g pos g.length 0 g.length]!).2 ≤ pos
    · rw [if_pos hpred]
      have := hp.mp hpred
      omega
    · rw [if_neg hpred]
      have : ¬ bsLoop g pos g.length 0 g.length < partitionPoint g pos := fun h => hpred (hp.mpr h)
      rcases b2 with h | h
      · omega
      · exact absurd h this

/-- the index of a layout is sorted -/
theorem gziOf_sorted {α : Type} (L : Layout α) : SortedU (gziOf L) := by
  unfold SortedU
  intro i j a b hij ha hb
  obtain ⟨_, rfl⟩ := gziOf_getElem?_some L i a ha
  obtain ⟨_, rfl⟩ := gziOf_getElem?_some L j b hb
  exact uoff_mono L (by omega)

end Noodles.Bgzf.IR
