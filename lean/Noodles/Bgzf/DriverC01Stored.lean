import Noodles.Bgzf.Driver
import Noodles.Bgzf.Stored
/-! Line-protocol handler for the level-0 / stored-block extension (`c01 stored …`). No table of
library answers: the deflater is `storedDeflater`, the readers are the independent ones. -/
namespace Noodles.Bgzf.StoredDrv
open Noodles.Wire hiding Bytes
open Noodles.Codec Noodles.Bgzf

/-- the library as the model sees it on the fallback path: at a level other than 0 the output
"does not fit" (as the harness observed for the real library on that request), level 0 is the
stored deflater — so `encodeBlock` takes its second branch. -/
def fallbackDeflater : Deflater where
  deflate := fun l x => if l = 0 then storedDeflate x else List.replicate (MAX_COMPRESSED + 1) 0
  inflate := inflateExact
  crc := Crc32.crc32

def gzErrStr : GzErr → String
  | .truncated => "err:eof"
  | .badNlen => "err:nlen"
  | .unsupported => "err:unsupported"
  | .badBtype => "err:btype"
  | .badMagic => "err:magic"
  | .badMethod => "err:method"
  | .badFlags => "err:flags"
  | .badHcrc => "err:hcrc"
  | .badCrc => "err:crc"
  | .badIsize => "err:isize"
  | .fuel => "panic"

def handle? : List String → Option String
  | ["stored", "hist", lvl, _fin, ops] => some <|
    match lvl.toNat?, parseOps ops with
    | some lvl, some ops =>
      let D := if lvl = 0 then storedDeflater else fallbackDeflater
      let (w, outs, ok) := replay D lvl Writer.init ops []
      let per := if outs.isEmpty then "-" else ",".intercalate outs
      if !ok then s!"{per} | end=aborted" else
      match finish D lvl w with
      | .ok w' => s!"{per} | end=ok sink={w'.sink.length}:{Crc32.crc32 w'.sink} pos={w'.position}"
      | .error e => s!"{per} | end={errStr e}"
    | _, _ => "bad-op"
  | ["stored", "deflate", x] => some <|
    match unhex x with
    | some x => let c := storedDeflate x; s!"{c.length}:{Crc32.crc32 c}"
    | none => "bad-op"
  | ["stored", "member", x] => some <|
    -- the level-0 member for one staged block, whole bytes
    match unhex x with
    | some x =>
      match flushBlock storedDeflater 0 ⟨x, 0, []⟩ with
      | .ok w => hex w.sink
      | .error e => errStr e
    | none => "bad-op"
  | ["stored", "inflate", c] => some <|
    match unhex c with
    | some c =>
      match inflateStored (c.length + 1) c with
      | .ok (d, r) => s!"ok:{d.length}:{Crc32.crc32 d}:rest{r.length}"
      | .error e => gzErrStr e
    | none => "bad-op"
  | ["stored", "gunzip", f] => some <|
    match unhex f with
    | some f =>
      match gunzipAll f with
      | .ok d => s!"ok:{d.length}:{Crc32.crc32 d}"
      | .error e => gzErrStr e
    | none => "bad-op"
  | ["stored", "readall", f] => some <|
    -- noodles' own frame reader model over the independent inflater
    match unhex f with
    | some f =>
      match readToEnd storedDeflater f with
      | .ok d => s!"ok:{d.length}:{Crc32.crc32 d}"
      | .error e => errStr e
    | none => "bad-op"
  | _ => none

end Noodles.Bgzf.StoredDrv
