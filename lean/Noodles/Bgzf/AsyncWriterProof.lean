import Noodles.Bgzf.AsyncWriter
import Noodles.Bgzf.FrameProof
/-!
# Helper lemmas for C16 (async BGZF writer): under EVERY script the poll machine moves the submitted
blocks through the pipeline in order and loses nothing; the blocks it submits are the blocks the sync
writer emits for the same calls.
-/
namespace Noodles.Bgzf.AW
open Noodles.Codec Noodles.Bgzf
open Noodles.Bgzf.Async (Poll1)

/-- the frame both writers append for a staged block (`[]` when encoding fails) -/
def encT (D : Deflater) (lvl : Nat) (x : Bytes) : Bytes :=
  match encodeBlock D lvl x with
  | .error _ => []
  | .ok c => match frame c (D.crc x) x.length with
    | .error _ => []
    | .ok fr => fr

/-- the block encodes without error -/
def Enc (D : Deflater) (lvl : Nat) (x : Bytes) : Prop :=
  ∃ c fr, encodeBlock D lvl x = .ok c ∧ frame c (D.crc x) x.length = .ok fr

theorem enc_of_lawful (D : Deflater) (hD : D.Lawful) (lvl : Nat) (x : Bytes) (hx : x.length ≤ MAX_BUF) :
    Enc D lvl x := by
  obtain ⟨c, h1, h2, _⟩ := encodeBlock_ok D hD lvl x hx
  have hi : x.length < 2^32 := by rw [MAX_BUF_eq] at hx; omega
  exact ⟨c, _, h1, frame_ok c _ _ h2 hi⟩

def slotBytes (D : Deflater) (lvl : Nat) : Option Bytes → Bytes
  | some x => encT D lvl x
  | none => []

def queueBytes (D : Deflater) (lvl : Nat) (q : List Bytes) : Bytes := (q.map (encT D lvl)).flatten

/-- everything submitted so far, in submission order: accepted by the sink, buffered by the framed
writer, awaited in the slot, queued in the buffer -/
def pipe (D : Deflater) (lvl : Nat) (w : AW) : Bytes :=
  w.sink ++ w.wbuf ++ slotBytes D lvl w.slot ++ queueBytes D lvl w.queue

structure Good (D : Deflater) (lvl : Nat) (w : AW) : Prop where
  slot : ∀ x, w.slot = some x → Enc D lvl x
  queue : ∀ x ∈ w.queue, Enc D lvl x

/-- what every pipeline poll guarantees -/
structure PSpec (D : Deflater) (lvl : Nat) (w : AW) (sd : WSched) (r : AW × WSched × WP) : Prop where
  good : Good D lvl r.1
  pipe : pipe D lvl r.1 = pipe D lvl w
  stag : r.1.staging = w.staging
  eofL : r.1.eofLeft = w.eofLeft
  qlen : r.1.queue.length ≤ w.queue.length
  meas : r.2.1.measure ≤ sd.measure
  pend : r.2.2 = .pending → r.2.1.measure < sd.measure
  noerr : ∀ e, r.2.2 ≠ .err e

theorem fwFlush_spec (sc : List Poll1) (w : AW) :
    (fwFlush sc w).1.sink ++ (fwFlush sc w).1.wbuf = w.sink ++ w.wbuf ∧
    (fwFlush sc w).1.slot = w.slot ∧ (fwFlush sc w).1.queue = w.queue ∧
    (fwFlush sc w).1.staging = w.staging ∧ (fwFlush sc w).1.eofLeft = w.eofLeft ∧
    (fwFlush sc w).2.1.length ≤ sc.length ∧
    ((fwFlush sc w).2.2 = .pending → (fwFlush sc w).2.1.length < sc.length) ∧
    (∀ e, (fwFlush sc w).2.2 ≠ .err e) ∧
    ((fwFlush sc w).2.2 = .ready → (fwFlush sc w).1.wbuf = []) := by
  induction sc generalizing w with
  | nil => simp [fwFlush]
  | cons ev sc ih =>
    unfold fwFlush
    by_cases he : w.wbuf.isEmpty
    · simp only [he, if_true]
      cases ev with
      | pending => simp
      | ready n => simpa using he
    · simp only [he, Bool.false_eq_true, if_false]
      cases ev with
      | pending => simp
      | ready n =>
        simp only
        obtain ⟨h1, h2, h3, h4, h5, h6, h7, h8, h9⟩ :=
          ih { w with sink := w.sink ++ w.wbuf.take (max n 1), wbuf := w.wbuf.drop (max n 1) }
        refine ⟨?_, h2, h3, h4, h5, by simp only [List.length_cons]; omega, ?_, h8, h9⟩
        · rw [h1]; simp only [List.append_assoc, List.take_append_drop]
        · intro hp; have := h7 hp; simp only [List.length_cons]; omega

theorem encT_of_enc (D : Deflater) (lvl : Nat) (x c fr : Bytes) (h1 : encodeBlock D lvl x = .ok c)
    (h2 : frame c (D.crc x) x.length = .ok fr) : encT D lvl x = fr := by
  simp only [encT, h1, h2]

theorem dfDone_spec (D : Deflater) (lvl : Nat) (w : AW) (sd : WSched) (x : Bytes)
    (hs : w.slot = some x) (hg : Good D lvl w) :
    PSpec D lvl w sd (dfDone D lvl w sd x) ∧ (dfDone D lvl w sd x).1.slot = none ∧
    (dfDone D lvl w sd x).2.2 = .ready ∧ (dfDone D lvl w sd x).1.queue = w.queue ∧
    (dfDone D lvl w sd x).2.1 = sd := by
  obtain ⟨c, fr, h1, h2⟩ := hg.slot x hs
  unfold dfDone
  simp only [h1, h2]
  refine ⟨⟨⟨(by intro y hy; cases hy), hg.queue⟩, ?_, (by trivial), (by trivial), Nat.le_refl _, Nat.le_refl _,
    (by intro h; cases h), (by intro e h; cases h)⟩, (by trivial), (by trivial), (by trivial), (by trivial)⟩
  simp only [pipe, hs, slotBytes, encT_of_enc D lvl x c fr h1 h2, List.append_assoc, List.append_nil]

theorem dfPoll_spec (D : Deflater) (lvl : Nat) (w : AW) (sd : WSched) (hg : Good D lvl w) :
    PSpec D lvl w sd (dfPoll D lvl w sd) ∧ (dfPoll D lvl w sd).1.queue = w.queue ∧
    ((dfPoll D lvl w sd).2.2 = .ready → (dfPoll D lvl w sd).1.slot = none) := by
  unfold dfPoll
  cases hs : w.slot with
  | none =>
    simp only
    exact ⟨⟨hg, (by trivial), (by trivial), (by trivial), Nat.le_refl _, Nat.le_refl _, (by intro h; cases h), (by intro e h; cases h)⟩,
      (by trivial), fun _ => hs⟩
  | some x =>
    simp only
    cases hd : sd.defl with
    | nil =>
      simp only
      obtain ⟨p, q1, q2, q3, q4⟩ := dfDone_spec D lvl w sd x hs hg
      exact ⟨p, q3, fun _ => q1⟩
    | cons b d =>
      cases b with
      | false =>
        simp only
        refine ⟨⟨hg, (by trivial), (by trivial), (by trivial), Nat.le_refl _, ?_, ?_, (by intro e h; cases h)⟩, (by trivial),
          (by intro h; cases h)⟩
        · simp only [WSched.measure, hd, List.length_cons]; omega
        · intro _; simp only [WSched.measure, hd, List.length_cons]; omega
      | true =>
        simp only
        obtain ⟨p, q1, q2, q3, q4⟩ := dfDone_spec D lvl w ⟨sd.sink, d⟩ x hs hg
        refine ⟨⟨p.good, p.pipe, p.stag, p.eofL, p.qlen, ?_, ?_, p.noerr⟩, q3, fun _ => q1⟩
        · rw [q4]; simp only [WSched.measure, hd, List.length_cons]; omega
        · intro h; rw [q2] at h; cases h

theorem dfReady_spec (D : Deflater) (lvl : Nat) (w : AW) (sd : WSched) (hg : Good D lvl w) :
    PSpec D lvl w sd (dfReady D lvl w sd) ∧ (dfReady D lvl w sd).1.queue = w.queue ∧
    ((dfReady D lvl w sd).2.2 = .ready →
      (dfReady D lvl w sd).1.slot = none ∧ (dfReady D lvl w sd).1.wbuf = []) := by
  obtain ⟨p, pq, pr⟩ := dfPoll_spec D lvl w sd hg
  unfold dfReady
  generalize dfPoll D lvl w sd = r1 at p pq pr
  obtain ⟨w1, sd1, r⟩ := r1
  cases r with
  | pending => exact ⟨p, pq, (by intro h; cases h)⟩
  | err e => exact absurd rfl (p.noerr e)
  | ready =>
    simp only at pq pr ⊢
    have hs1 := pr trivial
    obtain ⟨f1, f2, f3, f4, f5, f6, f7, f8, f9⟩ := fwFlush_spec sd1.sink w1
    generalize fwFlush sd1.sink w1 = r2 at f1 f2 f3 f4 f5 f6 f7 f8 f9
    obtain ⟨w2, sc2, r'⟩ := r2
    simp only at f1 f2 f3 f4 f5 f6 f7 f8 f9 ⊢
    have pg := p.good; have pp := p.pipe; have ps := p.stag; have pe := p.eofL
    have pl := p.qlen; have pm := p.meas
    simp only at pg pp ps pe pl pm
    refine ⟨⟨⟨by rw [f2]; exact pg.slot, by rw [f3]; exact pg.queue⟩, ?_, by rw [f4, ps],
      by rw [f5, pe], by rw [f3]; exact pl, ?_, ?_, f8⟩, by rw [f3, pq], ?_⟩
    · rw [← pp]; simp only [pipe, f2, f3]; rw [f1]
    · simp only [WSched.measure] at pm ⊢; omega
    · intro h; have := f7 h; simp only [WSched.measure] at pm ⊢; omega
    · intro h; exact ⟨by rw [f2]; exact hs1, f9 h⟩

theorem PSpec_rebase {D : Deflater} {lvl : Nat} {w w1 : AW} {sd sd1 : WSched} {r : AW × WSched × WP}
    (h : PSpec D lvl w1 sd1 r) (hp : pipe D lvl w1 = pipe D lvl w) (hs : w1.staging = w.staging)
    (he : w1.eofLeft = w.eofLeft) (hq : w1.queue.length ≤ w.queue.length)
    (hm : sd1.measure ≤ sd.measure) : PSpec D lvl w sd r :=
  ⟨h.good, by rw [h.pipe, hp], by rw [h.stag, hs], by rw [h.eofL, he], Nat.le_trans h.qlen hq,
    Nat.le_trans h.meas hm, fun hp' => Nat.lt_of_lt_of_le (h.pend hp') hm, h.noerr⟩

theorem queueBytes_cons (D : Deflater) (lvl : Nat) (x : Bytes) (q : List Bytes) :
    queueBytes D lvl (x :: q) = encT D lvl x ++ queueBytes D lvl q := by
  simp [queueBytes]

theorem queueBytes_snoc (D : Deflater) (lvl : Nat) (x : Bytes) (q : List Bytes) :
    queueBytes D lvl (q ++ [x]) = queueBytes D lvl q ++ encT D lvl x := by
  simp [queueBytes]

theorem tebLoop_spec (D : Deflater) (lvl : Nat) (q : List Bytes) (w : AW) (sd : WSched)
    (hg : Good D lvl w) (hs : w.slot = none) (hq : w.queue = q) :
    PSpec D lvl w sd (tebLoop D lvl q w sd) ∧
    ((tebLoop D lvl q w sd).2.2 = .ready → (tebLoop D lvl q w sd).1.queue = []) := by
  induction q generalizing w sd with
  | nil =>
    unfold tebLoop
    exact ⟨⟨hg, rfl, rfl, rfl, Nat.le_refl _, Nat.le_refl _, (by intro h; cases h),
      (by intro e h; cases h)⟩, fun _ => hq⟩
  | cons x q ih =>
    unfold tebLoop
    have hx : Enc D lvl x := hg.queue x (by rw [hq]; simp)
    have hg1 : Good D lvl { w with slot := some x, queue := q } :=
      ⟨by intro y hy; simp only at hy; cases hy; exact hx,
       by intro y hy; exact hg.queue y (by rw [hq]; exact List.mem_cons_of_mem _ hy)⟩
    have hp1 : pipe D lvl { w with slot := some x, queue := q } = pipe D lvl w := by
      simp only [pipe, hs, hq, slotBytes, queueBytes_cons, List.append_assoc, List.nil_append]
    have hq1 : ({ w with slot := some x, queue := q } : AW).queue.length ≤ w.queue.length := by
      simp only [hq, List.length_cons]; omega
    by_cases he : q.isEmpty
    · simp only [he, if_true]
      refine ⟨⟨hg1, hp1, rfl, rfl, hq1, Nat.le_refl _, (by intro h; cases h),
        (by intro e h; cases h)⟩, fun _ => ?_⟩
      simpa using he
    · simp only [he, Bool.false_eq_true, if_false]
      obtain ⟨p, pq, pr⟩ := dfReady_spec D lvl { w with slot := some x, queue := q } sd hg1
      generalize dfReady D lvl { w with slot := some x, queue := q } sd = r1 at p pq pr
      obtain ⟨w2, sd2, r⟩ := r1
      cases r with
      | pending =>
        exact ⟨PSpec_rebase p hp1 rfl rfl hq1 (Nat.le_refl _), (by intro h; cases h)⟩
      | err e => exact absurd rfl (p.noerr e)
      | ready =>
        simp only at pq pr ⊢
        obtain ⟨hs2, _⟩ := pr trivial
        obtain ⟨i1, i2⟩ := ih w2 sd2 p.good hs2 pq
        have pp := p.pipe; have ps := p.stag; have pe := p.eofL; have pl := p.qlen; have pm := p.meas
        simp only at pp ps pe pl pm
        exact ⟨PSpec_rebase i1 (by rw [pp, hp1]) ps pe (Nat.le_trans pl hq1) pm, i2⟩

theorem tryEmpty_spec (D : Deflater) (lvl : Nat) (w : AW) (sd : WSched) (hg : Good D lvl w) :
    PSpec D lvl w sd (tryEmpty D lvl w sd) ∧
    ((tryEmpty D lvl w sd).2.2 = .ready → (tryEmpty D lvl w sd).1.queue = []) := by
  obtain ⟨p, pq, pr⟩ := dfReady_spec D lvl w sd hg
  unfold tryEmpty
  generalize dfReady D lvl w sd = r1 at p pq pr
  obtain ⟨w1, sd1, r⟩ := r1
  cases r with
  | pending => exact ⟨p, (by intro h; cases h)⟩
  | err e => exact absurd rfl (p.noerr e)
  | ready =>
    simp only at pq pr ⊢
    obtain ⟨hs1, _⟩ := pr trivial
    obtain ⟨i1, i2⟩ := tebLoop_spec D lvl w1.queue w1 sd1 p.good hs1 rfl
    have pp := p.pipe; have ps := p.stag; have pe := p.eofL; have pl := p.qlen; have pm := p.meas
    simp only at pp ps pe pl pm
    exact ⟨PSpec_rebase i1 pp ps pe pl pm, i2⟩

theorem bufReady_spec (D : Deflater) (lvl cap : Nat) (hcap : 1 ≤ cap) (w : AW) (sd : WSched)
    (hg : Good D lvl w) :
    PSpec D lvl w sd (bufReady D lvl cap w sd) := by
  obtain ⟨p, pr⟩ := tryEmpty_spec D lvl w sd hg
  unfold bufReady
  generalize tryEmpty D lvl w sd = r1 at p pr
  obtain ⟨w1, sd1, r⟩ := r1
  have pg := p.good; have pp := p.pipe; have ps := p.stag; have pe := p.eofL; have pl := p.qlen
  have pm := p.meas; have ppd := p.pend
  simp only at pg pp ps pe pl pm ppd
  cases r with
  | err e => exact absurd rfl (p.noerr e)
  | pending =>
    simp only
    have hlt := ppd rfl
    split
    · exact ⟨pg, pp, ps, pe, pl, pm, fun _ => hlt, (by intro e h; cases h)⟩
    · exact ⟨pg, pp, ps, pe, pl, pm, (by intro h; cases h), (by intro e h; cases h)⟩
  | ready =>
    simp only at pr ⊢
    have hq0 := pr trivial
    have : ¬ cap ≤ w1.queue.length := by rw [hq0]; simp only [List.length_nil]; omega
    rw [if_neg this]
    exact ⟨pg, pp, ps, pe, pl, pm, (by intro h; cases h), (by intro e h; cases h)⟩

/-- the frame of the staged bytes, were they submitted now -/
def stagedBytes (D : Deflater) (lvl : Nat) (w : AW) : Bytes :=
  if w.staging.isEmpty then [] else encT D lvl w.staging

/-- what a poll of `Writer::poll_flush` guarantees -/
structure FSpec (D : Deflater) (lvl : Nat) (w : AW) (sd : WSched) (r : AW × WSched × WP) : Prop where
  good : Good D lvl r.1
  content : pipe D lvl r.1 ++ stagedBytes D lvl r.1 = pipe D lvl w ++ stagedBytes D lvl w
  eofL : r.1.eofLeft = w.eofLeft
  meas : r.2.1.measure ≤ sd.measure
  pend : r.2.2 = .pending → r.2.1.measure < sd.measure ∧ r.1.staging = w.staging ∧
    pipe D lvl r.1 = pipe D lvl w
  noerr : ∀ e, r.2.2 ≠ .err e
  ready : r.2.2 = .ready → r.1.staging = []

theorem wFlush_spec (D : Deflater) (lvl cap : Nat) (hcap : 1 ≤ cap) (w : AW) (sd : WSched)
    (hg : Good D lvl w) (hst : w.staging.isEmpty = false → Enc D lvl w.staging) :
    FSpec D lvl w sd (wFlush D lvl cap w sd) := by
  unfold wFlush
  cases he : w.staging.isEmpty with
  | true =>
    simp only [if_true]
    exact ⟨hg, rfl, rfl, Nat.le_refl _, (by intro h; cases h), (by intro e h; cases h),
      fun _ => by simpa using he⟩
  | false =>
    simp only [Bool.false_eq_true, if_false]
    have p := bufReady_spec D lvl cap hcap w sd hg
    generalize bufReady D lvl cap w sd = r1 at p
    obtain ⟨w1, sd1, r⟩ := r1
    have pg := p.good; have pp := p.pipe; have ps := p.stag; have pe := p.eofL
    have pm := p.meas; have ppd := p.pend
    simp only at pg pp ps pe pm ppd
    cases r with
    | err e => exact absurd rfl (p.noerr e)
    | pending =>
      simp only
      refine ⟨pg, ?_, pe, pm, fun _ => ⟨ppd rfl, ps, pp⟩, (by intro e h; cases h),
        (by intro h; cases h)⟩
      simp only [stagedBytes, ps, pp]
    | ready =>
      simp only
      refine ⟨⟨pg.slot, ?_⟩, ?_, pe, pm, (by intro h; cases h), (by intro e h; cases h), fun _ => rfl⟩
      · intro y hy
        simp only [List.mem_append, List.mem_singleton] at hy
        rcases hy with hy | hy
        · exact pg.queue y hy
        · rw [hy, ps]; exact hst he
      · have pp' := congrArg (· ++ encT D lvl w.staging) pp
        simp only [pipe, List.append_assoc] at pp'
        simp only [stagedBytes, pipe, queueBytes_snoc, ps, he, List.isEmpty_nil, if_true,
          Bool.false_eq_true, if_false, List.append_nil, List.append_assoc]
        exact pp'

theorem eofWrite_spec (sc : List Poll1) (w : AW) :
    (eofWrite sc w).1.sink ++ (eofWrite sc w).1.eofLeft = w.sink ++ w.eofLeft ∧
    (eofWrite sc w).1.slot = w.slot ∧ (eofWrite sc w).1.queue = w.queue ∧
    (eofWrite sc w).1.staging = w.staging ∧ (eofWrite sc w).1.wbuf = w.wbuf ∧
    (eofWrite sc w).2.1.length ≤ sc.length ∧
    ((eofWrite sc w).2.2 = .pending → (eofWrite sc w).2.1.length < sc.length) ∧
    (∀ e, (eofWrite sc w).2.2 ≠ .err e) ∧
    ((eofWrite sc w).2.2 = .ready → (eofWrite sc w).1.eofLeft = []) := by
  induction sc generalizing w with
  | nil => simp [eofWrite]
  | cons ev sc ih =>
    unfold eofWrite
    by_cases he : w.eofLeft.isEmpty
    · simp only [he, if_true]
      simpa using he
    · simp only [he, Bool.false_eq_true, if_false]
      cases ev with
      | pending => simp
      | ready n =>
        simp only
        obtain ⟨h1, h2, h3, h4, h5, h6, h7, h8, h9⟩ :=
          ih { w with sink := w.sink ++ w.eofLeft.take (max n 1), eofLeft := w.eofLeft.drop (max n 1) }
        refine ⟨?_, h2, h3, h4, h5, by simp only [List.length_cons]; omega, ?_, h8, h9⟩
        · rw [h1]; simp only [List.append_assoc, List.take_append_drop]
        · intro hp; have := h7 hp; simp only [List.length_cons]; omega

/-- all the bytes the sink must end up with: submitted frames, the frame of the staged bytes, and the
unwritten rest of the EOF marker -/
def total (D : Deflater) (lvl : Nat) (w : AW) : Bytes :=
  pipe D lvl w ++ stagedBytes D lvl w ++ w.eofLeft

structure SSpec (D : Deflater) (lvl : Nat) (w : AW) (sd : WSched) (r : AW × WSched × WP) : Prop where
  good : Good D lvl r.1
  total : total D lvl r.1 = total D lvl w
  stOK : r.1.staging.isEmpty = false → Enc D lvl r.1.staging
  meas : r.2.1.measure ≤ sd.measure
  pend : r.2.2 = .pending → r.2.1.measure < sd.measure
  noerr : ∀ e, r.2.2 ≠ .err e
  ready : r.2.2 = .ready → r.1.sink = AW.total D lvl w ∧ r.1.queue = [] ∧ r.1.slot = none ∧
    r.1.wbuf = [] ∧ r.1.staging = [] ∧ r.1.eofLeft = []

theorem stagedBytes_nil (D : Deflater) (lvl : Nat) (w : AW) (h : w.staging = []) :
    stagedBytes D lvl w = [] := by
  simp [stagedBytes, h]

theorem wShutdown_spec (D : Deflater) (lvl cap : Nat) (hcap : 1 ≤ cap) (w : AW) (sd : WSched)
    (hg : Good D lvl w) (hst : w.staging.isEmpty = false → Enc D lvl w.staging) :
    SSpec D lvl w sd (wShutdown D lvl cap w sd) := by
  unfold wShutdown
  have f := wFlush_spec D lvl cap hcap w sd hg hst
  generalize wFlush D lvl cap w sd = r1 at f
  obtain ⟨w1, sd1, r⟩ := r1
  have fg := f.good; have fc := f.content; have fe := f.eofL; have fm := f.meas
  have fp := f.pend; have fr := f.ready
  simp only at fg fc fe fm fp fr
  cases r with
  | err e => exact absurd rfl (f.noerr e)
  | pending =>
    obtain ⟨a1, a2, a3⟩ := fp rfl
    exact ⟨fg, by simp only [total, fc, fe], by rw [a2]; exact hst, fm, fun _ => a1,
      (by intro e h; cases h), (by intro h; cases h)⟩
  | ready =>
    simp only
    have hs1 : w1.staging = [] := fr rfl
    have hp1 : pipe D lvl w1 = pipe D lvl w ++ stagedBytes D lvl w := by
      rw [← fc, stagedBytes_nil D lvl w1 hs1, List.append_nil]
    obtain ⟨t, tq⟩ := tryEmpty_spec D lvl w1 sd1 fg
    generalize tryEmpty D lvl w1 sd1 = r2 at t tq
    obtain ⟨w2, sd2, r⟩ := r2
    have tg := t.good; have tp := t.pipe; have ts := t.stag; have te := t.eofL; have tm := t.meas
    have tpd := t.pend
    simp only at tg tp ts te tm tpd tq
    have hs2 : w2.staging = [] := by rw [ts, hs1]
    have htot2 : total D lvl w2 = total D lvl w := by
      simp only [total, stagedBytes_nil D lvl w2 hs2, List.append_nil, tp, hp1, te, fe]
    cases r with
    | err e => exact absurd rfl (t.noerr e)
    | pending =>
      simp only
      exact ⟨tg, htot2, by rw [hs2]; intro h; simp at h, (by simp only; omega),
        fun _ => (by have := tpd rfl; simp only; omega),
        (by intro e h; cases h), (by intro h; cases h)⟩
    | ready =>
      simp only
      have hq2 : w2.queue = [] := tq rfl
      obtain ⟨d, dq, dr⟩ := dfReady_spec D lvl w2 sd2 tg
      generalize dfReady D lvl w2 sd2 = r3 at d dq dr
      obtain ⟨w3, sd3, r⟩ := r3
      have dg := d.good; have dp := d.pipe; have ds := d.stag; have de := d.eofL; have dm := d.meas
      have dpd := d.pend
      simp only at dg dp ds de dm dpd dq dr
      have hs3 : w3.staging = [] := by rw [ds, hs2]
      have htot3 : total D lvl w3 = total D lvl w := by
        rw [← htot2]
        simp only [total, stagedBytes_nil D lvl w3 hs3, stagedBytes_nil D lvl w2 hs2, dp, de]
      cases r with
      | err e => exact absurd rfl (d.noerr e)
      | pending =>
        simp only
        exact ⟨dg, htot3, by rw [hs3]; intro h; simp at h, (by simp only; omega),
          fun _ => (by have := dpd rfl; simp only; omega), (by intro e h; cases h), (by intro h; cases h)⟩
      | ready =>
        simp only
        obtain ⟨hsl3, hwb3⟩ := dr rfl
        have hq3 : w3.queue = [] := by rw [dq, hq2]
        obtain ⟨e1, e2, e3, e4, e5, e6, e7, e8, e9⟩ := eofWrite_spec sd3.sink w3
        generalize eofWrite sd3.sink w3 = r4 at e1 e2 e3 e4 e5 e6 e7 e8 e9
        obtain ⟨w4, sc4, r⟩ := r4
        simp only at e1 e2 e3 e4 e5 e6 e7 e8 e9 ⊢
        have hpipe3 : pipe D lvl w3 = w3.sink := by
          simp [pipe, hsl3, hwb3, hq3, slotBytes, queueBytes]
        have hpipe4 : pipe D lvl w4 = w4.sink := by
          simp [pipe, e2, e3, e5, hsl3, hwb3, hq3, slotBytes, queueBytes]
        have hs4 : w4.staging = [] := by rw [e4, hs3]
        have htot4 : total D lvl w4 = total D lvl w := by
          rw [← htot3]
          simp only [total, stagedBytes_nil D lvl w4 hs4, stagedBytes_nil D lvl w3 hs3, hpipe3, hpipe4,
            List.append_nil, e1]
        refine ⟨⟨by rw [e2]; exact dg.slot, by rw [e3]; exact dg.queue⟩, htot4,
          by rw [hs4]; intro h; simp at h, ?_, ?_, e8, ?_⟩
        · simp only [WSched.measure] at fm tm dm ⊢; omega
        · intro h; have := e7 h; simp only [WSched.measure] at fm tm dm ⊢; omega
        · intro h
          have hl := e9 h
          refine ⟨?_, by rw [e3, hq3], by rw [e2, hsl3], by rw [e5, hwb3], hs4, hl⟩
          rw [← htot4]
          simp only [total, stagedBytes_nil D lvl w4 hs4, hpipe4, hl, List.append_nil]

/-! ## the async writer submits the blocks the sync writer emits -/

/-- relation between the async writer `w` and the sync writer `ws` after the same calls: the sync
writer has already emitted a staging buffer that the async writer still holds full -/
structure RelW (D : Deflater) (lvl : Nat) (w : AW) (ws : Writer) : Prop where
  good : Good D lvl w
  eof : w.eofLeft = EOF_MARKER
  rel : (w.staging.length < MAX_BUF ∧ ws.staging = w.staging ∧ ws.sink = pipe D lvl w) ∨
        (w.staging.length = MAX_BUF ∧ ws.staging = [] ∧ ws.sink = pipe D lvl w ++ encT D lvl w.staging)

theorem RelW.len_le {D : Deflater} {lvl : Nat} {w : AW} {ws : Writer} (h : RelW D lvl w ws) :
    w.staging.length ≤ MAX_BUF := by
  rcases h.rel with ⟨a, _, _⟩ | ⟨a, _, _⟩ <;> omega

theorem RelW.ws_lt {D : Deflater} {lvl : Nat} {w : AW} {ws : Writer} (h : RelW D lvl w ws) :
    ws.staging.length < MAX_BUF := by
  rcases h.rel with ⟨a, b, _⟩ | ⟨a, b, _⟩
  · rw [b]; exact a
  · rw [b, MAX_BUF_eq]; simp

theorem flushBlock_enc (D : Deflater) (lvl : Nat) (ws : Writer) (he : Enc D lvl ws.staging) :
    ∃ ws', flushBlock D lvl ws = .ok ws' ∧ ws'.staging = [] ∧
      ws'.sink = ws.sink ++ encT D lvl ws.staging := by
  obtain ⟨c, fr, h1, h2⟩ := he
  unfold flushBlock
  simp only [h1, h2]
  exact ⟨_, rfl, rfl, by rw [encT_of_enc D lvl _ c fr h1 h2]⟩

theorem flush_enc (D : Deflater) (lvl : Nat) (ws : Writer)
    (he : ws.staging.isEmpty = false → Enc D lvl ws.staging) :
    ∃ ws', flush D lvl ws = .ok ws' ∧ ws'.staging = [] ∧
      ws'.sink = ws.sink ++ (if ws.staging.isEmpty then [] else encT D lvl ws.staging) := by
  unfold flush
  cases h : ws.staging.isEmpty with
  | true => exact ⟨ws, by simp, by simpa using h, by simp⟩
  | false =>
    obtain ⟨ws', a, b, c⟩ := flushBlock_enc D lvl ws (he h)
    exact ⟨ws', by simpa using a, b, by simpa using c⟩

theorem isEmpty_false_of_len {x : Bytes} (h : x.length = MAX_BUF) : x.isEmpty = false := by
  cases x with
  | nil => rw [MAX_BUF_eq] at h; simp at h
  | cons _ _ => rfl

/-- after a `Ready` `poll_flush` the async writer has caught up with the sync writer's `flush` -/
theorem flush_ready_sim (D : Deflater) (lvl : Nat) (hE : ∀ x, x.length ≤ MAX_BUF → Enc D lvl x)
    (w w1 : AW) (ws : Writer) (h : RelW D lvl w ws) (hg1 : Good D lvl w1)
    (he1 : w1.eofLeft = w.eofLeft) (hs1 : w1.staging = [])
    (hc : pipe D lvl w1 ++ stagedBytes D lvl w1 = pipe D lvl w ++ stagedBytes D lvl w) :
    ∃ ws', flush D lvl ws = .ok ws' ∧ RelW D lvl w1 ws' := by
  have hp1 : pipe D lvl w1 = pipe D lvl w ++ stagedBytes D lvl w := by
    rw [← hc, stagedBytes_nil D lvl w1 hs1, List.append_nil]
  obtain ⟨ws', f1, f2, f3⟩ := flush_enc D lvl ws (fun _ => hE _ (Nat.le_of_lt h.ws_lt))
  refine ⟨ws', f1, hg1, by rw [he1, h.eof], Or.inl ⟨by rw [hs1, MAX_BUF_eq]; simp, by rw [f2, hs1], ?_⟩⟩
  rw [f3, hp1]
  rcases h.rel with ⟨a, b, c⟩ | ⟨a, b, c⟩
  · rw [b, c]; simp only [stagedBytes]
  · rw [b, c]
    simp only [stagedBytes, isEmpty_false_of_len a, List.isEmpty_nil, if_true, List.append_nil,
      Bool.false_eq_true, if_false]

theorem driveFlush_sim (D : Deflater) (lvl cap : Nat) (hcap : 1 ≤ cap)
    (hE : ∀ x, x.length ≤ MAX_BUF → Enc D lvl x) (fuel : Nat) (w : AW) (sd : WSched) (ws : Writer)
    (h : RelW D lvl w ws) (hf : sd.measure < fuel) :
    ∃ w' sd' ws', driveFlush D lvl cap fuel w sd = .ok (w', sd') ∧ flush D lvl ws = .ok ws' ∧
      RelW D lvl w' ws' := by
  induction fuel generalizing w sd with
  | zero => omega
  | succ fuel ih =>
    unfold driveFlush
    have f := wFlush_spec D lvl cap hcap w sd h.good (fun _ => hE _ h.len_le)
    generalize wFlush D lvl cap w sd = r1 at f
    obtain ⟨w1, sd1, r⟩ := r1
    have fg := f.good; have fc := f.content; have fe := f.eofL; have fm := f.meas
    have fp := f.pend; have fr := f.ready
    simp only at fg fc fe fm fp fr
    cases r with
    | err e => exact absurd rfl (f.noerr e)
    | pending =>
      simp only
      obtain ⟨a1, a2, a3⟩ := fp rfl
      have h1 : RelW D lvl w1 ws := ⟨fg, by rw [fe, h.eof], by rw [a2, a3]; exact h.rel⟩
      exact ih w1 sd1 h1 (by omega)
    | ready =>
      simp only
      obtain ⟨ws', g1, g2⟩ := flush_ready_sim D lvl hE w w1 ws h fg fe (fr rfl) fc
      exact ⟨w1, sd1, ws', rfl, g1, g2⟩

theorem accept_sim (D : Deflater) (lvl : Nat) (hE : ∀ x, x.length ≤ MAX_BUF → Enc D lvl x)
    (w : AW) (ws : Writer) (buf : Bytes) (h : RelW D lvl w ws) (hlt : w.staging.length < MAX_BUF) :
    ∃ ws', write1 D lvl ws buf = .ok (ws', (accept w buf).2) ∧ RelW D lvl (accept w buf).1 ws' := by
  rcases h.rel with ⟨_, b, c⟩ | ⟨a, _, _⟩
  · unfold write1 accept
    simp only [b]
    by_cases hl : (w.staging ++ buf.take (min (MAX_BUF - w.staging.length) buf.length)).length < MAX_BUF
    · rw [if_pos hl]
      exact ⟨_, rfl, ⟨h.good.slot, h.good.queue⟩, h.eof, Or.inl ⟨hl, rfl, c⟩⟩
    · rw [if_neg hl]
      have hlen : (w.staging ++ buf.take (min (MAX_BUF - w.staging.length) buf.length)).length = MAX_BUF := by
        simp only [List.length_append, List.length_take] at hl ⊢; omega
      obtain ⟨ws', f1, f2, f3⟩ := flush_enc D lvl
        { ws with staging := w.staging ++ buf.take (min (MAX_BUF - w.staging.length) buf.length) }
        (fun _ => hE _ (by simp only; omega))
      simp only at f1 f2 f3
      rw [f1]
      refine ⟨ws', rfl, ⟨h.good.slot, h.good.queue⟩, h.eof, Or.inr ⟨hlen, f2, ?_⟩⟩
      rw [f3, isEmpty_false_of_len hlen, c]
      simp [pipe]
  · omega

theorem driveWrite_sim (D : Deflater) (lvl cap : Nat) (hcap : 1 ≤ cap)
    (hE : ∀ x, x.length ≤ MAX_BUF → Enc D lvl x) (buf : Bytes) (fuel : Nat) (w : AW) (sd : WSched)
    (ws : Writer) (h : RelW D lvl w ws) (hf : sd.measure < fuel) :
    ∃ w' sd' ws' amt, driveWrite D lvl cap buf fuel w sd = .ok (w', sd', amt) ∧
      write1 D lvl ws buf = .ok (ws', amt) ∧ RelW D lvl w' ws' := by
  induction fuel generalizing w sd with
  | zero => omega
  | succ fuel ih =>
    unfold driveWrite wWrite
    by_cases hlt : w.staging.length < MAX_BUF
    · rw [if_pos hlt]
      simp only
      obtain ⟨ws', a, b⟩ := accept_sim D lvl hE w ws buf h hlt
      exact ⟨_, _, ws', _, rfl, a, b⟩
    · rw [if_neg hlt]
      have f := wFlush_spec D lvl cap hcap w sd h.good (fun _ => hE _ h.len_le)
      generalize wFlush D lvl cap w sd = r1 at f
      obtain ⟨w1, sd1, r⟩ := r1
      have fg := f.good; have fc := f.content; have fe := f.eofL; have fm := f.meas
      have fp := f.pend; have fr := f.ready
      simp only at fg fc fe fm fp fr
      cases r with
      | err e => exact absurd rfl (f.noerr e)
      | pending =>
        simp only
        obtain ⟨a1, a2, a3⟩ := fp rfl
        have h1 : RelW D lvl w1 ws := ⟨fg, by rw [fe, h.eof], by rw [a2, a3]; exact h.rel⟩
        exact ih w1 sd1 h1 (by omega)
      | ready =>
        simp only
        -- the sync writer flushed this block when it filled up: its `flush` is now a no-op
        obtain ⟨ws', g1, g2⟩ := flush_ready_sim D lvl hE w w1 ws h fg fe (fr rfl) fc
        have hws : ws' = ws := by
          rcases h.rel with ⟨a, _, _⟩ | ⟨_, b, _⟩
          · omega
          · unfold flush at g1; rw [b] at g1; simp at g1; exact g1.symm
        subst hws
        have hlt1 : w1.staging.length < MAX_BUF := by rw [fr rfl, MAX_BUF_eq]; simp
        obtain ⟨ws2, a, b⟩ := accept_sim D lvl hE w1 ws' buf g2 hlt1
        exact ⟨_, _, ws2, _, rfl, a, b⟩

theorem writeAll_sim (D : Deflater) (lvl cap : Nat) (hcap : 1 ≤ cap)
    (hE : ∀ x, x.length ≤ MAX_BUF → Enc D lvl x) (fuel : Nat) (w : AW) (sd : WSched) (ws ws' : Writer)
    (buf : Bytes) (h : RelW D lvl w ws) (hs : writeAll D lvl fuel ws buf = .ok ws') :
    ∃ w' sd', writeAllA D lvl cap fuel w sd buf = .ok (w', sd') ∧ RelW D lvl w' ws' := by
  induction fuel generalizing w sd ws buf with
  | zero =>
    unfold writeAll at hs
    unfold writeAllA
    by_cases hb : buf.isEmpty
    · rw [if_pos hb] at hs ⊢; cases hs; exact ⟨w, sd, rfl, h⟩
    · rw [if_neg hb] at hs; cases hs
  | succ fuel ih =>
    unfold writeAll at hs
    unfold writeAllA
    by_cases hb : buf.isEmpty
    · rw [if_pos hb] at hs ⊢; cases hs; exact ⟨w, sd, rfl, h⟩
    · rw [if_neg hb] at hs ⊢
      obtain ⟨w1, sd1, ws1, amt, d1, d2, d3⟩ :=
        driveWrite_sim D lvl cap hcap hE buf (sd.measure + 1) w sd ws h (by omega)
      rw [d2] at hs
      simp only at hs
      rw [d1]
      simp only
      by_cases ha : amt = 0
      · rw [if_pos ha] at hs; cases hs
      · rw [if_neg ha] at hs ⊢
        exact ih w1 sd1 ws1 (buf.drop amt) d3 hs

theorem run_sim (D : Deflater) (lvl cap : Nat) (hcap : 1 ≤ cap)
    (hE : ∀ x, x.length ≤ MAX_BUF → Enc D lvl x) (ops : List Op) (w : AW) (sd : WSched)
    (ws ws' : Writer) (h : RelW D lvl w ws) (hs : run D lvl ws ops = .ok ws') :
    ∃ w' sd', runAW D lvl cap w sd ops = .ok (w', sd') ∧ RelW D lvl w' ws' := by
  induction ops generalizing w sd ws with
  | nil => unfold run at hs; cases hs; exact ⟨w, sd, rfl, h⟩
  | cons op ops ih =>
    unfold run at hs
    unfold runAW
    cases hst : step D lvl ws op with
    | error e => rw [hst] at hs; cases hs
    | ok ws1 =>
      rw [hst] at hs
      simp only at hs
      have : ∃ w1 sd1, stepAW D lvl cap w sd op = .ok (w1, sd1) ∧ RelW D lvl w1 ws1 := by
        cases op with
        | write b => exact writeAll_sim D lvl cap hcap hE (b.length + 1) w sd ws ws1 b h hst
        | flush =>
          obtain ⟨w1, sd1, ws1', a, b, c⟩ :=
            driveFlush_sim D lvl cap hcap hE (sd.measure + 1) w sd ws h (by omega)
          simp only [step] at hst
          rw [hst] at b; cases b
          exact ⟨w1, sd1, a, c⟩
      obtain ⟨w1, sd1, a, b⟩ := this
      rw [a]
      exact ih w1 sd1 ws1 b hs

theorem driveShutdown_spec (D : Deflater) (lvl cap : Nat) (hcap : 1 ≤ cap) (fuel : Nat) (w : AW)
    (sd : WSched) (hg : Good D lvl w) (hst : w.staging.isEmpty = false → Enc D lvl w.staging)
    (hf : sd.measure < fuel) :
    ∃ w' sd', driveShutdown D lvl cap fuel w sd = .ok (w', sd') ∧ w'.sink = total D lvl w ∧
      w'.queue = [] ∧ w'.slot = none ∧ w'.wbuf = [] ∧ w'.staging = [] ∧ w'.eofLeft = [] := by
  induction fuel generalizing w sd with
  | zero => omega
  | succ fuel ih =>
    unfold driveShutdown
    have s := wShutdown_spec D lvl cap hcap w sd hg hst
    generalize wShutdown D lvl cap w sd = r1 at s
    obtain ⟨w1, sd1, r⟩ := r1
    have sg := s.good; have st := s.total; have so := s.stOK; have sm := s.meas
    have sp := s.pend; have sr := s.ready
    simp only at sg st so sm sp sr
    cases r with
    | err e => exact absurd rfl (s.noerr e)
    | pending =>
      simp only
      obtain ⟨w', sd', a, b, c⟩ := ih w1 sd1 sg so (by have := sp rfl; omega)
      exact ⟨w', sd', a, by rw [b, st], c⟩
    | ready =>
      simp only
      exact ⟨w1, sd1, rfl, sr rfl⟩

theorem relW_init (D : Deflater) (lvl : Nat) : RelW D lvl AW.init Writer.init :=
  ⟨⟨(by intro x hx; cases hx), (by intro x hx; cases hx)⟩, rfl,
    Or.inl ⟨by rw [MAX_BUF_eq]; simp [AW.init], rfl, rfl⟩⟩

/-- the sink of the sync writer after `finish`, in terms of the related async state -/
theorem finish_sim (D : Deflater) (lvl : Nat) (hE : ∀ x, x.length ≤ MAX_BUF → Enc D lvl x)
    (w : AW) (ws : Writer) (h : RelW D lvl w ws) :
    ∃ ws', finish D lvl ws = .ok ws' ∧ ws'.sink = total D lvl w := by
  obtain ⟨ws1, f1, _, f3⟩ := flush_enc D lvl ws (fun _ => hE _ (Nat.le_of_lt h.ws_lt))
  unfold finish
  rw [f1]
  refine ⟨_, rfl, ?_⟩
  simp only [f3, total, h.eof]
  rcases h.rel with ⟨a, b, c⟩ | ⟨a, b, c⟩
  · rw [b, c]; simp only [stagedBytes]
  · rw [b, c]
    simp only [stagedBytes, isEmpty_false_of_len a, List.isEmpty_nil, if_true, List.append_nil,
      Bool.false_eq_true, if_false]

end Noodles.Bgzf.AW
